(** The model agrees with the declarative reading of the property (Extract/Decl.v): same keys, same classes,
    same survivors, same translated elements, and the keys of the result are the expected keys. *)
From Coq Require Import Strings.String.
From Coq Require Import List Bool NArith ZArith Lia.
From DV Require Import Common.Res Common.Str Common.PyNum Generated.T_extract Extract.Model Extract.ProofsStr Extract.Spec
  Extract.ProofsDict Extract.ProofsLoop Extract.ProofsInj Extract.ProofsMain Extract.Decl.
Import ListNotations.
Local Open Scope N_scope.

(** * Characters, blank text, keys *)

Lemma is_space_py c : is_space c = py_isspace c.
Proof. reflexivity. Qed.

Lemma d_blank_eq v : d_blank v = is_blank_str v.
Proof. destruct v as [| [] s | | | | | | |]; reflexivity. Qed.

Lemma cap_first_app t w : t <> [] -> cap_first (t ++ w) = cap_first t ++ w.
Proof. destruct t; [contradiction | reflexivity]. Qed.

Lemma camel_aux : forall s cur,
  concat (map cap_first (split_ws_aux s cur)) =
  match cur with [] => d_camel true s | _ => cap_first (rev cur) ++ d_camel false s end.
Proof.
  induction s as [|c r IH]; intros cur.
  - destruct cur; simpl; [reflexivity | rewrite app_nil_r; reflexivity].
  - simpl. change (py_isspace c) with (is_space c). destruct (is_space c).
    + destruct cur as [|a cur']; simpl.
      * apply (IH []).
      * rewrite (IH []). reflexivity.
    + rewrite (IH (c :: cur)). destruct cur as [|a cur'].
      * reflexivity.
      * change (rev (c :: a :: cur')) with (rev (a :: cur') ++ [c]).
        rewrite cap_first_app.
        -- rewrite <- app_assoc. reflexivity.
        -- simpl. intros H. apply app_eq_nil in H. destruct H as [_ H]. discriminate H.
Qed.

Ltac bits p := repeat (destruct p as [p|p|]; try reflexivity).

Lemma match91 {A} (c : N) (x y : A) : match c with 91 => x | _ => y end = if c =? 91 then x else y.
Proof.
  destruct (N.eqb_spec c 91) as [->|Hne]; [reflexivity|].
  destruct c as [|p]; [reflexivity|]. bits p. exfalso. apply Hne. reflexivity.
Qed.

Lemma match93 {A} (c : N) (x y : A) : match c with 93 => x | _ => y end = if c =? 93 then x else y.
Proof.
  destruct (N.eqb_spec c 93) as [->|Hne]; [reflexivity|].
  destruct c as [|p]; [reflexivity|]. bits p. exfalso. apply Hne. reflexivity.
Qed.

Lemma d_strip_eq s : d_strip s = strip_brackets s.
Proof.
  destruct s as [|c r]; [reflexivity|]. unfold d_strip, strip_brackets.
  rewrite !match91. destruct (c =? 91); [|reflexivity].
  destruct r as [|a r']; [reflexivity|].
  set (r := a :: r'). assert (Hr : r <> []) by discriminate.
  assert (Hrev : rev r = last r 0 :: rev (removelast r)).
  { rewrite (app_removelast_last 0 Hr) at 1. rewrite rev_app_distr. reflexivity. }
  rewrite Hrev. rewrite match93. destruct (last r 0 =? 93); [|reflexivity].
  rewrite rev_involutive. reflexivity.
Qed.

Lemma d_key_eq i : d_key i = get_elem_key i.
Proof.
  unfold d_key, get_elem_key, camel, split_ws. destruct (e_keyword i); [|reflexivity].
  rewrite camel_aux. rewrite d_strip_eq. reflexivity.
Qed.

(** what the key mapping guarantees: no whitespace in a camel-cased key *)
Lemma d_camel_no_space : forall s b c, In c (d_camel b s) -> py_isspace c = false \/ exists c0, In c0 s /\ py_isspace c0 = false /\ c = to_upper c0.
Proof.
  induction s as [|a s IH]; intros b c H; simpl in H; [contradiction|].
  destruct (py_isspace a) eqn:Ea.
  - destruct (IH _ _ H) as [H1 | [c0 [H1 [H2 H3]]]]; [left; exact H1 | right; exists c0; split; [right; exact H1 | split; assumption]].
  - destruct H as [<- | H].
    + destruct b; [right; exists a; split; [left; reflexivity | split; [exact Ea | reflexivity]] | left; exact Ea].
    + destruct (IH _ _ H) as [H1 | [c0 [H1 [H2 H3]]]]; [left; exact H1 | right; exists c0; split; [right; exact H1 | split; assumption]].
Qed.

(** * Ignore rules *)

Lemma odd_mod2 g : (g mod 2 =? 1) = N.odd g.
Proof.
  rewrite <- N.bit0_mod, <- N.bit0_odd. destruct (N.testbit g 0); reflexivity.
Qed.

Lemma existsb_same_elems (l1 l2 : list N) x : (forall y, In y l1 <-> In y l2) -> existsb (N.eqb x) l1 = existsb (N.eqb x) l2.
Proof.
  intros H. destruct (existsb (N.eqb x) l1) eqn:E1; symmetry.
  - apply existsb_exists in E1. destruct E1 as [y [Hy Hxy]]. apply existsb_exists. exists y. split; [apply H; exact Hy | exact Hxy].
  - destruct (existsb (N.eqb x) l2) eqn:E2; [|reflexivity].
    apply existsb_exists in E2. destruct E2 as [y [Hy Hxy]].
    assert (existsb (N.eqb x) l1 = true) by (apply existsb_exists; exists y; split; [apply H; exact Hy | exact Hxy]). congruence.
Qed.

(** table facts: the generated constants are the ones the declarative rules name (element lists in any order) *)
Lemma pixel_table : pixel_group = 0x7fe0 /\ forall y, In y pixel_elems <-> In y [0x0008; 0x0009; 0x0010].
Proof. split; [reflexivity | intros y; simpl; tauto]. Qed.
Lemma lut_table : lut_group = 0x0028 /\ forall y, In y lut_elems <-> In y [0x1201; 0x1202; 0x1203; 0x1221; 0x1222; 0x1223].
Proof. split; [reflexivity | intros y; simpl; tauto]. Qed.
Lemma overlay_table : overlay_mask = 0xff00 /\ overlay_group = 0x6000 /\ overlay_elem = 0x3000.
Proof. repeat split; reflexivity. Qed.
Lemma private_table : private_mod = 2 /\ private_rem = 1.
Proof. split; reflexivity. Qed.

Lemma d_rule_eq r t : d_rule r t = apply_rule r t.
Proof.
  destruct t as [g el]. destruct r; unfold d_rule, apply_rule; simpl fst; simpl snd.
  - destruct private_table as [-> ->]. symmetry. apply odd_mod2.
  - destruct pixel_table as [-> H]. rewrite (existsb_same_elems _ _ el H). reflexivity.
  - destruct overlay_table as [-> [-> ->]]. reflexivity.
  - destruct lut_table as [-> H]. rewrite (existsb_same_elems _ _ el H). reflexivity.
Qed.

Lemma d_ignored_eq cfg t : d_ignored cfg t = ignored cfg t.
Proof.
  unfold d_ignored, ignored. induction (c_rules cfg) as [|r l IH]; simpl; [reflexivity | rewrite d_rule_eq, IH; reflexivity].
Qed.

(** * No value *)

Lemma d_novalue_eq cfg e v : get_elem_value cfg e = Ok v -> d_novalue cfg e = match v with VNone => true | _ => false end.
Proof.
  destruct e as [i x]. unfold get_elem_value, d_novalue. cbn [fst snd].
  destruct (vr_unpackable (e_vr i) && is_py_str x); [discriminate|].
  destruct (1 <? e_vm i)%nat eqn:Hvm.
  - assert ((e_vm i =? 1)%nat = false) as E1 by (apply Nat.eqb_neq; apply Nat.ltb_lt in Hvm; lia).
    destruct x as [| | | | | cl l | | |]; try discriminate.
    destruct (dget (e_vr i) (c_convs cfg)) as [c|]; [|intros H; injection H as <-; reflexivity].
    rewrite E1. simpl. destruct (mapM (conv_apply (c_get_text cfg) c) l); [|discriminate]. intros H. injection H as <-. reflexivity.
  - destruct (dget (e_vr i) (c_convs cfg)) as [c|].
    + destruct x as [| cs s | ci z | cn y tok | b | cl l | items | kvs | ty rp];
        try (intros H; injection H as <-; reflexivity).
      all: destruct (e_vm i =? 1)%nat eqn:E1.
      all: try (destruct c; simpl; try discriminate).
      all: try (destruct cs; simpl; try discriminate).
      all: try (destruct ci; simpl; try discriminate).
      all: try (destruct cn; simpl; try discriminate).
      all: try (intros H; injection H as <-; reflexivity).
      all: try (destruct (int_float_tok z); [intros H; injection H as <-; reflexivity | discriminate]).
      all: try (destruct (c_get_text cfg b); intros H; injection H as <-; reflexivity).
      all: try (destruct s; [|discriminate]; intros H; injection H as <-; reflexivity).
      all: try (destruct b; [|discriminate]; intros H; injection H as <-; reflexivity).
      all: try (destruct (mapM _ l); [|discriminate]; intros H; injection H as <-; reflexivity).
    + intros H. injection H as <-. destruct x; try reflexivity.
      apply andb_false_r.
Qed.

(** * Slot arithmetic *)

Lemma lor_low_high a c : N.lor (a mod 256) (c * 256) = c * 256 + a mod 256.
Proof.
  rewrite N.add_comm. rewrite N.add_nocarry_lxor.
  - symmetry. apply N.lxor_lor. apply N.bits_inj. intros n. rewrite N.land_spec, N.bits_0.
    destruct (N.lt_ge_cases n 8) as [Hn | Hn].
    + change 256 with (2 ^ 8). rewrite (N.mul_pow2_bits_low c 8 n Hn). apply andb_false_r.
    + change 256 with (2 ^ 8). rewrite (N.mod_pow2_bits_high a 8 n Hn). reflexivity.
  - apply N.bits_inj. intros n. rewrite N.land_spec, N.bits_0.
    destruct (N.lt_ge_cases n 8) as [Hn | Hn].
    + change 256 with (2 ^ 8). rewrite (N.mul_pow2_bits_low c 8 n Hn). apply andb_false_r.
    + change 256 with (2 ^ 8). rewrite (N.mod_pow2_bits_high a 8 n Hn). reflexivity.
Qed.

Lemma slot_value tl ce : N.lor (N.land tl 255) (ce * 256) = ce * 256 + tl mod 256.
Proof. change 255 with (N.ones 8). rewrite N.land_ones. change (2 ^ 8) with 256. apply lor_low_high. Qed.

(** (translator.tag.elem & 0xff) | (creator.elem * 16**2) = el   iff   el >> 8 = creator.elem and el & 0xff = translator low byte *)
Lemma slot_arith tl ce el :
  (el =? N.lor (N.land tl 255) (ce * 256)) = (el / 256 =? ce) && (el mod 256 =? tl mod 256).
Proof.
  rewrite slot_value.
  assert (Hlt : tl mod 256 < 256) by (apply N.mod_lt; discriminate).
  destruct (N.eqb_spec el (ce * 256 + tl mod 256)) as [->|Hne].
  - rewrite N.div_add_l by discriminate. rewrite (N.div_small _ _ Hlt), N.add_0_r, N.eqb_refl.
    rewrite N.add_comm, N.mod_add by discriminate. rewrite N.mod_mod by discriminate. rewrite N.eqb_refl. reflexivity.
  - destruct (N.eqb_spec (el / 256) ce) as [Hd|Hd]; [|reflexivity].
    destruct (N.eqb_spec (el mod 256) (tl mod 256)) as [Hm|Hm]; [|reflexivity].
    exfalso. apply Hne. rewrite (N.div_mod el 256) at 1 by discriminate. rewrite Hd, Hm. lia.
Qed.

(** * The slot map in closed form *)

Definition slots_ts (ts : list translator) (c : elem) : tmap :=
  flat_map (fun t => if creator_matches t (snd c) then [(slot_tag (etag c) t, t)] else []) ts.

Definition slots (cfg : config) (c : elem) : tmap :=
  if is_blank_str (snd c) then []
  else if str_eqb (e_name (fst c)) private_creator_name then slots_ts (c_translators cfg) c else [].

Lemma register_all_closed : forall ts creator v m m',
  register_all ts creator v m = Ok m' ->
  m' = m ++ flat_map (fun t => if creator_matches t v then [(slot_tag creator t, t)] else []) ts.
Proof.
  induction ts as [|t ts IH]; simpl; intros creator v m m' H.
  - injection H as <-. rewrite app_nil_r. reflexivity.
  - destruct (creator_matches t v).
    + destruct (map_get (slot_tag creator t) m); [discriminate|].
      rewrite (IH _ _ _ _ H). rewrite <- app_assoc. reflexivity.
    + apply (IH _ _ _ _ H).
Qed.

Lemma reg_elem_closed cfg m e m' : reg_elem cfg m e = Ok m' -> m' = m ++ slots cfg e.
Proof.
  unfold reg_elem, register, slots. destruct (is_blank_str (snd e)).
  - intros H. injection H as <-. rewrite app_nil_r. reflexivity.
  - destruct (str_eqb (e_name (fst e)) private_creator_name).
    + intros H. apply register_all_closed in H. exact H.
    + intros H. injection H as <-. rewrite app_nil_r. reflexivity.
Qed.

Lemma tmap_from_closed cfg : forall ds m m', tmap_from cfg m ds = Ok m' -> m' = m ++ flat_map (slots cfg) ds.
Proof.
  induction ds as [|e ds IH]; simpl; intros m m' H.
  - injection H as <-. rewrite app_nil_r. reflexivity.
  - destruct (reg_elem cfg m e) as [m1|] eqn:Hreg; [|discriminate].
    rewrite (IH _ _ H), (reg_elem_closed _ _ _ _ Hreg), <- app_assoc. reflexivity.
Qed.

Lemma tmap_from_app cfg : forall a b m m', tmap_from cfg m (a ++ b) = Ok m' ->
  exists m1, tmap_from cfg m a = Ok m1 /\ tmap_from cfg m1 b = Ok m'.
Proof.
  induction a as [|e a IH]; simpl; intros b m m' H.
  - exists m. split; [reflexivity | exact H].
  - destruct (reg_elem cfg m e) as [m1|]; [|discriminate]. apply (IH _ _ _ H).
Qed.

Lemma tmap_from_app_intro cfg : forall a b m m1 m', tmap_from cfg m a = Ok m1 -> tmap_from cfg m1 b = Ok m' -> tmap_from cfg m (a ++ b) = Ok m'.
Proof.
  induction a as [|e a IH]; simpl; intros b m m1 m' Ha Hb.
  - injection Ha as <-. exact Hb.
  - destruct (reg_elem cfg m e) as [m2|]; [|discriminate]. apply (IH _ _ _ _ Ha Hb).
Qed.

Lemma map_get_app t : forall a b : tmap, map_get t (a ++ b) = match map_get t a with Some x => Some x | None => map_get t b end.
Proof.
  induction a as [|[t' x] a IH]; intros b; simpl; [reflexivity|]. destruct (tag_eqb t t'); [reflexivity | apply IH].
Qed.

Lemma first_some_none {A B} (f : A -> option B) l : (forall a, In a l -> f a = None) -> first_some f l = None.
Proof.
  induction l as [|a l IH]; simpl; intros H; [reflexivity|].
  rewrite (H a (or_introl eq_refl)). apply IH. intros b Hb. apply H. right. exact Hb.
Qed.

Definition name_ok (c : elem) : Prop :=
  str_eqb (e_name (fst c)) private_creator_name = d_creator_tag (etag c).

Lemma creator_matches_text t v :
  creator_matches t v = match d_text v with Some s => str_eqb (t_creator t) s | None => false end.
Proof. destruct v; reflexivity. Qed.

Lemma d_claims_unfold c e t :
  d_claims c e t =
  d_creator_tag (etag c) && negb (is_blank_str (snd c)) && creator_matches t (snd c) &&
  (fst (etag e) =? fst (etag c)) && (snd (etag e) / 256 =? snd (etag c)) && (snd (etag e) mod 256 =? snd (t_tag t) mod 256).
Proof. unfold d_claims. change (d_blank (snd c)) with (is_blank_str (snd c)). rewrite creator_matches_text. reflexivity. Qed.

(** one creator element: looking the tag of [e] up among the slots it binds = the first translator that claims [e] *)
Lemma slots_claim cfg c e : name_ok c ->
  map_get (etag e) (slots cfg c) = first_some (fun t => if d_claims c e t then Some t else None) (c_translators cfg).
Proof.
  intros Hn. unfold name_ok in Hn. unfold slots.
  destruct (is_blank_str (snd c)) eqn:Hb.
  { symmetry. apply first_some_none. intros t _. rewrite d_claims_unfold, Hb. simpl. rewrite andb_false_r. reflexivity. }
  rewrite Hn. destruct (d_creator_tag (etag c)) eqn:Hc.
  2: { symmetry. apply first_some_none. intros t _. rewrite d_claims_unfold, Hc. reflexivity. }
  unfold slots_ts. induction (c_translators cfg) as [|t ts IH]; [reflexivity|].
  simpl flat_map. simpl first_some. rewrite map_get_app, IH. clear IH.
  rewrite d_claims_unfold, Hc, Hb. simpl andb.
  destruct (creator_matches t (snd c)); [|reflexivity].
  simpl. unfold tag_eqb, slot_tag. simpl fst. simpl snd. rewrite slot_arith.
  destruct (fst (etag e) =? fst (etag c)); [|reflexivity].
  destruct (snd (etag e) / 256 =? snd (etag c)); [|reflexivity].
  destruct (snd (etag e) mod 256 =? snd (t_tag t) mod 256); reflexivity.
Qed.

(** an element never claims itself *)
Lemma slots_self cfg e : name_ok e -> map_get (etag e) (slots cfg e) = None.
Proof.
  intros Hn. rewrite (slots_claim cfg e e Hn). apply first_some_none. intros t _.
  rewrite d_claims_unfold. destruct (d_creator_tag (etag e)) eqn:Hc; [|reflexivity].
  destruct (snd (etag e) / 256 =? snd (etag e)) eqn:E; [|rewrite andb_false_r; reflexivity].
  exfalso. apply N.eqb_eq in E. unfold d_creator_tag in Hc.
  apply andb_true_iff in Hc. destruct Hc as [Hc _]. apply andb_true_iff in Hc. destruct Hc as [_ Hc].
  apply N.leb_le in Hc.
  assert (snd (etag e) / 256 < snd (etag e)) by (apply N.div_lt; lia). lia.
Qed.

Lemma map_get_flat cfg e : forall pre, (forall c, In c pre -> name_ok c) ->
  map_get (etag e) (flat_map (slots cfg) pre) = d_claim cfg pre e.
Proof.
  unfold d_claim. induction pre as [|c pre IH]; intros H; simpl; [reflexivity|].
  rewrite map_get_app, (slots_claim cfg c e (H c (or_introl eq_refl))), IH; [reflexivity|].
  intros c' Hc'. apply H. right. exact Hc'.
Qed.

Lemma names_wf_spec ds : names_wf ds = true -> forall c, In c ds -> name_ok c.
Proof.
  unfold names_wf, name_ok. intros H c Hc. rewrite forallb_forall in H. apply eqb_prop. apply (H c Hc).
Qed.

Lemma claim_agree cfg pre e m :
  names_wf (pre ++ [e]) = true -> tmap_from cfg [] (pre ++ [e]) = Ok m -> map_get (etag e) m = d_claim cfg pre e.
Proof.
  intros Hwf Hm. pose proof (names_wf_spec _ Hwf) as Hn.
  rewrite (tmap_from_closed _ _ _ _ Hm). simpl. rewrite flat_map_app, map_get_app. simpl. rewrite app_nil_r.
  rewrite (map_get_flat cfg e pre) by (intros c Hc; apply Hn; apply in_or_app; left; exact Hc).
  destruct (d_claim cfg pre e); [reflexivity|].
  apply slots_self. apply Hn. apply in_or_app. right. left. reflexivity.
Qed.

(** * Classes *)

Lemma kind_agree cfg pre e m :
  names_wf (pre ++ [e]) = true -> tmap_from cfg [] (pre ++ [e]) = Ok m ->
  (kind_of cfg m e = KPlain \/ kind_of cfg m e = KNoValue -> exists v, get_elem_value cfg e = Ok v) ->
  kind_of cfg m e = d_kind cfg pre e.
Proof.
  intros Hwf Hm Hok. unfold d_kind. pose proof Hok as Hok'. unfold kind_of in *.
  change (d_blank (snd e)) with (is_blank_str (snd e)). rewrite <- (claim_agree cfg pre e m Hwf Hm), d_ignored_eq.
  destruct (is_blank_str (snd e)); [reflexivity|].
  destruct (map_get (etag e) m); [reflexivity|].
  destruct (ignored cfg (etag e)); [reflexivity|].
  destruct (snd e) as [| | | | | |[|it items]| |] eqn:Ev; try reflexivity.
  all: destruct (get_elem_value cfg e) as [gv|er] eqn:Hv;
    [rewrite (d_novalue_eq cfg e gv Hv); destruct gv; reflexivity |
     exfalso; destruct Hok as [gv' Hv']; [left; reflexivity | discriminate Hv']].
Qed.

(** the loop succeeded on [rest] from the state reached after [pre]: every plain element's value is defined *)
Lemma loop_values_ok cfg rec : forall ds st st',
  run_loop (step cfg rec) st ds = Ok st' ->
  forall pre e post m1, ds = pre ++ e :: post -> tmap_from cfg (s_map st) (pre ++ [e]) = Ok m1 ->
    (kind_of cfg m1 e = KPlain \/ kind_of cfg m1 e = KNoValue) -> exists v, get_elem_value cfg e = Ok v.
Proof.
  induction ds as [|a ds IH]; intros st st' H pre e post m1 Hds Hm Hk.
  - destruct pre; discriminate Hds.
  - simpl in H. destruct (step cfg rec st a) as [st1|] eqn:Hstep; [|discriminate].
    destruct pre as [|b pre]; simpl in Hds; injection Hds as -> ->.
    + simpl in Hm. destruct (reg_elem cfg (s_map st) e) as [m'|] eqn:Hreg; [|discriminate]. injection Hm as <-.
      (* unfold the step on e *)
      clear IH H. destruct e as [i v]. unfold step in Hstep. unfold reg_elem in Hreg. cbn [fst snd] in *.
      unfold kind_of, etag in Hk. cbn [fst snd] in Hk.
      destruct (is_blank_str v); [destruct Hk as [Hk|Hk]; discriminate Hk|].
      rewrite Hreg in Hstep.
      destruct (map_get (e_tag i) m'); [destruct Hk as [Hk|Hk]; discriminate Hk|].
      destruct (ignored cfg (e_tag i)); [destruct Hk as [Hk|Hk]; discriminate Hk|].
      destruct v as [| | | | | |[|it items]| |]; try (destruct Hk as [Hk|Hk]; discriminate Hk);
        (destruct (get_elem_value cfg (i, _)) as [v'|]; [exists v'; reflexivity | discriminate Hstep]).
    + simpl in Hm. destruct (reg_elem cfg (s_map st) b) as [m'|] eqn:Hreg; [|discriminate].
      apply step_spec in Hstep. destruct Hstep as [Hreg' _]. rewrite Hreg in Hreg'. injection Hreg' as ->.
      apply (IH st1 st' H pre e post m1 eq_refl Hm Hk).
Qed.

Section Agree.
  Variable cfg : config.
  Variable rec : dataset -> res dict.

  (** generalised over the prefix: the model threads the slot map, the declarative reading looks back at the prefix *)
  Lemma scan_agree : forall rest pre m st st',
    names_wf (pre ++ rest) = true ->
    tmap_from cfg [] pre = Ok m -> s_map st = m ->
    run_loop (step cfg rec) st rest = Ok st' ->
    kinds_from cfg m rest = d_kinds cfg pre rest /\
    survivors_from cfg m rest = d_survivors cfg pre rest /\
    translated_from cfg m rest = d_translated cfg pre rest.
  Proof.
    induction rest as [|e rest IH]; intros pre m st st' Hwf Hpre Hst Hrun; [repeat split; reflexivity|].
    pose proof Hrun as Hrun0.
    simpl in Hrun. destruct (step cfg rec st e) as [st1|] eqn:Hstep; [|discriminate].
    pose proof (step_spec _ _ _ _ _ Hstep) as [Hreg _]. rewrite Hst in Hreg.
    assert (Hpre1 : tmap_from cfg [] (pre ++ [e]) = Ok (s_map st1)).
    { apply (tmap_from_app_intro cfg pre [e] [] m); [exact Hpre|]. simpl. rewrite Hreg. reflexivity. }
    assert (Hwf1 : names_wf (pre ++ [e]) = true).
    { unfold names_wf in *. rewrite forallb_app in *. apply andb_true_iff in Hwf. destruct Hwf as [H1 H2].
      simpl in H2. apply andb_true_iff in H2. destruct H2 as [H2 _]. rewrite H1. simpl. rewrite H2. reflexivity. }
    assert (Hk : kind_of cfg (s_map st1) e = d_kind cfg pre e).
    { apply (kind_agree cfg pre e (s_map st1) Hwf1 Hpre1).
      intros Hk. apply (loop_values_ok cfg rec (e :: rest) st st' Hrun0 [] e rest (s_map st1) eq_refl); [|exact Hk].
      simpl. rewrite Hst, Hreg. reflexivity. }
    assert (Hc : map_get (etag e) (s_map st1) = d_claim cfg pre e) by (apply claim_agree; assumption).
    destruct (IH (pre ++ [e]) (s_map st1) st1 st') as [I1 [I2 I3]]; try assumption; try reflexivity.
    { rewrite <- app_assoc. exact Hwf. }
    simpl. rewrite (next_map_ok _ _ _ _ Hreg). rewrite Hk, Hc, I1, I2, I3.
    split; [reflexivity|]. split; [|reflexivity].
    destruct (d_kind cfg pre e); reflexivity.
  Qed.
End Agree.

(** * Keys of the standard entries *)

Lemma str_eqb_sym a b : str_eqb a b = str_eqb b a.
Proof. destruct (str_eqb_spec a b) as [->|H]; [symmetry; apply str_eqb_refl|]. destruct (str_eqb_spec b a) as [->|_]; [contradiction H; reflexivity | reflexivity]. Qed.

Lemma filter_map_length {X Y} (f : X -> Y) (p : Y -> bool) l : length (filter p (map f l)) = length (filter (fun x => p (f x)) l).
Proof. induction l as [|a l IH]; simpl; [reflexivity|]. destruct (p (f a)); simpl; rewrite IH; reflexivity. Qed.

Lemma final_keys_disambiguate std :
  map (final_key std) std = d_disambiguate (map (fun x => (std_name x, std_tag x)) std).
Proof.
  unfold d_disambiguate. rewrite map_map. apply map_ext. intros x. unfold final_key, count_name. simpl fst. simpl snd.
  rewrite map_map, filter_map_length. simpl.
  replace (filter (fun x0 => str_eqb (std_name x) (std_name x0)) std) with (filter (fun x0 => str_eqb (std_name x0) (std_name x)) std);
    [reflexivity|].
  apply filter_ext. intros a. apply str_eqb_sym.
Qed.

(** a fold of fresh names is an append *)
Definition tl_entry (p : elem * translator) : list (str * dict) :=
  match t_fun (snd p) (fst p) with Ok (x :: l) => [(t_name (snd p), x :: l)] | _ => [] end.

Lemma tl_fold_fresh : forall (tl : list (elem * translator)) tm,
  NoDup (map (fun p => t_name (snd p)) tl) ->
  (forall p, In p tl -> ~ In (t_name (snd p)) (map fst tm)) ->
  fold_left tl_upd tl tm = tm ++ flat_map tl_entry tl.
Proof.
  induction tl as [|[e t] tl IH]; intros tm Hnd Hfresh; simpl; [rewrite app_nil_r; reflexivity|].
  inversion Hnd as [|? ? Hnotin Hnd']; subst. simpl in Hnotin.
  unfold tl_upd at 2, tmeta_upd, tl_entry. simpl fst. simpl snd.
  destruct (t_fun t e) as [[|x l]|er] eqn:Hf; simpl app.
  - apply IH; [exact Hnd' | intros p Hp; apply Hfresh; right; exact Hp].
  - rewrite dset_fresh by (apply (Hfresh (e, t)); left; reflexivity).
    rewrite IH; [rewrite <- app_assoc; reflexivity | exact Hnd' |].
    intros p Hp Hin. rewrite map_app in Hin. apply in_app_or in Hin. destruct Hin as [Hin | Hin].
    + apply (Hfresh p); [right; exact Hp | exact Hin].
    + simpl in Hin. destruct Hin as [Heq | []]. apply Hnotin. rewrite Heq. apply (in_map (fun p => t_name (snd p))). exact Hp.
  - apply IH; [exact Hnd' | intros p Hp; apply Hfresh; right; exact Hp].
Qed.

Lemma trans_part_app (a b : list (str * dict)) : trans_part (a ++ b) = trans_part a ++ trans_part b.
Proof. unfold trans_part. apply flat_map_app. Qed.

Lemma trans_part_flat (tl : list (elem * translator)) :
  map fst (trans_part (flat_map tl_entry tl)) =
  flat_map (fun p => match t_fun (snd p) (fst p) with
                     | Ok (x :: l) => map (fun kv => t_name (snd p) ++ [46] ++ fst kv) (x :: l)
                     | _ => []
                     end) tl.
Proof.
  induction tl as [|[e t] tl IH]; [reflexivity|].
  simpl flat_map. rewrite trans_part_app, map_app, IH. f_equal.
  unfold tl_entry. simpl fst. simpl snd. destruct (t_fun t e) as [[|x l]|]; try reflexivity.
  unfold trans_part. simpl flat_map. rewrite app_nil_r. simpl map. rewrite map_map. reflexivity.
Qed.

(** * The theorems *)

Theorem decl_agree cfg f ds st :
  run (S f) cfg ds = Ok st ->
  names_wf ds = true ->
  kinds_from cfg [] ds = d_kinds cfg [] ds /\
  survivors_from cfg [] ds = d_survivors cfg [] ds /\
  translated_from cfg [] ds = d_translated cfg [] ds /\
  (* the keys assigned to the standard entries, in order, are the expected ones *)
  map (final_key (s_std st)) (s_std st) = d_expected_std_keys cfg ds.
Proof.
  intros H Hwf. rewrite run_S in H.
  destruct (scan_agree cfg (extract f cfg) ds [] [] init_state st Hwf eq_refl eq_refl H) as [A1 [A2 A3]].
  split; [exact A1|]. split; [exact A2|]. split; [exact A3|].
  rewrite final_keys_disambiguate. unfold d_expected_std_keys. rewrite <- A2. f_equal.
  fold (run (S f) cfg ds) in H. destruct (run_facts _ _ _ _ H) as [_ [HF _]].
  clear - HF. induction HF as [|e x es xs Hex _ IH]; [reflexivity|].
  simpl. rewrite IH. destruct Hex as [Hn [Ht _]]. rewrite Hn, Ht, d_key_eq. reflexivity.
Qed.

Theorem decl_keys cfg f ds st :
  run (S f) cfg ds = Ok st ->
  names_wf ds = true ->
  NoDup (map etag ds) -> no_suffix_clash ds = true -> no_dot_keys ds = true ->
  trans_names_dot_free cfg = true -> metas_are_dicts cfg -> bound_once cfg ds = true ->
  map fst (finish st) = d_expected_keys cfg ds.
Proof.
  intros H Hwf Htags Hclash Hdots Htn Hdicts Hb.
  destruct (injective cfg f ds st H Htags Hclash Hdots Htn Hdicts Hb) as [Hfin _].
  destruct (decl_agree cfg f ds st H Hwf) as [_ [_ [A3 A4]]].
  destruct (run_facts _ _ _ _ H) as [Hm [_ Htm]].
  rewrite Hfin, map_app. unfold d_expected_keys. f_equal.
  - unfold std_part. rewrite map_map. simpl. exact A4.
  - unfold d_expected_trans_keys. rewrite <- A3, Htm.
    assert (Hnames : NoDup (map (fun p => t_name (snd p)) (translated_from cfg [] ds))).
    { unfold bound_once in Hb. rewrite Hm in Hb. apply translated_names_nodup with (mf := s_map st); [exact Htags | exact Hm |].
      apply str_nodupb_spec in Hb. exact Hb. }
    rewrite (tl_fold_fresh _ [] Hnames) by (intros p _ []). simpl. apply trans_part_flat.
Qed.
