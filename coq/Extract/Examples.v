(** Concrete datasets: non-vacuity witnesses for the C15 theorems and the F12 counterexample. *)
From Coq Require Import Strings.String.
From Coq Require Import List Bool NArith ZArith QArith_base Lia.
From DV Require Import Common.Res Common.Str Common.PyNum Generated.T_extract Extract.Model Extract.ProofsStr Extract.Spec
  Extract.ProofsDict Extract.ProofsLoop Extract.ProofsInj Extract.ProofsMain Extract.ProofsMore Extract.Decl Extract.ProofsDecl.
Import ListNotations.
Local Open Scope N_scope.

Fixpoint tag_nodupb (l : list tag) : bool :=
  match l with
  | [] => true
  | x :: r => negb (existsb (tag_eqb x) r) && tag_nodupb r
  end.

Lemma tag_nodupb_spec l : tag_nodupb l = true -> NoDup l.
Proof.
  induction l as [|x l IH]; simpl; intros H; [constructor|].
  apply andb_true_iff in H. destruct H as [H1 H2]. constructor; [|apply IH; exact H2].
  intros Hin. apply negb_true_iff in H1.
  assert (existsb (tag_eqb x) l = true) as E by (apply existsb_exists; exists x; split; [exact Hin | apply tag_eqb_refl]).
  congruence.
Qed.

(** a translation function that reports which element it saw *)
Definition tag_fun (e : elem) : res dict := Ok [(lit "Tag", VStr CStr (tag_to_str (etag e))); (lit "VR", VStr CStr (e_vr (fst e)))].

Definition acme : translator := mk_translator (lit "T1") (0x29, 0x1001) (lit "ACME") tag_fun.

Definition ex_cfg : config := mk_config default_ignore_rules [acme] default_conversions true ascii_text.

Lemma ex_cfg_dicts : metas_are_dicts ex_cfg.
Proof.
  intros t e meta [<- | []] H. unfold acme, tag_fun in H. simpl in H. injection H as <-. simpl.
  constructor; [intros [H | []]; discriminate H | constructor; [intros [] | constructor]].
Qed.

Definition E (g e : N) (vr : string) (vm : nat) (kw name : string) (v : val) : elem :=
  (mk_einfo (g, e) (lit vr) vm (lit kw) (lit name) None, v).

Definition F (n : Z) (d : positive) (tok : string) (c : numcls) : val := VNum c (FFin (Qmake n d)) (lit tok).

(** A dataset with every kind of element: plain (text, DS VM 3, IS), a nested sequence, a blank value, a None value,
    binary bytes, a private block with one translated and one untranslated element, colour table, overlay and pixel data. *)
Definition ex_ds : dataset := [
  E 0x0008 0x0060 "CS" 1 "Modality" "Modality" (VStr CStr (lit "MR"));
  E 0x0008 0x0070 "LO" 1 "Manufacturer" "Manufacturer" (VStr CStr (lit "  "));
  E 0x0008 0x0080 "LO" 0 "InstitutionName" "Institution Name" VNone;
  E 0x0008 0x1140 "SQ" 1 "ReferencedImageSequence" "Referenced Image Sequence"
    (VSeq [[E 0x0008 0x0100 "SH" 1 "CodeValue" "Code Value" (VStr CStr (lit "X"));
            E 0x0020 0x0013 "IS" 1 "InstanceNumber" "Instance Number" (VInt CIs 3)];
           []]);
  (mk_einfo (0x0018, 0x0050) (lit "DS") 1 (lit "SliceThickness") (lit "Slice Thickness") (Some (lit " 2.50")), F 5 2 "2.5" CDs);
  (mk_einfo (0x0020, 0x0013) (lit "IS") 1 (lit "InstanceNumber") (lit "Instance Number") (Some (lit "+07")), VInt CIs 7);
  E 0x0020 0x0032 "DS" 3 "ImagePositionPatient" "Image Position (Patient)"
    (VMulti CMulti [F 1 1 "1.0" CDs; F 5 2 "2.5" CDs; F (-3) 1 "-3.0" CDs]);
  E 0x0028 0x1201 "OW" 1 "RedPaletteColorLookupTableData" "Red Palette Color Lookup Table Data" (VBytes [0; 1]);
  E 0x0029 0x0010 "LO" 1 "" "Private Creator" (VStr CStr (lit "ACME"));
  E 0x0029 0x1001 "LO" 1 "" "Private tag data" (VStr CStr (lit "first"));
  E 0x0029 0x1002 "LO" 1 "" "Private tag data" (VStr CStr (lit "second"));
  E 0x0040 0x0010 "OB" 1 "" "Scheduled  [station] name" (VBytes [0; 255]);
  E 0x6002 0x3000 "OW" 1 "" "Overlay Data" (VBytes [1; 2]);
  E 0x7fe0 0x0008 "OF" 1 "FloatPixelData" "Float Pixel Data" (VBytes [0; 0; 128; 63]);
  E 0x7fe0 0x0010 "OW" 1 "PixelData" "Pixel Data" (VBytes [97; 98])
].

Definition ex_result : dict := [
  (lit "Modality", VStr CStr (lit "MR"));
  (lit "ReferencedImageSequence",
     VMulti CList [VDict [(lit "CodeValue", VStr CStr (lit "X")); (lit "InstanceNumber", VInt CInt 3)]; VDict []]);
  (lit "SliceThickness", F 5 2 "2.5" CFloat);
  (lit "InstanceNumber", VInt CInt 7);
  (lit "ImagePositionPatient", VMulti CList [F 1 1 "1.0" CFloat; F 5 2 "2.5" CFloat; F (-3) 1 "-3.0" CFloat]);
  (lit "T1.Tag", VStr CStr (lit "0X29_0X1001"));
  (lit "T1.VR", VStr CStr (lit "LO"))
].

Lemma ex_extract : extract 3 ex_cfg ex_ds = Ok ex_result.
Proof. vm_compute. reflexivity. Qed.

Lemma ex_kinds : kinds_from ex_cfg [] ex_ds =
  [KPlain; KBlank; KNoValue; KSequence; KPlain; KPlain; KPlain; KIgnored; KIgnored; KTranslated; KIgnored; KNoValue; KIgnored; KIgnored; KIgnored].
Proof. vm_compute. reflexivity. Qed.

Lemma ex_run : exists st, run 3 ex_cfg ex_ds = Ok st /\
  map std_tag (s_std st) = [(0x0008, 0x0060); (0x0008, 0x1140); (0x0018, 0x0050); (0x0020, 0x0013); (0x0020, 0x0032)] /\
  map fst (s_tmeta st) = [lit "T1"].
Proof. eexists. split; [vm_compute; reflexivity | split; vm_compute; reflexivity]. Qed.

Lemma ex_hyps :
  NoDup (map etag ex_ds) /\ no_suffix_clash ex_ds = true /\ no_dot_keys ex_ds = true /\
  trans_names_dot_free ex_cfg = true /\ metas_are_dicts ex_cfg /\ bound_once ex_cfg ex_ds = true.
Proof.
  split; [apply tag_nodupb_spec; vm_compute; reflexivity|].
  split; [vm_compute; reflexivity|]. split; [vm_compute; reflexivity|]. split; [vm_compute; reflexivity|].
  split; [exact ex_cfg_dicts | vm_compute; reflexivity].
Qed.

(** name clashes: two private elements called "foo bar" and a private element called like a standard keyword *)
Definition clash_ds : dataset := [
  E 0x0008 0x0060 "CS" 1 "Modality" "Modality" (VStr CStr (lit "MR"));
  E 0x0029 0x0010 "LO" 1 "" "Private Creator" (VStr CStr (lit "OTHER"));
  E 0x0029 0x1001 "LO" 1 "" "[foo bar]" (VStr CStr (lit "a"));
  E 0x0029 0x1002 "LO" 1 "" "[Foo  Bar]" (VStr CStr (lit "b"));
  E 0x0029 0x1003 "LO" 1 "" "[modality]" (VStr CStr (lit "c"))
].
Definition clash_cfg : config := mk_config [RPixel; ROverlay; RLut] [acme] default_conversions true ascii_text.

Lemma clash_extract : extract 2 clash_cfg clash_ds = Ok [
  (lit "Modality_0X8_0X60", VStr CStr (lit "MR"));
  (lit "PrivateCreator", VStr CStr (lit "OTHER"));
  (lit "FooBar_0X29_0X1001", VStr CStr (lit "a"));
  (lit "FooBar_0X29_0X1002", VStr CStr (lit "b"));
  (lit "Modality_0X29_0X1003", VStr CStr (lit "c"))].
Proof. vm_compute. reflexivity. Qed.

Lemma clash_hyps :
  NoDup (map etag clash_ds) /\ no_suffix_clash clash_ds = true /\ no_dot_keys clash_ds = true /\
  trans_names_dot_free clash_cfg = true /\ metas_are_dicts clash_cfg /\ bound_once clash_cfg clash_ds = true.
Proof.
  split; [apply tag_nodupb_spec; vm_compute; reflexivity|].
  split; [vm_compute; reflexivity|]. split; [vm_compute; reflexivity|]. split; [vm_compute; reflexivity|].
  split; [exact ex_cfg_dicts | vm_compute; reflexivity].
Qed.

(** * F12: the same private creator in two reserved blocks *)
Definition f12_ds : dataset := [
  E 0x0029 0x0010 "LO" 1 "" "Private Creator" (VStr CStr (lit "ACME"));
  E 0x0029 0x0011 "LO" 1 "" "Private Creator" (VStr CStr (lit "ACME"));
  E 0x0029 0x1001 "LO" 1 "" "Private tag data" (VStr CStr (lit "first"));
  E 0x0029 0x1101 "LO" 1 "" "Private tag data" (VStr CStr (lit "second"))
].

Definition f12_lost : elem := E 0x0029 0x1001 "LO" 1 "" "Private tag data" (VStr CStr (lit "first")).

Lemma f12_extract : extract 1 ex_cfg f12_ds = Ok [(lit "T1.Tag", VStr CStr (lit "0X29_0X1101")); (lit "T1.VR", VStr CStr (lit "LO"))].
Proof. vm_compute. reflexivity. Qed.

Lemma f12_refutes :
  exists cfg ds st e t x l k v,
    run 1 cfg ds = Ok st /\
    NoDup (map etag ds) /\ no_suffix_clash ds = true /\ no_dot_keys ds = true /\
    trans_names_dot_free cfg = true /\ metas_are_dicts cfg /\
    bound_once cfg ds = false /\
    In (e, t) (translated_from cfg [] ds) /\ t_fun t e = Ok (x :: l) /\ In (k, v) (x :: l) /\
    dget (trans_key (t_name t) k) (finish st) <> Some v.
Proof.
  exists ex_cfg, f12_ds. eexists. exists f12_lost, acme. do 2 eexists. exists (lit "Tag"). eexists.
  split; [vm_compute; reflexivity|].
  split; [apply tag_nodupb_spec; vm_compute; reflexivity|].
  split; [vm_compute; reflexivity|]. split; [vm_compute; reflexivity|]. split; [vm_compute; reflexivity|].
  split; [exact ex_cfg_dicts|]. split; [vm_compute; reflexivity|].
  split; [vm_compute; left; reflexivity|].
  split; [vm_compute; reflexivity|].
  split; [left; reflexivity|].
  vm_compute. intros H. discriminate H.
Qed.

(** * Witnesses for the declarative reading, JSON, fuel *)
Lemma ex_names_wf : names_wf ex_ds = true /\ names_wf clash_ds = true /\ names_wf f12_ds = true.
Proof. repeat split; vm_compute; reflexivity. Qed.

Lemma ex_expected_keys : d_expected_keys ex_cfg ex_ds = map fst ex_result.
Proof. vm_compute. reflexivity. Qed.

Lemma clash_expected_keys : d_expected_keys clash_cfg clash_ds =
  [lit "Modality_0X8_0X60"; lit "PrivateCreator"; lit "FooBar_0X29_0X1001"; lit "FooBar_0X29_0X1002"; lit "Modality_0X29_0X1003"].
Proof. vm_compute. reflexivity. Qed.

Lemma ex_d_kinds : d_kinds ex_cfg [] ex_ds = kinds_from ex_cfg [] ex_ds.
Proof. vm_compute. reflexivity. Qed.

Lemma ex_cfg_metas_json : metas_json ex_cfg.
Proof.
  intros t e meta [<- | []] H. unfold acme, tag_fun in H. simpl in H. injection H as <-. reflexivity.
Qed.

Lemma ex_inputs_json : inputs_json ex_cfg ex_ds = true /\ dict_json ex_result = true.
Proof. split; vm_compute; reflexivity. Qed.

Lemma ex_depth : ds_depth ex_ds = 1%nat.
Proof. vm_compute. reflexivity. Qed.

(** with private extraction enabled the untranslated private element (0029,1002) appears *)
Lemma clash_private_appears :
  exists st, run 2 clash_cfg clash_ds = Ok st /\
    In (lit "FooBar", VStr CStr (lit "b"), (0x0029, 0x1002)) (s_std st).
Proof. eexists. split; [vm_compute; reflexivity | vm_compute; tauto]. Qed.
