(** Executable model of  src/dcmstack/extract.py : MetaExtractor  (property C15).

    What is modelled (faithfully, Python 3 semantics):
      tag_to_str, MetaExtractor._get_elem_key, MetaExtractor._get_elem_value, MetaExtractor.__call__,
      the four ignore rules, get_text in its chardet-less form (as a default for the [c_get_text] input).
    What is an INPUT of the model (not modelled): everything pydicom computes for an element -- its tag,
      VR, VM, value object (with its Python class), dictionary keyword, name -- , the text decoder
      [c_get_text] (chardet), and the translators' translation functions [t_fun].
    Constants come from DV.Generated.T_extract (regenerated from the source on every run). *)
From Coq Require Import Strings.String Strings.Ascii.
From Coq Require Import List Bool NArith ZArith QArith_base Lia.
From DV Require Import Common.Res Common.Str Common.PyNum Generated.T_extract.
Import ListNotations.
Local Open Scope N_scope.

(** * Strings *)

(** Coq string literal -> code points (only used to write constants). *)
Definition lit (s : String.string) : str := map Ascii.N_of_ascii (String.list_ascii_of_string s).
Arguments lit s%string.

(** Python [str.isspace] for one character; the complete set of CPython 3. *)
Definition is_space (c : N) : bool :=
  ((9 <=? c) && (c <=? 13)) || ((28 <=? c) && (c <=? 32)) || (c =? 133) || (c =? 160) || (c =? 5760)
  || ((8192 <=? c) && (c <=? 8202)) || (c =? 8232) || (c =? 8233) || (c =? 8239) || (c =? 8287) || (c =? 12288).

(** [s.strip() == ''] *)
Definition blank (s : str) : bool := forallb is_space s.

(** [s.split()] : maximal runs of non-whitespace characters; [cur] is the current run, reversed. *)
Fixpoint split_ws_aux (s cur : str) : list str :=
  match s with
  | [] => match cur with [] => [] | _ => [rev cur] end
  | c :: r => if is_space c
              then match cur with [] => split_ws_aux r [] | _ => rev cur :: split_ws_aux r [] end
              else split_ws_aux r (c :: cur)
  end.
Definition split_ws (s : str) : list str := split_ws_aux s [].

(** [c.upper()] for an ASCII character (names outside ASCII are outside the domain of the model). *)
Definition upper_ascii (c : N) : N := if (97 <=? c) && (c <=? 122) then c - 32 else c.
(** [token[0].upper() + token[1:]] *)
Definition cap_first (t : str) : str := match t with [] => [] | c :: r => upper_ascii c :: r end.

(** [if key.startswith('[') and key.endswith(']'): key = key[1:-1]] *)
Definition strip_brackets (s : str) : str :=
  match s with
  | 91 :: r => match rev r with 93 :: m => rev m | _ => s end
  | _ => s
  end.

Definition camel (name : str) : str := concat (map cap_first (split_ws (strip_brackets name))).

(** Upper-case hexadecimal / decimal numerals. *)
Fixpoint hex_uint_str (u : Hexadecimal.uint) : str :=
  match u with
  | Hexadecimal.Nil => []
  | Hexadecimal.D0 u => 48 :: hex_uint_str u | Hexadecimal.D1 u => 49 :: hex_uint_str u
  | Hexadecimal.D2 u => 50 :: hex_uint_str u | Hexadecimal.D3 u => 51 :: hex_uint_str u
  | Hexadecimal.D4 u => 52 :: hex_uint_str u | Hexadecimal.D5 u => 53 :: hex_uint_str u
  | Hexadecimal.D6 u => 54 :: hex_uint_str u | Hexadecimal.D7 u => 55 :: hex_uint_str u
  | Hexadecimal.D8 u => 56 :: hex_uint_str u | Hexadecimal.D9 u => 57 :: hex_uint_str u
  | Hexadecimal.Da u => 65 :: hex_uint_str u | Hexadecimal.Db u => 66 :: hex_uint_str u
  | Hexadecimal.Dc u => 67 :: hex_uint_str u | Hexadecimal.Dd u => 68 :: hex_uint_str u
  | Hexadecimal.De u => 69 :: hex_uint_str u | Hexadecimal.Df u => 70 :: hex_uint_str u
  end.
Definition hexN (n : N) : str := hex_uint_str (N.to_hex_uint n).

Fixpoint dec_uint_str (u : Decimal.uint) : str :=
  match u with
  | Decimal.Nil => []
  | Decimal.D0 u => 48 :: dec_uint_str u | Decimal.D1 u => 49 :: dec_uint_str u
  | Decimal.D2 u => 50 :: dec_uint_str u | Decimal.D3 u => 51 :: dec_uint_str u
  | Decimal.D4 u => 52 :: dec_uint_str u | Decimal.D5 u => 53 :: dec_uint_str u
  | Decimal.D6 u => 54 :: dec_uint_str u | Decimal.D7 u => 55 :: dec_uint_str u
  | Decimal.D8 u => 56 :: dec_uint_str u | Decimal.D9 u => 57 :: dec_uint_str u
  end.
Definition decZ (z : Z) : str :=
  match z with
  | Z0 => [48]
  | Zpos p => dec_uint_str (N.to_uint (Npos p))
  | Zneg p => 45 :: dec_uint_str (N.to_uint (Npos p))
  end.

Definition tag := (N * N)%type.
Definition tag_eqb (a b : tag) : bool := (fst a =? fst b) && (snd a =? snd b).

(** [tag_to_str]:  '%#X_%#X' % (tag.group, tag.elem) *)
Definition tag_to_str (t : tag) : str := [48; 88] ++ hexN (fst t) ++ [95; 48; 88] ++ hexN (snd t).

(** [str(BaseTag)]: "(%04X,%04X)" of a 32 bit tag number. *)
Definition pad4 (s : str) : str := repeat 48 (4 - length s) ++ s.
Definition tag_paren (z : Z) : str :=
  let n := Z.to_N z in
  [40] ++ pad4 (hexN (n / 65536)) ++ [44] ++ pad4 (hexN (n mod 65536)) ++ [41].

(** * Values *)

(** Python class of a text-like / integer / floating point / list-like object as pydicom delivers it. *)
Inductive strcls := CStr | CUid | CPn.          (* str | pydicom.uid.UID (a str subclass) | PersonName (not a str) *)
Inductive intcls := CInt | CIs | CTag.          (* int | pydicom IS | BaseTag  (both int subclasses) *)
Inductive numcls := CFloat | CDs.               (* float | DSfloat (a float subclass) *)
Inductive listcls := CList | CMulti.            (* list | pydicom MultiValue *)

Record einfo := mk_einfo {
  e_tag : tag;            (* (group, element) *)
  e_vr : str;
  e_vm : nat;             (* elem.VM as pydicom computes it *)
  e_keyword : str;        (* pydicom.datadict.keyword_for_tag(tag), "" if none *)
  e_name : str;           (* elem.name *)
  e_raw : option str      (* the text a single DS / IS value was made from (value.original_string), when it has one *)
}.

Inductive val :=
| VNone
| VStr (c : strcls) (s : str)
| VInt (c : intcls) (z : Z)
| VNum (c : numcls) (v : fval) (tok : str)  (* a float: its exact value and its repr *)
| VBytes (b : list N)
| VMulti (c : listcls) (l : list val)
| VSeq (items : list (list (einfo * val)))  (* input only: a pydicom Sequence of Datasets *)
| VDict (kvs : list (str * val))            (* output only: a nested result dictionary *)
| VOpaque (ty : str) (rp : str).            (* any other Python object, passed around by identity *)

Definition elem := (einfo * val)%type.
Definition dataset := list elem.
Definition dict := list (str * val).
Definition etag (e : elem) : tag := e_tag (fst e).

(** OrderedDict assignment [d[k] = v]: replace in place when present, append otherwise. *)
Fixpoint dset {A} (k : str) (v : A) (d : list (str * A)) : list (str * A) :=
  match d with
  | [] => [(k, v)]
  | (k', v') :: r => if str_eqb k k' then (k, v) :: r else (k', v') :: dset k v r
  end.
Fixpoint dget {A} (k : str) (d : list (str * A)) : option A :=
  match d with
  | [] => None
  | (k', v) :: r => if str_eqb k k' then Some v else dget k r
  end.

(** * Ignore rules *)
Inductive rule := RPrivate | RPixel | ROverlay | RLut.

Definition rule_eqb (a b : rule) : bool :=
  match a, b with
  | RPrivate, RPrivate | RPixel, RPixel | ROverlay, ROverlay | RLut, RLut => true
  | _, _ => false
  end.

Definition rule_of_name (s : str) : option rule :=
  if str_eqb s (lit "ignore_private") then Some RPrivate
  else if str_eqb s (lit "ignore_pixel_data") then Some RPixel
  else if str_eqb s (lit "ignore_overlay_data") then Some ROverlay
  else if str_eqb s (lit "ignore_color_lut_data") then Some RLut
  else None.

Definition apply_rule (r : rule) (t : tag) : bool :=
  match r with
  | RPrivate => (fst t) mod private_mod =? private_rem
  | RPixel => (fst t =? pixel_group) && existsb (N.eqb (snd t)) pixel_elems
  | ROverlay => (N.land (fst t) overlay_mask =? overlay_group) && (snd t =? overlay_elem)
  | RLut => (fst t =? lut_group) && existsb (N.eqb (snd t)) lut_elems
  end.

Definition default_ignore_rules : list rule :=
  flat_map (fun n => match rule_of_name n with Some r => [r] | None => [] end) default_ignore_rule_names.

(** * Conversions *)
Inductive converter := CvFloat | CvInt | CvStr | CvText.   (* float | int | str = unicode_str | get_text *)

Definition conv_of_name (s : str) : option converter :=
  if str_eqb s (lit "float") then Some CvFloat
  else if str_eqb s (lit "int") then Some CvInt
  else if str_eqb s (lit "str") then Some CvStr
  else if str_eqb s (lit "unicode_str") then Some CvStr
  else if str_eqb s (lit "get_text") then Some CvText
  else None.

Definition default_conversions : list (str * converter) :=
  flat_map (fun kv => match conv_of_name (snd kv) with Some c => [(fst kv, c)] | None => [] end)
           default_conversion_names.

(** [get_text] when chardet is not installed: printable ASCII only ([is_ascii]: ' ' <= c <= '~'). *)
Definition ascii_text (b : list N) : option str :=
  if forallb (fun c => (32 <=? c) && (c <=? 126)) b then Some b else None.

(** [float(int)] rendered by repr: exact and in positional notation below 2^53. *)
Definition int_float_tok (z : Z) : option str :=
  if (Z.abs z <=? 9007199254740992)%Z then Some (decZ z ++ [46; 48]) else None.

(** One converter applied to one value.  [Err ECrash] = combination outside the modelled domain
    (for example [float] of a text value); the generators never produce those. *)
Definition conv_apply (gt : list N -> option str) (c : converter) (v : val) : res val :=
  match c, v with
  | CvFloat, VNum _ v tok => Ok (VNum CFloat v tok)
  | CvFloat, VInt _ z => match int_float_tok z with Some t => Ok (VNum CFloat (FFin (QArith_base.inject_Z z)) t) | None => Err ECrash end
  | CvInt, VInt _ z => Ok (VInt CInt z)
  | CvStr, VStr _ s => Ok (VStr CStr s)
  | CvStr, VInt CTag z => Ok (VStr CStr (tag_paren z))
  | CvStr, VInt CInt z => Ok (VStr CStr (decZ z))
  | CvStr, VNum CFloat _ tok => Ok (VStr CStr tok)
  | CvText, VBytes b => Ok (match gt b with Some s => VStr CStr s | None => VNone end)
  | _, _ => Err ECrash
  end.

(** * Translators and configuration *)
Record translator := mk_translator {
  t_name : str;
  t_tag : tag;
  t_creator : str;
  t_fun : elem -> res dict       (* INPUT: the translation function; [] stands for any falsy result *)
}.

Record config := mk_config {
  c_rules : list rule;
  c_translators : list translator;
  c_convs : list (str * converter);
  c_warn : bool;                            (* warn_on_trans_except *)
  c_get_text : list N -> option str         (* INPUT: get_text on a byte string *)
}.

(** [default_translators], the translation functions being supplied by name. *)
Definition default_translators (fns : str -> elem -> res dict) : list translator :=
  map (fun x => match x with (n, t, c, f) => mk_translator n t c (fns f) end) default_translator_table.

(** * _get_elem_key *)
Definition get_elem_key (i : einfo) : str :=
  match e_keyword i with
  | [] => camel (e_name i)
  | k => k
  end.

(** * _get_elem_value *)
Definition vr_unpackable (vr : str) : bool := existsb (fun kv => str_eqb vr (fst kv)) unpack_vr_map.
(** [isinstance(value, str)] *)
Definition is_py_str (v : val) : bool :=
  match v with VStr CStr _ | VStr CUid _ => true | _ => false end.

(** iteration over a value whose VM is not 1 *)
Definition iter_items (v : val) : res (list val) :=
  match v with
  | VMulti _ l => Ok l
  | VStr _ [] => Ok []
  | VBytes [] => Ok []
  | _ => Err ECrash
  end.

Definition get_elem_value (cfg : config) (e : elem) : res val :=
  let i := fst e in
  let v := snd e in
  if vr_unpackable (e_vr i) && is_py_str v then Err EType     (* struct.unpack on a str: TypeError on Python 3 *)
  else
    let n := e_vm i in
    match (if (1 <? n)%nat
           then match v with VMulti _ l => Ok (VMulti CList l) | _ => Err ECrash end   (* elem.value[:] *)
           else Ok v) with
    | Err er => Err er
    | Ok value =>
        match dget (e_vr i) (c_convs cfg), value with
        | None, _ => Ok value
        | Some _, VNone => Ok value
        | Some c, _ =>
            if (n =? 1)%nat then conv_apply (c_get_text cfg) c value
            else match iter_items value with
                 | Err er => Err er
                 | Ok items => match mapM (conv_apply (c_get_text cfg) c) items with
                               | Err er => Err er
                               | Ok l => Ok (VMulti CList l)
                               end
                 end
        end
    end.

(** * MetaExtractor.__call__ *)
Record state := mk_state {
  s_map : list (tag * translator);          (* trans_map *)
  s_std : list (str * val * tag);           (* standard_meta *)
  s_tmeta : list (str * dict)               (* trans_meta_dicts *)
}.
Definition init_state : state := mk_state [] [] [].

Fixpoint map_get (t : tag) (m : list (tag * translator)) : option translator :=
  match m with
  | [] => None
  | (t', x) :: r => if tag_eqb t t' then Some x else map_get t r
  end.

(** [type(elem.value) in str_types and elem.value.strip() == ''] -- a bytes value never equals '' *)
Definition is_blank_str (v : val) : bool :=
  match v with VStr CStr s => blank s | _ => false end.

(** [translator.priv_creator == elem.value] *)
Definition creator_matches (t : translator) (v : val) : bool :=
  match v with VStr _ s => str_eqb (t_creator t) s | _ => false end.

(** the slot a translator is bound to by a Private Creator element:
    [(translator.tag.elem & 0xff) | (elem.tag.elem * 16**2)] in the creator's group *)
Definition slot_tag (creator : tag) (t : translator) : tag :=
  (fst creator, N.lor (N.land (snd (t_tag t)) 255) (snd creator * 256)).

Fixpoint register_all (ts : list translator) (creator : tag) (v : val) (m : list (tag * translator))
  : res (list (tag * translator)) :=
  match ts with
  | [] => Ok m
  | t :: r =>
      if creator_matches t v then
        let nt := slot_tag creator t in
        match map_get nt m with
        | Some _ => Err EValue                  (* 'More than one translator for tag' *)
        | None => register_all r creator v (m ++ [(nt, t)])
        end
      else register_all r creator v m
  end.

Definition private_creator_name : str := lit "Private Creator".

Definition register (cfg : config) (i : einfo) (v : val) (m : list (tag * translator)) :=
  if str_eqb (e_name i) private_creator_name then register_all (c_translators cfg) (e_tag i) v m else Ok m.

Definition ignored (cfg : config) (t : tag) : bool := existsb (fun r => apply_rule r t) (c_rules cfg).

Definition push_std (st : state) (x : str * val * tag) : state :=
  mk_state (s_map st) (s_std st ++ [x]) (s_tmeta st).

Definition step (cfg : config) (rec : dataset -> res dict) (st : state) (e : elem) : res state :=
  let i := fst e in
  let v := snd e in
  if is_blank_str v then Ok st else
  let name := get_elem_key i in
  match register cfg i v (s_map st) with
  | Err er => Err er
  | Ok m =>
      let st := mk_state m (s_std st) (s_tmeta st) in
      match map_get (e_tag i) m with
      | Some t =>
          match t_fun t e with
          | Err er => if c_warn cfg then Ok st else Err er
          | Ok [] => Ok st
          | Ok meta => Ok (mk_state m (s_std st) (dset (t_name t) meta (s_tmeta st)))
          end
      | None =>
          if ignored cfg (e_tag i) then Ok st else
          match v with
          | VSeq items =>
              match mapM rec items with
              | Err er => Err er
              | Ok [] => Ok st                          (* all(x is None for x in []) *)
              | Ok rs => Ok (push_std st (name, VMulti CList (map VDict rs), e_tag i))
              end
          | _ =>
              match get_elem_value cfg e with
              | Err er => Err er
              | Ok VNone => Ok st
              | Ok value => Ok (push_std st (name, value, e_tag i))
              end
          end
      end
  end.

Fixpoint run_loop (f : state -> elem -> res state) (st : state) (ds : dataset) : res state :=
  match ds with
  | [] => Ok st
  | e :: r => match f st e with Err er => Err er | Ok st' => run_loop f st' r end
  end.

(** name collisions and translator prefixes *)
Definition std_name (x : str * val * tag) : str := fst (fst x).
Definition std_val (x : str * val * tag) : val := snd (fst x).
Definition std_tag (x : str * val * tag) : tag := snd x.

Definition count_name (n : str) (std : list (str * val * tag)) : nat :=
  length (filter (fun x => str_eqb (std_name x) n) std).

Definition final_key (std : list (str * val * tag)) (x : str * val * tag) : str :=
  if (1 <? count_name (std_name x) std)%nat then std_name x ++ [95] ++ tag_to_str (std_tag x) else std_name x.

Definition trans_key (tn k : str) : str := tn ++ [46] ++ k.

Definition inject_one (tn : str) (meta : dict) (r : dict) : dict :=
  fold_left (fun r kv => dset (trans_key tn (fst kv)) (snd kv) r) meta r.

Definition finish (st : state) : dict :=
  let std := s_std st in
  let r1 := fold_left (fun r x => dset (final_key std x) (std_val x) r) std [] in
  fold_left (fun r tm => inject_one (fst tm) (snd tm) r) (s_tmeta st) r1.

(** [fuel] bounds the nesting depth of sequences; [Err ECrash] when exhausted. *)
Fixpoint run (fuel : nat) (cfg : config) (ds : dataset) : res state :=
  match fuel with
  | O => Err ECrash
  | S f => run_loop (step cfg (fun d => rmap finish (run f cfg d))) init_state ds
  end.

Definition extract (fuel : nat) (cfg : config) (ds : dataset) : res dict := rmap finish (run fuel cfg ds).

(** * Equality on values (for the correspondence check) *)
Definition strcls_eqb (a b : strcls) := match a, b with CStr, CStr | CUid, CUid | CPn, CPn => true | _, _ => false end.
Definition intcls_eqb (a b : intcls) := match a, b with CInt, CInt | CIs, CIs | CTag, CTag => true | _, _ => false end.
Definition numcls_eqb (a b : numcls) := match a, b with CFloat, CFloat | CDs, CDs => true | _, _ => false end.
Definition listcls_eqb (a b : listcls) := match a, b with CList, CList | CMulti, CMulti => true | _, _ => false end.

(** [VSeq] never occurs in results; two [VSeq] compare unequal on purpose.  Dictionaries are compared as MAPS
    (the property does not speak of key order): same number of entries and every entry of the first found in the
    second; keys are unique on both sides (Python dicts / [dset]). *)
Fixpoint val_eqb (a b : val) {struct a} : bool :=
  match a, b with
  | VNone, VNone => true
  | VStr c s, VStr c' s' => strcls_eqb c c' && str_eqb s s'
  | VInt c z, VInt c' z' => intcls_eqb c c' && Z.eqb z z'
  | VNum c v t, VNum c' v' t' => numcls_eqb c c' && fval_eqb v v' && str_eqb t t'
  | VBytes x, VBytes y => str_eqb x y
  | VMulti c xs, VMulti c' ys =>
      listcls_eqb c c' &&
      (fix go (xs ys : list val) {struct xs} : bool :=
         match xs, ys with
         | [], [] => true
         | x :: xs', y :: ys' => val_eqb x y && go xs' ys'
         | _, _ => false
         end) xs ys
  | VDict xs, VDict ys =>
      Nat.eqb (length xs) (length ys) &&
      (fix go (xs : list (str * val)) {struct xs} : bool :=
         match xs with
         | [] => true
         | (k, x) :: xs' =>
             (fix find (ys : list (str * val)) : bool :=
                match ys with
                | [] => false
                | (k', y) :: ys' => if str_eqb k k' then val_eqb x y else find ys'
                end) ys && go xs'
         end) xs
  | VOpaque t r, VOpaque t' r' => str_eqb t t' && str_eqb r r'
  | _, _ => false
  end.

Definition dict_eqb (a b : dict) : bool := val_eqb (VDict a) (VDict b).
