(** The C15 theorems (stated again, by name only, in Props/C15.v). *)
From Coq Require Import Strings.String.
From Coq Require Import List Bool NArith ZArith Lia.
From DV Require Import Common.Res Common.Str Common.PyNum Generated.T_extract Extract.Model Extract.ProofsStr Extract.Spec
  Extract.ProofsDict Extract.ProofsLoop Extract.ProofsInj.
Import ListNotations.
Local Open Scope N_scope.

Lemma Forall2_in_r {X Y} (R : X -> Y -> Prop) l1 l2 y : Forall2 R l1 l2 -> In y l2 -> exists x, In x l1 /\ R x y.
Proof.
  induction 1 as [|a b l1 l2 Hab _ IH]; simpl; intros Hin; [contradiction|].
  destruct Hin as [<- | Hin]; [exists a; split; [left; reflexivity | exact Hab]|].
  destruct (IH Hin) as [x [Hx HR]]. exists x. split; [right; exact Hx | exact HR].
Qed.

Lemma Forall2_map_eq {X Y Z} (f : X -> Z) (g : Y -> Z) l1 l2 : Forall2 (fun a b => g b = f a) l1 l2 -> map g l2 = map f l1.
Proof. induction 1; simpl; [reflexivity | f_equal; assumption]. Qed.

Lemma Forall2_weaken {X Y} (R R' : X -> Y -> Prop) l1 l2 : (forall a b, R a b -> R' a b) -> Forall2 R l1 l2 -> Forall2 R' l1 l2.
Proof. intros H. induction 1; constructor; auto. Qed.

Lemma run_S f cfg ds : run (S f) cfg ds = run_loop (step cfg (extract f cfg)) init_state ds.
Proof. reflexivity. Qed.

Lemma run_facts cfg f ds st :
  run (S f) cfg ds = Ok st ->
  tmap_of cfg ds = Ok (s_map st) /\
  Forall2 (entry_ok cfg (extract f cfg)) (survivors_from cfg [] ds) (s_std st) /\
  s_tmeta st = fold_left tl_upd (translated_from cfg [] ds) [].
Proof.
  rewrite run_S. intros H. apply loop_spec in H. simpl in H. destruct H as [Hm [[added [-> HF]] Htm]].
  split; [exact Hm|]. split; [exact HF|]. rewrite Htm. apply tmeta_from_fold.
Qed.

(** * Partition *)

Definition cl_translated (m : tmap) (e : elem) : Prop := map_get (etag e) m <> None.
Definition cl_ignored (cfg : config) (m : tmap) (e : elem) : Prop :=
  map_get (etag e) m = None /\ ignored cfg (etag e) = true.
Definition cl_sequence (cfg : config) (m : tmap) (e : elem) : Prop :=
  map_get (etag e) m = None /\ ignored cfg (etag e) = false /\ exists items, snd e = VSeq items.
Definition cl_plain (cfg : config) (m : tmap) (e : elem) : Prop :=
  map_get (etag e) m = None /\ ignored cfg (etag e) = false /\ forall items, snd e <> VSeq items.

Definition exactly_one (P1 P2 P3 P4 : Prop) : Prop :=
  (P1 /\ ~ P2 /\ ~ P3 /\ ~ P4) \/ (~ P1 /\ P2 /\ ~ P3 /\ ~ P4) \/ (~ P1 /\ ~ P2 /\ P3 /\ ~ P4) \/ (~ P1 /\ ~ P2 /\ ~ P3 /\ P4).

Lemma classes_exactly_one cfg m e :
  exactly_one (cl_translated m e) (cl_ignored cfg m e) (cl_sequence cfg m e) (cl_plain cfg m e).
Proof.
  unfold exactly_one, cl_translated, cl_ignored, cl_sequence, cl_plain.
  destruct (map_get (etag e) m) as [t|] eqn:Hg.
  - left. split; [discriminate|]. repeat split; intros [H _]; discriminate H.
  - destruct (ignored cfg (etag e)) eqn:Hi.
    + right. left. split; [intros H; apply H; reflexivity|]. split; [split; reflexivity|].
      split; intros [_ [H _]]; discriminate H.
    + destruct (snd e) as [| c s | c z | c tok | b | c l | items | kvs | ty rp] eqn:Hv.
      7: { right. right. left. split; [intros H; apply H; reflexivity|]. split; [intros [_ H]; discriminate H|].
           split; [split; [reflexivity | split; [reflexivity | exists items; reflexivity]]|].
           intros [_ [_ H]]. apply (H items). reflexivity. }
      all: right; right; right; split; [intros H; apply H; reflexivity|]; split; [intros [_ H]; discriminate H|];
        split; [intros [_ [_ [items H]]]; discriminate H|]; split; [reflexivity | split; [reflexivity | intros items H; discriminate H]].
Qed.

(** the computed class agrees with the four predicates *)
Lemma kind_of_class cfg m e :
  is_blank_str (snd e) = false ->
  match kind_of cfg m e with
  | KBlank => False
  | KTranslated => cl_translated m e
  | KIgnored => cl_ignored cfg m e
  | KSeqEmpty => cl_sequence cfg m e /\ snd e = VSeq []
  | KSequence => cl_sequence cfg m e /\ exists it items, snd e = VSeq (it :: items)
  | KNoValue => cl_plain cfg m e /\ get_elem_value cfg e = Ok VNone
  | KPlain => cl_plain cfg m e /\ get_elem_value cfg e <> Ok VNone
  end.
Proof.
  intros Hb. unfold kind_of, cl_translated, cl_ignored, cl_sequence, cl_plain. rewrite Hb.
  destruct (map_get (etag e) m) as [t|] eqn:Hg; [discriminate|].
  destruct (ignored cfg (etag e)) eqn:Hi; [split; reflexivity|].
  destruct (snd e) as [| c s | c z | c tok | b | c l | items | kvs | ty rp] eqn:Hv.
  7: { destruct items as [|it items].
       - split; [|reflexivity]. split; [reflexivity|]. split; [reflexivity|]. exists []. reflexivity.
       - split; [|exists it, items; reflexivity]. split; [reflexivity|]. split; [reflexivity|]. exists (it :: items). reflexivity. }
  all: destruct (get_elem_value cfg e) as [[]|er] eqn:HV;
    (split; [split; [reflexivity | split; [reflexivity | intros its Hits; discriminate Hits]] | try reflexivity; try discriminate]).
Qed.

Theorem partition cfg f ds st :
  run (S f) cfg ds = Ok st ->
  (forall pre e post, ds = pre ++ e :: post ->
     exists m, tmap_of cfg (pre ++ [e]) = Ok m /\
               nth (length pre) (kinds_from cfg [] ds) KBlank = kind_of cfg m e /\
               exactly_one (cl_translated m e) (cl_ignored cfg m e) (cl_sequence cfg m e) (cl_plain cfg m e) /\
               (is_blank_str (snd e) = false ->
                match kind_of cfg m e with
                | KBlank => False
                | KTranslated => cl_translated m e
                | KIgnored => cl_ignored cfg m e
                | KSeqEmpty => cl_sequence cfg m e /\ snd e = VSeq []
                | KSequence => cl_sequence cfg m e /\ exists it items, snd e = VSeq (it :: items)
                | KNoValue => cl_plain cfg m e /\ get_elem_value cfg e = Ok VNone
                | KPlain => cl_plain cfg m e /\ get_elem_value cfg e <> Ok VNone
                end)) /\
  length (kinds_from cfg [] ds) = length ds /\
  survivors_from cfg [] ds = map fst (filter (fun p => contributes (snd p)) (combine ds (kinds_from cfg [] ds))) /\
  Forall2 (entry_ok cfg (extract f cfg)) (survivors_from cfg [] ds) (s_std st).
Proof.
  intros H. destruct (run_facts _ _ _ _ H) as [Hm [HF _]].
  split; [|split; [apply kinds_length | split; [apply survivors_filter | exact HF]]].
  intros pre e post ->. unfold tmap_of in Hm. destruct (kinds_nth cfg pre [] e post _ Hm) as [m1 [H1 H2]].
  exists m1. split; [exact H1|]. split; [exact H2|]. split; [apply classes_exactly_one | apply kind_of_class].
Qed.

(** * Never *)

Lemma existsb_false_forall {X} (p : X -> bool) l : existsb p l = false -> forall x, In x l -> p x = false.
Proof.
  intros H x Hx. destruct (p x) eqn:E; [|reflexivity].
  assert (existsb p l = true) by (apply existsb_exists; exists x; split; assumption). congruence.
Qed.

Lemma translated_bound_by cfg ds mf e t :
  tmap_of cfg ds = Ok mf -> In (e, t) (translated_from cfg [] ds) -> bound_by cfg ds (etag e, t).
Proof.
  intros Hm Hin. pose proof (translated_bound cfg ds [] mf e t Hm Hin) as Hb.
  unfold tmap_of in Hm. apply tmap_from_prov in Hm. destruct Hm as [ext [-> Hext]]. simpl in Hb. apply Hext. exact Hb.
Qed.

Theorem never cfg f ds st :
  run (S f) cfg ds = Ok st ->
  (forall x, In x (s_std st) ->
     (exists e, In e ds /\ etag e = std_tag x /\ get_elem_key (fst e) = std_name x) /\
     forall r, In r (c_rules cfg) -> apply_rule r (std_tag x) = false) /\
  (forall tn meta, In (tn, meta) (s_tmeta st) ->
     exists e t, In e ds /\ tn = t_name t /\ t_fun t e = Ok meta /\ bound_by cfg ds (etag e, t)) /\
  (forall k, In k (map fst (finish st)) ->
     (exists x, In x (s_std st) /\ k = final_key (s_std st) x) \/
     (exists tn meta k', In (tn, meta) (s_tmeta st) /\ In k' (map fst meta) /\ k = trans_key tn k')).
Proof.
  intros H. destruct (run_facts _ _ _ _ H) as [Hm [HF Htm]].
  split; [|split].
  - intros x Hx. destruct (Forall2_in_r _ _ _ _ HF Hx) as [e [He [Hn [Ht _]]]].
    split.
    + exists e. split; [apply (survivors_incl _ _ _ _ He) | split; [symmetry; exact Ht | symmetry; exact Hn]].
    + intros r Hr. pose proof (survivors_not_ignored _ _ _ _ He) as Hi. unfold ignored in Hi.
      rewrite Ht. apply (existsb_false_forall _ _ Hi r Hr).
  - intros tn meta Hin. rewrite Htm in Hin. apply tl_fold_prov in Hin. destruct Hin as [[] | [e [t [Hin [-> [Hf _]]]]]].
    exists e, t. split; [apply translated_in in Hin; destruct Hin as [Hin _]; exact Hin|].
    split; [reflexivity|]. split; [exact Hf|]. apply (translated_bound_by _ _ _ _ _ Hm Hin).
  - intros k Hk. apply finish_keys. exact Hk.
Qed.

(** table facts: the default rule list contains the four rules *)
Lemma default_rules_complete :
  In RPrivate default_ignore_rules /\ In RPixel default_ignore_rules /\ In ROverlay default_ignore_rules /\ In RLut default_ignore_rules.
Proof. repeat split; cbv; tauto. Qed.

Lemma default_rules_known : length default_ignore_rules = length default_ignore_rule_names.
Proof. reflexivity. Qed.

(** table facts: the element lists of the pixel and colour-table rules cover the documented elements (any order) *)
Lemma pixel_elems_cover : forall e, In e [0x0008; 0x0009; 0x0010] -> existsb (N.eqb e) pixel_elems = true.
Proof. intros e [<- | [<- | [<- | []]]]; reflexivity. Qed.

Lemma lut_elems_cover : forall e, In e [0x1201; 0x1202; 0x1203; 0x1221; 0x1222; 0x1223] -> existsb (N.eqb e) lut_elems = true.
Proof. intros e [<- | [<- | [<- | [<- | [<- | [<- | []]]]]]]; reflexivity. Qed.

Theorem never_default cfg f ds st :
  c_rules cfg = default_ignore_rules ->
  run (S f) cfg ds = Ok st ->
  forall x, In x (s_std st) ->
    let t := std_tag x in
    ~ (fst t = 0x7fe0 /\ In (snd t) [0x0008; 0x0009; 0x0010]) /\
    ~ (N.land (fst t) 0xff00 = 0x6000 /\ snd t = 0x3000) /\
    ~ (fst t = 0x0028 /\ In (snd t) [0x1201; 0x1202; 0x1203; 0x1221; 0x1222; 0x1223]) /\
    (fst t) mod 2 <> 1.
Proof.
  intros Hr H x Hx. destruct (never _ _ _ _ H) as [H1 _]. destruct (H1 x Hx) as [_ Hrules]. rewrite Hr in Hrules.
  destruct default_rules_complete as [Rp [Rx [Ro Rl]]].
  pose proof (Hrules _ Rp) as Ap. pose proof (Hrules _ Rx) as Ax. pose proof (Hrules _ Ro) as Ao. pose proof (Hrules _ Rl) as Al.
  clear Hrules H1. cbv zeta. destruct (std_tag x) as [g e]. simpl fst in *. simpl snd in *.
  unfold apply_rule in *. simpl fst in *. simpl snd in *.
  split; [|split; [|split]].
  - intros [Hg He]. change pixel_group with 0x7fe0 in Ax.
    rewrite Hg, N.eqb_refl, (pixel_elems_cover e He) in Ax. discriminate Ax.
  - intros [Hg He]. change overlay_mask with 0xff00 in Ao. change overlay_group with 0x6000 in Ao. change overlay_elem with 0x3000 in Ao.
    rewrite Hg, He in Ao. vm_compute in Ao. discriminate Ao.
  - intros [Hg He]. change lut_group with 0x0028 in Al.
    rewrite Hg, N.eqb_refl, (lut_elems_cover e He) in Al. discriminate Al.
  - intros Hm. change private_mod with 2 in Ap. change private_rem with 1 in Ap. rewrite Hm in Ap. discriminate Ap.
Qed.

(** * Values *)

Theorem values cfg f ds st :
  run (S f) cfg ds = Ok st ->
  Forall2 (fun e x =>
             std_tag x = etag e /\
             match snd e with
             | VSeq items => exists rs, Forall2 (fun item r => extract f cfg item = Ok r) items rs /\
                                        std_val x = VMulti CList (map VDict rs)
             | _ => get_elem_value cfg e = Ok (std_val x)
             end)
          (survivors_from cfg [] ds) (s_std st).
Proof.
  intros H. destruct (run_facts _ _ _ _ H) as [_ [HF _]].
  revert HF. apply Forall2_weaken.
  intros e x [_ [Ht Hv]]. split; [exact Ht|].
  destruct (snd e); try (destruct Hv as [Hv _]; exact Hv).
  destruct Hv as [rs [HM [_ Hval]]]. exists rs. split; [apply mapM_Forall2; exact HM | exact Hval].
Qed.

Lemma gev_single cfg i v c :
  vr_unpackable (e_vr i) && is_py_str v = false -> e_vm i = 1%nat ->
  dget (e_vr i) (c_convs cfg) = Some c -> v <> VNone ->
  get_elem_value cfg (i, v) = conv_apply (c_get_text cfg) c v.
Proof.
  intros Hu Hvm Hc Hv. unfold get_elem_value. cbn [fst snd]. rewrite Hu, Hvm, Hc. cbn.
  destruct v; try reflexivity. contradiction.
Qed.

Lemma gev_noconv cfg i v :
  vr_unpackable (e_vr i) && is_py_str v = false -> (e_vm i <= 1)%nat ->
  dget (e_vr i) (c_convs cfg) = None -> get_elem_value cfg (i, v) = Ok v.
Proof.
  intros Hu Hvm Hc. unfold get_elem_value. cbn [fst snd]. rewrite Hu, Hc.
  assert ((1 <? e_vm i)%nat = false) as -> by (apply Nat.ltb_ge; exact Hvm). reflexivity.
Qed.

Lemma gev_multi cfg i cl l :
  (1 < e_vm i)%nat ->
  get_elem_value cfg (i, VMulti cl l) =
    match dget (e_vr i) (c_convs cfg) with
    | None => Ok (VMulti CList l)
    | Some c => match mapM (conv_apply (c_get_text cfg) c) l with
                | Ok l' => Ok (VMulti CList l')
                | Err er => Err er
                end
    end.
Proof.
  intros Hvm. unfold get_elem_value. cbn [fst snd is_py_str]. rewrite andb_false_r.
  assert ((1 <? e_vm i)%nat = true) as -> by (apply Nat.ltb_lt; exact Hvm).
  assert ((e_vm i =? 1)%nat = false) as -> by (apply Nat.eqb_neq; lia).
  destruct (dget (e_vr i) (c_convs cfg)); reflexivity.
Qed.

Theorem values_conversion cfg :
  (* a single value with a conversion for its VR: the converter is applied to it *)
  (forall i v c, vr_unpackable (e_vr i) && is_py_str v = false -> e_vm i = 1%nat ->
                 dget (e_vr i) (c_convs cfg) = Some c -> v <> VNone ->
                 get_elem_value cfg (i, v) = conv_apply (c_get_text cfg) c v) /\
  (* no conversion, VM <= 1: the value itself *)
  (forall i v, vr_unpackable (e_vr i) && is_py_str v = false -> (e_vm i <= 1)%nat ->
               dget (e_vr i) (c_convs cfg) = None -> get_elem_value cfg (i, v) = Ok v) /\
  (* VM > 1: a list, of the converted items, in order *)
  (forall i cl l, (1 < e_vm i)%nat ->
     (dget (e_vr i) (c_convs cfg) = None -> get_elem_value cfg (i, VMulti cl l) = Ok (VMulti CList l)) /\
     (forall c l', dget (e_vr i) (c_convs cfg) = Some c ->
        get_elem_value cfg (i, VMulti cl l) = Ok (VMulti CList l') <->
        Forall2 (fun a b => conv_apply (c_get_text cfg) c a = Ok b) l l')) /\
  (* float() and int() on numbers keep the number and fix the class *)
  (forall gt c x tok, conv_apply gt CvFloat (VNum c x tok) = Ok (VNum CFloat x tok)) /\
  (forall gt c z, conv_apply gt CvInt (VInt c z) = Ok (VInt CInt z)) /\
  (forall gt c s, conv_apply gt CvStr (VStr c s) = Ok (VStr CStr s)).
Proof.
  split; [apply gev_single|]. split; [apply gev_noconv|]. split; [|repeat split; reflexivity].
  intros i cl l Hvm. rewrite (gev_multi cfg i cl l Hvm). split.
  - intros ->. reflexivity.
  - intros c l' ->. split.
    + destruct (mapM (conv_apply (c_get_text cfg) c) l) as [l2|] eqn:HM; [|discriminate].
      intros Heq. injection Heq as <-. apply mapM_Forall2. exact HM.
    + intros HF. assert (mapM (conv_apply (c_get_text cfg) c) l = Ok l') as ->; [|reflexivity].
      induction HF as [|a b l l' Hab _ IH]; simpl; [reflexivity | rewrite Hab, IH; reflexivity].
Qed.

(** table facts about the default conversions *)
Lemma default_conversions_known : length default_conversions = length default_conversion_names.
Proof. reflexivity. Qed.

Lemma default_conversions_numeric :
  dget (lit "DS") default_conversions = Some CvFloat /\ dget (lit "IS") default_conversions = Some CvInt.
Proof. split; reflexivity. Qed.

Lemma default_conversions_text :
  dget (lit "PN") default_conversions = Some CvStr /\ dget (lit "UI") default_conversions = Some CvStr /\
  dget (lit "OB") default_conversions = Some CvText /\ dget (lit "OW") default_conversions = Some CvText /\
  dget (lit "UN") default_conversions = Some CvText.
Proof. repeat split; reflexivity. Qed.

Lemma numeric_vrs_not_unpackable : vr_unpackable (lit "DS") = false /\ vr_unpackable (lit "IS") = false.
Proof. split; reflexivity. Qed.

Theorem values_default_numeric cfg :
  c_convs cfg = default_conversions ->
  (* DS, one value: a float with the value of the element; when the element carries the text [s] it was made
     from and its value is float(s) (pydicom; checked on every generated case), the result is float(s) *)
  (forall i c x tok, e_vr i = lit "DS" -> e_vm i = 1%nat ->
     get_elem_value cfg (i, VNum c x tok) = Ok (VNum CFloat x tok)) /\
  (forall i c x tok s y, e_vr i = lit "DS" -> e_vm i = 1%nat -> e_raw i = Some s ->
     py_float s = Ok y -> fval_eqb x y = true ->
     exists x' tok', get_elem_value cfg (i, VNum c x tok) = Ok (VNum CFloat x' tok') /\ fval_eqb x' y = true) /\
  (* IS, one value: the int; int(s) when the element carries its text *)
  (forall i c z, e_vr i = lit "IS" -> e_vm i = 1%nat ->
     get_elem_value cfg (i, VInt c z) = Ok (VInt CInt z)) /\
  (forall i c z s, e_vr i = lit "IS" -> e_vm i = 1%nat -> e_raw i = Some s -> py_int s = Ok z ->
     exists y, get_elem_value cfg (i, VInt c z) = Ok (VInt CInt y) /\ py_int s = Ok y) /\
  (* DS / IS with VM > 1: the list of floats / ints, same length, same order, same values *)
  (forall i cl xs, e_vr i = lit "DS" -> (1 < e_vm i)%nat ->
     get_elem_value cfg (i, VMulti cl (map (fun p => VNum CDs (fst p) (snd p)) xs))
     = Ok (VMulti CList (map (fun p => VNum CFloat (fst p) (snd p)) xs))) /\
  (forall i cl zs, e_vr i = lit "IS" -> (1 < e_vm i)%nat ->
     get_elem_value cfg (i, VMulti cl (map (VInt CIs) zs)) = Ok (VMulti CList (map (VInt CInt) zs))).
Proof.
  intros Hc. destruct default_conversions_numeric as [Hds His].
  assert (D1 : forall i c x tok, e_vr i = lit "DS" -> e_vm i = 1%nat ->
     get_elem_value cfg (i, VNum c x tok) = Ok (VNum CFloat x tok)).
  { intros i c x tok Hvr Hvm. rewrite (gev_single cfg i _ CvFloat); [reflexivity | rewrite Hvr; reflexivity | exact Hvm | rewrite Hvr, Hc; exact Hds | discriminate]. }
  assert (I1 : forall i c z, e_vr i = lit "IS" -> e_vm i = 1%nat ->
     get_elem_value cfg (i, VInt c z) = Ok (VInt CInt z)).
  { intros i c z Hvr Hvm. rewrite (gev_single cfg i _ CvInt); [reflexivity | rewrite Hvr; reflexivity | exact Hvm | rewrite Hvr, Hc; exact His | discriminate]. }
  split; [exact D1|]. split; [|split; [exact I1|split; [|split]]].
  - intros i c x tok s y Hvr Hvm _ _ Hs. exists x, tok. split; [apply D1; assumption | exact Hs].
  - intros i c z s Hvr Hvm _ Hs. exists z. split; [apply I1; assumption | exact Hs].
  - intros i cl xs Hvr Hvm. rewrite (gev_multi cfg i cl _ Hvm). rewrite Hvr, Hc, Hds.
    assert (mapM (conv_apply (c_get_text cfg) CvFloat) (map (fun p => VNum CDs (fst p) (snd p)) xs)
            = Ok (map (fun p => VNum CFloat (fst p) (snd p)) xs)) as ->; [|reflexivity].
    induction xs as [|t xs IH]; simpl; [reflexivity | rewrite IH; reflexivity].
  - intros i cl zs Hvr Hvm. rewrite (gev_multi cfg i cl _ Hvm). rewrite Hvr, Hc, His.
    assert (mapM (conv_apply (c_get_text cfg) CvInt) (map (VInt CIs) zs) = Ok (map (VInt CInt) zs)) as ->; [|reflexivity].
    induction zs as [|t zs IH]; simpl; [reflexivity | rewrite IH; reflexivity].
Qed.

(** * Injectivity *)

Lemma no_suffix_clash_spec ds :
  no_suffix_clash ds = true ->
  forall e1 e2, In e1 ds -> In e2 ds ->
    get_elem_key (fst e1) <> get_elem_key (fst e2) ++ [95] ++ tag_to_str (etag e2).
Proof.
  unfold no_suffix_clash, keytags. intros H e1 e2 H1 H2 Heq.
  rewrite forallb_forall in H.
  assert (In (get_elem_key (fst e1), etag e1) (map (fun e => (get_elem_key (fst e), etag e)) ds)) as I1
    by (apply in_map_iff; exists e1; split; [reflexivity | exact H1]).
  assert (In (get_elem_key (fst e2), etag e2) (map (fun e => (get_elem_key (fst e), etag e)) ds)) as I2
    by (apply in_map_iff; exists e2; split; [reflexivity | exact H2]).
  pose proof (H _ I1) as Ha. rewrite forallb_forall in Ha.
  pose proof (Ha _ I2) as Hb. simpl in Hb.
  rewrite Heq in Hb. rewrite str_eqb_refl in Hb. discriminate Hb.
Qed.

Lemma no_dot_keys_spec ds : no_dot_keys ds = true -> forall e, In e ds -> ~ In 46 (get_elem_key (fst e)).
Proof.
  unfold no_dot_keys, keytags. intros H e He. rewrite forallb_forall in H.
  apply dot_free_spec. apply (H (get_elem_key (fst e), etag e)). apply in_map_iff. exists e. split; [reflexivity | exact He].
Qed.

Lemma trans_names_dot_free_spec cfg : trans_names_dot_free cfg = true -> forall t, In t (c_translators cfg) -> ~ In 46 (t_name t).
Proof.
  unfold trans_names_dot_free. intros H t Ht. rewrite forallb_forall in H. apply dot_free_spec. apply H. exact Ht.
Qed.

Theorem injective cfg f ds st :
  run (S f) cfg ds = Ok st ->
  NoDup (map etag ds) ->
  no_suffix_clash ds = true ->
  no_dot_keys ds = true ->
  trans_names_dot_free cfg = true ->
  metas_are_dicts cfg ->
  bound_once cfg ds = true ->
  let r := finish st in
  r = std_part (s_std st) ++ trans_part (s_tmeta st) /\
  NoDup (map fst r) /\
  (forall x, In x (s_std st) -> dget (final_key (s_std st) x) r = Some (std_val x)) /\
  (forall x y, In x (s_std st) -> In y (s_std st) -> final_key (s_std st) x = final_key (s_std st) y -> x = y) /\
  (forall e t x l, In (e, t) (translated_from cfg [] ds) -> t_fun t e = Ok (x :: l) ->
     forall k v, In (k, v) (x :: l) -> dget (trans_key (t_name t) k) r = Some v).
Proof.
  intros H Htags Hclash Hdots Htn Hdicts Hb. cbv zeta.
  destruct (run_facts _ _ _ _ H) as [Hm [HF Htm]].
  (* standard entries *)
  assert (Hprov : forall x, In x (s_std st) -> exists e, In e ds /\ std_name x = get_elem_key (fst e) /\ std_tag x = etag e).
  { intros x Hx. destruct (Forall2_in_r _ _ _ _ HF Hx) as [e [He [Hn [Ht _]]]].
    exists e. split; [apply (survivors_incl _ _ _ _ He) | split; assumption]. }
  assert (Hstdtags : NoDup (map std_tag (s_std st))).
  { rewrite (Forall2_map_eq etag std_tag (survivors_from cfg [] ds) (s_std st)).
    - apply survivors_tags_nodup. exact Htags.
    - revert HF. apply Forall2_weaken. intros e x [_ [Ht _]]. exact Ht. }
  assert (Hstdclash : forall x y, In x (s_std st) -> In y (s_std st) -> std_name y <> std_name x ++ [95] ++ tag_to_str (std_tag x)).
  { intros x y Hx Hy. destruct (Hprov x Hx) as [e1 [He1 [Hn1 Ht1]]]. destruct (Hprov y Hy) as [e2 [He2 [Hn2 Ht2]]].
    rewrite Hn1, Hn2, Ht1. apply (no_suffix_clash_spec ds); assumption. }
  assert (Hkeys : NoDup (map (final_key (s_std st)) (s_std st))) by (apply final_keys_nodup; assumption).
  assert (Hnodot : forall x, In x (s_std st) -> ~ In 46 (final_key (s_std st) x)).
  { intros x Hx. apply final_key_no_dot. destruct (Hprov x Hx) as [e [He [Hn _]]]. rewrite Hn. apply (no_dot_keys_spec ds); assumption. }
  (* translator entries *)
  assert (Htmprov : forall p, In p (s_tmeta st) -> ~ In 46 (fst p) /\ NoDup (map fst (snd p))).
  { intros [tn meta] Hp. rewrite Htm in Hp. apply tl_fold_prov in Hp. destruct Hp as [[] | [e [t [Hin [-> [Hf _]]]]]].
    pose proof (translated_bound_by _ _ _ _ _ Hm Hin) as [c [_ [_ [_ [Ht _]]]]]. simpl in Ht.
    split; [apply (trans_names_dot_free_spec cfg); assumption | apply (Hdicts t e meta Ht Hf)]. }
  assert (Htmnames : NoDup (map fst (s_tmeta st))) by (rewrite Htm; apply tl_fold_nodup; constructor).
  assert (Htrans : NoDup (map fst (trans_part (s_tmeta st)))) by (apply trans_part_nodup; assumption).
  pose proof (finish_clean st Hkeys Hnodot Htrans) as Hfin.
  assert (Hall : NoDup (map fst (finish st))).
  { rewrite Hfin, map_app. apply NoDup_app_intro.
    - unfold std_part. rewrite map_map. simpl. exact Hkeys.
    - exact Htrans.
    - intros k Hk Hin. unfold std_part in Hk. rewrite map_map in Hk. simpl in Hk.
      apply in_map_iff in Hk. destruct Hk as [x [<- Hx]].
      apply trans_part_keys in Hin. destruct Hin as [tn [meta [k' [_ [_ Heq]]]]].
      apply (Hnodot x Hx). rewrite Heq. apply trans_key_has_dot. }
  split; [exact Hfin|]. split; [exact Hall|]. split; [|split].
  - intros x Hx. apply dget_in; [exact Hall|]. rewrite Hfin. apply in_or_app. left.
    unfold std_part. apply in_map_iff. exists x. split; [reflexivity | exact Hx].
  - intros x y Hx Hy Heq. apply (final_key_inj (s_std st) Hstdtags Hstdclash x y Hx Hy Heq).
  - intros e t x l Hin Hf k v Hkv.
    assert (Hnames : NoDup (map (fun p => t_name (snd p)) (translated_from cfg [] ds))).
    { unfold bound_once in Hb. rewrite Hm in Hb. apply translated_names_nodup with (mf := s_map st); [exact Htags | exact Hm |].
      apply str_nodupb_spec in Hb. exact Hb. }
    pose proof (tl_fold_preserved _ [] e t x l Hnames Hin Hf) as Hget. rewrite <- Htm in Hget.
    apply dget_some_in in Hget.
    apply dget_in; [exact Hall|]. rewrite Hfin. apply in_or_app. right.
    unfold trans_part. apply in_flat_map. exists (t_name t, x :: l). split; [exact Hget|].
    simpl snd. simpl fst. apply in_map_iff. exists (k, v). split; [reflexivity | exact Hkv].
Qed.

(** * Determinism: the result does not depend on the fuel *)

Lemma mapM_mono {A B} (f g : A -> res B) : (forall a b, f a = Ok b -> g a = Ok b) ->
  forall l rs, mapM f l = Ok rs -> mapM g l = Ok rs.
Proof.
  intros Hfg. induction l as [|a l IH]; simpl; intros rs H; [exact H|].
  destruct (f a) as [b|] eqn:Ha; [|discriminate]. destruct (mapM f l) as [bs|] eqn:Hl; [|discriminate].
  rewrite (Hfg _ _ Ha), (IH _ eq_refl). exact H.
Qed.

Lemma step_mono cfg rec1 rec2 st e st' :
  (forall d r, rec1 d = Ok r -> rec2 d = Ok r) -> step cfg rec1 st e = Ok st' -> step cfg rec2 st e = Ok st'.
Proof.
  intros Hrec. destruct e as [i v]. unfold step. cbn [fst snd].
  destruct (is_blank_str v); [intros H; exact H|].
  destruct (register cfg i v (s_map st)) as [m|]; [|intros H; exact H].
  destruct (map_get (e_tag i) m); [intros H; exact H|].
  destruct (ignored cfg (e_tag i)); [intros H; exact H|].
  destruct v; try (intros H; exact H).
  destruct (mapM rec1 items) as [rs|] eqn:HM; [|discriminate].
  rewrite (mapM_mono rec1 rec2 Hrec _ _ HM). intros H; exact H.
Qed.

Lemma run_loop_mono cfg rec1 rec2 : (forall d r, rec1 d = Ok r -> rec2 d = Ok r) ->
  forall ds st st', run_loop (step cfg rec1) st ds = Ok st' -> run_loop (step cfg rec2) st ds = Ok st'.
Proof.
  intros Hrec. induction ds as [|e ds IH]; simpl; intros st st' H; [exact H|].
  destruct (step cfg rec1 st e) as [st1|] eqn:Hs; [|discriminate].
  rewrite (step_mono _ _ _ _ _ _ Hrec Hs). apply IH. exact H.
Qed.

Lemma run_mono_S cfg : forall f ds st, run f cfg ds = Ok st -> run (S f) cfg ds = Ok st.
Proof.
  induction f as [|f IH]; intros ds st H; [discriminate H|].
  rewrite run_S in H. rewrite run_S.
  apply (run_loop_mono cfg (extract f cfg) (extract (S f) cfg)); [|exact H].
  intros d r Hd. unfold extract in *. destruct (run f cfg d) as [s|] eqn:Hr; [|discriminate].
  rewrite (IH _ _ Hr). exact Hd.
Qed.

Lemma run_mono cfg f1 f2 ds st : (f1 <= f2)%nat -> run f1 cfg ds = Ok st -> run f2 cfg ds = Ok st.
Proof.
  induction 1 as [|f2 _ IH]; intros H; [exact H|]. apply run_mono_S. apply IH. exact H.
Qed.

Theorem deterministic cfg f1 f2 ds r1 r2 :
  extract f1 cfg ds = Ok r1 -> extract f2 cfg ds = Ok r2 -> r1 = r2.
Proof.
  unfold extract. intros H1 H2.
  destruct (run f1 cfg ds) as [s1|] eqn:E1; [|discriminate]. destruct (run f2 cfg ds) as [s2|] eqn:E2; [|discriminate].
  apply (run_mono cfg f1 (Nat.max f1 f2)) in E1; [|apply Nat.le_max_l].
  apply (run_mono cfg f2 (Nat.max f1 f2)) in E2; [|apply Nat.le_max_r].
  rewrite E1 in E2. injection E2 as ->. simpl in H1, H2. congruence.
Qed.
