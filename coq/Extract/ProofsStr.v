(** String facts behind key injectivity: hexadecimal rendering is injective and underscore/dot free,
    so a tag suffix ["_0X.._0X.."] and a translator prefix ["name."] can be split off uniquely. *)
From Coq Require Import Strings.String.
From Coq Require Import List Bool NArith ZArith Lia.
From Coq Require Import Numbers.HexadecimalN.
From DV Require Import Common.Res Common.Str Extract.Model.
Import ListNotations.
Local Open Scope N_scope.

Lemma hex_uint_str_inj : forall u u', hex_uint_str u = hex_uint_str u' -> u = u'.
Proof.
  induction u as [|u IH|u IH|u IH|u IH|u IH|u IH|u IH|u IH|u IH|u IH|u IH|u IH|u IH|u IH|u IH|u IH];
    intros u' H; destruct u'; simpl in H; try discriminate H; try reflexivity;
    injection H as H; f_equal; apply IH; exact H.
Qed.

Lemma hexN_inj : forall a b, hexN a = hexN b -> a = b.
Proof.
  intros a b H. apply Unsigned.to_uint_inj. apply hex_uint_str_inj. exact H.
Qed.

(** a hexadecimal numeral contains neither '_' (95) nor '.' (46) *)
Definition plain_char (c : N) : Prop := c <> 95 /\ c <> 46.

Lemma hex_uint_str_plain : forall u, Forall plain_char (hex_uint_str u).
Proof.
  induction u; simpl; constructor; try assumption; split; discriminate.
Qed.

Lemma hexN_plain n : Forall plain_char (hexN n).
Proof. apply hex_uint_str_plain. Qed.

Lemma Forall_plain_not_in s c : Forall plain_char s -> (c = 95 \/ c = 46) -> ~ In c s.
Proof.
  intros HF Hc Hin. rewrite Forall_forall in HF. destruct (HF c Hin) as [H1 H2].
  destruct Hc; congruence.
Qed.

(** unique split at the LAST occurrence of a separator *)
Lemma split_last_sep (sep : N) : forall a b A B : str,
  ~ In sep A -> ~ In sep B -> a ++ sep :: A = b ++ sep :: B -> a = b /\ A = B.
Proof.
  induction a as [|c a IH]; intros b A B HA HB H.
  - destruct b as [|c' b]; simpl in H.
    + injection H as H. split; [reflexivity | exact H].
    + injection H as Hc HAeq. exfalso. apply HA. rewrite HAeq. apply in_or_app. right. left. reflexivity.
  - destruct b as [|c' b]; simpl in H.
    + injection H as Hc HBeq. exfalso. apply HB. rewrite <- HBeq. apply in_or_app. right. left. reflexivity.
    + injection H as Hc Hrest. destruct (IH b A B HA HB Hrest) as [-> ->]. subst. split; reflexivity.
Qed.

(** unique split at the FIRST occurrence of a separator *)
Lemma split_first_sep (sep : N) : forall a b A B : str,
  ~ In sep a -> ~ In sep b -> a ++ sep :: A = b ++ sep :: B -> a = b /\ A = B.
Proof.
  induction a as [|c a IH]; intros b A B Ha Hb H.
  - destruct b as [|c' b]; simpl in H.
    + injection H as H. split; [reflexivity | exact H].
    + injection H as Hc _. exfalso. apply Hb. left. symmetry. exact Hc.
  - destruct b as [|c' b]; simpl in H.
    + injection H as Hc _. exfalso. apply Ha. left. exact Hc.
    + injection H as Hc Hrest.
      destruct (IH b A B) as [-> ->]; [intros Hin; apply Ha; right; exact Hin | intros Hin; apply Hb; right; exact Hin | exact Hrest |].
      subst. split; reflexivity.
Qed.

Lemma tag_to_str_inj : forall t t', tag_to_str t = tag_to_str t' -> t = t'.
Proof.
  intros [g e] [g' e'] H. unfold tag_to_str in H. simpl fst in H. simpl snd in H.
  change ([48; 88] ++ hexN g ++ [95; 48; 88] ++ hexN e) with (([48; 88] ++ hexN g) ++ 95 :: ([48; 88] ++ hexN e)) in H.
  change ([48; 88] ++ hexN g' ++ [95; 48; 88] ++ hexN e') with (([48; 88] ++ hexN g') ++ 95 :: ([48; 88] ++ hexN e')) in H.
  apply split_last_sep in H.
  - destruct H as [H1 H2]. simpl in H1, H2. injection H1 as H1. injection H2 as H2.
    apply hexN_inj in H1. apply hexN_inj in H2. subst. reflexivity.
  - simpl. intros [Hc | [Hc | Hin]]; try discriminate Hc.
    revert Hin. apply Forall_plain_not_in; [apply hexN_plain | left; reflexivity].
  - simpl. intros [Hc | [Hc | Hin]]; try discriminate Hc.
    revert Hin. apply Forall_plain_not_in; [apply hexN_plain | left; reflexivity].
Qed.

Lemma tag_to_str_no_dot t : ~ In 46 (tag_to_str t).
Proof.
  unfold tag_to_str. intros Hin.
  apply in_app_or in Hin. destruct Hin as [Hin | Hin].
  - simpl in Hin. destruct Hin as [H | [H | []]]; discriminate H.
  - apply in_app_or in Hin. destruct Hin as [Hin | Hin].
    + revert Hin. apply Forall_plain_not_in; [apply hexN_plain | right; reflexivity].
    + apply in_app_or in Hin. destruct Hin as [Hin | Hin].
      * simpl in Hin. destruct Hin as [H | [H | [H | []]]]; discriminate H.
      * revert Hin. apply Forall_plain_not_in; [apply hexN_plain | right; reflexivity].
Qed.

(** [name ++ "_" ++ tag_to_str t] determines both [name] and [t]. *)
Lemma suffixed_inj : forall n n' t t',
  n ++ [95] ++ tag_to_str t = n' ++ [95] ++ tag_to_str t' -> n = n' /\ t = t'.
Proof.
  intros n n' [g e] [g' e'] H. unfold tag_to_str in H. simpl fst in H. simpl snd in H.
  assert (Hg : forall x, ~ In 95 ([48; 88] ++ hexN x)).
  { intros x. simpl. intros [Hc | [Hc | Hin]]; try discriminate Hc.
    revert Hin. apply Forall_plain_not_in; [apply hexN_plain | left; reflexivity]. }
  replace (n ++ [95] ++ [48; 88] ++ hexN g ++ [95; 48; 88] ++ hexN e)
    with ((n ++ 95 :: ([48; 88] ++ hexN g)) ++ 95 :: ([48; 88] ++ hexN e)) in H
    by (rewrite <- !app_assoc; reflexivity).
  replace (n' ++ [95] ++ [48; 88] ++ hexN g' ++ [95; 48; 88] ++ hexN e')
    with ((n' ++ 95 :: ([48; 88] ++ hexN g')) ++ 95 :: ([48; 88] ++ hexN e')) in H
    by (rewrite <- !app_assoc; reflexivity).
  apply split_last_sep in H; [| apply Hg | apply Hg].
  destruct H as [H1 H2].
  apply split_last_sep in H1; [| apply Hg | apply Hg].
  destruct H1 as [Hn H1]. simpl in H1, H2. injection H1 as H1. injection H2 as H2.
  apply hexN_inj in H1. apply hexN_inj in H2. subst. split; reflexivity.
Qed.

(** boolean "contains no '.'" *)
Definition dot_free (s : str) : bool := negb (existsb (N.eqb 46) s).

Lemma dot_free_spec s : dot_free s = true -> ~ In 46 s.
Proof.
  unfold dot_free. intros H Hin. apply negb_true_iff in H.
  assert (existsb (N.eqb 46) s = true) as E.
  { apply existsb_exists. exists 46. split; [exact Hin | apply N.eqb_refl]. }
  congruence.
Qed.

Lemma trans_key_inj : forall tn tn' k k',
  ~ In 46 tn -> ~ In 46 tn' -> trans_key tn k = trans_key tn' k' -> tn = tn' /\ k = k'.
Proof.
  intros tn tn' k k' H1 H2 H. unfold trans_key in H. simpl in H.
  apply split_first_sep in H; assumption.
Qed.

Lemma trans_key_has_dot tn k : In 46 (trans_key tn k).
Proof. unfold trans_key. apply in_or_app. right. left. reflexivity. Qed.
