(** Ordered-dictionary lemmas: [dset] / [dget], and folds of assignments with fresh keys are appends. *)
From Coq Require Import Strings.String.
From Coq Require Import List Bool NArith ZArith Lia.
From DV Require Import Common.Res Common.Str Extract.Model Extract.ProofsStr Extract.Spec.
Import ListNotations.

Lemma NoDup_app_inv {X} (l1 l2 : list X) :
  NoDup (l1 ++ l2) -> NoDup l1 /\ NoDup l2 /\ (forall x, In x l1 -> ~ In x l2).
Proof.
  induction l1 as [|a l1 IH]; simpl; intros H.
  - split; [constructor | split; [exact H | intros x []]].
  - inversion H as [|? ? Hnotin Hnd]; subst. destruct (IH Hnd) as [H1 [H2 H3]].
    split; [constructor; [intros Hin; apply Hnotin; apply in_or_app; left; exact Hin | exact H1] |].
    split; [exact H2 |]. intros x [-> | Hx] Hin.
    + apply Hnotin. apply in_or_app. right. exact Hin.
    + apply (H3 x Hx Hin).
Qed.

Lemma NoDup_app_intro {X} (l1 l2 : list X) :
  NoDup l1 -> NoDup l2 -> (forall x, In x l1 -> ~ In x l2) -> NoDup (l1 ++ l2).
Proof.
  induction l1 as [|a l1 IH]; simpl; intros H1 H2 H3; [exact H2|].
  inversion H1 as [|? ? Hnotin Hnd]; subst. constructor.
  - intros Hin. apply in_app_or in Hin. destruct Hin as [Hin | Hin]; [contradiction | apply (H3 a); [left; reflexivity | exact Hin]].
  - apply IH; [exact Hnd | exact H2 | intros x Hx; apply H3; right; exact Hx].
Qed.

Section Dict.
  Context {A : Type}.
  Implicit Types (d : list (str * A)) (k : str) (v : A).

  Lemma dset_fresh d k v : ~ In k (map fst d) -> dset k v d = d ++ [(k, v)].
  Proof.
    induction d as [|[k' v'] d IH]; simpl; intros H; [reflexivity|].
    destruct (str_eqb_spec k k') as [->|Hne].
    - exfalso. apply H. left. reflexivity.
    - f_equal. apply IH. intros Hin. apply H. right. exact Hin.
  Qed.

  Lemma dset_keys_cases d k v k0 : In k0 (map fst (dset k v d)) -> k0 = k \/ In k0 (map fst d).
  Proof.
    induction d as [|[k' v'] d IH]; simpl.
    - intros [H | []]. left. symmetry. exact H.
    - destruct (str_eqb_spec k k') as [->|Hne]; simpl.
      + intros [H | H]; [left; symmetry; exact H | right; right; exact H].
      + intros [H | H]; [right; left; exact H |]. destruct (IH H) as [H' | H']; [left; exact H' | right; right; exact H'].
  Qed.

  Lemma dget_in d k v : NoDup (map fst d) -> In (k, v) d -> dget k d = Some v.
  Proof.
    induction d as [|[k' v'] d IH]; simpl; intros Hnd Hin; [contradiction|].
    inversion Hnd as [|? ? Hnotin Hnd']; subst.
    destruct Hin as [Heq | Hin].
    - injection Heq as -> ->. rewrite str_eqb_refl. reflexivity.
    - destruct (str_eqb_spec k k') as [->|Hne].
      + exfalso. apply Hnotin. apply (in_map fst) in Hin. exact Hin.
      + apply IH; assumption.
  Qed.

  Lemma dget_some_in d k v : dget k d = Some v -> In (k, v) d.
  Proof.
    induction d as [|[k' v'] d IH]; simpl; intros H; [discriminate|].
    destruct (str_eqb_spec k k') as [->|Hne].
    - injection H as ->. left. reflexivity.
    - right. apply IH. exact H.
  Qed.

  Lemma dget_dset_same d k v : dget k (dset k v d) = Some v.
  Proof.
    induction d as [|[k' v'] d IH]; simpl.
    - rewrite str_eqb_refl. reflexivity.
    - destruct (str_eqb_spec k k') as [->|Hne]; simpl.
      + rewrite str_eqb_refl. reflexivity.
      + destruct (str_eqb_spec k k') as [->|_]; [contradiction | exact IH].
  Qed.

  Lemma dget_dset_other d k k0 v : k0 <> k -> dget k0 (dset k v d) = dget k0 d.
  Proof.
    intros Hne. induction d as [|[k' v'] d IH]; simpl.
    - destruct (str_eqb_spec k0 k) as [->|_]; [contradiction | reflexivity].
    - destruct (str_eqb_spec k k') as [->|Hne']; simpl.
      + destruct (str_eqb_spec k0 k') as [->|_]; [contradiction | reflexivity].
      + destruct (str_eqb_spec k0 k'); [reflexivity | exact IH].
  Qed.

  Lemma dset_nodup d k v : NoDup (map fst d) -> NoDup (map fst (dset k v d)).
  Proof.
    induction d as [|[k' v'] d IH]; simpl; intros Hnd.
    - constructor; [intros [] | constructor].
    - inversion Hnd as [|? ? Hnotin Hnd']; subst.
      destruct (str_eqb_spec k k') as [->|Hne]; simpl.
      + constructor; assumption.
      + constructor; [| apply IH; exact Hnd'].
        intros Hin. apply dset_keys_cases in Hin. destruct Hin as [H | H]; [congruence | contradiction].
  Qed.

  (** a fold of assignments whose keys are pairwise distinct and absent from [d] appends them in order *)
  Lemma fold_dset_fresh {X} (kf : X -> str) (vf : X -> A) : forall (l : list X) d,
    NoDup (map kf l) -> (forall x, In x l -> ~ In (kf x) (map fst d)) ->
    fold_left (fun r x => dset (kf x) (vf x) r) l d = d ++ map (fun x => (kf x, vf x)) l.
  Proof.
    induction l as [|a l IH]; intros d Hnd Hfresh; simpl.
    - rewrite app_nil_r. reflexivity.
    - inversion Hnd as [|? ? Hnotin Hnd']; subst.
      rewrite dset_fresh by (apply Hfresh; left; reflexivity).
      rewrite IH.
      + rewrite <- app_assoc. reflexivity.
      + exact Hnd'.
      + intros x Hx Hin. rewrite map_app in Hin. apply in_app_or in Hin. destruct Hin as [Hin | Hin].
        * apply (Hfresh x); [right; exact Hx | exact Hin].
        * simpl in Hin. destruct Hin as [Heq | []]. apply Hnotin. rewrite Heq. apply in_map. exact Hx.
  Qed.

  (** keys of a fold of assignments come from the initial dictionary or from the assigned keys *)
  Lemma fold_dset_keys {X} (kf : X -> str) (vf : X -> A) : forall (l : list X) d k0,
    In k0 (map fst (fold_left (fun r x => dset (kf x) (vf x) r) l d)) ->
    In k0 (map fst d) \/ exists x, In x l /\ k0 = kf x.
  Proof.
    induction l as [|a l IH]; intros d k0 H; simpl in H.
    - left. exact H.
    - apply IH in H. destruct H as [H | [x [Hx ->]]].
      + apply dset_keys_cases in H. destruct H as [-> | H]; [right; exists a; split; [left; reflexivity | reflexivity] | left; exact H].
      + right. exists x. split; [right; exact Hx | reflexivity].
  Qed.
End Dict.

(** * The two folds of [finish] *)

Lemma inject_one_fresh tn (meta r : dict) :
  NoDup (map (fun kv => trans_key tn (fst kv)) meta) ->
  (forall kv, In kv meta -> ~ In (trans_key tn (fst kv)) (map fst r)) ->
  inject_one tn meta r = r ++ map (fun kv => (trans_key tn (fst kv), snd kv)) meta.
Proof.
  intros Hnd Hfresh. unfold inject_one.
  apply (fold_dset_fresh (fun kv : str * val => trans_key tn (fst kv)) snd); assumption.
Qed.

Lemma trans_part_keys tm k0 :
  In k0 (map fst (trans_part tm)) -> exists tn meta k, In (tn, meta) tm /\ In k (map fst meta) /\ k0 = trans_key tn k.
Proof.
  unfold trans_part. intros H. apply in_map_iff in H. destruct H as [[k1 v1] [Hk Hin]]. simpl in Hk. subst k1.
  apply in_flat_map in Hin. destruct Hin as [[tn meta] [Htm Hin]]. simpl in Hin.
  apply in_map_iff in Hin. destruct Hin as [[k v] [Heq Hkv]]. simpl in Heq. injection Heq as <- <-.
  exists tn, meta, k. split; [exact Htm|]. split; [apply (in_map fst) in Hkv; exact Hkv | reflexivity].
Qed.

Lemma inject_all_fresh : forall (tm : list (str * dict)) (r : dict),
  NoDup (map fst (trans_part tm)) ->
  (forall k0, In k0 (map fst (trans_part tm)) -> ~ In k0 (map fst r)) ->
  fold_left (fun r p => inject_one (fst p) (snd p) r) tm r = r ++ trans_part tm.
Proof.
  induction tm as [|[tn meta] tm IH]; intros r Hnd Hfresh; simpl.
  - rewrite app_nil_r. reflexivity.
  - unfold trans_part in Hnd, Hfresh. simpl in Hnd, Hfresh. fold (trans_part tm) in Hnd, Hfresh.
    rewrite map_app in Hnd, Hfresh.
    destruct (NoDup_app_inv _ _ Hnd) as [Hnd1 [Hnd2 Hdisj]].
    rewrite inject_one_fresh.
    + rewrite IH.
      * unfold trans_part at 2. simpl. fold (trans_part tm). rewrite <- app_assoc. reflexivity.
      * exact Hnd2.
      * intros k0 Hk0 Hin. rewrite map_app in Hin. apply in_app_or in Hin. destruct Hin as [Hin | Hin].
        -- apply (Hfresh k0); [apply in_or_app; right; exact Hk0 | exact Hin].
        -- apply (Hdisj k0 Hin Hk0).
    + rewrite map_map in Hnd1. simpl in Hnd1. exact Hnd1.
    + intros kv Hkv Hin. apply (Hfresh (trans_key tn (fst kv))); [| exact Hin].
      apply in_or_app. left. rewrite map_map. simpl. apply in_map_iff. exists kv. split; [reflexivity | exact Hkv].
Qed.

Lemma inject_all_keys : forall (tm : list (str * dict)) (r : dict) k0,
  In k0 (map fst (fold_left (fun r p => inject_one (fst p) (snd p) r) tm r)) ->
  In k0 (map fst r) \/ exists tn meta k, In (tn, meta) tm /\ In k (map fst meta) /\ k0 = trans_key tn k.
Proof.
  induction tm as [|[tn meta] tm IH]; intros r k0 H; simpl in H.
  - left. exact H.
  - apply IH in H. destruct H as [H | [tn' [meta' [k [Hin [Hk ->]]]]]].
    + unfold inject_one in H. simpl in H.
      apply (fold_dset_keys (fun kv : str * val => trans_key tn (fst kv)) snd) in H.
      destruct H as [H | [kv [Hkv ->]]]; [left; exact H |].
      right. exists tn, meta, (fst kv). split; [left; reflexivity |]. split; [apply in_map; exact Hkv | reflexivity].
    + right. exists tn', meta', k. split; [right; exact Hin | split; [exact Hk | reflexivity]].
Qed.

(** keys of [finish]: every key is the final key of a standard entry or a prefixed translator key *)
Lemma finish_keys st k0 :
  In k0 (map fst (finish st)) ->
  (exists x, In x (s_std st) /\ k0 = final_key (s_std st) x) \/
  (exists tn meta k, In (tn, meta) (s_tmeta st) /\ In k (map fst meta) /\ k0 = trans_key tn k).
Proof.
  unfold finish. intros H. apply inject_all_keys in H. destruct H as [H | H]; [left | right; exact H].
  apply (fold_dset_keys (final_key (s_std st)) std_val) in H. destruct H as [[] | H]. exact H.
Qed.
