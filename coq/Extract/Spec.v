(** Small abstract vocabulary the C15 theorems are stated against. *)
From Coq Require Import Strings.String.
From Coq Require Import List Bool NArith ZArith.
From DV Require Import Common.Res Common.Str Generated.T_extract Extract.Model Extract.ProofsStr.
Import ListNotations.
Local Open Scope N_scope.

Definition tmap := list (tag * translator).

(** What one element does to the slot map (Private Creator elements bind translators; blank text is skipped). *)
Definition reg_elem (cfg : config) (m : tmap) (e : elem) : res tmap :=
  if is_blank_str (snd e) then Ok m else register cfg (fst e) (snd e) m.

Fixpoint tmap_from (cfg : config) (m : tmap) (ds : dataset) : res tmap :=
  match ds with
  | [] => Ok m
  | e :: r => match reg_elem cfg m e with Ok m' => tmap_from cfg m' r | Err x => Err x end
  end.
(** the slot map after the whole dataset: a function of the Private Creator elements and the translators only *)
Definition tmap_of (cfg : config) (ds : dataset) : res tmap := tmap_from cfg [] ds.

(** The class of an element.  [m] is the slot map after the element's own registration. *)
Inductive kind := KBlank | KTranslated | KIgnored | KSeqEmpty | KSequence | KNoValue | KPlain.

Definition kind_of (cfg : config) (m : tmap) (e : elem) : kind :=
  if is_blank_str (snd e) then KBlank else
  match map_get (etag e) m with
  | Some _ => KTranslated
  | None =>
      if ignored cfg (etag e) then KIgnored else
      match snd e with
      | VSeq [] => KSeqEmpty
      | VSeq _ => KSequence
      | _ => match get_elem_value cfg e with Ok VNone => KNoValue | _ => KPlain end
      end
  end.

(** "non-empty" in the sense of the property: not blank text, not an empty sequence, not a value that
    converts to None (None itself, or bytes that are not text). *)
Definition nonempty_kind (k : kind) : bool :=
  match k with KBlank | KSeqEmpty | KNoValue => false | _ => true end.
Definition contributes (k : kind) : bool :=
  match k with KSequence | KPlain => true | _ => false end.

Definition next_map (cfg : config) (m : tmap) (e : elem) : tmap :=
  match reg_elem cfg m e with Ok m' => m' | Err _ => m end.

(** classes of all elements, in order *)
Fixpoint kinds_from (cfg : config) (m : tmap) (ds : dataset) : list kind :=
  match ds with
  | [] => []
  | e :: r => let m' := next_map cfg m e in kind_of cfg m' e :: kinds_from cfg m' r
  end.

(** the elements that reach standard_meta, in order *)
Fixpoint survivors_from (cfg : config) (m : tmap) (ds : dataset) : list elem :=
  match ds with
  | [] => []
  | e :: r => let m' := next_map cfg m e in
              if contributes (kind_of cfg m' e) then e :: survivors_from cfg m' r else survivors_from cfg m' r
  end.

(** the translated elements with the translator that claimed them, in order *)
Fixpoint translated_from (cfg : config) (m : tmap) (ds : dataset) : list (elem * translator) :=
  match ds with
  | [] => []
  | e :: r => let m' := next_map cfg m e in
              match kind_of cfg m' e, map_get (etag e) m' with
              | KTranslated, Some t => (e, t) :: translated_from cfg m' r
              | _, _ => translated_from cfg m' r
              end
  end.

(** [trans_meta_dicts[name] = meta] if the translation succeeded with a truthy result *)
Definition tmeta_upd (t : translator) (e : elem) (tm : list (str * dict)) : list (str * dict) :=
  match t_fun t e with
  | Ok (x :: l) => dset (t_name t) (x :: l) tm
  | _ => tm
  end.

(** what a standard_meta entry must be for the element it comes from *)
Definition entry_ok (cfg : config) (rec : dataset -> res dict) (e : elem) (x : str * val * tag) : Prop :=
  std_name x = get_elem_key (fst e) /\ std_tag x = etag e /\
  match snd e with
  | VSeq items => exists rs, mapM rec items = Ok rs /\ rs <> [] /\ std_val x = VMulti CList (map VDict rs)
  | _ => get_elem_value cfg e = Ok (std_val x) /\ std_val x <> VNone
  end.

(** * Boolean hypotheses of the injectivity theorem *)

Definition keytags (ds : dataset) : list (str * tag) := map (fun e => (get_elem_key (fst e), etag e)) ds.

(** no element's key equals another element's key followed by that element's tag suffix *)
Definition no_suffix_clash (ds : dataset) : bool :=
  forallb (fun a => forallb (fun b => negb (str_eqb (fst a) (fst b ++ [95] ++ tag_to_str (snd b)))) (keytags ds)) (keytags ds).

(** no element key contains '.' *)
Definition no_dot_keys (ds : dataset) : bool := forallb (fun a => dot_free (fst a)) (keytags ds).

(** no translator name contains '.' *)
Definition trans_names_dot_free (cfg : config) : bool := forallb (fun t => dot_free (t_name t)) (c_translators cfg).

Fixpoint str_nodupb (l : list str) : bool :=
  match l with
  | [] => true
  | x :: r => negb (existsb (str_eqb x) r) && str_nodupb r
  end.

(** every translator name is bound to at most one tag of the dataset *)
Definition bound_once (cfg : config) (ds : dataset) : bool :=
  match tmap_of cfg ds with
  | Ok m => str_nodupb (map (fun p => t_name (snd p)) m)
  | Err _ => false
  end.

(** translation functions return dictionaries: their keys are distinct (not a boolean: it quantifies over inputs) *)
Definition metas_are_dicts (cfg : config) : Prop :=
  forall t e meta, In t (c_translators cfg) -> t_fun t e = Ok meta -> NoDup (map fst meta).

(** the result predicted for a state in which no key clashes: standard entries, then translator entries *)
Definition std_part (std : list (str * val * tag)) : dict := map (fun x => (final_key std x, std_val x)) std.
Definition trans_part (tm : list (str * dict)) : dict :=
  flat_map (fun p => map (fun kv => (trans_key (fst p) (fst kv), snd kv)) (snd p)) tm.
