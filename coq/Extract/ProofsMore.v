(** Further C15 theorems: fuel is irrelevant once it exceeds the nesting depth (totality), every non-empty element
    that is neither translated nor ignored appears, results are JSON-serialisable. *)
From Coq Require Import Strings.String.
From Coq Require Import List Bool NArith ZArith Lia.
From DV Require Import Common.Res Common.Str Common.PyNum Generated.T_extract Extract.Model Extract.ProofsStr Extract.Spec
  Extract.ProofsDict Extract.ProofsLoop Extract.ProofsInj Extract.ProofsMain.
Import ListNotations.
Local Open Scope N_scope.

(** * Fuel *)

(** nesting depth of sequences *)
Fixpoint vdepth (v : val) : nat :=
  match v with
  | VSeq items =>
      S (fold_right (fun item acc => Nat.max (fold_right (fun p a => Nat.max (vdepth (snd p)) a) 0%nat item) acc) 0%nat items)
  | _ => 0%nat
  end.
Definition ds_depth (ds : dataset) : nat := fold_right (fun p a => Nat.max (vdepth (snd p)) a) 0%nat ds.

Lemma vdepth_seq items : vdepth (VSeq items) = S (fold_right (fun item acc => Nat.max (ds_depth item) acc) 0%nat items).
Proof. reflexivity. Qed.

Lemma depth_in (ds : dataset) p : In p ds -> (vdepth (snd p) <= ds_depth ds)%nat.
Proof.
  unfold ds_depth. induction ds as [|a ds IH]; simpl; intros H; [contradiction|].
  destruct H as [-> | H]; [lia | specialize (IH H); lia].
Qed.

Lemma item_depth (items : list dataset) item : In item items -> (ds_depth item < vdepth (VSeq items))%nat.
Proof.
  rewrite vdepth_seq. induction items as [|a items IH]; simpl; intros H; [contradiction|].
  destruct H as [-> | H]; [lia | specialize (IH H); lia].
Qed.

Lemma mapM_ext {A B} (f g : A -> res B) : forall l, (forall a, In a l -> f a = g a) -> mapM f l = mapM g l.
Proof.
  induction l as [|a l IH]; simpl; intros H; [reflexivity|].
  rewrite (H a (or_introl eq_refl)), IH; [reflexivity | intros b Hb; apply H; right; exact Hb].
Qed.

Lemma step_ext cfg rec1 rec2 st e :
  (forall items item, snd e = VSeq items -> In item items -> rec1 item = rec2 item) ->
  step cfg rec1 st e = step cfg rec2 st e.
Proof.
  intros H. destruct e as [i v]. unfold step. cbn [fst snd] in *.
  destruct (is_blank_str v); [reflexivity|].
  destruct (register cfg i v (s_map st)) as [m|]; [|reflexivity].
  destruct (map_get (e_tag i) m); [reflexivity|].
  destruct (ignored cfg (e_tag i)); [reflexivity|].
  destruct v; try reflexivity.
  assert (E : @mapM dataset dict rec1 items = @mapM dataset dict rec2 items) by (apply mapM_ext; intros a Ha; apply (H items a eq_refl Ha)).
  rewrite E. reflexivity.
Qed.

Lemma run_loop_ext cfg rec1 rec2 : forall ds st,
  (forall e items item, In e ds -> snd e = VSeq items -> In item items -> rec1 item = rec2 item) ->
  run_loop (step cfg rec1) st ds = run_loop (step cfg rec2) st ds.
Proof.
  induction ds as [|e ds IH]; intros st H; simpl; [reflexivity|].
  rewrite (step_ext cfg rec1 rec2 st e); [|intros items item; apply H; left; reflexivity].
  destruct (step cfg rec2 st e); [|reflexivity]. apply IH. intros e' items item He'. apply H. right. exact He'.
Qed.

Lemma run_fuel cfg : forall f1 f2 ds, (ds_depth ds < f1)%nat -> (ds_depth ds < f2)%nat -> run f1 cfg ds = run f2 cfg ds.
Proof.
  induction f1 as [|f1 IH]; intros f2 ds H1 H2; [lia|].
  destruct f2 as [|f2]; [lia|]. rewrite !run_S.
  apply run_loop_ext. intros e items item He Hv Hitem.
  unfold extract. rewrite (IH f2 item); [reflexivity| |].
  - pose proof (depth_in ds e He) as D. rewrite Hv in D. pose proof (item_depth items item Hitem). lia.
  - pose proof (depth_in ds e He) as D. rewrite Hv in D. pose proof (item_depth items item Hitem). lia.
Qed.

(** Totality with respect to fuel: with fuel above the nesting depth, the outcome (result or exception) is the
    outcome for every larger amount of fuel -- the fuel-exhaustion branch is never the reason for an [Err]. *)
Theorem fuel_total cfg f f' ds :
  (ds_depth ds < f)%nat -> (f <= f')%nat -> run f' cfg ds = run f cfg ds /\ extract f' cfg ds = extract f cfg ds.
Proof.
  intros H1 H2. assert (run f' cfg ds = run f cfg ds) as E by (apply run_fuel; lia).
  split; [exact E | unfold extract; rewrite E; reflexivity].
Qed.

(** * Every non-empty element that is neither translated nor ignored appears *)

Lemma Forall2_in_l {X Y} (R : X -> Y -> Prop) l1 l2 x : Forall2 R l1 l2 -> In x l1 -> exists y, In y l2 /\ R x y.
Proof.
  induction 1 as [|a b l1 l2 Hab _ IH]; simpl; intros Hin; [contradiction|].
  destruct Hin as [<- | Hin]; [exists b; split; [left; reflexivity | exact Hab]|].
  destruct (IH Hin) as [y [Hy HR]]. exists y. split; [right; exact Hy | exact HR].
Qed.

Lemma survivors_mem cfg : forall pre m e post m1,
  tmap_from cfg m (pre ++ [e]) = Ok m1 -> contributes (kind_of cfg m1 e) = true ->
  In e (survivors_from cfg m (pre ++ e :: post)).
Proof.
  induction pre as [|a pre IH]; intros m e post m1 Hm Hc; simpl in Hm |- *.
  - destruct (reg_elem cfg m e) as [m'|] eqn:Hreg; [|discriminate]. injection Hm as <-.
    rewrite (next_map_ok _ _ _ _ Hreg), Hc. left. reflexivity.
  - destruct (reg_elem cfg m a) as [m'|] eqn:Hreg; [|discriminate].
    rewrite (next_map_ok _ _ _ _ Hreg).
    destruct (contributes (kind_of cfg m' a)); [right|]; apply (IH _ _ _ _ Hm Hc).
Qed.

Theorem appears cfg f ds st pre e post m :
  run (S f) cfg ds = Ok st ->
  ds = pre ++ e :: post ->
  tmap_of cfg (pre ++ [e]) = Ok m ->
  is_blank_str (snd e) = false ->              (* not blank text *)
  map_get (etag e) m = None ->                 (* not claimed by a translator *)
  ignored cfg (etag e) = false ->              (* not matched by a configured ignore rule *)
  snd e <> VSeq [] ->                          (* not an empty sequence *)
  get_elem_value cfg e <> Ok VNone ->          (* its value does not convert to None *)
  exists x, In x (s_std st) /\ entry_ok cfg (extract f cfg) e x.
Proof.
  intros H -> Hm Hb Hg Hi Hs Hv. destruct (run_facts _ _ _ _ H) as [_ [HF _]].
  assert (Hc : contributes (kind_of cfg m e) = true).
  { unfold kind_of. rewrite Hb, Hg, Hi.
    destruct (snd e) as [| | | | | |[|it items]| |] eqn:Ev;
      try (destruct (get_elem_value cfg e) as [[]|]; try reflexivity; exfalso; apply Hv; reflexivity);
      try reflexivity; exfalso; apply Hs; reflexivity. }
  pose proof (survivors_mem cfg pre [] e post m Hm Hc) as Hin.
  apply (Forall2_in_l _ _ _ _ HF Hin).
Qed.

(** private extraction enabled: a configuration whose rules are among pixel / overlay / colour-table *)
Theorem private_enabled cfg f ds st pre e post m :
  (forall r, In r (c_rules cfg) -> r <> RPrivate) ->
  run (S f) cfg ds = Ok st ->
  ds = pre ++ e :: post ->
  tmap_of cfg (pre ++ [e]) = Ok m ->
  N.odd (fst (etag e)) = true ->                                     (* a private element ... *)
  ~ (N.land (fst (etag e)) 0xff00 = 0x6000 /\ snd (etag e) = 0x3000) ->  (* ... outside the overlay data rule's reach *)
  is_blank_str (snd e) = false ->
  map_get (etag e) m = None ->
  snd e <> VSeq [] ->
  get_elem_value cfg e <> Ok VNone ->
  exists x, In x (s_std st) /\ entry_ok cfg (extract f cfg) e x.
Proof.
  intros Hr H Hds Hm Hodd Hov Hb Hg Hs Hv.
  apply (appears cfg f ds st pre e post m); try assumption.
  unfold ignored. destruct (existsb (fun r => apply_rule r (etag e)) (c_rules cfg)) eqn:E; [|reflexivity].
  exfalso. apply existsb_exists in E. destruct E as [r [Hin Hap]].
  destruct (etag e) as [g el]. simpl fst in *. simpl snd in *.
  destruct r; simpl in Hap.
  - apply (Hr RPrivate Hin). reflexivity.
  - apply andb_true_iff in Hap. destruct Hap as [Hg' _]. apply N.eqb_eq in Hg'. subst g. discriminate Hodd.
  - apply andb_true_iff in Hap. destruct Hap as [H1 H2]. apply N.eqb_eq in H1. apply N.eqb_eq in H2. apply Hov. split; assumption.
  - apply andb_true_iff in Hap. destruct Hap as [Hg' _]. apply N.eqb_eq in Hg'. subst g. discriminate Hodd.
Qed.

(** * JSON *)

(** what json.dumps accepts: None, str (and subclasses), int, float (and subclasses), list, dict with str keys *)
Fixpoint json_ok (v : val) : bool :=
  match v with
  | VNone => true
  | VStr CStr _ | VStr CUid _ => true
  | VStr CPn _ => false
  | VInt _ _ => true
  | VNum _ _ _ => true
  | VBytes _ => false
  | VMulti CList l => forallb json_ok l
  | VMulti CMulti _ => false
  | VSeq _ => false
  | VDict kvs => forallb (fun kv => json_ok (snd kv)) kvs
  | VOpaque _ _ => false
  end.

Definition dict_json (d : dict) : bool := forallb (fun kv => json_ok (snd kv)) d.

(** hypothesis on the inputs: an element whose VR has no conversion holds only JSON-representable Python values
    (so: the conversions cover the byte-string VRs and PN), at every nesting level *)
Definition value_json (cfg : config) (i : einfo) (v : val) : bool :=
  match dget (e_vr i) (c_convs cfg) with
  | Some _ => true
  | None => if (1 <? e_vm i)%nat then match v with VMulti _ l => forallb json_ok l | _ => false end
            else json_ok v
  end.

Fixpoint input_json (cfg : config) (i : einfo) (v : val) {struct v} : bool :=
  ignored cfg (e_tag i) ||
  match v with
  | VSeq items => forallb (fun item => forallb (fun p => input_json cfg (fst p) (snd p)) item) items
  | _ => value_json cfg i v
  end.
Definition inputs_json (cfg : config) (ds : dataset) : bool := forallb (fun p => input_json cfg (fst p) (snd p)) ds.

(** hypothesis on the translators: translation functions return JSON-representable values *)
Definition metas_json (cfg : config) : Prop :=
  forall t e meta, In t (c_translators cfg) -> t_fun t e = Ok meta -> dict_json meta = true.

Lemma conv_apply_json gt c v r : conv_apply gt c v = Ok r -> json_ok r = true.
Proof.
  destruct c, v as [| [] s | [] z | [] x tok | b | cl l | items | kvs | ty rp]; simpl; intros H; try discriminate H;
    try (injection H as <-; reflexivity).
  all: try (destruct (int_float_tok z); [injection H as <-; reflexivity | discriminate H]).
  injection H as <-. destruct (gt b); reflexivity.
Qed.

Lemma mapM_conv_json gt c : forall l l', mapM (conv_apply gt c) l = Ok l' -> forallb json_ok l' = true.
Proof.
  induction l as [|a l IH]; simpl; intros l' H.
  - injection H as <-. reflexivity.
  - destruct (conv_apply gt c a) as [b|] eqn:Ha; [|discriminate]. destruct (mapM (conv_apply gt c) l) as [bs|] eqn:Hl; [|discriminate].
    injection H as <-. simpl. rewrite (conv_apply_json _ _ _ _ Ha), (IH _ eq_refl). reflexivity.
Qed.

Lemma gev_json cfg i v r :
  value_json cfg i v = true -> get_elem_value cfg (i, v) = Ok r -> json_ok r = true.
Proof.
  intros Hin'. unfold value_json in Hin'. unfold get_elem_value. cbn [fst snd].
  destruct (vr_unpackable (e_vr i) && is_py_str v); [discriminate|].
  destruct (1 <? e_vm i)%nat eqn:Hvm.
  - destruct v as [| | | | | cl l | | |]; try discriminate.
    destruct (dget (e_vr i) (c_convs cfg)) as [c|].
    + destruct (e_vm i =? 1)%nat eqn:E1; [apply Nat.eqb_eq in E1; apply Nat.ltb_lt in Hvm; lia|].
      simpl. destruct (mapM (conv_apply (c_get_text cfg) c) l) as [l'|] eqn:HM; [|discriminate].
      intros H. injection H as <-. simpl. apply (mapM_conv_json _ _ _ _ HM).
    + intros H. injection H as <-. simpl. exact Hin'.
  - destruct (dget (e_vr i) (c_convs cfg)) as [c|].
    + destruct v as [| cs s | ci z | cn x tok | b | cl l | items | kvs | ty rp];
        try (intros H; injection H as <-; reflexivity);
        (destruct (e_vm i =? 1)%nat;
         [intros H; apply (conv_apply_json _ _ _ _ H) |
          simpl; try discriminate;
          try (destruct s; [|discriminate]); try (destruct b; [|discriminate]);
          try (destruct (mapM (conv_apply (c_get_text cfg) c) l) as [l'|] eqn:HM; [|discriminate]);
          intros H; injection H as <-; simpl; try reflexivity; try (apply (mapM_conv_json _ _ _ _ HM))]).
    + intros H. injection H as <-. exact Hin'.
Qed.

(** values of [finish] come from the standard entries or from the translator results *)
Lemma fold_dset_values {A X} (kf : X -> str) (vf : X -> A) : forall (l : list X) d k0 v0,
  In (k0, v0) (fold_left (fun r x => dset (kf x) (vf x) r) l d) -> In (k0, v0) d \/ exists x, In x l /\ v0 = vf x.
Proof.
  induction l as [|a l IH]; intros d k0 v0 H; simpl in H; [left; exact H|].
  apply IH in H. destruct H as [H | [x [Hx ->]]].
  - apply dset_in_cases in H. destruct H as [H | H]; [|left; exact H].
    injection H as _ ->. right. exists a. split; [left; reflexivity | reflexivity].
  - right. exists x. split; [right; exact Hx | reflexivity].
Qed.

Lemma finish_values st k0 v0 :
  In (k0, v0) (finish st) ->
  (exists x, In x (s_std st) /\ v0 = std_val x) \/ (exists tn meta k, In (tn, meta) (s_tmeta st) /\ In (k, v0) meta).
Proof.
  unfold finish.
  set (r1 := fold_left (fun r x => dset (final_key (s_std st) x) (std_val x) r) (s_std st) []).
  assert (Hr1 : forall k v, In (k, v) r1 -> exists x, In x (s_std st) /\ v = std_val x).
  { intros k v H. apply (fold_dset_values (final_key (s_std st)) std_val) in H. destruct H as [[] | H]. exact H. }
  clearbody r1. revert r1 Hr1. induction (s_tmeta st) as [|[tn meta] tm IH]; intros r1 Hr1 H; simpl in H.
  - left. apply (Hr1 k0 v0 H).
  - set (r2 := inject_one tn meta r1) in H.
    assert (Hr2 : forall k v, In (k, v) r2 -> (exists x, In x (s_std st) /\ v = std_val x) \/ In v (map snd meta)).
    { intros k v Hkv. unfold r2, inject_one in Hkv.
      apply (fold_dset_values (fun kv : str * val => trans_key tn (fst kv)) snd) in Hkv.
      destruct Hkv as [Hkv | [kv [Hkv ->]]]; [left; apply (Hr1 k v Hkv) | right; apply in_map; exact Hkv]. }
    clearbody r2.
    (* generalise the invariant: values of r are standard values or values of an already injected meta *)
    assert (G : forall (tm' : list (str * dict)) (r : dict) (done : list (str * dict)),
               (forall k v, In (k, v) r -> (exists x, In x (s_std st) /\ v = std_val x) \/ exists tn' meta' k', In (tn', meta') done /\ In (k', v) meta') ->
               In (k0, v0) (fold_left (fun r p => inject_one (fst p) (snd p) r) tm' r) ->
               (exists x, In x (s_std st) /\ v0 = std_val x) \/ exists tn' meta' k', In (tn', meta') (done ++ tm') /\ In (k', v0) meta').
    { clear. induction tm' as [|[tn' meta'] tm' IH']; intros r done Hr H; simpl in H.
      - rewrite app_nil_r. apply (Hr k0 v0 H).
      - replace (done ++ (tn', meta') :: tm') with ((done ++ [(tn', meta')]) ++ tm') by (rewrite <- app_assoc; reflexivity).
        apply (IH' (inject_one tn' meta' r)); [|exact H].
        intros k v Hkv. unfold inject_one in Hkv.
        apply (fold_dset_values (fun kv : str * val => trans_key tn' (fst kv)) snd) in Hkv.
        destruct Hkv as [Hkv | [kv [Hkv ->]]].
        + destruct (Hr k v Hkv) as [Hx | [a [b [c [H1 H2]]]]]; [left; exact Hx|].
          right. exists a, b, c. split; [apply in_or_app; left; exact H1 | exact H2].
        + right. exists tn', meta', (fst kv). split; [apply in_or_app; right; left; reflexivity|]. destruct kv; exact Hkv. }
    destruct (G tm r2 [(tn, meta)]) as [Hx | [a [b [c [H1 H2]]]]].
    + intros k v Hkv. destruct (Hr2 k v Hkv) as [Hx | Hm]; [left; exact Hx|].
      right. apply in_map_iff in Hm. destruct Hm as [[k' v'] [Hv' Hin]]. simpl in Hv'. subst v'.
      exists tn, meta, k'. split; [left; reflexivity | exact Hin].
    + exact H.
    + left. exact Hx.
    + right. exists a, b, c. split; [exact H1 | exact H2].
Qed.

Lemma forallb_map_VDict (rs : list dict) : forallb json_ok (map VDict rs) = forallb dict_json rs.
Proof. induction rs as [|r rs IH]; simpl; [reflexivity | rewrite IH; reflexivity]. Qed.

Theorem json_serialisable cfg : metas_json cfg ->
  forall f ds r, inputs_json cfg ds = true -> extract f cfg ds = Ok r -> dict_json r = true.
Proof.
  intros Hmeta. induction f as [|f IH]; intros ds r Hin H; [discriminate H|].
  unfold extract in H. destruct (run (S f) cfg ds) as [st|] eqn:Hrun; [|discriminate]. simpl in H. injection H as <-.
  destruct (run_facts _ _ _ _ Hrun) as [Hm [HF Htm]].
  unfold dict_json. apply forallb_forall. intros [k v] Hkv. simpl.
  apply finish_values in Hkv. destruct Hkv as [[x [Hx ->]] | [tn [meta [k' [Hin' Hkv]]]]].
  - destruct (Forall2_in_r _ _ _ _ HF Hx) as [e [He [_ [_ Hv]]]].
    assert (Heds : In e ds) by (apply (survivors_incl _ _ _ _ He)).
    unfold inputs_json in Hin. rewrite forallb_forall in Hin. pose proof (Hin e Heds) as Hie.
    pose proof (survivors_not_ignored _ _ _ _ He) as Hign.
    destruct e as [i v]. unfold etag in Hign. cbn [fst snd] in *.
    destruct v as [| cs s | ci z | cn xx tok | b | cl l | items | kvs | ty rp]; simpl in Hie; rewrite Hign in Hie; simpl in Hie;
      try (destruct Hv as [Hv _]; apply (gev_json cfg i _ _ Hie Hv)).
    destruct Hv as [rs [HM [_ ->]]]. simpl. rewrite forallb_map_VDict. apply forallb_forall. intros rr Hrr.
    apply mapM_Forall2 in HM. destruct (Forall2_in_r _ _ _ _ HM Hrr) as [item [Hitem Hext]].
    apply (IH item rr); [|exact Hext].
    rewrite forallb_forall in Hie. apply (Hie item Hitem).
  - rewrite Htm in Hin'. apply tl_fold_prov in Hin'. destruct Hin' as [[] | [e [t [Hin' [-> [Hf _]]]]]].
    pose proof (translated_bound_by _ _ _ _ _ Hm Hin') as [c [_ [_ [_ [Ht _]]]]]. simpl in Ht.
    pose proof (Hmeta t e meta Ht Hf) as Hj. unfold dict_json in Hj. rewrite forallb_forall in Hj.
    apply (Hj (k', v) Hkv).
Qed.
