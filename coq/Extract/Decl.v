(** A declarative reading of property C15, written from the property text and from DICOM's private-block rule.
    It uses the TYPES of the model (values, elements, configuration records, the rule and kind enumerations) and the
    shared notation [tag_to_str] for "%#X_%#X", but none of the model's FUNCTIONS: not the main loop, not the slot
    map, not [kinds_from] / [survivors_from], not [apply_rule] nor the generated tables, not [camel] / [split_ws].
    Character classes come from Common.PyNum (Python's str.isspace / ASCII upper). *)
From Coq Require Import Strings.String.
From Coq Require Import List Bool NArith ZArith Lia.
From DV Require Import Common.Res Common.Str Common.PyNum Extract.Model Extract.Spec.
Import ListNotations.
Local Open Scope N_scope.

(** * Keys *)

(** "[Name]" -> "Name": a name that starts with '[' and ends with ']' loses both *)
Definition d_strip (s : str) : str :=
  match s with
  | 91 :: r => match r with
               | [] => s
               | _ => if last r 0 =? 93 then removelast r else s
               end
  | _ => s
  end.

(** camel case, one pass: whitespace is dropped, the first character of every word is upper-cased, everything else
    is kept as it is.  [start] = "the next character starts a word". *)
Fixpoint d_camel (start : bool) (s : str) : str :=
  match s with
  | [] => []
  | c :: r => if py_isspace c then d_camel true r
              else (if start then to_upper c else c) :: d_camel false r
  end.

(** the key of an element: the DICOM keyword, else the camel-cased name *)
Definition d_key (i : einfo) : str :=
  match e_keyword i with
  | [] => d_camel true (d_strip (e_name i))
  | k => k
  end.

(** * Routing *)

(** blank text *)
Definition d_blank (v : val) : bool :=
  match v with VStr CStr s => forallb py_isspace s | _ => false end.

(** DICOM PS3.5 7.8.1: (gggg,00bb), gggg odd, bb in 10..FF, is a Private Creator element; it reserves (gggg,bb00-bbFF) *)
Definition d_creator_tag (t : tag) : bool := N.odd (fst t) && (16 <=? snd t) && (snd t <=? 255).

Definition d_text (v : val) : option str := match v with VStr _ s => Some s | _ => None end.

(** creator element [c] reserves the block that contains [e], its text is the creator string of translator [t], and
    [t] translates this slot of the block (low byte of its tag) *)
Definition d_claims (c e : elem) (t : translator) : bool :=
  d_creator_tag (etag c) && negb (d_blank (snd c)) &&
  match d_text (snd c) with Some s => str_eqb (t_creator t) s | None => false end &&
  (fst (etag e) =? fst (etag c)) &&
  (snd (etag e) / 256 =? snd (etag c)) &&
  (snd (etag e) mod 256 =? snd (t_tag t) mod 256).

Fixpoint first_some {A B} (f : A -> option B) (l : list A) : option B :=
  match l with
  | [] => None
  | a :: r => match f a with Some b => Some b | None => first_some f r end
  end.

(** the translator that claims [e], given the elements that precede it *)
Definition d_claim (cfg : config) (pre : dataset) (e : elem) : option translator :=
  first_some (fun c => first_some (fun t => if d_claims c e t then Some t else None) (c_translators cfg)) pre.

(** the ignore rules as predicates on (group, element), constants as in the DICOM standard *)
Definition d_rule (r : rule) (t : tag) : bool :=
  let g := fst t in let el := snd t in
  match r with
  | RPrivate => N.odd g
  | RPixel => (g =? 0x7fe0) && existsb (N.eqb el) [0x0008; 0x0009; 0x0010]
  | ROverlay => (N.land g 0xff00 =? 0x6000) && (el =? 0x3000)
  | RLut => (g =? 0x0028) && existsb (N.eqb el) [0x1201; 0x1202; 0x1203; 0x1221; 0x1222; 0x1223]
  end.
Definition d_ignored (cfg : config) (t : tag) : bool := existsb (fun r => d_rule r t) (c_rules cfg).

(** no value: None, or a single byte string under a get_text conversion that is not text *)
Definition d_novalue (cfg : config) (e : elem) : bool :=
  match snd e with
  | VNone => true
  | VBytes b => (e_vm (fst e) =? 1)%nat &&
                match dget (e_vr (fst e)) (c_convs cfg) with
                | Some CvText => match c_get_text cfg b with None => true | Some _ => false end
                | _ => false
                end
  | _ => false
  end.

(** the class of an element, by cases, in the order of the property text *)
Definition d_kind (cfg : config) (pre : dataset) (e : elem) : kind :=
  if d_blank (snd e) then KBlank else
  match d_claim cfg pre e with
  | Some _ => KTranslated
  | None =>
      if d_ignored cfg (etag e) then KIgnored else
      match snd e with
      | VSeq [] => KSeqEmpty
      | VSeq _ => KSequence
      | _ => if d_novalue cfg e then KNoValue else KPlain
      end
  end.

Fixpoint d_kinds (cfg : config) (pre rest : dataset) : list kind :=
  match rest with
  | [] => []
  | e :: r => d_kind cfg pre e :: d_kinds cfg (pre ++ [e]) r
  end.

(** the elements that get a key of their own: non-empty sequences and plain elements with a value *)
Fixpoint d_survivors (cfg : config) (pre rest : dataset) : list elem :=
  match rest with
  | [] => []
  | e :: r => match d_kind cfg pre e with
              | KSequence | KPlain => e :: d_survivors cfg (pre ++ [e]) r
              | _ => d_survivors cfg (pre ++ [e]) r
              end
  end.

(** the translated elements with their translator *)
Fixpoint d_translated (cfg : config) (pre rest : dataset) : list (elem * translator) :=
  match rest with
  | [] => []
  | e :: r => match d_kind cfg pre e, d_claim cfg pre e with
              | KTranslated, Some t => (e, t) :: d_translated cfg (pre ++ [e]) r
              | _, _ => d_translated cfg (pre ++ [e]) r
              end
  end.

(** clashes disambiguated by tag: a key that occurs more than once gets "_" and the tag of its element *)
Definition d_disambiguate (kts : list (str * tag)) : list str :=
  map (fun kt => if (1 <? length (filter (str_eqb (fst kt)) (map fst kts)))%nat
                 then fst kt ++ [95] ++ tag_to_str (snd kt) else fst kt) kts.

(** * The expected keys of the result, in order *)
Definition d_expected_std_keys (cfg : config) (ds : dataset) : list str :=
  d_disambiguate (map (fun e => (d_key (fst e), etag e)) (d_survivors cfg [] ds)).

Definition d_expected_trans_keys (cfg : config) (ds : dataset) : list str :=
  flat_map (fun p => match t_fun (snd p) (fst p) with
                     | Ok (x :: l) => map (fun kv => t_name (snd p) ++ [46] ++ fst kv) (x :: l)
                     | _ => []
                     end) (d_translated cfg [] ds).

Definition d_expected_keys (cfg : config) (ds : dataset) : list str :=
  d_expected_std_keys cfg ds ++ d_expected_trans_keys cfg ds.

(** hypothesis on the input (a pydicom fact, verified on every generated case): an element is called
    "Private Creator" exactly when its tag is a private creator tag *)
Definition names_wf (ds : dataset) : bool :=
  forallb (fun e => Bool.eqb (str_eqb (e_name (fst e)) (lit "Private Creator")) (d_creator_tag (etag e))) ds.
