(** Correspondence glue for C15: one case = configuration + abstract dataset (as pydicom presents it) +
    what MetaExtractor(...)(dataset) returned (or the class of the exception it raised). *)
From Coq Require Import Strings.String.
From Coq Require Import List Bool NArith ZArith.
From DV Require Import Common.Res Common.Str Common.PyNum Generated.T_extract Extract.Model Extract.ProofsStr Extract.Spec Extract.Decl.
Import ListNotations.
Local Open Scope N_scope.

(** The translation functions of the test translators (props/c15.py: TRANS_FUNCS), by number. *)
Definition test_trans_fun (kind : nat) (e : elem) : res dict :=
  let tagv := VStr CStr (tag_to_str (etag e)) in
  match kind with
  | 0%nat => Ok [(lit "Tag", tagv); (lit "VR", VStr CStr (e_vr (fst e)))]
  | 1%nat => Ok []                                       (* returns {} *)
  | 2%nat => Ok []                                       (* returns None *)
  | 3%nat => Err EValue                                  (* raises ValueError *)
  | 4%nat => Ok [(lit "a.b", VInt CInt 1); (lit "Tag", tagv)]
  | 5%nat => Ok [(lit "VM", VInt CInt (Z.of_nat (e_vm (fst e)))); (lit "Tag", tagv)]
  | _ => Err ECrash
  end.

(** The default CSA translators.  nibabel's csareader and the Phoenix protocol parser are not modelled: what they
    return for the CSA blobs the generator built is GENERATOR TRUTH carried by the case (function name, blob bytes,
    expected dictionary); on any other blob csareader raises. *)
Fixpoint csa_lookup (tbl : list (str * list N * dict)) (fname : str) (b : list N) : res dict :=
  match tbl with
  | [] => Err ECrash
  | (f, b', d) :: rest => if str_eqb f fname && str_eqb b b' then Ok d else csa_lookup rest fname b
  end.
Definition csa_fun (tbl : list (str * list N * dict)) (fname : str) (e : elem) : res dict :=
  match snd e with VBytes b => csa_lookup tbl fname b | _ => Err ECrash end.

Record tspec := mk_tspec { ts_name : str; ts_tag : tag; ts_creator : str; ts_kind : nat }.

Record case := mk_case {
  k_rules : option (list rule);                 (* None = constructor default (default_ignore_rules) *)
  k_trans : option (list tspec);                (* None = default_translators *)
  k_convs : option (list (str * converter));    (* None = default_conversions *)
  k_warn : bool;
  k_gt : list (list N * option str);            (* chardet's decoding of the byte strings, when chardet is installed; else [] *)
  k_csa : list (str * list N * dict);           (* generator truth for the valid CSA blobs of the case *)
  k_relax : list str;                           (* F12 situation (a translator bound to >= 2 elements): translator names whose keys are not compared *)
  k_ds : dataset;
  k_obs : res dict
}.

Fixpoint gt_lookup (tbl : list (list N * option str)) (b : list N) : option str :=
  match tbl with
  | [] => ascii_text b
  | (b', r) :: rest => if str_eqb b b' then r else gt_lookup rest b
  end.

Definition config_of (k : case) : config :=
  mk_config
    (match k_rules k with Some r => r | None => default_ignore_rules end)
    (match k_trans k with
     | Some l => map (fun s => mk_translator (ts_name s) (ts_tag s) (ts_creator s) (test_trans_fun (ts_kind s))) l
     | None => default_translators (csa_fun (k_csa k))
     end)
    (match k_convs k with Some c => c | None => default_conversions end)
    (k_warn k)
    (gt_lookup (k_gt k)).

Definition fuel : nat := 8.

Definition model (k : case) : res dict := extract fuel (config_of k) (k_ds k).

(** Input consistency (pydicom facts the theorems take as hypotheses, verified on every case):
    a single DS / IS value that carries the text it was made from has the value float(text) / int(text);
    an element is called "Private Creator" exactly when its group is odd and its element is in 0x10..0xff
    (Decl.names_wf, here at every nesting level). *)
Fixpoint raw_ok (i : einfo) (v : val) {struct v} : bool :=
  match v with
  | VSeq items => forallb (fun item => forallb (fun p => raw_ok (fst p) (snd p)) item) items
  | VNum CDs x _ => match e_raw i with
                    | Some s => match py_float s with Ok y => fval_eqb x y | Err _ => false end
                    | None => true
                    end
  | VInt CIs z => match e_raw i with
                  | Some s => match py_int s with Ok y => Z.eqb z y | Err _ => false end
                  | None => true
                  end
  | _ => true
  end.

Fixpoint creators_ok (i : einfo) (v : val) {struct v} : bool :=
  Bool.eqb (str_eqb (e_name i) private_creator_name) (d_creator_tag (e_tag i)) &&
  match v with
  | VSeq items => forallb (fun item => forallb (fun p => creators_ok (fst p) (snd p)) item) items
  | _ => true
  end.

Definition inputs_ok (ds : dataset) : bool :=
  forallb (fun p => raw_ok (fst p) (snd p) && creators_ok (fst p) (snd p)) ds.

(** The declarative reading (Extract/Decl.v) against the implementation directly: whenever the boolean hypotheses of
    C15_decl_keys hold for the top-level dataset, the keys the implementation returned are the expected keys. *)
Fixpoint tags_nodupb (l : list tag) : bool :=
  match l with
  | [] => true
  | x :: r => negb (existsb (tag_eqb x) r) && tags_nodupb r
  end.

Fixpoint str_list_eqb (a b : list str) : bool :=
  match a, b with
  | [], [] => true
  | x :: a', y :: b' => str_eqb x y && str_list_eqb a' b'
  | _, _ => false
  end.

Definition same_keys (a b : list str) : bool :=
  Nat.eqb (length a) (length b) && forallb (fun x => existsb (str_eqb x) b) a.

Definition decl_check (k : case) : bool :=
  match k_obs k with
  | Ok r =>
      let cfg := config_of k in let ds := k_ds k in
      if names_wf ds && tags_nodupb (map etag ds) && no_suffix_clash ds && no_dot_keys ds
         && trans_names_dot_free cfg && bound_once cfg ds
      then same_keys (d_expected_keys cfg ds) (map fst r)      (* as sets: the property does not speak of order *)
      else true
  | Err _ => true
  end.

(** In the F12 situation (one translator bound to two or more elements of one dataset) the model describes what the
    code does today (the last translation wins).  The property does not prescribe that, and a repair may change it:
    there the keys that begin with a translator name are left to the oracle (which recognises F12 exactly), and a
    refusal is accepted. *)
Fixpoint strip_val (names : list str) (v : val) {struct v} : val :=
  match v with
  | VDict kvs => VDict (flat_map (fun kv => if existsb (fun n => prefixb n (fst kv)) names then []
                                            else [(fst kv, strip_val names (snd kv))]) kvs)
  | VMulti c l => VMulti c (map (strip_val names) l)
  | _ => v
  end.
Definition strip_dict (names : list str) (d : dict) : dict :=
  match strip_val names (VDict d) with VDict d' => d' | _ => d end.

(** raised / not raised (the property names no exception class); results as maps *)
Definition agree (relax : list str) (m o : res dict) : bool :=
  match m, o with
  | Ok a, Ok b => match relax with [] => dict_eqb a b | _ => dict_eqb (strip_dict relax a) (strip_dict relax b) end
  | Err _, Err _ => true
  | Ok _, Err _ => match relax with [] => false | _ => true end
  | _, _ => false
  end.

(** [inputs_ok] (pydicom facts) is NOT part of the verdict: a pydicom that presents values differently is not a
    defect of the extractor.  It is evaluated by [facts] for the evidence only. *)
Definition check (k : case) : bool := agree (k_relax k) (model k) (k_obs k) && decl_check k.
Definition facts (k : case) : bool := inputs_ok (k_ds k).

Definition show (k : case) := model k.
