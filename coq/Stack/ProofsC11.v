(** Property C11 on the model: a stack converts exactly when its files tile a complete grid. *)
From Coq Require Import List Bool Arith Lia Permutation Sorted QArith Qcanon Qabs.
From DV Require Import Common.Res Common.Str Generated.T_stack
  Stack.Model Stack.Sort Stack.Order Stack.Spec Stack.ProofsOrder Stack.ProofsShape Stack.ProofsInv.
Import ListNotations.
Local Open Scope nat_scope.

(** the files of the stack tile an S x T x V grid of r x c images *)
Definition stack_grid (st : state) (S T V r c : nat) : Prop :=
  grid_complete (cfg_time st) (cfg_vec st) (files st) S T V /\
  (forall f, In f (files st) -> f_rows f = r /\ f_cols f = c).

Lemma compute_shape_ok_form st st' sh :
  compute_shape st = (st', Ok sh) -> shape_dirty st' = false /\ cached_shape st' = Some sh.
Proof.
  unfold compute_shape. destruct (grid_dims _ _ _ _) as [[nvol T]|e]; [|discriminate].
  destruct (order_files st _ _ nvol T _) as [fi2 [[]|e]]; [|discriminate].
  intros H. injection H as <- <-. split; reflexivity.
Qed.

Lemma get_shape_sound st sh :
  wf st -> snd (get_shape st) = Ok sh -> exists S T V r c, stack_grid st S T V r c /\ sh = grid_shape r c S T V.
Proof.
  intros Hwf. unfold get_shape. destruct (shape_dirty st) eqn:Hd.
  - destruct (compute_shape st) as [st' r] eqn:Ec. simpl. intros ->.
    pose proof (compute_shape_wf st st' _ Hwf Ec) as [Hwf' Hclean'].
    destruct (compute_shape_ok_form _ _ _ Ec) as [Hd' Hcs'].
    destruct (Hclean' Hd') as [S [T [V [r [c [H1 [H2 H3]]]]]]].
    destruct Hwf as [Hwf0 _].
    destruct (compute_shape_reorder st st' _ Hwf0 Ec) as [fi2 [[Hp _] Hst']].
    assert (Hfi : files_info st' = fi2) by (destruct Hst' as [-> | [sh' [-> _]]]; reflexivity).
    assert (Hcfg : cfg_time st' = cfg_time st /\ cfg_vec st' = cfg_vec st)
      by (destruct Hst' as [-> | [sh' [-> _]]]; split; reflexivity).
    destruct Hcfg as [Hct Hcv]. rewrite Hct, Hcv in H2.
    assert (Hpf : Permutation (files st') (files st)).
    { unfold files. rewrite Hfi. apply files_strip_perm, Hp. }
    exists S, T, V, r, c. split; [split|].
    + eapply grid_complete_perm; eassumption.
    + intros f Hf. assert (Hf' : In f (files st')) by (eapply Permutation_in; [symmetry; exact Hpf | exact Hf]).
      unfold files in Hf'. apply in_map_iff in Hf'. destruct Hf' as [e [<- He]]. apply H3, He.
    + rewrite Hcs' in H1. congruence.
  - simpl. destruct Hwf as [_ Hclean].
    destruct (Hclean Hd) as [S [T [V [r [c [H1 [H2 H3]]]]]]]. rewrite H1. intros H. injection H as <-.
    exists S, T, V, r, c. split; [split; [exact H2|] | reflexivity].
    intros f Hf. unfold files in Hf. apply in_map_iff in Hf. destruct Hf as [e [<- He]]. apply H3, He.
Qed.

Lemma get_shape_complete st S T V :
  wf st -> well_typed st -> grid_complete (cfg_time st) (cfg_vec st) (files st) S T V ->
  exists sh, snd (get_shape st) = Ok sh.
Proof.
  intros [Hwf0 Hclean] Hwt Hg. unfold get_shape. destruct (shape_dirty st) eqn:Hd.
  - destruct (compute_shape_complete st S T V Hwf0 Hwt Hg) as [st' [sh E]]. rewrite E. exists sh. reflexivity.
  - destruct (Hclean Hd) as [S' [T' [V' [r [c [H1 _]]]]]]. rewrite H1. eexists. reflexivity.
Qed.

Lemma get_shape_err st e : wf st -> well_typed st -> snd (get_shape st) = Err e -> e = EInvalidStack.
Proof.
  intros [Hwf0 Hclean] Hwt. unfold get_shape. destruct (shape_dirty st) eqn:Hd.
  - destruct (compute_shape st) as [st' r] eqn:Ec. simpl. intros ->.
    apply (compute_shape_err st st' e Hwf0 Hwt Ec).
  - destruct (Hclean Hd) as [S' [T' [V' [r [c [H1 _]]]]]]. rewrite H1. discriminate.
Qed.

(** the grid dimensions are determined by the files *)
Lemma stack_grid_unique st S T V r c S' T' V' r' c' :
  wf0 st -> stack_grid st S T V r c -> stack_grid st S' T' V' r' c' ->
  S = S' /\ T = T' /\ V = V' /\ r = r' /\ c = c'.
Proof.
  intros Hwf [Hg Hrc] [Hg' Hrc'].
  destruct (grid_complete_dims st S T V Hwf Hg) as [HS [HT [HV [Hn [HSe [HVe _]]]]]].
  destruct (grid_complete_dims st S' T' V' Hwf Hg') as [HS' [HT' [HV' [Hn' [HSe' [HVe' _]]]]]].
  assert (ES : S = S') by congruence. assert (EV : V = V') by congruence. subst S' V'.
  assert (ET : T = T') by nia. subst T'.
  split; [assumption|]. split; [reflexivity|]. split; [assumption|].
  destruct (files_info st) as [|e fi] eqn:E; [simpl in Hn; nia|].
  assert (Hin : In (e_file e) (files st)) by (unfold files; rewrite E; left; reflexivity).
  destruct (Hrc _ Hin) as [A1 A2]. destruct (Hrc' _ Hin) as [B1 B2].
  split; [rewrite <- A1, <- B1 | rewrite <- A2, <- B2]; reflexivity.
Qed.

(* ------------------------------------------------------------------------------------------ *)
(** * The theorems *)

Theorem C11_iff_lemma st sh :
  reachable st -> well_typed st ->
  (snd (get_shape st) = Ok sh <->
   exists S T V r c, stack_grid st S T V r c /\ sh = grid_shape r c S T V).
Proof.
  intros Hr Hwt. pose proof (reachable_wf st Hr) as Hwf. split.
  - apply get_shape_sound, Hwf.
  - intros [S [T [V [r [c [[Hg Hrc] ->]]]]]].
    destruct (get_shape_complete st S T V Hwf Hwt Hg) as [sh' Hsh']. rewrite Hsh'. f_equal.
    destruct (get_shape_sound st sh' Hwf Hsh') as [S' [T' [V' [r' [c' [Hsg' ->]]]]]].
    destruct Hwf as [Hwf0 _].
    destruct (stack_grid_unique st S T V r c S' T' V' r' c' Hwf0 (conj Hg Hrc) Hsg') as [-> [-> [-> [-> ->]]]].
    reflexivity.
Qed.

Theorem C11_refuse_lemma st :
  reachable st -> well_typed st ->
  (forall S T V, ~ grid_complete (cfg_time st) (cfg_vec st) (files st) S T V) ->
  snd (get_shape st) = Err EInvalidStack.
Proof.
  intros Hr Hwt Hn. pose proof (reachable_wf st Hr) as Hwf.
  destruct (snd (get_shape st)) as [sh|e] eqn:E.
  - exfalso. destruct (get_shape_sound st sh Hwf E) as [S [T [V [r [c [[Hg _] _]]]]]]. apply (Hn S T V Hg).
  - f_equal. eapply get_shape_err; eassumption.
Qed.

(** once the shape has been obtained, asking again succeeds *)
Lemma get_shape_again st sh :
  snd (get_shape st) = Ok sh -> get_shape (fst (get_shape st)) = (fst (get_shape st), Ok sh).
Proof.
  unfold get_shape at 1 3 4. destruct (shape_dirty st) eqn:Hd.
  - destruct (compute_shape st) as [st' r] eqn:Ec. simpl. intros ->.
    destruct (compute_shape_ok_form _ _ _ Ec) as [Hd' Hcs']. unfold get_shape. rewrite Hd', Hcs'. reflexivity.
  - simpl. destruct (cached_shape st) as [sh'|] eqn:Ecs; [|discriminate]. intros H. injection H as <-.
    unfold get_shape. rewrite Hd, Ecs. reflexivity.
Qed.

Theorem C11_queries_lemma st e :
  (snd (get_data st) = Err e <-> snd (get_shape st) = Err e) /\
  (snd (get_affine st) = Err e <-> snd (get_shape st) = Err e) /\
  (forall vo em, snd (to_nifti st vo em) = Err e <-> snd (get_shape st) = Err e) /\
  (forall vo, snd (to_nifti_wrapper st vo) = Err e <-> snd (get_shape st) = Err e).
Proof.
  assert (Hdata : snd (get_data st) = Err e <-> snd (get_shape st) = Err e).
  { unfold get_data. destruct (get_shape st) as [st1 [sh|e1]]; simpl; split; congruence. }
  assert (Haff : forall s, snd (get_affine s) = Err e <-> snd (get_shape s) = Err e).
  { intros s. unfold get_affine. destruct (get_shape s) as [st1 [sh|e1]]; simpl; split; congruence. }
  assert (Hnif : forall vo em, snd (to_nifti st vo em) = Err e <-> snd (get_shape st) = Err e).
  { intros vo em. unfold to_nifti, get_data.
    destruct (get_shape st) as [st1 [sh|e1]] eqn:E; simpl; [|split; congruence].
    assert (Hagain : get_shape st1 = (st1, Ok sh)).
    { pose proof (get_shape_again st sh) as H. rewrite E in H. simpl in H. apply H. reflexivity. }
    unfold get_affine. rewrite Hagain. simpl.
    match goal with |- context [if ?b then _ else st1] => destruct b end; simpl; split; congruence. }
  split; [exact Hdata|]. split; [apply Haff|]. split; [exact Hnif|]. intros vo. apply Hnif.
Qed.

(* ------------------------------------------------------------------------------------------ *)
(** * Defect classes *)

Lemma dedup_pos_length st : wf0 st ->
  length (dedup qc_eqb (map f_pos (files st))) = length (pos_vals st).
Proof.
  intros Hwf. apply nodup_same_length; [apply dedup_nodup, qc_eqb_spec | apply (w_pos_nd st Hwf)|].
  intros p. rewrite (dedup_in qc_eqb qc_eqb_spec), <- (pos_of_files st Hwf). symmetry. apply (w_pos_in st Hwf).
Qed.

Lemma dedup_pos_sorted st : wf0 st ->
  ssort qc_leb (dedup qc_eqb (map f_pos (files st))) = ssort qc_leb (pos_vals st).
Proof.
  intros Hwf. apply ssort_unique; [apply qc_leb_order|].
  apply NoDup_Permutation; [apply dedup_nodup, qc_eqb_spec | apply (w_pos_nd st Hwf)|].
  intros p. rewrite (dedup_in qc_eqb qc_eqb_spec), <- (pos_of_files st Hwf). symmetry. apply (w_pos_in st Hwf).
Qed.

Theorem C11_empty_lemma st :
  reachable st -> files st = [] -> snd (get_shape st) = Err EInvalidStack.
Proof.
  intros Hr He. pose proof (reachable_wf st Hr) as [Hwf0 Hclean].
  assert (Hwt : well_typed st) by (unfold well_typed; rewrite He; reflexivity).
  apply C11_refuse_lemma; try assumption. intros S T V Hg.
  destruct (grid_complete_dims st S T V Hwf0 Hg) as [HS [HT [HV [Hn _]]]].
  unfold files in He. apply (f_equal (@length file)) in He. rewrite map_length in He. simpl in He. nia.
Qed.

Theorem C11_count_lemma st :
  reachable st -> well_typed st ->
  length (files st) mod length (dedup qc_eqb (map f_pos (files st))) <> 0 ->
  snd (get_shape st) = Err EInvalidStack.
Proof.
  intros Hr Hwt Hmod. pose proof (reachable_wf st Hr) as [Hwf0 _].
  apply C11_refuse_lemma; try assumption. intros S T V Hg.
  destruct (grid_complete_dims st S T V Hwf0 Hg) as [HS [HT [HV [Hn [HSe _]]]]].
  apply Hmod. rewrite (dedup_pos_length st Hwf0). unfold files. rewrite map_length, Hn, <- HSe.
  apply Nat.mod_mul. lia.
Qed.

Theorem C11_spacing_lemma st :
  reachable st -> well_typed st ->
  1 < length (dedup qc_eqb (map f_pos (files st))) ->
  ~ even_spacing (ssort qc_leb (dedup qc_eqb (map f_pos (files st)))) ->
  snd (get_shape st) = Err EInvalidStack.
Proof.
  intros Hr Hwt Hlen Hsp. pose proof (reachable_wf st Hr) as [Hwf0 _].
  apply C11_refuse_lemma; try assumption. intros S T V Hg.
  destruct (grid_complete_dims st S T V Hwf0 Hg) as [HS [HT [HV [Hn [HSe [HVe Hok]]]]]].
  apply Hsp. rewrite (dedup_pos_sorted st Hwf0). apply spacing_ok_iff, Hok.
  rewrite (dedup_pos_length st Hwf0) in Hlen. lia.
Qed.

Theorem C11_accept_lemma st S T V :
  reachable st -> well_typed st -> grid_complete (cfg_time st) (cfg_vec st) (files st) S T V ->
  is_ok (snd (get_shape st)) = true /\ is_ok (snd (get_data st)) = true /\
  is_ok (snd (get_affine st)) = true /\
  (forall vo em, is_ok (snd (to_nifti st vo em)) = true) /\
  (forall vo, is_ok (snd (to_nifti_wrapper st vo)) = true).
Proof.
  intros Hr Hwt Hg. pose proof (reachable_wf st Hr) as Hwf.
  destruct (get_shape_complete st S T V Hwf Hwt Hg) as [sh Hsh].
  assert (Hno : forall {A} (x : res A), (forall e, x = Err e -> snd (get_shape st) = Err e) -> is_ok x = true).
  { intros A [a|e] H; [reflexivity|]. specialize (H e eq_refl). congruence. }
  split; [rewrite Hsh; reflexivity|].
  split; [apply Hno; intros e He; destruct (C11_queries_lemma st e) as [H _]; apply H, He|].
  split; [apply Hno; intros e He; destruct (C11_queries_lemma st e) as [_ [H _]]; apply H, He|].
  split.
  - intros vo em. apply Hno. intros e He. destruct (C11_queries_lemma st e) as [_ [_ [H _]]]. apply (H vo em), He.
  - intros vo. apply Hno. intros e He. destruct (C11_queries_lemma st e) as [_ [_ [_ H]]]. apply (H vo), He.
Qed.

(* ------------------------------------------------------------------------------------------ *)
(** * add_dcm *)

Lemma close1_spec a b : close1 np_rtol congruent_atol a b = true <-> close_spec a b.
Proof.
  unfold close1, close_spec, spec_atol. rewrite Qle_bool_iff. rewrite congruent_tol. reflexivity.
Qed.

Lemma close_list_spec a b : close_list np_rtol congruent_atol a b = true <-> Forall2 close_spec a b.
Proof.
  revert b. induction a as [|x xs IH]; intros [|y ys]; simpl.
  - split; [constructor | reflexivity].
  - split; [discriminate | intros H; inversion H].
  - split; [discriminate | intros H; inversion H].
  - rewrite andb_true_iff, close1_spec, IH. split.
    + intros [H1 H2]. constructor; assumption.
    + intros H. inversion H; subst. split; assumption.
Qed.

Lemma congruent_with_spec r f : congruent_with r f = true <-> congruent_spec r f.
Proof.
  unfold congruent_with, congruent_spec.
  rewrite !andb_true_iff, !close_list_spec, !Nat.eqb_eq. tauto.
Qed.

Theorem C11_add_lemma st f :
  reachable st ->
  (add_dcm st f = Err ENonImage <-> f_has_pix f = false) /\
  (add_dcm st f = Err EIncongruent <->
     f_has_pix f = true /\ exists r, ref_input st = Some r /\ ~ congruent_spec r f) /\
  (add_dcm st f = Err ECollision <->
     f_has_pix f = true /\ (forall r, ref_input st = Some r -> congruent_spec r f) /\
     explicit st = true /\
     In (sorting_tuple st f) (map (base_tuple (cfg_time st) (cfg_vec st)) (files st))) /\
  (forall e, add_dcm st f = Err e -> e = ENonImage \/ e = EIncongruent \/ e = ECollision).
Proof.
  intros Hr. pose proof (reachable_wf st Hr) as [Hwf0 _].
  assert (Hcong : congruent st f = true <-> forall r, ref_input st = Some r -> congruent_spec r f).
  { unfold congruent. destruct (ref_input st) as [r0|].
    - rewrite congruent_with_spec. split; [intros H r Hr0; injection Hr0 as <-; exact H | intros H; apply H; reflexivity].
    - split; [intros _ r Hr0; discriminate | reflexivity]. }
  assert (Hncong : congruent st f = false <-> exists r, ref_input st = Some r /\ ~ congruent_spec r f).
  { unfold congruent. destruct (ref_input st) as [r0|].
    - split.
      + intros H. exists r0. split; [reflexivity|]. rewrite <- congruent_with_spec. congruence.
      + intros [r [Hr0 Hn]]. injection Hr0 as <-. rewrite <- congruent_with_spec in Hn.
        destruct (congruent_with r0 f); [exfalso; apply Hn; reflexivity | reflexivity].
    - split; [discriminate | intros [r [Hr0 _]]; discriminate]. }
  assert (Hcol : explicit st = true ->
            (existsb (tuple_eqb (sorting_tuple st f)) (tuples st) = true <->
             In (sorting_tuple st f) (map (base_tuple (cfg_time st) (cfg_vec st)) (files st)))).
  { intros Hex. rewrite (existsb_eqb_in tuple_eqb tuple_eqb_spec), (w_tuples_in st Hwf0 Hex).
    rewrite (explicit_tuples st Hwf0 Hex). reflexivity. }
  unfold add_dcm. fold (explicit st).
  destruct (f_has_pix f) eqn:Hpix; cbn [negb].
  2:{ split; [split; [reflexivity | reflexivity]|].
      split; [split; [discriminate | intros [H _]; discriminate]|].
      split; [split; [discriminate | intros [H _]; discriminate]|].
      intros e H. injection H as <-. auto. }
  destruct (congruent st f) eqn:Hc; cbn [negb].
  2:{ pose proof (proj1 Hncong eq_refl) as [r [Hr0 Hn]].
      split; [split; discriminate|].
      split; [split; [intros _; split; [reflexivity|]; exists r; auto | reflexivity]|].
      split; [split; [discriminate | intros [_ [H _]]; exfalso; apply Hn, H, Hr0]|].
      intros e H. injection H as <-. auto. }
  pose proof (proj1 Hcong eq_refl) as Hc'.
  assert (Hnot2 : ~ (true = true /\ exists r, ref_input st = Some r /\ ~ congruent_spec r f)).
  { intros [_ [r [Hr0 Hn]]]. apply Hn, Hc', Hr0. }
  destruct (explicit st) eqn:Hex; cbn [andb].
  - specialize (Hcol eq_refl).
    destruct (existsb (tuple_eqb (sorting_tuple st f)) (tuples st)) eqn:Hin.
    + split; [split; discriminate|].
      split; [split; [discriminate | intros H; exfalso; apply Hnot2, H]|].
      split; [split; [intros _; split; [reflexivity|]; split; [exact Hc'|]; split; [reflexivity|]; apply Hcol; reflexivity | reflexivity]|].
      intros e H. injection H as <-. auto.
    + split; [split; discriminate|].
      split; [split; [discriminate | intros H; exfalso; apply Hnot2, H]|].
      split; [split; [discriminate | intros [_ [_ [_ H]]]; apply Hcol in H; discriminate]|].
      intros e H. discriminate.
  - split; [split; discriminate|].
    split; [split; [discriminate | intros H; exfalso; apply Hnot2, H]|].
    split; [split; [discriminate | intros [_ [_ [H _]]]; discriminate]|].
    intros e H. discriminate.
Qed.

Theorem C11_add_transactional_lemma st f e :
  add_dcm st f = Err e -> step st (OAdd f) = (st, Err e).
Proof. intros H. simpl. rewrite H. reflexivity. Qed.

(* ------------------------------------------------------------------------------------------ *)
(** * Uneven representation of slice positions / vector values *)

From DV Require Import Stack.ProofsCount.

Definition occ_pos (p : Qc) (fs : list file) : nat := length (filter (fun f => qc_eqb (f_pos f) p) fs).
Definition occ_vec (cv : bool) (v : option Qc) (fs : list file) : nat :=
  length (filter (fun f => oq_eqb (base_vec cv f) v) fs).

Lemma filter_map_length {A B} (h : A -> B) (p : B -> bool) (l : list A) :
  length (filter p (map h l)) = length (filter (fun x => p (h x)) l).
Proof. induction l as [|x xs IH]; simpl; [reflexivity|]. destruct (p (h x)); simpl; rewrite IH; reflexivity. Qed.

Lemma grid_ok_counts (h : file -> tuple) cv fs S T V :
  (forall f, t_pos (h f) = f_pos f) -> (forall f, t_vec (h f) = base_vec cv f) ->
  grid_ok (map h fs) S T V ->
  (forall p, In p (map f_pos fs) -> occ_pos p fs = V * T) /\
  (forall v, In v (map (base_vec cv) fs) -> occ_vec cv v fs = T * S).
Proof.
  intros Hp Hv Hg. split.
  - intros p Hin. unfold occ_pos.
    rewrite <- (grid_ok_pos_count _ S T V p Hg).
    + rewrite filter_map_length. f_equal. apply filter_ext. intros f. rewrite Hp. reflexivity.
    + rewrite map_map. rewrite (map_ext _ _ Hp). exact Hin.
  - intros v Hin. unfold occ_vec.
    rewrite <- (grid_ok_vec_count _ S T V v Hg).
    + rewrite filter_map_length. f_equal. apply filter_ext. intros f. rewrite Hv. reflexivity.
    + rewrite map_map. rewrite (map_ext _ _ Hv). exact Hin.
Qed.

Lemma grid_complete_counts ct cv fs S T V :
  grid_complete ct cv fs S T V ->
  (forall p, In p (map f_pos fs) -> occ_pos p fs = V * T) /\
  (forall v, In v (map (base_vec cv) fs) -> occ_vec cv v fs = T * S).
Proof.
  unfold grid_complete. destruct (ct || cv) eqn:Hex.
  - apply grid_ok_counts; intros f; reflexivity.
  - apply orb_false_iff in Hex. destruct Hex as [-> ->].
    intros [[_ Hg] | [_ [k [_ [_ Hg]]]]]; revert Hg; apply grid_ok_counts; intros f; reflexivity.
Qed.

Theorem C11_positions_lemma st p q :
  reachable st -> well_typed st ->
  In p (map f_pos (files st)) -> In q (map f_pos (files st)) ->
  occ_pos p (files st) <> occ_pos q (files st) ->
  snd (get_shape st) = Err EInvalidStack.
Proof.
  intros Hr Hwt Hp Hq Hne. apply C11_refuse_lemma; try assumption. intros S T V Hg.
  destruct (grid_complete_counts _ _ _ _ _ _ Hg) as [Hc _].
  apply Hne. rewrite (Hc p Hp), (Hc q Hq). reflexivity.
Qed.

Theorem C11_vectors_lemma st v w :
  reachable st -> well_typed st ->
  In v (map (base_vec (cfg_vec st)) (files st)) -> In w (map (base_vec (cfg_vec st)) (files st)) ->
  occ_vec (cfg_vec st) v (files st) <> occ_vec (cfg_vec st) w (files st) ->
  snd (get_shape st) = Err EInvalidStack.
Proof.
  intros Hr Hwt Hv Hw Hne. apply C11_refuse_lemma; try assumption. intros S T V Hg.
  destruct (grid_complete_counts _ _ _ _ _ _ Hg) as [_ Hc].
  apply Hne. rewrite (Hc v Hv), (Hc w Hw). reflexivity.
Qed.

(** the number of volumes is not a multiple of the number of distinct vector values *)
Lemma dedup_vec_length st : wf0 st ->
  length (dedup oq_eqb (map (base_vec (cfg_vec st)) (files st))) = length (vec_vals st).
Proof.
  intros Hwf. apply nodup_same_length; [apply dedup_nodup, oq_eqb_spec | apply (w_vec_nd st Hwf)|].
  intros v. rewrite (dedup_in oq_eqb oq_eqb_spec), (w_vec_in st Hwf). unfold vec_of, files. rewrite map_map.
  split; intros H; apply in_map_iff in H; destruct H as [e [<- He]]; apply in_map_iff; exists e; (split; [|exact He]);
    destruct (w_entry st Hwf e He) as [_ [Hv _]]; congruence.
Qed.

Theorem C11_volumes_lemma st :
  reachable st -> well_typed st ->
  (length (files st) / length (dedup qc_eqb (map f_pos (files st))))
    mod length (dedup oq_eqb (map (base_vec (cfg_vec st)) (files st))) <> 0 ->
  snd (get_shape st) = Err EInvalidStack.
Proof.
  intros Hr Hwt Hmod. pose proof (reachable_wf st Hr) as [Hwf0 _].
  apply C11_refuse_lemma; try assumption. intros S T V Hg.
  destruct (grid_complete_dims st S T V Hwf0 Hg) as [HS [HT [HV [Hn [HSe [HVe _]]]]]].
  apply Hmod. rewrite (dedup_pos_length st Hwf0), (dedup_vec_length st Hwf0). unfold files. rewrite map_length, Hn, <- HSe, <- HVe.
  rewrite Nat.div_mul by lia. rewrite (Nat.mul_comm V T). apply Nat.mod_mul. lia.
Qed.
