(** Specification of "the files tile a complete grid" (property C11), stated on the multiset of
    sorting tuples / files, without reference to the stack's algorithm. *)
From Coq Require Import List Bool Arith Permutation Sorted QArith Qcanon Qabs.
From DV Require Import Common.Str Generated.T_stack Stack.Model.
Import ListNotations.
Local Open Scope nat_scope.

(** lexicographic order on (vector, time, position) *)
Definition tuple_le (a b : tuple) : Prop := tuple_leb a b = true.

(** the spacing tolerance of the specification: every gap within 4 % (relative to that gap, plus
    numpy's absolute 1e-8) of the mean gap *)
Definition spec_rtol : Q := (4 # 100)%Q.
Definition even_spacing (P : list Qc) : Prop :=
  forall sp, In sp (gaps P) -> (Qabs (qmean (gaps P) - sp) <= np_atol + spec_rtol * Qabs sp)%Q.

(** [ts] tiles an S x T x V grid:
    - no two files share a cell (tuple);
    - [P] are the distinct slice positions in ascending order, evenly spaced; [Vs] the distinct vector values;
    - the count factors as V * T * S;
    - [l] is [ts] in lexicographic order; cutting it into runs of S gives V blocks of T volumes; every volume
      holds each position of [P] exactly once, the vector ordinate is constant on each block. *)
Definition grid_ok (ts : list tuple) (S T V : nat) : Prop :=
  exists (P : list Qc) (Vs : list (option Qc)) (l : list tuple) (cv : nat -> option Qc),
    NoDup ts /\
    StronglySorted Qclt P /\ (forall p, In p P <-> In p (map t_pos ts)) /\ length P = S /\
    (1 < S -> even_spacing P) /\
    NoDup Vs /\ (forall v, In v Vs <-> In v (map t_vec ts)) /\ length Vs = V /\
    0 < S /\ 0 < T /\ 0 < V /\ length ts = V * T * S /\
    Permutation l ts /\ StronglySorted tuple_le l /\
    forall vi ti, vi < V -> ti < T ->
      Permutation (map t_pos (firstn S (skipn ((vi * T + ti) * S) l))) P /\
      forall e, In e (firstn S (skipn ((vi * T + ti) * S) l)) -> t_vec e = cv vi.

(** sorting tuple of a file when the time key is guessed *)
Definition guess_tuple (key : str) (f : file) : tuple := (None, get_meta f key, f_pos f).

(** [key] is eligible: present on every file, and its number of distinct values is the number of
    volumes or the number of files *)
Definition guess_ok (key : str) (fs : list file) (nvol : nat) : Prop :=
  let vals := map (fun f => get_meta f key) fs in
  (forall v, In v vals -> v <> None) /\
  (length (dedup oq_eqb vals) = nvol \/ length (dedup oq_eqb vals) = length fs).

(** the accepted files [fs] of a stack configured with / without explicit time and vector orders tile
    an S x T x V grid *)
Definition grid_complete (ct cv : bool) (fs : list file) (S T V : nat) : Prop :=
  if ct || cv then grid_ok (map (base_tuple ct cv) fs) S T V
  else (NoDup (map f_pos fs) /\ grid_ok (map (base_tuple false false) fs) S T V)
       \/ (~ NoDup (map f_pos fs) /\
           exists key, In key sort_guesses /\ guess_ok key fs (T * V) /\
                       grid_ok (map (guess_tuple key) fs) S T V).

(** the shape tuple of an S x T x V grid of r x c images *)
Definition grid_shape (r c S T V : nat) : list nat :=
  if Nat.eqb V 1 then (if Nat.eqb T 1 then [r; c; S] else [r; c; S; T]) else [r; c; S; T; V].

(** the defect classes named by the property *)
Definition count_distinct_pos (ts : list tuple) : nat := length (dedup qc_eqb (map t_pos ts)).
Definition count_distinct_vec (ts : list tuple) : nat := length (dedup oq_eqb (map t_vec ts)).
Definition occurrences_pos (p : Qc) (ts : list tuple) : nat := length (filter (fun t => qc_eqb (t_pos t) p) ts).
Definition occurrences_vec (v : option Qc) (ts : list tuple) : nat := length (filter (fun t => oq_eqb (t_vec t) v) ts).

(** congruence of a new file [f] with the reference input [r] (the first accepted file): same matrix
    size, pixel spacing and orientation within 5e-5 (plus numpy's relative 1e-5) *)
Definition spec_atol : Q := (5 # 100000)%Q.
Definition close_spec (a b : Q) : Prop := (Qabs (a - b) <= spec_atol + np_rtol * Qabs b)%Q.
Definition congruent_spec (r f : file) : Prop :=
  Forall2 close_spec (f_ps f) (f_ps r) /\ Forall2 close_spec (f_iop f) (f_iop r) /\
  f_rows f = f_rows r /\ f_cols f = f_cols r.
