(** Counting consequences of [grid_ok]: every slice position occurs V*T times, every vector value T*S times. *)
From Coq Require Import List Bool Arith Lia Permutation Sorted QArith Qcanon.
From DV Require Import Common.Res Common.Str Stack.Model Stack.Sort Stack.Order Stack.Spec.
Import ListNotations.
Local Open Scope nat_scope.

(** sum of f over 0 .. n-1, peeled from the front *)
Fixpoint sumf (f : nat -> nat) (n : nat) : nat :=
  match n with
  | O => 0
  | S n' => f 0 + sumf (fun k => f (S k)) n'
  end.

Lemma sumf_ext f g n : (forall k, k < n -> f k = g k) -> sumf f n = sumf g n.
Proof.
  revert f g. induction n as [|n IH]; intros f g H; simpl; [reflexivity|].
  rewrite (H 0) by lia. f_equal. apply IH. intros k Hk. apply H. lia.
Qed.

Lemma sumf_const c n : sumf (fun _ => c) n = n * c.
Proof. induction n as [|n IH]; simpl; [reflexivity|]. rewrite IH. lia. Qed.

Section Count.
  Context {A : Type} (p : A -> bool).
  Definition cnt (l : list A) : nat := length (filter p l).

  Lemma cnt_app l l' : cnt (l ++ l') = cnt l + cnt l'.
  Proof. unfold cnt. rewrite filter_app, app_length. reflexivity. Qed.

  Lemma cnt_perm l l' : Permutation l l' -> cnt l = cnt l'.
  Proof.
    unfold cnt. induction 1; simpl; try lia.
    - destruct (p x); simpl; lia.
    - destruct (p x), (p y); simpl; lia.
  Qed.

  Lemma cnt_all l : (forall x, In x l -> p x = true) -> cnt l = length l.
  Proof.
    unfold cnt. induction l as [|x xs IH]; intros H; simpl; [reflexivity|].
    rewrite (H x) by (left; reflexivity). simpl. f_equal. apply IH. intros y Hy. apply H. right. exact Hy.
  Qed.

  Lemma cnt_none l : (forall x, In x l -> p x = false) -> cnt l = 0.
  Proof.
    unfold cnt. induction l as [|x xs IH]; intros H; simpl; [reflexivity|].
    rewrite (H x) by (left; reflexivity). apply IH. intros y Hy. apply H. right. exact Hy.
  Qed.

  (** a list of N chunks of width K *)
  Lemma cnt_chunks K N : forall l, length l = N * K -> cnt l = sumf (fun k => cnt (chunk K k l)) N.
  Proof.
    induction N as [|N IH]; intros l Hl.
    - destruct l; [reflexivity | discriminate].
    - cbn [sumf]. rewrite <- (firstn_skipn K l) at 1. rewrite cnt_app. f_equal.
      rewrite (IH (skipn K l)) by (rewrite skipn_length; simpl in Hl; lia).
      apply sumf_ext. intros k _. rewrite chunk_skipn. reflexivity.
  Qed.
End Count.

(** a chunk of T*S elements is made of T chunks of S elements *)
Lemma in_block_in_volume {A} (l : list A) S T vi x :
  0 < S -> (vi + 1) * (T * S) <= length l ->
  In x (chunk (T * S) vi l) -> exists ti, ti < T /\ In x (chunk S (vi * T + ti) l).
Proof.
  intros HS Hlen Hin.
  assert (Hcl : length (chunk (T * S) vi l) = T * S) by (apply chunk_length; exact Hlen).
  destruct (In_nth _ _ x Hin) as [j [Hj Hx]]. rewrite Hcl in Hj.
  rewrite nth_chunk in Hx by exact Hj.
  exists (j / S). split; [apply Nat.div_lt_upper_bound; lia|].
  rewrite <- Hx.
  replace (vi * (T * S) + j) with ((vi * T + j / S) * S + j mod S)
    by (pose proof (Nat.div_mod j S ltac:(lia)); nia).
  rewrite <- (nth_chunk l S (vi * T + j / S) (j mod S) x) by (apply Nat.mod_upper_bound; lia).
  apply nth_In. rewrite chunk_length.
  - apply Nat.mod_upper_bound. lia.
  - assert (j / S < T) by (apply Nat.div_lt_upper_bound; lia). nia.
Qed.

Lemma sumf_indicator (cv : nat -> option Qc) (v : option Qc) c V :
  sumf (fun vi => if oq_eqb (cv vi) v then c else 0) V
  = c * length (filter (fun w => oq_eqb w v) (map cv (seq 0 V))).
Proof.
  revert cv. induction V as [|V IH]; intros cv; [simpl; lia|].
  cbn [sumf]. rewrite (IH (fun k => cv (S k))).
  assert (Hs : map cv (seq 0 (S V)) = cv 0 :: map (fun k => cv (S k)) (seq 0 V)).
  { simpl. f_equal. rewrite <- seq_shift, map_map. reflexivity. }
  rewrite Hs. cbn [filter].
  destruct (oq_eqb (cv 0) v); cbn [length]; lia.
Qed.

Lemma nodup_filter_one (l : list (option Qc)) v :
  NoDup l -> In v l -> length (filter (fun w => oq_eqb w v) l) = 1.
Proof.
  induction l as [|x xs IH]; intros Hnd Hin; [destruct Hin|].
  inversion Hnd as [|? ? Hni Hnd']; subst. simpl.
  destruct (oq_eqb_spec x v) as [->|Hne].
  - simpl. f_equal. apply (cnt_none (fun w => oq_eqb w v)). intros y Hy.
    destruct (oq_eqb_spec y v) as [->|]; [contradiction | reflexivity].
  - destruct Hin as [->|Hin]; [congruence|]. apply IH; assumption.
Qed.

(** * The two counting facts *)

Lemma grid_ok_pos_count ts S T V p :
  grid_ok ts S T V -> In p (map t_pos ts) ->
  length (filter (fun t => qc_eqb (t_pos t) p) ts) = V * T.
Proof.
  intros [P [Vs [l [cv H]]]] Hp.
  destruct H as [Hnd [HPs [HPin [HPl [Hsp [HVnd [HVin [HVl [HS [HT [HV [Hlen [Hperm [Hsort Ha]]]]]]]]]]]]]].
  change (cnt (fun t => qc_eqb (t_pos t) p) ts = V * T).
  rewrite <- (cnt_perm _ _ _ Hperm).
  assert (Hl : length l = (V * T) * S) by (rewrite (Permutation_length Hperm); exact Hlen).
  rewrite (cnt_chunks _ S (V * T) l Hl).
  rewrite (sumf_ext _ (fun _ => 1)); [rewrite sumf_const; lia|].
  intros k Hk.
  assert (Hk' : k = (k / T) * T + k mod T) by (pose proof (Nat.div_mod k T ltac:(lia)); lia).
  destruct (Ha (k / T) (k mod T)) as [Hpp _];
    [apply Nat.div_lt_upper_bound; lia | apply Nat.mod_upper_bound; lia|].
  rewrite <- Hk' in Hpp. change (firstn S (skipn (k * S) l)) with (chunk S k l) in Hpp.
  (* count the position p in a list of positions that is a permutation of the duplicate-free P *)
  assert (Hc : cnt (fun t => qc_eqb (t_pos t) p) (chunk S k l)
               = cnt (fun x => qc_eqb x p) (map t_pos (chunk S k l))).
  { unfold cnt. generalize (chunk S k l). intros c. induction c as [|x xs IH]; simpl; [reflexivity|].
    destruct (qc_eqb (t_pos x) p); simpl; rewrite IH; reflexivity. }
  rewrite Hc, (cnt_perm _ _ _ Hpp).
  assert (HpP : In p P) by (apply HPin; exact Hp).
  assert (HPnd : NoDup P) by (apply strict_sorted_nodup, HPs).
  clear - HpP HPnd. induction P as [|x xs IH]; [destruct HpP|].
  inversion HPnd as [|? ? Hni Hnd']; subst. unfold cnt in *. simpl.
  destruct (qc_eqb_spec x p) as [->|Hne].
  - simpl. f_equal. apply (cnt_none (fun y => qc_eqb y p)). intros y Hy.
    destruct (qc_eqb_spec y p) as [->|]; [contradiction | reflexivity].
  - destruct HpP as [->|Hin]; [congruence|]. apply IH; assumption.
Qed.

Lemma grid_ok_vec_count ts S T V v :
  grid_ok ts S T V -> In v (map t_vec ts) ->
  length (filter (fun t => oq_eqb (t_vec t) v) ts) = T * S.
Proof.
  intros [P [Vs [l [cv H]]]] Hv.
  destruct H as [Hnd [HPs [HPin [HPl [Hsp [HVnd [HVin [HVl [HS [HT [HV [Hlen [Hperm [Hsort Ha]]]]]]]]]]]]]].
  change (cnt (fun t => oq_eqb (t_vec t) v) ts = T * S).
  rewrite <- (cnt_perm _ _ _ Hperm).
  assert (Hl : length l = V * (T * S)) by (rewrite (Permutation_length Hperm), Hlen; lia).
  (* every element of block vi carries cv vi *)
  assert (Hblock : forall vi e, vi < V -> In e (chunk (T * S) vi l) -> t_vec e = cv vi).
  { intros vi e Hvi He.
    destruct (in_block_in_volume l S T vi e HS) as [ti [Hti Hin]]; [nia | exact He|].
    destruct (Ha vi ti Hvi Hti) as [_ Hvec]. apply Hvec. exact Hin. }
  (* the block values enumerate Vs without repetition *)
  assert (Hincl : incl Vs (map cv (seq 0 V))).
  { intros w Hw. apply HVin in Hw. apply in_map_iff in Hw. destruct Hw as [e [<- He]].
    assert (Hel : In e l) by (eapply Permutation_in; [symmetry; exact Hperm | exact He]).
    destruct (In_nth _ _ e Hel) as [j [Hj Hx]].
    assert (Hvi : j / (T * S) < V) by (apply Nat.div_lt_upper_bound; nia).
    apply in_map_iff. exists (j / (T * S)). split; [|apply in_seq; lia].
    symmetry. apply Hblock; [exact Hvi|].
    rewrite <- Hx.
    replace j with (j / (T * S) * (T * S) + j mod (T * S)) at 1
      by (pose proof (Nat.div_mod j (T * S) ltac:(nia)); lia).
    rewrite <- (nth_chunk l (T * S) (j / (T * S)) (j mod (T * S)) e) by (apply Nat.mod_upper_bound; nia).
    apply nth_In. rewrite chunk_length; [apply Nat.mod_upper_bound; nia | nia]. }
  assert (Hcvnd : NoDup (map cv (seq 0 V))).
  { eapply NoDup_incl_NoDup; [exact HVnd | rewrite map_length, seq_length; lia | exact Hincl]. }
  assert (HvIn : In v (map cv (seq 0 V))) by (apply Hincl, HVin, Hv).
  rewrite (cnt_chunks _ (T * S) V l Hl).
  rewrite (sumf_ext _ (fun vi => if oq_eqb (cv vi) v then T * S else 0)).
  - rewrite sumf_indicator, (nodup_filter_one _ v Hcvnd HvIn). lia.
  - intros vi Hvi.
    assert (Hcl : length (chunk (T * S) vi l) = T * S) by (apply chunk_length; nia).
    destruct (oq_eqb_spec (cv vi) v) as [E|Hne].
    + transitivity (length (chunk (T * S) vi l)); [|exact Hcl].
      apply cnt_all. intros e He. rewrite (Hblock vi e Hvi He), E.
      destruct (oq_eqb_spec v v); congruence.
    + apply cnt_none. intros e He. rewrite (Hblock vi e Hvi He).
      destruct (oq_eqb_spec (cv vi) v); congruence.
Qed.
