(** Correspondence glue for the DicomStack model: a case is a configuration, the per-file affines (input), a
    history of operations (the files are inside the [OAdd]s) and, per operation, the PUBLIC result of the
    implementation.  [check] runs the model on the same calls ([Model.trace] = [step] after [run] of the calls so
    far, lemma [ProofsC12.trace_spec]) and compares EVERY operation: "code after a history = model after that
    history" is decided here per case, "model after a history = model on a fresh stack" is theorem C12_history /
    C12_queries. *)
From Coq Require Import List Bool Arith ZArith NArith QArith Qcanon.
From DV Require Import Common.Res Common.Str Common.F64 Stack.Model.
Import ListNotations.
Local Open Scope nat_scope.

(** Only PUBLIC results are observed: (exception class or None, shape, dtype code of the returned array / image,
    pixdim[4] of a returned image, phase code of its dim_info (0 unset, 1 'ROW', 2 other), and the order of
    the files in the returned voxel array, read off the pixel values - which file's pixels sit in voxel block
    (s, t, v), slice-major, then time, then vector - and the 16 entries (row major, exact values of the doubles) of
    the affine returned by get_affine / carried by an image converted without reorientation). *)
Definition obs_item :=
  (option err * option (list nat) * option nat * option Q * option nat * option (list nat) * option (list Q))%type.

Record case := mkcase {
  c_time : bool;
  c_vec : bool;
  c_affs : list (nat * list Q);      (* file id |-> its own affine: diag(-1,-1,1,1) x DicomWrapper.affine, row major *)
  c_ops : list op;
  c_obs : list obs_item
}.

Fixpoint aff_get (affs : list (nat * list Q)) (i : nat) : option (list Q) :=
  match affs with
  | [] => None
  | (j, a) :: r => if Nat.eqb i j then Some a else aff_get r i
  end.

Fixpoint set_nth {A} (l : list A) (k : nat) (x : A) : list A :=
  match l, k with
  | [], _ => []
  | _ :: t, O => x :: t
  | h :: t, S k' => h :: set_nth t k' x
  end.

(** get_affine (dcmstack.py 801-835, after 9c7aa81): a copy of the first sorted file's affine; with several
    files per volume its slice column becomes second_offset - first_offset, a float64 subtraction *)
Definition model_affine (affs : list (nat * list Q)) (i0 : nat) (col : option (nat * nat)) : option (list Q) :=
  match aff_get affs i0 with
  | None => None
  | Some A =>
      match col with
      | None => Some A
      | Some (a, b) =>
          match aff_get affs a, aff_get affs b with
          | Some Aa, Some Ab =>
              let d k := fsub (nth k Ab 0%Q) (nth k Aa 0%Q) in
              Some (set_nth (set_nth (set_nth A 2 (d 3)) 6 (d 7)) 10 (d 11))
          | _, _ => None
          end
      end
  end.

Fixpoint qs_eqb (a b : list Q) : bool :=
  match a, b with
  | [], [] => true
  | x :: xs, y :: ys => Qeq_bool x y && qs_eqb xs ys
  | _, _ => false
  end.

(** the affine the model predicts for an outcome: get_affine, and a conversion without reorientation (the image
    then carries exactly that array; the reoriented affine is Conv.Geom's subject) *)
Definition affine_of_outcome (affs : list (nat * list Q)) (o : outcome) : option (list Q) :=
  match o with
  | OutAffine i0 col => model_affine affs i0 col
  | OutNifti n => match o_vo n with
                  | None => model_affine affs (o_aff0 n) (o_slicecol n)
                  | Some _ => None
                  end
  | _ => None
  end.

Fixpoint nats_eqb (a b : list nat) : bool :=
  match a, b with
  | [], [] => true
  | x :: xs, y :: ys => Nat.eqb x y && nats_eqb xs ys
  | _, _ => false
  end.

Definition shape_of_outcome (o : outcome) : option (list nat) :=
  match o with
  | OutShape sh => Some sh
  | OutData _ sh _ => Some sh
  | _ => None
  end.

(** pixdim[4]: the single RepetitionTime, nibabel's default 1 when it is not set *)
Definition pixdim4_of_outcome (o : outcome) : option Q :=
  match o with
  | OutNifti n => Some (match o_tr n with Some x => this x | None => 1%Q end)
  | _ => None
  end.
Definition phase_of_outcome (o : outcome) : option nat :=
  match o with
  | OutNifti n => Some (match o_phase n with None => 0 | Some true => 1 | Some false => 2 end)
  | _ => None
  end.

Definition order_of_outcome (o : outcome) : option (list nat) :=
  match o with
  | OutData order _ _ => Some order
  | OutNifti n => Some (o_order n)
  | _ => None
  end.

Definition dtype_of_outcome (o : outcome) : option nat :=
  match o with
  | OutData _ _ d => Some d
  | OutNifti n => Some (o_dtype n)
  | _ => None
  end.

(** exception classes are compared exactly where the API documents them (InvalidStackError,
    IncongruentImageError, ImageCollisionError, NonImageDataSetError); where the model predicts the TypeError of
    [list.sort] (None against a number) any exception of the implementation counts as the refusal *)
Definition err_match (e e' : err) : bool :=
  match e with
  | EType => true
  | _ => err_eqb e e'
  end.

Definition item_match (affs : list (nat * list Q)) (m : res outcome * (list nat * bool)) (o : obs_item) : bool :=
  let '(r, _) := m in
  let '(oerr, oshape, odtype, opix, ophase, oorder, oaff) := o in
  match r, oerr with
  | Ok out, None =>
      match oshape with
      | None => true
      | Some sh => match shape_of_outcome out with Some sh' => nats_eqb sh sh' | None => false end
      end &&
      match odtype with
      | None => true
      | Some d => match dtype_of_outcome out with Some d' => Nat.eqb d d' | None => false end
      end &&
      match opix with
      | None => true
      | Some x => match pixdim4_of_outcome out with Some x' => Qeq_bool x x' | None => false end
      end &&
      match ophase with
      | None => true
      | Some c => match phase_of_outcome out with Some c' => Nat.eqb c c' | None => false end
      end &&
      match oorder with
      | None => true
      | Some l => match order_of_outcome out with Some l' => nats_eqb l l' | None => false end
      end &&
      match oaff with
      | None => true
      | Some a => match affine_of_outcome affs out with Some a' => qs_eqb a a' | None => false end
      end
  | Err e, Some e' => err_match e e'
  | _, _ => false
  end.

Fixpoint match_all (affs : list (nat * list Q)) (a : list (res outcome * (list nat * bool))) (b : list obs_item) : bool :=
  match a, b with
  | [], [] => true
  | x :: xs, y :: ys => item_match affs x y && match_all affs xs ys
  | _, _ => false
  end.

Definition model_trace (c : case) := trace (init (c_time c) (c_vec c)) (c_ops c).

Definition check (c : case) : bool := match_all (c_affs c) (model_trace c) (c_obs c).

(** what the model computed, for replay files *)
Definition show_item (affs : list (nat * list Q)) (m : res outcome * (list nat * bool)) :=
  match fst m with
  | Ok out => (None, shape_of_outcome out, dtype_of_outcome out, pixdim4_of_outcome out, phase_of_outcome out,
               order_of_outcome out, affine_of_outcome affs out)
  | Err e => (Some e, None, None, None, None, None, None)
  end.
Definition show (c : case) := map (show_item (c_affs c)) (model_trace c).
