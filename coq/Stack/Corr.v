(** Correspondence glue for the DicomStack model: a case is a configuration, a history of operations
    (the files are inside the [OAdd]s) and, per operation, what the implementation did:
    (exception class or None, shape when the call returns one, ids of [_files_info] afterwards,
    [_shape_dirty] afterwards). *)
From Coq Require Import List Bool Arith ZArith NArith QArith Qcanon.
From DV Require Import Common.Res Common.Str Stack.Model.
Import ListNotations.
Local Open Scope nat_scope.

(** Only PUBLIC results are observed: (exception class or None, shape, dtype code of the returned array / image,
    pixdim[4] of a returned image, phase code of its dim_info (0 unset, 1 'ROW', 2 other), and the order of
    the files in the returned voxel array, read off the pixel values: slice-major, then time, then vector). *)
Definition obs_item := (option err * option (list nat) * option nat * option Q * option nat * option (list nat))%type.

Record case := mkcase {
  c_time : bool;
  c_vec : bool;
  c_ops : list op;
  c_obs : list obs_item
}.

Fixpoint nats_eqb (a b : list nat) : bool :=
  match a, b with
  | [], [] => true
  | x :: xs, y :: ys => Nat.eqb x y && nats_eqb xs ys
  | _, _ => false
  end.

Definition shape_of_outcome (o : outcome) : option (list nat) :=
  match o with
  | OutShape sh => Some sh
  | OutData _ sh _ => Some sh
  | _ => None
  end.

(** pixdim[4]: the single RepetitionTime, nibabel's default 1 when it is not set *)
Definition pixdim4_of_outcome (o : outcome) : option Q :=
  match o with
  | OutNifti n => Some (match o_tr n with Some x => this x | None => 1%Q end)
  | _ => None
  end.
Definition phase_of_outcome (o : outcome) : option nat :=
  match o with
  | OutNifti n => Some (match o_phase n with None => 0 | Some true => 1 | Some false => 2 end)
  | _ => None
  end.

Definition order_of_outcome (o : outcome) : option (list nat) :=
  match o with
  | OutData order _ _ => Some order
  | OutNifti n => Some (o_order n)
  | _ => None
  end.

Definition dtype_of_outcome (o : outcome) : option nat :=
  match o with
  | OutData _ _ d => Some d
  | OutNifti n => Some (o_dtype n)
  | _ => None
  end.

(** exception classes are compared exactly where the API documents them (InvalidStackError,
    IncongruentImageError, ImageCollisionError, NonImageDataSetError); where the model predicts the TypeError of
    [list.sort] (None against a number) any exception of the implementation counts as the refusal *)
Definition err_match (e e' : err) : bool :=
  match e with
  | EType => true
  | _ => err_eqb e e'
  end.

Definition item_match (m : res outcome * (list nat * bool)) (o : obs_item) : bool :=
  let '(r, _) := m in
  let '(oerr, oshape, odtype, opix, ophase, oorder) := o in
  match r, oerr with
  | Ok out, None =>
      match oshape with
      | None => true
      | Some sh => match shape_of_outcome out with Some sh' => nats_eqb sh sh' | None => false end
      end &&
      match odtype with
      | None => true
      | Some d => match dtype_of_outcome out with Some d' => Nat.eqb d d' | None => false end
      end &&
      match opix with
      | None => true
      | Some x => match pixdim4_of_outcome out with Some x' => Qeq_bool x x' | None => false end
      end &&
      match ophase with
      | None => true
      | Some c => match phase_of_outcome out with Some c' => Nat.eqb c c' | None => false end
      end &&
      match oorder with
      | None => true
      | Some l => match order_of_outcome out with Some l' => nats_eqb l l' | None => false end
      end
  | Err e, Some e' => err_match e e'
  | _, _ => false
  end.

Fixpoint match_all (a : list (res outcome * (list nat * bool))) (b : list obs_item) : bool :=
  match a, b with
  | [], [] => true
  | x :: xs, y :: ys => item_match x y && match_all xs ys
  | _, _ => false
  end.

Definition model_trace (c : case) := trace (init (c_time c) (c_vec c)) (c_ops c).

Definition check (c : case) : bool := match_all (model_trace c) (c_obs c).

(** what the model computed, for replay files *)
Definition show_item (m : res outcome * (list nat * bool)) :=
  match fst m with
  | Ok out => (None, shape_of_outcome out, dtype_of_outcome out, pixdim4_of_outcome out, phase_of_outcome out,
               order_of_outcome out)
  | Err e => (Some e, None, None, None, None, None)
  end.
Definition show (c : case) := map show_item (model_trace c).
