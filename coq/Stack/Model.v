(** Executable model of [dcmstack.DicomStack] (dcmstack.py, class DicomStack: add_dcm, _chk_congruent,
    _chk_order, get_shape, get_data, get_affine, to_nifti, to_nifti_wrapper) as a state machine.

    Conventions
    - a DICOM data set is abstracted to the record [file]: exactly the quantities the sorter reads
      (slice indicator, evaluated ordinates of the explicit orderings, values of the guess keys,
      Rows/Columns/PixelSpacing/ImageOrientationPatient, pixel presence, TR, phase direction);
    - ordinates and positions are canonical rationals [Qc] (Leibniz equality = Python [==] on numbers);
      a missing key is [None];
    - Python sets are duplicate-free lists ([set_add]);
    - in-place mutation = the returned state.  Queries return [state * res _]: when Python raises, the
      state component is the (possibly already mutated) stack the caller is left with;
    - [add_dcm] returns [res state]: every error is raised before the first mutation (fix 2143e69);
    - Python's [list.sort] is the stable insertion sort [ssort]; comparing a [None] ordinate with a
      number raises TypeError ([Err EType]), decided up-front on all pairs of the list. *)
From Coq Require Import List Bool Arith ZArith NArith QArith Qcanon Qabs.
From DV Require Import Common.Res Common.Str Generated.T_stack.
Import ListNotations.
Local Open Scope nat_scope.

(* ------------------------------------------------------------------------------------------ *)
(** * Numbers *)

Definition qc_eqb (a b : Qc) : bool := Qeq_bool a b.
Definition qc_leb (a b : Qc) : bool := Qle_bool a b.
Definition qc_ltb (a b : Qc) : bool := negb (Qle_bool b a).

Definition oq_eqb (a b : option Qc) : bool :=
  match a, b with
  | None, None => true
  | Some x, Some y => qc_eqb x y
  | _, _ => false
  end.

(** total order used for sorting: [None] below every number (the mixed case is excluded by
    [comparable] before any sort) *)
Definition oq_leb (a b : option Qc) : bool :=
  match a, b with
  | None, _ => true
  | Some _, None => false
  | Some x, Some y => qc_leb x y
  end.

(** numpy defaults of [np.allclose] *)
Definition np_rtol : Q := (1 # 100000)%Q.
Definition np_atol : Q := (1 # 100000000)%Q.

(** [np.allclose(a, b, rtol, atol)] on scalars: |a - b| <= atol + rtol * |b| *)
Definition close1 (rtol atol a b : Q) : bool :=
  Qle_bool (Qabs (a - b)%Q) (atol + rtol * Qabs b)%Q.

Fixpoint close_list (rtol atol : Q) (a b : list Q) : bool :=
  match a, b with
  | [], [] => true
  | x :: xs, y :: ys => close1 rtol atol x y && close_list rtol atol xs ys
  | _, _ => false
  end.

(* ------------------------------------------------------------------------------------------ *)
(** * Generic list helpers *)

Section Generic.
  Context {A : Type}.

  (** stable insertion sort: [x] is placed before the first element it is [<=] to, elements are
      inserted from the right, so equal keys keep their original relative order *)
  Fixpoint sinsert (leb : A -> A -> bool) (x : A) (l : list A) : list A :=
    match l with
    | [] => [x]
    | y :: ys => if leb x y then x :: l else y :: sinsert leb x ys
    end.
  Definition ssort (leb : A -> A -> bool) (l : list A) : list A := fold_right (sinsert leb) [] l.

  (** Python set insertion on a duplicate-free list *)
  Definition set_add (eqb : A -> A -> bool) (x : A) (l : list A) : list A :=
    if existsb (eqb x) l then l else l ++ [x].

  Fixpoint dedup (eqb : A -> A -> bool) (l : list A) : list A :=
    match l with
    | [] => []
    | x :: xs => let r := dedup eqb xs in if existsb (eqb x) r then r else x :: r
    end.

  (** does the list contain the same element (w.r.t. eqb) twice? *)
  Fixpoint has_dup (eqb : A -> A -> bool) (l : list A) : bool :=
    match l with
    | [] => false
    | x :: xs => existsb (eqb x) xs || has_dup eqb xs
    end.

  (** [l[0:k]] := f(l[0:k]); [l[k:2k]] := f(l[k:2k]); ... for [nv] chunks; the rest is untouched *)
  Fixpoint map_chunks (f : list A -> list A) (k nv : nat) (l : list A) : list A :=
    match nv with
    | O => l
    | S nv' => f (firstn k l) ++ map_chunks f k nv' (skipn k l)
    end.
End Generic.

(* ------------------------------------------------------------------------------------------ *)
(** * Files *)

Record file := mkfile {
  f_id : nat;                 (* unique per add_dcm call: identity of the NiftiWrapper created for it *)
  f_has_pix : bool;           (* is_image(dcm): one of T_stack.pix_attrs present *)
  f_rows : nat;
  f_cols : nat;
  f_ps : list Q;              (* meta['PixelSpacing'] *)
  f_iop : list Q;             (* meta['ImageOrientationPatient'] *)
  f_pos : Qc;                 (* DicomWrapper.slice_indicator *)
  f_time : option Qc;         (* time_order.get_ordinate(meta), meaningful when a time order is configured *)
  f_vec : option Qc;          (* vector_order.get_ordinate(meta), idem *)
  f_meta : list (str * Qc);   (* constant meta values (numbers) of the guess keys; absent = None *)
  f_tr : option Qc;           (* meta.get('RepetitionTime') *)
  f_phase : option str;       (* meta.get('InPlanePhaseEncodingDirection') *)
  f_dtype : nat;              (* dtype of the file's own array: 0 = int16, 1 = uint16, other codes = other dtypes *)
  f_bits : nat;               (* get_meta('BitsStored', default=16) *)
  f_has_acq : bool            (* get_meta('AcquisitionTime') != None *)
}.

Fixpoint meta_get (m : list (str * Qc)) (k : str) : option Qc :=
  match m with
  | [] => None
  | (k', v) :: r => if str_eqb k k' then Some v else meta_get r k
  end.
Definition get_meta (f : file) (k : str) : option Qc := meta_get (f_meta f) k.

(** sorting tuple (vector ordinate, time ordinate, slice position) *)
Definition tuple := (option Qc * option Qc * Qc)%type.
Definition t_vec (t : tuple) : option Qc := fst (fst t).
Definition t_time (t : tuple) : option Qc := snd (fst t).
Definition t_pos (t : tuple) : Qc := snd t.

Definition tuple_eqb (a b : tuple) : bool :=
  oq_eqb (t_vec a) (t_vec b) && oq_eqb (t_time a) (t_time b) && qc_eqb (t_pos a) (t_pos b).

(** lexicographic [a <= b] (Python compares the first component that differs) *)
Definition tuple_leb (a b : tuple) : bool :=
  if oq_eqb (t_vec a) (t_vec b) then
    if oq_eqb (t_time a) (t_time b) then qc_leb (t_pos a) (t_pos b)
    else oq_leb (t_time a) (t_time b)
  else oq_leb (t_vec a) (t_vec b).

(** would Python's [<] between the two tuples raise TypeError (None against a number in the first
    component that differs)? *)
Definition oq_mixed (a b : option Qc) : bool :=
  match a, b with
  | None, Some _ | Some _, None => true
  | _, _ => false
  end.
Definition comparable (a b : tuple) : bool :=
  if oq_eqb (t_vec a) (t_vec b) then negb (oq_mixed (t_time a) (t_time b))
  else negb (oq_mixed (t_vec a) (t_vec b)).
Definition all_comparable (ts : list tuple) : bool :=
  forallb (fun a => forallb (comparable a) ts) ts.

Definition entry := (file * tuple)%type.
Definition e_file (e : entry) : file := fst e.
Definition e_tuple (e : entry) : tuple := snd e.

(* ------------------------------------------------------------------------------------------ *)
(** * The stack *)

Record state := mkstate {
  cfg_time : bool;                         (* self._time_order is not None *)
  cfg_vec : bool;                          (* self._vector_order is not None *)
  files_info : list entry;                 (* self._files_info *)
  pos_vals : list Qc;                      (* self._slice_pos_vals *)
  time_vals : list (option Qc);            (* self._time_vals (never read by the code) *)
  vec_vals : list (option Qc);             (* self._vector_vals *)
  tuples : list tuple;                     (* self._sorting_tuples *)
  pe_dirs : list (option str);             (* self._phase_enc_dirs *)
  rep_times : list (option Qc);            (* self._repetition_times *)
  ref_input : option file;                 (* self._ref_input *)
  shape_dirty : bool;                      (* self._shape_dirty *)
  cached_shape : option (list nat)         (* self._shape *)
}.

Definition init (time_order vector_order : bool) : state :=
  mkstate time_order vector_order [] [] [] [] [] [] [] None true None.

Definition with_files (st : state) (fi : list entry) : state :=
  mkstate (cfg_time st) (cfg_vec st) fi (pos_vals st) (time_vals st) (vec_vals st) (tuples st)
          (pe_dirs st) (rep_times st) (ref_input st) (shape_dirty st) (cached_shape st).
Definition with_shape (st : state) (dirty : bool) (sh : option (list nat)) : state :=
  mkstate (cfg_time st) (cfg_vec st) (files_info st) (pos_vals st) (time_vals st) (vec_vals st) (tuples st)
          (pe_dirs st) (rep_times st) (ref_input st) dirty sh.
Definition ostr_eqb (a b : option str) : bool :=
  match a, b with
  | None, None => true
  | Some x, Some y => str_eqb x y
  | _, _ => false
  end.

(** ** add_dcm (dcmstack.py 486-563) *)

(** _chk_congruent: PixelSpacing and ImageOrientationPatient close to the reference (atol from the
    source, numpy's default rtol), Rows and Columns equal *)
Definition congruent_with (r f : file) : bool :=
  close_list np_rtol congruent_atol (f_ps f) (f_ps r) &&
  close_list np_rtol congruent_atol (f_iop f) (f_iop r) &&
  Nat.eqb (f_rows f) (f_rows r) && Nat.eqb (f_cols f) (f_cols r).

Definition congruent (st : state) (f : file) : bool :=
  match ref_input st with
  | None => true
  | Some r => congruent_with r f
  end.

Definition base_time (ct : bool) (f : file) : option Qc := if ct then f_time f else None.
Definition base_vec (cv : bool) (f : file) : option Qc := if cv then f_vec f else None.
Definition base_tuple (ct cv : bool) (f : file) : tuple := (base_vec cv f, base_time ct f, f_pos f).
Definition sorting_tuple (st : state) (f : file) : tuple := base_tuple (cfg_time st) (cfg_vec st) f.

Definition add_dcm (st : state) (f : file) : res state :=
  if negb (f_has_pix f) then Err ENonImage else
  if negb (congruent st f) then Err EIncongruent else
  let tp := sorting_tuple st f in
  if (cfg_time st || cfg_vec st) && existsb (tuple_eqb tp) (tuples st) then Err ECollision else
  Ok (mkstate (cfg_time st) (cfg_vec st)
        (files_info st ++ [(f, tp)])
        (set_add qc_eqb (t_pos tp) (pos_vals st))
        (set_add oq_eqb (t_time tp) (time_vals st))
        (set_add oq_eqb (t_vec tp) (vec_vals st))
        (set_add tuple_eqb tp (tuples st))
        (set_add ostr_eqb (f_phase f) (pe_dirs st))
        (set_add oq_eqb (f_tr f) (rep_times st))
        (match ref_input st with None => Some f | r => r end)
        true (cached_shape st)).

(** ** _chk_order (dcmstack.py 585-621) *)

Definition entry_leb (a b : entry) : bool := tuple_leb (e_tuple a) (e_tuple b).
Definition entry_pos_leb (a b : entry) : bool := qc_leb (t_pos (e_tuple a)) (t_pos (e_tuple b)).

Definition dflt_tuple : tuple := (None, None, Q2Qc 0).
Definition dflt_file : file := mkfile 0 false 0 0 [] [] (Q2Qc 0) None None [] None None 0 16 false.
Definition dflt_entry : entry := (dflt_file, dflt_tuple).

(** the exhaustive check of lines 598-621 on the arranged list *)
Definition order_check (fi : list entry) (P : list Qc) (S T V : nat) : bool :=
  forallb (fun vi =>
    let cur := t_vec (e_tuple (nth (vi * T * S) fi dflt_entry)) in
    forallb (fun ti =>
      forallb (fun si =>
        let e := nth (vi * T * S + ti * S + si) fi dflt_entry in
        oq_eqb (t_vec (e_tuple e)) cur && qc_eqb (t_pos (e_tuple e)) (nth si P (Q2Qc 0)))
      (seq 0 S)) (seq 0 T)) (seq 0 V).

(** sort by the whole tuple, re-sort every volume by position *)
Definition arrange (fi : list entry) (S nvol : nat) : list entry :=
  let fi1 := ssort entry_leb fi in
  if 1 <? S then map_chunks (ssort entry_pos_leb) S nvol fi1 else fi1.

Definition chk_order (fi : list entry) (P : list Qc) (S nvol T V : nat) : list entry * res unit :=
  if negb (all_comparable (map e_tuple fi)) then (fi, Err EType) else
  let fi2 := arrange fi S nvol in
  (fi2, if order_check fi2 P S T V then Ok tt else Err EInvalidStack).

(** ** get_shape (dcmstack.py 623-742) *)

Fixpoint gaps (P : list Qc) : list Q :=
  match P with
  | a :: (b :: _) as r => (b - a)%Q :: gaps r
  | _ => []
  end.
Definition qsum (l : list Q) : Q := fold_right Qplus 0%Q l.
Definition qmean (l : list Q) : Q := (qsum l / inject_Z (Z.of_nat (length l)))%Q.

(** np.allclose(avg_spacing, spacings, rtol=T_stack.spacing_rtol) *)
Definition spacing_ok (P : list Qc) : bool :=
  let g := gaps P in
  forallb (fun sp => close1 spacing_rtol np_atol (qmean g) sp) g.

Definition is_some {A} (o : option A) : bool := match o with Some _ => true | None => false end.

(** is [key] a possible sort order (lines 678-685)? *)
Definition guess_candidate (fi : list entry) (nvol n : nat) (key : str) : bool :=
  let vals := map (fun e => get_meta (e_file e) key) fi in
  forallb is_some vals &&
  (let c := length (dedup oq_eqb vals) in Nat.eqb c nvol || Nat.eqb c n).

Definition rewrite_time (key : str) (e : entry) : entry :=
  (e_file e, (t_vec (e_tuple e), get_meta (e_file e) key, t_pos (e_tuple e))).

(** lines 691-715: first candidate whose rewritten tuples are pairwise distinct (fix 83e25b9) and
    pass [_chk_order]; InvalidStackError moves on to the next candidate, anything else propagates *)
Fixpoint try_orders (keys : list str) (fi : list entry) (P : list Qc) (S nvol T V : nat)
  : list entry * res unit :=
  match keys with
  | [] => (fi, Err EInvalidStack)
  | k :: ks =>
      let fi1 := map (rewrite_time k) fi in
      if has_dup tuple_eqb (map e_tuple fi1) then try_orders ks fi1 P S nvol T V else
      match chk_order fi1 P S nvol T V with
      | (fi2, Ok _) => (fi2, Ok tt)
      | (fi2, Err EInvalidStack) => try_orders ks fi2 P S nvol T V
      | (fi2, Err e) => (fi2, Err e)
      end
  end.

Definition shape_of (f0 : file) (S T V : nat) : list nat :=
  let z := if 1 <? S then S else 1 in
  if Nat.eqb V 1 then
    (if Nat.eqb T 1 then [f_rows f0; f_cols f0; z] else [f_rows f0; f_cols f0; z; T])
  else [f_rows f0; f_cols f0; z; T; V].

(** lines 640-671: the counting checks; result (num_volumes, num_time_points) *)
Definition grid_dims (n S V : nat) (P : list Qc) : res (nat * nat) :=
  if Nat.eqb n 0 then Err EInvalidStack else
  if (1 <? S) && negb (spacing_ok P) then Err EInvalidStack else
  if Nat.eqb S 0 then Err ECrash else                  (* ZeroDivisionError: unreachable *)
  if negb (Nat.eqb (n mod S) 0) then Err EInvalidStack else
  let nvol := n / S in
  if nvol <? V then Err EInvalidStack else
  if Nat.eqb V 0 then Err ECrash else                  (* ZeroDivisionError: unreachable *)
  if negb (Nat.eqb (nvol mod V) 0) then Err EInvalidStack else
  Ok (nvol, nvol / V).

(** lines 673-721: guess the time key when nothing was specified and there are several volumes,
    otherwise just check the order *)
Definition order_files (st : state) (P : list Qc) (S nvol T V : nat) : list entry * res unit :=
  let fi := files_info st in
  if (1 <? nvol) && negb (cfg_time st) && negb (cfg_vec st) then
    let cands := filter (guess_candidate fi nvol (length fi)) sort_guesses in
    match cands with
    | [] => (fi, Err EInvalidStack)
    | _ => try_orders cands fi P S nvol T V
    end
  else chk_order fi P S nvol T V.

(** the computation performed when the dirty flag is set *)
Definition compute_shape (st : state) : state * res (list nat) :=
  let S := length (pos_vals st) in
  let P := ssort qc_leb (pos_vals st) in
  let V := length (vec_vals st) in
  match grid_dims (length (files_info st)) S V P with
  | Err e => (st, Err e)
  | Ok (nvol, T) =>
      let '(fi2, r) := order_files st P S nvol T V in
      match r with
      | Err e => (with_files st fi2, Err e)
      | Ok _ =>
          let sh := shape_of (e_file (nth 0 fi2 dflt_entry)) S T V in
          (with_shape (with_files st fi2) false (Some sh), Ok sh)
      end
  end.

Definition get_shape (st : state) : state * res (list nat) :=
  if shape_dirty st then compute_shape st
  else (st, match cached_shape st with Some sh => Ok sh | None => Err ECrash end).

(** ** get_data, get_affine (dcmstack.py 744-835) *)

Definition ids (fi : list entry) : list nat := map (fun e => f_id (e_file e)) fi.

(** number of 3-D volumes as the code recomputes it from a shape tuple *)
Definition nvols_of_shape (sh : list nat) : nat := nth 3 sh 1 * nth 4 sh 1.

(** get_data, fix 63f686b: the array takes [np.result_type] of the dtypes of ALL files and the largest
    BitsStored; unsigned short with fewer than 16 bits stored becomes signed short.  The promotion is
    modelled on the codes 0 (int16), 1 (uint16), 4 (int32): equal dtypes stay, different ones give int32. *)
Definition join_dtypes (ds : list nat) : nat :=
  match ds with
  | [] => 0
  | d :: r => if forallb (Nat.eqb d) r then d else 4
  end.
Definition stack_dtype (fs : list file) : nat :=
  let d := join_dtypes (map f_dtype fs) in
  if Nat.eqb d 1 && (list_max (map f_bits fs) <? 16) then 0 else d.
Definition data_dtype (st : state) : nat := stack_dtype (map e_file (files_info st)).
(** the per-file shape is still read from the first file of the sorted list *)
Definition data_ref (st : state) : file := e_file (nth 0 (files_info st) dflt_entry).

(** the array is determined by the order of the files, the shape, and [data_dtype] *)
Definition get_data (st : state) : state * res (list nat * list nat) :=
  let '(st1, r) := get_shape st in
  match r with
  | Err e => (st1, Err e)
  | Ok sh => (st1, Ok (ids (files_info st1), sh))
  end.

(** result: id of the file whose affine is COPIED (fix 9c7aa81: the file's own array is no longer edited), and
    the slice column of the copy: [Some (a, b)] = ipp(b) - ipp(a) when there are several files per volume,
    [None] = the column the DicomWrapper gave that file *)
Definition get_affine (st : state) : state * res (nat * option (nat * nat)) :=
  let '(st1, r) := get_shape st in
  match r with
  | Err e => (st1, Err e)
  | Ok sh =>
      let fi := files_info st1 in
      let fpv := length fi / nvols_of_shape sh in
      let i0 := f_id (e_file (nth 0 fi dflt_entry)) in
      let i1 := f_id (e_file (nth 1 fi dflt_entry)) in
      (st1, Ok (i0, if 1 <? fpv then Some (i0, i1) else None))
  end.

(** ** to_nifti (dcmstack.py 837-997) *)

(** voxel order argument, abstracted to what the sorter needs: [None] = no reorientation;
    [Some w] = reorientation requested, and for this stack's orientation the slice axis gets flipped
    exactly when (the files ascend in slice position) = w *)
Definition vorder := option bool.

Record nifti_out := mknifti {
  o_order : list nat;                 (* file ids in the order used for voxels, slice times and meta data *)
  o_shape : list nat;                 (* shape before reorientation *)
  o_flip : bool;                      (* slice axis flipped (only set when files_per_vol > 1) *)
  o_aff0 : nat;                       (* file whose affine was taken *)
  o_slicecol : option (nat * nat);    (* its slice column, see [get_affine] *)
  o_vo : vorder;
  o_embed : bool;
  o_tr : option Qc;                   (* pixdim[4] when exactly one, non-None RepetitionTime *)
  o_phase : option bool;              (* Some true: phase = 'ROW' *)
  o_data_ref : nat;                   (* id of the file whose per-file shape get_data used (first of the sorted list) *)
  o_dtype : nat;                      (* the array's dtype code, a function of ALL files, see [stack_dtype] *)
  o_has_acq : bool                    (* every file has an AcquisitionTime (fix 75eb235): slice timing is attempted *)
}.

Definition single_some {A} (l : list (option A)) : option A :=
  match l with
  | [Some x] => Some x
  | _ => None
  end.

Definition row_str : str := [82; 79; 87]%N.

Definition ascending (fi : list entry) : bool :=
  qc_ltb (f_pos (e_file (nth 0 fi dflt_entry))) (f_pos (e_file (nth 1 fi dflt_entry))).

Definition to_nifti (st : state) (vo : vorder) (embed : bool) : state * res nifti_out :=
  let '(st1, rd) := get_data st in
  match rd with
  | Err e => (st1, Err e)
  | Ok (_, sh) =>
      let dref := data_ref st1 in
      let dt := data_dtype st1 in
      let '(st2, ra) := get_affine st1 in
      match ra with
      | Err e => (st2, Err e)
      | Ok (i0, col) =>
          let fi := files_info st2 in
          let nv := nvols_of_shape sh in
          let fpv := length fi / nv in
          let flip := match vo with
                      | None => false
                      | Some w => (1 <? fpv) && Bool.eqb (ascending fi) w
                      end in
          let st3 := if flip
                     then with_shape (with_files st2 (map_chunks (@rev entry) fpv nv fi)) true (cached_shape st2)
                     else st2 in
          (st3, Ok (mknifti (ids (files_info st3)) sh flip i0 col vo embed
                            (single_some (rep_times st3))
                            (option_map (fun p => str_eqb p row_str) (single_some (pe_dirs st3)))
                            (f_id dref) dt
                            (forallb (fun e => f_has_acq (e_file e)) (files_info st3))))
      end
  end.

Definition to_nifti_wrapper (st : state) (vo : vorder) : state * res nifti_out := to_nifti st vo true.

(* ------------------------------------------------------------------------------------------ *)
(** * Histories *)

Inductive op :=
| OAdd (f : file)
| OGetShape | OGetData | OGetAffine
| OToNifti (vo : vorder) (embed : bool)
| OToNiftiWrapper (vo : vorder).

Inductive outcome :=
| OutAdded
| OutShape (sh : list nat)
| OutData (order : list nat) (sh : list nat) (dtype : nat)
| OutAffine (i0 : nat) (col : option (nat * nat))
| OutNifti (o : nifti_out).

Definition step (st : state) (o : op) : state * res outcome :=
  match o with
  | OAdd f => match add_dcm st f with Ok st' => (st', Ok OutAdded) | Err e => (st, Err e) end
  | OGetShape => let '(s, r) := get_shape st in (s, rmap OutShape r)
  | OGetData => let '(s, r) := get_data st in (s, rmap (fun x => OutData (fst x) (snd x) (data_dtype s)) r)
  | OGetAffine => let '(s, r) := get_affine st in (s, rmap (fun x => OutAffine (fst x) (snd x)) r)
  | OToNifti vo e => let '(s, r) := to_nifti st vo e in (s, rmap OutNifti r)
  | OToNiftiWrapper vo => let '(s, r) := to_nifti_wrapper st vo in (s, rmap OutNifti r)
  end.

(** run a history, exceptions are caught by the caller and the stack is used further *)
Fixpoint run (st : state) (h : list op) : state :=
  match h with
  | [] => st
  | o :: r => run (fst (step st o)) r
  end.

(** same, keeping every outcome (for the correspondence check) *)
Fixpoint trace (st : state) (h : list op) : list (res outcome * (list nat * bool)) :=
  match h with
  | [] => []
  | o :: r => let '(s, x) := step st o in (x, (ids (files_info s), shape_dirty s)) :: trace s r
  end.

(** the files accepted by the [OAdd]s of a history, in acceptance order *)
Fixpoint accepted (st : state) (h : list op) : list file :=
  match h with
  | [] => []
  | OAdd f :: r => match add_dcm st f with
                   | Ok st' => f :: accepted st' r
                   | Err _ => accepted st r
                   end
  | o :: r => accepted (fst (step st o)) r
  end.

(** all files added, stopping at the first refusal *)
Fixpoint add_all (st : state) (fs : list file) : res state :=
  match fs with
  | [] => Ok st
  | f :: r => match add_dcm st f with Ok st' => add_all st' r | Err e => Err e end
  end.
