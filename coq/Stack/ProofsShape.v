(** get_shape against the specification (C11). *)
From Coq Require Import List Bool Arith Lia Permutation Sorted QArith Qcanon Qabs.
From DV Require Import Common.Res Common.Str Generated.T_stack
  Stack.Model Stack.Sort Stack.Order Stack.Spec Stack.ProofsOrder.
Import ListNotations.
Local Open Scope nat_scope.

(* ------------------------------------------------------------------------------------------ *)
(** * Tolerances (obligations on the generated table) *)

Lemma spacing_tol : (spacing_rtol == 4 # 100)%Q.
Proof. vm_compute. reflexivity. Qed.

Lemma congruent_tol : (congruent_atol == 5 # 100000)%Q.
Proof. vm_compute. reflexivity. Qed.

Lemma spacing_ok_iff P : spacing_ok P = true <-> even_spacing P.
Proof.
  unfold spacing_ok, even_spacing. rewrite forallb_forall.
  split; intros H sp Hsp; specialize (H sp Hsp); unfold close1, spec_rtol in *.
  - apply Qle_bool_iff in H. rewrite spacing_tol in H. exact H.
  - apply Qle_bool_iff. rewrite spacing_tol. exact H.
Qed.

(* ------------------------------------------------------------------------------------------ *)
(** * The counting checks *)

Lemma div_facts n S V : S <> 0 -> V <> 0 -> n <> 0 -> n mod S = 0 -> (n / S) mod V = 0 ->
  0 < n / S / V /\ n = V * (n / S / V) * S /\ n / S = V * (n / S / V).
Proof.
  intros HS HV Hn H1 H2.
  apply (proj2 (Nat.div_exact n S HS)) in H1. apply (proj2 (Nat.div_exact (n / S) V HV)) in H2.
  set (nvol := n / S) in *. set (T := nvol / V) in *.
  assert (HT : T <> 0).
  { intros E. rewrite E, Nat.mul_0_r in H2. rewrite H2, Nat.mul_0_r in H1. contradiction. }
  split; [lia|]. split; [|exact H2]. rewrite H1 at 1. rewrite H2. lia.
Qed.

Lemma grid_dims_ok n S V P nvol T :
  grid_dims n S V P = Ok (nvol, T) ->
  0 < S /\ 0 < V /\ 0 < T /\ n = V * T * S /\ nvol = V * T /\ (1 < S -> spacing_ok P = true).
Proof.
  unfold grid_dims.
  destruct (Nat.eqb n 0) eqn:E1; [discriminate|].
  destruct ((1 <? S) && negb (spacing_ok P)) eqn:E2; [discriminate|].
  destruct (Nat.eqb S 0) eqn:E3; [discriminate|].
  destruct (negb (Nat.eqb (n mod S) 0)) eqn:E4; [discriminate|].
  cbv zeta.
  destruct (n / S <? V) eqn:E5; [discriminate|].
  destruct (Nat.eqb V 0) eqn:E6; [discriminate|].
  destruct (negb (Nat.eqb (n / S mod V) 0)) eqn:E7; [discriminate|].
  intros H. injection H as <- <-.
  apply Nat.eqb_neq in E1, E3, E6.
  apply negb_false_iff, Nat.eqb_eq in E4, E7.
  destruct (div_facts n S V E3 E6 E1 E4 E7) as [HT [Hn Hnv]].
  repeat split; try lia; try assumption.
  intros HS. apply andb_false_iff in E2. destruct E2 as [E2|E2].
  - apply Nat.ltb_ge in E2. lia.
  - apply negb_false_iff in E2. exact E2.
Qed.

Lemma grid_dims_complete n S V P T :
  0 < S -> 0 < V -> 0 < T -> n = V * T * S -> (1 < S -> spacing_ok P = true) ->
  grid_dims n S V P = Ok (V * T, T).
Proof.
  intros HS HV HT Hn Hsp. unfold grid_dims.
  assert (E1 : Nat.eqb n 0 = false) by (apply Nat.eqb_neq; nia). rewrite E1.
  assert (E2 : (1 <? S) && negb (spacing_ok P) = false).
  { destruct (1 <? S) eqn:E; [|reflexivity]. apply Nat.ltb_lt in E. rewrite (Hsp E). reflexivity. }
  rewrite E2.
  assert (E3 : Nat.eqb S 0 = false) by (apply Nat.eqb_neq; lia). rewrite E3.
  assert (Hmod : n mod S = 0) by (subst n; apply Nat.mod_mul; lia).
  rewrite Hmod. simpl negb. cbv iota zeta.
  assert (Hdiv : n / S = V * T) by (subst n; apply Nat.div_mul; lia).
  rewrite Hdiv.
  assert (E5 : (V * T <? V) = false) by (apply Nat.ltb_ge; nia). rewrite E5.
  assert (E6 : Nat.eqb V 0 = false) by (apply Nat.eqb_neq; lia). rewrite E6.
  rewrite (Nat.mul_comm V T), Nat.mod_mul by lia. simpl negb. cbv iota.
  rewrite Nat.div_mul by lia. reflexivity.
Qed.

Lemma grid_dims_err n S V P e : 0 < S -> 0 < V -> grid_dims n S V P = Err e -> e = EInvalidStack.
Proof.
  intros HS HV. unfold grid_dims.
  destruct (Nat.eqb n 0); [congruence|].
  destruct ((1 <? S) && negb (spacing_ok P)); [congruence|].
  destruct (Nat.eqb S 0) eqn:E3; [apply Nat.eqb_eq in E3; lia|].
  destruct (negb (Nat.eqb (n mod S) 0)); [congruence|].
  cbv zeta.
  destruct (n / S <? V); [congruence|].
  destruct (Nat.eqb V 0) eqn:E6; [apply Nat.eqb_eq in E6; lia|].
  destruct (negb (Nat.eqb (n / S mod V) 0)); [congruence|]. discriminate.
Qed.

(* ------------------------------------------------------------------------------------------ *)
(** * Well-formed stacks *)

Definition files (st : state) : list file := map e_file (files_info st).
Definition explicit (st : state) : bool := cfg_time st || cfg_vec st.
Definition pos_of (fi : list entry) : list Qc := map (fun e => t_pos (e_tuple e)) fi.
Definition vec_of (fi : list entry) : list (option Qc) := map (fun e => t_vec (e_tuple e)) fi.

(** the part of the invariant that does not mention the cached shape *)
Record wf0 (st : state) : Prop := mk_wf0 {
  w_pos_nd : NoDup (pos_vals st);
  w_pos_in : forall p, In p (pos_vals st) <-> In p (pos_of (files_info st));
  w_vec_nd : NoDup (vec_vals st);
  w_vec_in : forall v, In v (vec_vals st) <-> In v (vec_of (files_info st));
  w_entry : forall e, In e (files_info st) ->
      t_pos (e_tuple e) = f_pos (e_file e) /\
      t_vec (e_tuple e) = base_vec (cfg_vec st) (e_file e) /\
      (explicit st = true -> t_time (e_tuple e) = base_time (cfg_time st) (e_file e));
  w_tuples_in : explicit st = true -> forall t, In t (tuples st) <-> In t (map e_tuple (files_info st));
  w_tuples_nd : explicit st = true -> NoDup (map e_tuple (files_info st));
  w_stale : explicit st = false ->
      (exists e, In e (files_info st) /\ t_time (e_tuple e) <> None) ->
      length (pos_vals st) < length (files_info st);
  w_congr : forall e r, In e (files_info st) -> ref_input st = Some r ->
      f_rows (e_file e) = f_rows r /\ f_cols (e_file e) = f_cols r;
  w_ref : files_info st <> [] -> ref_input st <> None
}.

(** no TypeError: the explicit ordinates do not mix None and numbers in a way Python cannot compare *)
Definition well_typed (st : state) : Prop :=
  all_comparable (map (base_tuple (cfg_time st) (cfg_vec st)) (files st)) = true.

Lemma tuple_eta (t : tuple) : t = (t_vec t, t_time t, t_pos t).
Proof. destruct t as [[v tm] p]. reflexivity. Qed.

Section Derived.
  Variable st : state.
  Hypothesis Hwf : wf0 st.

  Lemma pos_sorted :
    let P := ssort qc_leb (pos_vals st) in
    StronglySorted Qclt P /\ (forall p, In p P <-> In p (pos_of (files_info st))) /\
    length P = length (pos_vals st).
  Proof.
    cbv zeta. split; [|split].
    - apply sorted_nodup_strict.
      + apply ssort_sorted, order_pre, qc_leb_order.
      + eapply Permutation_NoDup; [symmetry; apply ssort_perm | apply (w_pos_nd st Hwf)].
    - intros p. rewrite ssort_in. apply (w_pos_in st Hwf).
    - apply ssort_length.
  Qed.

  Lemma explicit_tuples :
    explicit st = true ->
    map e_tuple (files_info st) = map (base_tuple (cfg_time st) (cfg_vec st)) (files st).
  Proof.
    intros He. unfold files. rewrite map_map. apply map_ext_in. intros e Hin.
    destruct (w_entry st Hwf e Hin) as [H1 [H2 H3]]. specialize (H3 He).
    rewrite (tuple_eta (e_tuple e)). unfold base_tuple. congruence.
  Qed.

  Lemma fresh_tuples :
    explicit st = false -> length (files_info st) <= length (pos_vals st) ->
    map e_tuple (files_info st) = map (base_tuple false false) (files st).
  Proof.
    intros He Hlen. unfold files. rewrite map_map. apply map_ext_in. intros e Hin.
    destruct (w_entry st Hwf e Hin) as [H1 [H2 _]].
    unfold explicit in He. apply orb_false_iff in He. destruct He as [Hct Hcv].
    rewrite Hcv in H2. simpl in H2.
    assert (H3 : t_time (e_tuple e) = None).
    { destruct (t_time (e_tuple e)) eqn:E; [|reflexivity]. exfalso.
      assert (Hlt : length (pos_vals st) < length (files_info st)); [|lia].
      apply (w_stale st Hwf); [unfold explicit; rewrite Hct, Hcv; reflexivity|].
      exists e. split; [exact Hin | congruence]. }
    rewrite (tuple_eta (e_tuple e)). unfold base_tuple, base_vec, base_time. congruence.
  Qed.

  Lemma guess_tuples k :
    explicit st = false -> map (key_tuple k) (files_info st) = map (guess_tuple k) (files st).
  Proof.
    intros He. unfold files. rewrite map_map. apply map_ext_in. intros e Hin.
    destruct (w_entry st Hwf e Hin) as [H1 [H2 _]].
    unfold explicit in He. apply orb_false_iff in He. destruct He as [Hct Hcv].
    rewrite Hcv in H2. simpl in H2.
    unfold key_tuple, key_tuple_s, strip, guess_tuple. simpl. congruence.
  Qed.

  Lemma vec_none e : explicit st = false -> In e (files_info st) -> t_vec (e_tuple e) = None.
  Proof.
    intros He Hin. destruct (w_entry st Hwf e Hin) as [_ [H2 _]].
    unfold explicit in He. apply orb_false_iff in He. destruct He as [_ Hcv].
    rewrite Hcv in H2. exact H2.
  Qed.

  Lemma pos_of_files : pos_of (files_info st) = map f_pos (files st).
  Proof.
    unfold pos_of, files. rewrite map_map. apply map_ext_in. intros e Hin.
    apply (w_entry st Hwf e Hin).
  Qed.

  (** single volume <-> the positions of the files are pairwise distinct *)
  Lemma nodup_pos_length : NoDup (map f_pos (files st)) <-> length (files_info st) = length (pos_vals st).
  Proof.
    rewrite <- pos_of_files. split.
    - intros Hnd. rewrite <- (map_length (fun e => t_pos (e_tuple e)) (files_info st)).
      fold (pos_of (files_info st)). apply nodup_same_length; [exact Hnd | apply (w_pos_nd st Hwf)|].
      intros p. symmetry. apply (w_pos_in st Hwf).
    - intros Hlen.
      apply NoDup_incl_NoDup with (l := pos_vals st).
      + apply (w_pos_nd st Hwf).
      + unfold pos_of. rewrite map_length. lia.
      + intros p Hp. apply (w_pos_in st Hwf), Hp.
  Qed.
End Derived.

(* ------------------------------------------------------------------------------------------ *)
(** * grid_ok from / to its ingredients *)

Lemma grid_ok_intro ts P Vs S T V :
  NoDup ts ->
  StronglySorted Qclt P -> (forall p, In p P <-> In p (map t_pos ts)) -> length P = S ->
  (1 < S -> even_spacing P) ->
  NoDup Vs -> (forall v, In v Vs <-> In v (map t_vec ts)) -> length Vs = V ->
  0 < S -> 0 < T -> 0 < V -> length ts = V * T * S ->
  arranged (ssort tuple_leb ts) P S T V ->
  grid_ok ts S T V.
Proof.
  intros Hnd HPs HPin HPl Hsp HVnd HVin HVl HS HT HV Hlen [cv Ha].
  exists P, Vs, (ssort tuple_leb ts), cv.
  repeat (split; [assumption|]).
  split; [apply ssort_perm|].
  split; [apply ssort_sorted, order_pre, tuple_leb_order|].
  exact Ha.
Qed.

Lemma strict_sorted_unique (P P0 : list Qc) :
  StronglySorted Qclt P -> StronglySorted Qclt P0 -> (forall p, In p P <-> In p P0) -> P0 = P.
Proof.
  intros H H0 Hin.
  assert (Hperm : Permutation P0 P).
  { apply NoDup_Permutation; [apply strict_sorted_nodup, H0 | apply strict_sorted_nodup, H|].
    intros p. symmetry. apply Hin. }
  rewrite <- (sorted_unique qc_leb P P0 qc_leb_order (strict_sorted_leb P H) Hperm).
  symmetry. apply ssort_sorted_id, strict_sorted_leb, H0.
Qed.

Lemma grid_ok_elim ts S T V P0 Vs0 :
  grid_ok ts S T V ->
  StronglySorted Qclt P0 -> (forall p, In p P0 <-> In p (map t_pos ts)) ->
  NoDup Vs0 -> (forall v, In v Vs0 <-> In v (map t_vec ts)) ->
  NoDup ts /\ length P0 = S /\ (1 < S -> even_spacing P0) /\ length Vs0 = V /\
  0 < S /\ 0 < T /\ 0 < V /\ length ts = V * T * S /\
  arranged (ssort tuple_leb ts) P0 S T V.
Proof.
  intros [P [Vs [l [cv H]]]] HP0 HP0in HV0 HV0in.
  destruct H as [Hnd [HPs [HPin [HPl [Hsp [HVnd [HVin [HVl [HS [HT [HV [Hlen [Hperm [Hsort Ha]]]]]]]]]]]]]].
  assert (EP : P0 = P).
  { apply strict_sorted_unique; try assumption. intros p. rewrite HPin, HP0in. reflexivity. }
  subst P0.
  assert (El : ssort tuple_leb ts = l).
  { apply sorted_unique; [apply tuple_leb_order | exact Hsort | symmetry; exact Hperm]. }
  repeat (split; [assumption|]).
  split.
  - rewrite <- HVl. apply nodup_same_length; try assumption. intros v. rewrite HVin, HV0in. reflexivity.
  - repeat (split; [assumption|]). rewrite El. exists cv. exact Ha.
Qed.

(* ------------------------------------------------------------------------------------------ *)
(** * order_files *)

Lemma all_comparable_base_fresh (fs : list file) :
  all_comparable (map (base_tuple false false) fs) = true.
Proof.
  unfold all_comparable. apply forallb_forall. intros a Ha. apply forallb_forall. intros b Hb.
  apply in_map_iff in Ha, Hb. destruct Ha as [x [<- _]], Hb as [y [<- _]]. reflexivity.
Qed.

Lemma nodup_tuples_of_pos (fi : list entry) : NoDup (pos_of fi) -> NoDup (map e_tuple fi).
Proof.
  unfold pos_of. intros H. rewrite <- (map_map e_tuple t_pos) in H. eapply NoDup_map_inv. exact H.
Qed.

Lemma guess_candidate_spec (fi : list entry) nvol n k :
  guess_candidate fi nvol n k = true <->
  (forall e, In e fi -> get_meta (e_file e) k <> None) /\
  (length (dedup oq_eqb (map (fun e => get_meta (e_file e) k) fi)) = nvol \/
   length (dedup oq_eqb (map (fun e => get_meta (e_file e) k) fi)) = n).
Proof.
  unfold guess_candidate. rewrite andb_true_iff, orb_true_iff, !Nat.eqb_eq, forallb_forall.
  split; intros [H1 H2]; (split; [|exact H2]).
  - intros e He Hn. specialize (H1 _ (in_map (fun e => get_meta (e_file e) k) _ _ He)).
    rewrite Hn in H1. discriminate.
  - intros v Hv. apply in_map_iff in Hv. destruct Hv as [e [<- He]].
    specialize (H1 e He). destruct (get_meta (e_file e) k); [reflexivity | congruence].
Qed.

(** the outcome of the ordering step, in terms of the tuples of the stack *)
Definition order_cond (st : state) (P : list Qc) (S T V : nat) : Prop :=
  if (1 <? V * T) && negb (cfg_time st) && negb (cfg_vec st) then
    exists k, In k sort_guesses /\
              guess_candidate (files_info st) (V * T) (length (files_info st)) k = true /\
              good_key k (files_info st) P S T V
  else arranged (ssort tuple_leb (map e_tuple (files_info st))) P S T V.

Lemma order_files_spec st P S T V :
  wf0 st -> well_typed st ->
  0 < S -> 0 < T -> 0 < V ->
  length (files_info st) = V * T * S -> S = length (pos_vals st) ->
  length P = S -> StronglySorted Qclt P ->
  let '(fi2, r) := order_files st P S (V * T) T V in
  Permutation (map strip fi2) (map strip (files_info st)) /\
  ((1 <? V * T) && negb (cfg_time st) && negb (cfg_vec st) = false -> Permutation fi2 (files_info st)) /\
  (r = Ok tt \/ r = Err EInvalidStack) /\
  (r = Ok tt <-> order_cond st P S T V) /\
  (r = Ok tt -> NoDup (map e_tuple fi2)).
Proof.
  intros Hwf Hwt HS HT HV Hlen HSeq HP HPs. unfold order_files, order_cond.
  destruct ((1 <? V * T) && negb (cfg_time st) && negb (cfg_vec st)) eqn:Hg.
  - (* guessing *)
    apply andb_true_iff in Hg. destruct Hg as [Hg Hcv]. apply andb_true_iff in Hg. destruct Hg as [Hnv Hct].
    apply negb_true_iff in Hct, Hcv.
    assert (Hex : explicit st = false) by (unfold explicit; rewrite Hct, Hcv; reflexivity).
    set (fi := files_info st) in *.
    set (cands := filter (guess_candidate fi (V * T) (length fi)) sort_guesses).
    assert (Hc_in : forall k, In k cands <-> In k sort_guesses /\ guess_candidate fi (V * T) (length fi) k = true)
      by (intros k; apply filter_In).
    assert (Hiff0 : (exists k, In k cands /\ good_key k fi P S T V) <->
                    (exists k, In k sort_guesses /\ guess_candidate fi (V * T) (length fi) k = true /\ good_key k fi P S T V)).
    { split; intros [k Hk]; exists k.
      - destruct Hk as [Hk Hgk]. apply Hc_in in Hk. tauto.
      - rewrite Hc_in. tauto. }
    destruct cands as [|k0 ks0] eqn:Ec.
    + split; [reflexivity|]. split; [discriminate|]. split; [right; reflexivity|]. split; [|discriminate].
      split; [discriminate|]. rewrite <- Hiff0. intros [k [[] _]].
    + rewrite <- Ec in *.
      assert (Hmeta : forall k x, In k cands -> In x (map strip fi) -> get_meta (fst (fst x)) k <> None).
      { intros k x Hk Hx. apply Hc_in in Hk. destruct Hk as [_ Hk].
        apply guess_candidate_spec in Hk. destruct Hk as [Hk _].
        apply in_map_iff in Hx. destruct Hx as [e [<- He]]. apply Hk, He. }
      assert (Hvec : forall x, In x (map strip fi) -> snd (fst x) = None).
      { intros x Hx. apply in_map_iff in Hx. destruct Hx as [e [<- He]]. apply (vec_none st Hwf e Hex He). }
      pose proof (try_orders_spec P S T V HS HT HP HPs cands fi Hmeta Hvec Hlen) as Hspec.
      destruct (try_orders cands fi P S (V * T) T V) as [fi2 r].
      destruct Hspec as [H1 [H2 [H3 H4]]].
      split; [exact H1|]. split; [discriminate|]. split; [exact H2|]. split; [|exact H4].
      rewrite H3. exact Hiff0.
  - (* explicit order, or a single volume *)
    assert (Hc : all_comparable (map e_tuple (files_info st)) = true).
    { destruct (explicit st) eqn:Hex.
      - rewrite (explicit_tuples st Hwf Hex). exact Hwt.
      - unfold explicit in Hex. apply orb_false_iff in Hex. destruct Hex as [Hct Hcv].
        rewrite Hct, Hcv in Hg. simpl in Hg. rewrite !andb_true_r in Hg. apply Nat.ltb_ge in Hg.
        rewrite (fresh_tuples st Hwf); [apply all_comparable_base_fresh | unfold explicit; rewrite Hct, Hcv; reflexivity|].
        nia. }
    pose proof (chk_order_spec (files_info st) P S T V Hc HS HT Hlen HP HPs) as Hspec.
    destruct (chk_order (files_info st) P S (V * T) T V) as [fi2 r].
    destruct Hspec as [H1 [H2 H3]].
    split; [apply Permutation_map, H1|]. split; [intros _; exact H1|]. split; [exact H2|]. split; [exact H3|].
    intros _. eapply Permutation_NoDup; [symmetry; apply Permutation_map, H1|].
    destruct (explicit st) eqn:Hex.
    + apply (w_tuples_nd st Hwf Hex).
    + apply nodup_tuples_of_pos.
      unfold explicit in Hex. apply orb_false_iff in Hex. destruct Hex as [Hct Hcv].
      rewrite Hct, Hcv in Hg. simpl in Hg. rewrite !andb_true_r in Hg. apply Nat.ltb_ge in Hg.
      rewrite (pos_of_files st Hwf). apply (nodup_pos_length st Hwf). nia.
Qed.

(* ------------------------------------------------------------------------------------------ *)
(** * compute_shape against grid_complete *)

Lemma shape_of_grid f0 S T V : 0 < S -> shape_of f0 S T V = grid_shape (f_rows f0) (f_cols f0) S T V.
Proof.
  intros HS. unfold shape_of, grid_shape.
  replace (if 1 <? S then S else 1) with S; [reflexivity|].
  destruct (1 <? S) eqn:E; [reflexivity|]. apply Nat.ltb_ge in E. lia.
Qed.

Section Sets.
  Variable st : state.
  Hypothesis Hwf : wf0 st.

  Lemma sets_for (g : entry -> tuple) :
    (forall e, t_pos (g e) = t_pos (e_tuple e)) -> (forall e, t_vec (g e) = t_vec (e_tuple e)) ->
    (forall p, In p (ssort qc_leb (pos_vals st)) <-> In p (map t_pos (map g (files_info st)))) /\
    (forall v, In v (vec_vals st) <-> In v (map t_vec (map g (files_info st)))).
  Proof.
    intros Hp Hv. split.
    - intros p. rewrite map_map. rewrite (map_ext _ _ Hp).
      destruct (pos_sorted st Hwf) as [_ [H _]]. apply H.
    - intros v. rewrite map_map. rewrite (map_ext _ _ Hv). apply (w_vec_in st Hwf).
  Qed.

  Lemma nonempty_sets : files_info st <> [] -> 0 < length (pos_vals st) /\ 0 < length (vec_vals st).
  Proof.
    intros Hne. destruct (files_info st) as [|e fi] eqn:E; [congruence|].
    split.
    - assert (H : In (t_pos (e_tuple e)) (pos_vals st)).
      { apply (w_pos_in st Hwf). rewrite E. left. reflexivity. }
      destruct (pos_vals st); [destruct H | simpl; lia].
    - assert (H : In (t_vec (e_tuple e)) (vec_vals st)).
      { apply (w_vec_in st Hwf). rewrite E. left. reflexivity. }
      destruct (vec_vals st); [destruct H | simpl; lia].
  Qed.
End Sets.

Definition guess_flag (st : state) (nvol : nat) : bool :=
  (1 <? nvol) && negb (cfg_time st) && negb (cfg_vec st).

(** [order_cond] is the arrangement half of [grid_complete] *)
Lemma order_cond_grid st S T V :
  wf0 st ->
  0 < S -> 0 < T -> 0 < V ->
  length (files_info st) = V * T * S -> S = length (pos_vals st) -> V = length (vec_vals st) ->
  (1 < S -> spacing_ok (ssort qc_leb (pos_vals st)) = true) ->
  order_cond st (ssort qc_leb (pos_vals st)) S T V <->
  grid_complete (cfg_time st) (cfg_vec st) (files st) S T V.
Proof.
  intros Hwf HS HT HV Hlen HSeq HVeq Hsp.
  destruct (pos_sorted st Hwf) as [HPs [HPin HPl]]. cbv zeta in *.
  set (P := ssort qc_leb (pos_vals st)) in *.
  assert (HPlS : length P = S) by lia.
  assert (Hsp' : 1 < S -> even_spacing P) by (intros H; apply spacing_ok_iff, Hsp, H).
  unfold order_cond, grid_complete.
  (* the three ways of reading tuples off the entries *)
  assert (Sets_e := sets_for st Hwf e_tuple (fun _ => eq_refl) (fun _ => eq_refl)).
  destruct (cfg_time st || cfg_vec st) eqn:Hex.
  - (* explicit *)
    assert (Hflag : guess_flag st (V * T) = false).
    { unfold guess_flag. apply orb_true_iff in Hex. destruct Hex as [-> | ->]; simpl;
        rewrite ?andb_false_r; reflexivity. }
    unfold guess_flag in Hflag. rewrite Hflag.
    rewrite <- (explicit_tuples st Hwf Hex).
    destruct Sets_e as [SP SV]. split.
    + intros Ha. eapply grid_ok_intro with (P := P) (Vs := vec_vals st); try eassumption; try lia.
      * apply (w_tuples_nd st Hwf Hex).
      * apply (w_vec_nd st Hwf).
      * rewrite map_length. exact Hlen.
    + intros Hg. eapply grid_ok_elim with (P0 := P) (Vs0 := vec_vals st) in Hg; try eassumption.
      * apply Hg.
      * apply (w_vec_nd st Hwf).
  - (* no explicit order *)
    apply orb_false_iff in Hex. destruct Hex as [Hct Hcv].
    assert (Hex : explicit st = false) by (unfold explicit; rewrite Hct, Hcv; reflexivity).
    rewrite Hct, Hcv. cbn [negb]. rewrite !andb_true_r.
    destruct (1 <? V * T) eqn:Hnv.
    + (* several volumes: guess *)
      apply Nat.ltb_lt in Hnv.
      assert (Hndp : ~ NoDup (map f_pos (files st))).
      { intros Hnd. apply (nodup_pos_length st Hwf) in Hnd. nia. }
      split.
      * intros [k [Hk [Hcand [Hnd Ha]]]]. right. split; [exact Hndp|]. exists k. split; [exact Hk|].
        apply guess_candidate_spec in Hcand. destruct Hcand as [Hc1 Hc2].
        split.
        -- unfold guess_ok. unfold files. rewrite !map_map, map_length. split.
           ++ intros v Hv. apply in_map_iff in Hv. destruct Hv as [e [<- He]]. apply Hc1, He.
           ++ rewrite (Nat.mul_comm T V). exact Hc2.
        -- rewrite <- (guess_tuples st Hwf k Hex).
           destruct (sets_for st Hwf (key_tuple k) (fun _ => eq_refl) (fun _ => eq_refl)) as [SP SV].
           eapply grid_ok_intro with (P := P) (Vs := vec_vals st); try eassumption; try lia.
           ++ apply (w_vec_nd st Hwf).
           ++ rewrite map_length. exact Hlen.
      * intros [[Hnd _] | [_ [k [Hk [[Hg1 Hg2] Hg]]]]]; [contradiction|].
        exists k. split; [exact Hk|].
        rewrite <- (guess_tuples st Hwf k Hex) in Hg.
        destruct (sets_for st Hwf (key_tuple k) (fun _ => eq_refl) (fun _ => eq_refl)) as [SP SV].
        eapply grid_ok_elim with (P0 := P) (Vs0 := vec_vals st) in Hg; try eassumption;
          [|apply (w_vec_nd st Hwf)].
        destruct Hg as [Hnd [_ [_ [_ [_ [_ [_ [_ Ha]]]]]]]].
        split; [|split; assumption].
        apply guess_candidate_spec. unfold files in Hg1, Hg2. rewrite map_map in Hg1. rewrite !map_map, map_length in Hg2.
        split.
        -- intros e He. apply Hg1. apply in_map_iff. exists e. split; [reflexivity | exact He].
        -- rewrite (Nat.mul_comm V T). exact Hg2.
    + (* a single volume *)
      apply Nat.ltb_ge in Hnv.
      assert (HnS : length (files_info st) = length (pos_vals st)) by nia.
      assert (Hndp : NoDup (map f_pos (files st))) by (apply (nodup_pos_length st Hwf), HnS).
      rewrite <- (fresh_tuples st Hwf Hex) by lia.
      destruct Sets_e as [SP SV]. split.
      * intros Ha. left. split; [exact Hndp|].
        eapply grid_ok_intro with (P := P) (Vs := vec_vals st); try eassumption; try lia.
        -- apply nodup_tuples_of_pos. rewrite (pos_of_files st Hwf). exact Hndp.
        -- apply (w_vec_nd st Hwf).
        -- rewrite map_length. exact Hlen.
      * intros [[_ Hg] | [Hn _]]; [|contradiction].
        eapply grid_ok_elim with (P0 := P) (Vs0 := vec_vals st) in Hg; try eassumption.
        -- apply Hg.
        -- apply (w_vec_nd st Hwf).
Qed.

Lemma grid_ok_dims st (g : entry -> tuple) S T V :
  wf0 st ->
  (forall e, t_pos (g e) = t_pos (e_tuple e)) -> (forall e, t_vec (g e) = t_vec (e_tuple e)) ->
  grid_ok (map g (files_info st)) S T V ->
  0 < S /\ 0 < T /\ 0 < V /\ length (files_info st) = V * T * S /\
  S = length (pos_vals st) /\ V = length (vec_vals st) /\
  (1 < S -> spacing_ok (ssort qc_leb (pos_vals st)) = true).
Proof.
  intros Hwf Hp Hv Hg.
  destruct (pos_sorted st Hwf) as [HPs [HPin HPl]]. cbv zeta in *.
  destruct (sets_for st Hwf g Hp Hv) as [SP SV].
  eapply grid_ok_elim with (P0 := ssort qc_leb (pos_vals st)) (Vs0 := vec_vals st) in Hg;
    try eassumption; [|apply (w_vec_nd st Hwf)].
  destruct Hg as [_ [H1 [H2 [H3 [H4 [H5 [H6 [H7 _]]]]]]]].
  rewrite map_length in H7.
  repeat (split; [assumption || lia|]).
  intros HS. apply spacing_ok_iff, H2, HS.
Qed.

Lemma grid_complete_dims st S T V :
  wf0 st -> grid_complete (cfg_time st) (cfg_vec st) (files st) S T V ->
  0 < S /\ 0 < T /\ 0 < V /\ length (files_info st) = V * T * S /\
  S = length (pos_vals st) /\ V = length (vec_vals st) /\
  (1 < S -> spacing_ok (ssort qc_leb (pos_vals st)) = true).
Proof.
  intros Hwf. unfold grid_complete.
  destruct (cfg_time st || cfg_vec st) eqn:Hex.
  - rewrite <- (explicit_tuples st Hwf Hex). apply grid_ok_dims; auto.
  - assert (Hex' : explicit st = false) by exact Hex.
    intros [[Hnd Hg] | [_ [k [_ [_ Hg]]]]].
    + rewrite <- (fresh_tuples st Hwf Hex') in Hg.
      * revert Hg. apply grid_ok_dims; auto.
      * apply (nodup_pos_length st Hwf) in Hnd. lia.
    + rewrite <- (guess_tuples st Hwf k Hex') in Hg. revert Hg. apply grid_ok_dims; auto.
Qed.

(** what a successful recomputation of the shape establishes *)
Record shape_result (st st' : state) (sh : list nat) (S T V : nat) : Prop := mk_shape_result {
  sr_S : S = length (pos_vals st);
  sr_V : V = length (vec_vals st);
  sr_pos : 0 < S /\ 0 < T /\ 0 < V;
  sr_len : length (files_info st) = V * T * S;
  sr_grid : grid_complete (cfg_time st) (cfg_vec st) (files st) S T V;
  sr_st : exists fi2,
      st' = with_shape (with_files st fi2) false (Some sh) /\
      Permutation (map strip fi2) (map strip (files_info st)) /\
      (guess_flag st (V * T) = false -> Permutation fi2 (files_info st)) /\
      NoDup (map e_tuple fi2) /\
      sh = shape_of (e_file (nth 0 fi2 dflt_entry)) S T V
}.

Theorem compute_shape_sound st st' sh :
  wf0 st -> well_typed st -> compute_shape st = (st', Ok sh) ->
  exists S T V, shape_result st st' sh S T V.
Proof.
  intros Hwf Hwt. unfold compute_shape.
  destruct (grid_dims (length (files_info st)) (length (pos_vals st)) (length (vec_vals st))
                      (ssort qc_leb (pos_vals st))) as [[nvol T]|e] eqn:Hd; [|discriminate].
  apply grid_dims_ok in Hd. destruct Hd as [HS [HV [HT [Hn [-> Hsp]]]]].
  destruct (pos_sorted st Hwf) as [HPs [HPin HPl]]. cbv zeta in *.
  pose proof (order_files_spec st (ssort qc_leb (pos_vals st)) (length (pos_vals st)) T (length (vec_vals st))
                Hwf Hwt HS HT HV Hn eq_refl HPl HPs) as Hspec.
  destruct (order_files st (ssort qc_leb (pos_vals st)) (length (pos_vals st)) (length (vec_vals st) * T) T
                        (length (vec_vals st))) as [fi2 r].
  destruct Hspec as [H1 [H2 [H3 [H4 H5]]]].
  destruct r as [[]|e]; [|discriminate].
  intros H. injection H as <- <-.
  exists (length (pos_vals st)), T, (length (vec_vals st)).
  constructor; try reflexivity; try (repeat split; assumption).
  - apply (order_cond_grid st _ T _ Hwf HS HT HV Hn eq_refl eq_refl Hsp). apply H4. reflexivity.
  - exists fi2. split; [reflexivity|]. split; [exact H1|]. split; [exact H2|]. split; [apply H5; reflexivity | reflexivity].
Qed.

Theorem compute_shape_complete st S T V :
  wf0 st -> well_typed st -> grid_complete (cfg_time st) (cfg_vec st) (files st) S T V ->
  exists st' sh, compute_shape st = (st', Ok sh).
Proof.
  intros Hwf Hwt Hg.
  destruct (grid_complete_dims st S T V Hwf Hg) as [HS [HT [HV [Hn [HSeq [HVeq Hsp]]]]]].
  unfold compute_shape. rewrite <- HSeq, <- HVeq.
  rewrite (grid_dims_complete _ S V _ T HS HV HT Hn Hsp).
  destruct (pos_sorted st Hwf) as [HPs [HPin HPl]]. cbv zeta in *.
  assert (HPlS : length (ssort qc_leb (pos_vals st)) = S) by lia.
  pose proof (order_files_spec st (ssort qc_leb (pos_vals st)) S T V Hwf Hwt HS HT HV Hn HSeq HPlS HPs) as Hspec.
  destruct (order_files st (ssort qc_leb (pos_vals st)) S (V * T) T V) as [fi2 r].
  destruct Hspec as [_ [_ [_ [H4 _]]]].
  assert (Hr : r = Ok tt).
  { apply H4. apply (order_cond_grid st S T V Hwf HS HT HV Hn HSeq HVeq Hsp). exact Hg. }
  subst r. eexists. eexists. reflexivity.
Qed.

(** a failing recomputation raises InvalidStackError and only reorders / re-keys the file list *)
Theorem compute_shape_err st st' e :
  wf0 st -> well_typed st -> compute_shape st = (st', Err e) ->
  e = EInvalidStack /\
  exists fi2, st' = with_files st fi2 /\
    Permutation (map strip fi2) (map strip (files_info st)) /\
    (Permutation fi2 (files_info st) \/
     (explicit st = false /\ length (pos_vals st) < length (files_info st))).
Proof.
  intros Hwf Hwt. unfold compute_shape.
  destruct (grid_dims (length (files_info st)) (length (pos_vals st)) (length (vec_vals st))
                      (ssort qc_leb (pos_vals st))) as [[nvol T]|e0] eqn:Hd.
  - apply grid_dims_ok in Hd. destruct Hd as [HS [HV [HT [Hn [-> Hsp]]]]].
    destruct (pos_sorted st Hwf) as [HPs [HPin HPl]]. cbv zeta in *.
    pose proof (order_files_spec st (ssort qc_leb (pos_vals st)) (length (pos_vals st)) T (length (vec_vals st))
                  Hwf Hwt HS HT HV Hn eq_refl HPl HPs) as Hspec.
    destruct (order_files st (ssort qc_leb (pos_vals st)) (length (pos_vals st)) (length (vec_vals st) * T) T
                          (length (vec_vals st))) as [fi2 r].
    destruct Hspec as [H1 [H2 [H3 _]]].
    destruct r as [[]|e1]; [discriminate|].
    intros H. injection H as <- <-.
    split; [destruct H3 as [H3|H3]; congruence|].
    exists fi2. split; [reflexivity|]. split; [exact H1|].
    destruct ((1 <? length (vec_vals st) * T) && negb (cfg_time st) && negb (cfg_vec st)) eqn:Hg.
    + right. apply andb_true_iff in Hg. destruct Hg as [Hg Hcv]. apply andb_true_iff in Hg.
      destruct Hg as [Hnv Hct]. apply negb_true_iff in Hct, Hcv. apply Nat.ltb_lt in Hnv.
      split; [unfold explicit; rewrite Hct, Hcv; reflexivity | nia].
    + left. apply H2. reflexivity.
  - intros H. injection H as <- <-. split.
    + destruct (files_info st) as [|e1 fi] eqn:Efi.
      * simpl in Hd. unfold grid_dims in Hd. simpl in Hd. congruence.
      * destruct (nonempty_sets st Hwf) as [HS HV]; [rewrite Efi; discriminate|].
        exact (grid_dims_err _ _ _ _ _ HS HV Hd).
    + exists (files_info st). split; [destruct st; reflexivity|]. split; [reflexivity | left; reflexivity].
Qed.
