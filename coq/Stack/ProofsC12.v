(** Property C12 on the model: conversion results depend only on the multiset of accepted files. *)
From Coq Require Import List Bool Arith Lia Permutation Sorted QArith Qcanon Qabs.
From DV Require Import Common.Res Common.Str Generated.T_stack
  Stack.Model Stack.Sort Stack.Order Stack.Spec Stack.ProofsOrder Stack.ProofsShape Stack.ProofsInv Stack.ProofsC11.
Import ListNotations.
Local Open Scope nat_scope.

(* ------------------------------------------------------------------------------------------ *)
(** * Determinism of the ordering step in the multiset *)

(** sorting a list without ties gives the same result for every permutation of it *)
Lemma chk_order_det fi fi' P S nvol T V :
  Permutation fi fi' -> NoDup (map e_tuple fi) ->
  snd (chk_order fi P S nvol T V) = snd (chk_order fi' P S nvol T V) /\
  Permutation (fst (chk_order fi P S nvol T V)) (fst (chk_order fi' P S nvol T V)) /\
  (snd (chk_order fi P S nvol T V) <> Err EType ->
   fst (chk_order fi P S nvol T V) = fst (chk_order fi' P S nvol T V)).
Proof.
  intros Hp Hnd. unfold chk_order.
  rewrite <- (all_comparable_perm _ _ (Permutation_map e_tuple Hp)).
  destruct (all_comparable (map e_tuple fi)); simpl.
  - assert (Ha : arrange fi S nvol = arrange fi' S nvol).
    { unfold arrange. rewrite entry_leb_by_key.
      rewrite (ssort_key_unique e_tuple tuple_leb fi fi' tuple_leb_order Hnd Hp). reflexivity. }
    rewrite Ha. split; [reflexivity|]. split; [reflexivity|]. intros _. reflexivity.
  - split; [reflexivity|]. split; [exact Hp|]. intros H. congruence.
Qed.

(** an entry after re-keying is a function of what [strip] keeps *)
Definition rekey (k : str) (x : file * option Qc * Qc) : entry :=
  (fst (fst x), (snd (fst x), get_meta (fst (fst x)) k, snd x)).

Lemma rewrite_rekey k fi : map (rewrite_time k) fi = map (rekey k) (map strip fi).
Proof. rewrite map_map. apply map_ext. intros [f [[v t] p]]. reflexivity. Qed.

Lemma try_orders_det P S nvol T V ks :
  forall fi fi',
    Permutation (map strip fi) (map strip fi') ->
    snd (try_orders ks fi P S nvol T V) = snd (try_orders ks fi' P S nvol T V) /\
    Permutation (map strip (fst (try_orders ks fi P S nvol T V)))
                (map strip (fst (try_orders ks fi' P S nvol T V))) /\
    (snd (try_orders ks fi P S nvol T V) = Ok tt ->
     fst (try_orders ks fi P S nvol T V) = fst (try_orders ks fi' P S nvol T V)).
Proof.
  induction ks as [|k ks IH]; intros fi fi' Hp.
  - simpl. split; [reflexivity|]. split; [exact Hp|]. discriminate.
  - cbn [try_orders].
    assert (Hp1 : Permutation (map (rewrite_time k) fi) (map (rewrite_time k) fi')).
    { rewrite !rewrite_rekey. apply Permutation_map, Hp. }
    set (fi1 := map (rewrite_time k) fi) in *. set (fi1' := map (rewrite_time k) fi') in *.
    rewrite <- (has_dup_perm tuple_eqb tuple_eqb_spec _ _ (Permutation_map e_tuple Hp1)).
    destruct (has_dup tuple_eqb (map e_tuple fi1)) eqn:Hdup.
    + apply IH. apply Permutation_map, Hp1.
    + apply (has_dup_false tuple_eqb tuple_eqb_spec) in Hdup.
      destruct (chk_order_det fi1 fi1' P S nvol T V Hp1 Hdup) as [Hr [Hperm Heq]].
      destruct (chk_order fi1 P S nvol T V) as [a r]. destruct (chk_order fi1' P S nvol T V) as [a' r'].
      simpl in Hr, Hperm, Heq. subst r'.
      destruct r as [[]|e].
      * simpl. rewrite Heq by discriminate. split; [reflexivity|]. split; [reflexivity|]. reflexivity.
      * destruct e; simpl; try (split; [reflexivity|]; split; [apply Permutation_map, Hperm | discriminate]).
        apply IH. apply Permutation_map, Hperm.
Qed.

Lemma guess_candidate_perm fi fi' nvol n k :
  Permutation (map strip fi) (map strip fi') -> guess_candidate fi nvol n k = guess_candidate fi' nvol n k.
Proof.
  intros Hp. unfold guess_candidate.
  assert (Hv : Permutation (map (fun e => get_meta (e_file e) k) fi) (map (fun e => get_meta (e_file e) k) fi')).
  { apply (Permutation_map (fun x : file * option Qc * Qc => get_meta (fst (fst x)) k)) in Hp.
    rewrite !map_map in Hp. exact Hp. }
  rewrite (dedup_length_perm oq_eqb oq_eqb_spec _ _ Hv). f_equal.
  set (l := map (fun e => get_meta (e_file e) k) fi) in *.
  set (l' := map (fun e => get_meta (e_file e) k) fi') in *.
  destruct (forallb is_some l) eqn:E1, (forallb is_some l') eqn:E2; try reflexivity.
  - rewrite forallb_forall in E1. assert (forallb is_some l' = true); [|congruence].
    apply forallb_forall. intros x Hx. apply E1. eapply Permutation_in; [symmetry; exact Hv | exact Hx].
  - rewrite forallb_forall in E2. assert (forallb is_some l = true); [|congruence].
    apply forallb_forall. intros x Hx. apply E2. eapply Permutation_in; [exact Hv | exact Hx].
Qed.

(** in explicit mode, and for a single fresh volume, the entries are determined by what [strip] keeps *)
Definition rebuild (ct : bool) (x : file * option Qc * Qc) : entry :=
  (fst (fst x), (snd (fst x), base_time ct (fst (fst x)), snd x)).

Lemma explicit_rebuild st : wf0 st -> explicit st = true ->
  files_info st = map (rebuild (cfg_time st)) (map strip (files_info st)).
Proof.
  intros Hwf Hex. rewrite map_map. rewrite <- (map_id (files_info st)) at 1. apply map_ext_in.
  intros e He. destruct (w_entry st Hwf e He) as [_ [_ H3]]. specialize (H3 Hex).
  destruct e as [f [[v t] p]]. cbv [rebuild strip e_file e_tuple t_vec t_time t_pos fst snd] in *.
  rewrite H3. reflexivity.
Qed.

Lemma fresh_rebuild st : wf0 st -> explicit st = false -> length (files_info st) <= length (pos_vals st) ->
  files_info st = map (rebuild false) (map strip (files_info st)).
Proof.
  intros Hwf Hex Hlen. rewrite map_map. rewrite <- (map_id (files_info st)) at 1. apply map_ext_in.
  intros e He.
  assert (H3 : t_time (e_tuple e) = None).
  { destruct (t_time (e_tuple e)) eqn:E; [|reflexivity]. exfalso.
    assert (Hlt : length (pos_vals st) < length (files_info st)); [|lia].
    apply (w_stale st Hwf Hex). exists e. split; [exact He | congruence]. }
  destruct e as [f [[v t] p]]. cbv [rebuild strip e_file e_tuple t_vec t_time t_pos fst snd base_time] in *.
  rewrite H3. reflexivity.
Qed.

(* ------------------------------------------------------------------------------------------ *)
(** * Two stacks holding the same files *)

Definition same_stack (st1 st2 : state) : Prop :=
  cfg_time st1 = cfg_time st2 /\ cfg_vec st1 = cfg_vec st2 /\
  Permutation (map strip (files_info st1)) (map strip (files_info st2)).

Lemma same_sets st1 st2 : wf0 st1 -> wf0 st2 -> same_stack st1 st2 ->
  length (files_info st1) = length (files_info st2) /\
  length (pos_vals st1) = length (pos_vals st2) /\
  ssort qc_leb (pos_vals st1) = ssort qc_leb (pos_vals st2) /\
  length (vec_vals st1) = length (vec_vals st2).
Proof.
  intros H1 H2 [_ [_ Hp]].
  assert (Hpos : Permutation (pos_vals st1) (pos_vals st2)).
  { apply NoDup_Permutation; [apply (w_pos_nd _ H1) | apply (w_pos_nd _ H2)|].
    intros p. rewrite (w_pos_in _ H1), (w_pos_in _ H2). unfold pos_of.
    apply (Permutation_map (fun x : file * option Qc * Qc => snd x)) in Hp. rewrite !map_map in Hp.
    split; apply Permutation_in; [|symmetry]; exact Hp. }
  assert (Hvec : Permutation (vec_vals st1) (vec_vals st2)).
  { apply NoDup_Permutation; [apply (w_vec_nd _ H1) | apply (w_vec_nd _ H2)|].
    intros v. rewrite (w_vec_in _ H1), (w_vec_in _ H2). unfold vec_of.
    apply (Permutation_map (fun x : file * option Qc * Qc => snd (fst x))) in Hp. rewrite !map_map in Hp.
    split; apply Permutation_in; [|symmetry]; exact Hp. }
  split; [apply Permutation_length in Hp; rewrite !map_length in Hp; exact Hp|].
  split; [apply Permutation_length, Hpos|].
  split; [apply ssort_unique; [apply qc_leb_order | exact Hpos]|].
  apply Permutation_length, Hvec.
Qed.

Lemma order_files_det st1 st2 P S T V :
  wf0 st1 -> wf0 st2 -> same_stack st1 st2 ->
  0 < S -> 0 < T -> 0 < V ->
  length (files_info st1) = V * T * S -> S = length (pos_vals st1) ->
  snd (order_files st1 P S (V * T) T V) = snd (order_files st2 P S (V * T) T V) /\
  (snd (order_files st1 P S (V * T) T V) = Ok tt ->
   fst (order_files st1 P S (V * T) T V) = fst (order_files st2 P S (V * T) T V)).
Proof.
  intros H1 H2 Hsame HS HT HV Hlen HSe.
  destruct (same_sets st1 st2 H1 H2 Hsame) as [Hn [HSl _]].
  destruct Hsame as [Hct [Hcv Hp]].
  unfold order_files. rewrite <- Hct, <- Hcv.
  destruct ((1 <? V * T) && negb (cfg_time st1) && negb (cfg_vec st1)) eqn:Hg.
  - rewrite <- Hn.
    rewrite (filter_ext _ _ (fun k => guess_candidate_perm (files_info st1) (files_info st2) (V * T)
                                        (length (files_info st1)) k Hp)).
    destruct (filter (guess_candidate (files_info st2) (V * T) (length (files_info st1))) sort_guesses) as [|k0 ks0].
    + simpl. split; [reflexivity | discriminate].
    + destruct (try_orders_det P S (V * T) T V (k0 :: ks0) _ _ Hp) as [Hr [_ Heq]]. split; assumption.
  - assert (Hperm_nd : Permutation (files_info st1) (files_info st2) /\ NoDup (map e_tuple (files_info st1))).
    { destruct (explicit st1) eqn:Hex.
      - assert (Hex2 : explicit st2 = true) by (unfold explicit in *; rewrite <- Hct, <- Hcv; exact Hex).
        split; [|apply (w_tuples_nd _ H1 Hex)].
        rewrite (explicit_rebuild st1 H1 Hex), (explicit_rebuild st2 H2 Hex2), <- Hct.
        apply Permutation_map, Hp.
      - assert (Hex2 : explicit st2 = false) by (unfold explicit in *; rewrite <- Hct, <- Hcv; exact Hex).
        unfold explicit in Hex. apply orb_false_iff in Hex. destruct Hex as [Hct1 Hcv1].
        rewrite Hct1, Hcv1 in Hg. simpl in Hg. rewrite !andb_true_r in Hg. apply Nat.ltb_ge in Hg.
        assert (Hle : length (files_info st1) <= length (pos_vals st1)) by nia.
        assert (Hex1 : explicit st1 = false) by (unfold explicit; rewrite Hct1, Hcv1; reflexivity).
        split.
        + rewrite (fresh_rebuild st1 H1 Hex1 Hle), (fresh_rebuild st2 H2 Hex2) by lia.
          apply Permutation_map, Hp.
        + apply nodup_tuples_of_pos. rewrite (pos_of_files st1 H1). apply (nodup_pos_length st1 H1). nia. }
    destruct Hperm_nd as [Hperm Hnd].
    destruct (chk_order_det _ _ P S (V * T) T V Hperm Hnd) as [Hr [_ Heq]].
    split; [exact Hr|]. intros Hok. apply Heq. rewrite Hok. discriminate.
Qed.

(** the recomputation of the shape gives the same result, and on success the same file order, for any
    two well-formed stacks holding the same files *)
Lemma compute_shape_det st1 st2 :
  wf0 st1 -> wf0 st2 -> same_stack st1 st2 ->
  snd (compute_shape st1) = snd (compute_shape st2) /\
  (forall sh, snd (compute_shape st1) = Ok sh ->
     files_info (fst (compute_shape st1)) = files_info (fst (compute_shape st2))).
Proof.
  intros H1 H2 Hsame.
  destruct (same_sets st1 st2 H1 H2 Hsame) as [Hn [HSl [HP HVl]]].
  unfold compute_shape. rewrite <- Hn, <- HSl, <- HP, <- HVl.
  destruct (grid_dims (length (files_info st1)) (length (pos_vals st1)) (length (vec_vals st1))
                      (ssort qc_leb (pos_vals st1))) as [[nvol T]|e] eqn:Hd.
  - apply grid_dims_ok in Hd. destruct Hd as [HS [HV [HT [Hlen [-> Hsp]]]]].
    destruct (order_files_det st1 st2 (ssort qc_leb (pos_vals st1)) (length (pos_vals st1)) T
                (length (vec_vals st1)) H1 H2 Hsame HS HT HV Hlen eq_refl) as [Hr Heq].
    destruct (order_files st1 _ _ _ T _) as [a1 r1]. destruct (order_files st2 _ _ _ T _) as [a2 r2].
    simpl in Hr, Heq. subst r2. destruct r1 as [[]|e1]; simpl.
    + rewrite (Heq eq_refl). split; [reflexivity|]. intros sh _. reflexivity.
    + split; [reflexivity|]. intros sh H. discriminate.
  - simpl. split; [reflexivity|]. intros sh H. discriminate.
Qed.

(* ------------------------------------------------------------------------------------------ *)
(** * What the queries leave untouched *)

Definition same_static (st st' : state) : Prop :=
  cfg_time st' = cfg_time st /\ cfg_vec st' = cfg_vec st /\ pos_vals st' = pos_vals st /\
  vec_vals st' = vec_vals st /\ tuples st' = tuples st /\ pe_dirs st' = pe_dirs st /\
  rep_times st' = rep_times st /\ ref_input st' = ref_input st.

Lemma same_static_refl st : same_static st st.
Proof. repeat split. Qed.

Lemma same_static_trans a b c : same_static a b -> same_static b c -> same_static a c.
Proof.
  intros [A1 [A2 [A3 [A4 [A5 [A6 [A7 A8]]]]]]] [B1 [B2 [B3 [B4 [B5 [B6 [B7 B8]]]]]]].
  repeat split; congruence.
Qed.

Lemma compute_shape_static st : same_static st (fst (compute_shape st)).
Proof.
  unfold compute_shape. destruct (grid_dims _ _ _ _) as [[nvol T]|e]; [|apply same_static_refl].
  destruct (order_files st _ _ nvol T _) as [fi2 [[]|e]]; simpl; repeat split.
Qed.

Lemma get_shape_static st : same_static st (fst (get_shape st)).
Proof.
  unfold get_shape. destruct (shape_dirty st); [apply compute_shape_static | apply same_static_refl].
Qed.

Lemma get_data_fst st : fst (get_data st) = fst (get_shape st).
Proof. unfold get_data. destruct (get_shape st) as [s [sh|e]]; reflexivity. Qed.

Lemma get_affine_static st : same_static st (fst (get_affine st)).
Proof. rewrite get_affine_fst. apply get_shape_static. Qed.

Lemma to_nifti_static st vo em : same_static st (fst (to_nifti st vo em)).
Proof.
  unfold to_nifti. pose proof (get_shape_static st) as H1. rewrite <- get_data_fst in H1.
  destruct (get_data st) as [s1 [[i sh]|e]]; [|exact H1]. simpl in H1.
  pose proof (get_affine_static s1) as H2.
  destruct (get_affine s1) as [s2 [[i0 col]|e]]; simpl in H2; [|eapply same_static_trans; eassumption].
  pose proof (same_static_trans _ _ _ H1 H2) as H.
  match goal with |- context [if ?b then _ else s2] => destruct b end; simpl; [|exact H].
  destruct H as [A1 [A2 [A3 [A4 [A5 [A6 [A7 A8]]]]]]]. repeat split; assumption.
Qed.

(** files are only permuted by the queries *)
Lemma get_shape_files st : wf0 st -> Permutation (files (fst (get_shape st))) (files st).
Proof.
  intros Hwf. unfold get_shape. destruct (shape_dirty st); [|reflexivity].
  destruct (compute_shape st) as [st' r] eqn:E. simpl.
  destruct (compute_shape_reorder st st' r Hwf E) as [fi2 [[Hp _] Hst]].
  assert (Hfi : files_info st' = fi2) by (destruct Hst as [-> | [sh [-> _]]]; reflexivity).
  unfold files. rewrite Hfi. apply files_strip_perm, Hp.
Qed.

Lemma get_affine_files st : wf0 st -> Permutation (files (fst (get_affine st))) (files st).
Proof.
  intros Hwf. unfold get_affine. pose proof (get_shape_files st Hwf) as H.
  destruct (get_shape st) as [s [sh|e]]; [|exact H]. simpl in H.
  destruct (1 <? length (files_info s) / nvols_of_shape sh); exact H.
Qed.

Lemma to_nifti_files st vo em : wf st -> Permutation (files (fst (to_nifti st vo em))) (files st).
Proof.
  intros Hwf. unfold to_nifti. pose proof (get_shape_files st (proj1 Hwf)) as H1.
  pose proof (get_data_wf st Hwf) as Hwf1. rewrite <- get_data_fst in H1.
  destruct (get_data st) as [s1 [[i sh]|e]]; [|exact H1]. simpl in H1, Hwf1.
  pose proof (get_affine_files s1 (proj1 Hwf1)) as H2.
  destruct (get_affine s1) as [s2 [[i0 col]|e]]; simpl in H2; [|rewrite H2; exact H1].
  match goal with |- context [if ?b then _ else s2] => destruct b end; simpl; [|rewrite H2; exact H1].
  unfold files at 1. simpl. rewrite (Permutation_map e_file (rev_chunks_perm _ _ _)).
  fold (files s2). rewrite H2. exact H1.
Qed.

(* ------------------------------------------------------------------------------------------ *)
(** * The history invariant *)

(** a clean stack is a fixed point of the shape computation: its file order is the canonical one *)
Definition canonical (st : state) : Prop :=
  shape_dirty st = false ->
  exists sh, snd (compute_shape st) = Ok sh /\
             files_info (fst (compute_shape st)) = files_info st /\ cached_shape st = Some sh.

Record wfx (st : state) : Prop := mk_wfx {
  x_tr_nd : NoDup (rep_times st);
  x_tr_in : forall x, In x (rep_times st) <-> In x (map f_tr (files st));
  x_pe_nd : NoDup (pe_dirs st);
  x_pe_in : forall x, In x (pe_dirs st) <-> In x (map f_phase (files st))
}.

Definition inv (st : state) : Prop := wf st /\ wfx st /\ canonical st.

Lemma nvols_grid_shape r c S T V : 0 < T -> 0 < V -> nvols_of_shape (grid_shape r c S T V) = T * V.
Proof.
  intros HT HV. unfold grid_shape, nvols_of_shape.
  destruct (Nat.eqb V 1) eqn:EV; [apply Nat.eqb_eq in EV; subst V|].
  - destruct (Nat.eqb T 1) eqn:ET; [apply Nat.eqb_eq in ET; subst T; reflexivity|]. simpl. lia.
  - reflexivity.
Qed.

(** for a clean stack the number of files per volume is the number of distinct slice positions *)
Lemma files_per_vol st sh :
  wf st -> shape_dirty st = false -> cached_shape st = Some sh ->
  length (files_info st) / nvols_of_shape sh = length (pos_vals st).
Proof.
  intros [Hwf0 Hclean] Hd Hcs. destruct (Hclean Hd) as [S [T [V [r [c [H1 [H2 _]]]]]]].
  rewrite Hcs in H1. injection H1 as ->.
  destruct (grid_complete_dims st S T V Hwf0 H2) as [HS [HT [HV [Hn [HSe _]]]]].
  rewrite nvols_grid_shape by assumption. rewrite Hn, <- HSe.
  replace (V * T * S) with (S * (T * V)) by lia. apply Nat.div_mul. nia.
Qed.

Lemma get_shape_ok_clean st sh :
  snd (get_shape st) = Ok sh ->
  shape_dirty (fst (get_shape st)) = false /\ cached_shape (fst (get_shape st)) = Some sh.
Proof.
  unfold get_shape. destruct (shape_dirty st) eqn:Hd.
  - destruct (compute_shape st) as [st' r] eqn:Ec. simpl. intros ->. apply (compute_shape_ok_form _ _ _ Ec).
  - simpl. destruct (cached_shape st) as [sh'|]; [|discriminate]. intros H. injection H as <-. auto.
Qed.

Lemma same_stack_refl_files st st' :
  cfg_time st' = cfg_time st -> cfg_vec st' = cfg_vec st -> files_info st' = files_info st -> same_stack st st'.
Proof. intros H1 H2 H3. split; [congruence|]. split; [congruence|]. rewrite H3. reflexivity. Qed.

(** two well-formed stacks with the same configuration and the same multiset of files *)
Lemma same_stack_of_files st1 st2 :
  wf0 st1 -> wf0 st2 -> cfg_time st1 = cfg_time st2 -> cfg_vec st1 = cfg_vec st2 ->
  Permutation (files st1) (files st2) -> same_stack st1 st2.
Proof.
  intros H1 H2 Hct Hcv Hp. split; [exact Hct|]. split; [exact Hcv|].
  assert (Hs : forall st, wf0 st ->
             map strip (files_info st) = map (fun f => (f, base_vec (cfg_vec st) f, f_pos f)) (files st)).
  { intros st Hwf. unfold files. rewrite map_map. apply map_ext_in. intros e He.
    destruct (w_entry st Hwf e He) as [A [B _]]. unfold strip. rewrite A, B. reflexivity. }
  rewrite (Hs st1 H1), (Hs st2 H2), Hcv. apply Permutation_map, Hp.
Qed.

Lemma inv_init ct cv : inv (init ct cv).
Proof.
  split; [apply wf_init|]. split; [|intros H; discriminate].
  constructor; simpl.
  - constructor.
  - intros x. tauto.
  - constructor.
  - intros x. tauto.
Qed.

Lemma set_add_length_ge {A} (eqb : A -> A -> bool) x l : length l <= length (set_add eqb x l).
Proof. unfold set_add. destruct (existsb (eqb x) l); [lia | rewrite app_length; simpl; lia]. Qed.

Lemma inv_add st f st' : inv st -> add_dcm st f = Ok st' -> inv st'.
Proof.
  intros [Hwf [Hx _]] Ha. split; [eapply wf_add; eassumption|].
  unfold add_dcm in Ha.
  destruct (negb (f_has_pix f)); [discriminate|].
  destruct (negb (congruent st f)); [discriminate|].
  destruct ((cfg_time st || cfg_vec st) && existsb (tuple_eqb (sorting_tuple st f)) (tuples st)); [discriminate|].
  injection Ha as <-. split; [|intros H; discriminate].
  destruct Hx as [X1 X2 X3 X4].
  assert (Hfiles : forall g : file -> option Qc, True) by auto. clear Hfiles.
  constructor; simpl.
  - apply set_add_nodup; [apply oq_eqb_spec | exact X1].
  - intros x. rewrite (set_add_in oq_eqb oq_eqb_spec). unfold files. simpl. rewrite !map_app, in_app_iff. simpl.
    fold (files st). rewrite X2. intuition congruence.
  - apply set_add_nodup; [apply ostr_eqb_spec | exact X3].
  - intros x. rewrite (set_add_in ostr_eqb ostr_eqb_spec). unfold files. simpl. rewrite !map_app, in_app_iff. simpl.
    fold (files st). rewrite X4. intuition congruence.
Qed.

Lemma wfx_static st st' :
  wfx st -> same_static st st' -> Permutation (files st') (files st) -> wfx st'.
Proof.
  intros [X1 X2 X3 X4] [A1 [A2 [A3 [A4 [A5 [A6 [A7 A8]]]]]]] Hp.
  constructor.
  - rewrite A7. exact X1.
  - intros x. rewrite A7, X2. split; apply Permutation_in, Permutation_map; [symmetry|]; exact Hp.
  - rewrite A6. exact X3.
  - intros x. rewrite A6, X4. split; apply Permutation_in, Permutation_map; [symmetry|]; exact Hp.
Qed.

Lemma inv_get_shape st : inv st -> inv (fst (get_shape st)).
Proof.
  intros [Hwf [Hx Hcan]]. split; [apply get_shape_wf, Hwf|]. split.
  - apply (wfx_static st); [exact Hx | apply get_shape_static | apply get_shape_files, Hwf].
  - unfold get_shape. destruct (shape_dirty st) eqn:Hd; [|exact Hcan].
    destruct (compute_shape st) as [st' r] eqn:Ec. simpl. intros Hd'.
    destruct Hwf as [Hwf0 Hclean].
    destruct (compute_shape_reorder st st' r Hwf0 Ec) as [fi2 [[Hp _] Hst]].
    destruct Hst as [-> | [sh [-> ->]]]; [simpl in Hd'; congruence|].
    set (st' := with_shape (with_files st fi2) false (Some sh)) in *.
    assert (Hwf' : wf0 st') by (apply (compute_shape_wf st st' (Ok sh) (conj Hwf0 Hclean) Ec)).
    assert (Hsame : same_stack st st').
    { split; [reflexivity|]. split; [reflexivity|]. simpl. symmetry. exact Hp. }
    destruct (compute_shape_det st st' Hwf0 Hwf' Hsame) as [Hr Hf].
    rewrite Ec in Hr, Hf. simpl in Hr, Hf.
    exists sh. split; [symmetry; exact Hr|]. split; [symmetry; apply (Hf sh eq_refl) | reflexivity].
Qed.

Lemma inv_get_affine st : inv st -> inv (fst (get_affine st)).
Proof. intros Hinv. rewrite get_affine_fst. apply inv_get_shape, Hinv. Qed.

Lemma inv_to_nifti st vo em : inv st -> inv (fst (to_nifti st vo em)).
Proof.
  intros Hinv. unfold to_nifti.
  pose proof (inv_get_shape st Hinv) as H1. rewrite <- get_data_fst in H1.
  destruct (get_data st) as [s1 [[i sh]|e]]; [|exact H1]. simpl in H1.
  pose proof (inv_get_affine s1 H1) as H2.
  destruct (get_affine s1) as [s2 [[i0 col]|e]]; simpl in H2; [|exact H2].
  match goal with |- context [if ?b then _ else s2] => destruct b end; simpl; [|exact H2].
  destruct H2 as [Hwf2 [Hx2 _]].
  set (fi' := map_chunks (@rev entry) (length (files_info s2) / nvols_of_shape sh) (nvols_of_shape sh) (files_info s2)).
  assert (Hwf' : wf (with_shape (with_files s2 fi') true (cached_shape s2))).
  { split; [|intros H; discriminate]. apply wf0_with_shape, wf0_reorder; [apply Hwf2|].
    split; [apply Permutation_map, rev_chunks_perm | left; apply rev_chunks_perm]. }
  split; [exact Hwf'|]. split; [|intros H; discriminate].
  apply (wfx_static s2); [exact Hx2 | repeat split|].
  unfold files. simpl. apply Permutation_map, rev_chunks_perm.
Qed.

Lemma inv_step st o : inv st -> inv (fst (step st o)).
Proof.
  intros Hinv. destruct o; simpl.
  - destruct (add_dcm st f) eqn:E; simpl; [eapply inv_add; eassumption | exact Hinv].
  - pose proof (inv_get_shape st Hinv). destruct (get_shape st); assumption.
  - pose proof (inv_get_shape st Hinv) as H. rewrite <- get_data_fst in H. destruct (get_data st); assumption.
  - pose proof (inv_get_affine st Hinv). destruct (get_affine st); assumption.
  - pose proof (inv_to_nifti st vo embed Hinv). destruct (to_nifti st vo embed); assumption.
  - unfold to_nifti_wrapper. pose proof (inv_to_nifti st vo true Hinv). destruct (to_nifti st vo true); assumption.
Qed.

Lemma inv_run h st : inv st -> inv (run st h).
Proof. revert st. induction h as [|o h IH]; intros st H; simpl; [exact H | apply IH, inv_step, H]. Qed.

(* ------------------------------------------------------------------------------------------ *)
(** * The conversion result is determined by the multiset of files *)

Lemma single_some_eq {A} (l l' : list (option A)) :
  NoDup l -> NoDup l' -> (forall x, In x l <-> In x l') -> single_some l = single_some l'.
Proof.
  intros H1 H2 Hin. pose proof (nodup_same_length l l' H1 H2 Hin) as Hlen.
  destruct l as [|a [|b l]], l' as [|a' [|b' l']]; simpl in Hlen; try discriminate; try reflexivity.
  - assert (Ha : In a [a']) by (apply Hin; left; reflexivity). destruct Ha as [<-|[]]. reflexivity.
  - destruct a, a'; reflexivity.
Qed.

(** the part of [to_nifti] after data and affine have been obtained *)
Definition nifti_flip (s : state) (sh : list nat) (vo : vorder) : bool :=
  match vo with
  | None => false
  | Some w => (1 <? length (files_info s) / nvols_of_shape sh) && Bool.eqb (ascending (files_info s)) w
  end.

Definition first_file (fi : list entry) : file := e_file (nth 0 fi dflt_entry).

Definition nifti_result (s : state) (sh : list nat) (i0 : nat) (col : option (nat * nat)) (vo : vorder) (em : bool)
  (dref : file) (dt : nat) : nifti_out :=
  let flip := nifti_flip s sh vo in
  let fi := if flip
            then map_chunks (@rev entry) (length (files_info s) / nvols_of_shape sh) (nvols_of_shape sh) (files_info s)
            else files_info s in
  mknifti (ids fi) sh flip i0 col vo em (single_some (rep_times s))
          (option_map (fun p => str_eqb p row_str) (single_some (pe_dirs s)))
          (f_id dref) dt (forallb (fun e => f_has_acq (e_file e)) fi).

Lemma to_nifti_result st vo em :
  snd (to_nifti st vo em) =
  match snd (get_data st) with
  | Err e => Err e
  | Ok (_, sh) =>
      match snd (get_affine (fst (get_data st))) with
      | Err e => Err e
      | Ok (i0, col) => Ok (nifti_result (fst (get_affine (fst (get_data st)))) sh i0 col vo em
                                         (data_ref (fst (get_data st))) (data_dtype (fst (get_data st))))
      end
  end.
Proof.
  unfold to_nifti. destruct (get_data st) as [s1 [[i sh]|e]]; [|reflexivity]. simpl.
  destruct (get_affine s1) as [s2 [[i0 col]|e]]; [|reflexivity]. simpl.
  unfold nifti_result, nifti_flip. destruct vo as [w|]; [|reflexivity].
  destruct ((1 <? length (files_info s2) / nvols_of_shape sh) && Bool.eqb (ascending (files_info s2)) w); reflexivity.
Qed.

Lemma get_shape_canon st :
  inv st ->
  snd (get_shape st) = snd (compute_shape st) /\
  (forall sh, snd (get_shape st) = Ok sh -> files_info (fst (get_shape st)) = files_info (fst (compute_shape st))).
Proof.
  intros [_ [_ Hcan]]. unfold get_shape. destruct (shape_dirty st) eqn:Hd; [split; [reflexivity | intros; reflexivity]|].
  destruct (Hcan Hd) as [sh [H1 [H2 H3]]]. rewrite H3. simpl. split; [symmetry; exact H1|].
  intros sh' _. symmetry. exact H2.
Qed.

Theorem to_nifti_det st1 st2 vo em :
  inv st1 -> inv st2 -> cfg_time st1 = cfg_time st2 -> cfg_vec st1 = cfg_vec st2 ->
  Permutation (files st1) (files st2) ->
  snd (to_nifti st1 vo em) = snd (to_nifti st2 vo em).
Proof.
  intros Hi1 Hi2 Hct Hcv Hp.
  assert (Hsame : same_stack st1 st2).
  { apply same_stack_of_files; try assumption; [apply Hi1 | apply Hi2]. }
  destruct (compute_shape_det st1 st2 (proj1 (proj1 Hi1)) (proj1 (proj1 Hi2)) Hsame) as [Hr Hf].
  destruct (get_shape_canon st1 Hi1) as [Hr1 Hf1]. destruct (get_shape_canon st2 Hi2) as [Hr2 Hf2].
  assert (Hres : snd (get_shape st1) = snd (get_shape st2)) by congruence.
  pose proof (inv_get_shape st1 Hi1) as Hs1. pose proof (inv_get_shape st2 Hi2) as Hs2.
  pose proof (get_shape_files st1 (proj1 (proj1 Hi1))) as Hpf1.
  pose proof (get_shape_files st2 (proj1 (proj1 Hi2))) as Hpf2.
  destruct (get_shape_static st1) as [Hst1 _]. destruct (get_shape_static st2) as [Hst2 _].
  rewrite !to_nifti_result. unfold get_data.
  destruct (get_shape st1) as [s1 r1] eqn:E1. destruct (get_shape st2) as [s2 r2] eqn:E2.
  simpl in *. destruct r1 as [sh|e]; rewrite <- Hres in *; [|reflexivity]. simpl.
  assert (Hfi : files_info s1 = files_info s2).
  { rewrite (Hf1 sh eq_refl), (Hf2 sh eq_refl). apply (Hf sh). congruence. }
  (* asking again returns the cached shape *)
  assert (Hag1 : get_shape s1 = (s1, Ok sh)).
  { pose proof (get_shape_again st1 sh) as H. rewrite E1 in H. apply H. reflexivity. }
  assert (Hag2 : get_shape s2 = (s2, Ok sh)).
  { pose proof (get_shape_again st2 sh) as H. rewrite E2 in H. apply H. reflexivity. }
  assert (Hcl1 : shape_dirty s1 = false /\ cached_shape s1 = Some sh).
  { pose proof (get_shape_ok_clean st1 sh) as H. rewrite E1 in H. apply H. reflexivity. }
  assert (Hcl2 : shape_dirty s2 = false /\ cached_shape s2 = Some sh).
  { pose proof (get_shape_ok_clean st2 sh) as H. rewrite E2 in H. apply H. reflexivity. }
  (* the sets read by the header code *)
  assert (Hps : Permutation (files s1) (files s2)) by (rewrite Hpf1, Hpf2; exact Hp).
  assert (Htr : single_some (rep_times s1) = single_some (rep_times s2)).
  { destruct Hs1 as [_ [X1 _]], Hs2 as [_ [X2 _]]. apply single_some_eq; [apply X1 | apply X2|].
    intros x. rewrite (x_tr_in s1 X1), (x_tr_in s2 X2).
    split; apply Permutation_in, Permutation_map; [|symmetry]; exact Hps. }
  assert (Hpe : single_some (pe_dirs s1) = single_some (pe_dirs s2)).
  { destruct Hs1 as [_ [X1 _]], Hs2 as [_ [X2 _]]. apply single_some_eq; [apply X1 | apply X2|].
    intros x. rewrite (x_pe_in s1 X1), (x_pe_in s2 X2).
    split; apply Permutation_in, Permutation_map; [|symmetry]; exact Hps. }
  unfold get_affine. rewrite Hag1, Hag2. rewrite <- Hfi. simpl.
  f_equal. unfold nifti_result, nifti_flip, data_ref, data_dtype. simpl. rewrite <- Hfi, Htr, Hpe. reflexivity.
Qed.

(* ------------------------------------------------------------------------------------------ *)
(** * Histories *)

Lemma add_dcm_files st f st' : add_dcm st f = Ok st' ->
  files st' = files st ++ [f] /\ cfg_time st' = cfg_time st /\ cfg_vec st' = cfg_vec st.
Proof.
  unfold add_dcm.
  destruct (negb (f_has_pix f)); [discriminate|].
  destruct (negb (congruent st f)); [discriminate|].
  destruct ((cfg_time st || cfg_vec st) && existsb (tuple_eqb (sorting_tuple st f)) (tuples st)); [discriminate|].
  intros H. injection H as <-. unfold files. simpl. rewrite map_app. simpl. auto.
Qed.

Lemma step_files st o : wf st ->
  match o with
  | OAdd f => True
  | _ => Permutation (files (fst (step st o))) (files st)
  end.
Proof.
  intros Hwf. destruct o; simpl; try exact I.
  - pose proof (get_shape_files st (proj1 Hwf)) as H. destruct (get_shape st); exact H.
  - pose proof (get_shape_files st (proj1 Hwf)) as H. rewrite <- get_data_fst in H. destruct (get_data st); exact H.
  - pose proof (get_affine_files st (proj1 Hwf)) as H. destruct (get_affine st); exact H.
  - pose proof (to_nifti_files st vo embed Hwf) as H. destruct (to_nifti st vo embed); exact H.
  - unfold to_nifti_wrapper. pose proof (to_nifti_files st vo true Hwf) as H. destruct (to_nifti st vo true); exact H.
Qed.

Lemma step_cfg st o : cfg_time (fst (step st o)) = cfg_time st /\ cfg_vec (fst (step st o)) = cfg_vec st.
Proof.
  destruct o; simpl.
  - destruct (add_dcm st f) eqn:E; simpl; [|auto]. destruct (add_dcm_files _ _ _ E) as [_ H]. exact H.
  - destruct (get_shape_static st) as [H1 [H2 _]]. destruct (get_shape st); simpl in *; auto.
  - destruct (get_shape_static st) as [H1 [H2 _]]. rewrite <- get_data_fst in H1, H2. destruct (get_data st); simpl in *; auto.
  - destruct (get_affine_static st) as [H1 [H2 _]]. destruct (get_affine st); simpl in *; auto.
  - destruct (to_nifti_static st vo embed) as [H1 [H2 _]]. destruct (to_nifti st vo embed); simpl in *; auto.
  - unfold to_nifti_wrapper. destruct (to_nifti_static st vo true) as [H1 [H2 _]]. destruct (to_nifti st vo true); simpl in *; auto.
Qed.

Lemma run_cfg h st : cfg_time (run st h) = cfg_time st /\ cfg_vec (run st h) = cfg_vec st.
Proof.
  revert st. induction h as [|o h IH]; intros st; simpl; [auto|].
  destruct (IH (fst (step st o))) as [A B]. destruct (step_cfg st o) as [C D]. split; congruence.
Qed.

(** the files of a stack after a history: those it had plus the accepted ones *)
Lemma run_files h st : wf st -> Permutation (files (run st h)) (files st ++ accepted st h).
Proof.
  revert st. induction h as [|o h IH]; intros st Hwf; simpl.
  - rewrite app_nil_r. reflexivity.
  - pose proof (step_wf st o Hwf) as Hwf'. pose proof (step_files st o Hwf) as Hf.
    destruct o; simpl in *;
      try (rewrite (IH _ Hwf'); apply Permutation_app_tail; exact Hf).
    destruct (add_dcm st f) as [st'|e] eqn:E; simpl in *.
    + rewrite (IH _ Hwf'). destruct (add_dcm_files _ _ _ E) as [-> _]. rewrite <- app_assoc. reflexivity.
    + apply IH, Hwf.
Qed.

Theorem C12_history_lemma ct cv h1 h2 vo em :
  Permutation (accepted (init ct cv) h1) (accepted (init ct cv) h2) ->
  snd (to_nifti (run (init ct cv) h1) vo em) = snd (to_nifti (run (init ct cv) h2) vo em).
Proof.
  intros Hp. apply to_nifti_det.
  - apply inv_run, inv_init.
  - apply inv_run, inv_init.
  - destruct (run_cfg h1 (init ct cv)) as [A _]. destruct (run_cfg h2 (init ct cv)) as [B _]. congruence.
  - destruct (run_cfg h1 (init ct cv)) as [_ A]. destruct (run_cfg h2 (init ct cv)) as [_ B]. congruence.
  - rewrite (run_files h1 _ (wf_init ct cv)), (run_files h2 _ (wf_init ct cv)). simpl. exact Hp.
Qed.

(** queries never change which files are accepted *)
Fixpoint no_adds (h : list op) : bool :=
  match h with
  | [] => true
  | OAdd _ :: _ => false
  | _ :: r => no_adds r
  end.

Lemma accepted_no_adds h st : no_adds h = true -> accepted st h = [].
Proof.
  revert st. induction h as [|o h IH]; intros st H; [reflexivity|].
  destruct o; simpl in *; try discriminate; apply IH, H.
Qed.

Lemma accepted_app h1 h2 st : accepted st (h1 ++ h2) = accepted st h1 ++ accepted (run st h1) h2.
Proof.
  revert st. induction h1 as [|o h1 IH]; intros st; [reflexivity|].
  destruct o; simpl; try apply IH.
  destruct (add_dcm st f) as [st'|e]; simpl; [f_equal|]; apply IH.
Qed.

Lemma run_app h1 h2 st : run st (h1 ++ h2) = run (run st h1) h2.
Proof. revert st. induction h1 as [|o h1 IH]; intros st; simpl; [reflexivity | apply IH]. Qed.

(** the form of the design document: the files in another order, any queries in between, against a fresh stack *)
Theorem C12_fresh_lemma ct cv fs fs' ops vo em :
  no_adds ops = true ->
  Permutation (accepted (init ct cv) (map OAdd fs)) (accepted (init ct cv) (map OAdd fs')) ->
  snd (to_nifti (run (init ct cv) (map OAdd fs' ++ ops)) vo em) =
  snd (to_nifti (run (init ct cv) (map OAdd fs)) vo em).
Proof.
  intros Hno Hp. apply C12_history_lemma.
  rewrite accepted_app, (accepted_no_adds ops _ Hno), app_nil_r. symmetry. exact Hp.
Qed.

(** an accepted order has no ties in its sort key *)
Theorem C12_no_ties_lemma st sh :
  reachable st -> snd (get_shape st) = Ok sh -> NoDup (map e_tuple (files_info (fst (get_shape st)))).
Proof.
  intros [ct [cv [h ->]]] Hok.
  assert (Hinv : inv (run (init ct cv) h)) by apply inv_run, inv_init.
  set (st := run (init ct cv) h) in *.
  destruct (get_shape_canon st Hinv) as [Hr Hf]. rewrite (Hf sh Hok).
  rewrite Hr in Hok. destruct Hinv as [[Hwf0 _] _].
  destruct (compute_shape st) as [st' r] eqn:E. simpl in *. subst r.
  pose proof (compute_shape_ok_well_typed st st' sh Hwf0 E) as Hwt.
  destruct (compute_shape_sound st st' sh Hwf0 Hwt E) as [S [T [V [_ _ _ _ _ [fi2 [-> [_ [_ [Hnd _]]]]]]]]].
  exact Hnd.
Qed.

(* ------------------------------------------------------------------------------------------ *)
(** * The data type of the array is a function of the multiset of files (fix 63f686b) *)

Lemma list_max_perm l l' : Permutation l l' -> list_max l = list_max l'.
Proof.
  intros Hp. apply Nat.le_antisymm; apply list_max_le.
  - eapply Permutation_Forall; [symmetry; exact Hp|]. apply list_max_le. lia.
  - eapply Permutation_Forall; [exact Hp|]. apply list_max_le. lia.
Qed.

Lemma join_dtypes_spec ds :
  (forall x y, In x ds -> In y ds -> x = y) /\ join_dtypes ds = hd 0 ds \/
  ~ (forall x y, In x ds -> In y ds -> x = y) /\ join_dtypes ds = 4.
Proof.
  destruct ds as [|d r]; [left; split; [intros x y [] | reflexivity]|].
  cbn [join_dtypes hd]. destruct (forallb (Nat.eqb d) r) eqn:E.
  - left. split; [|reflexivity]. rewrite forallb_forall in E.
    assert (H : forall x, In x (d :: r) -> x = d).
    { intros x [<-|Hx]; [reflexivity|]. symmetry. apply Nat.eqb_eq, E, Hx. }
    intros x y Hx Hy. rewrite (H x Hx), (H y Hy). reflexivity.
  - right. split; [|reflexivity]. intros H.
    assert (forallb (Nat.eqb d) r = true); [|congruence].
    apply forallb_forall. intros x Hx. apply Nat.eqb_eq. apply H; [left; reflexivity | right; exact Hx].
Qed.

Lemma join_dtypes_perm ds ds' : Permutation ds ds' -> join_dtypes ds = join_dtypes ds'.
Proof.
  intros Hp.
  assert (Hsame : (forall x y, In x ds -> In y ds -> x = y) <-> (forall x y, In x ds' -> In y ds' -> x = y)).
  { split; intros H x y Hx Hy; apply H; eapply Permutation_in; try eassumption; symmetry; exact Hp. }
  destruct (join_dtypes_spec ds) as [[H1 ->] | [H1 ->]], (join_dtypes_spec ds') as [[H2 ->] | [H2 ->]];
    try reflexivity; try (exfalso; tauto).
  destruct ds as [|d r].
  - apply Permutation_nil in Hp. subst. reflexivity.
  - destruct ds' as [|d' r']; [apply Permutation_sym, Permutation_nil in Hp; discriminate|].
    simpl. apply H1; [left; reflexivity|]. eapply Permutation_in; [symmetry; exact Hp | left; reflexivity].
Qed.

Theorem stack_dtype_perm fs fs' : Permutation fs fs' -> stack_dtype fs = stack_dtype fs'.
Proof.
  intros Hp. unfold stack_dtype.
  rewrite (join_dtypes_perm _ _ (Permutation_map f_dtype Hp)).
  rewrite (list_max_perm _ _ (Permutation_map f_bits Hp)). reflexivity.
Qed.

(* ------------------------------------------------------------------------------------------ *)
(** * Every query after a history, and the trace the correspondence check compares *)

(** the k-th item of [trace] is [step] applied to the state after the first k calls: what [Corr.check] compares
    with the implementation, operation by operation, is the model after the same calls *)
Lemma trace_spec h st k d :
  k < length h ->
  nth k (trace st h) d =
  let '(s, x) := step (run st (firstn k h)) (nth k h OGetShape) in (x, (ids (files_info s), shape_dirty s)).
Proof.
  revert st k. induction h as [|o h IH]; intros st k Hk; [simpl in Hk; lia|].
  destruct k as [|k].
  - simpl. destruct (step st o) as [s x]. reflexivity.
  - cbn [trace firstn run nth]. destruct (step st o) as [s x] eqn:E. cbn [nth].
    rewrite IH by (simpl in Hk; lia). change s with (fst (s, x)). rewrite <- E. reflexivity.
Qed.

Lemma get_shape_det st1 st2 :
  inv st1 -> inv st2 -> cfg_time st1 = cfg_time st2 -> cfg_vec st1 = cfg_vec st2 ->
  Permutation (files st1) (files st2) ->
  snd (get_shape st1) = snd (get_shape st2) /\
  (forall sh, snd (get_shape st1) = Ok sh ->
     files_info (fst (get_shape st1)) = files_info (fst (get_shape st2))).
Proof.
  intros Hi1 Hi2 Hct Hcv Hp.
  assert (Hsame : same_stack st1 st2).
  { apply same_stack_of_files; try assumption; [apply Hi1 | apply Hi2]. }
  destruct (compute_shape_det st1 st2 (proj1 (proj1 Hi1)) (proj1 (proj1 Hi2)) Hsame) as [Hr Hf].
  destruct (get_shape_canon st1 Hi1) as [Hr1 Hf1]. destruct (get_shape_canon st2 Hi2) as [Hr2 Hf2].
  split; [congruence|]. intros sh Hok.
  rewrite (Hf1 sh Hok). rewrite (Hf2 sh) by congruence. apply (Hf sh). congruence.
Qed.

(** shape, data (file order, shape, dtype) and affine (source file, slice column) after any two histories that
    accepted the same files *)
Theorem query_det st1 st2 o :
  inv st1 -> inv st2 -> cfg_time st1 = cfg_time st2 -> cfg_vec st1 = cfg_vec st2 ->
  Permutation (files st1) (files st2) ->
  match o with OAdd _ => True | _ => snd (step st1 o) = snd (step st2 o) end.
Proof.
  intros Hi1 Hi2 Hct Hcv Hp.
  destruct (get_shape_det st1 st2 Hi1 Hi2 Hct Hcv Hp) as [Hr Hf].
  destruct o; try exact I; cbn [step].
  - destruct (get_shape st1) as [s1 r1], (get_shape st2) as [s2 r2]. simpl in *. subst r2. reflexivity.
  - unfold get_data. destruct (get_shape st1) as [s1 r1], (get_shape st2) as [s2 r2]. simpl in *. subst r2.
    destruct r1 as [sh|e]; simpl; [|reflexivity]. unfold data_dtype. rewrite (Hf sh eq_refl). reflexivity.
  - unfold get_affine. destruct (get_shape st1) as [s1 r1], (get_shape st2) as [s2 r2]. simpl in *. subst r2.
    destruct r1 as [sh|e]; simpl; [|reflexivity]. rewrite (Hf sh eq_refl). reflexivity.
  - pose proof (to_nifti_det st1 st2 vo embed Hi1 Hi2 Hct Hcv Hp) as H.
    destruct (to_nifti st1 vo embed), (to_nifti st2 vo embed). simpl in *. subst. reflexivity.
  - unfold to_nifti_wrapper. pose proof (to_nifti_det st1 st2 vo true Hi1 Hi2 Hct Hcv Hp) as H.
    destruct (to_nifti st1 vo true), (to_nifti st2 vo true). simpl in *. subst. reflexivity.
Qed.

Theorem C12_queries_lemma ct cv h1 h2 o :
  Permutation (accepted (init ct cv) h1) (accepted (init ct cv) h2) ->
  match o with
  | OAdd _ => True
  | _ => snd (step (run (init ct cv) h1) o) = snd (step (run (init ct cv) h2) o)
  end.
Proof.
  intros Hp. apply query_det.
  - apply inv_run, inv_init.
  - apply inv_run, inv_init.
  - destruct (run_cfg h1 (init ct cv)) as [A _]. destruct (run_cfg h2 (init ct cv)) as [B _]. congruence.
  - destruct (run_cfg h1 (init ct cv)) as [_ A]. destruct (run_cfg h2 (init ct cv)) as [_ B]. congruence.
  - rewrite (run_files h1 _ (wf_init ct cv)), (run_files h2 _ (wf_init ct cv)). simpl. exact Hp.
Qed.
