(** Order facts about the numbers and sorting tuples of Stack.Model. *)
From Coq Require Import List Bool Arith Lia Permutation Sorted QArith Qcanon Qabs.
From DV Require Import Common.Str Stack.Model Stack.Sort.
Import ListNotations.
Local Open Scope nat_scope.

Lemma qc_eqb_spec (a b : Qc) : reflect (a = b) (qc_eqb a b).
Proof.
  unfold qc_eqb. destruct (Qeq_bool a b) eqn:E; constructor.
  - apply Qeq_bool_iff in E. apply Qc_is_canon, E.
  - intros ->. assert (H : Qeq_bool b b = true) by (apply Qeq_bool_iff; reflexivity). congruence.
Qed.

Lemma qc_leb_le (a b : Qc) : qc_leb a b = true <-> (a <= b)%Qc.
Proof. unfold qc_leb, Qcle. apply Qle_bool_iff. Qed.

Lemma qc_leb_order : order_ok qc_leb.
Proof.
  constructor.
  - intros a b. rewrite !qc_leb_le. unfold Qcle.
    destruct (Qlt_le_dec a b) as [H|H]; [left; apply Qlt_le_weak, H | right; exact H].
  - intros a b c. rewrite !qc_leb_le. apply Qcle_trans.
  - intros a b. rewrite !qc_leb_le. apply Qcle_antisym.
Qed.

Lemma qc_ltb_lt (a b : Qc) : qc_ltb a b = true <-> (a < b)%Qc.
Proof.
  unfold qc_ltb, Qclt. rewrite negb_true_iff. split.
  - intros H. apply Qnot_le_lt. intros Hle. apply Qle_bool_iff in Hle. congruence.
  - intros H. destruct (Qle_bool b a) eqn:E; [|reflexivity].
    apply Qle_bool_iff in E. exfalso. apply (Qlt_not_le _ _ H E).
Qed.

Lemma qc_lt_leb_neq (a b : Qc) : (a < b)%Qc <-> qc_leb a b = true /\ a <> b.
Proof.
  rewrite qc_leb_le. unfold Qclt, Qcle. split.
  - intros H. split; [apply Qlt_le_weak, H|]. intros ->. apply (Qlt_irrefl _ H).
  - intros [Hle Hne]. apply Qle_lteq in Hle. destruct Hle as [H|H]; [exact H|].
    exfalso. apply Hne. apply Qc_is_canon, H.
Qed.

Lemma oq_eqb_spec (a b : option Qc) : reflect (a = b) (oq_eqb a b).
Proof.
  destruct a as [x|], b as [y|]; simpl; try (constructor; congruence).
  destruct (qc_eqb_spec x y); constructor; congruence.
Qed.

Lemma oq_leb_order : order_ok oq_leb.
Proof.
  destruct qc_leb_order as [t r a]. constructor.
  - intros [x|] [y|]; simpl; auto.
  - intros [x|] [y|] [z|]; simpl; auto; try discriminate. apply r.
  - intros [x|] [y|]; simpl; intros H1 H2; try discriminate; try reflexivity.
    f_equal. apply a; assumption.
Qed.

Lemma tuple_eqb_spec (a b : tuple) : reflect (a = b) (tuple_eqb a b).
Proof.
  destruct a as [[va ta] pa], b as [[vb tb] pb]. unfold tuple_eqb, t_vec, t_time, t_pos; simpl.
  destruct (oq_eqb_spec va vb); simpl; [|constructor; congruence].
  destruct (oq_eqb_spec ta tb); simpl; [|constructor; congruence].
  destruct (qc_eqb_spec pa pb); constructor; congruence.
Qed.

Lemma ostr_eqb_spec (a b : option str) : reflect (a = b) (ostr_eqb a b).
Proof.
  destruct a as [x|], b as [y|]; simpl; try (constructor; congruence).
  destruct (str_eqb_spec x y); constructor; congruence.
Qed.

(** [tuple_leb] is the lexicographic product *)
Definition reassoc (t : tuple) : option Qc * (option Qc * Qc) := (t_vec t, (t_time t, t_pos t)).

Lemma tuple_leb_lex a b :
  tuple_leb a b = lex oq_eqb oq_leb (lex oq_eqb oq_leb qc_leb) (reassoc a) (reassoc b).
Proof. reflexivity. Qed.

Lemma by_key_order {A K} (f : A -> K) leb :
  (forall x y, f x = f y -> x = y) -> order_ok leb -> order_ok (by_key f leb).
Proof.
  intros Hinj [t r a]. constructor; unfold by_key; intros.
  - apply t.
  - eapply r; eassumption.
  - apply Hinj, a; assumption.
Qed.

Lemma tuple_leb_order : order_ok tuple_leb.
Proof.
  assert (H : order_ok (by_key reassoc (lex oq_eqb oq_leb (lex oq_eqb oq_leb qc_leb)))).
  { apply by_key_order.
    - intros [[v t] p] [[v' t'] p']. unfold reassoc, t_vec, t_time, t_pos; simpl. congruence.
    - apply lex_order; [apply oq_eqb_spec | apply oq_leb_order|].
      apply lex_order; [apply oq_eqb_spec | apply oq_leb_order | apply qc_leb_order]. }
  destruct H as [t r a]. constructor; intros; rewrite ?tuple_leb_lex in *.
  - apply t.
  - eapply r; eassumption.
  - apply a; assumption.
Qed.

Lemma entry_leb_by_key : entry_leb = by_key e_tuple tuple_leb.
Proof. reflexivity. Qed.

Lemma entry_pos_leb_by_key : entry_pos_leb = by_key (fun e => t_pos (e_tuple e)) qc_leb.
Proof. reflexivity. Qed.

(** strictly ascending = sorted and duplicate free *)
Lemma sorted_nodup_strict (l : list Qc) :
  StronglySorted (fun a b => qc_leb a b = true) l -> NoDup l -> StronglySorted Qclt l.
Proof.
  induction 1 as [|x l Hs IH Hall]; intros Hnd; [constructor|].
  inversion Hnd as [|? ? Hni Hnd']; subst. constructor; [apply IH, Hnd'|].
  rewrite Forall_forall in *. intros y Hy. apply qc_lt_leb_neq. split; [apply Hall, Hy|].
  intros ->. apply Hni, Hy.
Qed.

Lemma strict_sorted_leb (l : list Qc) :
  StronglySorted Qclt l -> StronglySorted (fun a b => qc_leb a b = true) l.
Proof.
  induction 1 as [|x l Hs IH Hall]; constructor; [exact IH|].
  rewrite Forall_forall in *. intros y Hy. apply qc_lt_leb_neq, Hall, Hy.
Qed.

Lemma strict_sorted_nodup (l : list Qc) : StronglySorted Qclt l -> NoDup l.
Proof.
  induction 1 as [|x l Hs IH Hall]; constructor; [|exact IH].
  rewrite Forall_forall in Hall. intros Hin. apply Hall in Hin.
  apply qc_lt_leb_neq in Hin. destruct Hin as [_ Hne]. apply Hne. reflexivity.
Qed.
