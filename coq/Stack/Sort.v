(** Generic facts about the list functions of Stack.Model: stable insertion sort, duplicate-free
    lists as sets, chunk-wise maps, nth over chunks. *)
From Coq Require Import List Bool Arith Lia Permutation Sorted.
From DV Require Import Stack.Model.
Import ListNotations.
Local Open Scope nat_scope.

(* ------------------------------------------------------------------------------------------ *)
(** * Orders given by a boolean function *)

Record order_ok {A} (leb : A -> A -> bool) : Prop := mk_order_ok {
  o_total : forall a b, leb a b = true \/ leb b a = true;
  o_trans : forall a b c, leb a b = true -> leb b c = true -> leb a c = true;
  o_antisym : forall a b, leb a b = true -> leb b a = true -> a = b
}.

Record preorder_ok {A} (leb : A -> A -> bool) : Prop := mk_preorder_ok {
  p_total : forall a b, leb a b = true \/ leb b a = true;
  p_trans : forall a b c, leb a b = true -> leb b c = true -> leb a c = true
}.

Lemma order_pre {A} (leb : A -> A -> bool) : order_ok leb -> preorder_ok leb.
Proof. intros [t r _]; constructor; assumption. Qed.

(** the order induced on [A] by a key *)
Definition by_key {A K} (f : A -> K) (leb : K -> K -> bool) (x y : A) : bool := leb (f x) (f y).

Lemma by_key_pre {A K} (f : A -> K) leb : preorder_ok leb -> preorder_ok (by_key f leb).
Proof.
  intros [t r]; constructor; unfold by_key; intros.
  - apply t.
  - eapply r; eassumption.
Qed.

(** lexicographic product, first component compared with a decidable equality *)
Definition lex {A B} (eqbA : A -> A -> bool) (lebA : A -> A -> bool) (lebB : B -> B -> bool)
           (x y : A * B) : bool :=
  if eqbA (fst x) (fst y) then lebB (snd x) (snd y) else lebA (fst x) (fst y).

Lemma lex_order {A B} (eqbA : A -> A -> bool) lebA (lebB : B -> B -> bool) :
  (forall a b, reflect (a = b) (eqbA a b)) ->
  order_ok lebA -> order_ok lebB -> order_ok (lex eqbA lebA lebB).
Proof.
  intros Heq [tA rA aA] [tB rB aB]. constructor; unfold lex.
  - intros [a b] [a' b']; simpl.
    destruct (Heq a a') as [->|Hn].
    + destruct (Heq a' a') as [_|Hc]; [apply tB | congruence].
    + destruct (Heq a' a) as [Hc|_]; [congruence | apply tA].
  - intros [a b] [a' b'] [a'' b'']; simpl.
    destruct (Heq a a') as [->|Hn]; destruct (Heq a' a'') as [->|Hn'].
    + destruct (Heq a'' a'') as [_|Hc]; [apply rB | congruence].
    + destruct (Heq a' a'') as [Hc|_]; [congruence | intros _ H; exact H].
    + destruct (Heq a a'') as [Hc|_]; [congruence | intros H _; exact H].
    + intros H1 H2. destruct (Heq a a'') as [->|_].
      * exfalso. apply Hn. apply aA; assumption.
      * eapply rA; eassumption.
  - intros [a b] [a' b']; simpl.
    destruct (Heq a a') as [->|Hn].
    + destruct (Heq a' a') as [_|Hc]; [|congruence]. intros H1 H2. f_equal. apply aB; assumption.
    + destruct (Heq a' a) as [Hc|_]; [congruence|]. intros H1 H2. exfalso. apply Hn. apply aA; assumption.
Qed.

(* ------------------------------------------------------------------------------------------ *)
(** * Stable insertion sort *)

Section SortFacts.
  Context {A : Type} (leb : A -> A -> bool).
  Let le (a b : A) : Prop := leb a b = true.

  Lemma sinsert_perm x l : Permutation (sinsert leb x l) (x :: l).
  Proof.
    induction l as [|y ys IH]; simpl; [reflexivity|].
    destruct (leb x y); [reflexivity|].
    rewrite IH. apply perm_swap.
  Qed.

  Lemma ssort_perm l : Permutation (ssort leb l) l.
  Proof.
    induction l as [|x xs IH]; simpl; [reflexivity|].
    unfold ssort in *. simpl. rewrite sinsert_perm. constructor. exact IH.
  Qed.

  Lemma ssort_length l : length (ssort leb l) = length l.
  Proof. apply Permutation_length, ssort_perm. Qed.

  Lemma ssort_in x l : In x (ssort leb l) <-> In x l.
  Proof. split; apply Permutation_in; [|symmetry]; apply ssort_perm. Qed.

  Hypothesis Hpre : preorder_ok leb.

  Lemma sinsert_sorted x l : StronglySorted le l -> StronglySorted le (sinsert leb x l).
  Proof.
    destruct Hpre as [tot trans].
    induction l as [|y ys IH]; simpl; intros Hs.
    - constructor; constructor.
    - inversion Hs as [|? ? Hs' Hall]; subst.
      destruct (leb x y) eqn:Hxy.
      + constructor; [exact Hs|]. constructor; [exact Hxy|].
        rewrite Forall_forall in *. intros z Hz. eapply trans; [exact Hxy | apply Hall, Hz].
      + constructor; [apply IH, Hs'|].
        rewrite Forall_forall in *. intros z Hz.
        apply (Permutation_in _ (sinsert_perm x ys)) in Hz. destruct Hz as [<-|Hz].
        * destruct (tot x y) as [H|H]; [congruence | exact H].
        * apply Hall, Hz.
  Qed.

  Lemma ssort_sorted l : StronglySorted le (ssort leb l).
  Proof.
    induction l as [|x xs IH]; [constructor|].
    unfold ssort in *; simpl. apply sinsert_sorted, IH.
  Qed.

  (** inserting into a sorted list in front of which it belongs *)
  Lemma sinsert_head x l : Forall (le x) l -> sinsert leb x l = x :: l.
  Proof.
    destruct l as [|y ys]; simpl; [reflexivity|].
    intros H. inversion H; subst. unfold le in *. rewrite H2. reflexivity.
  Qed.

  Lemma ssort_sorted_id l : StronglySorted le l -> ssort leb l = l.
  Proof.
    induction 1 as [|x l Hs IH Hall]; [reflexivity|].
    unfold ssort in *; simpl. rewrite IH. apply sinsert_head, Hall.
  Qed.
End SortFacts.

(** two sorted permutations of each other coincide when no two distinct elements are equivalent *)
Lemma sorted_perm_eq {A} (R : A -> A -> Prop) (l1 l2 : list A) :
  StronglySorted R l1 -> StronglySorted R l2 -> Permutation l1 l2 ->
  (forall x y, In x l1 -> In y l1 -> R x y -> R y x -> x = y) ->
  (forall x, In x l1 -> R x x) ->
  l1 = l2.
Proof.
  revert l2. induction l1 as [|a t1 IH]; intros l2 H1 H2 Hp Hanti Hrefl.
  - apply Permutation_nil in Hp. congruence.
  - destruct l2 as [|b t2]; [apply Permutation_sym, Permutation_nil in Hp; discriminate|].
    inversion H1 as [|? ? H1' Ha]; subst. inversion H2 as [|? ? H2' Hb]; subst.
    assert (Hab : a = b).
    { assert (Hin_a : In a (b :: t2)) by (eapply Permutation_in; [exact Hp | left; reflexivity]).
      assert (Hin_b : In b (a :: t1)) by (eapply Permutation_in; [symmetry; exact Hp | left; reflexivity]).
      destruct Hin_a as [->|Hin_a]; [reflexivity|].
      destruct Hin_b as [->|Hin_b]; [reflexivity|].
      rewrite Forall_forall in Ha, Hb.
      apply Hanti; [left; reflexivity | right; exact Hin_b | apply Ha, Hin_b | apply Hb, Hin_a]. }
    subst b. f_equal. apply IH; try assumption.
    + eapply Permutation_cons_inv; exact Hp.
    + intros x y Hx Hy. apply Hanti; right; assumption.
    + intros x Hx. apply Hrefl; right; exact Hx.
Qed.

Lemma NoDup_map_inj {A B} (f : A -> B) (l : list A) x y :
  NoDup (map f l) -> In x l -> In y l -> f x = f y -> x = y.
Proof.
  induction l as [|a t IH]; simpl; [tauto|].
  intros Hnd Hx Hy Hf. inversion Hnd as [|? ? Hni Hnd']; subst.
  destruct Hx as [->|Hx], Hy as [->|Hy]; try reflexivity.
  - exfalso. apply Hni. rewrite Hf. apply in_map, Hy.
  - exfalso. apply Hni. rewrite <- Hf. apply in_map, Hx.
  - apply IH; assumption.
Qed.

(** sorting by a key without ties does not depend on the initial order *)
Lemma ssort_key_unique {A K} (f : A -> K) (leb : K -> K -> bool) (l l' : list A) :
  order_ok leb -> NoDup (map f l) -> Permutation l l' ->
  ssort (by_key f leb) l = ssort (by_key f leb) l'.
Proof.
  intros Ho Hnd Hp.
  assert (Hpre : preorder_ok (by_key f leb)) by (apply by_key_pre, order_pre, Ho).
  apply sorted_perm_eq with (R := fun a b => by_key f leb a b = true).
  - apply ssort_sorted, Hpre.
  - apply ssort_sorted, Hpre.
  - rewrite !ssort_perm. exact Hp.
  - intros x y Hx Hy Hxy Hyx. rewrite ssort_in in Hx, Hy.
    apply (NoDup_map_inj f l); try assumption.
    destruct Ho as [_ _ anti]. apply anti; assumption.
  - intros x _. destruct Hpre as [tot _]. destruct (tot x x); assumption.
Qed.

Lemma ssort_unique {A} (leb : A -> A -> bool) (l l' : list A) :
  order_ok leb -> Permutation l l' -> ssort leb l = ssort leb l'.
Proof.
  intros Ho Hp.
  assert (Hpre : preorder_ok leb) by (apply order_pre, Ho).
  apply sorted_perm_eq with (R := fun a b => leb a b = true).
  - apply ssort_sorted, Hpre.
  - apply ssort_sorted, Hpre.
  - rewrite !ssort_perm. exact Hp.
  - intros x y _ _. destruct Ho as [_ _ anti]. apply anti.
  - intros x _. destruct Hpre as [tot _]. destruct (tot x x); assumption.
Qed.

Lemma sorted_unique {A} (leb : A -> A -> bool) (l l' : list A) :
  order_ok leb -> StronglySorted (fun a b => leb a b = true) l -> Permutation l' l -> ssort leb l' = l.
Proof.
  intros Ho Hs Hp. rewrite (ssort_unique leb l' l Ho Hp).
  apply ssort_sorted_id, Hs.
Qed.

(** sorting commutes with taking keys *)
Lemma sinsert_map {A K} (f : A -> K) leb x l :
  map f (sinsert (by_key f leb) x l) = sinsert leb (f x) (map f l).
Proof.
  induction l as [|y ys IH]; simpl; [reflexivity|].
  unfold by_key at 1. destruct (leb (f x) (f y)); simpl; [reflexivity|]. rewrite IH. reflexivity.
Qed.

Lemma ssort_map {A K} (f : A -> K) leb l :
  map f (ssort (by_key f leb) l) = ssort leb (map f l).
Proof.
  induction l as [|x xs IH]; [reflexivity|].
  unfold ssort in *; simpl. rewrite sinsert_map, IH. reflexivity.
Qed.

(* ------------------------------------------------------------------------------------------ *)
(** * Duplicate-free lists as sets *)

Section SetFacts.
  Context {A : Type} (eqb : A -> A -> bool).
  Hypothesis eqb_spec : forall a b, reflect (a = b) (eqb a b).

  Lemma existsb_eqb_in x l : existsb (eqb x) l = true <-> In x l.
  Proof.
    rewrite existsb_exists. split.
    - intros [y [Hy He]]. destruct (eqb_spec x y); [subst; exact Hy | discriminate].
    - intros H. exists x. split; [exact H|]. destruct (eqb_spec x x); congruence.
  Qed.

  Lemma existsb_eqb_nin x l : existsb (eqb x) l = false <-> ~ In x l.
  Proof.
    rewrite <- existsb_eqb_in. destruct (existsb (eqb x) l); split; congruence.
  Qed.

  Lemma set_add_in x y l : In y (set_add eqb x l) <-> y = x \/ In y l.
  Proof.
    unfold set_add. destruct (existsb (eqb x) l) eqn:E.
    - apply existsb_eqb_in in E. split; [tauto|]. intros [->|H]; assumption.
    - rewrite in_app_iff. simpl. split; [intros [H|[H|[]]]; auto | intros [H|H]; auto].
  Qed.

  Lemma set_add_nodup x l : NoDup l -> NoDup (set_add eqb x l).
  Proof.
    unfold set_add. intros H. destruct (existsb (eqb x) l) eqn:E; [exact H|].
    apply existsb_eqb_nin in E.
    apply NoDup_rev in H. rewrite <- (rev_involutive (l ++ [x])). apply NoDup_rev.
    rewrite rev_app_distr. simpl. constructor; [rewrite <- in_rev; exact E | exact H].
  Qed.

  Lemma dedup_in x l : In x (dedup eqb l) <-> In x l.
  Proof.
    induction l as [|y ys IH]; simpl; [tauto|].
    destruct (existsb (eqb y) (dedup eqb ys)) eqn:E.
    - apply existsb_eqb_in in E. split.
      + intros H. right. apply IH, H.
      + intros [<-|H]; [exact E | apply IH, H].
    - simpl. rewrite IH. tauto.
  Qed.

  Lemma dedup_nodup l : NoDup (dedup eqb l).
  Proof.
    induction l as [|y ys IH]; simpl; [constructor|].
    destruct (existsb (eqb y) (dedup eqb ys)) eqn:E; [exact IH|].
    apply existsb_eqb_nin in E. constructor; assumption.
  Qed.

  Lemma dedup_length_perm l l' : Permutation l l' -> length (dedup eqb l) = length (dedup eqb l').
  Proof.
    intros Hp. apply Permutation_length. apply NoDup_Permutation; try apply dedup_nodup.
    intros x. rewrite !dedup_in. split; apply Permutation_in; [|symmetry]; exact Hp.
  Qed.

  Lemma has_dup_false l : has_dup eqb l = false <-> NoDup l.
  Proof.
    induction l as [|x xs IH]; simpl.
    - split; [constructor | reflexivity].
    - rewrite orb_false_iff, IH, existsb_eqb_nin. split.
      + intros [H1 H2]. constructor; assumption.
      + intros H. inversion H; subst. split; assumption.
  Qed.

  Lemma has_dup_perm l l' : Permutation l l' -> has_dup eqb l = has_dup eqb l'.
  Proof.
    intros Hp. destruct (has_dup eqb l) eqn:E1, (has_dup eqb l') eqn:E2; try reflexivity.
    - apply has_dup_false in E2. apply Permutation_sym in Hp.
      apply (Permutation_NoDup Hp) in E2. apply has_dup_false in E2. congruence.
    - apply has_dup_false in E1. apply (Permutation_NoDup Hp) in E1. apply has_dup_false in E1. congruence.
  Qed.
End SetFacts.

(** two duplicate-free lists with the same elements *)
Lemma nodup_same_length {A} (l l' : list A) :
  NoDup l -> NoDup l' -> (forall x, In x l <-> In x l') -> length l = length l'.
Proof. intros H1 H2 H. apply Permutation_length, NoDup_Permutation; assumption. Qed.

(* ------------------------------------------------------------------------------------------ *)
(** * firstn / skipn / nth, chunks *)

Lemma nth_firstn_lt {A} (l : list A) k j d : j < k -> nth j (firstn k l) d = nth j l d.
Proof.
  revert k j. induction l as [|x xs IH]; intros k j Hj.
  - rewrite firstn_nil. reflexivity.
  - destruct k as [|k]; [lia|]. destruct j as [|j]; simpl; [reflexivity|]. apply IH. lia.
Qed.

Lemma nth_skipn_add {A} (l : list A) m j d : nth j (skipn m l) d = nth (m + j) l d.
Proof.
  revert l. induction m as [|m IH]; intros l; [reflexivity|].
  destruct l as [|x xs]; simpl; [destruct j; reflexivity | apply IH].
Qed.

(** the [i]-th chunk of width [k] *)
Definition chunk {A} (k i : nat) (l : list A) : list A := firstn k (skipn (i * k) l).

Lemma nth_chunk {A} (l : list A) k i j d : j < k -> nth j (chunk k i l) d = nth (i * k + j) l d.
Proof. intros Hj. unfold chunk. rewrite nth_firstn_lt by exact Hj. apply nth_skipn_add. Qed.

Lemma chunk_length {A} (l : list A) k i : (i + 1) * k <= length l -> length (chunk k i l) = k.
Proof. intros H. unfold chunk. rewrite firstn_length, skipn_length. nia. Qed.

Lemma chunk_0_app {A} (a b : list A) k : length a = k -> chunk k 0 (a ++ b) = a.
Proof.
  intros H. unfold chunk. simpl. rewrite firstn_app, H, Nat.sub_diag. simpl.
  rewrite app_nil_r. rewrite <- H. apply firstn_all.
Qed.

Lemma chunk_S_app {A} (a b : list A) k i : length a = k -> chunk k (S i) (a ++ b) = chunk k i b.
Proof.
  intros H. unfold chunk. f_equal. simpl.
  rewrite skipn_app, H.
  replace (k + i * k - k) with (i * k) by lia.
  rewrite (skipn_all2 a) by lia. reflexivity.
Qed.

Lemma skipn_skipn_add {A} (l : list A) a b : skipn a (skipn b l) = skipn (b + a) l.
Proof.
  revert l. induction b as [|b IH]; intros l; [reflexivity|].
  destruct l as [|x xs]; simpl; [apply skipn_nil | apply IH].
Qed.

Lemma chunk_skipn {A} (l : list A) k i : chunk k i (skipn k l) = chunk k (S i) l.
Proof. unfold chunk. rewrite skipn_skipn_add. reflexivity. Qed.

Section Chunks.
  Context {A : Type} (f : list A -> list A).

  Lemma map_chunks_length k nv l :
    (forall c, length (f c) = length c) -> length (map_chunks f k nv l) = length l.
  Proof.
    intros Hf. revert l. induction nv as [|nv IH]; intros l; simpl; [reflexivity|].
    rewrite app_length, Hf, IH, firstn_length, skipn_length. lia.
  Qed.

  Lemma map_chunks_perm k nv l :
    (forall c, Permutation (f c) c) -> Permutation (map_chunks f k nv l) l.
  Proof.
    intros Hf. revert l. induction nv as [|nv IH]; intros l; simpl; [reflexivity|].
    rewrite Hf, IH. rewrite firstn_skipn. reflexivity.
  Qed.

  Lemma map_chunks_chunk k nv l i :
    (forall c, length (f c) = length c) -> nv * k <= length l -> i < nv ->
    chunk k i (map_chunks f k nv l) = f (chunk k i l).
  Proof.
    intros Hf. revert l i. induction nv as [|nv IH]; intros l i Hlen Hi; [lia|].
    simpl. assert (Hfl : length (f (firstn k l)) = k).
    { rewrite Hf, firstn_length. simpl in Hlen. lia. }
    destruct i as [|i].
    - rewrite chunk_0_app by exact Hfl. unfold chunk. reflexivity.
    - rewrite chunk_S_app by exact Hfl. rewrite IH.
      + rewrite chunk_skipn. reflexivity.
      + rewrite skipn_length. simpl in Hlen. lia.
      + lia.
  Qed.

  Lemma map_chunks_id k nv l : (forall c, length c <= k -> f c = c) -> map_chunks f k nv l = l.
  Proof.
    intros Hf. revert l. induction nv as [|nv IH]; intros l; simpl; [reflexivity|].
    rewrite Hf, IH; [apply firstn_skipn|]. rewrite firstn_length. lia.
  Qed.
End Chunks.

Lemma in_firstn {A} (l : list A) k x : In x (firstn k l) -> In x l.
Proof.
  revert l. induction k as [|k IH]; intros l H; [destruct H|].
  destruct l as [|y ys]; [destruct H|]. destruct H as [->|H]; [left; reflexivity | right; apply IH, H].
Qed.

Lemma in_skipn {A} (l : list A) m x : In x (skipn m l) -> In x l.
Proof.
  revert l. induction m as [|m IH]; intros l H; [exact H|].
  destruct l as [|y ys]; [destruct H|]. right. apply IH. exact H.
Qed.

Lemma chunk_in {A} (l : list A) k i x : In x (chunk k i l) -> In x l.
Proof. unfold chunk. intros H. apply in_firstn in H. apply in_skipn in H. exact H. Qed.

(** a list is determined by its elements *)
Lemma nth_ext_eq {A} (l l' : list A) d :
  length l = length l' -> (forall i, i < length l -> nth i l d = nth i l' d) -> l = l'.
Proof. intros Hl H. apply (nth_ext l l' d d Hl). exact H. Qed.

Lemma ssort_singleton {A} (leb : A -> A -> bool) c : length c <= 1 -> ssort leb c = c.
Proof. destruct c as [|x [|y ys]]; simpl; intros H; try reflexivity; lia. Qed.

Lemma forallb_seq (p : nat -> bool) n : forallb p (seq 0 n) = true <-> forall i, i < n -> p i = true.
Proof.
  rewrite forallb_forall. split.
  - intros H i Hi. apply H. apply in_seq. lia.
  - intros H i Hi. apply in_seq in Hi. apply H. lia.
Qed.
