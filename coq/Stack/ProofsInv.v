(** The invariant of reachable stacks and its preservation by every operation. *)
From Coq Require Import List Bool Arith Lia Permutation Sorted QArith Qcanon Qabs.
From DV Require Import Common.Res Common.Str Generated.T_stack
  Stack.Model Stack.Sort Stack.Order Stack.Spec Stack.ProofsOrder Stack.ProofsShape.
Import ListNotations.
Local Open Scope nat_scope.

(* ------------------------------------------------------------------------------------------ *)
(** * Comparability is a property of the multiset *)

Lemma all_comparable_spec ts :
  all_comparable ts = true <-> forall a b, In a ts -> In b ts -> comparable a b = true.
Proof.
  unfold all_comparable. rewrite forallb_forall. split.
  - intros H a b Ha Hb. specialize (H a Ha). rewrite forallb_forall in H. apply H, Hb.
  - intros H a Ha. apply forallb_forall. intros b Hb. apply H; assumption.
Qed.

Lemma all_comparable_perm ts ts' : Permutation ts ts' -> all_comparable ts = all_comparable ts'.
Proof.
  intros Hp.
  assert (Himp : forall l l', Permutation l l' -> all_comparable l = true -> all_comparable l' = true).
  { intros l l' Hpl H. rewrite all_comparable_spec in *. intros a b Ha Hb.
    apply H; eapply Permutation_in; try eassumption; symmetry; exact Hpl. }
  destruct (all_comparable ts) eqn:E1, (all_comparable ts') eqn:E2; try reflexivity.
  - rewrite (Himp _ _ Hp E1) in E2. discriminate.
  - symmetry in Hp. rewrite (Himp _ _ Hp E2) in E1. discriminate.
Qed.

Lemma well_typed_fresh st : explicit st = false -> well_typed st.
Proof.
  intros He. unfold well_typed. unfold explicit in He. apply orb_false_iff in He. destruct He as [-> ->].
  apply all_comparable_base_fresh.
Qed.

(* ------------------------------------------------------------------------------------------ *)
(** * What a shape computation does to the file list, without any typing assumption *)

Lemma chk_order_perm fi P S nvol T V : Permutation (fst (chk_order fi P S nvol T V)) fi.
Proof.
  unfold chk_order. destruct (negb (all_comparable (map e_tuple fi))); simpl; [reflexivity | apply arrange_perm].
Qed.

Lemma chk_order_ok_comparable fi P S nvol T V :
  snd (chk_order fi P S nvol T V) = Ok tt -> all_comparable (map e_tuple fi) = true.
Proof.
  unfold chk_order. destruct (all_comparable (map e_tuple fi)); simpl; [reflexivity | discriminate].
Qed.

(** relation between the file list before and after a (successful or failed) shape computation *)
Definition reordered (st : state) (fi2 : list entry) : Prop :=
  Permutation (map strip fi2) (map strip (files_info st)) /\
  (Permutation fi2 (files_info st) \/
   (explicit st = false /\ length (pos_vals st) < length (files_info st))).

Lemma compute_shape_reorder st st' r :
  wf0 st -> compute_shape st = (st', r) ->
  exists fi2, reordered st fi2 /\
    (st' = with_files st fi2 \/ exists sh, st' = with_shape (with_files st fi2) false (Some sh) /\ r = Ok sh).
Proof.
  intros Hwf. unfold compute_shape.
  destruct (grid_dims (length (files_info st)) (length (pos_vals st)) (length (vec_vals st))
                      (ssort qc_leb (pos_vals st))) as [[nvol T]|e0] eqn:Hd.
  - apply grid_dims_ok in Hd. destruct Hd as [HS [HV [HT [Hn [-> Hsp]]]]].
    destruct (pos_sorted st Hwf) as [HPs [HPin HPl]]. cbv zeta in *.
    assert (Hre : reordered st (fst (order_files st (ssort qc_leb (pos_vals st)) (length (pos_vals st))
                                      (length (vec_vals st) * T) T (length (vec_vals st))))).
    { unfold order_files.
      destruct ((1 <? length (vec_vals st) * T) && negb (cfg_time st) && negb (cfg_vec st)) eqn:Hg.
      - apply andb_true_iff in Hg. destruct Hg as [Hg Hcv]. apply andb_true_iff in Hg. destruct Hg as [Hnv Hct].
        apply negb_true_iff in Hct, Hcv. apply Nat.ltb_lt in Hnv.
        assert (Hex : explicit st = false) by (unfold explicit; rewrite Hct, Hcv; reflexivity).
        assert (Hright : explicit st = false /\ length (pos_vals st) < length (files_info st)) by (split; [exact Hex | nia]).
        set (fi := files_info st) in *.
        set (cands := filter (guess_candidate fi (length (vec_vals st) * T) (length fi)) sort_guesses).
        destruct cands as [|k0 ks0] eqn:Ec; [split; [reflexivity | right; exact Hright]|].
        rewrite <- Ec.
        assert (Hmeta : forall k x, In k cands -> In x (map strip fi) -> get_meta (fst (fst x)) k <> None).
        { intros k x Hk Hx. apply filter_In in Hk. destruct Hk as [_ Hk].
          apply guess_candidate_spec in Hk. destruct Hk as [Hk _].
          apply in_map_iff in Hx. destruct Hx as [e [<- He]]. apply Hk, He. }
        assert (Hvec : forall x, In x (map strip fi) -> snd (fst x) = None).
        { intros x Hx. apply in_map_iff in Hx. destruct Hx as [e [<- He]]. apply (vec_none st Hwf e Hex He). }
        pose proof (try_orders_spec _ _ T _ HS HT HPl HPs cands fi Hmeta Hvec Hn) as Hspec.
        destruct (try_orders cands fi (ssort qc_leb (pos_vals st)) (length (pos_vals st))
                             (length (vec_vals st) * T) T (length (vec_vals st))) as [fi2 r2].
        destruct Hspec as [H1 _]. split; [exact H1 | right; exact Hright].
      - split; [apply Permutation_map, chk_order_perm | left; apply chk_order_perm]. }
    destruct (order_files st (ssort qc_leb (pos_vals st)) (length (pos_vals st)) (length (vec_vals st) * T) T
                          (length (vec_vals st))) as [fi2 r2].
    simpl in Hre. destruct r2 as [[]|e1]; intros H; injection H as <- <-; exists fi2; (split; [exact Hre|]).
    + right. eexists. split; reflexivity.
    + left. reflexivity.
  - intros H. injection H as <- <-. exists (files_info st). split.
    + split; [reflexivity | left; reflexivity].
    + left. destruct st; reflexivity.
Qed.

(** a successful computation implies there was no TypeError to begin with *)
Lemma compute_shape_ok_well_typed st st' sh :
  wf0 st -> compute_shape st = (st', Ok sh) -> well_typed st.
Proof.
  intros Hwf. destruct (explicit st) eqn:Hex; [|intros _; apply well_typed_fresh, Hex].
  unfold compute_shape.
  destruct (grid_dims _ _ _ _) as [[nvol T]|e0]; [|discriminate].
  unfold order_files.
  assert (Hflag : (1 <? nvol) && negb (cfg_time st) && negb (cfg_vec st) = false).
  { unfold explicit in Hex. apply orb_true_iff in Hex. destruct Hex as [-> | ->]; simpl;
      rewrite ?andb_false_r; reflexivity. }
  rewrite Hflag.
  destruct (chk_order (files_info st) _ _ nvol T _) as [fi2 r] eqn:E.
  destruct r as [[]|e]; [|discriminate]. intros _.
  unfold well_typed. rewrite <- (explicit_tuples st Hwf Hex).
  eapply chk_order_ok_comparable. rewrite E. reflexivity.
Qed.

(* ------------------------------------------------------------------------------------------ *)
(** * Preservation of wf0 *)

Lemma wf0_init ct cv : wf0 (init ct cv).
Proof.
  constructor; simpl.
  - constructor.
  - intros p. tauto.
  - constructor.
  - intros v. tauto.
  - intros e [].
  - intros _ t. tauto.
  - intros _. constructor.
  - intros _ [e [[] _]].
  - intros e r [].
  - intros H. congruence.
Qed.

Lemma NoDup_snoc {A} (l : list A) x : NoDup l -> ~ In x l -> NoDup (l ++ [x]).
Proof.
  intros Hnd Hni. apply NoDup_rev in Hnd. rewrite <- (rev_involutive (l ++ [x])). apply NoDup_rev.
  rewrite rev_app_distr. simpl. constructor; [rewrite <- in_rev; exact Hni | exact Hnd].
Qed.

Lemma set_add_length {A} (eqb : A -> A -> bool) x l : length (set_add eqb x l) <= length l + 1.
Proof. unfold set_add. destruct (existsb (eqb x) l); [lia | rewrite app_length; simpl; lia]. Qed.

Lemma strip_in_perm fi fi2 e2 :
  Permutation (map strip fi2) (map strip fi) -> In e2 fi2 -> exists e, In e fi /\ strip e = strip e2.
Proof.
  intros Hp H2. assert (H : In (strip e2) (map strip fi)).
  { eapply Permutation_in; [exact Hp | apply in_map, H2]. }
  apply in_map_iff in H. destruct H as [e [He Hin]]. exists e. split; assumption.
Qed.

Lemma wf0_reorder st fi2 : wf0 st -> reordered st fi2 -> wf0 (with_files st fi2).
Proof.
  intros Hwf [Hp Hcase].
  assert (Hlen : length fi2 = length (files_info st)).
  { apply Permutation_length in Hp. rewrite !map_length in Hp. exact Hp. }
  assert (Hpos : Permutation (pos_of fi2) (pos_of (files_info st))).
  { unfold pos_of. apply (Permutation_map (fun x : file * option Qc * Qc => snd x)) in Hp.
    rewrite !map_map in Hp. exact Hp. }
  assert (Hvec : Permutation (vec_of fi2) (vec_of (files_info st))).
  { unfold vec_of. apply (Permutation_map (fun x : file * option Qc * Qc => snd (fst x))) in Hp.
    rewrite !map_map in Hp. exact Hp. }
  assert (Hexp : explicit st = true -> Permutation fi2 (files_info st)).
  { intros He. destruct Hcase as [H|[H _]]; [exact H | congruence]. }
  constructor; simpl.
  - apply (w_pos_nd st Hwf).
  - intros p. rewrite (w_pos_in st Hwf). split; apply Permutation_in; [symmetry|]; exact Hpos.
  - apply (w_vec_nd st Hwf).
  - intros v. rewrite (w_vec_in st Hwf). split; apply Permutation_in; [symmetry|]; exact Hvec.
  - intros e2 H2. destruct (strip_in_perm _ _ _ Hp H2) as [e [He Hs]].
    destruct (w_entry st Hwf e He) as [H1 [H2' H3]].
    unfold strip in Hs. injection Hs as Hf Hv Hpp.
    split; [congruence|]. split; [congruence|].
    intros Hex. change (explicit st = true) in Hex.
    assert (Hin : In e2 (files_info st)) by (eapply Permutation_in; [apply Hexp, Hex | exact H2]).
    apply (w_entry st Hwf e2 Hin). exact Hex.
  - intros Hex t. change (explicit st = true) in Hex. rewrite (w_tuples_in st Hwf Hex).
    specialize (Hexp Hex). apply (Permutation_map e_tuple) in Hexp.
    split; apply Permutation_in; [symmetry|]; exact Hexp.
  - intros Hex. change (explicit st = true) in Hex.
    eapply Permutation_NoDup; [symmetry; apply Permutation_map, Hexp, Hex | apply (w_tuples_nd st Hwf Hex)].
  - intros Hex [e2 [H2 Hst]]. change (explicit st = false) in Hex. rewrite Hlen.
    destruct Hcase as [Hperm | [_ Hlt]]; [|exact Hlt].
    apply (w_stale st Hwf Hex). exists e2. split; [eapply Permutation_in; eassumption | exact Hst].
  - intros e2 r H2 Hr. destruct (strip_in_perm _ _ _ Hp H2) as [e [He Hs]].
    unfold strip in Hs. injection Hs as Hf _ _. unfold e_file in *. rewrite <- Hf.
    apply (w_congr st Hwf e r He Hr).
  - intros Hne. apply (w_ref st Hwf). intros E. rewrite E in Hlen. destruct fi2; [congruence | discriminate].
Qed.

Lemma wf0_with_shape st d sh : wf0 st -> wf0 (with_shape st d sh).
Proof. intros [H1 H2 H3 H4 H5 H6 H7 H8 H9 H10]. constructor; assumption. Qed.

Lemma wf0_add st f st' : wf0 st -> add_dcm st f = Ok st' -> wf0 st'.
Proof.
  intros Hwf. unfold add_dcm.
  destruct (negb (f_has_pix f)); [discriminate|].
  destruct (congruent st f) eqn:Hcong; [|discriminate]. simpl negb. cbv iota.
  destruct ((cfg_time st || cfg_vec st) && existsb (tuple_eqb (sorting_tuple st f)) (tuples st)) eqn:Hcol; [discriminate|].
  intros H. injection H as <-.
  set (tp := sorting_tuple st f) in *.
  constructor; simpl.
  - apply set_add_nodup; [apply qc_eqb_spec | apply (w_pos_nd st Hwf)].
  - intros p. rewrite (set_add_in qc_eqb qc_eqb_spec). unfold pos_of. rewrite map_app, in_app_iff. simpl.
    fold (pos_of (files_info st)). rewrite (w_pos_in st Hwf). intuition congruence.
  - apply set_add_nodup; [apply oq_eqb_spec | apply (w_vec_nd st Hwf)].
  - intros v. rewrite (set_add_in oq_eqb oq_eqb_spec). unfold vec_of. rewrite map_app, in_app_iff. simpl.
    fold (vec_of (files_info st)). rewrite (w_vec_in st Hwf). intuition congruence.
  - intros e He. apply in_app_iff in He. destruct He as [He | [<- | []]].
    + apply (w_entry st Hwf e He).
    + subst tp. unfold sorting_tuple, base_tuple. simpl. auto.
  - intros Hex t. change (explicit st = true) in Hex.
    rewrite (set_add_in tuple_eqb tuple_eqb_spec), map_app, in_app_iff. simpl.
    rewrite (w_tuples_in st Hwf Hex). intuition congruence.
  - intros Hex. change (explicit st = true) in Hex. rewrite map_app. simpl.
    apply NoDup_snoc; [apply (w_tuples_nd st Hwf Hex)|].
    unfold explicit in Hex. rewrite Hex in Hcol. simpl in Hcol.
    apply (existsb_eqb_nin tuple_eqb tuple_eqb_spec) in Hcol.
    rewrite <- (w_tuples_in st Hwf Hex). exact Hcol.
  - intros Hex [e [He Hst]]. change (explicit st = false) in Hex.
    rewrite app_length. cbn [length].
    match goal with |- length (set_add qc_eqb ?x _) < _ => pose proof (set_add_length qc_eqb x (pos_vals st)) as Hl end.
    apply in_app_iff in He. destruct He as [He | [<- | []]].
    + assert (Hlt : length (pos_vals st) < length (files_info st)); [|lia].
      apply (w_stale st Hwf Hex). exists e. split; assumption.
    + exfalso. apply Hst. subst tp. unfold sorting_tuple, base_tuple, t_time. simpl.
      unfold explicit in Hex. apply orb_false_iff in Hex. destruct Hex as [-> _]. reflexivity.
  - intros e r He Hr. apply in_app_iff in He.
    destruct (ref_input st) as [r0|] eqn:Eref.
    + injection Hr as <-. destruct He as [He | [<- | []]].
      * apply (w_congr st Hwf e r0 He Eref).
      * unfold congruent in Hcong. rewrite Eref in Hcong. unfold congruent_with in Hcong.
        apply andb_true_iff in Hcong. destruct Hcong as [Hcong Hc].
        apply andb_true_iff in Hcong. destruct Hcong as [_ Hr].
        apply Nat.eqb_eq in Hc, Hr. simpl. split; assumption.
    + injection Hr as <-.
      assert (Hnil : files_info st = []).
      { destruct (files_info st) eqn:E; [reflexivity|]. exfalso.
        apply (w_ref st Hwf); [rewrite E; discriminate | exact Eref]. }
      rewrite Hnil in He. destruct He as [[] | [<- | []]]. simpl. split; reflexivity.
  - intros _. destruct (ref_input st); discriminate.
Qed.

(* ------------------------------------------------------------------------------------------ *)
(** * The specification only depends on the multiset of files *)

Lemma grid_ok_perm ts ts' S T V : Permutation ts ts' -> grid_ok ts S T V -> grid_ok ts' S T V.
Proof.
  intros Hp [P [Vs [l [cv H]]]].
  destruct H as [Hnd [HPs [HPin [HPl [Hsp [HVnd [HVin [HVl [HS [HT [HV [Hlen [Hperm [Hsort Ha]]]]]]]]]]]]]].
  exists P, Vs, l, cv.
  split; [eapply Permutation_NoDup; eassumption|].
  split; [exact HPs|].
  split; [intros p; rewrite HPin; split; apply Permutation_in, Permutation_map; [|symmetry]; exact Hp|].
  split; [exact HPl|]. split; [exact Hsp|]. split; [exact HVnd|].
  split; [intros v; rewrite HVin; split; apply Permutation_in, Permutation_map; [|symmetry]; exact Hp|].
  split; [exact HVl|]. split; [exact HS|]. split; [exact HT|]. split; [exact HV|].
  split; [rewrite <- (Permutation_length Hp); exact Hlen|].
  split; [rewrite Hperm; exact Hp|]. split; assumption.
Qed.

Lemma grid_complete_perm ct cv fs fs' S T V :
  Permutation fs fs' -> grid_complete ct cv fs S T V -> grid_complete ct cv fs' S T V.
Proof.
  intros Hp. unfold grid_complete. destruct (ct || cv).
  - apply grid_ok_perm, Permutation_map, Hp.
  - intros [[Hnd Hg] | [Hnd [k [Hk [[Hg1 Hg2] Hg]]]]].
    + left. split; [eapply Permutation_NoDup; [apply Permutation_map, Hp | exact Hnd]|].
      revert Hg. apply grid_ok_perm, Permutation_map, Hp.
    + right. split.
      * intros H. apply Hnd. eapply Permutation_NoDup; [symmetry; apply Permutation_map, Hp | exact H].
      * exists k. split; [exact Hk|]. split.
        -- split.
           ++ intros v Hv. apply Hg1. eapply Permutation_in; [symmetry; apply Permutation_map, Hp | exact Hv].
           ++ rewrite <- (dedup_length_perm oq_eqb oq_eqb_spec _ _ (Permutation_map (fun f => get_meta f k) Hp)).
              rewrite <- (Permutation_length Hp). exact Hg2.
        -- revert Hg. apply grid_ok_perm, Permutation_map, Hp.
Qed.

Lemma files_strip_perm fi fi2 :
  Permutation (map strip fi2) (map strip fi) -> Permutation (map e_file fi2) (map e_file fi).
Proof.
  intros Hp. apply (Permutation_map (fun x : file * option Qc * Qc => fst (fst x))) in Hp.
  rewrite !map_map in Hp. exact Hp.
Qed.

(* ------------------------------------------------------------------------------------------ *)
(** * The full invariant *)

(** a clean stack caches the shape of the grid its files tile *)
Definition clean_ok (st : state) : Prop :=
  shape_dirty st = false ->
  exists S T V r c,
    cached_shape st = Some (grid_shape r c S T V) /\
    grid_complete (cfg_time st) (cfg_vec st) (files st) S T V /\
    (forall e, In e (files_info st) -> f_rows (e_file e) = r /\ f_cols (e_file e) = c).

Definition wf (st : state) : Prop := wf0 st /\ clean_ok st.

Lemma wf_init ct cv : wf (init ct cv).
Proof. split; [apply wf0_init | intros H; discriminate]. Qed.

Lemma wf_add st f st' : wf st -> add_dcm st f = Ok st' -> wf st'.
Proof.
  intros [H0 _] Ha. split; [eapply wf0_add; eassumption|].
  unfold add_dcm in Ha.
  destruct (negb (f_has_pix f)); [discriminate|].
  destruct (negb (congruent st f)); [discriminate|].
  destruct ((cfg_time st || cfg_vec st) && existsb (tuple_eqb (sorting_tuple st f)) (tuples st)); [discriminate|].
  injection Ha as <-. intros H. discriminate.
Qed.

Lemma clean_ok_reorder st fi2 : clean_ok st -> reordered st fi2 -> clean_ok (with_files st fi2).
Proof.
  intros Hc [Hp _] Hd. destruct (Hc Hd) as [S [T [V [r [c [H1 [H2 H3]]]]]]].
  exists S, T, V, r, c. split; [exact H1|]. split.
  - simpl. eapply grid_complete_perm; [|exact H2]. symmetry. apply files_strip_perm, Hp.
  - intros e2 He2. destruct (strip_in_perm _ _ _ Hp He2) as [e [He Hs]].
    unfold strip in Hs. injection Hs as Hf _ _. unfold e_file in *. rewrite <- Hf. apply H3, He.
Qed.

Lemma sound_reordered st st' sh S T V : shape_result st st' sh S T V ->
  exists fi2, st' = with_shape (with_files st fi2) false (Some sh) /\
              Permutation (map strip fi2) (map strip (files_info st)) /\
              sh = shape_of (e_file (nth 0 fi2 dflt_entry)) S T V.
Proof. intros [_ _ _ _ _ [fi2 [H1 [H2 [_ [_ H5]]]]]]. exists fi2. auto. Qed.

Lemma compute_shape_wf st st' r : wf st -> compute_shape st = (st', r) -> wf st'.
Proof.
  intros [Hwf Hclean] Hc.
  destruct (compute_shape_reorder st st' r Hwf Hc) as [fi2 [Hre [-> | [sh [-> ->]]]]].
  - split; [apply wf0_reorder; assumption | apply clean_ok_reorder; assumption].
  - assert (Hwf' : wf0 (with_shape (with_files st fi2) false (Some sh))).
    { apply wf0_with_shape, wf0_reorder; assumption. }
    split; [exact Hwf'|]. intros _.
    pose proof (compute_shape_ok_well_typed st _ sh Hwf Hc) as Hwt.
    destruct (compute_shape_sound st _ sh Hwf Hwt Hc) as [S [T [V Hres]]].
    destruct (sound_reordered _ _ _ _ _ _ Hres) as [fi3 [Heq [Hp3 Hsh]]].
    assert (Efi : fi3 = fi2).
    { apply (f_equal files_info) in Heq. simpl in Heq. congruence. }
    subst fi3.
    destruct Hres as [HS HV [HSp [HTp HVp]] Hlen Hgrid _].
    assert (Hlen2 : length fi2 = V * T * S).
    { apply Permutation_length in Hp3. rewrite !map_length in Hp3. lia. }
    assert (Hne : files_info st <> []) by (intros E; rewrite E in Hlen; simpl in Hlen; nia).
    destruct (ref_input st) as [ref|] eqn:Eref; [|exfalso; apply (w_ref st Hwf Hne Eref)].
    assert (Hrc : forall e, In e fi2 -> f_rows (e_file e) = f_rows ref /\ f_cols (e_file e) = f_cols ref).
    { intros e He. apply (w_congr _ Hwf' e ref); [exact He | exact Eref]. }
    exists S, T, V, (f_rows ref), (f_cols ref). simpl. split; [|split].
    + f_equal. rewrite Hsh. rewrite shape_of_grid by exact HSp.
      assert (Hin : In (nth 0 fi2 dflt_entry) fi2) by (apply nth_In; nia).
      destruct (Hrc _ Hin) as [-> ->]. reflexivity.
    + eapply grid_complete_perm; [|exact Hgrid]. symmetry. apply files_strip_perm, Hp3.
    + exact Hrc.
Qed.

Lemma get_shape_wf st : wf st -> wf (fst (get_shape st)).
Proof.
  intros Hwf. unfold get_shape. destruct (shape_dirty st); [|exact Hwf].
  destruct (compute_shape st) as [st' r] eqn:E. simpl. eapply compute_shape_wf; eassumption.
Qed.

Lemma get_data_wf st : wf st -> wf (fst (get_data st)).
Proof.
  intros Hwf. unfold get_data. pose proof (get_shape_wf st Hwf) as H.
  destruct (get_shape st) as [st1 [sh|e]]; exact H.
Qed.

Lemma get_affine_fst st : fst (get_affine st) = fst (get_shape st).
Proof. unfold get_affine. destruct (get_shape st) as [s [sh|e]]; reflexivity. Qed.

Lemma get_affine_wf st : wf st -> wf (fst (get_affine st)).
Proof. intros Hwf. rewrite get_affine_fst. apply get_shape_wf, Hwf. Qed.

Lemma rev_chunks_perm {A} (l : list A) k nv : Permutation (map_chunks (@rev A) k nv l) l.
Proof. apply map_chunks_perm. intros c. symmetry. apply Permutation_rev. Qed.

Lemma to_nifti_wf st vo e : wf st -> wf (fst (to_nifti st vo e)).
Proof.
  intros Hwf. unfold to_nifti. pose proof (get_data_wf st Hwf) as H1.
  destruct (get_data st) as [st1 [[ids sh]|e1]]; [|exact H1]. simpl in H1.
  pose proof (get_affine_wf st1 H1) as H2.
  destruct (get_affine st1) as [st2 [[i0 col]|e2]]; [|exact H2]. simpl in H2.
  match goal with |- context [if ?b then _ else st2] => destruct b end; simpl; [|exact H2].
  destruct H2 as [H20 _]. split.
  - apply wf0_with_shape, wf0_reorder; [exact H20|]. split.
    + apply Permutation_map, rev_chunks_perm.
    + left. apply rev_chunks_perm.
  - intros Hd. discriminate.
Qed.

Lemma step_wf st o : wf st -> wf (fst (step st o)).
Proof.
  intros Hwf. destruct o; simpl.
  - destruct (add_dcm st f) eqn:E; simpl; [eapply wf_add; eassumption | exact Hwf].
  - pose proof (get_shape_wf st Hwf). destruct (get_shape st); assumption.
  - pose proof (get_data_wf st Hwf). destruct (get_data st); assumption.
  - pose proof (get_affine_wf st Hwf). destruct (get_affine st); assumption.
  - pose proof (to_nifti_wf st vo embed Hwf). destruct (to_nifti st vo embed); assumption.
  - unfold to_nifti_wrapper. pose proof (to_nifti_wf st vo true Hwf). destruct (to_nifti st vo true); assumption.
Qed.

Lemma run_wf h st : wf st -> wf (run st h).
Proof. revert st. induction h as [|o h IH]; intros st Hwf; simpl; [exact Hwf | apply IH, step_wf, Hwf]. Qed.

(** stacks reachable from an empty stack by a history of operations *)
Definition reachable (st : state) : Prop := exists ct cv h, st = run (init ct cv) h.

Lemma reachable_wf st : reachable st -> wf st.
Proof. intros [ct [cv [h ->]]]. apply run_wf, wf_init. Qed.
