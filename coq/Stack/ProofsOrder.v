(** [_chk_order] and the guessing loop, characterised on the multiset of sorting tuples. *)
From Coq Require Import List Bool Arith Lia Permutation Sorted QArith Qcanon Qabs.
From DV Require Import Common.Res Common.Str Generated.T_stack Stack.Model Stack.Sort Stack.Order Stack.Spec.
Import ListNotations.
Local Open Scope nat_scope.

(** the arrangement condition of [Spec.grid_ok] on the sorted list [l] *)
Definition arranged (l : list tuple) (P : list Qc) (S T V : nat) : Prop :=
  exists cv : nat -> option Qc,
    forall vi ti, vi < V -> ti < T ->
      Permutation (map t_pos (chunk S (vi * T + ti) l)) P /\
      forall e, In e (chunk S (vi * T + ti) l) -> t_vec e = cv vi.

Definition pos_leb_t : tuple -> tuple -> bool := by_key t_pos qc_leb.

Lemma map_chunks_map {A B} (g : A -> B) (f : list A -> list A) (f' : list B -> list B) k nv l :
  (forall c, map g (f c) = f' (map g c)) ->
  map g (map_chunks f k nv l) = map_chunks f' k nv (map g l).
Proof.
  intros H. revert l. induction nv as [|nv IH]; intros l; simpl; [reflexivity|].
  rewrite map_app, H, IH, firstn_map, skipn_map. reflexivity.
Qed.

Lemma arrange_resort fi S nvol :
  0 < S ->
  arrange fi S nvol = map_chunks (ssort entry_pos_leb) S nvol (ssort entry_leb fi).
Proof.
  intros HS. unfold arrange. destruct (1 <? S) eqn:E; [reflexivity|].
  apply Nat.ltb_ge in E. symmetry. apply map_chunks_id.
  intros c Hc. apply ssort_singleton. lia.
Qed.

Lemma arrange_tuples fi S nvol :
  0 < S ->
  map e_tuple (arrange fi S nvol)
  = map_chunks (ssort pos_leb_t) S nvol (ssort tuple_leb (map e_tuple fi)).
Proof.
  intros HS. rewrite arrange_resort by exact HS.
  rewrite (map_chunks_map e_tuple (ssort entry_pos_leb) (ssort pos_leb_t)).
  - f_equal. rewrite entry_leb_by_key. apply ssort_map.
  - intros c. change entry_pos_leb with (by_key e_tuple pos_leb_t). apply ssort_map.
Qed.

Lemma arrange_perm fi S nvol : Permutation (arrange fi S nvol) fi.
Proof.
  unfold arrange. destruct (1 <? S).
  - rewrite map_chunks_perm; [apply ssort_perm | intros c; apply ssort_perm].
  - apply ssort_perm.
Qed.

Lemma order_check_spec fi P S T V :
  order_check fi P S T V = true <->
  forall vi ti si, vi < V -> ti < T -> si < S ->
    t_vec (nth (vi * T * S + ti * S + si) (map e_tuple fi) dflt_tuple) = t_vec (nth (vi * T * S) (map e_tuple fi) dflt_tuple) /\
    t_pos (nth (vi * T * S + ti * S + si) (map e_tuple fi) dflt_tuple) = nth si P (Q2Qc 0).
Proof.
  unfold order_check. cbv zeta. rewrite forallb_seq. split.
  - intros H vi ti si Hvi Hti Hsi. specialize (H vi Hvi). rewrite forallb_seq in H.
    specialize (H ti Hti). rewrite forallb_seq in H. specialize (H si Hsi).
    apply andb_true_iff in H. destruct H as [H1 H2].
    destruct (oq_eqb_spec (t_vec (e_tuple (nth (vi * T * S + ti * S + si) fi dflt_entry)))
                          (t_vec (e_tuple (nth (vi * T * S) fi dflt_entry)))) as [E1|]; [|discriminate].
    destruct (qc_eqb_spec (t_pos (e_tuple (nth (vi * T * S + ti * S + si) fi dflt_entry))) (nth si P (Q2Qc 0))) as [E2|]; [|discriminate].
    change dflt_tuple with (e_tuple dflt_entry). rewrite !map_nth. split; assumption.
  - intros H vi Hvi. rewrite forallb_seq. intros ti Hti. rewrite forallb_seq. intros si Hsi.
    specialize (H vi ti si Hvi Hti Hsi).
    change dflt_tuple with (e_tuple dflt_entry) in H. rewrite !map_nth in H. destruct H as [H1 H2].
    rewrite H1, H2.
    destruct (oq_eqb_spec (t_vec (e_tuple (nth (vi * T * S) fi dflt_entry))) (t_vec (e_tuple (nth (vi * T * S) fi dflt_entry)))); [|congruence].
    destruct (qc_eqb_spec (nth si P (Q2Qc 0)) (nth si P (Q2Qc 0))); [reflexivity|congruence].
Qed.

Lemma pos_leb_t_sort c : map t_pos (ssort pos_leb_t c) = ssort qc_leb (map t_pos c).
Proof. unfold pos_leb_t. apply ssort_map. Qed.

(** the check on the arranged tuples is the arrangement condition on the sorted tuples *)
Lemma arranged_check (L : list tuple) (P : list Qc) S T V :
  0 < S -> 0 < T -> length L = V * T * S -> length P = S -> StronglySorted Qclt P ->
  let L2 := map_chunks (ssort pos_leb_t) S (V * T) L in
  (forall vi ti si, vi < V -> ti < T -> si < S ->
     t_vec (nth (vi * T * S + ti * S + si) L2 dflt_tuple) = t_vec (nth (vi * T * S) L2 dflt_tuple) /\
     t_pos (nth (vi * T * S + ti * S + si) L2 dflt_tuple) = nth si P (Q2Qc 0))
  <-> arranged L P S T V.
Proof.
  intros HS HT HL HP HPs L2.
  assert (Hlenf : forall c : list tuple, length (ssort pos_leb_t c) = length c) by (intros; apply ssort_length).
  assert (Hchunk : forall k, k < V * T -> chunk S k L2 = ssort pos_leb_t (chunk S k L)).
  { intros k Hk. subst L2. apply map_chunks_chunk; [exact Hlenf | lia | exact Hk]. }
  assert (Hclen : forall k, k < V * T -> length (chunk S k L) = S).
  { intros k Hk. apply chunk_length. nia. }
  assert (Hk : forall vi ti, vi < V -> ti < T -> vi * T + ti < V * T) by (intros; nia).
  assert (Hnth : forall vi ti si, vi < V -> ti < T -> si < S ->
             nth (vi * T * S + ti * S + si) L2 dflt_tuple
             = nth si (ssort pos_leb_t (chunk S (vi * T + ti) L)) dflt_tuple).
  { intros vi ti si Hvi Hti Hsi. rewrite <- Hchunk by (apply Hk; assumption).
    rewrite nth_chunk by exact Hsi. f_equal. lia. }
  split.
  - intros H. exists (fun vi => t_vec (nth (vi * T * S) L2 dflt_tuple)).
    intros vi ti Hvi Hti.
    set (C := chunk S (vi * T + ti) L). set (C' := ssort pos_leb_t C).
    assert (HC' : length C' = S) by (subst C' C; rewrite ssort_length; apply Hclen, Hk; assumption).
    assert (Hpos : map t_pos C' = P).
    { apply (nth_ext_eq _ _ (Q2Qc 0)); [rewrite map_length; lia|].
      intros i Hi. rewrite map_length in Hi.
      destruct (H vi ti i Hvi Hti) as [_ H2]; [lia|].
      rewrite Hnth in H2 by (assumption || lia).
      change (Q2Qc 0) with (t_pos dflt_tuple) at 1. rewrite map_nth. exact H2. }
    split.
    + rewrite <- Hpos. apply Permutation_map. subst C'. symmetry. apply ssort_perm.
    + intros e He. assert (He' : In e C') by (subst C'; apply ssort_in; exact He).
      destruct (In_nth _ _ dflt_tuple He') as [i [Hi <-]].
      destruct (H vi ti i Hvi Hti) as [H1 _]; [lia|].
      rewrite Hnth in H1 by (assumption || lia). exact H1.
  - intros [cv H] vi ti si Hvi Hti Hsi.
    destruct (H vi ti Hvi Hti) as [Hperm Hvec].
    set (C := chunk S (vi * T + ti) L) in *. set (C' := ssort pos_leb_t C).
    assert (HC' : length C' = S) by (subst C' C; rewrite ssort_length; apply Hclen, Hk; assumption).
    assert (Hpos : map t_pos C' = P).
    { subst C'. rewrite pos_leb_t_sort. apply sorted_unique; [apply qc_leb_order | apply strict_sorted_leb, HPs | exact Hperm]. }
    rewrite Hnth by assumption. fold C C'.
    assert (Hin : In (nth si C' dflt_tuple) C).
    { apply (ssort_in pos_leb_t). change (In (nth si C' dflt_tuple) C'). apply nth_In. lia. }
    split.
    + rewrite (Hvec _ Hin).
      (* the reference element is the first one of the re-sorted first volume of the block *)
      replace (vi * T * S) with (vi * T * S + 0 * S + 0) by lia.
      rewrite Hnth by (assumption || lia).
      destruct (H vi 0 Hvi HT) as [_ Hvec0]. symmetry. apply Hvec0.
      apply (ssort_in pos_leb_t), nth_In. rewrite ssort_length, Hclen; [lia | apply Hk; assumption].
    + rewrite <- Hpos. change (Q2Qc 0) with (t_pos dflt_tuple). rewrite map_nth. reflexivity.
Qed.

(** [_chk_order] succeeds exactly on arranged multisets; when it fails (and no TypeError is possible) it
    raises InvalidStackError; it only permutes the list *)
Lemma chk_order_spec fi P S T V :
  all_comparable (map e_tuple fi) = true ->
  0 < S -> 0 < T -> length fi = V * T * S -> length P = S -> StronglySorted Qclt P ->
  let '(fi2, r) := chk_order fi P S (V * T) T V in
  Permutation fi2 fi /\
  (r = Ok tt \/ r = Err EInvalidStack) /\
  (r = Ok tt <-> arranged (ssort tuple_leb (map e_tuple fi)) P S T V).
Proof.
  intros Hc HS HT Hlen HP HPs. unfold chk_order. rewrite Hc. simpl negb. cbv iota.
  split; [apply arrange_perm|].
  destruct (order_check (arrange fi S (V * T)) P S T V) eqn:E.
  - split; [left; reflexivity|]. split; [|reflexivity]. intros _.
    rewrite order_check_spec in E. rewrite arrange_tuples in E by exact HS.
    apply (arranged_check (ssort tuple_leb (map e_tuple fi)) P S T V HS HT); try assumption.
    rewrite ssort_length, map_length. exact Hlen.
  - split; [right; reflexivity|]. split; [discriminate|]. intros Ha. exfalso.
    assert (E' : order_check (arrange fi S (V * T)) P S T V = true); [|congruence].
    apply order_check_spec. rewrite arrange_tuples by exact HS.
    apply (arranged_check (ssort tuple_leb (map e_tuple fi)) P S T V HS HT); try assumption.
    rewrite ssort_length, map_length. exact Hlen.
Qed.

Lemma chk_order_etype fi P S nvol T V :
  all_comparable (map e_tuple fi) = false -> chk_order fi P S nvol T V = (fi, Err EType).
Proof. intros H. unfold chk_order. rewrite H. reflexivity. Qed.

(* ------------------------------------------------------------------------------------------ *)
(** * The guessing loop *)

(** what stays fixed of an entry while the time component is rewritten *)
Definition strip (e : entry) : file * option Qc * Qc := (e_file e, t_vec (e_tuple e), t_pos (e_tuple e)).
Definition key_tuple_s (k : str) (x : file * option Qc * Qc) : tuple :=
  (snd (fst x), get_meta (fst (fst x)) k, snd x).
Definition key_tuple (k : str) (e : entry) : tuple := key_tuple_s k (strip e).

Lemma rewrite_tuples k fi : map e_tuple (map (rewrite_time k) fi) = map (key_tuple k) fi.
Proof. rewrite map_map. reflexivity. Qed.

Lemma rewrite_strip k fi : map strip (map (rewrite_time k) fi) = map strip fi.
Proof. rewrite map_map. reflexivity. Qed.

Lemma key_tuples_perm k fi fi' :
  Permutation (map strip fi) (map strip fi') -> Permutation (map (key_tuple k) fi) (map (key_tuple k) fi').
Proof.
  intros H. apply (Permutation_map (key_tuple_s k)) in H. rewrite !map_map in H. exact H.
Qed.

Definition good_key (k : str) (fi : list entry) (P : list Qc) (S T V : nat) : Prop :=
  NoDup (map (key_tuple k) fi) /\ arranged (ssort tuple_leb (map (key_tuple k) fi)) P S T V.

Lemma good_key_perm k fi fi' P S T V :
  Permutation (map strip fi) (map strip fi') -> good_key k fi P S T V -> good_key k fi' P S T V.
Proof.
  intros Hp [Hnd Ha]. pose proof (key_tuples_perm k _ _ Hp) as Hk. split.
  - eapply Permutation_NoDup; eassumption.
  - rewrite <- (ssort_unique tuple_leb _ _ tuple_leb_order Hk). exact Ha.
Qed.

Lemma all_comparable_guess (ts : list tuple) :
  (forall t, In t ts -> t_vec t = None /\ t_time t <> None) -> all_comparable ts = true.
Proof.
  intros H. unfold all_comparable. apply forallb_forall. intros a Ha. apply forallb_forall. intros b Hb.
  destruct (H a Ha) as [Hva Hta], (H b Hb) as [Hvb Htb].
  unfold comparable. rewrite Hva, Hvb. simpl.
  destruct (t_time a), (t_time b); try congruence; reflexivity.
Qed.

Lemma try_orders_spec P S T V :
  0 < S -> 0 < T -> length P = S -> StronglySorted Qclt P ->
  forall ks fi,
    (forall k x, In k ks -> In x (map strip fi) -> get_meta (fst (fst x)) k <> None) ->
    (forall x, In x (map strip fi) -> snd (fst x) = None) ->
    length fi = V * T * S ->
    let '(fi2, r) := try_orders ks fi P S (V * T) T V in
    Permutation (map strip fi2) (map strip fi) /\
    (r = Ok tt \/ r = Err EInvalidStack) /\
    (r = Ok tt <-> exists k, In k ks /\ good_key k fi P S T V) /\
    (r = Ok tt -> NoDup (map e_tuple fi2)).
Proof.
  intros HS HT HP HPs. induction ks as [|k ks IH]; intros fi Hmeta Hvec Hlen.
  - simpl. split; [reflexivity|]. split; [right; reflexivity|]. split.
    + split; [discriminate | intros [k [[] _]]].
    + discriminate.
  - cbn [try_orders]. set (fi1 := map (rewrite_time k) fi).
    assert (Hs1 : map strip fi1 = map strip fi) by apply rewrite_strip.
    assert (Ht1 : map e_tuple fi1 = map (key_tuple k) fi) by apply rewrite_tuples.
    assert (Hlen1 : length fi1 = V * T * S) by (subst fi1; rewrite map_length; exact Hlen).
    assert (Hmeta' : forall fi', Permutation (map strip fi') (map strip fi) ->
               forall k' x, In k' ks -> In x (map strip fi') -> get_meta (fst (fst x)) k' <> None).
    { intros fi' Hp k' x Hk' Hx. apply Hmeta; [right; exact Hk' | eapply Permutation_in; eassumption]. }
    assert (Hvec' : forall fi', Permutation (map strip fi') (map strip fi) ->
               forall x, In x (map strip fi') -> snd (fst x) = None).
    { intros fi' Hp x Hx. apply Hvec. eapply Permutation_in; eassumption. }
    destruct (has_dup tuple_eqb (map e_tuple fi1)) eqn:Hdup.
    + (* tie: next candidate, on the rewritten list *)
      assert (Hp1 : Permutation (map strip fi1) (map strip fi)) by (rewrite Hs1; reflexivity).
      specialize (IH fi1 (Hmeta' fi1 Hp1) (Hvec' fi1 Hp1) Hlen1).
      destruct (try_orders ks fi1 P S (V * T) T V) as [fi2 r].
      destruct IH as [IH1 [IH2 [IH3 IH4]]].
      split; [rewrite IH1; exact Hp1|]. split; [exact IH2|]. split; [|exact IH4].
      rewrite IH3. split.
      * intros [k' [Hk' Hg]]. exists k'. split; [right; exact Hk'|].
        eapply good_key_perm; [exact Hp1 | exact Hg].
      * intros [k' [[<-|Hk'] Hg]].
        -- exfalso. destruct Hg as [Hnd _]. rewrite <- Ht1 in Hnd.
           apply (has_dup_false tuple_eqb tuple_eqb_spec) in Hnd. congruence.
        -- exists k'. split; [exact Hk'|]. eapply good_key_perm; [symmetry; exact Hp1 | exact Hg].
    + apply (has_dup_false tuple_eqb tuple_eqb_spec) in Hdup.
      assert (Hc : all_comparable (map e_tuple fi1) = true).
      { apply all_comparable_guess. intros t Ht. rewrite Ht1 in Ht.
        apply in_map_iff in Ht. destruct Ht as [e [<- He]].
        assert (Hin : In (strip e) (map strip fi)) by (apply in_map; exact He).
        split.
        - exact (Hvec _ Hin).
        - exact (Hmeta k _ (or_introl eq_refl) Hin). }
      pose proof (chk_order_spec fi1 P S T V Hc HS HT Hlen1 HP HPs) as Hspec.
      destruct (chk_order fi1 P S (V * T) T V) as [fi2 r] eqn:E.
      destruct Hspec as [Hperm [Hr Hiff]].
      assert (Hp2 : Permutation (map strip fi2) (map strip fi)).
      { rewrite <- Hs1. apply Permutation_map, Hperm. }
      destruct Hr as [-> | ->].
      * split; [exact Hp2|]. split; [left; reflexivity|]. split.
        -- split; [|reflexivity]. intros _. exists k. split; [left; reflexivity|].
           split; [rewrite <- Ht1; exact Hdup|]. rewrite <- Ht1. apply Hiff. reflexivity.
        -- intros _. eapply Permutation_NoDup; [|exact Hdup]. symmetry. apply Permutation_map, Hperm.
      * assert (Hlen2 : length fi2 = V * T * S) by (rewrite (Permutation_length Hperm); exact Hlen1).
        specialize (IH fi2 (Hmeta' fi2 Hp2) (Hvec' fi2 Hp2) Hlen2).
        destruct (try_orders ks fi2 P S (V * T) T V) as [fi3 r3].
        destruct IH as [IH1 [IH2 [IH3 IH4]]].
        split; [rewrite IH1; exact Hp2|]. split; [exact IH2|]. split; [|exact IH4].
        rewrite IH3. split.
        -- intros [k' [Hk' Hg]]. exists k'. split; [right; exact Hk'|].
           eapply good_key_perm; [exact Hp2 | exact Hg].
        -- intros [k' [[<-|Hk'] Hg]].
           ++ exfalso. destruct Hg as [_ Ha]. rewrite <- Ht1 in Ha. apply Hiff in Ha. discriminate.
           ++ exists k'. split; [exact Hk'|]. eapply good_key_perm; [symmetry; exact Hp2 | exact Hg].
Qed.
