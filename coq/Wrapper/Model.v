(** Executable model of the IMAGE level of [dcmmeta.NiftiWrapper] (src/dcmstack/dcmmeta.py):
      [NiftiWrapper.__init__]      (the final [check_valid])                       -> [wrap_check]
      [NiftiWrapper.split]         (data slicing, translation update, sub-extension) -> [split_img], [split_w]
      [NiftiWrapper.from_sequence] (dim choice, orientation / step checks, data fill, affine column,
                                    slice dim_info, merged extension)                 -> [from_sequence_img], [from_sequence_w]

    An image is (shape, C-order flat voxel data, best affine, slice entry of the header's dim_info); arrays
    and matrices are the ones of Orient/Model.v ([arr], [aget], [tabulate], [mat], [mentry], [col3], [dot]).

    NOT modelled (nibabel header book-keeping; no property is anchored there): qform / sform codes and the
    float32 storage of both matrices in the header, intent, slice_duration, slice_times, xyzt_units, the freq /
    phase entries of dim_info, dtype promotion ([max] of the input dtypes), negative [dim] arguments.
    The affine of an image is its "best affine"; on the correspondence domain (images created with
    [nb.Nifti1Image(data, affine)], entries exactly representable in float32) it equals [img.affine].

    Rationals: a float has ONE representation, a rational many; the column that [from_sequence] computes
    ([trans_1 - trans_0]) is therefore stored reduced ([Qred]), so that on inputs whose entries are reduced
    fractions (every literal printed from a float is) "the same number" is Leibniz equality and the image half
    composes with the extension theorems (which take the affine as an argument).

    Floating point: all arithmetic is exact in Q.  The two [sqrt] normalisations of [from_sequence] are the
    Section variable [unitv]; nothing is assumed about it HERE (the theorems state, per vector, what they need:
    [Wrapper.Spec.unit_ok]).  The executable instance with exact rational square roots is [Wrapper.Corr.unit_exact].

    Python exceptions: ValueError -> EValue, IndexError -> EIndex, TypeError -> EType,
    MissingExtensionError -> EMissingExt.  No proofs here. *)
From Coq Require Import List Bool Arith ZArith QArith Qabs Lia.
From DV Require Import Common.Res Common.Str Ext.Types Ext.Seq Ext.Model Orient.Model.
Import ListNotations.
Local Open Scope nat_scope.
Local Open Scope res_scope.

(* NOTE on names: [Ext.Seq.set_nth] returns an option (Python list assignment), [Orient.Model.set_nth] is
   total; unqualified [set_nth] below is the latter (imported last).  [Ext.Model.img] (the image header seen
   by the lookups) is shadowed by the record below; [ext_img_of] converts. *)

(** * Images and wrappers *)

Record img := mk_img {
  ishape : list nat;          (* nii_img.shape *)
  idata : list Z;             (* np.asanyarray(nii_img.dataobj).ravel()  (C order) *)
  iaff : mat;                 (* best affine, 4x4, row major *)
  islice : option nat }.      (* header.get_dim_info()[2] *)

Definition iarr (im : img) : arr := {| ashape := ishape im; adata := idata im |}.
Definition wf_img (im : img) : Prop := wf_arr (iarr im) /\ is_shape 4 4 (iaff im) = true.
Definition wf_imgb (im : img) : bool :=
  (length (idata im) =? prod (ishape im)) && is_shape 4 4 (iaff im).

Definition ext_img_of (im : img) : Ext.Model.img :=
  Ext.Model.mk_img (ishape im) (islice im) (iaff im).

Definition wrapper (V : Type) : Type := (img * ext V)%type.

(** * Vectors (the first three rows of a column of the affine) *)

Definition vec := list Q.
Definition vsub (a b : vec) : vec := map (fun xy => (fst xy - snd xy)%Q) (combine a b).
Definition vadd (a b : vec) : vec := map (fun xy => (fst xy + snd xy)%Q) (combine a b).
Definition vscale (c : Q) (v : vec) : vec := map (Qmult c) v.
Definition trans_of (A : mat) : vec := col3 A 3.

(** [A[:3, j] = v] *)
Definition set_col3 (A : mat) (j : nat) (v : vec) : mat :=
  map (fun ir => if fst ir <? 3 then set_nth j (nth (fst ir) v 0%Q) (snd ir) else snd ir)
      (combine (seq 0 (length A)) A).
(** [A[:3, 3] += v] *)
Definition add_trans (A : mat) (v : vec) : mat := set_col3 A 3 (vadd (trans_of A) v).

(** tolerances written in [NiftiWrapper.from_sequence] *)
Definition orient_atol : Q := 5 # 10000.        (* np.allclose(in_vec, axis_vec, atol=5e-4) *)
Definition step_atol : Q := 1 # 1000000.        (* np.allclose(np.dot(trans_diff, in_vec), 1.0, atol=1e-6) *)
Definition close (atol : Q) (a b : vec) : bool := allclose rtol_default atol a b.
(** [np.allclose(v, 0.0)] *)
Definition near_zero (v : vec) : bool := close atol_default v (map (fun _ => 0%Q) v).

Definition onat_eqb (a b : option nat) : bool :=
  match a, b with Some x, Some y => x =? y | None, None => true | _, _ => false end.

(** * Shapes *)

(** [while dim >= len(result_shape): result_shape.append(1)] -- pad with ones up to length [n] *)
Definition pad_ones (n : nat) (sh : list nat) : list nat := sh ++ repeat 1 (n - length sh).
(** [result_shape] of [from_sequence] *)
Definition merged_shape (sh : list nat) (dim n : nat) : list nat := set_nth dim n (pad_ones (S dim) sh).

Definition squeeze_shape (sh : list nat) : list nat := filter (fun n => negb (n =? 1)) sh.

(** the coordinates of [idx] on the axes [k <> dim] of [rsh] whose extent is not 1: the index tuple of the
    left-hand side of [result_data[tuple(data_slices)] = ...] ([k] counts the axes already passed) *)
Fixpoint sel_axes (k dim : nat) (rsh idx : list nat) : list nat :=
  match rsh, idx with
  | n :: rsh', i :: idx' =>
      if (n =? 1) || (k =? dim) then sel_axes (S k) dim rsh' idx' else i :: sel_axes (S k) dim rsh' idx'
  | _, _ => []
  end.

Definition lastn {A} (n : nat) (l : list A) : list A := skipn (length l - n) l.

(** numpy broadcasting of a squeezed right-hand side (no extent 1) into the left-hand side: the RHS shape
    must be a suffix of the LHS shape *)
Definition broadcastable (rhs lhs : list nat) : bool :=
  (length rhs <=? length lhs) && list_nat_eqb rhs (lastn (length rhs) lhs).

(** element of [np.asanyarray(dataobj).squeeze()] of [im] that lands on LHS index [l] *)
Definition fetch (im : img) (l : list nat) : option Z :=
  let r := squeeze_shape (ishape im) in
  nth_error (idata im) (offset r (lastn (length r) l)).

(** * from_sequence *)

(** [last_singular]: the last axis of extent 1 (the loop over [enumerate(shape)]) *)
Definition last_singular (sh : list nat) : option nat :=
  fold_left (fun acc kn => if snd kn =? 1 then Some (fst kn) else acc) (combine (seq 0 (length sh)) sh) None.

(** the [dim] argument: [None] = choose; [Err EType] stands for [dim] left at [None] (inputs that are
    neither 3-D nor 4-D), which raises TypeError at [while dim >= len(result_shape)]. *)
Definition resolve_merge_dim (sh : list nat) (odim : option nat) : res nat :=
  match odim with
  | None =>
      match length sh with
      | 3 => Ok (match last_singular sh with Some d => d | None => 3 end)
      | 4 => Ok 4
      | _ => Err EType
      end
  | Some dim =>
      if negb (dim <? 5) then Err EValue
      else if (dim <? length sh) && negb (nth dim sh 0 =? 1) then Err EValue
      else Ok dim
  end.

(** [hdr_info['dim_info'][2]] after the loop: an entry that differs from the running value erases it *)
Definition merge_slice (first : option nat) (rest : list (option nat)) : option nat :=
  fold_left (fun cur s => if onat_eqb s cur then cur else None) rest first.

Section WithUnit.
  (** [v / np.sqrt(np.dot(v, v))] *)
  Variable unitv : vec -> vec.

  (** axis vector [j] of affine [A] as the checks see it: the merge axis is normalised *)
  Definition axis_of (dim : nat) (A : mat) (j : nat) : vec :=
    if j =? dim then unitv (col3 A j) else col3 A j.

  (** [trans_diff] after the conditional normalisation *)
  Definition step_dir (t last : vec) : vec :=
    let td := vsub t last in if near_zero td then td else unitv td.

  (** the "must be translated along the axis" test; [true] = raise *)
  Definition bad_step (dim : nat) (Aprev A : mat) : bool :=
    let td := step_dir (trans_of A) (trans_of Aprev) in
    near_zero td || negb (close step_atol [dot td (unitv (col3 A dim))] [1%Q]).

  (** body of [for axis_idx, axis_vec in enumerate(axes)] for one input; [last] = affine of the previous
      input ([last_trans] is its translation) *)
  Definition check_axis (dim : nat) (A0 A : mat) (last : option mat) (j : nat) : res unit :=
    do _ <- (if j =? dim then
               match last with
               | Some Ap => if bad_step dim Ap A then Err EValue else Ok tt
               | None => Ok tt
               end
             else Ok tt);
    if close orient_atol (axis_of dim A j) (axis_of dim A0 j) then Ok tt else Err EValue.

  Definition check_input (dim : nat) (A0 A : mat) (last : option mat) : res unit :=
    do _ <- check_axis dim A0 A last 0;
    do _ <- check_axis dim A0 A last 1;
    check_axis dim A0 A last 2.

  (** the whole input loop: orientation / step checks, then the data assignment (which can fail to broadcast).
      [last] is only ever consulted for a spatial merge axis ([last_trans] is only updated there). *)
  Fixpoint check_inputs (dim : nat) (A0 : mat) (lhs : list nat) (last : option mat) (ims : list img) : res unit :=
    match ims with
    | [] => Ok tt
    | im :: r =>
        do _ <- check_input dim A0 (iaff im) last;
        if negb (broadcastable (squeeze_shape (ishape im)) lhs) then Err EValue
        else check_inputs dim A0 lhs (Some (iaff im)) r
    end.

  Definition merged_data (ims : list img) (rsh : list nat) (dim : nat) : list Z :=
    adata (tabulate rsh (fun idx =>
      match nth_error ims (nth dim idx 0) with
      | Some im => fetch im (sel_axes 0 dim rsh idx)
      | None => None
      end)).

  (** the merge along an already resolved [dim] *)
  Definition merge_img_at (ims : list img) (dim : nat) : res img :=
    match ims with
    | [] => Err EIndex                                       (* seq[0] *)
    | im0 :: _ =>
        let A0 := iaff im0 in
        let rsh := merged_shape (ishape im0) dim (length ims) in
        do _ <- check_inputs dim A0 (sel_axes 0 dim rsh rsh) None ims;
        do A <- (if dim <? 3 then
                   match ims with
                   | _ :: im1 :: _ => Ok (set_col3 A0 dim (map Qred (vsub (trans_of (iaff im1)) (trans_of A0))))
                   | _ => Err EIndex                         (* seq[1] *)
                   end
                 else Ok A0);
        (* the slice duration is written only when the merged slice dim survives (fix e012efc / F17): no error here *)
        Ok (mk_img rsh (merged_data ims rsh dim) A (merge_slice (islice im0) (map islice (tl ims))))
    end.

  Definition from_sequence_img (ims : list img) (odim : option nat) : res img :=
    match ims with
    | [] => Err EIndex
    | im0 :: _ => do dim <- resolve_merge_dim (ishape im0) odim; merge_img_at ims dim
    end.
End WithUnit.

(** * split *)

(** [dim] argument of [split]: [None] = last axis, for 3-D images the header's slice dim *)
Definition resolve_split_dim (im : img) (odim : option nat) : res nat :=
  match odim with
  | Some d => Ok d
  | None =>
      let d := length (ishape im) - 1 in
      if d =? 2 then match islice im with Some s => Ok s | None => Err EValue end else Ok d
  end.

(** shape of [data[tuple(slices)]] followed by the loop dropping trailing singleton dims beyond 3 *)
Definition piece_shape (sh : list nat) (dim : nat) : list nat :=
  let ndim := length sh in
  trim_ones (if (3 <=? dim) && (dim =? ndim - 1) then remove_nth dim sh else set_nth dim 1 sh).

Definition pad_zeros (n : nat) (idx : list nat) : list nat := idx ++ repeat 0 (n - length idx).
(** index into the parent of element [p] of piece [i] *)
Definition piece_src (ndim dim i : nat) (p : list nat) : list nat := set_nth dim i (pad_zeros ndim p).

Definition piece_data (im : img) (dim i : nat) : list Z :=
  adata (tabulate (piece_shape (ishape im) dim)
                  (fun p => aget (iarr im) (piece_src (length (ishape im)) dim i p))).

(** best affines of pieces 0, 1, ... : the translation is updated cumulatively ([+= trans_update] for
    every index but the first) *)
Fixpoint split_affs (cur : mat) (u : option vec) (n : nat) : list mat :=
  match n with
  | 0 => []
  | S n' => cur :: split_affs (match u with Some v => add_trans cur v | None => cur end) u n'
  end.

Definition split_img_at (im : img) (dim : nat) : res (list img) :=
  let u := if dim <? 3 then Some (col3 (iaff im) dim) else None in
  match nth_error (ishape im) dim with
  | None => Err EIndex                                       (* shape[dim] *)
  | Some n =>
      Ok (map (fun ia => mk_img (piece_shape (ishape im) dim) (piece_data im dim (fst ia)) (snd ia) (islice im))
              (combine (seq 0 n) (split_affs (iaff im) u n)))
  end.

Definition split_img (im : img) (odim : option nat) : res (list img) :=
  do dim <- resolve_split_dim im odim; split_img_at im dim.

(** * wrappers *)

Section WithV.
  Context {V : Type} (veqb : V -> V -> bool) (vnone : V).

  (** [DcmMetaExtension.check_valid] (277-337) on the abstraction [ext] (a key has one entry per class
      dictionary; entries under classes that are not valid for the shape are never looked at) *)
  Definition check_valid_e (e : ext V) : bool :=
    let h := hdr_of e in
    is_shape 4 4 (aff h)
    && match sdim h with Some d => d <? 3 | None => true end
    && ndim_ok h
    && forallb (fun c =>
         has_base h (base_of c) &&
         match multiplicity h c with
         | Ok m =>
             let mine := filter (fun kv => cls_eqb (fst (snd kv)) c) (entries e) in
             if m =? 0 then (length mine =? 0)
             else if 1 <? m then forallb (fun kv => length (snd (snd kv)) =? m) mine
             else true
         | Err _ => false
         end) (valid_classes h)
    && nodup_keys (map fst (filter (fun kv => class_valid h (fst (snd kv))) (entries e))).

  (** [NiftiWrapper(nii_img)] for an image that carries [e]: an extension failing [check_valid] is skipped,
      none is left, MissingExtensionError *)
  Definition wrap_check (e : ext V) : res unit := if check_valid_e e then Ok tt else Err EMissingExt.

  Definition from_sequence_w (unitv : vec -> vec) (ws : list (wrapper V)) (odim : option nat)
    : res (wrapper V) :=
    match ws with
    | [] => Err EIndex
    | (im0, _) :: _ =>
        do dim <- resolve_merge_dim (ishape im0) odim;
        do r <- merge_img_at unitv (map fst ws) dim;
        do e <- from_sequence veqb vnone (map snd ws) dim (Some (iaff r)) (islice r);
        do _ <- wrap_check e;
        Ok (r, e)
    end.

  (** [meta_dim]: the extension's slice dim when splitting along the header's slice dim;
      [None] = the extension has none, [get_subset(None, idx)] raises TypeError *)
  Definition meta_dim (im : img) (e : ext V) (dim : nat) : option nat :=
    if onat_eqb (islice im) (Some dim) then sdim (hdr_of e) else Some dim.

  Definition split_w (w : wrapper V) (odim : option nat) : res (list (wrapper V)) :=
    let '(im, e) := w in
    do dim <- resolve_split_dim im odim;
    do pieces <- split_img_at im dim;
    mapM (fun p =>
            do pe <- match meta_dim im e dim with
                     | Some md => get_subset veqb vnone e md (fst p)
                     | None => Err EType
                     end;
            do _ <- wrap_check e;            (* NiftiWrapper(split_nii) still finds the parent's extension *)
            Ok (snd p, pe))
         (combine (seq 0 (length pieces)) pieces).
End WithV.
