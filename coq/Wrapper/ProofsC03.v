(** The image half of C03: what [from_sequence_img] returns (data, affine, slice dim) and exactly when it refuses. *)
From Coq Require Import List Bool Arith ZArith QArith Qabs Lia.
From DV Require Import Common.Res Ext.Seq Ext.Model Orient.Model Orient.ProofsArr
     Wrapper.Model Wrapper.Spec Wrapper.ProofsArr Wrapper.ProofsMat Wrapper.ProofsMerge.
Import ListNotations.
Local Open Scope nat_scope.

Lemma resolve_merge_dim_ok sh odim dim :
  resolve_merge_dim sh odim = Ok dim -> dim < 5 /\ (dim < length sh -> nth dim sh 0 = 1).
Proof.
  unfold resolve_merge_dim. destruct odim as [d|].
  - destruct (d <? 5) eqn:E5; cbn [negb]; [|discriminate].
    destruct ((d <? length sh) && negb (nth d sh 0 =? 1)) eqn:E; [discriminate|]. intros [= <-].
    apply Nat.ltb_lt in E5. split; [exact E5|]. intros Hd.
    apply andb_false_iff in E as [E|E]; [apply Nat.ltb_ge in E; lia|].
    apply negb_false_iff, Nat.eqb_eq in E. exact E.
  - destruct sh as [|a [|b [|c [|t [|v r]]]]]; cbn [length]; try discriminate.
    + unfold last_singular. cbn [length seq combine fold_left fst snd].
      destruct (c =? 1) eqn:Ec; [|destruct (b =? 1) eqn:Eb; [|destruct (a =? 1) eqn:Ea]];
        intros [= <-]; (split; [lia|]); cbn [length nth]; intros Hl;
        try (apply Nat.eqb_eq; assumption); lia.
    + intros [= <-]. split; [lia|]. cbn [length]. lia.
Qed.

Section C03.
  Variable unitv : vec -> vec.

  Lemma nth_map_iaff (ims : list img) (d : img) i : i < length ims -> nth i (map iaff ims) [] = iaff (nth i ims d).
  Proof.
    intros H. rewrite (nth_indep (map iaff ims) [] (iaff d)) by (rewrite map_length; exact H). apply map_nth.
  Qed.

  (** the boolean loop invariant in the index form of [mergeable] *)
  Lemma inputs_okb_mergeable im0 rest dim n :
    let ims := im0 :: rest in
    uniform ims (ishape im0) -> (dim < length (ishape im0) -> nth dim (ishape im0) 0 = 1) ->
    (inputs_okb unitv dim (iaff im0) (let rsh := merged_shape (ishape im0) dim n in sel_axes 0 dim rsh rsh) None ims = true
     <-> mergeable unitv dim ims im0).
  Proof.
    intros ims Hu Hs. cbn zeta. rewrite lhs_shape_merged by exact Hs.
    rewrite inputs_okb_iff. unfold mergeable. change (nth 0 ims im0) with im0. split.
    - intros [Hall Hch]. split.
      + intros i Hi. apply Hall. apply nth_In, Hi.
      + intros Hd i Hi. specialize (Hch Hd). rewrite chain_ok_nth in Hch. specialize (Hch i).
        rewrite map_length in Hch. specialize (Hch Hi).
        rewrite !(nth_map_iaff ims im0) in Hch by lia. exact Hch.
    - intros [Ho Hst]. split.
      + intros im Hin. split.
        * destruct (In_nth ims im im0 Hin) as [i [Hi <-]]. apply Ho, Hi.
        * destruct (Hu im Hin) as [-> _]. apply broadcastable_refl.
      + intros Hd. rewrite chain_ok_nth. intros i Hi. rewrite map_length in Hi.
        rewrite !(nth_map_iaff ims im0) by lia. apply Hst; assumption.
  Qed.

  (** C03 (image): the voxels of the result at position [i] on the merge axis are input [i]'s voxels *)
  Lemma merge_data_law ims odim r im0 rest :
    ims = im0 :: rest -> uniform ims (ishape im0) ->
    from_sequence_img unitv ims odim = Ok r ->
    exists dim, resolve_merge_dim (ishape im0) odim = Ok dim /\
      ishape r = merged_shape (ishape im0) dim (length ims) /\ wf_img r /\
      forall idx, in_bounds (ishape r) idx = true ->
        aget (iarr r) idx = aget (iarr (nth (nth dim idx 0) ims im0)) (merge_src (ishape im0) dim idx).
  Proof.
    intros -> Hu H. unfold from_sequence_img in H.
    destruct (resolve_merge_dim (ishape im0) odim) as [dim|] eqn:Er; [|discriminate]. cbn [bind] in H.
    exists dim. split; [reflexivity|].
    destruct (resolve_merge_dim_ok _ _ _ Er) as [H5 Hs].
    destruct (merge_img_at_ok unitv _ _ _ H) as (im0' & rest' & E & _ & _ & Hr). injection E as <- <-.
    cbn zeta in Hr. subst r. cbn [ishape]. split; [reflexivity|]. split.
    - split; [apply merged_data_wf|]. cbn [iaff].
      assert (Hw0 : is_shape 4 4 (iaff im0) = true) by (apply (Hu im0 (or_introl eq_refl))).
      destruct (dim <? 3) eqn:Ed; [|exact Hw0]. apply set_col3_shape; [exact Hw0|]. apply Nat.ltb_lt in Ed. lia.
    - intros idx Hb. unfold iarr at 1. cbn [ishape idata].
      apply merged_data_get; [|exact Hs|exact Hb].
      intros im Hin. destruct (Hu im Hin) as [E [Hw _]]. split; assumption.
  Qed.

  (** C03 (image): the affine of the result *)
  Lemma merge_affine_law ims odim r dim im0 rest :
    ims = im0 :: rest -> is_shape 4 4 (iaff im0) = true ->
    resolve_merge_dim (ishape im0) odim = Ok dim ->
    from_sequence_img unitv ims odim = Ok r ->
    (dim < 3 ->
       2 <= length ims /\
       col3 (iaff r) dim = map Qred (vsub (trans_of (iaff (nth 1 ims im0))) (trans_of (iaff im0))) /\
       forall i k, i < 4 -> k < 4 -> ~ (i < 3 /\ k = dim) -> mentry (iaff r) i k = mentry (iaff im0) i k) /\
    (3 <= dim -> iaff r = iaff im0).
  Proof.
    intros -> Hw Er H. unfold from_sequence_img in H. rewrite Er in H. cbn [bind] in H.
    destruct (merge_img_at_ok unitv _ _ _ H) as (im0' & rest' & E & _ & Hn & Hr). injection E as <- <-.
    cbn zeta in Hr. subst r. cbn [iaff]. split.
    - intros Hd. replace (dim <? 3) with true by (symmetry; apply Nat.ltb_lt; exact Hd).
      split; [apply Hn, Hd|]. split.
      + unfold trans_of at 1 2. unfold col3 at 2 3. rewrite vsub3. cbn [map]. apply col3_set_col3_same; [exact Hw | lia].
      + intros i k Hi Hk Hne. rewrite mentry_set_col3 by (assumption || lia).
        destruct ((i <? 3) && (k =? dim)) eqn:E; [|reflexivity].
        apply andb_prop in E as [E1 E2]. apply Nat.ltb_lt in E1. apply Nat.eqb_eq in E2. exfalso. apply Hne. auto.
    - intros Hd. replace (dim <? 3) with false by (symmetry; apply Nat.ltb_ge; exact Hd). reflexivity.
  Qed.

  (** C03 (image): the header slice dim of the result *)
  Lemma merge_slice_law ims odim r im0 rest :
    ims = im0 :: rest -> from_sequence_img unitv ims odim = Ok r ->
    islice r = if all_same_slice (islice im0) (map islice rest) then islice im0 else None.
  Proof.
    intros -> H. unfold from_sequence_img in H.
    destruct (resolve_merge_dim (ishape im0) odim) as [dim|]; [|discriminate]. cbn [bind] in H.
    destruct (merge_img_at_ok unitv _ _ _ H) as (im0' & rest' & E & _ & _ & Hr). injection E as <- <-.
    cbn zeta in Hr. subst r. cbn [islice]. apply merge_slice_spec.
  Qed.

  (** C03 (image): refusal = ValueError, exactly when some test of the loop fails *)
  Lemma merge_refuse_law ims odim dim im0 rest :
    ims = im0 :: rest -> uniform ims (ishape im0) ->
    resolve_merge_dim (ishape im0) odim = Ok dim ->
    (from_sequence_img unitv ims odim = Err EValue <-> ~ mergeable unitv dim ims im0).
  Proof.
    intros -> Hu Er. unfold from_sequence_img. rewrite Er. cbn [bind].
    destruct (resolve_merge_dim_ok _ _ _ Er) as [_ Hs].
    pose proof (inputs_okb_mergeable im0 rest dim (length (im0 :: rest)) Hu Hs) as Hiff. cbn zeta in Hiff.
    split.
    - intros H Hm. apply Hiff in Hm.
      destruct (merge_img_at_err unitv _ _ _ H) as [[_ (a & b & E & Hf)]|[E _]]; [|discriminate E].
      injection E as <- <-. cbn zeta in Hf. congruence.
    - intros Hn. destruct (merge_img_at unitv (im0 :: rest) dim) as [r|e] eqn:E.
      + exfalso. apply Hn, Hiff.
        destruct (merge_img_at_ok unitv _ _ _ E) as (ia & ib & E' & Hok & _). injection E' as <- <-. exact Hok.
      + destruct (merge_img_at_err unitv _ _ _ E) as [[-> _]|[-> [E'|[Hd Hl]]]]; [reflexivity | discriminate E'|].
        exfalso. apply Hn. destruct rest; [|discriminate Hl]. split.
        * intros i Hi. cbn [length] in Hi. assert (i = 0) by lia. subst i. cbn [nth].
          unfold orient_okb. cbn [forallb]. rewrite !close_refl by (unfold orient_atol; apply Qle_bool_imp_le; reflexivity).
          reflexivity.
        * intros _ i Hi. cbn [length] in Hi. lia.
  Qed.

  (** C03 (image): a mergeable sequence of at least two inputs (one is enough for a non-spatial axis) is merged;
      nothing but ValueError is ever raised on uniform inputs *)
  Lemma merge_accept_law ims odim dim im0 rest :
    ims = im0 :: rest -> uniform ims (ishape im0) ->
    resolve_merge_dim (ishape im0) odim = Ok dim ->
    (2 <= length ims \/ 3 <= dim) ->
    ((exists r, from_sequence_img unitv ims odim = Ok r) <-> mergeable unitv dim ims im0) /\
    (forall e, from_sequence_img unitv ims odim = Err e -> e = EValue).
  Proof.
    intros -> Hu Er Hn. pose proof (merge_refuse_law _ odim dim im0 rest eq_refl Hu Er) as Href.
    assert (Herr : forall e, from_sequence_img unitv (im0 :: rest) odim = Err e -> e = EValue).
    { intros e H. unfold from_sequence_img in H. rewrite Er in H. cbn [bind] in H.
      destruct (merge_img_at_err unitv _ _ _ H) as [[-> _]|[-> [E'|[Hd Hl]]]]; [reflexivity | discriminate E' | lia]. }
    split; [|exact Herr]. split.
    - intros [r Hr] . destruct (merge_img_at unitv (im0 :: rest) dim) eqn:E.
      + unfold from_sequence_img in Hr. rewrite Er in Hr. cbn [bind] in Hr.
        destruct (resolve_merge_dim_ok _ _ _ Er) as [_ Hs].
        apply (inputs_okb_mergeable im0 rest dim (length (im0 :: rest)) Hu Hs).
        destruct (merge_img_at_ok unitv _ _ _ Hr) as (ia & ib & E' & Hok & _). injection E' as <- <-. exact Hok.
      + unfold from_sequence_img in Hr. rewrite Er in Hr. cbn [bind] in Hr. congruence.
    - intros Hm. destruct (from_sequence_img unitv (im0 :: rest) odim) as [r|e] eqn:E; [eauto|].
      pose proof (Herr e eq_refl) as ->. exfalso. apply (proj1 Href eq_refl), Hm.
  Qed.
End C03.

(** Reading of the step test: for a step [td] that the normalisation handles ([unit_ok]), the pair passes iff
    the step is not (numerically) zero and the cosine between the step and the merge axis of the later input
    is within 1e-6 + 1e-5 of 1. *)
Lemma step_test_reading unitv dim Ap A :
  let td := vsub (trans_of A) (trans_of Ap) in
  (near_zero td = false -> unit_ok unitv td) ->
  (bad_step unitv dim Ap A = false <->
   near_zero td = false /\
   (Qabs (dot (unitv td) (unitv (col3 A dim)) - 1) <= 11 # 1000000)%Q).
Proof.
  intros td Hok. unfold bad_step, step_dir. fold td.
  destruct (near_zero td) eqn:Enz.
  - rewrite Enz. cbn [orb]. split; [discriminate | intros [H _]; discriminate].
  - destruct (Hok eq_refl) as (c & _ & E & N).
    assert (Hl : length (unitv td) = 3).
    { rewrite (veq_length _ _ E). unfold vscale. rewrite map_length. reflexivity. }
    rewrite (near_zero_unit _ N Hl). cbn [orb]. rewrite negb_false_iff.
    unfold close, allclose. cbn [length Nat.eqb andb combine forallb fst snd]. rewrite andb_true_r.
    rewrite Qle_bool_iff. unfold step_atol, rtol_default.
    assert (Ht : ((1 # 1000000) + (1 # 100000) * Qabs 1 == 11 # 1000000)%Q) by reflexivity.
    rewrite Ht. split; [intros H; split; [reflexivity | exact H] | intros [_ H]; exact H].
Qed.

(** finite search: a boolean test over [i < n] either always holds or fails somewhere *)
Lemma bounded_bool_dec (f : nat -> bool) n :
  (forall i, i < n -> f i = true) \/ (exists i, i < n /\ f i = false).
Proof.
  induction n as [|n IH]; [left; intros i H; lia|].
  destruct IH as [H|[i [Hi Hf]]]; [|right; exists i; split; [lia | exact Hf]].
  destruct (f n) eqn:E; [left | right; exists n; split; [lia | exact E]].
  intros i Hi. destruct (Nat.eq_dec i n) as [->|Hn]; [exact E | apply H; lia].
Qed.

(** refusal, in the "some input ..." form *)
Lemma not_mergeable_iff unitv dim ims d :
  ~ mergeable unitv dim ims d <->
  (exists i, i < length ims /\ orient_okb unitv dim (iaff (nth 0 ims d)) (iaff (nth i ims d)) = false) \/
  (dim < 3 /\ exists i, S i < length ims /\
                        bad_step unitv dim (iaff (nth i ims d)) (iaff (nth (S i) ims d)) = true).
Proof.
  split.
  - intros Hn.
    destruct (bounded_bool_dec (fun i => orient_okb unitv dim (iaff (nth 0 ims d)) (iaff (nth i ims d))) (length ims))
      as [Ho|[i [Hi Hf]]]; [|left; exists i; split; assumption].
    destruct (Nat.lt_ge_cases dim 3) as [Hd|Hd].
    + destruct (bounded_bool_dec (fun i => negb (bad_step unitv dim (iaff (nth i ims d)) (iaff (nth (S i) ims d))))
                                 (length ims - 1)) as [Hs|[i [Hi Hf]]].
      * exfalso. apply Hn. split; [exact Ho|]. intros _ i Hi. apply negb_true_iff, Hs. lia.
      * right. split; [exact Hd|]. exists i. split; [lia|]. apply negb_false_iff, Hf.
    + exfalso. apply Hn. split; [exact Ho|]. intros Hd'. lia.
  - intros [[i [Hi Hf]]|[Hd [i [Hi Hf]]]] [Ho Hs].
    + rewrite (Ho i Hi) in Hf. discriminate.
    + rewrite (Hs Hd i Hi) in Hf. discriminate.
Qed.
