(** LINK between the two models of [NiftiWrapper.split]:
      [Ext.Split.split]        (ext-model agent: strided [take_axis] on the flat data, closed-form translation)
      [Wrapper.Model.split_w]  (this directory: multi-index [tabulate], cumulative translation update, and the
                                final [NiftiWrapper(split_nii)] check of the parent's extension).
    On the same image and an extension that passes [check_valid] they return the same outcome: the same exception,
    or piece by piece the same shape, slice dim, voxel list and extension, and affines equal entry by entry as
    rationals ([Qeq]: one model adds the column [i] times, the other multiplies by [i]).
    THE ONLY DIFFERENCE: [Ext.Split.split] does not model the [check_valid] of the parent's extension that
    [NiftiWrapper(split_nii)] performs for every piece; with an extension failing that check [split_w] raises
    MissingExtensionError where [Ext.Split.split] returns pieces ([split_models_differ]). *)
From Coq Require Import List Bool Arith ZArith QArith Qabs Lia.
From DV Require Import Common.Res Common.Str Common.Jv Ext.Types Ext.Seq Ext.SeqFacts Ext.Model Ext.Split Ext.ProofsSplit
     Orient.Model Orient.ProofsArr
     Wrapper.Model Wrapper.Spec Wrapper.ProofsArr Wrapper.ProofsMat Wrapper.ProofsSplit Wrapper.ProofsRT.
Import ListNotations.
Local Open Scope nat_scope.

Definition of_wimg (w : wimg) : img := mk_img (wi_shape w) (wi_data w) (wi_aff w) (wi_slice w).

(* ------------------------------------------------------------------------------------------- arithmetic *)

Lemma prod_list_prod l : prod_list l = prod l.
Proof.
  unfold prod_list. assert (G : forall a, fold_left Nat.mul l a = a * prod l).
  { induction l as [|x l IH]; intros a; cbn [fold_left prod]; [lia|]. rewrite IH. lia. }
  rewrite G. lia.
Qed.

Lemma prod_app a b : prod (a ++ b) = prod a * prod b.
Proof. induction a as [|x a IH]; cbn [app prod]; [lia|]. rewrite IH. lia. Qed.

Lemma prod_ones k : prod (repeat 1 k) = 1.
Proof. induction k as [|k IH]; cbn [repeat prod]; lia. Qed.

Lemma prod_split sh d : d < length sh -> prod sh = prod (firstn d sh) * nth d sh 0 * prod (skipn (S d) sh).
Proof.
  revert d. induction sh as [|x sh IH]; intros d H; cbn [length] in H; [lia|].
  destruct d as [|d]; [cbn [firstn skipn nth prod]; lia|].
  change (skipn (S (S d)) (x :: sh)) with (skipn (S d) sh). cbn [firstn nth prod]. rewrite (IH d) by lia. ring.
Qed.

Lemma oz_nth_error (l : list Z) m : oz (nth_error l m) = nth m l 0%Z.
Proof. revert m. induction l as [|x l IH]; intros [|m]; cbn [nth_error nth oz]; auto. Qed.

Lemma offset_ones_zeros k : offset (repeat 1 k) (repeat 0 k) = 0.
Proof. induction k as [|k IH]; [reflexivity|]. cbn [repeat offset]. rewrite IH. reflexivity. Qed.

Lemma offset_app_ones P : forall k p, length p = length P -> offset (P ++ repeat 1 k) (p ++ repeat 0 k) = offset P p.
Proof.
  induction P as [|a P IH]; intros k [|i p] Hl; cbn [length] in Hl; try discriminate.
  - cbn [app]. apply offset_ones_zeros.
  - cbn [app offset]. rewrite prod_app, prod_ones, IH by lia. ring.
Qed.

Lemma prod_set_one sh : forall d, prod (set_nth d 1 sh) = prod (firstn d sh) * prod (skipn (S d) sh).
Proof.
  induction sh as [|z sh IH]; intros [|d]; try reflexivity.
  change (skipn (S (S d)) (z :: sh)) with (skipn (S d) sh). cbn [set_nth firstn prod]. rewrite IH. ring.
Qed.

(** offsets around axis [d]: [q] is an index into the shape with axis [d] made singular *)
Lemma offset_at sh : forall d q i,
  d < length sh -> in_bounds (set_nth d 1 sh) q = true ->
  let opre := offset (firstn d sh) (firstn d q) in
  let osuf := offset (skipn (S d) sh) (skipn (S d) q) in
  offset sh (set_nth d i q) = (opre * nth d sh 0 + i) * prod (skipn (S d) sh) + osuf /\
  offset (set_nth d 1 sh) q = opre * prod (skipn (S d) sh) + osuf /\
  opre < prod (firstn d sh) /\ osuf < prod (skipn (S d) sh).
Proof.
  induction sh as [|x sh IH]; intros d q i Hd Hb; cbn [length] in Hd; [lia|].
  destruct q as [|y q]; [destruct d; discriminate Hb|].
  destruct d as [|d]; cbn [set_nth in_bounds] in Hb; apply andb_prop in Hb as [Hy Hb]; apply Nat.ltb_lt in Hy.
  - cbn [firstn skipn nth set_nth offset prod]. assert (y = 0) by lia. subst y.
    pose proof (offset_lt _ _ Hb). repeat split; lia.
  - destruct (IH d q i ltac:(lia) Hb) as (E1 & E2 & L1 & L2). cbn zeta in *.
    change (skipn (S (S d)) (x :: sh)) with (skipn (S d) sh).
    change (skipn (S (S d)) (y :: q)) with (skipn (S d) q).
    cbn [firstn nth set_nth offset prod]. rewrite E1, E2, prod_set_one.
    rewrite (prod_split sh d) by lia.
    set (A := prod (firstn d sh)) in *. set (B := prod (skipn (S d) sh)) in *. set (n := nth d sh 0) in *.
    set (o1 := offset (firstn d sh) (firstn d q)) in *. set (o2 := offset (skipn (S d) sh) (skipn (S d) q)) in *.
    repeat split; nia.
Qed.

Lemma remove_nth_removelast {A} (l : list A) : remove_nth (length l - 1) l = removelast l.
Proof.
  destruct l as [|x l']; [reflexivity|]. assert (Hne : x :: l' <> []) by discriminate.
  pose proof (app_removelast_last x Hne) as E. set (r := removelast (x :: l')) in *.
  rewrite E. rewrite app_length. cbn [length]. rewrite Nat.add_sub. apply remove_nth_last.
Qed.

(* ---------------------------------------------------------------------------------- the voxels of a piece *)

Lemma nth_all_indices sh k : k < prod sh ->
  in_bounds sh (nth k (all_indices sh) []) = true /\ offset sh (nth k (all_indices sh) []) = k.
Proof.
  intros Hk. rewrite <- all_indices_length in Hk. split.
  - apply all_indices_in, nth_In, Hk.
  - pose proof (map_offset_all_indices sh) as E.
    pose proof (f_equal (fun l => nth k l 0) E) as E'. cbn beta in E'.
    rewrite (nth_indep _ 0 (offset sh []) ) in E' by (rewrite map_length; exact Hk).
    rewrite map_nth in E'. rewrite E'. rewrite all_indices_length in Hk. rewrite seq_nth by exact Hk. reflexivity.
Qed.

(** the tabulated hyperplane is the strided slice of the flat data *)
Lemma piece_data_take_axis im d i :
  wf_arr (iarr im) -> d < length (ishape im) -> i < nth d (ishape im) 0 ->
  piece_data im d i =
  take_axis (prod_list (firstn d (ishape im))) (nth d (ishape im) 0) (prod_list (skipn (S d) (ishape im))) i (idata im).
Proof.
  intros Hwf Hd Hi. unfold wf_arr in Hwf. cbn [iarr ashape adata] in Hwf.
  set (sh := ishape im) in *. rewrite !prod_list_prod.
  set (outer := prod (firstn d sh)). set (n := nth d sh 0) in *. set (inner := prod (skipn (S d) sh)).
  assert (Hlen : length (idata im) = outer * n * inner) by (rewrite Hwf; apply prod_split, Hd).
  set (X := set_nth d 1 sh).
  assert (EP : piece_shape sh d = trim_ones X) by (apply piece_shape_eq, Hd).
  destruct (trim_ones_prefix X) as [k Hk]. set (P := trim_ones X) in *.
  assert (HpP : prod P = outer * inner).
  { transitivity (prod X); [rewrite Hk, prod_app, prod_ones; lia | apply prod_set_one]. }
  unfold piece_data. fold sh. rewrite EP. unfold tabulate. cbn [adata].
  apply (nth_ext _ _ 0%Z 0%Z).
  - rewrite map_length, all_indices_length, take_axis_length by assumption. exact HpP.
  - intros j Hj. rewrite map_length, all_indices_length in Hj.
    destruct (nth_all_indices P j Hj) as [Hb Ho]. set (p := nth j (all_indices P) []) in *.
    rewrite (nth_indep _ 0%Z (oz (aget (iarr im) (piece_src (length sh) d i [])))) by (rewrite map_length, all_indices_length; exact Hj).
    rewrite (map_nth (fun p => oz (aget (iarr im) (piece_src (length sh) d i p)))). fold p.
    assert (HX : length X = length sh) by apply set_nth_length.
    assert (Hq : in_bounds X (pad_zeros (length sh) p) = true) by (rewrite <- HX; apply in_bounds_trim_pad, Hb).
    assert (Hsrc : in_bounds sh (piece_src (length sh) d i p) = true) by (apply in_bounds_set_back; assumption).
    rewrite aget_in by (cbn [iarr ashape]; exact Hsrc). cbn [iarr ashape adata]. fold sh. rewrite oz_nth_error.
    destruct (offset_at sh d (pad_zeros (length sh) p) i Hd Hq) as (E1 & E2 & L1 & L2). cbn zeta in E1, E2, L1, L2.
    unfold piece_src. rewrite E1.
    assert (Ej : j = offset (firstn d sh) (firstn d (pad_zeros (length sh) p)) * inner +
                     offset (skipn (S d) sh) (skipn (S d) (pad_zeros (length sh) p))).
    { unfold inner. rewrite <- E2, <- Ho. unfold pad_zeros. fold X. rewrite Hk at 1.
      pose proof (in_bounds_length _ _ Hb) as Hlp.
      replace (length sh - length p) with k.
      - symmetry. apply offset_app_ones, Hlp.
      - rewrite <- HX, Hk, app_length, repeat_length, Hlp. lia. }
    rewrite Ej at 1. symmetry. apply take_axis_nth; assumption.
Qed.

(* --------------------------------------------------------------------------------------- the two models *)

Definition res_rel {A B} (P : A -> B -> Prop) (ra : res A) (rb : res B) : Prop :=
  match ra, rb with Ok a, Ok b => P a b | Err x, Err y => x = y | _, _ => False end.

Lemma mapM_rel {A B C D} (P : C -> D -> Prop) (f : A -> res C) (g : B -> res D) la lb :
  Forall2 (fun a b => res_rel P (f a) (g b)) la lb -> res_rel (Forall2 P) (mapM f la) (mapM g lb).
Proof.
  induction 1 as [|a b la lb Hab _ IH]; [constructor|]. cbn [mapM]. unfold res_rel in Hab.
  destruct (f a) as [c|x], (g b) as [d|y]; try contradiction; [|exact Hab].
  unfold res_rel in IH. destruct (mapM f la) as [cs|x], (mapM g lb) as [ds|y]; try contradiction; cbn [res_rel].
  - constructor; assumption.
  - exact IH.
Qed.

Lemma Forall2_of_nth {A B} (R : A -> B -> Prop) (da : A) (db : B) : forall la lb,
  length la = length lb -> (forall i, i < length la -> R (nth i la da) (nth i lb db)) -> Forall2 R la lb.
Proof.
  induction la as [|a la IH]; intros [|b lb] Hl H; cbn [length] in Hl; try discriminate; constructor.
  - apply (H 0). cbn [length]. lia.
  - apply IH; [lia|]. intros i Hi. apply (H (S i)). cbn [length]. lia.
Qed.

Lemma seq_set_nth_some {A} (l : list A) : forall d v, d < length l -> Seq.set_nth d v l = Some (set_nth d v l).
Proof.
  induction l as [|x l IH]; intros d v H; cbn [length] in H; [lia|].
  destruct d as [|d]; cbn [Seq.set_nth set_nth]; [reflexivity|]. rewrite IH by lia. reflexivity.
Qed.

Lemma ext_piece_shape_eq sh d : d < length sh -> Split.piece_shape sh d = piece_shape sh d.
Proof.
  intros Hd. unfold Split.piece_shape, piece_shape. rewrite seq_set_nth_some by exact Hd.
  destruct ((3 <=? d) && (d =? length sh - 1)) eqn:E; [|reflexivity].
  apply andb_prop in E as [_ E]. apply Nat.eqb_eq in E. rewrite E. f_equal. symmetry. apply remove_nth_removelast.
Qed.

Lemma is_shape_rows A : is_shape 4 4 A = true -> length A = 4 /\ Forall (fun row => length row = 4) A.
Proof.
  unfold is_shape. intros H. apply andb_prop in H as [H1 H2]. split; [apply Nat.eqb_eq, H1|].
  apply Forall_forall. intros r Hr. rewrite forallb_forall in H2. apply Nat.eqb_eq, H2, Hr.
Qed.

Definition piece_same {V} (a : wimg * ext V) (b : wrapper V) : Prop :=
  wi_shape (fst a) = ishape (fst b) /\ wi_slice (fst a) = islice (fst b) /\ wi_data (fst a) = idata (fst b) /\
  (forall r c, r < 4 -> c < 4 -> (mentry (wi_aff (fst a)) r c == mentry (iaff (fst b)) r c)%Q) /\
  snd a = snd b.

Section Link.
  Context {V : Type} (veqb : V -> V -> bool) (vnone : V).

  (** the two models of [NiftiWrapper.split] agree whenever the parent's extension passes [check_valid] *)
  Theorem split_models_agree (w : wimg) (e : ext V) odim :
    wf_img (of_wimg w) -> check_valid_e e = true ->
    res_rel (Forall2 piece_same) (Split.split veqb vnone w e odim) (split_w veqb vnone (of_wimg w, e) odim).
  Proof.
    intros Hwf Hchk. set (im := of_wimg w). unfold Split.split, split_w.
    change (split_dim w odim) with (resolve_split_dim im odim).
    destruct (resolve_split_dim im odim) as [d|x]; cbn [bind res_rel]; [|reflexivity].
    destruct (split_img_at im d) as [ps|x] eqn:Es.
    2:{ unfold split_img_at in Es. change (ishape im) with (wi_shape w) in Es.
        destruct (nth_error (wi_shape w) d); [discriminate | injection Es as <-; reflexivity]. }
    cbn [bind]. destruct (split_law im d ps im Es Hwf) as (Hd & Hlen & Hp).
    destruct (split_img_at_spec im d ps Es) as (_ & _ & Hnth).
    change (ishape im) with (wi_shape w) in Hd, Hlen.
    rewrite (nth_error_nth' _ 0 Hd). rewrite <- Hlen.
    apply mapM_rel. apply (Forall2_of_nth _ 0 (0, im)); [rewrite combine_length, !seq_length; lia|].
    intros i Hi. rewrite seq_length in Hi. rewrite seq_nth by exact Hi. cbn [Nat.add].
    rewrite combine_nth by apply seq_length. rewrite seq_nth by exact Hi. cbn [Nat.add fst snd].
    unfold split_piece, meta_dim. change (islice im) with (wi_slice w).
    assert (Eo : odim_is (wi_slice w) d = onat_eqb (wi_slice w) (Some d)) by (destruct (wi_slice w); reflexivity).
    rewrite Eo. unfold wrap_check. rewrite Hchk.
    assert (Hsame : forall r : ext V, piece_same
              (mk_wimg (Split.piece_shape (wi_shape w) d) (wi_slice w) (Split.add_trans (wi_aff w) d i)
                       (take_axis (prod_list (firstn d (wi_shape w))) (nth d (wi_shape w) 0)
                                  (prod_list (skipn (S d) (wi_shape w))) i (wi_data w)), r)
              (nth i ps im, r)).
    { intros r. destruct (Hp i Hi) as (Hsh & _ & Hsl & _ & Hsp & Hns). unfold piece_same. cbn [fst snd wi_shape wi_slice wi_data wi_aff].
      split; [rewrite Hsh, ext_piece_shape_eq by exact Hd; apply piece_shape_eq, Hd|].
      split; [symmetry; exact Hsl|]. split.
      - rewrite (Hnth i im Hi). cbn [idata]. symmetry. apply piece_data_take_axis; [apply Hwf | exact Hd | change (ishape im) with (wi_shape w); lia].
      - split; [|reflexivity]. intros r0 c Hr Hc. destruct Hwf as [_ HwA]. cbn [of_wimg iaff] in HwA.
        destruct (is_shape_rows _ HwA) as [Hl4 Hr4]. unfold mentry at 1.
        rewrite (add_trans_entry (wi_aff w) d i r0 c Hl4 Hr4 Hr Hc).
        destruct (Nat.ltb_spec d 3) as [H3|H3]; cbn [andb].
        + pose proof (Hsp H3 r0 c Hr Hc) as G. change (iaff im) with (wi_aff w) in G. unfold mentry in G |- *.
          destruct ((r0 <? 3) && (c =? 3)) eqn:E; [|rewrite G; reflexivity].
          apply andb_prop in E as [_ E3]. apply Nat.eqb_eq in E3. subst c. rewrite G. reflexivity.
        + rewrite (Hns H3). reflexivity. }
    destruct (onat_eqb (wi_slice w) (Some d)).
    - destruct (sdim (hdr_of e)) as [md|]; cbn [bind res_rel]; [|reflexivity].
      destruct (get_subset veqb vnone e md i) as [r|x]; cbn [bind res_rel]; [apply Hsame | reflexivity].
    - cbn [bind]. destruct (get_subset veqb vnone e d i) as [r|x]; cbn [bind res_rel]; [apply Hsame | reflexivity].
  Qed.
End Link.

(** ... and where they differ: an extension that fails [check_valid] (here: 3 values where the shape dictates 2).
    [NiftiWrapper(split_nii)] finds no valid extension: MissingExtensionError; [Ext.Split.split] returns pieces. *)
Definition bad_ext : ext jv :=
  mk_ext (mk_hdr [1; 1; 2] (Some 2) [[1; 0; 0; 0]; [0; 1; 0; 0]; [0; 0; 1; 0]; [0; 0; 0; 1]]%Q false false)
         [([107]%N, (GSlices, [JInt 1; JInt 2; JInt 3]))].
Definition bad_wimg : wimg := mk_wimg [1; 1; 2] (Some 2) [[1; 0; 0; 0]; [0; 1; 0; 0]; [0; 0; 1; 0]; [0; 0; 0; 1]]%Q [5; 6]%Z.

Lemma split_models_differ :
  check_valid_e bad_ext = false /\
  split_w jv_eqb JNull (of_wimg bad_wimg, bad_ext) (Some 0) = Err EMissingExt /\
  exists ps, Split.split jv_eqb JNull bad_wimg bad_ext (Some 0) = Ok ps /\ length ps = 1.
Proof. split; [vm_compute; reflexivity|]. split; [vm_compute; reflexivity|]. eexists. split; vm_compute; reflexivity. Qed.
