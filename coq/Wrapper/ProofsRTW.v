(** Wrapper level of C05: [split_w] followed by [from_sequence_w] reproduces image AND extension.
    Composition of the image half ([ProofsRT.split_merge_law]; the affine is reproduced as a Leibniz-equal matrix
    because the merged column is stored reduced and the parent's entries are reduced fractions) with the extension
    half ([Ext.ProofsRoundtrip.split_merge_strict], which takes the affine as an ARGUMENT). *)
From Coq Require Import List Bool Arith ZArith QArith Qabs Lia.
From DV Require Import Common.Res Common.Str Ext.Types Ext.Seq Ext.Model Ext.Spec Ext.ValidFacts Ext.ProofsSubset
     Ext.ProofsSimplifyCanon Ext.ProofsRoundtrip Orient.Model Orient.ProofsArr
     Wrapper.Model Wrapper.Spec Wrapper.ProofsArr Wrapper.ProofsMat Wrapper.ProofsMerge Wrapper.ProofsC03
     Wrapper.ProofsSplit Wrapper.ProofsRT Wrapper.ProofsW Wrapper.ProofsTotal Wrapper.ProofsLookupW.
Import ListNotations.
Local Open Scope nat_scope.

Lemma mapM_of_nth {A B} (f : A -> res B) (a : A) (b : B) : forall (l : list A) (out : list B),
  length out = length l -> (forall i, i < length l -> f (nth i l a) = Ok (nth i out b)) -> mapM f l = Ok out.
Proof.
  induction l as [|x l IH]; intros [|y out] Hl H; cbn [length] in Hl; try discriminate; [reflexivity|].
  pose proof (H 0 ltac:(cbn [length]; lia)) as H0. cbn [nth] in H0. cbn [mapM]. rewrite H0.
  rewrite (IH out ltac:(lia)); [reflexivity|]. intros i Hi. apply (H (S i)). cbn [length]. lia.
Qed.

Section RTW.
  Context {V : Type} (veqb : V -> V -> bool) (vnone : V).
  Hypothesis veqb_spec : forall a b, reflect (a = b) (veqb a b).

  Theorem split_merge_w unitv (im : img) (e : ext V) dim ws :
    wf_img im -> reduced (iaff im) -> consistent (im, e) ->
    rt_dom e -> canonical vnone e -> hdr_tight (hdr_of e) -> rt_axis e dim ->
    (dim < 3 -> near_zero (col3 (iaff im) dim) = false /\ unit_ok_at unitv (col3 (iaff im) dim)) ->
    split_w veqb vnone (im, e) (Some dim) = Ok ws ->
    exists r e', from_sequence_w veqb vnone unitv ws (Some dim) = Ok (r, e') /\
      ishape r = ishape im /\ idata r = idata im /\ iaff r = iaff im /\ islice r = islice im /\
      ext_equiv e e' /\ consistent (r, e') /\ rt_dom e' /\ canonical vnone e'.
  Proof.
    intros Hwf Hred Hcons Hdom Hcan Htight Hax Hu H.
    pose proof Hcons as (Hsh & Hsd & Haff). cbn [fst snd] in Hsh, Hsd, Haff.
    pose proof Hdom as (Hv & Hnd & Hnt & Hsdn).
    pose proof Hax as (_ & Hdn & Hn2). unfold ndim in Hdn. rewrite Hsh in Hdn, Hn2.
    destruct (split_w_spec veqb vnone im e (Some dim) ws H) as (dim' & ps & Er & Es & Hl & Hn).
    injection Er as <-.
    destruct (split_law im dim ps im Es Hwf) as (_ & Hlen & _).
    (* the image pieces are the first components *)
    assert (Efst : map fst ws = ps).
    { apply (nth_ext _ _ im im); [rewrite map_length; exact Hl|]. intros i Hi. rewrite map_length in Hi.
      unfold wrapper in *. rewrite Hl in Hi.
      change im with (fst (im, e)) at 1. rewrite map_nth. apply (Hn i im (im, e) Hi). }
    (* image half *)
    assert (Hn5 : length (ishape im) <= 5).
    { destruct Hv as [[Hn35 _] _]. unfold ndim in Hn35. rewrite Hsh in Hn35. lia. }
    destruct (split_merge_law unitv im dim ps Hwf Hn5 Es (or_introl Hn2) Hu)
      as (r & Hr & _ & Hrwf & _ & _ & Hrsl & Hrsd & Hraff).
    assert (Hnt1 : no_trailing_one (ishape im) dim).
    { unfold no_trailing1 in Hnt. rewrite Hsh in Hnt. apply orb_prop in Hnt as [G|G].
      - left. apply Nat.leb_le, G.
      - right. left. apply negb_true_iff, Nat.eqb_neq in G. exact G. }
    destruct (Hrsd Hnt1) as [Ersh Erdata]. specialize (Hraff Hred).
    (* extension half *)
    assert (Hsplit : split_all veqb vnone e dim = Ok (map snd ws)).
    { unfold split_all. apply (mapM_of_nth _ 0 e); [rewrite map_length, seq_length, Hsh; unfold wrapper in *; lia|].
      intros i Hi. rewrite seq_length, Hsh, <- Hlen in Hi. rewrite seq_nth by (rewrite Hsh, <- Hlen; exact Hi). cbn [Nat.add].
      destruct (Hn i im (im, e) Hi) as [_ (md & Hmd & Hg)].
      assert (md = dim) as ->.
      { unfold meta_dim in Hmd. destruct (onat_eqb (islice im) (Some dim)) eqn:E; [|congruence].
        rewrite Hsd in Hmd. destruct (islice im) as [s|]; [|discriminate E]. cbn [onat_eqb] in E.
        apply Nat.eqb_eq in E. congruence. }
      change e with (snd (im, e)) at 2. rewrite map_nth. exact Hg. }
    destruct (split_merge_strict veqb vnone veqb_spec e dim (Some (aff (hdr_of e))) (sdim (hdr_of e)) (map snd ws)
                Hdom Hcan Htight Hax (or_intror eq_refl) (or_intror eq_refl) Hsplit)
      as (e' & He' & Heq & Hdom' & Hcan').
    exists r, e'.
    (* assemble [from_sequence_w] *)
    assert (Hfs : from_sequence_w veqb vnone unitv ws (Some dim) = Ok (r, e')).
    { destruct ws as [|[im0 e0] rest]; [cbn [length] in Hl; lia|].
      unfold from_sequence_w. rewrite <- Efst in Hr. cbn [map fst] in Hr. unfold from_sequence_img in Hr.
      destruct (resolve_merge_dim (ishape im0) (Some dim)) as [d'|] eqn:Ed; [|discriminate]. cbn [bind] in Hr |- *.
      assert (d' = dim) as ->.
      { unfold resolve_merge_dim in Ed. destruct (negb (dim <? 5)); [discriminate|].
        destruct ((dim <? length (ishape im0)) && negb (nth dim (ishape im0) 0 =? 1)); [discriminate|]. congruence. }
      cbn [map fst]. rewrite Hr. cbn [bind]. cbn [map] in He' |- *. rewrite Hraff, Hrsl, <- Haff, <- Hsd.
      match goal with |- bind ?x _ = _ => assert (X : x = Ok e') by exact He'; rewrite X end. cbn [bind].
      unfold wrap_check. rewrite (valid_check_valid_e e' (proj1 Hdom')). reflexivity. }
    split; [exact Hfs|]. split; [exact Ersh|]. split; [exact Erdata|]. split; [exact Hraff|]. split; [exact Hrsl|].
    split; [exact Heq|]. split; [|split; assumption].
    destruct Heq as [Eh _]. split; [|split]; cbn [fst snd]; rewrite <- Eh; congruence.
  Qed.
End RTW.
