(** Correspondence glue for the image level of [NiftiWrapper]: cases carry the inputs as literals AND what
    the real code returned; [check_*] = the model returns exactly that.  Values are [jv].
    The square roots of [from_sequence] are instantiated with EXACT rational square roots ([unit_exact]);
    [merge_dom] tests that every vector the run normalises has a rational norm (the generators promise it),
    so a generator slip shows up as a mismatch instead of silently leaving the domain. *)
From Coq Require Import List Bool Arith ZArith NArith QArith Qabs.
From DV Require Import Common.Res Common.Str Common.Jv Ext.Types Ext.Seq Ext.Model Ext.Corr Orient.Model Wrapper.Model.
Import ListNotations.
Local Open Scope nat_scope.

(** * exact rational square roots *)
Definition zsqrt_exact (z : Z) : option Z :=
  let r := Z.sqrt z in if (r * r =? z)%Z then Some r else None.

Definition qsqrt (q : Q) : option Q :=
  let q' := Qred q in
  match zsqrt_exact (Qnum q'), zsqrt_exact (Zpos (Qden q')) with
  | Some a, Some (Zpos b) => Some (a # b)
  | _, _ => None
  end.

(** [v / sqrt(v.v)]; vectors without a rational norm (outside the correspondence domain) are returned as they are *)
Definition unit_exact (v : vec) : vec :=
  match qsqrt (norm2 v) with
  | Some n => map (fun x => (x / n)%Q) v
  | None => v
  end.

Definition rational_norm (v : vec) : bool :=
  match qsqrt (norm2 v) with Some n => negb (Qeq_bool n 0) | None => false end.

(** * observations *)
Definition jwrapper := wrapper jv.

Inductive wobs :=
| WOk (shape : list nat) (data : list Z) (aff : mat) (slice : option nat) (e : jext)
| WErr (e : err).

Fixpoint lz_eqb (a b : list Z) : bool :=
  match a, b with
  | [], [] => true
  | x :: xs, y :: ys => Z.eqb x y && lz_eqb xs ys
  | _, _ => false
  end.

Definition img_eqb (im : img) (sh : list nat) (d : list Z) (A : mat) (sl : option nat) : bool :=
  list_nat_eqb (ishape im) sh && lz_eqb (idata im) d && mat_eqb (iaff im) A && Model.onat_eqb (islice im) sl.

Definition w_matches (w : jwrapper) (o : wobs) : bool :=
  match o with
  | WOk sh d A sl e => img_eqb (fst w) sh d A sl && ext_eqb (snd w) e
  | WErr _ => false
  end.

Definition res_matches (r : res jwrapper) (o : wobs) : bool :=
  match r, o with
  | Ok w, WOk _ _ _ _ _ => w_matches w o
  | Err e, WErr e' => err_eqb e e'
  | _, _ => false
  end.

Fixpoint all2 {A B} (f : A -> B -> bool) (a : list A) (b : list B) : bool :=
  match a, b with
  | [], [] => true
  | x :: xs, y :: ys => f x y && all2 f xs ys
  | _, _ => false
  end.

(** the outcome of a call that returns a list of wrappers: either the pieces or the first exception *)
Inductive lobs := LOk (pieces : list wobs) | LErr (e : err).

Definition list_matches (r : res (list jwrapper)) (o : lobs) : bool :=
  match r, o with
  | Ok ws, LOk ps => all2 w_matches ws ps
  | Err e, LErr e' => err_eqb e e'
  | _, _ => false
  end.

(** a [dim] argument as Python sees it (negative values: ValueError in from_sequence; not generated for split) *)
Definition zdim (d : option Z) : option nat := option_map Z.to_nat d.
Definition neg_dim (d : option Z) : bool := match d with Some z => (z <? 0)%Z | None => false end.

(** * from_sequence *)
Record merge_case := mk_merge_case {
  mc_ws : list jwrapper; mc_dim : option Z;
  mc_obs : wobs;
  mc_untouched : bool }.        (* input images (data bytes, affines, dim_info) and extensions unchanged by the call *)

Definition run_merge (c : merge_case) : res jwrapper :=
  if neg_dim (mc_dim c) then Err EValue
  else from_sequence_w jv_eqb JNull unit_exact (mc_ws c) (zdim (mc_dim c)).

(** domain: images well formed; for a spatial merge axis every normalised vector has a rational norm *)
Definition merge_dom (c : merge_case) : bool :=
  forallb (fun w => wf_imgb (fst w)) (mc_ws c) &&
  match mc_ws c with
  | [] => true
  | (im0, _) :: _ =>
      match (if neg_dim (mc_dim c) then Err EValue else resolve_merge_dim (ishape im0) (zdim (mc_dim c))) with
      | Ok dim =>
          if dim <? 3 then
            forallb (fun w => rational_norm (col3 (iaff (fst w)) dim)) (mc_ws c) &&
            forallb (fun pq => let td := vsub (trans_of (iaff (fst (snd pq)))) (trans_of (iaff (fst (fst pq)))) in
                               near_zero td || rational_norm td)
                    (combine (mc_ws c) (tl (mc_ws c)))
          else true
      | Err _ => true
      end
  end.

Definition check_merge (c : merge_case) : bool :=
  merge_dom c && res_matches (run_merge c) (mc_obs c) && mc_untouched c.

Definition show_w (w : jwrapper) :=
  (ishape (fst w), idata (fst w), map (map Qred) (iaff (fst w)), islice (fst w), snd w).
Definition show_merge (c : merge_case) := (merge_dom c, rmap show_w (run_merge c)).

(** * split *)
Record split_case := mk_split_case {
  sc_w : jwrapper; sc_dim : option nat;
  sc_obs : lobs;
  sc_untouched : bool }.

Definition run_split (c : split_case) : res (list jwrapper) := split_w jv_eqb JNull (sc_w c) (sc_dim c).
Definition check_split (c : split_case) : bool :=
  wf_imgb (fst (sc_w c)) && list_matches (run_split c) (sc_obs c) && sc_untouched c.
Definition show_split (c : split_case) := rmap (map show_w) (run_split c).

(** * round trips *)
(** [rt_split_merge]: [from_sequence(list(w.split(dim)), dim)];  [rt_merge_split]: [list(from_sequence(ws, dim).split(dim))] *)
Record sm_case := mk_sm_case { sm_w : jwrapper; sm_dim : nat; sm_obs : wobs; sm_untouched : bool }.
Definition run_sm (c : sm_case) : res jwrapper :=
  match split_w jv_eqb JNull (sm_w c) (Some (sm_dim c)) with
  | Ok ps => from_sequence_w jv_eqb JNull unit_exact ps (Some (sm_dim c))
  | Err e => Err e
  end.
Definition sm_dom (c : sm_case) : bool :=
  wf_imgb (fst (sm_w c)) &&
  ((3 <=? sm_dim c) || rational_norm (col3 (iaff (fst (sm_w c))) (sm_dim c))).
Definition check_sm (c : sm_case) : bool := sm_dom c && res_matches (run_sm c) (sm_obs c) && sm_untouched c.
Definition show_sm (c : sm_case) := (sm_dom c, rmap show_w (run_sm c)).

Record ms_case := mk_ms_case { ms_ws : list jwrapper; ms_dim : nat; ms_obs : lobs; ms_untouched : bool }.
Definition run_ms (c : ms_case) : res (list jwrapper) :=
  match from_sequence_w jv_eqb JNull unit_exact (ms_ws c) (Some (ms_dim c)) with
  | Ok w => split_w jv_eqb JNull w (Some (ms_dim c))
  | Err e => Err e
  end.
Definition check_ms (c : ms_case) : bool :=
  merge_dom (mk_merge_case (ms_ws c) (Some (Z.of_nat (ms_dim c))) (WErr ECrash) true) &&
  list_matches (run_ms c) (ms_obs c) && ms_untouched c.
Definition show_ms (c : ms_case) := rmap (map show_w) (run_ms c).

Inductive rt_case := RtSM (c : sm_case) | RtMS (c : ms_case).
Definition check_rt (c : rt_case) : bool := match c with RtSM c => check_sm c | RtMS c => check_ms c end.
Definition show_rt (c : rt_case) :=
  match c with RtSM c => (rmap (fun w => [show_w w]) (run_sm c)) | RtMS c => show_ms c end.
