(** Index / shape arithmetic used by the image-level proofs: squeezed indices, the left-hand-side index of the
    merge assignment, trimmed shapes, padding, and extensionality of C-ordered arrays. *)
From Coq Require Import List Bool Arith ZArith QArith Lia.
From DV Require Import Common.Res Ext.Seq Ext.Model Orient.Model Orient.ProofsArr Wrapper.Model Wrapper.Spec.
Import ListNotations.
Local Open Scope nat_scope.

(* ------------------------------------------------------------------------------------ small list facts *)

Lemma nth_set_nth_same {A} (l : list A) : forall k x d, k < length l -> nth k (set_nth k x l) d = x.
Proof.
  induction l as [|y l IH]; intros k x d H; cbn [length] in H; [lia|].
  destruct k as [|k]; cbn [set_nth nth]; [reflexivity|]. apply IH. lia.
Qed.

Lemma nth_set_nth_other {A} (l : list A) : forall k j x d, j <> k -> nth j (set_nth k x l) d = nth j l d.
Proof.
  induction l as [|y l IH]; intros k j x d H; [destruct k; reflexivity|].
  destruct k as [|k], j as [|j]; cbn [set_nth nth]; try reflexivity; try lia. apply IH. lia.
Qed.

Lemma set_nth_length {A} (l : list A) : forall k x, length (set_nth k x l) = length l.
Proof.
  induction l as [|y l IH]; intros k x; [destruct k; reflexivity|].
  destruct k; cbn [set_nth length]; [reflexivity|]. f_equal. apply IH.
Qed.

Lemma set_nth_set_nth {A} (l : list A) : forall k x y, set_nth k x (set_nth k y l) = set_nth k x l.
Proof.
  induction l as [|z l IH]; intros k x y; [destruct k; reflexivity|].
  destruct k; cbn [set_nth]; [reflexivity|]. f_equal. apply IH.
Qed.

Lemma set_nth_nth_id {A} (l : list A) : forall k d, set_nth k (nth k l d) l = l.
Proof.
  induction l as [|z l IH]; intros k d; [destruct k; reflexivity|].
  destruct k; cbn [set_nth nth]; [reflexivity|]. f_equal. apply IH.
Qed.

Lemma set_nth_last {A} (l : list A) x y : set_nth (length l) y (l ++ [x]) = l ++ [y].
Proof. induction l as [|z l IH]; cbn [length app set_nth]; [reflexivity|]. f_equal. exact IH. Qed.

Lemma remove_nth_last {A} (l : list A) x : remove_nth (length l) (l ++ [x]) = l.
Proof. induction l as [|z l IH]; cbn [length app remove_nth]; [reflexivity|]. f_equal. exact IH. Qed.

Lemma lastn_all {A} (l : list A) : lastn (length l) l = l.
Proof. unfold lastn. rewrite Nat.sub_diag. reflexivity. Qed.

Lemma list_nat_eqb_refl l : list_nat_eqb l l = true.
Proof. induction l as [|x l IH]; cbn [list_nat_eqb]; [reflexivity|]. rewrite Nat.eqb_refl. exact IH. Qed.

Lemma list_nat_eqb_eq a : forall b, list_nat_eqb a b = true -> a = b.
Proof.
  induction a as [|x a IH]; intros [|y b] H; cbn [list_nat_eqb] in H; try discriminate; [reflexivity|].
  apply andb_prop in H as [H1 H2]. apply Nat.eqb_eq in H1. subst. f_equal. apply IH, H2.
Qed.

Lemma broadcastable_refl l : broadcastable l l = true.
Proof. unfold broadcastable. rewrite Nat.leb_refl, lastn_all. apply list_nat_eqb_refl. Qed.

Lemma firstn_same_length {A} (l : list A) n : n = length l -> firstn n l = l.
Proof. intros ->. apply firstn_all. Qed.

(* --------------------------------------------------------------------------------------------- squeeze *)

Lemma prod_squeeze sh : prod (squeeze_shape sh) = prod sh.
Proof.
  induction sh as [|n sh IH]; [reflexivity|]. cbn [squeeze_shape filter].
  destruct (Nat.eqb_spec n 1) as [->|Hn]; cbn [negb prod]; fold (squeeze_shape sh); rewrite IH; lia.
Qed.

Lemma offset_squeeze sh : forall idx,
  in_bounds sh idx = true -> offset (squeeze_shape sh) (squeeze_idx sh idx) = offset sh idx.
Proof.
  induction sh as [|n sh IH]; intros [|i idx] H; cbn [in_bounds] in H; try discriminate; [reflexivity|].
  apply andb_prop in H as [Hi H]. apply Nat.ltb_lt in Hi.
  cbn [squeeze_shape filter squeeze_idx]. fold (squeeze_shape sh).
  destruct (Nat.eqb_spec n 1) as [->|Hn]; cbn [negb offset].
  - rewrite (IH idx H). assert (i = 0) by lia. subst. lia.
  - rewrite (IH idx H), prod_squeeze. reflexivity.
Qed.

Lemma squeeze_idx_length sh : forall idx,
  length idx = length sh -> length (squeeze_idx sh idx) = length (squeeze_shape sh).
Proof.
  induction sh as [|n sh IH]; intros [|i idx] H; cbn [length] in H; try discriminate; [reflexivity|].
  cbn [squeeze_shape filter squeeze_idx]. fold (squeeze_shape sh).
  destruct (n =? 1); cbn [negb length]; rewrite IH by lia; reflexivity.
Qed.

Lemma squeeze_idx_firstn sh : forall idx, squeeze_idx sh (firstn (length sh) idx) = squeeze_idx sh idx.
Proof.
  induction sh as [|n sh IH]; intros idx; [destruct idx; reflexivity|].
  destruct idx as [|i idx]; [reflexivity|]. cbn [length firstn squeeze_idx]. rewrite IH. reflexivity.
Qed.

Lemma squeeze_idx_self sh : squeeze_idx sh sh = squeeze_shape sh.
Proof.
  induction sh as [|n sh IH]; [reflexivity|]. cbn [squeeze_idx squeeze_shape filter]. fold (squeeze_shape sh).
  destruct (n =? 1); cbn [negb]; rewrite IH; reflexivity.
Qed.

(** the coordinate on an axis of extent 1 does not matter *)
Lemma squeeze_idx_set_nth sh : forall d x idx,
  (d < length sh -> nth d sh 0 = 1) -> squeeze_idx sh (set_nth d x idx) = squeeze_idx sh idx.
Proof.
  induction sh as [|n sh IH]; intros d x idx H; [destruct idx, d; reflexivity|].
  destruct idx as [|i idx]; [destruct d; reflexivity|].
  destruct d as [|d]; cbn [set_nth squeeze_idx].
  - cbn [length nth] in H. rewrite H by lia. reflexivity.
  - rewrite IH; [reflexivity|]. intros Hd. cbn [length nth] in H. apply H. lia.
Qed.

(* -------------------------------------------------------------------- the LHS index of the merge assignment *)

Lemma pad_ones_cons m a l : pad_ones (S m) (a :: l) = a :: pad_ones m l.
Proof. reflexivity. Qed.

Lemma pad_ones_0 l : pad_ones 0 l = l.
Proof. unfold pad_ones. cbn [Nat.sub repeat]. apply app_nil_r. Qed.

Lemma pad_ones_nil m : pad_ones m [] = repeat 1 m.
Proof. unfold pad_ones. cbn [length app]. rewrite Nat.sub_0_r. reflexivity. Qed.

Lemma pad_ones_length m l : length (pad_ones m l) = Nat.max m (length l).
Proof. unfold pad_ones. rewrite app_length, repeat_length. lia. Qed.

Lemma merged_shape_length sh dim n : length (merged_shape sh dim n) = Nat.max (S dim) (length sh).
Proof. unfold merged_shape. rewrite set_nth_length. apply pad_ones_length. Qed.

Lemma sel_axes_above sh : forall k dim idx, dim < k -> sel_axes k dim sh idx = squeeze_idx sh idx.
Proof.
  induction sh as [|n sh IH]; intros k dim idx H; [reflexivity|].
  destruct idx as [|i idx]; [reflexivity|]. cbn [sel_axes squeeze_idx].
  replace (k =? dim) with false by (symmetry; apply Nat.eqb_neq; lia). rewrite orb_false_r.
  rewrite IH by lia. reflexivity.
Qed.

Lemma sel_axes_ones : forall d k n idx, sel_axes k (k + d) (set_nth d n (repeat 1 (S d))) idx = [].
Proof.
  induction d as [|d IH]; intros k n idx.
  - cbn [repeat set_nth]. destruct idx as [|i idx]; [reflexivity|]. cbn [sel_axes].
    rewrite Nat.add_0_r, Nat.eqb_refl, orb_true_r. destruct idx; reflexivity.
  - change (repeat 1 (S (S d))) with (1 :: repeat 1 (S d)). cbn [set_nth].
    destruct idx as [|i idx]; [reflexivity|]. cbn [sel_axes Nat.eqb orb].
    replace (k + S d) with (S k + d) by lia. apply IH.
Qed.

Lemma sel_axes_merged sh : forall d k n idx,
  (d < length sh -> nth d sh 0 = 1) ->
  sel_axes k (k + d) (set_nth d n (pad_ones (S d) sh)) idx = squeeze_idx sh (firstn (length sh) idx).
Proof.
  induction sh as [|a sh IH]; intros d k n idx H.
  - rewrite pad_ones_nil. rewrite sel_axes_ones. destruct idx; reflexivity.
  - rewrite pad_ones_cons. destruct idx as [|i idx]; [destruct d; reflexivity|].
    cbn [length firstn squeeze_idx]. destruct d as [|d]; cbn [set_nth sel_axes].
    + rewrite pad_ones_0, Nat.add_0_r, Nat.eqb_refl, orb_true_r.
      cbn [length nth] in H. rewrite H by lia. cbn [Nat.eqb].
      rewrite sel_axes_above by lia. symmetry. apply squeeze_idx_firstn.
    + replace (k =? k + S d) with false by (symmetry; apply Nat.eqb_neq; lia). rewrite orb_false_r.
      replace (k + S d) with (S k + d) by lia.
      rewrite IH; [reflexivity|]. intros Hd. cbn [length nth] in H. apply H. lia.
Qed.

(** ... in the form used by the model ([k = 0]) *)
Lemma sel_axes_merge_src sh dim n idx :
  (dim < length sh -> nth dim sh 0 = 1) ->
  sel_axes 0 dim (merged_shape sh dim n) idx = squeeze_idx sh (merge_src sh dim idx).
Proof.
  intros H. unfold merged_shape, merge_src.
  pose proof (sel_axes_merged sh dim 0 n idx H) as E. cbn [Nat.add] in E. rewrite E.
  rewrite !squeeze_idx_firstn. symmetry. apply squeeze_idx_set_nth, H.
Qed.

Lemma lhs_shape_merged sh dim n :
  (dim < length sh -> nth dim sh 0 = 1) ->
  sel_axes 0 dim (merged_shape sh dim n) (merged_shape sh dim n) = squeeze_shape sh.
Proof.
  intros H. rewrite sel_axes_merge_src by exact H. unfold merge_src.
  rewrite squeeze_idx_firstn, squeeze_idx_set_nth by exact H.
  unfold merged_shape.
  assert (G : forall sh d, (d < length sh -> nth d sh 0 = 1) ->
              squeeze_idx sh (set_nth d n (pad_ones (S d) sh)) = squeeze_shape sh).
  { clear. induction sh as [|a sh IH]; intros d Hd; [destruct (set_nth d n (pad_ones (S d) [])); reflexivity|].
    rewrite pad_ones_cons. destruct d as [|d]; cbn [set_nth squeeze_idx squeeze_shape filter]; fold (squeeze_shape sh).
    - cbn [length nth] in Hd. rewrite Hd by lia. cbn [Nat.eqb negb]. rewrite pad_ones_0. apply squeeze_idx_self.
    - destruct (a =? 1); cbn [negb]; rewrite IH; try reflexivity; intros Hx; cbn [length nth] in Hd; apply Hd; lia. }
  apply G, H.
Qed.

Lemma in_bounds_merged sh : forall d n idx,
  (d < length sh -> nth d sh 0 = 1) ->
  in_bounds (set_nth d n (pad_ones (S d) sh)) idx = true ->
  in_bounds sh (firstn (length sh) (set_nth d 0 idx)) = true.
Proof.
  induction sh as [|a sh IH]; intros d n idx H Hb; [reflexivity|].
  rewrite pad_ones_cons in Hb. destruct idx as [|i idx]; [destruct d; discriminate Hb|].
  destruct d as [|d]; cbn [set_nth in_bounds] in Hb; apply andb_prop in Hb as [Hi Hb];
    cbn [length set_nth firstn in_bounds].
  - cbn [length nth] in H. rewrite H by lia. cbn [Nat.ltb Nat.leb andb].
    rewrite pad_ones_0 in Hb. rewrite firstn_same_length; [exact Hb|].
    symmetry. apply in_bounds_length, Hb.
  - rewrite Hi. cbn [andb]. apply (IH d n idx); [|exact Hb].
    intros Hd. cbn [length nth] in H. apply H. lia.
Qed.

Lemma in_bounds_merge_src sh dim n idx :
  (dim < length sh -> nth dim sh 0 = 1) ->
  in_bounds (merged_shape sh dim n) idx = true ->
  in_bounds sh (merge_src sh dim idx) = true /\ nth dim idx 0 < n.
Proof.
  intros H Hb. split; [apply (in_bounds_merged sh dim n idx H Hb)|].
  pose proof (in_bounds_nth _ _ dim Hb) as Hn.
  rewrite merged_shape_length in Hn. specialize (Hn ltac:(lia)).
  unfold merged_shape in Hn. rewrite nth_set_nth_same in Hn; [exact Hn|].
  rewrite pad_ones_length. lia.
Qed.

(* ------------------------------------------------------------------------------------------ trimmed shapes *)

Lemma trim_fuel_prefix f : forall l, exists k, l = trim_fuel f l ++ repeat 1 k.
Proof.
  induction f as [|f IH]; intros l; [exists 0; cbn [trim_fuel repeat]; symmetry; apply app_nil_r|].
  cbn [trim_fuel]. destruct ((3 <? length l) && (last l 0 =? 1)) eqn:E.
  - apply andb_prop in E as [E1 E2]. apply Nat.ltb_lt in E1. apply Nat.eqb_eq in E2.
    assert (Hne : l <> []) by (intros ->; cbn in E1; lia).
    destruct (IH (removelast l)) as [k Hk]. exists (S k).
    rewrite (app_removelast_last 0 Hne) at 1. rewrite E2.
    rewrite Hk at 1. rewrite <- app_assoc. f_equal. cbn [repeat]. symmetry. apply repeat_cons.
  - exists 0. cbn [repeat]. symmetry. apply app_nil_r.
Qed.

Lemma trim_ones_prefix l : exists k, l = trim_ones l ++ repeat 1 k.
Proof. apply trim_fuel_prefix. Qed.

Lemma trim_ones_app_one l : 3 <= length l -> trim_ones (l ++ [1]) = trim_ones l.
Proof.
  intros H. unfold trim_ones. rewrite app_length. cbn [length]. rewrite Nat.add_1_r. cbn [trim_fuel].
  rewrite app_length, last_last. cbn [length]. replace (3 <? length l + 1) with true by (symmetry; apply Nat.ltb_lt; lia).
  cbn [Nat.eqb andb]. rewrite removelast_last. reflexivity.
Qed.

Lemma trim_ones_app_ones l k : 3 <= length l -> trim_ones (l ++ repeat 1 k) = trim_ones l.
Proof.
  intros H. induction k as [|k IH]; [cbn [repeat]; rewrite app_nil_r; reflexivity|].
  cbn [repeat]. rewrite repeat_cons, app_assoc, trim_ones_app_one; [exact IH|].
  rewrite app_length. lia.
Qed.

Lemma trim_ones_id l : length l <= 3 \/ last l 0 <> 1 -> trim_ones l = l.
Proof.
  intros H. unfold trim_ones. destruct (length l) as [|f] eqn:El; [reflexivity|]. cbn [trim_fuel].
  replace ((3 <? length l) && (last l 0 =? 1)) with false; [reflexivity|].
  symmetry. apply andb_false_iff. destruct H as [H|H]; [left; apply Nat.ltb_ge; lia | right; apply Nat.eqb_neq; exact H].
Qed.

Lemma trim_ones_length_ge l : 3 <= length l -> 3 <= length (trim_ones l).
Proof.
  unfold trim_ones. generalize (length l) at 2 as f. intros f. revert l.
  induction f as [|f IH]; intros l H; [exact H|]. cbn [trim_fuel].
  destruct ((3 <? length l) && (last l 0 =? 1)) eqn:E; [|exact H].
  apply andb_prop in E as [E1 _]. apply Nat.ltb_lt in E1. apply IH.
  assert (Hne : l <> []) by (intros ->; cbn in E1; lia).
  pose proof (f_equal (@length nat) (app_removelast_last 0 Hne)) as Hl.
  rewrite app_length in Hl. cbn [length] in Hl. lia.
Qed.

(** the rule of [split] that drops the split axis when it is the last one (>= 3) agrees with "keep it, then trim" *)
Lemma piece_shape_eq sh dim : dim < length sh -> piece_shape sh dim = trim_ones (set_nth dim 1 sh).
Proof.
  intros H. unfold piece_shape.
  destruct ((3 <=? dim) && (dim =? length sh - 1)) eqn:E; [|reflexivity].
  apply andb_prop in E as [E1 E2]. apply Nat.leb_le in E1. apply Nat.eqb_eq in E2.
  assert (Hne : sh <> []) by (intros ->; cbn in H; lia).
  assert (Hl : length (removelast sh) = dim).
  { pose proof (f_equal (@length nat) (app_removelast_last 0 Hne)) as Hl.
    rewrite app_length in Hl. cbn [length] in Hl. lia. }
  rewrite (app_removelast_last 0 Hne). rewrite <- Hl.
  rewrite remove_nth_last, set_nth_last, trim_ones_app_one; [reflexivity | lia].
Qed.

(* ------------------------------------------------------------------------------------------- padded indices *)

Lemma in_bounds_ones_zeros k : in_bounds (repeat 1 k) (repeat 0 k) = true.
Proof. induction k as [|k IH]; [reflexivity|]. cbn [repeat in_bounds]. exact IH. Qed.

Lemma in_bounds_app_ones P k p :
  in_bounds P p = true -> in_bounds (P ++ repeat 1 k) (p ++ repeat 0 k) = true.
Proof.
  intros H. rewrite in_bounds_app by (apply in_bounds_length, H). rewrite H. apply in_bounds_ones_zeros.
Qed.

Lemma in_bounds_trim_pad X p :
  in_bounds (trim_ones X) p = true -> in_bounds X (pad_zeros (length X) p) = true.
Proof.
  intros H. destruct (trim_ones_prefix X) as [k Hk].
  pose proof (in_bounds_length _ _ H) as Hl.
  unfold pad_zeros. rewrite Hk at 1 2. rewrite app_length, repeat_length, Hl.
  replace (length (trim_ones X) + k - length (trim_ones X)) with k by lia.
  apply in_bounds_app_ones, H.
Qed.

Lemma in_bounds_set_back sh : forall dim i Y,
  dim < length sh -> i < nth dim sh 0 ->
  in_bounds (set_nth dim 1 sh) Y = true -> in_bounds sh (set_nth dim i Y) = true.
Proof.
  induction sh as [|a sh IH]; intros dim i Y Hd Hi HY; cbn [length] in Hd; [lia|].
  destruct Y as [|y Y]; [destruct dim; discriminate HY|].
  destruct dim as [|dim]; cbn [set_nth in_bounds nth] in *; apply andb_prop in HY as [H1 H2].
  - rewrite H2, andb_true_r. apply Nat.ltb_lt. exact Hi.
  - rewrite H1. cbn [andb]. apply IH; [lia | exact Hi | exact H2].
Qed.

(** the source index of a voxel of a piece is inside the parent *)
Lemma piece_src_in_bounds sh dim i p :
  dim < length sh -> i < nth dim sh 0 ->
  in_bounds (piece_shape sh dim) p = true ->
  in_bounds sh (piece_src (length sh) dim i p) = true.
Proof.
  intros Hd Hi Hp. rewrite piece_shape_eq in Hp by exact Hd.
  apply in_bounds_trim_pad in Hp. rewrite set_nth_length in Hp.
  unfold piece_src. apply in_bounds_set_back; assumption.
Qed.

(** coordinates on trailing axes of extent 1 are 0 *)
Lemma in_bounds_tail_zeros P : forall k Y,
  in_bounds (P ++ repeat 1 k) Y = true -> Y = firstn (length P) Y ++ repeat 0 k.
Proof.
  induction P as [|a P IH]; intros k Y H.
  - cbn [app length firstn] in *. revert Y H. induction k as [|k IHk]; intros [|y Y] H; cbn [repeat in_bounds] in H;
      try discriminate; [reflexivity|].
    apply andb_prop in H as [H1 H2]. apply Nat.ltb_lt in H1. cbn [repeat]. f_equal; [lia | apply IHk, H2].
  - destruct Y as [|y Y]; [discriminate H|]. cbn [app in_bounds] in H. apply andb_prop in H as [_ H].
    cbn [length firstn app]. f_equal. apply IH, H.
Qed.

(* ---------------------------------------------------------------------------- arrays are their lookup tables *)

Lemma aget_in a idx :
  in_bounds (ashape a) idx = true -> aget a idx = nth_error (adata a) (offset (ashape a) idx).
Proof. intros H. unfold aget. rewrite H. reflexivity. Qed.

Lemma map_add_seq : forall n a b, map (fun t => a + t) (seq b n) = seq (a + b) n.
Proof.
  induction n as [|n IH]; intros a b; [reflexivity|]. cbn [seq map]. f_equal.
  rewrite IH. f_equal. lia.
Qed.

Lemma seq_blocks P : forall n s,
  flat_map (fun i => map (fun t => i * P + t) (seq 0 P)) (seq s n) = seq (s * P) (n * P).
Proof.
  induction n as [|n IH]; intros s; [reflexivity|].
  cbn [seq flat_map]. rewrite IH. replace (S n * P) with (P + n * P) by lia.
  rewrite seq_app. f_equal; [|f_equal; lia].
  rewrite map_add_seq. f_equal. lia.
Qed.

Lemma map_flat_map {A B C} (f : B -> C) (g : A -> list B) l :
  map f (flat_map g l) = flat_map (fun x => map f (g x)) l.
Proof. induction l as [|x l IH]; [reflexivity|]. cbn [flat_map]. rewrite map_app, IH. reflexivity. Qed.

(** [all_indices] enumerates the multi-indices in the order of their offsets *)
Lemma map_offset_all_indices sh : map (offset sh) (all_indices sh) = seq 0 (prod sh).
Proof.
  induction sh as [|n sh IH]; [reflexivity|].
  cbn [all_indices prod]. rewrite map_flat_map.
  rewrite (flat_map_ext _ (fun i => map (fun t => i * prod sh + t) (seq 0 (prod sh)))).
  - apply (seq_blocks (prod sh) n 0).
  - intros i. rewrite map_map. cbn [offset]. rewrite <- IH, map_map. reflexivity.
Qed.

Lemma map_nth_error_seq (d : list Z) : map (fun k => oz (nth_error d k)) (seq 0 (length d)) = d.
Proof.
  induction d as [|x d IH]; [reflexivity|]. cbn [length seq map nth_error oz]. f_equal.
  rewrite <- seq_shift, map_map. cbn [nth_error]. exact IH.
Qed.

Lemma tabulate_ext sh f g :
  (forall idx, in_bounds sh idx = true -> f idx = g idx) -> tabulate sh f = tabulate sh g.
Proof.
  intros H. unfold tabulate. f_equal. apply map_ext_in. intros idx Hin.
  apply all_indices_in in Hin. rewrite (H idx Hin). reflexivity.
Qed.

Lemma tabulate_aget a : wf_arr a -> tabulate (ashape a) (aget a) = a.
Proof.
  intros Hwf. destruct a as [sh d]. unfold wf_arr in Hwf. cbn [ashape adata] in *.
  unfold tabulate. f_equal.
  rewrite (map_ext_in _ (fun idx => oz (nth_error d (offset sh idx)))).
  - rewrite <- (map_map (offset sh) (fun k => oz (nth_error d k))), map_offset_all_indices, <- Hwf.
    apply map_nth_error_seq.
  - intros idx Hin. apply all_indices_in in Hin. unfold aget. cbn [ashape adata]. rewrite Hin. reflexivity.
Qed.

(** two well-formed arrays of the same shape with the same lookups are equal *)
Lemma arr_ext a b :
  wf_arr a -> wf_arr b -> ashape a = ashape b ->
  (forall idx, in_bounds (ashape a) idx = true -> aget a idx = aget b idx) -> a = b.
Proof.
  intros Ha Hb Hs H. rewrite <- (tabulate_aget a Ha), <- (tabulate_aget b Hb), <- Hs.
  apply tabulate_ext, H.
Qed.

Lemma all_indices_ones k : all_indices (repeat 1 k) = [repeat 0 k].
Proof. induction k as [|k IH]; [reflexivity|]. cbn [repeat all_indices seq flat_map]. rewrite IH. reflexivity. Qed.

Lemma all_indices_app_ones P k :
  all_indices (P ++ repeat 1 k) = map (fun p => p ++ repeat 0 k) (all_indices P).
Proof.
  induction P as [|a P IH]; [cbn [app all_indices map]; apply all_indices_ones|].
  cbn [app all_indices]. rewrite map_flat_map. apply flat_map_ext. intros i.
  rewrite IH, !map_map. reflexivity.
Qed.

(** lookup in a well-formed array at an in-bounds index *)
Lemma aget_some a idx : wf_arr a -> in_bounds (ashape a) idx = true -> aget a idx = Some (oz (aget a idx)).
Proof. intros Hwf H. destruct (wf_aget a idx Hwf H) as [v ->]. reflexivity. Qed.
