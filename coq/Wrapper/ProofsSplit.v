(** Lemmas about [split_img] / [split_w] (image half of C04, split half of C07). *)
From Coq Require Import List Bool Arith ZArith QArith Qabs Lia.
From DV Require Import Common.Res Common.Str Ext.Types Ext.Seq Ext.Model Ext.ProofsSubset Orient.Model Orient.ProofsArr
     Wrapper.Model Wrapper.Spec Wrapper.ProofsArr Wrapper.ProofsMat.
Import ListNotations.
Local Open Scope nat_scope.

Lemma split_img_at_spec im dim ps :
  split_img_at im dim = Ok ps ->
  dim < length (ishape im) /\ length ps = nth dim (ishape im) 0 /\
  forall i d, i < length ps ->
    nth i ps d = mk_img (piece_shape (ishape im) dim) (piece_data im dim i)
                        (nth i (split_affs (iaff im) (if dim <? 3 then Some (col3 (iaff im) dim) else None) (length ps)) [])
                        (islice im).
Proof.
  unfold split_img_at. destruct (nth_error (ishape im) dim) as [n|] eqn:En; [|discriminate]. intros [= <-].
  assert (Hd : dim < length (ishape im)) by (apply nth_error_Some; congruence).
  assert (Hn : nth dim (ishape im) 0 = n) by (apply nth_error_nth; exact En).
  rewrite map_length, combine_length, seq_length, split_affs_length, Nat.min_id.
  split; [exact Hd|]. split; [symmetry; exact Hn|]. intros i d Hi.
  set (f := fun ia : nat * mat => _).
  rewrite (nth_indep _ d (f (0, []))) by (rewrite map_length, combine_length, seq_length, split_affs_length; lia).
  rewrite map_nth, combine_nth by (rewrite seq_length, split_affs_length; reflexivity).
  subst f. cbn [fst snd]. rewrite seq_nth by exact Hi. reflexivity.
Qed.

(** C04 (image) *)
Lemma split_law im dim ps (d : img) :
  split_img_at im dim = Ok ps -> wf_img im ->
  dim < length (ishape im) /\
  length ps = nth dim (ishape im) 0 /\
  forall i, i < length ps ->
    let p := nth i ps d in
    ishape p = trim_ones (set_nth dim 1 (ishape im)) /\ wf_img p /\ islice p = islice im /\
    (forall idx, in_bounds (ishape p) idx = true ->
                 aget (iarr p) idx = aget (iarr im) (piece_src (length (ishape im)) dim i idx)) /\
    (dim < 3 -> shifted_by (iaff im) dim i (iaff p)) /\
    (3 <= dim -> iaff p = iaff im).
Proof.
  intros H [Hwa Hws]. destruct (split_img_at_spec im dim ps H) as (Hd & Hl & Hnth).
  split; [exact Hd|]. split; [exact Hl|]. intros i Hi. cbn zeta. rewrite (Hnth i d Hi). cbn [ishape islice iaff].
  split; [apply piece_shape_eq, Hd|]. split; [|split; [reflexivity|]].
  - split; [unfold piece_data; apply (wf_tabulate (piece_shape (ishape im) dim))|]. cbn [iaff].
    destruct (dim <? 3); [rewrite split_affs_some by exact Hi; apply aff_shift_shape, Hws
                         | rewrite split_affs_none by exact Hi; exact Hws].
  - split; [|split].
    + intros idx Hb. unfold iarr at 1. cbn [ishape idata]. unfold piece_data.
      change {| ashape := ?s; adata := adata (tabulate ?s ?f) |} with (tabulate s f).
      rewrite aget_tabulate by exact Hb.
      symmetry. apply aget_some; [exact Hwa|]. cbn [iarr ashape].
      apply piece_src_in_bounds; [exact Hd | lia | exact Hb].
    + intros Hd3. replace (dim <? 3) with true by (symmetry; apply Nat.ltb_lt; exact Hd3).
      rewrite split_affs_some by exact Hi. intros r c Hr Hc.
      pose proof (aff_shift_entries (iaff im) (mentry (iaff im) 0 dim) (mentry (iaff im) 1 dim) (mentry (iaff im) 2 dim)
                                    i r c Hws Hr Hc) as G.
      change [mentry (iaff im) 0 dim; mentry (iaff im) 1 dim; mentry (iaff im) 2 dim] with (col3 (iaff im) dim) in G.
      destruct ((r <? 3) && (c =? 3)) eqn:E; [|exact G].
      apply andb_prop in E as [E1 _]. apply Nat.ltb_lt in E1.
      rewrite G. unfold col3. destruct r as [|[|[|r]]]; try lia; reflexivity.
    + intros Hd3. replace (dim <? 3) with false by (symmetry; apply Nat.ltb_ge; exact Hd3).
      apply split_affs_none, Hi.
Qed.

(** piece 0 keeps the parent's affine as it is *)
Lemma split_first_affine im dim ps (d : img) :
  split_img_at im dim = Ok ps -> 0 < length ps -> iaff (nth 0 ps d) = iaff im.
Proof.
  intros H Hl. destruct (split_img_at_spec im dim ps H) as (_ & _ & Hnth). rewrite (Hnth 0 d Hl). cbn [iaff].
  destruct (length ps) as [|n]; [lia|]. reflexivity.
Qed.

(** default split dimension: the last axis; for a 3-D image the header's slice dim *)
Lemma resolve_split_dim_spec im odim dim :
  resolve_split_dim im odim = Ok dim ->
  match odim with
  | Some d => dim = d
  | None => if length (ishape im) - 1 =? 2 then islice im = Some dim else dim = length (ishape im) - 1
  end.
Proof.
  unfold resolve_split_dim. destruct odim as [d|]; [intros [= <-]; reflexivity|].
  destruct (length (ishape im) - 1 =? 2); [|intros [= <-]; reflexivity].
  destruct (islice im); [intros [= <-]; reflexivity | discriminate].
Qed.

(* ----------------------------------------------------------------------------------------------- wrappers *)

Lemma seq_set_nth_total {A} (l : list A) : forall d (v : A) l',
  Seq.set_nth d v l = Some l' -> l' = set_nth d v l /\ d < length l.
Proof.
  induction l as [|x l IH]; intros d v l' H; [destruct d; discriminate|].
  destruct d as [|d]; cbn [Seq.set_nth] in H.
  - injection H as <-. split; [reflexivity | cbn [length]; lia].
  - destruct (Seq.set_nth d v l) as [l2|] eqn:E; [|discriminate]. cbn [option_map] in H. injection H as <-.
    destruct (IH _ _ _ E) as [-> Hd]. split; [reflexivity | cbn [length]; lia].
Qed.

Lemma mapM_nth {A B} (f : A -> res B) : forall l out,
  mapM f l = Ok out -> length out = length l /\ forall i a b, i < length l -> f (nth i l a) = Ok (nth i out b).
Proof.
  induction l as [|x l IH]; intros out H.
  - injection H as <-. split; [reflexivity|]. intros i a b Hi. cbn in Hi. lia.
  - cbn [mapM] in H. destruct (f x) as [y|] eqn:Ef; [|discriminate].
    destruct (mapM f l) as [ys|] eqn:Em; [|discriminate]. injection H as <-.
    destruct (IH ys eq_refl) as [Hl Hn]. split; [cbn [length]; congruence|].
    intros i a b Hi. destruct i as [|i]; [exact Ef|]. cbn [nth]. apply Hn. cbn [length] in Hi. lia.
Qed.

Section WithV.
  Context {V : Type} (veqb : V -> V -> bool) (vnone : V).

  (** what [split_w] returns: the image pieces of [split_img], each with the sub-extension along [meta_dim] *)
  Lemma split_w_spec (im : img) (e : ext V) odim ws :
    split_w veqb vnone (im, e) odim = Ok ws ->
    exists dim ps,
      resolve_split_dim im odim = Ok dim /\ split_img_at im dim = Ok ps /\ length ws = length ps /\
      forall i (d : img) (dw : wrapper V), i < length ps ->
        fst (nth i ws dw) = nth i ps d /\
        exists md, meta_dim im e dim = Some md /\ get_subset veqb vnone e md i = Ok (snd (nth i ws dw)).
  Proof.
    unfold split_w. intros H.
    destruct (resolve_split_dim im odim) as [dim|] eqn:Er; [|discriminate]. cbn [bind] in H.
    destruct (split_img_at im dim) as [ps|] eqn:Es; [|discriminate]. cbn [bind] in H.
    exists dim, ps. split; [first [exact Er | reflexivity]|]. split; [first [exact Es | reflexivity]|].
    destruct (mapM_nth _ _ _ H) as [Hl Hn]. rewrite combine_length, seq_length, Nat.min_id in Hl.
    split; [exact Hl|]. intros i d dw Hi.
    specialize (Hn i (0, d) dw). rewrite combine_length, seq_length, Nat.min_id in Hn. specialize (Hn Hi).
    rewrite combine_nth in Hn by apply seq_length. rewrite seq_nth in Hn by exact Hi. cbn [fst snd Nat.add] in Hn.
    destruct (meta_dim im e dim) as [md|]; [|discriminate].
    destruct (get_subset veqb vnone e md i) as [pe|] eqn:Eg; [|discriminate]. cbn [bind] in Hn.
    destruct (wrap_check e); [|discriminate]. cbn [bind] in Hn. injection Hn as Hn.
    rewrite <- Hn. cbn [fst snd]. split; [reflexivity|]. exists md. split; [reflexivity | first [exact Eg | reflexivity]].
  Qed.

  (** C04 / C07 (the F5 repair): when the parent's extension records the image's shape and slice dim, every
      piece's extension records the piece's image shape, slice dim, and the parent's 3x3 part *)
  Lemma split_w_agree (im : img) (e : ext V) odim ws (dw : wrapper V) :
    split_w veqb vnone (im, e) odim = Ok ws -> wf_img im ->
    shape (hdr_of e) = ishape im -> sdim (hdr_of e) = islice im ->
    forall i, i < length ws ->
      let p := nth i ws dw in
      shape (hdr_of (snd p)) = ishape (fst p) /\
      sdim (hdr_of (snd p)) = islice (fst p) /\
      aff (hdr_of (snd p)) = aff (hdr_of e).
  Proof.
    intros H Hwf Hsh Hsd i Hi. cbn zeta.
    destruct (split_w_spec im e odim ws H) as (dim & ps & Er & Es & Hl & Hn).
    rewrite Hl in Hi. destruct (Hn i (fst dw) dw Hi) as [Hf (md & Hmd & Hg)].
    destruct (split_law im dim ps (fst dw) Es Hwf) as (Hd & _ & Hp).
    destruct (Hp i Hi) as (Hps & _ & Hpsl & _). rewrite Hf, Hps, Hpsl.
    destruct (subset_shape_law veqb vnone e _ md i Hg) as (sh' & Hset & Hshape & Hsdim & Haff).
    assert (Emd : md = dim).
    { unfold meta_dim in Hmd. destruct (onat_eqb (islice im) (Some dim)) eqn:E; [|congruence].
      rewrite Hsd in Hmd. destruct (islice im) as [s|]; [|discriminate E]. cbn [onat_eqb] in E.
      apply Nat.eqb_eq in E. congruence. }
    subst md. apply seq_set_nth_total in Hset as [-> _]. rewrite Hshape, Hsdim, Hsh, Hsd. auto.
  Qed.
End WithV.
