(** Totality of [NiftiWrapper.split] (image level of C04 / C05, model Wrapper/Model.v): [split_img] returns [Ok]
    for every axis of the image (and for [dim = None] unless the image is 3-D without a header slice dim);
    [split_w] returns [Ok] when, in addition, the image carries a valid extension without trailing singleton
    dimension ([get_subset_total], Ext/ProofsTotal.v; the final [NiftiWrapper(...)] finds the parent's extension,
    which passes [check_valid] because it is valid). *)
From Coq Require Import List Bool Arith NArith ZArith QArith Qabs Lia.
From DV Require Import Common.Res Common.Str Common.Jv Ext.Types Ext.Classes Ext.Seq Ext.Model Ext.Spec Ext.TableFacts
     Ext.ValidFacts Ext.ProofsValidBase Ext.ProofsSubset Ext.ProofsMerge Ext.ProofsTotal
     Orient.Model Wrapper.Model Wrapper.Spec Wrapper.ProofsMat Wrapper.ProofsSplit.
Import ListNotations.
Local Open Scope nat_scope.

(** * Image alone *)

(** admissible [dim] arguments of [split]: an axis of the image; [None] = the last axis, which for a 3-D image is
    replaced by the header's slice dim and therefore needs one *)
Definition split_arg_ok (im : img) (odim : option nat) : Prop :=
  match odim with
  | Some d => d < length (ishape im)
  | None => 1 <= length (ishape im) /\ (length (ishape im) = 3 -> exists s, islice im = Some s /\ s < 3)
  end.

Lemma resolve_split_dim_total im odim :
  split_arg_ok im odim -> exists dim, resolve_split_dim im odim = Ok dim /\ dim < length (ishape im).
Proof.
  unfold resolve_split_dim, split_arg_ok. destruct odim as [d|]; [intros H; exists d; split; [reflexivity | exact H]|].
  intros [H1 H3]. destruct (Nat.eqb_spec (length (ishape im) - 1) 2) as [E|E].
  - destruct (H3 ltac:(lia)) as [s [-> Hs]]. exists s. split; [reflexivity | lia].
  - eexists. split; [reflexivity | lia].
Qed.

Lemma split_img_at_total im dim :
  dim < length (ishape im) -> exists ps, split_img_at im dim = Ok ps /\ length ps = nth dim (ishape im) 0.
Proof.
  intros Hd. unfold split_img_at.
  destruct (nth_error (ishape im) dim) as [n|] eqn:En; [|apply nth_error_None in En; lia].
  eexists. split; [reflexivity|].
  rewrite map_length, combine_length, seq_length, split_affs_length, Nat.min_id.
  symmetry. apply nth_error_nth. exact En.
Qed.

Theorem split_img_total im odim :
  split_arg_ok im odim ->
  exists dim ps, resolve_split_dim im odim = Ok dim /\ split_img im odim = Ok ps /\ length ps = nth dim (ishape im) 0.
Proof.
  intros H. destruct (resolve_split_dim_total im odim H) as [dim [Hr Hd]].
  destruct (split_img_at_total im dim Hd) as [ps [Hs Hl]].
  exists dim, ps. split; [exact Hr|]. unfold split_img. rewrite Hr. cbn [bind]. split; assumption.
Qed.

(** * Wrappers *)

Lemma filter_fst_incl {A B} (f : A * B -> bool) (l : list (A * B)) x :
  In x (map fst (filter f l)) -> In x (map fst l).
Proof.
  intros H. apply in_map_iff in H as [p [<- Hp]]. apply filter_In in Hp as [Hp _]. apply in_map. exact Hp.
Qed.

Lemma filter_fst_NoDup {A B} (f : A * B -> bool) (l : list (A * B)) :
  NoDup (map fst l) -> NoDup (map fst (filter f l)).
Proof.
  induction l as [|p l IH]; cbn [map filter]; intros H; [constructor|].
  inversion H as [|? ? Hn Hnd]; subst. destruct (f p); [|apply IH; exact Hnd].
  cbn [map]. constructor; [|apply IH; exact Hnd]. intros Hin. apply Hn. apply (filter_fst_incl f l _ Hin).
Qed.

Section WithV.
  Context {V : Type} (veqb : V -> V -> bool) (vnone : V).
  Hypothesis veqb_spec : forall a b, reflect (a = b) (veqb a b).

  (** [DcmMetaExtension.check_valid] accepts every valid extension *)
  Lemma valid_check_valid_e (e : ext V) : valid e -> check_valid_e e = true.
  Proof.
    intros Hv. pose proof Hv as [Hh [Hnd Hent]]. pose proof (hdr_wf_shape_wf _ Hh) as Hwf.
    destruct Hh as [Hn [Hp [Hsd [[Ha4 Har] Hb]]]].
    unfold check_valid_e. rewrite !andb_true_iff.
    split; [split; [split; [split|]|]|].
    - unfold is_shape. apply andb_true_iff. split; [apply Nat.eqb_eq; exact Ha4|].
      apply forallb_forall. intros r Hr. rewrite Forall_forall in Har. apply Nat.eqb_eq. auto.
    - destruct (sdim (hdr_of e)) as [d|] eqn:E; [apply Nat.ltb_lt; auto | reflexivity].
    - unfold ndim_ok. apply andb_true_iff. split; [apply Nat.leb_le | apply Nat.ltb_lt]; lia.
    - apply forallb_forall. intros c Hc.
      assert (Hok : class_ok (shape (hdr_of e)) c = true) by (rewrite <- class_valid_ok; apply mem_cls_In; exact Hc).
      rewrite (Hb c Hok). cbn [andb].
      assert (Hmine : forall kv, In kv (filter (fun kv => cls_eqb (fst (snd kv)) c) (entries e)) ->
                exists k vs, kv = (k, (c, vs)) /\ In (k, (c, vs)) (entries e)).
      { intros [k [c' vs]] Hin. apply filter_In in Hin as [Hin Hc']. cbn [fst snd] in Hc'.
        destruct (cls_eqb_spec c' c) as [->|]; [|discriminate]. exists k, vs. split; [reflexivity | exact Hin]. }
      destruct (is_slices c) eqn:Esl.
      + destruct (sdim (hdr_of e)) as [d|] eqn:Esd.
        * rewrite (multiplicity_wf _ c Hwf Hok) by (intros _; rewrite Esd; discriminate).
          pose proof (mult_spec_pos (hdr_of e) c Hwf) as Hm.
          destruct (Nat.eqb_spec (mult_spec (dims (hdr_of e)) c) 0) as [E0|_]; [lia|].
          destruct (1 <? mult_spec (dims (hdr_of e)) c); [|reflexivity].
          apply forallb_forall. intros kv Hin. destruct (Hmine kv Hin) as [k [vs [-> Hin']]]. cbn [fst snd].
          apply Nat.eqb_eq. apply (Hent _ _ _ Hin').
        * rewrite (multiplicity_noslice _ c Hok Esl Esd). cbn [Nat.eqb].
          destruct (filter _ (entries e)) as [|kv r] eqn:Ef; [reflexivity|]. exfalso.
          destruct (Hmine kv (or_introl eq_refl)) as [k [vs [_ Hin']]].
          destruct (Hent _ _ _ Hin') as [_ [Hs _]]. apply (Hs Esl). reflexivity.
      + rewrite (multiplicity_wf _ c Hwf Hok) by (intros Hx; congruence).
        pose proof (mult_spec_pos (hdr_of e) c Hwf) as Hm.
        destruct (Nat.eqb_spec (mult_spec (dims (hdr_of e)) c) 0) as [E0|_]; [lia|].
        destruct (1 <? mult_spec (dims (hdr_of e)) c); [|reflexivity].
        apply forallb_forall. intros kv Hin. destruct (Hmine kv Hin) as [k [vs [-> Hin']]]. cbn [fst snd].
        apply Nat.eqb_eq. apply (Hent _ _ _ Hin').
    - apply NoDup_nodup_keys. apply filter_fst_NoDup. exact Hnd.
  Qed.

  (** the image carries the extension: same shape; when the header records a slice dim, so does the extension *)
  Definition carries (im : img) (e : ext V) : Prop :=
    shape (hdr_of e) = ishape im /\ forall s, islice im = Some s -> sdim (hdr_of e) = Some s.

  Definition split_w_arg_ok (im : img) (odim : option nat) : Prop :=
    match odim with
    | Some d => d < length (ishape im)
    | None => length (ishape im) = 3 -> islice im <> None
    end.

  Lemma split_w_arg (im : img) (e : ext V) odim :
    valid e -> carries im e -> split_w_arg_ok im odim -> split_arg_ok im odim.
  Proof.
    intros [[Hn [_ [Hsd _]]] _] [Hsh Hsl] H. unfold ndim in Hn. rewrite Hsh in Hn.
    destruct odim as [d|]; [exact H|]. cbn [split_w_arg_ok split_arg_ok] in *. split; [lia|].
    intros H3. destruct (islice im) as [s|] eqn:Es; [|exfalso; apply (H H3); reflexivity].
    exists s. split; [reflexivity|]. apply (Hsd s). apply Hsl. reflexivity.
  Qed.

  Theorem split_w_total (im : img) (e : ext V) odim :
    valid e -> no_trailing1 (shape (hdr_of e)) = true -> carries im e -> split_w_arg_ok im odim ->
    exists dim ws, resolve_split_dim im odim = Ok dim /\ split_w veqb vnone (im, e) odim = Ok ws /\
                   length ws = nth dim (ishape im) 0.
  Proof.
    intros Hv Hnt Hc Harg. pose proof (split_w_arg im e odim Hv Hc Harg) as Harg'.
    destruct (resolve_split_dim_total im odim Harg') as [dim [Hr Hd]].
    destruct (split_img_at_total im dim Hd) as [ps [Hs Hl]].
    destruct Hc as [Hsh Hsl].
    assert (Hmd : meta_dim im e dim = Some dim).
    { unfold meta_dim. destruct (islice im) as [s|] eqn:Es; cbn [onat_eqb]; [|reflexivity].
      destruct (Nat.eqb_spec s dim) as [->|_]; [apply Hsl; reflexivity | reflexivity]. }
    assert (Hchk : wrap_check e = Ok tt) by (unfold wrap_check; rewrite (valid_check_valid_e e Hv); reflexivity).
    exists dim. unfold split_w. rewrite Hr. cbn [bind]. rewrite Hs. cbn [bind]. rewrite Hmd.
    match goal with |- exists ws, _ /\ mapM ?f ?l = _ /\ _ => destruct (mapM_ok f l) as [ws Hws] end.
    { intros [i p] Hin. apply in_combine_l in Hin. apply in_seq in Hin. cbn [fst snd].
      destruct (get_subset_total veqb vnone veqb_spec e dim i Hv Hnt) as [r Hg].
      - unfold ndim. rewrite Hsh. exact Hd.
      - rewrite Hsh, <- Hl. lia.
      - rewrite Hg. cbn [bind]. rewrite Hchk. cbn [bind]. eauto. }
    exists ws. split; [reflexivity|]. split; [exact Hws|].
    destruct (mapM_inv _ _ _ Hws) as [Hlen _]. etransitivity; [exact Hlen|].
    rewrite combine_length, seq_length, Nat.min_id. exact Hl.
  Qed.
End WithV.

(** * Non-vacuity *)
Definition totB : mat := [[3 # 2; -4 # 1; 0; 10]; [2 # 1; 3 # 1; 0; -8 # 1]; [0; 0; 5 # 2; 3]; [0; 0; 0; 1]]%Q.
Definition tot_img : img := mk_img [2; 1; 2; 3] (map Z.of_nat (seq 0 12)) totB (Some 2).
Definition tot_ext : ext jv :=
  mk_ext (mk_hdr [2; 1; 2; 3] (Some 2) totB true false)
    [([116]%N, (TSamples, [JInt 10; JInt 11; JInt 12]));
     ([115]%N, (TSlices, [JInt 30; JInt 31]));
     ([103]%N, (GSlices, map JInt [50; 51; 52; 53; 54; 55]%Z));
     ([99]%N, (GConst, [JStr [97]%N]))].
Definition tot_img3 : img := mk_img [2; 1; 2] [1; 2; 3; 4]%Z totB (Some 2).
Definition tot_ext3 : ext jv :=
  mk_ext (mk_hdr [2; 1; 2] (Some 2) totB false false) [([103]%N, (GSlices, [JInt 1; JInt 2]))].

Lemma ex_split_img_total :
  split_arg_ok tot_img (Some 2) /\ split_arg_ok tot_img None /\ split_arg_ok tot_img3 None /\
  (exists ps, split_img tot_img None = Ok ps /\ map idata ps = [[0; 3; 6; 9]; [1; 4; 7; 10]; [2; 5; 8; 11]]%Z) /\
  (exists ps, split_img tot_img3 None = Ok ps /\ map idata ps = [[1; 3]; [2; 4]]%Z).
Proof.
  split; [cbn; lia|]. split; [split; [cbn; lia | cbn; intros H; discriminate H]|].
  split; [split; [cbn; lia | intros _; exists 2; split; [reflexivity | lia]]|].
  split; eexists; (split; [vm_compute; reflexivity | reflexivity]).
Qed.

Lemma ex_split_w_total :
  valid tot_ext /\ no_trailing1 (shape (hdr_of tot_ext)) = true /\ carries tot_img tot_ext /\
  split_w_arg_ok tot_img (Some 2) /\ split_w_arg_ok tot_img None /\
  valid tot_ext3 /\ carries tot_img3 tot_ext3 /\ split_w_arg_ok tot_img3 None /\
  (exists ws, split_w jv_eqb JNull (tot_img, tot_ext) (Some 2) = Ok ws /\
              map (fun w => (ishape (fst w), shape (hdr_of (snd w)))) ws = [([2; 1; 1; 3], [2; 1; 1; 3]); ([2; 1; 1; 3], [2; 1; 1; 3])]) /\
  (exists ws, split_w jv_eqb JNull (tot_img, tot_ext) None = Ok ws /\ length ws = 3) /\
  (exists ws, split_w jv_eqb JNull (tot_img3, tot_ext3) None = Ok ws /\ length ws = 2).
Proof.
  split; [apply validb_valid; vm_compute; reflexivity|]. split; [reflexivity|].
  split; [split; [reflexivity | intros s H; exact H]|].
  split; [cbn; lia|]. split; [cbn; intros H; discriminate H|].
  split; [apply validb_valid; vm_compute; reflexivity|].
  split; [split; [reflexivity | intros s H; exact H]|].
  split; [cbn; intros _; discriminate|].
  split; [eexists; split; [vm_compute; reflexivity | reflexivity]|].
  split; eexists; (split; [vm_compute; reflexivity | reflexivity]).
Qed.
