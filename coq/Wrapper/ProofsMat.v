(** Matrix / vector facts: entries of [set_col3], the cumulative translation update of [split], tolerance
    comparisons up to [Qeq], and what [unit_ok] buys. *)
From Coq Require Import List Bool Arith ZArith QArith Qabs Lia Lqa Setoid Morphisms.
From DV Require Import Common.Res Ext.Seq Ext.Model Orient.Model Orient.ProofsAff Wrapper.Model Wrapper.Spec.
Import ListNotations.
Local Open Scope nat_scope.

(* --------------------------------------------------------------------------------------------- set_col3 *)

Lemma mentry_set_col3 A j v i k :
  is_shape 4 4 A = true -> j < 4 -> i < 4 -> k < 4 ->
  mentry (set_col3 A j v) i k = if (i <? 3) && (k =? j) then nth i v 0%Q else mentry A i k.
Proof.
  intros H Hj Hi Hk. destruct (is_shape44 A H) as (a00&a01&a02&a03&a10&a11&a12&a13&a20&a21&a22&a23&a30&a31&a32&a33&->).
  destruct j as [|[|[|[|j]]]]; try lia;
  destruct i as [|[|[|[|i]]]]; try lia;
  destruct k as [|[|[|[|k]]]]; try lia; reflexivity.
Qed.

Lemma set_col3_shape A j v : is_shape 4 4 A = true -> j < 4 -> is_shape 4 4 (set_col3 A j v) = true.
Proof.
  intros H Hj. destruct (is_shape44 A H) as (a00&a01&a02&a03&a10&a11&a12&a13&a20&a21&a22&a23&a30&a31&a32&a33&->).
  destruct j as [|[|[|[|j]]]]; try lia; reflexivity.
Qed.

Lemma col3_set_col3_same A j x y z :
  is_shape 4 4 A = true -> j < 4 -> col3 (set_col3 A j [x; y; z]) j = [x; y; z].
Proof.
  intros H Hj. unfold col3. rewrite !mentry_set_col3 by (assumption || lia).
  rewrite Nat.eqb_refl. reflexivity.
Qed.

Lemma col3_set_col3_other A j v k :
  is_shape 4 4 A = true -> j < 4 -> k < 4 -> k <> j -> col3 (set_col3 A j v) k = col3 A k.
Proof.
  intros H Hj Hk Hn. unfold col3. rewrite !mentry_set_col3 by (assumption || lia).
  replace (k =? j) with false by (symmetry; apply Nat.eqb_neq; exact Hn). rewrite !andb_false_r. reflexivity.
Qed.

Lemma col3_length A j : length (col3 A j) = 3.
Proof. reflexivity. Qed.

Lemma vadd3 a b c x y z : vadd [a; b; c] [x; y; z] = [(a + x)%Q; (b + y)%Q; (c + z)%Q].
Proof. reflexivity. Qed.
Lemma vsub3 a b c x y z : vsub [a; b; c] [x; y; z] = [(a - x)%Q; (b - y)%Q; (c - z)%Q].
Proof. reflexivity. Qed.

(** a 4x4 matrix is its 16 entries *)
Lemma mat44_ext A B :
  is_shape 4 4 A = true -> is_shape 4 4 B = true ->
  (forall i k, i < 4 -> k < 4 -> mentry A i k = mentry B i k) -> A = B.
Proof.
  intros HA HB H.
  destruct (is_shape44 A HA) as (a00&a01&a02&a03&a10&a11&a12&a13&a20&a21&a22&a23&a30&a31&a32&a33&->).
  destruct (is_shape44 B HB) as (b00&b01&b02&b03&b10&b11&b12&b13&b20&b21&b22&b23&b30&b31&b32&b33&->).
  pose proof (H 0 0) as E00. pose proof (H 0 1) as E01. pose proof (H 0 2) as E02. pose proof (H 0 3) as E03.
  pose proof (H 1 0) as E10. pose proof (H 1 1) as E11. pose proof (H 1 2) as E12. pose proof (H 1 3) as E13.
  pose proof (H 2 0) as E20. pose proof (H 2 1) as E21. pose proof (H 2 2) as E22. pose proof (H 2 3) as E23.
  pose proof (H 3 0) as E30. pose proof (H 3 1) as E31. pose proof (H 3 2) as E32. pose proof (H 3 3) as E33.
  cbn [mentry nth] in *.
  rewrite E00, E01, E02, E03, E10, E11, E12, E13, E20, E21, E22, E23, E30, E31, E32, E33 by lia. reflexivity.
Qed.

Lemma reduced_entry A i k : reduced A -> Qred (mentry A i k) = mentry A i k.
Proof.
  intros H. unfold mentry. destruct (Nat.lt_ge_cases i (length A)) as [Hi|Hi].
  - pose proof (proj1 (Forall_forall _ _) H (nth i A []) (nth_In _ _ Hi)) as Hr.
    destruct (Nat.lt_ge_cases k (length (nth i A []))) as [Hk|Hk].
    + apply (proj1 (Forall_forall _ _) Hr), nth_In, Hk.
    + rewrite nth_overflow by exact Hk. reflexivity.
  - rewrite (nth_overflow A) by exact Hi. destruct k; reflexivity.
Qed.

(* ---------------------------------------------------------------------------- cumulative translation update *)

Definition aff_shift (A : mat) (u : vec) (i : nat) : mat := Nat.iter i (fun M => add_trans M u) A.

Lemma iter_succ_r {A} (f : A -> A) n x : Nat.iter (S n) f x = Nat.iter n f (f x).
Proof. induction n as [|n IH]; [reflexivity|]. change (Nat.iter (S (S n)) f x) with (f (Nat.iter (S n) f x)). rewrite IH. reflexivity. Qed.

Lemma split_affs_length u : forall n A, length (split_affs A u n) = n.
Proof. induction n as [|n IH]; intros A; [reflexivity|]. cbn [split_affs length]. rewrite IH. reflexivity. Qed.

Lemma split_affs_none : forall n A i d, i < n -> nth i (split_affs A None n) d = A.
Proof.
  induction n as [|n IH]; intros A i d H; [lia|]. cbn [split_affs].
  destruct i as [|i]; [reflexivity|]. cbn [nth]. apply IH. lia.
Qed.

Lemma split_affs_some u : forall n A i d, i < n -> nth i (split_affs A (Some u) n) d = aff_shift A u i.
Proof.
  induction n as [|n IH]; intros A i d H; [lia|]. cbn [split_affs].
  destruct i as [|i]; [reflexivity|]. cbn [nth]. rewrite IH by lia.
  unfold aff_shift. rewrite iter_succ_r. reflexivity.
Qed.

Lemma aff_shift_shape A u i : is_shape 4 4 A = true -> is_shape 4 4 (aff_shift A u i) = true.
Proof.
  intros H. induction i as [|i IH]; [exact H|]. change (aff_shift A u (S i)) with (add_trans (aff_shift A u i) u).
  unfold add_trans. apply set_col3_shape; [exact IH | lia].
Qed.

(** closed form of the cumulative update: entry (r,3) moved by i * u_r, every other entry untouched *)
Lemma aff_shift_entries A x y z i r c :
  is_shape 4 4 A = true -> r < 4 -> c < 4 ->
  if (r <? 3) && (c =? 3)
  then (mentry (aff_shift A [x; y; z] i) r c == mentry A r c + inject_Z (Z.of_nat i) * nth r [x; y; z] 0)%Q
  else mentry (aff_shift A [x; y; z] i) r c = mentry A r c.
Proof.
  intros H Hr Hc. induction i as [|i IH].
  - change (aff_shift A [x; y; z] 0) with A. destruct ((r <? 3) && (c =? 3)); [|reflexivity].
    change (inject_Z (Z.of_nat 0)) with 0%Q. ring.
  - change (aff_shift A [x; y; z] (S i)) with (add_trans (aff_shift A [x; y; z] i) [x; y; z]).
    pose proof (aff_shift_shape A [x; y; z] i H) as Hs.
    unfold add_trans. rewrite mentry_set_col3 by (assumption || lia).
    destruct ((r <? 3) && (c =? 3)) eqn:E; [|exact IH].
    apply andb_prop in E as [E1 E2]. apply Nat.eqb_eq in E2. subst c. apply Nat.ltb_lt in E1.
    unfold trans_of, col3. rewrite vadd3.
    assert (G : forall q, (mentry (aff_shift A [x; y; z] i) q 3 ==
                           mentry A q 3 + inject_Z (Z.of_nat i) * nth q [x; y; z] 0)%Q -> q < 3 ->
                (nth q [(mentry (aff_shift A [x; y; z] i) 0 3 + x)%Q; (mentry (aff_shift A [x; y; z] i) 1 3 + y)%Q;
                        (mentry (aff_shift A [x; y; z] i) 2 3 + z)%Q] 0 ==
                 mentry A q 3 + inject_Z (Z.of_nat (S i)) * nth q [x; y; z] 0)%Q).
    { intros q Hq Hq3. rewrite Nat2Z.inj_succ, <- Z.add_1_r, inject_Z_plus. change (inject_Z 1) with 1%Q.
      destruct q as [|[|[|q]]]; try lia; cbn [nth] in *; rewrite Hq; ring. }
    apply G; [|exact E1]. replace ((r <? 3) && (3 =? 3)) with true in IH; [exact IH|].
    symmetry. apply andb_true_intro. split; [apply Nat.ltb_lt; exact E1 | reflexivity].
Qed.

(* ------------------------------------------------------------------------------------ comparisons up to Qeq *)

Lemma veq_refl v : veq v v.
Proof. induction v; constructor; [reflexivity | assumption]. Qed.
Lemma veq_sym a b : veq a b -> veq b a.
Proof. induction 1; constructor; [symmetry; assumption | assumption]. Qed.
Lemma veq_trans a b c : veq a b -> veq b c -> veq a c.
Proof.
  intros H. revert c. induction H as [|x y a b Hxy Hab IH]; intros c Hc; inversion Hc; subst; constructor.
  - etransitivity; eassumption.
  - apply IH. assumption.
Qed.
Lemma veq_map_Qred v : veq (map Qred v) v.
Proof. induction v as [|x v IH]; cbn [map]; constructor; [apply Qred_correct | exact IH]. Qed.

Lemma veq_nth a b : veq a b -> forall j, (nth j a 0 == nth j b 0)%Q.
Proof.
  induction 1 as [|x y a b Hxy _ IH]; intros j; [destruct j; reflexivity|].
  destruct j as [|j]; cbn [nth]; [exact Hxy | apply IH].
Qed.

Lemma veq_length a b : veq a b -> length a = length b.
Proof. induction 1; cbn [length]; congruence. Qed.

Lemma Qle_bool_wd a b c d : (a == b)%Q -> (c == d)%Q -> Qle_bool a c = Qle_bool b d.
Proof.
  intros H1 H2. apply eq_true_iff_eq. rewrite !Qle_bool_iff, H1, H2. reflexivity.
Qed.

Lemma allclose_veq rtol atol a a' b b' :
  veq a a' -> veq b b' -> allclose rtol atol a b = allclose rtol atol a' b'.
Proof.
  intros Ha Hb. unfold allclose. rewrite (veq_length _ _ Ha), (veq_length _ _ Hb). f_equal.
  revert b b' Hb. induction Ha as [|x x' a a' Hx Ha IH]; intros b b' Hb; [reflexivity|].
  destruct Hb as [|y y' b b' Hy Hb]; [reflexivity|]. cbn [combine forallb fst snd]. f_equal; [|apply IH, Hb].
  apply Qle_bool_wd.
  - apply Qabs_wd. rewrite Hx, Hy. reflexivity.
  - rewrite (Qabs_wd _ _ Hy). reflexivity.
Qed.

Lemma close_veq atol a a' b b' : veq a a' -> veq b b' -> close atol a b = close atol a' b'.
Proof. apply allclose_veq. Qed.

Lemma zeros_veq a a' : veq a a' -> veq (map (fun _ => 0%Q) a) (map (fun _ => 0%Q) a').
Proof. induction 1; cbn [map]; constructor; [reflexivity | assumption]. Qed.

Lemma near_zero_veq a a' : veq a a' -> near_zero a = near_zero a'.
Proof. intros H. unfold near_zero. apply close_veq; [exact H | apply zeros_veq, H]. Qed.

Lemma allclose_refl rtol atol v : (0 <= rtol)%Q -> (0 <= atol)%Q -> allclose rtol atol v v = true.
Proof.
  intros Hr Ha. unfold allclose. rewrite Nat.eqb_refl. cbn [andb].
  induction v as [|x v IH]; [reflexivity|]. cbn [combine forallb fst snd]. rewrite IH, andb_true_r.
  apply Qle_bool_iff. setoid_replace (x - x)%Q with 0%Q by ring. cbn [Qabs Z.abs].
  pose proof (Qabs_nonneg x). nra.
Qed.

Lemma close_refl atol v : (0 <= atol)%Q -> close atol v v = true.
Proof. intros H. apply allclose_refl; [unfold rtol_default; lra | exact H]. Qed.

Lemma close_veq_refl atol a b : (0 <= atol)%Q -> veq a b -> close atol a b = true.
Proof. intros H Hab. rewrite (close_veq atol a b b b Hab (veq_refl b)). apply close_refl, H. Qed.

(* ------------------------------------------------------------------------------------------- norms, unit *)

Lemma norm2_veq a b : veq a b -> (norm2 a == norm2 b)%Q.
Proof. induction 1 as [|x y a b Hx _ IH]; [reflexivity|]. cbn [norm2 fold_right]. fold (norm2 a) (norm2 b). unfold sq. rewrite Hx, IH. reflexivity. Qed.

Lemma norm2_vscale c v : (norm2 (vscale c v) == c * c * norm2 v)%Q.
Proof.
  induction v as [|x v IH]; [cbn; ring|]. cbn [vscale map norm2 fold_right].
  fold (vscale c v) (norm2 (vscale c v)) (norm2 v). rewrite IH. unfold sq. ring.
Qed.

Lemma dot_veq a a' b b' : veq a a' -> veq b b' -> (dot a b == dot a' b')%Q.
Proof.
  intros Ha. revert b b'. induction Ha as [|x x' a a' Hx _ IH]; intros b b' Hb; [reflexivity|].
  destruct Hb as [|y y' b b' Hy Hb]; [reflexivity|]. cbn [dot]. rewrite Hx, Hy, (IH _ _ Hb). reflexivity.
Qed.

Lemma dot_self v : (dot v v == norm2 v)%Q.
Proof. induction v as [|x v IH]; [reflexivity|]. cbn [dot norm2 fold_right]. fold (norm2 v). rewrite IH. unfold sq. reflexivity. Qed.

Lemma vscale_veq c c' v v' : (c == c')%Q -> veq v v' -> veq (vscale c v) (vscale c' v').
Proof. intros Hc. induction 1 as [|x y v v' Hx _ IH]; cbn [vscale map]; constructor; [rewrite Hc, Hx; reflexivity | exact IH]. Qed.

(** the normalisation does not depend on the representation of the vector *)
Lemma unit_ok_veq unitv v w : unit_ok unitv v -> unit_ok unitv w -> veq v w -> veq (unitv v) (unitv w).
Proof.
  intros (c & Hc & Ev & Nv) (d & Hd & Ew & Nw) Hvw.
  rewrite (norm2_veq _ _ Ev), norm2_vscale in Nv.
  rewrite (norm2_veq _ _ Ew), norm2_vscale, <- (norm2_veq _ _ Hvw) in Nw.
  assert (Hcd : (c == d)%Q).
  { assert (Hn : (0 < norm2 v)%Q) by (destruct (Qlt_le_dec 0 (norm2 v)) as [?|?]; [assumption | nra]).
    assert ((c - d) * (c + d) * norm2 v == 0)%Q by nra.
    assert ((c - d) * (c + d) == 0)%Q by nra. nra. }
  eapply veq_trans; [exact Ev|]. eapply veq_trans; [|apply veq_sym; exact Ew].
  apply vscale_veq; assumption.
Qed.

(** a unit vector is not within 1e-8 of zero *)
Lemma near_zero_unit v : (norm2 v == 1)%Q -> length v = 3 -> near_zero v = false.
Proof.
  intros Hn Hl. destruct v as [|x [|y [|z [|w v]]]]; try discriminate Hl.
  unfold near_zero, close, allclose. cbn [map length Nat.eqb andb combine forallb fst snd].
  destruct (Qle_bool (Qabs (x - 0)) (atol_default + rtol_default * Qabs 0)) eqn:Ex; [|reflexivity].
  destruct (Qle_bool (Qabs (y - 0)) (atol_default + rtol_default * Qabs 0)) eqn:Ey; [|reflexivity].
  destruct (Qle_bool (Qabs (z - 0)) (atol_default + rtol_default * Qabs 0)) eqn:Ez; [|reflexivity].
  exfalso. apply Qle_bool_iff in Ex, Ey, Ez.
  cbn [norm2 fold_right] in Hn. unfold sq in Hn.
  change (Qabs 0) with 0%Q in *. unfold atol_default, rtol_default in *.
  setoid_replace (x - 0)%Q with x in Ex by ring. setoid_replace (y - 0)%Q with y in Ey by ring.
  setoid_replace (z - 0)%Q with z in Ez by ring.
  apply Qabs_Qle_condition in Ex, Ey, Ez. nra.
Qed.
