(** Lemmas about [from_sequence_img] (image half of C03). *)
From Coq Require Import List Bool Arith ZArith QArith Qabs Lia.
From DV Require Import Common.Res Ext.Seq Ext.Model Orient.Model Orient.ProofsArr
     Wrapper.Model Wrapper.Spec Wrapper.ProofsArr Wrapper.ProofsMat.
Import ListNotations.
Local Open Scope nat_scope.

Section Merge.
  Variable unitv : vec -> vec.

  (* ------------------------------------------------------------------------- the input loop as booleans *)

  Definition step_okb (dim : nat) (last : option mat) (A : mat) : bool :=
    match last with
    | Some Ap => negb ((dim <? 3) && bad_step unitv dim Ap A)
    | None => true
    end.

  Lemma check_input_spec dim A0 A last :
    check_input unitv dim A0 A last =
    if orient_okb unitv dim A0 A && step_okb dim last A then Ok tt else Err EValue.
  Proof.
    unfold check_input, check_axis, orient_okb, step_okb.
    destruct dim as [|[|[|d]]]; cbn [Nat.eqb Nat.ltb Nat.leb forallb andb negb]; destruct last as [Ap|];
      repeat match goal with
             | |- context [bad_step unitv ?d ?a ?b] => destruct (bad_step unitv d a b)
             | |- context [close ?t ?a ?b] => destruct (close t a b)
             end; reflexivity.
  Qed.

  Fixpoint inputs_okb (dim : nat) (A0 : mat) (lhs : list nat) (last : option mat) (ims : list img) : bool :=
    match ims with
    | [] => true
    | im :: r =>
        orient_okb unitv dim A0 (iaff im) && step_okb dim last (iaff im)
        && broadcastable (squeeze_shape (ishape im)) lhs
        && inputs_okb dim A0 lhs (Some (iaff im)) r
    end.

  Lemma check_inputs_spec dim A0 lhs : forall ims last,
    check_inputs unitv dim A0 lhs last ims = if inputs_okb dim A0 lhs last ims then Ok tt else Err EValue.
  Proof.
    induction ims as [|im r IH]; intros last; [reflexivity|].
    cbn [check_inputs inputs_okb]. rewrite check_input_spec.
    destruct (orient_okb unitv dim A0 (iaff im) && step_okb dim last (iaff im)); cbn [bind andb]; [|reflexivity].
    destruct (broadcastable (squeeze_shape (ishape im)) lhs); cbn [negb andb]; [apply IH | reflexivity].
  Qed.

  (** consecutive affines all pass the step test *)
  Fixpoint chain_ok (dim : nat) (l : list mat) : Prop :=
    match l with
    | a :: r => match r with b :: _ => bad_step unitv dim a b = false | [] => True end /\ chain_ok dim r
    | [] => True
    end.

  Lemma chain_ok_nth dim l :
    chain_ok dim l <-> forall i, S i < length l -> bad_step unitv dim (nth i l []) (nth (S i) l []) = false.
  Proof.
    induction l as [|a r IH]; [split; [intros _ i H; cbn in H; lia | constructor]|].
    cbn [chain_ok]. rewrite IH. split.
    - intros [H1 H2] i Hi. destruct i as [|i].
      + destruct r as [|b r]; [cbn in Hi; lia | exact H1].
      + cbn [length] in Hi. cbn [nth]. apply H2. lia.
    - intros H. split.
      + destruct r as [|b r]; [exact I|]. apply (H 0). cbn [length]. lia.
      + intros i Hi. apply (H (S i)). cbn [length]. lia.
  Qed.

  Lemma inputs_okb_iff dim A0 lhs : forall ims last,
    inputs_okb dim A0 lhs last ims = true <->
    (forall im, In im ims -> orient_okb unitv dim A0 (iaff im) = true /\
                             broadcastable (squeeze_shape (ishape im)) lhs = true) /\
    (dim < 3 -> chain_ok dim (match last with Some Ap => Ap :: map iaff ims | None => map iaff ims end)).
  Proof.
    induction ims as [|im r IH]; intros last.
    - cbn [inputs_okb]. split; [|reflexivity]. intros _. split; [intros im []|].
      intros _. destruct last; cbn [map chain_ok]; auto.
    - cbn [inputs_okb]. rewrite !andb_true_iff, IH. cbn [map]. split.
      + intros [[[Ho Hs] Hb] [Hall Hch]]. split.
        * intros im' [<-|Hin]; [split; assumption | apply Hall, Hin].
        * intros Hd. specialize (Hch Hd). destruct last as [Ap|]; [|exact Hch].
          cbn [chain_ok]. split; [|exact Hch].
          unfold step_okb in Hs. apply negb_true_iff, andb_false_iff in Hs as [Hs|Hs]; [|exact Hs].
          apply Nat.ltb_ge in Hs. lia.
      + intros [Hall Hch]. destruct (Hall im (or_introl eq_refl)) as [Ho Hb].
        assert (Hs : step_okb dim last (iaff im) = true).
        { unfold step_okb. destruct last as [Ap|]; [|reflexivity].
          apply negb_true_iff, andb_false_iff. destruct (Nat.ltb_spec dim 3) as [Hd|Hd]; [right | left; reflexivity].
          specialize (Hch Hd). cbn [chain_ok] in Hch. apply Hch. }
        split; [split; [split; assumption | exact Hb]|]. split.
        * intros im' Hin. apply Hall. right. exact Hin.
        * intros Hd. specialize (Hch Hd). destruct last as [Ap|]; [|exact Hch]. cbn [chain_ok] in Hch. apply Hch.
  Qed.

  (* ---------------------------------------------------------------------------------- shape of a success *)

  Lemma merge_img_at_ok ims dim r :
    merge_img_at unitv ims dim = Ok r ->
    exists im0 rest, ims = im0 :: rest /\
      let rsh := merged_shape (ishape im0) dim (length ims) in
      inputs_okb dim (iaff im0) (sel_axes 0 dim rsh rsh) None ims = true /\
      (dim < 3 -> 2 <= length ims) /\
      r = mk_img rsh (merged_data ims rsh dim)
                 (if dim <? 3 then set_col3 (iaff im0) dim (map Qred (vsub (trans_of (iaff (nth 1 ims im0))) (trans_of (iaff im0))))
                  else iaff im0)
                 (merge_slice (islice im0) (map islice rest)).
  Proof.
    destruct ims as [|im0 rest]; [discriminate|]. intros H. exists im0, rest. split; [reflexivity|].
    cbn zeta. unfold merge_img_at in H. rewrite check_inputs_spec in H.
    destruct (inputs_okb dim (iaff im0) _ None (im0 :: rest)) eqn:E; [|discriminate]. cbn [bind] in H.
    split; [reflexivity|].
    destruct (dim <? 3) eqn:Ed.
    - destruct rest as [|im1 rest']; [discriminate|]. cbn [bind tl nth] in H. injection H as <-.
      split; [intros _; cbn [length]; lia | reflexivity].
    - cbn [bind tl] in H. injection H as <-. split; [|reflexivity].
      intros Hd. apply Nat.ltb_ge in Ed. lia.
  Qed.

  (** the only exceptions: ValueError from the loop, IndexError for [seq[0]] / [seq[1]] *)
  Lemma merge_img_at_err ims dim e :
    merge_img_at unitv ims dim = Err e ->
    (e = EValue /\ exists im0 rest, ims = im0 :: rest /\
        inputs_okb dim (iaff im0) (let rsh := merged_shape (ishape im0) dim (length ims) in sel_axes 0 dim rsh rsh) None ims = false)
    \/ (e = EIndex /\ (ims = [] \/ (dim < 3 /\ length ims = 1))).
  Proof.
    destruct ims as [|im0 rest]; [intros [= <-]; right; auto|]. intros H.
    unfold merge_img_at in H. rewrite check_inputs_spec in H. cbn zeta.
    destruct (inputs_okb dim (iaff im0) _ None (im0 :: rest)) eqn:E.
    - cbn [bind] in H. destruct (dim <? 3) eqn:Ed; [|discriminate].
      destruct rest as [|im1 rest']; [|discriminate]. cbn [bind] in H. injection H as <-.
      right. split; [reflexivity|]. right. split; [apply Nat.ltb_lt; exact Ed | reflexivity].
    - cbn [bind] in H. injection H as <-. left. split; [reflexivity|]. exists im0, rest. split; [reflexivity | exact E].
  Qed.

  (* ------------------------------------------------------------------------------------------ voxel data *)

  Lemma merged_data_get ims sh dim idx (d : img) :
    (forall im, In im ims -> ishape im = sh /\ wf_arr (iarr im)) ->
    (dim < length sh -> nth dim sh 0 = 1) ->
    in_bounds (merged_shape sh dim (length ims)) idx = true ->
    aget {| ashape := merged_shape sh dim (length ims);
            adata := merged_data ims (merged_shape sh dim (length ims)) dim |} idx =
    aget (iarr (nth (nth dim idx 0) ims d)) (merge_src sh dim idx).
  Proof.
    intros Hall Hs Hb. set (rsh := merged_shape sh dim (length ims)) in *.
    unfold merged_data.
    change {| ashape := rsh; adata := adata (tabulate rsh ?f) |} with (tabulate rsh f).
    rewrite aget_tabulate by exact Hb.
    destruct (in_bounds_merge_src sh dim (length ims) idx Hs Hb) as [Hsrc Hi].
    rewrite (nth_error_nth' ims d Hi).
    set (im := nth (nth dim idx 0) ims d).
    destruct (Hall im (nth_In ims d Hi)) as [Him Hwf].
    unfold fetch. rewrite Him. subst rsh. rewrite sel_axes_merge_src by exact Hs.
    pose proof (squeeze_idx_length sh (merge_src sh dim idx) (in_bounds_length _ _ Hsrc)) as Hl.
    rewrite <- Hl, lastn_all, offset_squeeze by exact Hsrc.
    assert (Hb' : in_bounds (ashape (iarr im)) (merge_src sh dim idx) = true) by (cbn [iarr ashape]; rewrite Him; exact Hsrc).
    destruct (wf_aget (iarr im) _ Hwf Hb') as [v Hv].
    rewrite Hv. rewrite aget_in in Hv by exact Hb'. cbn [iarr ashape adata] in Hv. rewrite Him in Hv.
    rewrite Hv. reflexivity.
  Qed.

  Lemma merged_data_wf ims rsh dim : wf_arr {| ashape := rsh; adata := merged_data ims rsh dim |}.
  Proof. unfold merged_data. apply (wf_tabulate rsh). Qed.

  (* ------------------------------------------------------------------------------------------ slice dim *)

  Lemma merge_slice_none rest : merge_slice None rest = None.
  Proof.
    unfold merge_slice. induction rest as [|s rest IH]; [reflexivity|]. cbn [fold_left].
    destruct (onat_eqb s None); exact IH.
  Qed.

  Lemma onat_eqb_eq a b : onat_eqb a b = true <-> a = b.
  Proof.
    destruct a as [x|], b as [y|]; cbn [onat_eqb]; split; intros H; try discriminate; try reflexivity.
    - apply Nat.eqb_eq in H. subst. reflexivity.
    - injection H as ->. apply Nat.eqb_refl.
  Qed.

  (** the merged header slice dim: the common value, or nothing as soon as one input differs *)
  Lemma merge_slice_spec first rest :
    merge_slice first rest = if all_same_slice first rest then first else None.
  Proof.
    unfold merge_slice, all_same_slice. revert first. induction rest as [|s rest IH]; intros first; [reflexivity|].
    cbn [fold_left forallb]. destruct (onat_eqb s first) eqn:E; cbn [andb]; [apply IH|].
    apply (merge_slice_none rest).
  Qed.
End Merge.
