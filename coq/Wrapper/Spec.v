(** Small abstract vocabulary the image-level theorems are stated against (no reference to the operations
    [from_sequence_img] / [split_img] themselves). *)
From Coq Require Import List Bool Arith ZArith QArith Qabs Lia.
From DV Require Import Common.Res Ext.Types Ext.Seq Orient.Model Wrapper.Model.
Import ListNotations.
Local Open Scope nat_scope.

(** component-wise equality of rational vectors / matrices ([Qeq], not Leibniz: the model adds and
    subtracts translations) *)
Definition veq (a b : vec) : Prop := Forall2 Qeq a b.
Definition meq (A B : mat) : Prop := Forall2 veq A B.

(** What a theorem needs to know about the normalisation [unitv] AT ONE VECTOR [v]:
    it returns a positive multiple of [v] of Euclidean norm 1.
    (A hypothesis of this form for ALL rational vectors would be unsatisfiable -- the norm of (1,1,0) is
    irrational -- so theorems assume it only for the vectors they need.) *)
Definition unit_ok (unitv : vec -> vec) (v : vec) : Prop :=
  exists c : Q, (0 < c)%Q /\ veq (unitv v) (vscale c v) /\ (norm2 (unitv v) == 1)%Q.

(** ... for every representation of the same rational vector *)
Definition unit_ok_at (unitv : vec -> vec) (u : vec) : Prop :=
  forall v, veq v u -> unit_ok unitv v.

(** the orientation test of [NiftiWrapper.from_sequence] for one input against the first one:
    all three axis vectors within [atol = 5e-4] (merge axis compared after normalisation) *)
Definition orient_okb (unitv : vec -> vec) (dim : nat) (A0 A : mat) : bool :=
  forallb (fun j => close orient_atol (axis_of unitv dim A j) (axis_of unitv dim A0 j)) [0; 1; 2].

(** squeezed multi-index: the coordinates on the axes whose extent is not 1 *)
Fixpoint squeeze_idx (sh idx : list nat) : list nat :=
  match sh, idx with
  | n :: sh', i :: idx' => if n =? 1 then squeeze_idx sh' idx' else i :: squeeze_idx sh' idx'
  | _, _ => []
  end.

(** index of the source voxel in an input of shape [sh] for result index [idx] of a merge along [dim]:
    the merge coordinate is dropped (set to 0) and the appended axes are cut off *)
Definition merge_src (sh : list nat) (dim : nat) (idx : list nat) : list nat :=
  firstn (length sh) (set_nth dim 0 idx).

(** the affine of piece [i]: translation advanced by [i] columns [dim] *)
Definition shifted_by (A : mat) (dim i : nat) (B : mat) : Prop :=
  forall r c, r < 4 -> c < 4 ->
    if (r <? 3) && (c =? 3)
    then (mentry B r c == mentry A r c + inject_Z (Z.of_nat i) * mentry A r dim)%Q
    else mentry B r c = mentry A r c.

Definition all_same_slice (first : option nat) (rest : list (option nat)) : bool :=
  forallb (fun s => onat_eqb s first) rest.

(** all inputs have the shape of the first one and are well formed *)
Definition uniform (ims : list img) (sh : list nat) : Prop :=
  forall im, In im ims -> ishape im = sh /\ wf_img im.

(** what the input loop of [NiftiWrapper.from_sequence] tests, input by input:
    every input is oriented like the first one, and (spatial merge axis only) every consecutive pair of
    translations is a non-zero step along the merge axis *)
Definition mergeable (unitv : vec -> vec) (dim : nat) (ims : list img) (d : img) : Prop :=
  (forall i, i < length ims -> orient_okb unitv dim (iaff (nth 0 ims d)) (iaff (nth i ims d)) = true) /\
  (dim < 3 -> forall i, S i < length ims ->
              bad_step unitv dim (iaff (nth i ims d)) (iaff (nth (S i) ims d)) = false).

(** every entry is a reduced fraction (the canonical representation: what a float literal is printed as) *)
Definition reduced (A : mat) : Prop := Forall (Forall (fun q => Qred q = q)) A.

(** the shape has no trailing singleton dimension beyond the third that a split along [dim] would drop
    for good (or [dim] is that last axis) *)
Definition no_trailing_one (sh : list nat) (dim : nat) : Prop :=
  length sh <= 3 \/ last sh 0 <> 1 \/ dim = length sh - 1.

(* ------------------------------------------------------------------------------------------ wrapper level *)

(** the extension records the shape, slice dim and affine of the image it is attached to *)
Definition consistent {V} (w : wrapper V) : Prop :=
  shape (hdr_of (snd w)) = ishape (fst w) /\ sdim (hdr_of (snd w)) = islice (fst w) /\
  aff (hdr_of (snd w)) = iaff (fst w).

(** index (Python ints) of the source voxel in input [i] of a merge / in the parent of a split *)
Definition merge_src_z (sh : list nat) (dim : nat) (ix : list Z) : list Z :=
  firstn (length sh) (set_nth dim 0%Z ix).
Definition piece_src_z (ndim dim i : nat) (ix : list Z) : list Z :=
  set_nth dim (Z.of_nat i) (ix ++ repeat 0%Z (ndim - length ix)).

