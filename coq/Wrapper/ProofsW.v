(** [from_sequence_w]: the merged extension agrees with the merged image (merge half of C07). *)
From Coq Require Import List Bool Arith ZArith QArith Qabs Lia.
From DV Require Import Common.Res Common.Str Ext.Types Ext.Seq Ext.Model Ext.ProofsSubset Orient.Model Orient.ProofsArr
     Wrapper.Model Wrapper.Spec Wrapper.ProofsArr Wrapper.ProofsMat Wrapper.ProofsMerge Wrapper.ProofsSplit.
Import ListNotations.
Local Open Scope nat_scope.

Lemma pad_to_eq : forall n l, pad_to n l = pad_ones n l.
Proof.
  induction n as [|n IH]; intros l; [symmetry; apply pad_ones_0|].
  destruct l as [|x r]; cbn [pad_to].
  - rewrite IH, !pad_ones_nil. reflexivity.
  - rewrite IH. reflexivity.
Qed.

(** header of a successful extension merge *)
Lemma merge_hdr_fields hs dim a sd h :
  merge_hdr hs dim (Some a) sd = Ok h ->
  exists h0 rest, hs = h0 :: rest /\
    shape h = merged_shape (shape h0) dim (length hs) /\ aff h = a /\
    sdim h = match sd with Some d => Some d | None => sdim h0 end.
Proof.
  unfold merge_hdr. destruct (5 <=? dim); [discriminate|].
  destruct hs as [|h0 rest]; [discriminate|].
  destruct ((dim <? length (shape h0)) && negb (nth dim (shape h0) 0 =? 1)); [discriminate|].
  destruct (Seq.set_nth dim (length (h0 :: rest)) (pad_to (S dim) (shape h0))) as [osh|] eqn:Es; [|discriminate].
  intros H. apply bind_ok in H as [hfull [Hm H]].
  destruct (negb (ndim_ok h0)); [discriminate|].
  match type of H with (if ?b then _ else _) = _ => destruct b; [|discriminate] end. injection H as <-.
  apply make_empty_hdr_fields in Hm as (H1 & H2 & H3).
  exists h0, rest. split; [reflexivity|].
  apply seq_set_nth_total in Es as [-> _]. rewrite pad_to_eq in H1.
  split; [exact H1|]. split; [exact H3 | exact H2].
Qed.

Section WithV.
  Context {V : Type} (veqb : V -> V -> bool) (vnone : V).

  Lemma from_sequence_hdr (es : list (ext V)) dim a sd e :
    from_sequence veqb vnone es dim (Some a) sd = Ok e ->
    exists e0 rest, es = e0 :: rest /\
      shape (hdr_of e) = merged_shape (shape (hdr_of e0)) dim (length es) /\ aff (hdr_of e) = a /\
      sdim (hdr_of e) = match sd with Some d => Some d | None => sdim (hdr_of e0) end.
  Proof.
    unfold from_sequence. intros H. apply bind_ok in H as [hfull [Hm H]].
    apply bind_ok in H as [ents [_ H]]. injection H as <-. cbn [hdr_of].
    destruct (merge_hdr_fields _ _ _ _ _ Hm) as (h0 & rest & Ehs & Hsh & Ha & Hsd).
    destruct es as [|e0 es']; [discriminate Ehs|]. cbn [map] in Ehs. injection Ehs as <- <-.
    exists e0, es'. split; [reflexivity|]. rewrite map_length in Hsh. cbn [length]. auto.
  Qed.

  Lemma from_sequence_w_spec unitv (ws : list (wrapper V)) odim r e :
    from_sequence_w veqb vnone unitv ws odim = Ok (r, e) ->
    exists im0 e0 rest dim,
      ws = (im0, e0) :: rest /\ resolve_merge_dim (ishape im0) odim = Ok dim /\
      merge_img_at unitv (map fst ws) dim = Ok r /\
      from_sequence veqb vnone (map snd ws) dim (Some (iaff r)) (islice r) = Ok e /\
      check_valid_e e = true.
  Proof.
    unfold from_sequence_w. destruct ws as [|[im0 e0] rest]; [discriminate|]. intros H.
    apply bind_ok in H as [dim [Hd H]]. apply bind_ok in H as [r' [Hr H]].
    apply bind_ok in H as [e' [He H]]. apply bind_ok in H as [u [Hc H]]. injection H as <- <-.
    exists im0, e0, rest, dim. repeat split; try assumption.
    unfold wrap_check in Hc. destruct (check_valid_e e'); [reflexivity | discriminate].
  Qed.

  (** C07 (merge): the result extension records the result image's affine, and its shape when the first
      input's extension recorded the first image's shape; its slice dim is the merged header slice dim when
      there is one, and otherwise falls back to the FIRST extension's slice dim (open finding N8) *)
  Lemma from_sequence_w_agree unitv (ws : list (wrapper V)) odim r e im0 e0 rest :
    ws = (im0, e0) :: rest ->
    from_sequence_w veqb vnone unitv ws odim = Ok (r, e) ->
    aff (hdr_of e) = iaff r /\
    sdim (hdr_of e) = match islice r with Some d => Some d | None => sdim (hdr_of e0) end /\
    (shape (hdr_of e0) = ishape im0 -> shape (hdr_of e) = ishape r) /\
    check_valid_e e = true.
  Proof.
    intros -> H. destruct (from_sequence_w_spec unitv _ _ _ _ H) as (im0' & e0' & rest' & dim & E & Hd & Hr & He & Hv).
    injection E as <- <- <-.
    destruct (from_sequence_hdr _ _ _ _ _ He) as (e0' & es' & Ees & Hsh & Ha & Hsd).
    cbn [map snd] in Ees. injection Ees as <- <-.
    split; [exact Ha|]. split; [exact Hsd|]. split; [|exact Hv].
    intros Hs0. rewrite Hsh, Hs0.
    destruct (merge_img_at_ok unitv _ _ _ Hr) as (a & b & E & _ & _ & Hrr). cbn [map fst] in E. injection E as <- <-.
    cbn zeta in Hrr. subst r. cbn [ishape]. cbn [map length]. rewrite !map_length. reflexivity.
  Qed.

  (** ... in particular extension and image agree on the slice dim whenever the merged header still has one
      (all inputs agreed on it), or the first extension had none *)
  Lemma from_sequence_w_sdim unitv (ws : list (wrapper V)) odim r e im0 e0 rest :
    ws = (im0, e0) :: rest ->
    from_sequence_w veqb vnone unitv ws odim = Ok (r, e) ->
    (islice r <> None \/ sdim (hdr_of e0) = None) -> sdim (hdr_of e) = islice r.
  Proof.
    intros Hws H Hc. destruct (from_sequence_w_agree unitv ws odim r e im0 e0 rest Hws H) as (_ & Hsd & _).
    rewrite Hsd. destruct (islice r) as [d|]; [reflexivity|]. destruct Hc as [Hc|Hc]; [congruence | exact Hc].
  Qed.
End WithV.
