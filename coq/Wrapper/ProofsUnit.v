(** The executable normalisation [Corr.unit_exact] (exact rational square roots) satisfies [unit_ok] on every
    vector whose norm is rational: the hypotheses of the image-level theorems are satisfiable, and the instance
    used by the correspondence runs is one of the functions the theorems quantify over. *)
From Coq Require Import List Bool Arith ZArith QArith Qabs Lia Lqa Qfield.
From DV Require Import Common.Res Ext.Seq Orient.Model Wrapper.Model Wrapper.Spec Wrapper.ProofsMat Wrapper.Corr.
Import ListNotations.

Lemma zsqrt_exact_sound z r : zsqrt_exact z = Some r -> (r * r = z /\ 0 <= r)%Z.
Proof.
  unfold zsqrt_exact. destruct (Z.sqrt z * Z.sqrt z =? z)%Z eqn:E; [|discriminate]. intros [= <-].
  split; [apply Z.eqb_eq, E | apply Z.sqrt_nonneg].
Qed.

Lemma qsqrt_sound q n : qsqrt q = Some n -> (n * n == q)%Q /\ (0 <= n)%Q.
Proof.
  unfold qsqrt. destruct (zsqrt_exact (Qnum (Qred q))) as [a|] eqn:Ea; [|discriminate].
  destruct (zsqrt_exact (Z.pos (Qden (Qred q)))) as [[|b|b]|] eqn:Eb; try discriminate. intros [= <-].
  apply zsqrt_exact_sound in Ea as [Ha Ha0]. apply zsqrt_exact_sound in Eb as [Hb _].
  split.
  - transitivity (Qred q); [|apply Qred_correct].
    unfold Qeq, Qmult. cbn [Qnum Qden]. rewrite Ha, Pos2Z.inj_mul, Hb. reflexivity.
  - unfold Qle. cbn [Qnum Qden]. lia.
Qed.

Lemma qsqrt_wd q q' : (q == q')%Q -> qsqrt q = qsqrt q'.
Proof. intros H. unfold qsqrt. rewrite (Qred_complete _ _ H). reflexivity. Qed.

Lemma unit_exact_ok v : rational_norm v = true -> unit_ok unit_exact v.
Proof.
  unfold rational_norm. destruct (qsqrt (norm2 v)) as [n|] eqn:E; [|discriminate].
  intros Hn. apply negb_true_iff in Hn.
  assert (Eu : unit_exact v = map (fun x => (x / n)%Q) v) by (unfold unit_exact; rewrite E; reflexivity).
  unfold unit_ok. rewrite Eu.
  assert (Hn0 : ~ (n == 0)%Q) by (intros H; apply Qeq_bool_iff in H; congruence).
  destruct (qsqrt_sound _ _ E) as [Hsq Hpos].
  assert (Hlt : (0 < n)%Q) by (apply Qle_lt_or_eq in Hpos as [H|H]; [exact H | exfalso; apply Hn0; symmetry; exact H]).
  exists (/ n)%Q. split; [apply Qinv_lt_0_compat, Hlt|].
  assert (Hv : veq (map (fun x => (x / n)%Q) v) (vscale (/ n) v)).
  { clear. induction v as [|x v IH]; cbn [map vscale]; constructor; [unfold Qdiv; ring | exact IH]. }
  split; [exact Hv|]. rewrite (norm2_veq _ _ Hv), norm2_vscale, <- Hsq. field. exact Hn0.
Qed.

Lemma rational_norm_veq v w : veq v w -> rational_norm v = rational_norm w.
Proof. intros H. unfold rational_norm. rewrite (qsqrt_wd _ _ (norm2_veq _ _ H)). reflexivity. Qed.

Lemma unit_exact_ok_at u : rational_norm u = true -> unit_ok_at unit_exact u.
Proof. intros H v Hv. apply unit_exact_ok. rewrite (rational_norm_veq _ _ Hv). exact H. Qed.
