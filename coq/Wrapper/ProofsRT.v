(** The image half of C05: split then merge, merge then split. *)
From Coq Require Import List Bool Arith ZArith QArith Qabs Lia Lqa.
From DV Require Import Common.Res Ext.Seq Ext.Model Orient.Model Orient.ProofsArr
     Wrapper.Model Wrapper.Spec Wrapper.ProofsArr Wrapper.ProofsMat Wrapper.ProofsMerge Wrapper.ProofsC03 Wrapper.ProofsSplit.
Import ListNotations.
Local Open Scope nat_scope.

(* ------------------------------------------------------------------------------------- more index facts *)

Lemma nth_app_default {A} (l : list A) (d : A) m k : nth k (l ++ repeat d m) d = nth k l d.
Proof.
  destruct (Nat.lt_ge_cases k (length l)) as [H|H]; [apply app_nth1, H|].
  rewrite app_nth2 by exact H. rewrite (nth_overflow l) by exact H.
  destruct (Nat.lt_ge_cases (k - length l) m) as [H2|H2]; [apply nth_repeat|].
  apply nth_overflow. rewrite repeat_length. exact H2.
Qed.

Lemma nth_pad_zeros n l k : nth k (pad_zeros n l) 0 = nth k l 0.
Proof. apply nth_app_default. Qed.
Lemma nth_pad_ones n l k : nth k (pad_ones n l) 1 = nth k l 1.
Proof. apply nth_app_default. Qed.

Lemma pad_zeros_length n l : length (pad_zeros n l) = Nat.max n (length l).
Proof. unfold pad_zeros. rewrite app_length, repeat_length. lia. Qed.

Lemma nth_firstn {A} (l : list A) d m k : nth k (firstn m l) d = if k <? m then nth k l d else d.
Proof.
  revert l k. induction m as [|m IH]; intros l k.
  - cbn [firstn]. destruct k; reflexivity.
  - destruct l as [|x l].
    + cbn [firstn]. destruct (k <? S m); destruct k; reflexivity.
    + destruct k as [|k]; [reflexivity|]. cbn [firstn nth]. rewrite IH. reflexivity.
Qed.

Lemma nth_set_nth {A} (l : list A) k j x d :
  nth j (set_nth k x l) d = if (j =? k) && (k <? length l) then x else nth j l d.
Proof.
  destruct (Nat.eqb_spec j k) as [->|Hn]; cbn [andb]; [|apply nth_set_nth_other, Hn].
  destruct (Nat.ltb_spec k (length l)) as [H|H]; [apply nth_set_nth_same, H|].
  rewrite !nth_overflow; [reflexivity | lia | rewrite set_nth_length; lia].
Qed.

Lemma last_set_nth {A} (l : list A) : forall k x d, S k < length l -> last (set_nth k x l) d = last l d.
Proof.
  induction l as [|y l IH]; intros k x d H; cbn [length] in H; [lia|].
  destruct k as [|k]; cbn [set_nth].
  - destruct l; [cbn in H; lia | reflexivity].
  - destruct l as [|z l]; [cbn in H; lia|]. specialize (IH k x d ltac:(cbn [length] in *; lia)).
    cbn [last] in *. destruct (set_nth k x (z :: l)) eqn:E.
    + pose proof (set_nth_length (z :: l) k x) as Hl. rewrite E in Hl. discriminate Hl.
    + exact IH.
Qed.

(** extents of a merged shape away from the merge axis, read with default 1 *)
Lemma nth_merged_shape sh dim n k :
  nth k (merged_shape sh dim n) 1 = if k =? dim then n else nth k sh 1.
Proof.
  unfold merged_shape. rewrite nth_set_nth, nth_pad_ones, pad_ones_length.
  destruct (Nat.eqb_spec k dim) as [->|Hn]; cbn [andb]; [|reflexivity].
  replace (dim <? Nat.max (S dim) (length sh)) with true by (symmetry; apply Nat.ltb_lt; lia). reflexivity.
Qed.

(** a coordinate on an axis of extent 1 (or beyond the shape) is 0 *)
Lemma in_bounds_coord_zero sh idx k : in_bounds sh idx = true -> nth k sh 1 = 1 -> nth k idx 0 = 0.
Proof.
  intros Hb H1. destruct (Nat.lt_ge_cases k (length sh)) as [Hk|Hk].
  - pose proof (in_bounds_nth sh idx k Hb Hk) as Hlt.
    rewrite (nth_indep sh 0 1 Hk) in Hlt. lia.
  - apply nth_overflow. rewrite (in_bounds_length _ _ Hb). exact Hk.
Qed.

(* ------------------------------------------------------------------------------------- split, then merge *)

Lemma remerged_shape sh dim :
  dim < length sh -> no_trailing_one sh dim ->
  merged_shape (trim_ones (set_nth dim 1 sh)) dim (nth dim sh 0) = sh.
Proof.
  intros Hd Hnt. set (X := set_nth dim 1 sh). set (P := trim_ones X).
  destruct (trim_ones_prefix X) as [k Hk]. fold P in Hk.
  assert (HX : length X = length sh) by apply set_nth_length.
  assert (HP : length P <= length sh) by (rewrite <- HX, Hk, app_length; lia).
  assert (Hlen : Nat.max (S dim) (length P) = length sh).
  { destruct (Nat.eq_dec dim (length sh - 1)) as [E|E]; [lia|].
    assert (P = X); [|subst P; rewrite H, HX; lia].
    apply trim_ones_id. rewrite HX. destruct Hnt as [H|[H|H]]; [left; exact H | right | lia].
    unfold X. rewrite last_set_nth by lia. exact H. }
  apply (nth_ext _ _ 1 1); [rewrite merged_shape_length; exact Hlen|].
  intros j Hj. rewrite nth_merged_shape.
  destruct (Nat.eqb_spec j dim) as [->|Hn]; [apply nth_indep, Hd|].
  transitivity (nth j X 1); [rewrite Hk; symmetry; apply nth_app_default|].
  unfold X. apply nth_set_nth_other, Hn.
Qed.

(** the voxel of the parent that a voxel of the re-merged array comes from *)
Lemma remerge_src sh dim idx :
  dim < length sh ->
  let P := trim_ones (set_nth dim 1 sh) in
  in_bounds (merged_shape P dim (nth dim sh 0)) idx = true ->
  piece_src (length sh) dim (nth dim idx 0) (merge_src P dim idx) = pad_zeros (length sh) idx.
Proof.
  intros Hd P Hb. set (X := set_nth dim 1 sh) in *.
  destruct (trim_ones_prefix X) as [k Hk]. fold P in Hk.
  assert (HX : length X = length sh) by apply set_nth_length.
  assert (HP : length P <= length sh) by (rewrite <- HX, Hk, app_length; lia).
  pose proof (in_bounds_length _ _ Hb) as Hli. rewrite merged_shape_length in Hli.
  unfold piece_src, merge_src.
  apply (nth_ext _ _ 0 0).
  - rewrite set_nth_length, !pad_zeros_length, firstn_length, set_nth_length. lia.
  - intros j _. rewrite nth_set_nth, !nth_pad_zeros, nth_firstn, nth_set_nth, pad_zeros_length, firstn_length, set_nth_length.
    destruct (Nat.eqb_spec j dim) as [->|Hn]; cbn [andb].
    + replace (dim <? Nat.max (length sh) (Nat.min (length P) (length idx))) with true
        by (symmetry; apply Nat.ltb_lt; lia). reflexivity.
    + destruct (Nat.ltb_spec j (length P)) as [Hj|Hj]; [reflexivity|].
      symmetry. apply (in_bounds_coord_zero _ _ _ Hb).
      rewrite nth_merged_shape. replace (j =? dim) with false by (symmetry; apply Nat.eqb_neq; exact Hn).
      apply nth_overflow. exact Hj.
Qed.

Section RT.
  Variable unitv : vec -> vec.

  (** entries of a piece's affine outside the translation column are the parent's *)
  Lemma shifted_col A dim i B j : shifted_by A dim i B -> j < 3 -> col3 B j = col3 A j.
  Proof.
    intros H Hj. unfold col3.
    assert (G : forall r, r < 4 -> mentry B r j = mentry A r j).
    { intros r Hr. pose proof (H r j Hr ltac:(lia)) as G.
      replace (j =? 3) with false in G by (symmetry; apply Nat.eqb_neq; lia). rewrite andb_false_r in G. exact G. }
    rewrite !G by lia. reflexivity.
  Qed.

  Lemma shifted_trans_diff A dim i B B' :
    shifted_by A dim i B -> shifted_by A dim (S i) B' ->
    veq (vsub (trans_of B') (trans_of B)) (col3 A dim).
  Proof.
    intros H H'. unfold trans_of, col3. rewrite vsub3.
    assert (G : forall r, r < 3 -> (mentry B' r 3 - mentry B r 3 == mentry A r dim)%Q).
    { intros r Hr. pose proof (H r 3 ltac:(lia) ltac:(lia)) as G1. pose proof (H' r 3 ltac:(lia) ltac:(lia)) as G2.
      replace ((r <? 3) && (3 =? 3)) with true in G1, G2
        by (symmetry; apply andb_true_intro; split; [apply Nat.ltb_lt; exact Hr | reflexivity]).
      rewrite G1, G2, Nat2Z.inj_succ, <- Z.add_1_r, inject_Z_plus. change (inject_Z 1) with 1%Q. ring. }
    repeat constructor; apply G; lia.
  Qed.

  (** a step by exactly one column [dim] passes the step test *)
  Lemma good_step A dim B B' u :
    u = col3 A dim -> col3 B' dim = u -> veq (vsub (trans_of B') (trans_of B)) u ->
    near_zero u = false -> unit_ok_at unitv u ->
    bad_step unitv dim B B' = false.
  Proof.
    intros Hu Hc Htd Hnz Hok. unfold bad_step, step_dir. rewrite Hc.
    set (td := vsub (trans_of B') (trans_of B)) in *.
    rewrite (near_zero_veq _ _ Htd), Hnz.
    pose proof (Hok td Htd) as Hotd. pose proof (Hok u (veq_refl u)) as Hou.
    assert (Hl : length (unitv td) = 3).
    { destruct Hotd as (c & _ & E & _). rewrite (veq_length _ _ E). unfold vscale. rewrite map_length.
      rewrite (veq_length _ _ Htd), Hu. reflexivity. }
    rewrite near_zero_unit; [|destruct Hotd as (c & _ & _ & N); exact N | exact Hl]. cbn [orb].
    apply negb_false_iff. apply close_veq_refl; [unfold step_atol; apply Qle_bool_imp_le; reflexivity|].
    constructor; [|constructor].
    rewrite (dot_veq _ _ _ _ (unit_ok_veq unitv td u Hotd Hou Htd) (veq_refl (unitv u))), dot_self.
    destruct Hou as (c & _ & _ & N). exact N.
  Qed.

  (** C05 (image), first half: the pieces of a split merge back -- in order, along the same dim -- to the
      parent's voxels, affine (entry by entry, as rationals) and header slice dim *)
  Lemma split_merge_law im dim ps :
    wf_img im -> length (ishape im) <= 5 ->
    split_img_at im dim = Ok ps ->
    (2 <= nth dim (ishape im) 0 \/ (3 <= dim /\ 1 <= nth dim (ishape im) 0)) ->
    (dim < 3 -> near_zero (col3 (iaff im) dim) = false /\ unit_ok_at unitv (col3 (iaff im) dim)) ->
    exists r, from_sequence_img unitv ps (Some dim) = Ok r /\
      ishape r = merged_shape (trim_ones (set_nth dim 1 (ishape im))) dim (nth dim (ishape im) 0) /\
      wf_img r /\
      (forall idx, in_bounds (ishape r) idx = true ->
                   aget (iarr r) idx = aget (iarr im) (pad_zeros (length (ishape im)) idx)) /\
      (forall i k, i < 4 -> k < 4 -> (mentry (iaff r) i k == mentry (iaff im) i k)%Q) /\
      islice r = islice im /\
      (no_trailing_one (ishape im) dim -> ishape r = ishape im /\ idata r = idata im) /\
      (reduced (iaff im) -> iaff r = iaff im).
  Proof.
    intros Hwf H5 Hs Hn Hu. set (sh := ishape im) in *. set (A := iaff im) in *.
    destruct (split_law im dim ps im Hs Hwf) as (Hd & Hl & Hp). fold sh in Hd, Hl, Hp.
    set (P := trim_ones (set_nth dim 1 sh)) in *.
    destruct ps as [|p0 rest] eqn:Eps; [cbn [length] in Hl; lia|]. rewrite <- Eps in *.
    (* every piece *)
    assert (Hpiece : forall i, i < length ps -> nth i ps p0 = nth i ps im).
    { intros i Hi. apply nth_indep, Hi. }
    assert (Hshape0 : ishape p0 = P).
    { pose proof (Hp 0 ltac:(rewrite Eps; cbn [length]; lia)) as G. cbn zeta in G. rewrite Eps in G at 1. apply G. }
    assert (Huni : uniform ps (ishape p0)).
    { intros p Hin. destruct (In_nth ps p im Hin) as [i [Hi <-]]. destruct (Hp i Hi) as (E & W & _).
      rewrite Hshape0. split; assumption. }
    (* the merge dim is accepted *)
    assert (Hres : resolve_merge_dim (ishape p0) (Some dim) = Ok dim).
    { unfold resolve_merge_dim. replace (dim <? 5) with true by (symmetry; apply Nat.ltb_lt; lia). cbn [negb].
      rewrite Hshape0.
      destruct (Nat.ltb_spec dim (length P)) as [HdP|HdP]; cbn [andb]; [|reflexivity].
      destruct (trim_ones_prefix (set_nth dim 1 sh)) as [k Hk]. fold P in Hk.
      assert (nth dim P 0 = 1) as ->; [|reflexivity].
      rewrite <- (app_nth1 P (repeat 1 k) 0 HdP), <- Hk. apply nth_set_nth_same, Hd. }
    (* all tests of the loop pass *)
    assert (Hm : mergeable unitv dim ps p0).
    { assert (Hax : forall i, i < length ps -> forall j, j < 3 ->
                      axis_of unitv dim (iaff (nth i ps p0)) j = axis_of unitv dim A j).
      { intros i Hi j Hj. rewrite (Hpiece i Hi). destruct (Hp i Hi) as (_ & _ & _ & _ & Hsp & Hns).
        unfold axis_of. destruct (Nat.lt_ge_cases dim 3) as [H3|H3].
        - rewrite (shifted_col A dim i _ j (Hsp H3) Hj). reflexivity.
        - rewrite (Hns H3). reflexivity. }
      split.
      - intros i Hi. unfold orient_okb. cbn [forallb].
        rewrite !(Hax i Hi) by lia. rewrite !(Hax 0) by (rewrite ?Eps; cbn [length]; lia).
        rewrite !close_refl by (unfold orient_atol; apply Qle_bool_imp_le; reflexivity). reflexivity.
      - intros H3 i Hi. rewrite (Hpiece i ltac:(lia)), (Hpiece (S i) Hi).
        destruct (Hp i ltac:(lia)) as (_ & _ & _ & _ & Hsp & _). destruct (Hp (S i) Hi) as (_ & _ & _ & _ & Hsp' & _).
        destruct (Hu H3) as [Hnz Hok].
        eapply (good_step A dim _ _ (col3 A dim) eq_refl); [|exact (shifted_trans_diff A dim i _ _ (Hsp H3) (Hsp' H3))|exact Hnz|exact Hok].
        apply (shifted_col A dim (S i) _ dim (Hsp' H3) H3). }
    assert (Hcnt : 2 <= length ps \/ 3 <= dim) by lia.
    destruct (merge_accept_law unitv ps (Some dim) dim p0 rest Eps Huni Hres Hcnt) as [[_ Hacc] _].
    destruct (Hacc Hm) as [r Hr]. exists r. split; [exact Hr|].
    destruct (merge_data_law unitv ps (Some dim) r p0 rest Eps Huni Hr) as (dim' & Hres' & Hrsh & Hrwf & Hdata).
    rewrite Hres in Hres'. injection Hres' as <-. rewrite Hshape0, Hl in Hrsh.
    split; [exact Hrsh|]. split; [exact Hrwf|].
    assert (Hget : forall idx, in_bounds (ishape r) idx = true ->
                     aget (iarr r) idx = aget (iarr im) (pad_zeros (length sh) idx)).
    { intros idx Hb. rewrite (Hdata idx Hb). rewrite Hrsh in Hb.
      destruct (in_bounds_merge_src P dim (nth dim sh 0) idx) as [Hsrc Hi]; [|exact Hb|].
      { destruct (resolve_merge_dim_ok _ _ _ Hres) as [_ G]. rewrite Hshape0 in G. exact G. }
      rewrite <- Hl in Hi. rewrite (Hpiece _ Hi). destruct (Hp _ Hi) as (Epsh & _ & _ & Hpd & _).
      rewrite Hshape0. rewrite Hpd by (rewrite Epsh; exact Hsrc).
      f_equal. apply remerge_src; assumption. }
    split; [exact Hget|]. split; [|split; [|split]].
    - (* affine *)
      assert (Hw0 : is_shape 4 4 (iaff p0) = true) by (apply (Huni p0); rewrite Eps; left; reflexivity).
      destruct (merge_affine_law unitv ps (Some dim) r dim p0 rest Eps Hw0 Hres Hr) as [Hsp Hns].
      pose proof (Hp 0 ltac:(rewrite Eps; cbn [length]; lia)) as G0. cbn zeta in G0.
      replace (nth 0 ps im) with p0 in G0 by (rewrite Eps; reflexivity).
      destruct G0 as (_ & _ & _ & _ & Hsp0 & Hns0).
      intros i k Hi Hk. destruct (Nat.lt_ge_cases dim 3) as [H3|H3].
      + destruct (Hsp H3) as (Hn2 & Hcol & Hoth).
        destruct (Hp 1 ltac:(lia)) as (_ & _ & _ & _ & Hsp1 & _). rewrite <- (Hpiece 1 ltac:(lia)) in Hsp1.
        pose proof (shifted_trans_diff A dim 0 _ _ (Hsp0 H3) (Hsp1 H3)) as Htd0.
        assert (Htd : veq (col3 (iaff r) dim) (col3 A dim)) by (rewrite Hcol; eapply veq_trans; [apply veq_map_Qred | exact Htd0]).
        destruct (Nat.eq_dec k dim) as [->|Hkd].
        * destruct (Nat.lt_ge_cases i 3) as [Hi3|Hi3].
          -- unfold col3 in Htd. inversion Htd as [|? ? ? ? E0 T0]; subst. inversion T0 as [|? ? ? ? E1 T1]; subst.
             inversion T1 as [|? ? ? ? E2 _]; subst.
             destruct i as [|[|[|i]]]; try lia; assumption.
          -- rewrite Hoth by (try assumption; lia). pose proof (Hsp0 H3 i dim Hi ltac:(lia)) as G.
             replace (i <? 3) with false in G by (symmetry; apply Nat.ltb_ge; exact Hi3). cbn [andb] in G. rewrite G. reflexivity.
        * rewrite Hoth by (try assumption; lia). pose proof (Hsp0 H3 i k Hi Hk) as G.
          destruct ((i <? 3) && (k =? 3)); [rewrite G; unfold A; change (inject_Z (Z.of_nat 0)) with 0%Q; ring | rewrite G; reflexivity].
      + rewrite (Hns H3), (Hns0 H3). reflexivity.
    - (* slice dim *)
      rewrite (merge_slice_law unitv ps (Some dim) r p0 rest Eps Hr).
      assert (Hsl : forall p, In p ps -> islice p = islice im).
      { intros p Hin. destruct (In_nth ps p im Hin) as [i [Hi <-]]. apply (Hp i Hi). }
      assert (all_same_slice (islice p0) (map islice rest) = true) as ->.
      { unfold all_same_slice. apply forallb_forall. intros s Hin. apply in_map_iff in Hin as (p & <- & Hin).
        apply onat_eqb_eq. rewrite (Hsl p), (Hsl p0); [reflexivity | rewrite Eps; left; reflexivity | rewrite Eps; right; exact Hin]. }
      apply Hsl. rewrite Eps. left. reflexivity.
    - (* with no trailing singleton dims the array itself is reproduced *)
      intros Hnt. assert (Es : ishape r = sh) by (rewrite Hrsh; apply remerged_shape; assumption).
      split; [exact Es|].
      assert (E : iarr r = iarr im); [|exact (f_equal adata E)].
      destruct Hrwf as [Hrw _]. destruct Hwf as [Hw _].
      apply arr_ext; [exact Hrw | exact Hw | exact Es|].
      intros idx Hb. cbn [iarr ashape] in Hb. rewrite (Hget idx Hb). f_equal.
      unfold pad_zeros. rewrite <- Es, (in_bounds_length _ _ Hb), Nat.sub_diag. apply app_nil_r.
    - (* reduced entries: the affine itself is reproduced *)
      intros Hred.
      assert (Hw0 : is_shape 4 4 (iaff p0) = true) by (apply (Huni p0); rewrite Eps; left; reflexivity).
      destruct (merge_affine_law unitv ps (Some dim) r dim p0 rest Eps Hw0 Hres Hr) as [Hsp Hns].
      assert (Ep0 : iaff p0 = A).
      { pose proof (split_first_affine im dim ps im Hs ltac:(lia)) as G. rewrite Eps in G at 1. exact G. }
      destruct (Nat.lt_ge_cases dim 3) as [H3|H3]; [|rewrite (Hns H3); exact Ep0].
      destruct (Hsp H3) as (Hn2 & Hcol & Hoth).
      destruct Hwf as [_ HwA]. destruct Hrwf as [_ Hwr].
      apply mat44_ext; [exact Hwr | exact HwA|]. intros i k Hi Hk.
      destruct (Nat.eq_dec k dim) as [->|Hkd]; [destruct (Nat.lt_ge_cases i 3) as [Hi3|Hi3]|].
      + destruct (Hp 0 ltac:(lia)) as (_ & _ & _ & _ & Hsp0 & _). destruct (Hp 1 ltac:(lia)) as (_ & _ & _ & _ & Hsp1 & _).
        rewrite <- (Hpiece 0 ltac:(lia)) in Hsp0. rewrite <- (Hpiece 1 ltac:(lia)) in Hsp1.
        replace (nth 0 ps p0) with p0 in Hsp0 by (rewrite Eps; reflexivity).
        pose proof (shifted_trans_diff A dim 0 _ _ (Hsp0 H3) (Hsp1 H3)) as Htd0.
        assert (Em : mentry (iaff r) i dim = nth i (col3 (iaff r) dim) 0%Q) by (destruct i as [|[|[|i]]]; try lia; reflexivity).
        assert (Ea : mentry A i dim = nth i (col3 A dim) 0%Q) by (destruct i as [|[|[|i]]]; try lia; reflexivity).
        rewrite Em, Hcol. change 0%Q with (Qred 0) at 1. rewrite map_nth.
        rewrite (Qred_complete _ _ (veq_nth _ _ Htd0 i)), <- Ea. apply reduced_entry, Hred.
      + rewrite Hoth by (try assumption; lia). rewrite Ep0. reflexivity.
      + rewrite Hoth by (try assumption; lia). rewrite Ep0. reflexivity.
  Qed.
End RT.

(* ------------------------------------------------------------------------------------- merge, then split *)

Lemma nth_repeat_lt {A} (x d : A) : forall m j, j < m -> nth j (repeat x m) d = x.
Proof. induction m as [|m IH]; intros j H; [lia|]. destruct j; cbn [repeat nth]; [reflexivity | apply IH; lia]. Qed.

Lemma nth_pad_ones_dim sh dim : (dim < length sh -> nth dim sh 0 = 1) -> nth dim (pad_ones (S dim) sh) 0 = 1.
Proof.
  intros H. unfold pad_ones. destruct (Nat.lt_ge_cases dim (length sh)) as [Hd|Hd].
  - rewrite app_nth1 by exact Hd. apply H, Hd.
  - rewrite app_nth2 by exact Hd. apply nth_repeat_lt. lia.
Qed.

(** splitting a merged shape along the merge axis gives back the (trimmed) input shape *)
Lemma resplit_shape sh dim n :
  3 <= length sh -> (dim < length sh -> nth dim sh 0 = 1) ->
  trim_ones (set_nth dim 1 (merged_shape sh dim n)) = trim_ones sh.
Proof.
  intros H3 Hs. unfold merged_shape. rewrite set_nth_set_nth.
  rewrite <- (nth_pad_ones_dim sh dim Hs) at 1. rewrite set_nth_nth_id.
  unfold pad_ones. apply trim_ones_app_ones, H3.
Qed.

(** the voxel of input [i] that voxel [idx] of piece [i] of the merged array comes from *)
Lemma resplit_src sh dim n i idx k :
  (dim < length sh -> nth dim sh 0 = 1) ->
  sh = trim_ones sh ++ repeat 1 k -> in_bounds (trim_ones sh) idx = true ->
  merge_src sh dim (piece_src (length (merged_shape sh dim n)) dim i idx) = idx ++ repeat 0 k.
Proof.
  intros Hs Hk Hb. set (P := trim_ones sh) in *.
  pose proof (in_bounds_length _ _ Hb) as Hli.
  assert (HP : length sh = length P + k) by (rewrite Hk at 1; rewrite app_length, repeat_length; reflexivity).
  unfold merge_src, piece_src. rewrite set_nth_set_nth, merged_shape_length.
  apply (nth_ext _ _ 0 0).
  - rewrite firstn_length, set_nth_length, pad_zeros_length, app_length, repeat_length. lia.
  - intros j _. rewrite nth_firstn, nth_set_nth, nth_pad_zeros, pad_zeros_length, nth_app_default.
    destruct (Nat.ltb_spec j (length sh)) as [Hj|Hj]; [|symmetry; apply nth_overflow; lia].
    destruct (Nat.eqb_spec j dim) as [->|Hn]; cbn [andb]; [|reflexivity].
    replace (dim <? Nat.max (Nat.max (S dim) (length sh)) (length idx)) with true by (symmetry; apply Nat.ltb_lt; lia).
    symmetry. apply (in_bounds_coord_zero P idx dim Hb).
    rewrite <- (nth_app_default P 1 k dim), <- Hk. rewrite (nth_indep sh 1 0 Hj). apply Hs, Hj.
Qed.

Section MS.
  Variable unitv : vec -> vec.

  (** C05 (image), second half: splitting a merged image along the merge dim returns, in order, pieces that
      carry exactly the inputs' voxels (shape: the input shape without trailing singleton dims beyond 3) *)
  Lemma merge_split_law ims odim r im0 rest dim :
    ims = im0 :: rest -> uniform ims (ishape im0) -> 3 <= length (ishape im0) ->
    resolve_merge_dim (ishape im0) odim = Ok dim ->
    from_sequence_img unitv ims odim = Ok r ->
    exists ps, split_img r (Some dim) = Ok ps /\ length ps = length ims /\
      forall i, i < length ims ->
        let p := nth i ps im0 in
        ishape p = trim_ones (ishape im0) /\ idata p = idata (nth i ims im0) /\ islice p = islice r /\
        (3 <= dim -> iaff p = iaff r).
  Proof.
    intros Eims Hu H3 Hres Hr. set (sh := ishape im0) in *.
    destruct (merge_data_law unitv ims odim r im0 rest Eims Hu Hr) as (dim' & Hres' & Hrsh & Hrwf & Hdata).
    fold sh in Hres'. rewrite Hres in Hres'. injection Hres' as <-. fold sh in Hrsh, Hdata.
    destruct (resolve_merge_dim_ok _ _ _ Hres) as [_ Hs]. fold sh in Hs.
    assert (Hdl : dim < length (ishape r)) by (rewrite Hrsh, merged_shape_length; lia).
    assert (Hnd : nth dim (ishape r) 0 = length ims).
    { rewrite Hrsh. unfold merged_shape. apply nth_set_nth_same. rewrite pad_ones_length. lia. }
    assert (Hex : exists ps, split_img_at r dim = Ok ps).
    { unfold split_img_at. rewrite (nth_error_nth' _ 0 Hdl). eauto. }
    destruct Hex as [ps Hps]. exists ps. split; [exact Hps|].
    destruct (split_law r dim ps im0 Hps Hrwf) as (_ & Hl & Hp). rewrite Hnd in Hl. split; [exact Hl|].
    intros i Hi. rewrite <- Hl in Hi. cbn zeta. destruct (Hp i Hi) as (Esh & Hwp & Esl & Hget & _ & Hns).
    assert (Esh' : ishape (nth i ps im0) = trim_ones sh) by (rewrite Esh, Hrsh; apply resplit_shape; assumption).
    split; [exact Esh'|]. split; [|split; [exact Esl | exact Hns]].
    rewrite Hl in Hi. set (p := nth i ps im0) in *. set (im := nth i ims im0).
    destruct (Hu im (nth_In ims im0 Hi)) as [Eim [Hwim _]].
    destruct (trim_ones_prefix sh) as [k Hk]. set (P := trim_ones sh) in *.
    destruct Hwp as [Hwp _].
    transitivity (adata (tabulate (ashape (iarr p)) (aget (iarr p)))); [rewrite tabulate_aget by exact Hwp; reflexivity|].
    transitivity (adata (tabulate (ashape (iarr im)) (aget (iarr im)))); [|rewrite tabulate_aget by exact Hwim; reflexivity].
    unfold tabulate. cbn [adata iarr ashape]. rewrite Eim, Esh'. rewrite Hk at 1.
    rewrite all_indices_app_ones, map_map. apply map_ext_in. intros idx Hin. apply all_indices_in in Hin.
    f_equal. unfold iarr in Hget. cbn [ishape] in Hget. change (aget (iarr p) idx = aget (iarr im) (idx ++ repeat 0 k)).
    unfold iarr at 1. rewrite Hget by (rewrite Esh'; exact Hin).
    assert (Hsrc : in_bounds (ishape r) (piece_src (length (ishape r)) dim i idx) = true).
    { apply piece_src_in_bounds; [exact Hdl | lia|]. rewrite piece_shape_eq by exact Hdl. rewrite <- Esh, Esh'. exact Hin. }
    change {| ashape := ishape r; adata := idata r |} with (iarr r). rewrite (Hdata _ Hsrc).
    assert (Ei : nth dim (piece_src (length (ishape r)) dim i idx) 0 = i).
    { unfold piece_src. apply nth_set_nth_same. rewrite pad_zeros_length. lia. }
    rewrite Ei. fold im. f_equal. rewrite Hrsh. apply resplit_src; assumption.
  Qed.
End MS.
