(** Wrapper level: what [NiftiWrapper.get_meta] returns on the results of [from_sequence_w] / [split_w], obtained by
    composing the image-level laws of this directory with the extension-level theorems
    ([Ext.ProofsLookup.get_meta_value], [Ext.ProofsSubset.subset_den], [Ext.ProofsMerge.merge_den]).
    Voxel indices are Python ints ([list Z]), as [get_meta] takes them. *)
From Coq Require Import List Bool Arith ZArith QArith Qabs Lia.
From DV Require Import Common.Res Common.Str Ext.Types Ext.Seq Ext.Model Ext.Spec Ext.LookupSpec Ext.TableFacts Ext.ValidFacts
     Ext.ProofsLookup Ext.ProofsSubset Ext.ProofsValidSubset Ext.ProofsMergeDen Ext.ProofsMergeStep Ext.ProofsMergeFrame
     Ext.ProofsMerge Orient.Model Orient.ProofsArr Orient.ProofsAff
     Wrapper.Model Wrapper.Spec Wrapper.ProofsArr Wrapper.ProofsMat Wrapper.ProofsMerge Wrapper.ProofsC03
     Wrapper.ProofsSplit Wrapper.ProofsRT Wrapper.ProofsW.
Import ListNotations.
Local Open Scope nat_scope.

(* ------------------------------------------------------------------------------------- Z <-> nat indices *)

Lemma map_set_nth {A B} (f : A -> B) (l : list A) : forall k x, map f (set_nth k x l) = set_nth k (f x) (map f l).
Proof.
  induction l as [|y l IH]; intros k x; [destruct k; reflexivity|].
  destruct k; cbn [set_nth map]; [reflexivity|]. rewrite IH. reflexivity.
Qed.

Lemma map_repeat {A B} (f : A -> B) x n : map f (repeat x n) = repeat (f x) n.
Proof. induction n as [|n IH]; [reflexivity|]. cbn [repeat map]. rewrite IH. reflexivity. Qed.

Lemma merge_src_z_nat sh dim ix : map Z.to_nat (merge_src_z sh dim ix) = merge_src sh dim (map Z.to_nat ix).
Proof. unfold merge_src_z, merge_src. rewrite <- firstn_map, map_set_nth. reflexivity. Qed.

Lemma piece_src_z_nat ndim dim i ix :
  map Z.to_nat (piece_src_z ndim dim i ix) = piece_src ndim dim i (map Z.to_nat ix).
Proof.
  unfold piece_src_z, piece_src, pad_zeros. rewrite map_set_nth, map_app, map_repeat, map_length, Nat2Z.id. reflexivity.
Qed.

Lemma zbounds_nat ix sh : LookupSpec.in_bounds ix sh -> in_bounds sh (map Z.to_nat ix) = true.
Proof.
  revert ix. induction sh as [|n sh IH]; intros [|z ix] [Hl Hb]; cbn [length] in Hl; try discriminate; [reflexivity|].
  cbn [map in_bounds]. apply andb_true_intro. split.
  - pose proof (Hb 0 ltac:(cbn [length]; lia)) as H0. cbn [nth] in H0. apply Nat.ltb_lt. lia.
  - apply IH. split; [lia|]. intros j Hj. apply (Hb (S j)). cbn [length]. lia.
Qed.

Lemma nat_zbounds ix sh :
  Forall (fun z => (0 <= z)%Z) ix -> in_bounds sh (map Z.to_nat ix) = true -> LookupSpec.in_bounds ix sh.
Proof.
  revert ix. induction sh as [|n sh IH]; intros [|z ix] Hnn H; cbn [map in_bounds] in H; try discriminate.
  - split; [reflexivity | intros j Hj; cbn in Hj; lia].
  - apply andb_prop in H as [H1 H2]. apply Nat.ltb_lt in H1. inversion Hnn as [|? ? Hz Hr]; subst.
    destruct (IH ix Hr H2) as [Hl Hb]. split; [cbn [length]; lia|].
    intros [|j] Hj; cbn [nth]; [lia | apply Hb; cbn [length] in Hj; lia].
Qed.

Lemma zbounds_nonneg ix sh : LookupSpec.in_bounds ix sh -> Forall (fun z => (0 <= z)%Z) ix.
Proof.
  intros [Hl Hb]. apply Forall_forall. intros z Hin. destruct (In_nth ix z 0%Z Hin) as [j [Hj <-]].
  apply (Hb j). lia.
Qed.

Lemma Forall_set_nth {A} (P : A -> Prop) (l : list A) : forall k x, P x -> Forall P l -> Forall P (set_nth k x l).
Proof.
  induction l as [|y l IH]; intros k x Hx Hl; [destruct k; constructor|].
  inversion Hl; subst. destruct k; cbn [set_nth]; constructor; auto.
Qed.

Lemma Forall_firstn {A} (P : A -> Prop) (l : list A) n : Forall P l -> Forall P (firstn n l).
Proof. intros H. apply Forall_forall. intros x Hin. apply (proj1 (Forall_forall _ _) H). rewrite <- (firstn_skipn n l). apply in_or_app. left. exact Hin. Qed.

(** coordinate [j] of an in-bounds index, as a natural number (0 beyond the shape) *)
Lemma coord_lt ix sh j : LookupSpec.in_bounds ix sh -> nth j (map Z.to_nat ix) 0 < nth j sh 1.
Proof.
  intros H. pose proof (zbounds_nat _ _ H) as Hb.
  destruct (Nat.lt_ge_cases j (length sh)) as [Hj|Hj].
  - pose proof (in_bounds_nth _ _ j Hb Hj). rewrite (nth_indep sh 1 0 Hj). exact H0.
  - rewrite !nth_overflow; [lia | exact Hj | rewrite (in_bounds_length _ _ Hb); exact Hj].
Qed.

Lemma pos_of_nat (im : Ext.Model.img) ix :
  pos_of im ix = (match Ext.Model.islice im with Some d => nth d (map Z.to_nat ix) 0 | None => 0 end,
                  nth 3 (map Z.to_nat ix) 0, nth 4 (map Z.to_nat ix) 0).
Proof. reflexivity. Qed.

(** an in-bounds voxel index addresses a position of the grid of an extension recorded for that image *)
Lemma pos_in_dims (im : Ext.Model.img) h ix :
  Ext.Model.ishape im = shape h -> Ext.Model.islice im = sdim h ->
  LookupSpec.in_bounds ix (Ext.Model.ishape im) -> in_dims (dims h) (pos_of im ix).
Proof.
  intros Hs Hd Hb. rewrite pos_of_nat, Hd. unfold dims, in_dims. rewrite Hs in Hb.
  destruct (sdim h) as [d|]; repeat split; try apply coord_lt; try exact Hb; lia.
Qed.

(* ------------------------------------------------------------------------------------------- get_meta = den *)

Section WithV.
  Context {V : Type} (veqb : V -> V -> bool) (vnone : V).
  Hypothesis veqb_spec : forall a b, reflect (a = b) (veqb a b).

  (** on an image that passes the code's test for the class of the key, [get_meta] with default [None] is the
      denotation of the extension at the addressed grid position (absent key: [None]) *)
  Lemma get_meta_den (im : Ext.Model.img) (e : ext V) k ix :
    valid e -> img_wf im -> LookupSpec.in_bounds ix (Ext.Model.ishape im) ->
    (forall c vs, lookup_e e k = Some (c, vs) -> c <> GConst -> agrees_code im (hdr_of e) c) ->
    get_meta im e k (Some ix) vnone = Ok (den vnone e k (pos_of im ix)).
  Proof.
    intros Hv Hw Hb Hag. destruct (lookup_e e k) as [[c vs]|] eqn:El.
    - destruct (cls_eqb_spec c GConst) as [->|Hc].
      + destruct Hv as [_ [_ Hent]]. destruct (Hent _ _ _ (assoc_In _ _ _ El)) as [Hok _].
        rewrite (get_meta_const im e k (Some ix) vnone vs).
        * unfold den. rewrite El, Hok. cbn [cidx]. destruct (dims (hdr_of e)) as [[? ?] ?].
          destruct (pos_of im ix) as [[? ?] ?]. destruct vs; reflexivity.
        * rewrite El. unfold visible. rewrite class_valid_ok, Hok. reflexivity.
      + apply (get_meta_value vnone im e k ix vnone c vs); auto. apply (Hag c vs eq_refl Hc).
    - rewrite (get_meta_absent im e k (Some ix) vnone) by (rewrite El; reflexivity).
      unfold den. rewrite El. reflexivity.
  Qed.

  (** a consistent wrapper passes the code's test for every class a valid extension stores a key under *)
  Lemma consistent_agrees (w : wrapper V) k :
    consistent w -> valid (snd w) ->
    forall c vs, lookup_e (snd w) k = Some (c, vs) -> c <> GConst -> agrees_code (ext_img_of (fst w)) (hdr_of (snd w)) c.
  Proof.
    intros (Hs & Hd & Ha) [_ [_ Hent]] c vs El _.
    destruct (Hent _ _ _ (assoc_In _ _ _ El)) as [_ [Hsl _]].
    unfold ext_img_of. rewrite <- Hs, <- Hd, <- Ha. apply agrees_exact, Hsl.
  Qed.

  Lemma consistent_img_wf (w : wrapper V) : consistent w -> valid (snd w) -> img_wf (ext_img_of (fst w)).
  Proof.
    intros (Hs & Hd & _) [[Hn [_ [Hsd _]]] _]. unfold img_wf, ext_img_of. cbn [Ext.Model.ishape Ext.Model.islice].
    rewrite <- Hs, <- Hd. split; [exact Hn | exact Hsd].
  Qed.

  Lemma get_meta_consistent (w : wrapper V) k ix :
    consistent w -> valid (snd w) -> LookupSpec.in_bounds ix (ishape (fst w)) ->
    get_meta (ext_img_of (fst w)) (snd w) k (Some ix) vnone =
    Ok (den vnone (snd w) k (pos_of (ext_img_of (fst w)) ix)).
  Proof.
    intros Hc Hv Hb. apply get_meta_den; [exact Hv | apply consistent_img_wf; assumption | exact Hb|].
    apply consistent_agrees; assumption.
  Qed.
End WithV.

(* ------------------------------------------------------------------------------------------------- split *)

Lemma rows3_eq A B :
  is_shape 4 4 A = true -> is_shape 4 4 B = true ->
  (forall r c, r < 4 -> c < 3 -> mentry B r c = mentry A r c) ->
  forall d, firstn 3 (nth d B []) = firstn 3 (nth d A []).
Proof.
  intros HA HB H d.
  destruct (is_shape44 A HA) as (a00&a01&a02&a03&a10&a11&a12&a13&a20&a21&a22&a23&a30&a31&a32&a33&->).
  destruct (is_shape44 B HB) as (b00&b01&b02&b03&b10&b11&b12&b13&b20&b21&b22&b23&b30&b31&b32&b33&->).
  pose proof (H 0 0) as E00. pose proof (H 0 1) as E01. pose proof (H 0 2) as E02.
  pose proof (H 1 0) as E10. pose proof (H 1 1) as E11. pose proof (H 1 2) as E12.
  pose proof (H 2 0) as E20. pose proof (H 2 1) as E21. pose proof (H 2 2) as E22.
  pose proof (H 3 0) as E30. pose proof (H 3 1) as E31. pose proof (H 3 2) as E32.
  cbn [mentry nth] in *.
  destruct d as [|[|[|[|[|d]]]]]; cbn [nth firstn]; try reflexivity;
    rewrite ?E00, ?E01, ?E02, ?E10, ?E11, ?E12, ?E20, ?E21, ?E22, ?E30, ?E31, ?E32 by lia; reflexivity.
Qed.

(** same shape and slice dim, same 3x3 part (and first three entries of the last row): passes the code's test *)
Lemma agrees_linear (im : Ext.Model.img) h c :
  Ext.Model.ishape im = shape h -> Ext.Model.islice im = sdim h ->
  (forall d, firstn 3 (nth d (Ext.Model.iaff im) []) = firstn 3 (nth d (aff h) [])) ->
  (is_slices c = true -> sdim h <> None) -> agrees_code im h c.
Proof.
  intros Hs Hd Hr Hsl. destruct c; cbn [agrees_code]; rewrite ?Hs; try reflexivity; try exact I.
  all: rewrite Hd; destruct (sdim h) as [d|]; [|exfalso; apply (Hsl eq_refl); reflexivity].
  all: exists d, d; repeat split; try reflexivity.
  all: rewrite Hr; apply close_vec_refl; vm_compute; discriminate.
Qed.

Lemma nth_piece_src ndim dim i n j :
  dim < ndim -> nth j (piece_src ndim dim i n) 0 = if j =? dim then i else nth j n 0.
Proof.
  intros Hd. unfold piece_src. rewrite nth_set_nth, nth_pad_zeros, pad_zeros_length.
  destruct (Nat.eqb_spec j dim) as [->|Hn]; cbn [andb]; [|reflexivity].
  replace (dim <? Nat.max ndim (length n)) with true by (symmetry; apply Nat.ltb_lt; lia). reflexivity.
Qed.

Lemma piece_src_z_bounds sh dim i ix :
  dim < length sh -> i < nth dim sh 0 ->
  LookupSpec.in_bounds ix (piece_shape sh dim) -> LookupSpec.in_bounds (piece_src_z (length sh) dim i ix) sh.
Proof.
  intros Hd Hi Hb. apply nat_zbounds.
  - unfold piece_src_z. apply Forall_set_nth; [lia|]. apply Forall_app. split; [eapply zbounds_nonneg, Hb|].
    apply Forall_forall. intros z Hz. apply repeat_spec in Hz. lia.
  - rewrite piece_src_z_nat. apply piece_src_in_bounds; [exact Hd | exact Hi | apply zbounds_nat, Hb].
Qed.

Section Split.
  Context {V : Type} (veqb : V -> V -> bool) (vnone : V).
  Hypothesis veqb_spec : forall a b, reflect (a = b) (veqb a b).

  (** C04 at the wrapper level: a lookup on piece [i] of [split] = the parent's lookup with the split axis fixed to [i] *)
  Theorem split_w_lookup (im : img) (e : ext V) odim ws (dw : wrapper V) :
    split_w veqb vnone (im, e) odim = Ok ws ->
    wf_img im -> consistent (im, e) -> valid e -> nondegenerate e -> no_trailing1 (shape (hdr_of e)) = true ->
    exists dim, resolve_split_dim im odim = Ok dim /\ length ws = nth dim (ishape im) 0 /\
      forall i, i < length ws ->
        forall k ix, LookupSpec.in_bounds ix (ishape (fst (nth i ws dw))) ->
          LookupSpec.in_bounds (piece_src_z (length (ishape im)) dim i ix) (ishape im) /\
          get_meta (ext_img_of (fst (nth i ws dw))) (snd (nth i ws dw)) k (Some ix) vnone =
          get_meta (ext_img_of im) e k (Some (piece_src_z (length (ishape im)) dim i ix)) vnone.
  Proof.
    intros H Hwf Hcons Hv Hnd Hnt. pose proof Hcons as (Hsh & Hsd & Haff). cbn [fst snd] in Hsh, Hsd, Haff.
    destruct (split_w_spec veqb vnone im e odim ws H) as (dim & ps & Er & Es & Hl & Hn).
    destruct (split_law im dim ps (fst dw) Es Hwf) as (Hd & Hlen & Hp).
    exists dim. split; [exact Er|]. split; [congruence|]. intros i Hi k ix Hb. rewrite Hl in Hi.
    destruct (Hn i (fst dw) dw Hi) as [Hf (md & Hmd & Hg)].
    destruct (Hp i Hi) as (Hpsh & Hpwf & Hpsl & _ & Hpsp & Hpns).
    set (p := fst (nth i ws dw)) in *. set (pe := snd (nth i ws dw)) in *. rewrite <- Hf in Hpsh, Hpwf, Hpsl, Hpsp, Hpns.
    assert (Emd : md = dim).
    { unfold meta_dim in Hmd. destruct (onat_eqb (islice im) (Some dim)) eqn:E; [|congruence].
      rewrite Hsd in Hmd. destruct (islice im) as [s|]; [|discriminate E]. cbn [onat_eqb] in E.
      apply Nat.eqb_eq in E. congruence. }
    subst md.
    assert (Hdn : dim < ndim (hdr_of e)) by (unfold ndim; rewrite Hsh; exact Hd).
    assert (Hin : i < nth dim (shape (hdr_of e)) 0) by (rewrite Hsh; lia).
    assert (Hrefl : forall v, veqb v v = true) by (intros v; destruct (veqb_spec v v); [reflexivity | contradiction]).
    destruct (get_subset_valid veqb vnone Hrefl e pe dim i Hv Hnd Hdn Hin Hg) as [Hvpe _].
    destruct (split_w_agree veqb vnone im e odim ws dw H Hwf Hsh Hsd i ltac:(lia)) as (Gs & Gd & Ga).
    fold p pe in Gs, Gd, Ga.
    (* the piece: lookup = denotation *)
    assert (Hbp : LookupSpec.in_bounds (piece_src_z (length (ishape im)) dim i ix) (ishape im)).
    { apply piece_src_z_bounds; [exact Hd | lia|]. rewrite piece_shape_eq by exact Hd. rewrite <- Hpsh. exact Hb. }
    split; [exact Hbp|].
    assert (Hwp : img_wf (ext_img_of p)).
    { destruct Hvpe as [[Hn3 [_ [Hsdp _]]] _]. unfold img_wf, ext_img_of. cbn [Ext.Model.ishape Ext.Model.islice].
      rewrite <- Gs, <- Gd. split; [exact Hn3 | exact Hsdp]. }
    rewrite (get_meta_den vnone (ext_img_of p) pe k ix Hvpe Hwp Hb).
    2:{ intros c vs El _. destruct Hvpe as [_ [_ Hent]]. destruct (Hent _ _ _ (assoc_In _ _ _ El)) as [_ [Hsl _]].
        apply agrees_linear; cbn [ext_img_of Ext.Model.ishape Ext.Model.islice Ext.Model.iaff]; [congruence | congruence | | exact Hsl].
        rewrite Ga, Haff. destruct Hwf as [_ HwA]. destruct Hpwf as [_ HwB].
        apply rows3_eq; [exact HwA | exact HwB|]. intros r c0 Hr Hc0.
        destruct (Nat.lt_ge_cases dim 3) as [H3|H3]; [|rewrite (Hpns H3); reflexivity].
        pose proof (Hpsp H3 r c0 Hr ltac:(lia)) as G.
        replace (c0 =? 3) with false in G by (symmetry; apply Nat.eqb_neq; lia). rewrite andb_false_r in G. exact G. }
    pose proof (get_meta_consistent vnone (im, e) k _ Hcons Hv Hbp) as Gp. cbn [fst snd] in Gp. rewrite Gp. f_equal.
    (* denotation of the piece = denotation of the parent with the axis fixed *)
    assert (Hpd : in_dims (dims (hdr_of pe)) (pos_of (ext_img_of p) ix)).
    { apply pos_in_dims; cbn [ext_img_of Ext.Model.ishape Ext.Model.islice]; [congruence | congruence | exact Hb]. }
    rewrite (subset_den veqb vnone veqb_spec e pe dim i Hv Hnt Hdn Hin Hg k _ Hpd). f_equal.
    (* the grid position *)
    rewrite !pos_of_nat. cbn [ext_img_of Ext.Model.islice]. rewrite piece_src_z_nat, Hpsl.
    destruct Hv as [[Hn35 [_ [Hsd3 _]]] _]. unfold ndim in Hn35. rewrite Hsh in Hn35.
    unfold ProofsSubset.axis_of. rewrite Hsd. unfold odim_is.
    destruct (islice im) as [s|] eqn:Esl; rewrite !nth_piece_src by exact Hd.
    - specialize (Hsd3 s ltac:(rewrite Hsd; reflexivity)).
      destruct (Nat.eqb_spec s dim) as [->|Hne].
      + replace (3 =? dim) with false by (symmetry; apply Nat.eqb_neq; lia).
        replace (4 =? dim) with false by (symmetry; apply Nat.eqb_neq; lia). reflexivity.
      + destruct (Nat.ltb_spec dim 3) as [H3|H3].
        * replace (3 =? dim) with false by (symmetry; apply Nat.eqb_neq; lia).
          replace (4 =? dim) with false by (symmetry; apply Nat.eqb_neq; lia). reflexivity.
        * destruct (Nat.eqb_spec dim 3) as [->|H4]; [reflexivity|].
          assert (dim = 4) by lia. subst dim. reflexivity.
    - destruct (Nat.ltb_spec dim 3) as [H3|H3].
      + replace (3 =? dim) with false by (symmetry; apply Nat.eqb_neq; lia).
        replace (4 =? dim) with false by (symmetry; apply Nat.eqb_neq; lia). reflexivity.
      + destruct (Nat.eqb_spec dim 3) as [->|H4]; [reflexivity|].
        assert (dim = 4) by lia. subst dim. reflexivity.
  Qed.
End Split.

(* ------------------------------------------------------------------------------------------------- merge *)

Lemma nth_merge_src sh dim n0 n j :
  in_bounds (merged_shape sh dim n0) n = true ->
  nth j (merge_src sh dim n) 0 = if j =? dim then 0 else nth j n 0.
Proof.
  intros Hb. pose proof (in_bounds_length _ _ Hb) as Hl. rewrite merged_shape_length in Hl.
  unfold merge_src. rewrite nth_firstn, nth_set_nth.
  destruct (Nat.eqb_spec j dim) as [->|Hn]; cbn [andb].
  - destruct (dim <? length sh); [|reflexivity].
    replace (dim <? length n) with true by (symmetry; apply Nat.ltb_lt; lia). reflexivity.
  - destruct (Nat.ltb_spec j (length sh)) as [Hj|Hj]; [reflexivity|].
    symmetry. apply (in_bounds_coord_zero _ _ _ Hb). rewrite nth_merged_shape.
    replace (j =? dim) with false by (symmetry; apply Nat.eqb_neq; exact Hn). apply nth_overflow, Hj.
Qed.

(** grid positions: the merge coordinate selects the input, the remaining coordinates are the input's *)
Lemma merge_pos sh dim n0 (sl : option nat) ax n :
  (forall d, sl = Some d -> d < 3) ->
  ProofsMergeFrame.axis_of sl dim = Some ax -> in_bounds (merged_shape sh dim n0) n = true ->
  let p := (match sl with Some d => nth d n 0 | None => 0 end, nth 3 n 0, nth 4 n 0) in
  let m := merge_src sh dim n in
  coord ax p = nth dim n 0 /\
  set_coord ax p 0 = (match sl with Some d => nth d m 0 | None => 0 end, nth 3 m 0, nth 4 m 0).
Proof.
  intros Hsl Hax Hb. cbn zeta. rewrite !(nth_merge_src sh dim n0 n) by exact Hb.
  unfold ProofsMergeFrame.axis_of, odim_is in Hax. destruct sl as [d|].
  - specialize (Hsl d eq_refl). rewrite (nth_merge_src sh dim n0 n) by exact Hb.
    destruct (Nat.eqb_spec d dim) as [->|Hne].
    + injection Hax as <-. cbn [coord set_coord].
      replace (3 =? dim) with false by (symmetry; apply Nat.eqb_neq; lia).
      replace (4 =? dim) with false by (symmetry; apply Nat.eqb_neq; lia). split; reflexivity.
    + destruct (Nat.eqb_spec dim 3) as [->|H3].
      * injection Hax as <-. cbn [coord set_coord]. split; reflexivity.
      * destruct (Nat.eqb_spec dim 4) as [->|H4]; [|discriminate]. injection Hax as <-. cbn [coord set_coord].
        split; reflexivity.
  - destruct (Nat.eqb_spec dim 3) as [->|H3].
    + injection Hax as <-. cbn [coord set_coord]. split; reflexivity.
    + destruct (Nat.eqb_spec dim 4) as [->|H4]; [|discriminate]. injection Hax as <-. cbn [coord set_coord].
      split; reflexivity.
Qed.

Lemma merge_src_z_bounds sh dim n0 ix :
  (dim < length sh -> nth dim sh 0 = 1) ->
  LookupSpec.in_bounds ix (merged_shape sh dim n0) ->
  LookupSpec.in_bounds (merge_src_z sh dim ix) sh /\ Z.to_nat (nth dim ix 0%Z) < n0.
Proof.
  intros Hs Hb. pose proof (zbounds_nat _ _ Hb) as Hn.
  destruct (in_bounds_merge_src sh dim n0 _ Hs Hn) as [H1 H2]. split.
  - apply nat_zbounds; [|rewrite merge_src_z_nat; exact H1].
    unfold merge_src_z. apply Forall_firstn, Forall_set_nth; [lia | eapply zbounds_nonneg, Hb].
  - change 0 with (Z.to_nat 0) in H2. rewrite map_nth in H2. exact H2.
Qed.

Section MergeLookup.
  Context {V : Type} (veqb : V -> V -> bool) (vnone : V).
  Hypothesis veqb_spec : forall a b, reflect (a = b) (veqb a b).

  (** C03 at the wrapper level: a lookup on the merged wrapper at a voxel whose merge coordinate is [i] = what input
      [i] contributes at the remaining coordinates ([den_in]); when the input's slice normal is the result's, that is
      input [i]'s own lookup *)
  Theorem from_sequence_w_lookup unitv (ws : list (wrapper V)) odim r e im0 e0 rest :
    ws = (im0, e0) :: rest -> 2 <= length ws ->
    (forall w, In w ws -> consistent w /\ valid (snd w) /\ ishape (fst w) = ishape im0 /\ islice (fst w) = islice im0) ->
    from_sequence_w veqb vnone unitv ws odim = Ok (r, e) ->
    trailing1b (ishape r) = false ->
    exists dim, resolve_merge_dim (ishape im0) odim = Ok dim /\ consistent (r, e) /\
      forall ax, ProofsMergeFrame.axis_of (islice im0) dim = Some ax -> (3 <= dim -> islice im0 <> None) ->
        valid e /\
        forall k ix, LookupSpec.in_bounds ix (ishape r) ->
          let w := nth (Z.to_nat (nth dim ix 0%Z)) ws (im0, e0) in
          let ixi := merge_src_z (ishape im0) dim ix in
          Z.to_nat (nth dim ix 0%Z) < length ws /\ LookupSpec.in_bounds ixi (ishape (fst w)) /\
          get_meta (ext_img_of r) e k (Some ix) vnone =
            Ok (den_in vnone (hdr_of e) (snd w) k (pos_of (ext_img_of (fst w)) ixi)) /\
          (use_slices (hdr_of e) (hdr_of (snd w)) = true ->
           get_meta (ext_img_of r) e k (Some ix) vnone = get_meta (ext_img_of (fst w)) (snd w) k (Some ixi) vnone).
  Proof.
    intros Ews Hlen Hall H Htr.
    destruct (from_sequence_w_spec veqb vnone unitv ws odim r e H) as (im0' & e0' & rest' & dim & E & Hd & Hr & He & Hchk).
    rewrite Ews in E. injection E as <- <- <-.
    assert (Hin0 : In (im0, e0) ws) by (rewrite Ews; left; reflexivity).
    destruct (Hall _ Hin0) as ((Hsh0 & Hsd0 & Haff0) & Hv0 & _ & _). cbn [fst snd] in Hsh0, Hsd0, Haff0, Hv0.
    exists dim. split; [exact Hd|].
    (* the merged image *)
    destruct (merge_img_at_ok unitv _ _ _ Hr) as (a & b & E & _ & _ & Hrr).
    rewrite Ews in E. cbn [map fst] in E. injection E as <- <-. cbn zeta in Hrr.
    assert (Hsl : islice r = islice im0).
    { rewrite Hrr. cbn [islice]. rewrite merge_slice_spec.
      assert (all_same_slice (islice im0) (map islice (map fst rest)) = true) as ->; [|reflexivity].
      unfold all_same_slice. apply forallb_forall. intros s Hs. rewrite map_map in Hs.
      apply in_map_iff in Hs as (w & <- & Hw). apply onat_eqb_eq.
      apply (Hall w). rewrite Ews. right. exact Hw. }
    assert (Hrsh : ishape r = merged_shape (ishape im0) dim (length ws)).
    { rewrite Hrr. cbn [ishape]. rewrite map_length. reflexivity. }
    destruct (from_sequence_w_agree veqb vnone unitv ws odim r e im0 e0 rest Ews H) as (Ga & Gd & Gs & _).
    assert (Hcons : consistent (r, e)).
    { split; [exact (Gs Hsh0)|]. split; [|exact Ga]. cbn [fst snd]. rewrite Gd, Hsl. destruct (islice im0); congruence. }
    split; [exact Hcons|]. intros ax Hax Hn3.
    (* the extension-level theorem *)
    assert (Hos : out_sdim (islice r) e0 = islice im0).
    { unfold out_sdim. rewrite Hsl. destruct (islice im0); congruence. }
    assert (Hio : inputs_ok (map snd ws) e0 (islice r)).
    { split; [rewrite Ews; reflexivity|]. split; [rewrite map_length; exact Hlen|].
      intros x Hx. apply in_map_iff in Hx as (w & <- & Hw).
      destruct (Hall w Hw) as ((Hs & Hd' & _) & Hvw & Esh & Esl). split; [exact Hvw|]. split; congruence. }
    destruct (merge_den veqb vnone veqb_spec (map snd ws) e0 dim (Some (iaff r)) (islice r) e ax Hio He
                ltac:(rewrite Hos; exact Hax) ltac:(rewrite Hos; exact Hn3)
                ltac:(destruct Hcons as [Hc _]; cbn [fst snd] in Hc; rewrite Hc; exact Htr))
      as (_ & _ & _ & Hve & Hden).
    split; [exact Hve|]. intros k ix Hb. cbn zeta.
    destruct (resolve_merge_dim_ok _ _ _ Hd) as [_ Hsing].
    rewrite Hrsh in Hb. destruct (merge_src_z_bounds _ _ _ _ Hsing Hb) as [Hbi Hi].
    set (i := Z.to_nat (nth dim ix 0%Z)) in *. set (w := nth i ws (im0, e0)).
    destruct (Hall w (nth_In _ _ Hi)) as (Hcw & Hvw & Eshw & Eslw).
    split; [exact Hi|]. split; [rewrite Eshw; exact Hbi|].
    rewrite <- Hrsh in Hb.
    pose proof (get_meta_consistent vnone (r, e) k ix Hcons Hve Hb) as G. cbn [fst snd] in G.
    assert (Hpd : in_dims (dims (hdr_of e)) (pos_of (ext_img_of r) ix)).
    { destruct Hcons as (C1 & C2 & _). cbn [fst snd] in C1, C2.
      apply pos_in_dims; cbn [ext_img_of Ext.Model.ishape Ext.Model.islice]; [congruence | congruence | exact Hb]. }
    (* positions *)
    assert (Hsd3 : forall d, islice im0 = Some d -> d < 3).
    { intros d Ed. destruct Hv0 as [[_ [_ [G3 _]]] _]. apply G3. congruence. }
    pose proof (merge_pos (ishape im0) dim (length ws) (islice im0) ax (map Z.to_nat ix) Hsd3 Hax
                          ltac:(rewrite <- Hrsh; apply zbounds_nat, Hb)) as [Hc Hsc]. cbn zeta in Hc, Hsc.
    assert (Ep : pos_of (ext_img_of r) ix =
                 (match islice im0 with Some d => nth d (map Z.to_nat ix) 0 | None => 0 end,
                  nth 3 (map Z.to_nat ix) 0, nth 4 (map Z.to_nat ix) 0)).
    { rewrite pos_of_nat. cbn [ext_img_of Ext.Model.islice]. rewrite Hsl. reflexivity. }
    assert (Ei : nth dim (map Z.to_nat ix) 0 = i) by (change 0 with (Z.to_nat 0) at 1; rewrite map_nth; reflexivity).
    assert (Epi : pos_of (ext_img_of (fst w)) (merge_src_z (ishape im0) dim ix) =
                  set_coord ax (pos_of (ext_img_of r) ix) 0).
    { rewrite Ep, Hsc, pos_of_nat. cbn [ext_img_of Ext.Model.islice]. rewrite merge_src_z_nat, Eslw. reflexivity. }
    assert (Gden : get_meta (ext_img_of r) e k (Some ix) vnone =
                   Ok (den_in vnone (hdr_of e) (snd w) k (pos_of (ext_img_of (fst w)) (merge_src_z (ishape im0) dim ix)))).
    { rewrite G, (Hden k _ Hpd), Epi. rewrite Ep at 1. rewrite Hc, Ei.
      change e0 with (snd (im0, e0)). rewrite map_nth. reflexivity. }
    split; [exact Gden|]. intros Hus. rewrite Gden, (den_in_use vnone _ _ _ _ Hus).
    symmetry. apply (get_meta_consistent vnone w k _ Hcw Hvw). rewrite Eshw. exact Hbi.
  Qed.
End MergeLookup.
