From Coq Require Import List Bool NArith Lia.
From DV Require Import Common.Str Filter.Model Generated.T_filter.
Import ListNotations.

Section Sem.
  Variable matches : str -> str -> bool.

  Lemma joined_search_spec res key : res <> [] ->
    joined_search matches res key = true <-> exists r, In r res /\ matches r key = true.
  Proof.
    intros Hne. unfold joined_search. destruct res as [|r0 rs]; [congruence|].
    rewrite existsb_exists. reflexivity.
  Qed.

  (** exclude-unless-included, for non-empty pattern lists *)
  Lemma filter_sem excl incl key : excl <> [] -> incl <> [] ->
    key_regex_filter matches excl (Some incl) key = true <->
    (exists e, In e excl /\ matches e key = true) /\ ~ (exists i, In i incl /\ matches i key = true).
  Proof.
    intros He Hi. unfold key_regex_filter. destruct incl as [|i0 is']; [congruence|].
    rewrite andb_true_iff, negb_true_iff, <- not_true_iff_false.
    rewrite (joined_search_spec excl key He), (joined_search_spec (i0 :: is') key Hi). reflexivity.
  Qed.

  (** without include patterns: plain exclusion *)
  Lemma filter_sem_noincl excl key : excl <> [] ->
    key_regex_filter matches excl None key = true <-> exists e, In e excl /\ matches e key = true.
  Proof.
    intros He. unfold key_regex_filter. rewrite andb_true_r. apply joined_search_spec; exact He.
  Qed.

  (** extra -e / -i lists compose by list append under the existential *)
  Lemma cli_filter_sem de di xe xi key : de <> [] -> di <> [] ->
    cli_filter matches de di xe xi key = true <->
    (exists e, (In e de \/ In e xe) /\ matches e key = true) /\
    ~ (exists i, (In i di \/ In i xi) /\ matches i key = true).
  Proof.
    intros Hde Hdi. unfold cli_filter.
    assert (H1 : de ++ xe <> []) by (destruct de; [congruence | discriminate]).
    assert (H2 : di ++ xi <> []) by (destruct di; [congruence | discriminate]).
    rewrite (filter_sem _ _ key H1 H2). split; intros [[e [He Hm]] Hn]; split.
    - exists e. rewrite in_app_iff in He. auto.
    - intros [i [Hi Hmi]]. apply Hn. exists i. rewrite in_app_iff. auto.
    - exists e. rewrite in_app_iff. auto.
    - intros [i [Hi Hmi]]. apply Hn. exists i. rewrite in_app_iff in Hi. auto.
  Qed.

  (** a key matching an include pattern is never filtered; one matching no exclude pattern neither *)
  Lemma included_kept excl incl key : incl <> [] ->
    (exists i, In i incl /\ matches i key = true) -> key_regex_filter matches excl (Some incl) key = false.
  Proof.
    intros Hi Hex. unfold key_regex_filter. destruct incl as [|i0 is']; [congruence|].
    apply (joined_search_spec (i0 :: is') key Hi) in Hex. rewrite Hex. apply andb_false_r.
  Qed.

  Lemma not_excluded_kept excl incl key : excl <> [] ->
    (forall e, In e excl -> matches e key = false) -> key_regex_filter matches excl incl key = false.
  Proof.
    intros He Hall. unfold key_regex_filter.
    assert (joined_search matches excl key = false) as ->; [|reflexivity].
    apply not_true_iff_false. intros H. apply (joined_search_spec excl key He) in H as [e [Hin Hm]].
    rewrite (Hall e Hin) in Hm. discriminate.
  Qed.
End Sem.

(** The default lists (regenerated from the source on every run) are non-empty and consist of plain
    alphanumeric literals, for which regex search is substring containment. *)
Lemma defaults_plain :
  forallb plain_pattern default_key_excl_res && forallb plain_pattern default_key_incl_res = true.
Proof. vm_compute. reflexivity. Qed.
Lemma defaults_nonempty : default_key_excl_res <> [] /\ default_key_incl_res <> [].
Proof. split; discriminate. Qed.

Definition default_filter : str -> bool :=
  key_regex_filter literal_matches default_key_excl_res (Some default_key_incl_res).

(** closed statement for the default filter *)
Lemma default_filter_sem key :
  default_filter key = true <->
  (exists e, In e default_key_excl_res /\ containsb e key = true) /\
  ~ (exists i, In i default_key_incl_res /\ containsb i key = true).
Proof.
  destruct defaults_nonempty as [He Hi]. unfold default_filter.
  apply (filter_sem literal_matches _ _ key He Hi).
Qed.

(** image position and orientation are always kept, whatever else the key contains *)
Lemma position_orientation_kept key :
  containsb [73;109;97;103;101;80;111;115;105;116;105;111;110;80;97;116;105;101;110;116]%N key = true \/
  containsb [73;109;97;103;101;79;114;105;101;110;116;97;116;105;111;110;80;97;116;105;101;110;116]%N key = true ->
  default_filter key = false.
Proof.
  intros H. destruct defaults_nonempty as [_ Hi]. unfold default_filter.
  apply (included_kept literal_matches _ _ key Hi).
  destruct H as [H|H]; eexists; (split; [|exact H]); vm_compute; tauto.
Qed.

(** monotonicity of the composed CLI filter (wave-5 extension): more include patterns remove no more,
    more exclude patterns remove no less, and a key no exclude pattern matches is always kept *)

Lemma cli_filter_more_incl : forall (matches : str -> str -> bool) de di xe xi xi' key, de <> [] -> di <> [] ->
  cli_filter matches de di xe (xi ++ xi') key = true -> cli_filter matches de di xe xi key = true.
Proof.
  intros m de di xe xi xi' key Hde Hdi H.
  apply (cli_filter_sem m de di xe (xi ++ xi') key Hde Hdi) in H. destruct H as [He Hn].
  apply (cli_filter_sem m de di xe xi key Hde Hdi). split; [exact He|].
  intros [i [[Hi|Hi] Hm]]; apply Hn; exists i; (split; [|exact Hm]).
  - left; exact Hi.
  - right; apply in_or_app; left; exact Hi.
Qed.

Lemma cli_filter_more_excl : forall (matches : str -> str -> bool) de di xe xe' xi key, de <> [] -> di <> [] ->
  cli_filter matches de di xe xi key = true -> cli_filter matches de di (xe ++ xe') xi key = true.
Proof.
  intros m de di xe xe' xi key Hde Hdi H.
  apply (cli_filter_sem m de di xe xi key Hde Hdi) in H. destruct H as [[e [He Hm]] Hn].
  apply (cli_filter_sem m de di (xe ++ xe') xi key Hde Hdi). split; [|exact Hn].
  exists e; split; [|exact Hm]. destruct He as [He|He]; [left; exact He|right; apply in_or_app; left; exact He].
Qed.

(** a key matched by no exclude pattern at all is never removed, whatever the include lists say *)
Lemma cli_filter_unmatched_kept : forall (matches : str -> str -> bool) de di xe xi key, de <> [] -> di <> [] ->
  (forall e, In e de \/ In e xe -> matches e key = false) -> cli_filter matches de di xe xi key = false.
Proof.
  intros m de di xe xi key Hde Hdi Hno.
  destruct (cli_filter m de di xe xi key) eqn:E; [|reflexivity].
  apply (cli_filter_sem m de di xe xi key Hde Hdi) in E. destruct E as [[e [He Hm]] _].
  rewrite (Hno e He) in Hm. discriminate.
Qed.
