(** The hand-written model of the key filter (Filter/Model.v) is equal to the definitions GENERATED from the
    current Python source of dcmstack.make_key_regex_filter and of its inner function
    (coq/Generated/T_src_filter.v, produced on every run by tools/tables/t_src_filter.py + py2coq.py).
    A compiled pattern is represented by its search predicate.

    * inner function ([key_regex_filter_src_eq]): it closes over [exclude_re] and [include_re]; the theorem is
      stated for what the outer function binds to them according to the hand model ([exclude_re_of],
      [include_re_of]).
    * outer function ([make_key_regex_filter_src_eq]): `re.compile` is external code, the parameter
      [re_compile]; the only hypothesis is the one the hand model documents — compiling the
      '(?:p1)|(?:p2)|...' join ([alternation], as the translated code builds it) gives a pattern that matches
      iff one of the parts does, and '' (the join of no pattern) matches everything.  `if force_include_res:`
      (None and the empty list leave [include_re = None]) is now part of the translated code. *)
From Coq Require Import List Bool NArith.
From DV Require Import Common.Res Common.Str Common.PyOps2 Generated.T_src_filter Filter.Model.
Import ListNotations.

(** '|'.join(['(?:' + regex + ')' for regex in pats]) *)
Definition alternation (pats : list str) : str :=
  py_join [124]%N (map (fun regex => ([40; 63; 58]%N ++ regex) ++ [41]%N) pats).

Section Filter.
  Variable matches : str -> str -> bool.

  Definition exclude_re_of (exclude_res : list str) : str -> bool := joined_search matches exclude_res.

  Definition include_re_of (force_include_res : option (list str)) : option (str -> bool) :=
    match force_include_res with
    | None => None
    | Some [] => None
    | Some inc => Some (joined_search matches inc)
    end.

  (** the inner function, for arbitrary compiled patterns: it never raises *)
  Lemma key_regex_filter_src_unfold {V} (ex : str -> bool) (inc : option (str -> bool)) (key : str) (value : V) :
    key_regex_filter_src ex inc key value =
    Ok (ex key && negb (match inc with Some r => r key | None => false end)).
  Proof. reflexivity. Qed.

  Theorem key_regex_filter_src_eq {V} (exclude_res : list str) (force_include_res : option (list str))
          (key : str) (value : V) :
    key_regex_filter_src (exclude_re_of exclude_res) (include_re_of force_include_res) key value =
    Ok (key_regex_filter matches exclude_res force_include_res key).
  Proof.
    unfold key_regex_filter_src, key_regex_filter, exclude_re_of, include_re_of.
    destruct force_include_res as [[|r rs]|]; reflexivity.
  Qed.

  Variable re_compile : str -> str -> bool.
  Hypothesis compile_alternation :
    forall pats key, re_compile (alternation pats) key = joined_search matches pats key.

  Theorem make_key_regex_filter_src_eq {V} (exclude_res : list str) (force_include_res : option (list str))
          (key : str) (value : V) :
    make_key_regex_filter_src re_compile exclude_res force_include_res key value =
    Ok (key_regex_filter matches exclude_res force_include_res key).
  Proof.
    unfold make_key_regex_filter_src. fold (alternation exclude_res).
    destruct force_include_res as [[|r rs]|].
    - cbn [length Nat.eqb negb]. unfold key_regex_filter_src, key_regex_filter.
      rewrite compile_alternation. reflexivity.
    - cbn [length Nat.eqb negb]. fold (alternation (r :: rs)). unfold key_regex_filter_src, key_regex_filter.
      rewrite !compile_alternation. reflexivity.
    - unfold key_regex_filter_src, key_regex_filter. rewrite compile_alternation. reflexivity.
  Qed.
End Filter.

(** the hypothesis on [re_compile] is satisfiable by a pair that is not constant: every pattern matches
    exactly the empty key *)
Definition toy_matches (_ key : str) : bool := match key with [] => true | _ => false end.
Definition toy_compile (pattern key : str) : bool := match pattern with [] => true | _ => toy_matches pattern key end.

Lemma toy_compile_alternation pats key : toy_compile (alternation pats) key = joined_search toy_matches pats key.
Proof.
  destruct pats as [|p r]; [reflexivity|].
  assert (exists t, alternation (p :: r) = 40%N :: t) as [t ->].
  { unfold alternation. cbn [map py_join].
    match goal with |- context [match ?m with [] => _ | _ :: _ => _ end] => destruct m end; eexists; reflexivity. }
  unfold toy_compile, joined_search. cbn [existsb]. unfold toy_matches at 1 2.
  destruct key; [reflexivity|]. cbn [orb].
  induction r as [|x r IH]; [reflexivity|]. exact IH.
Qed.
