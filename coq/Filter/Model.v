(** Model of dcmstack.make_key_regex_filter (dcmstack.py:32-61) and of the default filter.
    [matches p k] stands for Python [re.compile(p).search(k) is not None]; the regex engine is
    external code (a Section variable).  The code joins the patterns as '(?:p1)|(?:p2)|...'; the
    model assumes that this alternation matches iff one of the parts does (Python [re] semantics;
    validated by the correspondence run on generated pattern lists), and that the empty pattern
    (the join of an empty list) matches every key. *)
From Coq Require Import List Bool NArith.
From DV Require Import Common.Str.
Import ListNotations.

Section Filter.
  Variable matches : str -> str -> bool.

  (** re.compile('|'.join(['(?:' + r + ')' for r in res])).search(key) *)
  Definition joined_search (res : list str) (key : str) : bool :=
    match res with
    | [] => true                       (* '|'.join([]) = '' matches everywhere *)
    | _ => existsb (fun r => matches r key) res
    end.

  (** key_regex_filter(key, value): True = the key is filtered OUT *)
  Definition key_regex_filter (exclude_res : list str) (force_include_res : option (list str)) (key : str) : bool :=
    let include_hit :=
      match force_include_res with
      | None => false
      | Some [] => false               (* `if force_include_res:` is falsy for an empty list *)
      | Some inc => joined_search inc key
      end in
    joined_search exclude_res key && negb include_hit.

  (** dcmstack_cli: defaults extended by the -e / -i options *)
  Definition cli_filter (def_excl def_incl extra_excl extra_incl : list str) : str -> bool :=
    key_regex_filter (def_excl ++ extra_excl) (Some (def_incl ++ extra_incl)).
End Filter.

(** For plain literals (no regex metacharacters) [search] is substring containment. *)
Definition literal_matches (p k : str) : bool := containsb p k.

(** characters that are ordinary in a Python regular expression: ASCII letters and digits *)
Definition plain_char (c : N) : bool :=
  ((48 <=? c) && (c <=? 57) || (65 <=? c) && (c <=? 90) || (97 <=? c) && (c <=? 122))%N.
Definition plain_pattern (p : str) : bool := forallb plain_char p.
