From Coq Require Import List Bool NArith.
From DV Require Import Common.Str Filter.Model Filter.Proofs Generated.T_filter.
Import ListNotations.

(** A case carries, for every pattern, the implementation-side bit [re.search(p, key) is not None]
    (so that Python's regex engine stays outside the model), the key, and the observed verdict of
    the real filter.  In literal mode the bits must also equal substring containment. *)
Record case := { f_excl : list (str * bool); f_incl : option (list (str * bool));
                 f_key : str; f_literal : bool; f_default : bool; f_obs : bool }.

Definition bit_of (tbl : list (str * bool)) (p : str) : bool :=
  match find (fun x => str_eqb (fst x) p) tbl with Some (_, b) => b | None => false end.

Definition check (c : case) : bool :=
  let tbl := f_excl c ++ match f_incl c with Some l => l | None => [] end in
  if f_default c then Bool.eqb (default_filter (f_key c)) (f_obs c)
  else
    let m := if f_literal c then literal_matches else (fun p _ => bit_of tbl p) in
    Bool.eqb (key_regex_filter m (map fst (f_excl c)) (option_map (map fst) (f_incl c)) (f_key c)) (f_obs c)
    && (if f_literal c then forallb (fun pb => Bool.eqb (containsb (fst pb) (f_key c)) (snd pb)) tbl else true).

Definition show (c : case) :=
  (default_filter (f_key c),
   key_regex_filter literal_matches (map fst (f_excl c)) (option_map (map fst) (f_incl c)) (f_key c)).
