(** C12, lifted to the real outputs: the conversion RESULT -- data array, affine, reorientation transform, header
    fields, embedded extension -- does not depend on the add order or on earlier calls.

    Model: Conv/Full.v ([conv_full] = the whole DicomStack.to_nifti) on top of the sorter Stack/Model.v; histories
    [run] / [accepted] as in Props/C12.v.  [gs] / [ms] describe the files (pixels, geometry / extracted
    dictionaries): they are inputs, looked up by file id.  Equality of [snd (conv_full ...)] is equality of
    - the geometric result [geom_out]: sorter record, file order used to fill the array, data array before and after
      reorientation, dtype, affine before and after, transform, permutation, flips;
    - the header fields [hdr_out]: slice_dim, units, pixdim[4], dim_info, n_slices, argument of set_slice_times;
    - the extension (Leibniz equality of header and entry list: stronger than equality as unordered maps);
    or of the exception class when the conversion is refused.  No hypothesis on the files (audit 1, item 5). *)
From Coq Require Import List Bool Arith ZArith NArith QArith Qcanon Permutation.
From DV Require Import Common.Res Common.Str Common.Jv
  Stack.Model Stack.ProofsShape Stack.ProofsInv Stack.ProofsC12
  Orient.Model Conv.Geom Conv.Header Conv.ExamplesGeom
  Ext.Types Ext.Model Ext.Spec Conv.Meta Conv.Full Conv.FullDep Conv.FullHist Conv.FullEx.
Import ListNotations.
Local Open Scope nat_scope.

(** Dependency lemma: the result of the composed conversion depends on the stack state only through (a) the record
    [Stack.Model.to_nifti] returns for it, for every voxel-order abstraction, and (b) the re-sorted file list a
    successful [get_shape] leaves behind (needed for one bit: do the sorted files ascend in slice position). *)
Theorem C12_full_dependency :
  forall (V : Type) (veqb : V -> V -> bool) (vnone : V)
         (gs : list gfile) (ms : list (mfile V)) (st1 st2 : state) (code : str) (em : bool) (filt : key -> bool),
    (forall vo, snd (to_nifti st1 vo em) = snd (to_nifti st2 vo em)) ->
    (forall sh, snd (get_shape st1) = Ok sh -> files_info (fst (get_shape st1)) = files_info (fst (get_shape st2))) ->
    snd (conv_full veqb vnone gs ms st1 code em filt) = snd (conv_full veqb vnone gs ms st2 code em filt).
Proof. exact @conv_full_dep. Qed.

(** Two arbitrary histories (adds, shape / data / affine queries, conversions with any voxel order and embed flag,
    in any interleaving, refused adds included) on stacks with the same configuration: when the accepted files are
    the same multiset, a final conversion -- same voxel order, embed flag and filter -- gives the same data array,
    affine, header fields and extension (or the same exception). *)
Theorem C12_full_history :
  forall (V : Type) (veqb : V -> V -> bool) (vnone : V)
         (gs : list gfile) (ms : list (mfile V)) ct cv h1 h2 (code : str) (em : bool) (filt : key -> bool),
    Permutation (accepted (init ct cv) h1) (accepted (init ct cv) h2) ->
    snd (conv_full veqb vnone gs ms (run (init ct cv) h1) code em filt) =
    snd (conv_full veqb vnone gs ms (run (init ct cv) h2) code em filt).
Proof. exact @full_history. Qed.

(** The files added in another order, followed by any sequence of queries and conversions, against a fresh stack. *)
Theorem C12_full_fresh :
  forall (V : Type) (veqb : V -> V -> bool) (vnone : V)
         (gs : list gfile) (ms : list (mfile V)) ct cv fs fs' ops (code : str) (em : bool) (filt : key -> bool),
    no_adds ops = true ->
    Permutation (accepted (init ct cv) (map OAdd fs)) (accepted (init ct cv) (map OAdd fs')) ->
    snd (conv_full veqb vnone gs ms (run (init ct cv) (map OAdd fs' ++ ops)) code em filt) =
    snd (conv_full veqb vnone gs ms (run (init ct cv) (map OAdd fs)) code em filt).
Proof. exact @full_fresh. Qed.

(** The re-sorted file list itself is history independent (whenever the shape query succeeds). *)
Theorem C12_full_resorted :
  forall ct cv h1 h2 sh,
    Permutation (accepted (init ct cv) h1) (accepted (init ct cv) h2) ->
    snd (get_shape (run (init ct cv) h1)) = Ok sh ->
    files_info (fst (get_shape (run (init ct cv) h1))) = files_info (fst (get_shape (run (init ct cv) h2))).
Proof.
  intros ct cv h1 h2 sh Hp. destruct (history_stacks ct cv h1 h2 Hp) as (I1 & I2 & C1 & C2 & P).
  exact (resorted_det _ _ I1 I2 C1 C2 P sh).
Qed.

(** Histories of the COMPOSED model (Conv/FullHist.v): steps [hop] = add of file number i, get_shape / get_data /
    get_affine, or a conversion [HConv code embed] with a voxel-order STRING.  The state a conversion leaves behind
    is the state component of [conv_full]; it is the state after the sorter-level operations [conv_ops] (= [OToNifti vo
    embed] at THE voxel-order abstraction the geometry half computes, or the queries a refused conversion got through). *)
Theorem C12_full_conv_state :
  forall (V : Type) (veqb : V -> V -> bool) (vnone : V)
         (gs : list gfile) (ms : list (mfile V)) (st : state) (code : str) (em : bool) (filt : key -> bool),
    fst (conv_full veqb vnone gs ms st code em filt) = run st (conv_ops gs st code em) /\
    no_adds (conv_ops gs st code em) = true.
Proof.
  intros V veqb vnone gs ms st code em filt.
  split; [exact (conv_full_state veqb vnone gs ms st code em filt) | exact (conv_ops_no_adds gs st code em)].
Qed.

(** What the correspondence check of props/convfull.py evaluates for a history -- [conv_full] on [hist_state] = the
    model AFTER the same adds, queries and conversions, in the sorter's own [run] -- equals the model on ANY history
    that accepted the same files, in particular on the fresh stack [map OAdd fs]: "code after a history = model after
    that history" (checked per case) composes with this to "= model on a fresh stack". *)
Theorem C12_full_hist_history :
  forall (V : Type) (veqb : V -> V -> bool) (vnone : V)
         (gs : list gfile) (ms : list (mfile V)) ct cv (hs : list hop) (h' : list op) (code : str) (em : bool) (filt : key -> bool),
    Permutation (accepted (init ct cv) (hist_ops gs (init ct cv) hs)) (accepted (init ct cv) h') ->
    snd (conv_full veqb vnone gs ms (hist_state gs (init ct cv) hs) code em filt) =
    snd (conv_full veqb vnone gs ms (run (init ct cv) h') code em filt).
Proof. exact @hist_history. Qed.

(* ----------------------------------------------------------------------------- non-vacuity *)
(** the 8-file sagittal series of Conv/FullEx.v: [fx_h1] = the adds in scrambled order, [fx_h2] = the adds in reverse
    order interleaved with a shape query and three conversions, followed by more queries: the two stacks differ (file
    order, dirty flag / cached shape), the histories accept the same files, and the conversion succeeds *)
Example C12_full_history_ex :
  Permutation (accepted (init true true) fx_h1) (accepted (init true true) fx_h2) /\
  ids (files_info (run (init true true) fx_h1)) <> ids (files_info (run (init true true) fx_h2)) /\
  shape_dirty (run (init true true) fx_h1) = true /\ shape_dirty (run (init true true) fx_h2) = false /\
  snd (conv_full jv_eqb JNull fx_gs fx_ms (run (init true true) fx_h1) ex_LAS true fx_filt) = Ok (fx_go, fx_h, Some fx_e) /\
  snd (conv_full jv_eqb JNull fx_gs fx_ms (run (init true true) fx_h2) ex_LAS true fx_filt) = Ok (fx_go, fx_h, Some fx_e).
Proof.
  destruct fx_histories as (Hp & E1 & E2 & A1 & A2).
  split; [exact Hp|]. split; [rewrite E1, E2; discriminate|]. split; [exact A1|]. split; [exact A2|].
  split; vm_compute; reflexivity.
Qed.

Example C12_full_fresh_ex :
  no_adds [OGetShape; OToNifti (Some true) true; OGetAffine] = true /\
  Permutation (accepted (init true true) (map OAdd (map g_file fx_gs)))
              (accepted (init true true) (map OAdd (rev (map g_file fx_gs)))).
Proof.
  split; [reflexivity|].
  assert (E1 : accepted (init true true) (map OAdd (map g_file fx_gs)) = map g_file fx_gs) by (vm_compute; reflexivity).
  assert (E2 : accepted (init true true) (map OAdd (rev (map g_file fx_gs))) = rev (map g_file fx_gs)) by (vm_compute; reflexivity).
  rewrite E1, E2. apply Permutation_rev.
Qed.

Example C12_full_dependency_ex :
  (* hypothesis (b) on the two example stacks: the shape query re-sorts both to 1 0 3 2 5 4 7 6 *)
  ids (files_info (fst (get_shape (run (init true true) fx_h1)))) = [1; 0; 3; 2; 5; 4; 7; 6] /\
  ids (files_info (fst (get_shape (run (init true true) fx_h2)))) = [1; 0; 3; 2; 5; 4; 7; 6] /\
  snd (get_shape (run (init true true) fx_h1)) = Ok [2; 2; 2; 2; 2].
Proof. repeat split; vm_compute; reflexivity. Qed.

Example C12_full_resorted_ex :
  snd (get_shape (run (init true true) fx_h2)) = Ok [2; 2; 2; 2; 2] /\
  shape_dirty (run (init true true) fx_h2) = false /\ shape_dirty (run (init true true) fx_h1) = true.
Proof. repeat split; vm_compute; reflexivity. Qed.

(** a [hop] history on the example: five files in reverse add order, a shape query (refused: incomplete), a conversion
    with order "RAS" and embedding, the other three files, get_affine, a conversion without reorientation: the
    translated history is a C12 history whose conversions carry the voxel-order bits the model computed *)
Definition fx_hops : list hop :=
  [HAdd 7; HAdd 6; HAdd 5; HAdd 4; HAdd 3; HShape; HConv ex_RAS true; HAdd 2; HAdd 1; HAdd 0; HAffine; HConv [] false].

Example C12_full_hist_history_ex :
  hist_ops fx_gs (init true true) fx_hops =
    map (fun i => OAdd (g_file (nth i fx_gs (fx_gf 0 0 0)))) [7; 6; 5; 4; 3] ++ [OGetShape; OGetData] ++
    map (fun i => OAdd (g_file (nth i fx_gs (fx_gf 0 0 0)))) [2; 1; 0] ++ [OGetAffine; OToNifti None false] /\
  Permutation (accepted (init true true) (hist_ops fx_gs (init true true) fx_hops)) (accepted (init true true) fx_h1) /\
  snd (conv_full jv_eqb JNull fx_gs fx_ms (hist_state fx_gs (init true true) fx_hops) ex_LAS true fx_filt) = Ok (fx_go, fx_h, Some fx_e).
Proof.
  split; [vm_compute; reflexivity|]. split.
  - assert (E1 : accepted (init true true) fx_h1 = map g_file fx_gs) by (vm_compute; reflexivity).
    assert (E2 : accepted (init true true) (hist_ops fx_gs (init true true) fx_hops) = rev (map g_file fx_gs)) by (vm_compute; reflexivity).
    rewrite E1, E2. symmetry. apply Permutation_rev.
  - vm_compute. reflexivity.
Qed.

Example C12_full_conv_state_ex :
  conv_ops fx_gs fx_st ex_LAS true = [OToNifti (Some true) true] /\
  conv_ops fx_gs (init true true) ex_LAS true = [OGetData].
Proof. split; vm_compute; reflexivity. Qed.
