(** C02  Voxel values and patient-space geometry are preserved by conversion.

    Model: DV.Conv.Geom ([conv_geom] = DicomStack.get_data / get_affine / to_nifti up to the reorientation,
    on top of the sorter model DV.Stack.Model and of DV.Orient.Model.reorder = reorder_voxels; nibabel's
    DicomWrapper is the contract written down in Conv/Geom.v).  [reachable st]: the stack is the result of
    any history of add / query operations; [gfiles_ok gs st]: [gs] lists, for every file of the stack, its
    pixels (rows x cols) and geometry.  All arithmetic is exact (Q). *)
From Coq Require Import List Bool Arith ZArith NArith QArith Qcanon Qabs Lia Permutation Sorted.
From DV Require Import Common.Res Common.Str Stack.Model Stack.Sort Stack.Spec Stack.ProofsShape Stack.ProofsInv
  Orient.Model Orient.Spec Orient.ProofsAff
  Conv.Geom Conv.GeomSpec Conv.ProofsGeomAff Conv.ProofsGeomBound Conv.ProofsGeomTop Conv.ExamplesGeom.
Import ListNotations.
Local Open Scope nat_scope.

(** (a) For a converted stack there are S, T, V >= 1 with output shape = the (trimmed) r x c x S x T x V grid,
    such that for every grid cell (s, t, v) and pixel (i, j): the file [g] the sorter put in that cell has a
    pixel value z there, and there is EXACTLY ONE output voxel [idx'] that the reported transform maps to the
    unreordered index (i, j, s, t, v); it holds z.  Conversely every output voxel is the image of a source
    pixel.  Any orientation, any voxel order (or none), any S, T, V. *)
Theorem C02_values : forall gs st code embed st' go,
  reachable st -> gfiles_ok gs st ->
  conv_geom gs st code embed = (st', Ok go) ->
  exists S T V r c,
    0 < S /\ 0 < T /\ 0 < V /\
    o_shape (go_nifti go) = grid_shape r c S T V /\
    length (go_ord0 go) = V * T * S /\
    (forall s t v i j, s < S -> t < T -> v < V -> i < r -> j < c ->
       exists g z idx',
         file_at gs (go_ord0 go) (cell_pos S T s t v) = Some g /\ pix_at g i j = Some z /\
         in_bounds (ashape (go_data go)) idx' = true /\
         apply_aff (go_T go) idx' = Some (cell_idx (length (grid_shape r c S T V)) i j s t v) /\
         aget (go_data go) idx' = Some z /\
         forall idx'', in_bounds (ashape (go_data go)) idx'' = true ->
           apply_aff (go_T go) idx'' = Some (cell_idx (length (grid_shape r c S T V)) i j s t v) -> idx'' = idx') /\
    (forall idx', in_bounds (ashape (go_data go)) idx' = true ->
       exists s t v i j, s < S /\ t < T /\ v < V /\ i < r /\ j < c /\
         apply_aff (go_T go) idx' = Some (cell_idx (length (grid_shape r c S T V)) i j s t v)).
Proof. exact values_reachable. Qed.

(** (b) PARTIAL: the registered clause says "for any complete stack ... the output affine maps that voxel's index to
    the pixel's patient position".  That full statement
      forall (accepted stack) cell pixel idx', veq3 (world (go_aff go) idx') (ras (pixel_pos g i j))
    is FALSE of the faithful model (C02_geometry_refuted): get_shape accepts slice gaps that differ by up to 4 % while
    the affine is linear.  What holds: exactness when the sorted files lie on a line with equal gaps and share
    orientation and spacing ([on_line]; the code takes the slice column from the first two sorted files only);
    in general the exact error term (C02_geometry_irregular) and its bound by the acceptance tolerance
    (C02_geometry_bound). *)
Theorem C02_geometry_partial : forall gs st code embed st' go,
  reachable st -> gfiles_ok gs st ->
  conv_geom gs st code embed = (st', Ok go) ->
  forall S T V r c,
    0 < S -> 0 < T -> 0 < V ->
    o_shape (go_nifti go) = grid_shape r c S T V ->
    on_line gs (go_ord0 go) S ->
    forall s t v i j g idx',
      s < S -> t < T -> v < V ->
      file_at gs (go_ord0 go) (cell_pos S T s t v) = Some g ->
      apply_aff (go_T go) idx' = Some (cell_idx (length (grid_shape r c S T V)) i j s t v) ->
      veq3 (world (go_aff go) idx') (ras (pixel_pos g i j)).
Proof. exact geometry_reachable. Qed.

(** (b') [on_line] follows, for EVERY reachable stack (freshly sorted by this call or with a cached shape), from a
    condition on the SOURCES: the sorter's slice position of every file is the geometric slice indicator
    ipp . normal ([positions_ok]), the files share orientation / spacing and are displaced from a common origin
    proportionally to their slice indicator, and the distinct slice positions are in exact arithmetic
    progression (the code checks the last only to 4 %: see C02_geometry_irregular). *)
Theorem C02_geometry_sources : forall gs st code embed st' go,
  reachable st -> gfiles_ok gs st -> positions_ok gs st -> sources_regular gs st ->
  conv_geom gs st code embed = (st', Ok go) ->
  forall S T V r c,
    0 < S -> 0 < T -> 0 < V -> o_shape (go_nifti go) = grid_shape r c S T V ->
    on_line gs (go_ord0 go) S.
Proof. exact geometry_sources_reachable. Qed.

(** (b'') Irregular spacing - the stack accepts gaps that differ by up to 4 %.  With P the stack's distinct slice
    positions in ascending order: the file at slice s of every volume has slice indicator P[s] (the sorted order IS
    the geometric order), and the affine - whose slice column comes from the first two sorted files only - maps
    the voxel of pixel (i, j) of that file to its true patient position MINUS the exact error
        slice_dev P s * d,   slice_dev P s = (P[s] - P[0]) - s (P[1] - P[0]) = sum_{j<s} (gap_j - gap_0),
    along the common displacement direction d (x, y negated by [sg]).  The error vanishes exactly when the
    positions are equidistant; it is not zero in general (C02_geometry_irregular_ex). *)
Theorem C02_geometry_irregular : forall gs st code embed st' go d,
  reachable st -> gfiles_ok gs st -> positions_ok gs st -> sources_line gs st d ->
  conv_geom gs st code embed = (st', Ok go) ->
  forall S T V r c,
    0 < S -> 0 < T -> 0 < V -> o_shape (go_nifti go) = grid_shape r c S T V ->
    let P := ssort qc_leb (pos_vals st) in
    length P = S /\ StronglySorted Qclt P /\
    (forall s t v g, s < S -> t < T -> v < V ->
       file_at gs (go_ord0 go) (cell_pos S T s t v) = Some g -> (slice_indicator g == pos_at P s)%Q) /\
    (forall s t v i j g idx',
       s < S -> t < T -> v < V ->
       file_at gs (go_ord0 go) (cell_pos S T s t v) = Some g ->
       apply_aff (go_T go) idx' = Some (cell_idx (length (grid_shape r c S T V)) i j s t v) ->
       forall q, q < 3 ->
         (vget (world (go_aff go) idx') q + sg q * (slice_dev P s * vget d q) == vget (ras (pixel_pos g i j)) q)%Q) /\
    (forall s, (slice_dev P s == gap_excess P s)%Q).
Proof. exact geometry_irregular_reachable. Qed.

(** The geometry clause as registered is refuted by an ACCEPTED stack: three slices at x = 1, 3, 5.06 (gaps 2 and 2.06,
    inside the 4 % tolerance) convert; the voxel of pixel (0, 0) of the file at x = 1 is mapped to x = 0.94. *)
Theorem C02_geometry_refuted :
  exists gs st code embed st' go S T V r c s t v i j g idx',
    reachable st /\ gfiles_ok gs st /\ positions_ok gs st /\
    conv_geom gs st code embed = (st', Ok go) /\
    0 < S /\ 0 < T /\ 0 < V /\ o_shape (go_nifti go) = grid_shape r c S T V /\
    s < S /\ t < T /\ v < V /\
    file_at gs (go_ord0 go) (cell_pos S T s t v) = Some g /\
    apply_aff (go_T go) idx' = Some (cell_idx (length (grid_shape r c S T V)) i j s t v) /\
    ~ veq3 (world (go_aff go) idx') (ras (pixel_pos g i j)).
Proof. exact ex_irr_refutes. Qed.

(** The error is bounded by the stack's acceptance tolerance (T_stack.spacing_rtol = 4 %, numpy's atol 1e-8): on every
    stack that converts, slice s deviates from the lattice the affine assumes by at most
        s * gap_bound gap_0,   gap_bound g = 2 rtol / (1 - rtol) * g + 2 / (1 - rtol) * atol = g / 12 + 25/12 * 1e-8,
    gap_0 = the gap between the first two sorted slices (= the affine's slice column); with C02_geometry_irregular:
    the mapped position of a voxel of slice s is at most that far (times the displacement vector d) from the true one. *)
Theorem C02_geometry_bound : forall gs st code embed st' go,
  reachable st -> conv_geom gs st code embed = (st', Ok go) ->
  let P := ssort qc_leb (pos_vals st) in
  (forall s, s < length P -> (Qabs (slice_dev P s) <= NQ s * gap_bound (gap_at P 0))%Q) /\
  (forall g0, (gap_bound g0 == (1 # 12) * g0 + (25 # 12) * np_atol)%Q).
Proof. exact geometry_bound_reachable. Qed.

(** (a') The DICOM rescale.  The model does NOT compute the rescale: nibabel applies it, [g_pix] are the values
    DicomWrapper.get_data() returns.  [rescaled_ok g (rs g)] is a HYPOTHESIS relating those input pixels to the stored
    pixels and scale factors ([g_pix] = rs_den * (slope * stored + intercept)); the correspondence checks it on every
    case (CorrGeom.rescales_ok, from get_unscaled_data / scale_factors).  Under it, by substitution into C02_values:
    the voxel of pixel (i, j) of the file in cell (s, t, v) holds slope * stored + intercept of that file's stored
    pixel ("exactly once" is C02_values). *)
Theorem C02_values_rescaled : forall gs st code embed st' go (rs : gfile -> rescale),
  reachable st -> gfiles_ok gs st ->
  conv_geom gs st code embed = (st', Ok go) ->
  (forall g, In g (go_files go) -> rescaled_ok g (rs g) = true) ->
  exists S T V r c,
    0 < S /\ 0 < T /\ 0 < V /\ o_shape (go_nifti go) = grid_shape r c S T V /\
    forall s t v i j, s < S -> t < T -> v < V -> i < r -> j < c ->
      exists g x z idx',
        file_at gs (go_ord0 go) (cell_pos S T s t v) = Some g /\ stored_at (rs g) i j = Some x /\
        in_bounds (ashape (go_data go)) idx' = true /\
        apply_aff (go_T go) idx' = Some (cell_idx (length (grid_shape r c S T V)) i j s t v) /\
        aget (go_data go) idx' = Some z /\ (inject_Z z == rescaled_val (rs g) x)%Q.
Proof. exact values_rescaled_reachable. Qed.

(** (c) Two voxel orders: same unreordered image, same value multiset, same dtype; each affine is the
    unreordered affine times the reported transform; voxels of the two outputs that come from the same
    unreordered voxel hold the same value at the same world position, and the correspondence is one to one. *)
Theorem C02_invariance : forall gs st c1 c2 e1 e2 s1 s2 o1 o2,
  reachable st ->
  conv_geom gs st c1 e1 = (s1, Ok o1) -> conv_geom gs st c2 e2 = (s2, Ok o2) ->
  go_data0 o1 = go_data0 o2 /\ go_aff0 o1 = go_aff0 o2 /\ go_ord0 o1 = go_ord0 o2 /\
  Permutation (adata (go_data o1)) (adata (go_data o2)) /\ go_dtype o1 = go_dtype o2 /\
  mat_eq (go_aff o1) (mmul (go_aff0 o1) (go_T o1)) /\ mat_eq (go_aff o2) (mmul (go_aff0 o2) (go_T o2)) /\
  (forall idx1 idx2 idx,
     in_bounds (ashape (go_data o1)) idx1 = true -> in_bounds (ashape (go_data o2)) idx2 = true ->
     apply_aff (go_T o1) idx1 = Some idx -> apply_aff (go_T o2) idx2 = Some idx ->
     aget (go_data o1) idx1 = aget (go_data o2) idx2 /\ veq3 (world (go_aff o1) idx1) (world (go_aff o2) idx2)) /\
  (forall idx1, in_bounds (ashape (go_data o1)) idx1 = true ->
     exists idx2 idx, in_bounds (ashape (go_data o2)) idx2 = true /\
       apply_aff (go_T o1) idx1 = Some idx /\ apply_aff (go_T o2) idx2 = Some idx /\
       forall idx2', in_bounds (ashape (go_data o2)) idx2' = true -> apply_aff (go_T o2) idx2' = Some idx -> idx2' = idx2).
Proof. exact invariance_reachable. Qed.

(** (d) The output dtype (fix 63f686b): with [dl] the dtypes of ALL files of the stack (lattice int8, uint8, int16,
    uint16, int32, float32, float64) the array gets numpy's [result_type dl] = [j] - an upper bound of every file's
    dtype for the binary promotion, so no file's values are cast down - except that "uint16" becomes "int16" when
    every file stores fewer than 16 bits (BitsStored, default 16; maximum over all files). *)
Theorem C02_dtype : forall gs st code embed st' go,
  reachable st -> conv_geom gs st code embed = (st', Ok go) ->
  length (go_files go) = length (go_ord0 go) /\
  (forall k, k < length (go_ord0 go) -> nth_error (go_files go) k = file_at gs (go_ord0 go) k) /\
  exists dl,
    map (fun g => dt_of_name (g_dtype g)) (go_files go) = map Some dl /\ dl <> [] /\
    let j := result_type dl in
    let bits := fold_left Nat.max (map bits_stored_of (go_files go)) 0 in
    go_dtype go = (if dt_eqb j DUint16 && (bits <? 16) then dt_name DInt16 else dt_name j) /\
    (forall d, In d dl -> promote d j = j) /\
    (forall g, In g (go_files go) -> bits_stored_of g <= bits).
Proof. exact dtype_reachable. Qed.

(** [result_type] depends only on the SET of dtypes (the order in which Python enumerates its set does not
    matter) and is an upper bound of each member; the binary promotion is commutative and idempotent. *)
Theorem C02_dtype_lattice :
  (forall l l', (forall d, In d l <-> In d l') -> result_type l = result_type l') /\
  (forall l d, In d l -> promote d (result_type l) = result_type l) /\
  (forall a b, promote a b = promote b a) /\ (forall a, promote a a = a).
Proof. exact result_type_facts. Qed.

(* ----------------------------------------------------------------------------- non-vacuity *)
(** a sagittal series, 2 x 2 pixels, 3 slices x 2 time points, added in scrambled order, converted with
    voxel order "LAS" (which flips the slice axis of this series) *)

Example C02_values_ex :
  reachable ex_st /\ gfiles_ok ex_gs ex_st /\
  exists st', conv_geom ex_gs ex_st ex_LAS false = (st', Ok ex_go) /\
    o_shape (go_nifti ex_go) = grid_shape 2 2 3 2 1 /\ ashape (go_data ex_go) = [3; 2; 2; 2] /\
    (* pixel (1, 0) of the file in cell (s = 2, t = 1): value 310, found at output voxel (0, 1, 1, 1) *)
    file_at ex_gs (go_ord0 ex_go) (cell_pos 3 2 2 1 0) = Some (ex_gfile 0 1) /\
    pix_at (ex_gfile 0 1) 1 0 = Some 310%Z /\
    apply_aff (go_T ex_go) [0; 1; 1; 1] = Some (cell_idx 4 1 0 2 1 0) /\
    aget (go_data ex_go) [0; 1; 1; 1] = Some 310%Z.
Proof.
  split; [exact ex_reachable|]. split; [exact ex_gfiles_ok|]. eexists. split; [exact ex_conv_geom|].
  repeat split; vm_compute; reflexivity.
Qed.

Example C02_geometry_partial_ex :
  on_line ex_gs (go_ord0 ex_go) 3 /\
  (* that voxel's world position is the pixel's patient position (1, 0, 1) with x, y negated *)
  map Qred (world (go_aff ex_go) [0; 1; 1; 1]) = [-1; 0; 1]%Q /\
  map Qred (ras (pixel_pos (ex_gfile 0 1) 1 0)) = [-1; 0; 1]%Q.
Proof.
  split; [|split; vm_compute; reflexivity].
  apply (C02_geometry_sources ex_gs ex_st ex_LAS false _ ex_go ex_reachable ex_gfiles_ok ex_positions_ok
           ex_sources_regular ex_conv_geom 3 2 1 2 2); try lia. exact ex_shape.
Qed.

Example C02_geometry_sources_ex : positions_ok ex_gs ex_st /\ sources_regular ex_gs ex_st.
Proof. split; [exact ex_positions_ok | exact ex_sources_regular]. Qed.

(** an ACCEPTED series with slices at x = 1, 3, 5.06: the affine puts the third sorted slice (the file at x = 1)
    at x = 0.94; the error is slice_dev = -0.06 along d = (-1, 0, 0) *)
Example C02_geometry_irregular_ex :
  reachable ex_irr_st /\ gfiles_ok ex_irr_gs ex_irr_st /\ positions_ok ex_irr_gs ex_irr_st /\
  sources_line ex_irr_gs ex_irr_st [-1; 0; 0]%Q /\
  (exists st', conv_geom ex_irr_gs ex_irr_st [] false = (st', Ok ex_irr_go)) /\
  map (fun q : Qc => Qred (this q)) (ssort qc_leb (pos_vals ex_irr_st)) = [-253 # 50; -3; -1]%Q /\
  go_ord0 ex_irr_go = [2; 1; 0] /\
  map Qred (world (go_aff ex_irr_go) [0; 0; 2]) = [-47 # 50; 0; 0]%Q /\
  map Qred (ras (pixel_pos (ex_irr_gfile 0) 0 0)) = [-1; 0; 0]%Q /\
  Qred (slice_dev (ssort qc_leb (pos_vals ex_irr_st)) 2) = (-3 # 50)%Q.
Proof.
  split; [exact ex_irr_reachable|]. split; [exact ex_irr_gfiles_ok|]. split; [exact ex_irr_positions_ok|].
  split; [exact ex_irr_sources_line|]. split; [eexists; exact ex_irr_conv|].
  repeat split; vm_compute; reflexivity.
Qed.

Example C02_geometry_refuted_ex :
  map Qred (world (go_aff ex_irr_go) [0; 0; 2]) = [-47 # 50; 0; 0]%Q /\
  map Qred (ras (pixel_pos (ex_irr_gfile 0) 0 0)) = [-1; 0; 0]%Q.
Proof. split; vm_compute; reflexivity. Qed.

(** the accepted irregular series: |slice_dev P 2| = 0.06 <= 2 * (2.06 / 12 + ...) *)
Example C02_geometry_bound_ex :
  Qred (slice_dev (ssort qc_leb (pos_vals ex_irr_st)) 2) = (-3 # 50)%Q /\
  Qred (gap_at (ssort qc_leb (pos_vals ex_irr_st)) 0) = (103 # 50)%Q /\
  Qle_bool (3 # 50) (2 * gap_bound (103 # 50)) = true.
Proof. repeat split; vm_compute; reflexivity. Qed.

Example C02_values_rescaled_ex :
  (forall g, In g (go_files ex_go) -> rescaled_ok g (ex_rs g) = true) /\
  rescaled_val (mkrescale [[7]%Z] (1 # 2) 10 2) 7 == 27.
Proof. split; [exact ex_rescaled | vm_compute; reflexivity]. Qed.

Example C02_invariance_ex :
  exists s1 s2, conv_geom ex_gs ex_st ex_LAS false = (s1, Ok ex_go) /\ conv_geom ex_gs ex_st ex_RAS false = (s2, Ok ex_go2) /\
    ashape (go_data ex_go) = ashape (go_data ex_go2) /\ go_data ex_go <> go_data ex_go2 /\
    (* the same unreordered voxel (1, 0, 2, 1) seen from both outputs *)
    apply_aff (go_T ex_go) [0; 1; 1; 1] = Some [1; 0; 2; 1] /\ apply_aff (go_T ex_go2) [2; 1; 1; 1] = Some [1; 0; 2; 1].
Proof.
  do 2 eexists. split; [exact ex_conv_geom|]. split; [exact ex_conv_geom2|].
  split; [vm_compute; reflexivity|]. split; [intros E; vm_compute in E; discriminate|].
  split; vm_compute; reflexivity.
Qed.

Example C02_dtype_ex :
  map g_dtype (go_files ex_go) = repeat (dt_name DUint16) 6 /\ map bits_stored_of (go_files ex_go) = repeat 12 6 /\
  go_dtype ex_go = dt_name DInt16 /\
  (* a series in which one file was rescaled (float64) and another is signed *)
  out_dtype [ex_gfile 0 0; ex_gfile_dt 1 0 (dt_name DFloat64); ex_gfile 2 0] = Ok (dt_name DFloat64) /\
  out_dtype [ex_gfile 0 0; ex_gfile_dt 1 0 (dt_name DInt16)] = Ok (dt_name DInt32).
Proof. repeat split. Qed.

Example C02_dtype_lattice_ex :
  promote DUint16 DInt16 = DInt32 /\ promote DInt32 DFloat32 = DFloat64 /\ promote DUint8 DUint16 = DUint16 /\
  (* not a fold of the binary promotion: *)
  result_type [DInt16; DUint16; DFloat32] = DFloat32 /\ promote (promote DInt16 DUint16) DFloat32 = DFloat64.
Proof. repeat split. Qed.
