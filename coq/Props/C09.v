(** C09 — Serialisation round-trips exactly through JSON and through NIfTI files.

    [print] = json.dumps(obj, indent=4), [parse] = json.loads(s, object_pairs_hook=OrderedDict) (DV.Json.Model).
    [wf j]: strings and keys are sequences of Unicode scalar values, float tokens are lexemes of the JSON number
    grammar with a fraction or an exponent (or NaN / Infinity / -Infinity), the keys of every object are pairwise
    distinct.  Integers, nesting depth, key order and key text are unrestricted.
    [check_valid] (the validity check, DV.Content) is universally quantified in the structure theorems. *)
From Coq Require Import List ZArith NArith.
From DV Require Import Common.Str Common.Jv Common.Res Json.Model Json.ProofsNum Json.ProofsCodec Json.ProofsUtf8 Json.ProofsStruct.
Import ListNotations.

(* ---------------------------------------------------------------- text codec *)

Theorem C09_parse_print : forall j, wf j -> parse (print j) = Some j.
Proof. exact parse_print. Qed.

Example C09_parse_print_nonvacuous : wf sample /\ parse (print sample) = Some sample.
Proof. split; [exact sample_wf | vm_compute; reflexivity]. Qed.

Theorem C09_print_stable : forall j, wf j -> forall j', parse (print j) = Some j' -> print j' = print j.
Proof. exact print_stable. Qed.

Example C09_print_stable_nonvacuous :
  exists j', parse (print sample) = Some j' /\ print j' = print sample.
Proof. exists sample. split; vm_compute; reflexivity. Qed.

Theorem C09_print_int_roundtrip : forall z, scan_number (print_int z) = Some (JInt z, []).
Proof. exact scan_number_print_int. Qed.

Example C09_print_int_roundtrip_nonvacuous :
  print_int (-123456789012345678901234567890)%Z
  = [45; 49; 50; 51; 52; 53; 54; 55; 56; 57; 48; 49; 50; 51; 52; 53; 54; 55; 56; 57; 48; 49; 50; 51; 52; 53; 54; 55; 56; 57; 48]%N
  /\ parse (print_int (-123456789012345678901234567890)%Z) = Some (JInt (-123456789012345678901234567890)%Z).
Proof. split; vm_compute; reflexivity. Qed.

Theorem C09_print_injective : forall a b, wf a -> wf b -> print a = print b -> a = b.
Proof. exact print_injective. Qed.

Example C09_print_injective_nonvacuous :
  wf (JObj [([97]%N, JInt 1); ([98]%N, JInt 2)]) /\ wf (JObj [([98]%N, JInt 2); ([97]%N, JInt 1)])
  /\ print (JObj [([97]%N, JInt 1); ([98]%N, JInt 2)]) <> print (JObj [([98]%N, JInt 2); ([97]%N, JInt 1)]).
Proof. repeat split; vm_compute; congruence. Qed.

(* ---------------------------------------------------------------- structure layer *)

Theorem C09_to_json_defined_iff_valid : forall (check_valid : jv -> res unit) e,
  (exists s, to_json check_valid e = Ok s) <-> check_valid e = Ok tt.
Proof. exact to_json_defined_iff_valid. Qed.

Example C09_to_json_defined_iff_valid_nonvacuous :
  (exists s, to_json sample_check sample = Ok s) /\ to_json sample_check JNull = Err EInvalidExt.
Proof. split; [eexists|]; reflexivity. Qed.

Theorem C09_from_to : forall (check_valid : jv -> res unit) e s,
  wf e -> to_json check_valid e = Ok s -> from_json check_valid s = Ok e.
Proof. exact from_to. Qed.

Example C09_from_to_nonvacuous :
  wf sample /\ to_json sample_check sample = Ok (print sample) /\ from_json sample_check (print sample) = Ok sample.
Proof. split; [exact sample_wf | split; vm_compute; reflexivity]. Qed.

Theorem C09_from_runtime_repr_iff_valid : forall (check_valid : jv -> res unit) e,
  from_runtime_repr check_valid e = Ok e <-> check_valid e = Ok tt.
Proof. exact from_runtime_repr_iff_valid. Qed.

Example C09_from_runtime_repr_iff_valid_nonvacuous :
  from_runtime_repr sample_check sample = Ok sample /\ from_runtime_repr sample_check JNull = Err EInvalidExt.
Proof. split; reflexivity. Qed.

Theorem C09_str_is_json : forall (check_valid : jv -> res unit) e s,
  wf e -> to_json check_valid e = Ok s -> to_str e = Ok s.
Proof. exact str_is_json. Qed.

Example C09_str_is_json_nonvacuous :
  wf sample /\ to_json sample_check sample = Ok (print sample) /\ to_str sample = Ok (print sample).
Proof. split; [exact sample_wf | split; vm_compute; reflexivity]. Qed.

(* ---------------------------------------------------------------- bytes: _mangle / _unmangle are UTF-8 *)

Theorem C09_utf8_roundtrip : forall s, forallb scalar s = true -> utf8_decode (utf8_encode s) = Some s.
Proof. exact utf8_decode_encode. Qed.

Example C09_utf8_roundtrip_nonvacuous :
  utf8_encode [65; 233; 8364; 65535; 128512; 1114111]%N
  = [65; 195; 169; 226; 130; 172; 239; 191; 191; 240; 159; 152; 128; 244; 143; 191; 191]%N
  /\ utf8_decode (utf8_encode [65; 233; 8364; 65535; 128512; 1114111]%N) = Some [65; 233; 8364; 65535; 128512; 1114111]%N
  /\ utf8_decode [192; 128]%N = None /\ utf8_decode [237; 160; 128]%N = None /\ utf8_decode [244; 144; 128; 128]%N = None.
Proof. repeat split; vm_compute; reflexivity. Qed.

Theorem C09_mangle_is_ascii_json : forall e, wf e ->
  mangle e = print e /\ forallb (fun c => N.ltb c 128) (print e) = true /\ unmangle (mangle e) = Some e.
Proof.
  intros e Hwf. split; [exact (mangle_print e Hwf) | split; [exact (print_ascii e 0%nat Hwf) | exact (unmangle_mangle e Hwf)]].
Qed.

Example C09_mangle_is_ascii_json_nonvacuous :
  wf sample /\ mangle sample = print sample /\ unmangle (mangle sample) = Some sample.
Proof. split; [exact sample_wf | split; vm_compute; reflexivity]. Qed.

Theorem C09_constructors_agree :
  forall (check_valid : jv -> res unit) (store : str -> option str),
    (forall b, store b = Some b) ->
    forall e, wf e ->
      from_json check_valid (print e) = from_runtime_repr check_valid e
      /\ save_load check_valid store e = from_runtime_repr check_valid e.
Proof. exact constructors_agree. Qed.

Example C09_constructors_agree_nonvacuous :
  from_json sample_check (print sample) = Ok sample
  /\ from_runtime_repr sample_check sample = Ok sample
  /\ save_load sample_check sample_store sample = Ok sample
  /\ from_json sample_check (print (JArr [])) = Err EInvalidExt
  /\ save_load sample_check sample_store (JArr []) = Err EInvalidExt.
Proof. repeat split; vm_compute; reflexivity. Qed.

(* ---------------------------------------------------------------- file layer (partial: nibabel, gzip and
   the file system are the hypothesis [store b = Some b]; the full statement would take [store] to be the
   composition of Nifti1Image.to_filename and nibabel.load, which is exercised by the correspondence only) *)

Theorem C09_file_roundtrip_partial :
  forall (check_valid : jv -> res unit) (store : str -> option str),
    (forall b, store b = Some b) ->
    forall e, wf e -> check_valid e = Ok tt -> save_load check_valid store e = Ok e.
Proof. exact file_roundtrip. Qed.

Example C09_file_roundtrip_partial_nonvacuous :
  wf sample /\ sample_check sample = Ok tt /\ save_load sample_check sample_store sample = Ok sample.
Proof. split; [exact sample_wf | split; vm_compute; reflexivity]. Qed.

Theorem C09_save_load_twice_partial :
  forall (check_valid : jv -> res unit) (store : str -> option str),
    (forall b, store b = Some b) ->
    forall e e1, wf e -> save_load check_valid store e = Ok e1 ->
      e1 = e /\ mangle e1 = mangle e /\ save_load check_valid store e1 = Ok e1.
Proof. exact save_load_twice. Qed.

Example C09_save_load_twice_partial_nonvacuous :
  exists e1, save_load sample_check sample_store sample = Ok e1
             /\ save_load sample_check sample_store e1 = Ok e1 /\ mangle e1 = mangle sample.
Proof. exists sample. repeat split; vm_compute; reflexivity. Qed.

(* ---------------------------------------------------------------- histories: an extension object that was
   already encoded or written, or that came out of a file, is edited in place and written again.  The state
   [s] is arbitrary, in particular its cache of encoded bytes [h_raw s]. *)

Theorem C09_history_step_partial :
  forall (check_valid : jv -> res unit) (store : str -> option str),
    (forall b, store b = Some b) ->
    forall s : hstate, wf (h_obj s) -> check_valid (h_obj s) = Ok tt ->
      exists s1 s2,
        hstep check_valid store s HSave = (s1, EvSaved (mangle (h_obj s)))
        /\ h_obj s1 = h_obj s /\ h_raw s1 = mangle (h_obj s)
        /\ hstep check_valid store s1 HLoad = (s2, EvLoaded (Ok (h_obj s)))
        /\ h_obj s2 = h_obj s /\ h_raw s2 = mangle (h_obj s).
Proof. exact history_step. Qed.

Example C09_history_step_partial_nonvacuous :
  (* encoded once, then edited (a key dropped), then saved and loaded: the file holds the edited content *)
  snd (hrun sample_check sample_store {| h_obj := sample; h_raw := []; h_file := None |}
            [HTouch; HSave; HEdit (JObj [([98]%N, JBool false)]); HSave; HLoad])
  = [EvNone; EvSaved (print sample); EvNone; EvSaved (print (JObj [([98]%N, JBool false)]));
     EvLoaded (Ok (JObj [([98]%N, JBool false)]))].
Proof. vm_compute. reflexivity. Qed.

Theorem C09_history_cache_irrelevant_partial :
  forall (check_valid : jv -> res unit) (store : str -> option str) ops s raw',
    snd (hrun check_valid store s ops)
    = snd (hrun check_valid store {| h_obj := h_obj s; h_raw := raw'; h_file := h_file s |} ops)
    /\ h_obj (fst (hrun check_valid store s ops))
       = h_obj (fst (hrun check_valid store {| h_obj := h_obj s; h_raw := raw'; h_file := h_file s |} ops))
    /\ h_file (fst (hrun check_valid store s ops))
       = h_file (fst (hrun check_valid store {| h_obj := h_obj s; h_raw := raw'; h_file := h_file s |} ops)).
Proof. intros cv st ops s raw'. exact (history_cache_irrelevant cv st ops s raw'). Qed.

Example C09_history_cache_irrelevant_partial_nonvacuous :
  snd (hrun sample_check sample_store {| h_obj := sample; h_raw := [1; 2; 3]%N; h_file := None |} [HSave; HLoad])
  = [EvSaved (print sample); EvLoaded (Ok sample)].
Proof. vm_compute. reflexivity. Qed.
