(** C09 — stub while the proofs are being written. *)
From DV Require Import Json.Model Json.Corr.
