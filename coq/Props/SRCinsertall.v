(** Source equality, extension algebra — theorems only (stage D: _insert).
    DcmMetaExtension._insert(dim, other), TRANSLATED on every run in state-passing style with two instances whose contents are
    both threaded (Generated/T_src_state.v [insert_st]: the per-slice meta data of `other` is set aside in a local dictionary and
    put back; the slice normals are tokens that are equal exactly when np.allclose holds; the keys of self that other does not
    hold are computed as a set difference), against the per-key model Ext.Model.insert_k: when the model succeeds on every key
    ([R] = its results), the translated method - the class-major loops over the classes of `other`, each with a pass of
    reclassifications (_change_class) and a pass of insertions (_insert_slice / _insert_non_slice / _insert_sample by dim) -
    returns a content that holds exactly [R] (success-case form: which exception comes first depends on the order in which
    Python iterates a set of keys, which the translation does not model). *)
From Coq Require Import List Bool Arith NArith ZArith QArith.
From DV Require Import Common.Res Common.Str Common.Jv Common.PyOps2 Common.PyOps2Dyn Generated.T_classes Generated.T_src_state
     Ext.Types Ext.Classes Ext.Seq Ext.Model Ext.SrcEqAlg Ext.SrcEqState Ext.SrcEqInsert Ext.SrcEqInsertAll.
Import ListNotations.
Local Open Scope nat_scope.

(** hypotheses: both contents hold their per-key states, without entries of classes that are not valid for the shape; 3..5-D
    headers whose valid classes have their base dictionaries; the tokens of the two slice normals compare as Model.use_slices
    does; dim < 5 (from_sequence checks it) and at least one volume when dim is the slice dimension; every per-key state is
    storable (one value for a constant, no multiplicity-1 varying class), also after the reclassification *)
Theorem SRC_insert : forall (o oo : list (str * jv)) (hs ho : hdr) (f fo R : key -> kst jv) (dim : nat) (sn on : option nat),
  Holds o hs f -> Holds oo ho fo -> ndim_ok hs = true -> bases_ok hs -> ndim_ok ho = true -> bases_ok ho ->
  (match sn, on with Some a, Some b => Nat.eqb a b | _, _ => false end) = use_slices hs ho ->
  dim < 5 -> (odim_is (sdim hs) dim = true -> prod_list (skipn 3 (shape hs)) <> 0) ->
  (forall k, visible hs (f k) = f k) -> (forall k, visible ho (fo k) = fo k) ->
  (forall k, kst_storable hs (f k)) -> (forall k, kst_storable ho (fo k)) ->
  (forall k, insert_k jv_eqb JNull hs ho dim (f k) (fo k) = Ok (R k)) ->
  (forall k s1, reclassify_k JNull hs (f k) (other_class (use_slices hs ho) (fo k)) = Ok s1 -> kst_storable hs s1) ->
  exists o', insert_st classifications (shape hs) (sdim hs) (n_slices hs) preserving_changes sn (JObj o) dim
                       classifications (shape ho) (n_slices ho) preserving_changes on (JObj oo) = Ok (tt, JObj o') /\
             Holds o' hs R.
Proof. exact insert_st_ref. Qed.

(** the reclassification of one key (the first pass), in the refinement form of SRC_simplify, errors included *)
Theorem SRC_reclassify : forall (o : list (str * jv)) (hs : hdr) (f : key -> kst jv) (k : key) (oc : cls),
  Holds o hs f -> ndim_ok hs = true -> bases_ok hs -> kst_storable hs (f k) -> visible hs (f k) = f k ->
  match reclassify_k JNull hs (f k) oc with
  | Ok s' => exists o', reclassify_body classifications (shape hs) (n_slices hs) preserving_changes (name_of_cls oc) k (JObj o)
                        = Ok (Next (JObj o')) /\ Holds o' hs (upd f k s')
  | Err e => reclassify_body classifications (shape hs) (n_slices hs) preserving_changes (name_of_cls oc) k (JObj o) = Err e
  end.
Proof. exact reclassify_ref. Qed.

(** non-vacuity: a time point (one volume) is added to a 2-time-point instance: the per-time key is appended, the constant that
    differs becomes per time point *)
Definition exa_a : list (list Q) := [[1;0;0;0];[0;1;0;0];[0;0;1;0];[0;0;0;1]]%Q.
Definition exa_h : hdr := mk_hdr [2; 2; 2; 2] (Some 2) exa_a true false.
Definition exa_ho : hdr := mk_hdr [2; 2; 2; 1] (Some 2) exa_a true false.
Definition exa_c (t : list Z) (g : Z) : list (str * jv) :=
  [(name_of_base BGlobal, JObj [(name_of_sub SConst, JObj [([103]%N, JInt g)]); (name_of_sub SSlices, JObj [])]);
   (name_of_base BTime, JObj [(name_of_sub SSamples, JObj [([116]%N, JArr (map JInt t))]); (name_of_sub SSlices, JObj [])])].

Example SRC_insert_example :
  insert_st classifications (shape exa_h) (sdim exa_h) (n_slices exa_h) preserving_changes (Some 2) (JObj (exa_c [1; 2]%Z 5%Z)) 3
            classifications (shape exa_ho) (n_slices exa_ho) preserving_changes (Some 2) (JObj (exa_c [3]%Z 6%Z))
  = Ok (tt, JObj [(name_of_base BGlobal, JObj [(name_of_sub SConst, JObj []); (name_of_sub SSlices, JObj [])]);
                  (name_of_base BTime, JObj [(name_of_sub SSamples, JObj [([116]%N, JArr (map JInt [1; 2; 3]%Z));
                                                                          ([103]%N, JArr (map JInt [5; 5; 6]%Z))]);
                                             (name_of_sub SSlices, JObj [])])]) /\
  insert_k jv_eqb JNull exa_h exa_ho 3 (Some (TSamples, map JInt [1; 2]%Z)) (Some (TSamples, map JInt [3]%Z))
  = Ok (Some (TSamples, map JInt [1; 2; 3]%Z)) /\
  insert_k jv_eqb JNull exa_h exa_ho 3 (Some (GConst, [JInt 5%Z])) (Some (GConst, [JInt 6%Z]))
  = Ok (Some (TSamples, map JInt [5; 5; 6]%Z)) /\
  use_slices exa_h exa_ho = true /\ ndim_ok exa_h = true /\ ndim_ok exa_ho = true.
Proof.
  split; [vm_compute; reflexivity|]. split; [vm_compute; reflexivity|]. split; [vm_compute; reflexivity|].
  split; [vm_compute; reflexivity|]. split; reflexivity.
Qed.
