(** C04 Split is restriction -- IMAGE half: [NiftiWrapper.split] yields one piece per index of the split axis,
    in order; piece [i] holds the [i]-th hyperplane, its translation is advanced by [i] columns [dim] of the
    parent's affine (spatial dims; the cumulative [+=] of the code), everything else of the affine and the
    header slice dim are the parent's; and (the F5 repair) the piece's extension records the piece's image shape.
    Model: Wrapper/Model.v; vocabulary: Wrapper/Spec.v. *)
From Coq Require Import List Bool Arith ZArith NArith QArith Lia.
From DV Require Import Common.Res Common.Str Common.Jv Ext.Types Ext.Model Ext.Spec Ext.LookupSpec Ext.ValidFacts Ext.ProofsSubset
     Ext.Split Ext.ProofsRoundtripEx
     Orient.Model Wrapper.Model Wrapper.Spec
     Wrapper.ProofsSplit Wrapper.ProofsLookupW Wrapper.ProofsSplitLink.
Import ListNotations.
Local Open Scope nat_scope.

Theorem C04img_pieces :
  forall (im : img) (dim : nat) (ps : list img) (d : img),
    split_img_at im dim = Ok ps -> wf_img im ->
    dim < length (ishape im) /\
    length ps = nth dim (ishape im) 0 /\
    forall i, i < length ps ->
      let p := nth i ps d in
      ishape p = trim_ones (set_nth dim 1 (ishape im)) /\ wf_img p /\ islice p = islice im /\
      (forall idx, in_bounds (ishape p) idx = true ->
                   aget (iarr p) idx = aget (iarr im) (piece_src (length (ishape im)) dim i idx)) /\
      (dim < 3 -> shifted_by (iaff im) dim i (iaff p)) /\
      (3 <= dim -> iaff p = iaff im).
Proof. exact split_law. Qed.

(** the default dimension: the last axis; for a 3-D image the header's slice dim (ValueError when unknown) *)
Theorem C04img_default_dim :
  forall (im : img) (odim : option nat) (dim : nat),
    resolve_split_dim im odim = Ok dim ->
    match odim with
    | Some d => dim = d
    | None => if length (ishape im) - 1 =? 2 then islice im = Some dim else dim = length (ishape im) - 1
    end.
Proof. exact resolve_split_dim_spec. Qed.

(** image shape of a piece = extension shape of the piece (for every shape, incl. (X,Y,Z,1,V) along dim 4) *)
Theorem C04img_ext_shape :
  forall (V : Type) (veqb : V -> V -> bool) (vnone : V) (im : img) (e : ext V) (odim : option nat)
         (ws : list (wrapper V)) (dw : wrapper V),
    split_w veqb vnone (im, e) odim = Ok ws -> wf_img im ->
    shape (hdr_of e) = ishape im -> sdim (hdr_of e) = islice im ->
    forall i, i < length ws ->
      let p := nth i ws dw in
      shape (hdr_of (snd p)) = ishape (fst p) /\
      sdim (hdr_of (snd p)) = islice (fst p) /\
      aff (hdr_of (snd p)) = aff (hdr_of e).
Proof. exact @split_w_agree. Qed.

(** WRAPPER level (image half composed with C04_subset_den and C08_value): a lookup ([get_meta], default None) on
    piece [i] at any voxel of the piece = the parent's lookup at the voxel with the split axis fixed to [i]. *)
Theorem C04w_lookup :
  forall (V : Type) (veqb : V -> V -> bool) (vnone : V), (forall a b, reflect (a = b) (veqb a b)) ->
  forall (im : img) (e : ext V) (odim : option nat) (ws : list (wrapper V)) (dw : wrapper V),
    split_w veqb vnone (im, e) odim = Ok ws ->
    wf_img im -> consistent (im, e) -> valid e -> nondegenerate e -> no_trailing1 (shape (hdr_of e)) = true ->
    exists dim, resolve_split_dim im odim = Ok dim /\ length ws = nth dim (ishape im) 0 /\
      forall i, i < length ws ->
        forall k ix, LookupSpec.in_bounds ix (ishape (fst (nth i ws dw))) ->
          LookupSpec.in_bounds (piece_src_z (length (ishape im)) dim i ix) (ishape im) /\
          get_meta (ext_img_of (fst (nth i ws dw))) (snd (nth i ws dw)) k (Some ix) vnone =
          get_meta (ext_img_of im) e k (Some (piece_src_z (length (ishape im)) dim i ix)) vnone.
Proof. exact @split_w_lookup. Qed.

(** LINK between the two models of [NiftiWrapper.split] (Ext/Split.v [split], used by C04_split_* in Props/C04.v,
    and Wrapper/Model.v [split_w]): same exception, or piece by piece the same shape, slice dim, voxel list and
    extension, affines equal entry by entry as rationals -- whenever the parent's extension passes [check_valid].
    Where they differ: [Ext.Split.split] does not model the [check_valid] that [NiftiWrapper(split_nii)] runs on the
    parent's extension for every piece ([C04img_split_models_differ]). *)
Theorem C04img_split_models_agree :
  forall (V : Type) (veqb : V -> V -> bool) (vnone : V) (w : wimg) (e : ext V) (odim : option nat),
    wf_img (of_wimg w) -> check_valid_e e = true ->
    res_rel (Forall2 piece_same) (Split.split veqb vnone w e odim) (split_w veqb vnone (of_wimg w, e) odim).
Proof. exact @split_models_agree. Qed.

Theorem C04img_split_models_differ :
  check_valid_e bad_ext = false /\
  split_w jv_eqb JNull (of_wimg bad_wimg, bad_ext) (Some 0) = Err EMissingExt /\
  exists ps, Split.split jv_eqb JNull bad_wimg bad_ext (Some 0) = Ok ps /\ length ps = 1.
Proof. exact split_models_differ. Qed.

(* ------------------------------------------------------------------------------------------ non-vacuity *)

Definition exB : mat := [[3 # 2; -4 # 1; 0; 10]; [2 # 1; 3 # 1; 0; -8 # 1]; [0; 0; 5 # 2; 3]; [0; 0; 0; 1]]%Q.
Definition exBi : img := mk_img [2; 1; 3] [1; 2; 3; 4; 5; 6]%Z exB (Some 2).

(** every hypothesis of [C04img_pieces]: a well-formed (2,1,3) image split along the slice axis 2 with the oblique
    non-symmetric affine [exB]; piece 2 starts two columns (0,0,2.5) further *)
Example C04img_pieces_nonvacuous :
  wf_img exBi /\
  exists ps, split_img_at exBi 2 = Ok ps /\ length ps = 3 /\
             map idata ps = [[1; 4]; [2; 5]; [3; 6]]%Z /\
             map (fun p => map Qred (col3 (iaff p) 3)) ps = [[10; -8 # 1; 3]; [10; -8 # 1; 11 # 2]; [10; -8 # 1; 8]]%Q /\
             aget (iarr (nth 2 ps exBi)) [1; 0; 0] = aget (iarr exBi) (piece_src 3 2 2 [1; 0; 0]).
Proof.
  split; [split; reflexivity|]. eexists. split; [vm_compute; reflexivity|]. split; [reflexivity|].
  split; [vm_compute; reflexivity|]. split; vm_compute; reflexivity.
Qed.

Example C04img_default_dim_nonvacuous :
  resolve_split_dim (mk_img [2; 1; 3] [1; 2; 3; 4; 5; 6]%Z exB (Some 0)) None = Ok 0 /\
  resolve_split_dim (mk_img [2; 1; 3] [1; 2; 3; 4; 5; 6]%Z exB None) None = Err EValue /\
  resolve_split_dim (mk_img [2; 1; 1; 3] [1; 2; 3; 4; 5; 6]%Z exB None) None = Ok 3.
Proof. repeat split. Qed.

(** every hypothesis of [C04img_ext_shape]: (1,1,2,1,2) along dim 4 (the F5 shape): pieces are (1,1,2), image and
    extension alike *)
Example C04img_ext_shape_nonvacuous :
  let im := mk_img [1; 1; 2; 1; 2] [1; 2; 3; 4]%Z exB (Some 2) in
  let e := mk_ext (mk_hdr [1; 1; 2; 1; 2] (Some 2) exB false true) (@nil (key * (cls * list jv))) in
  wf_img im /\ shape (hdr_of e) = ishape im /\ sdim (hdr_of e) = islice im /\
  exists ws, split_w jv_eqb JNull (im, e) (Some 4) = Ok ws /\ length ws = 2 /\
             map (fun w => (ishape (fst w), shape (hdr_of (snd w)), idata (fst w))) ws =
             [([1; 1; 2], [1; 1; 2], [1; 3]%Z); ([1; 1; 2], [1; 1; 2], [2; 4]%Z)].
Proof. cbv zeta. split; [split; reflexivity|]. split; [reflexivity|]. split; [reflexivity|]. eexists. split; [vm_compute; reflexivity|]. split; reflexivity. Qed.

(** [C04w_lookup]: the 5-D extension [c05_ex] (one key per class, slice axis 1) on its own (2,2,2,3,2) image, split
    along time; every hypothesis, and the lookups of piece 2 at voxel (1,0,1,0,1) = the parent's at (1,0,1,2,1) *)
Definition exL : img := mk_img [2; 2; 2; 3; 2] (map Z.of_nat (seq 0 48)) c05_aff (Some 1).

Example C04w_lookup_nonvacuous :
  wf_img exL /\ consistent (exL, c05_ex) /\ valid c05_ex /\ nondegenerate c05_ex /\
  no_trailing1 (shape (hdr_of c05_ex)) = true /\
  exists ws, split_w jv_eqb JNull (exL, c05_ex) (Some 3) = Ok ws /\ length ws = 3 /\
    LookupSpec.in_bounds [1; 0; 1; 0; 1]%Z (ishape (fst (nth 2 ws (exL, c05_ex)))) /\
    piece_src_z 5 3 2 [1; 0; 1; 0; 1]%Z = [1; 0; 1; 2; 1]%Z /\
    map (fun k => get_meta (ext_img_of (fst (nth 2 ws (exL, c05_ex)))) (snd (nth 2 ws (exL, c05_ex))) k (Some [1; 0; 1; 0; 1]%Z) JNull)
        [[116]%N; [118]%N; [115]%N; [119]%N; [103]%N; [99]%N] =
    map (fun k => get_meta (ext_img_of exL) c05_ex k (Some [1; 0; 1; 2; 1]%Z) JNull)
        [[116]%N; [118]%N; [115]%N; [119]%N; [103]%N; [99]%N] /\
    get_meta (ext_img_of exL) c05_ex [116]%N (Some [1; 0; 1; 2; 1]%Z) JNull = Ok (JInt 15).
Proof.
  destruct c05_ex_dom as (Hv & Hnd & Hnt & _).
  split; [split; reflexivity|]. split; [repeat split|]. split; [exact Hv|]. split; [exact Hnd|]. split; [exact Hnt|].
  eexists. split; [vm_compute; reflexivity|]. split; [reflexivity|].
  split; [split; [reflexivity|]; intros j Hj; cbn in Hj; destruct j as [|[|[|[|[|j]]]]]; cbn; lia|].
  split; [reflexivity|]. split; vm_compute; reflexivity.
Qed.

(** [C04img_split_models_agree]: hypotheses for the same image and extension, and both models' pieces *)
Example C04img_split_models_agree_nonvacuous :
  let w := mk_wimg [2; 2; 2; 3; 2] (Some 1) c05_aff (map Z.of_nat (seq 0 48)) in
  wf_img (of_wimg w) /\ check_valid_e c05_ex = true /\
  exists l1 l2, Split.split jv_eqb JNull w c05_ex (Some 1) = Ok l1 /\ split_w jv_eqb JNull (of_wimg w, c05_ex) (Some 1) = Ok l2 /\
                map (fun p => wi_data (fst p)) l1 = map (fun p => idata (fst p)) l2 /\ length l1 = 2.
Proof. cbv zeta. split; [split; reflexivity|]. split; [vm_compute; reflexivity|]. eexists. eexists. split; [vm_compute; reflexivity|]. split; [vm_compute; reflexivity|]. split; vm_compute; reflexivity. Qed.
