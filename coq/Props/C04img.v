(** C04 Split is restriction -- IMAGE half: [NiftiWrapper.split] yields one piece per index of the split axis,
    in order; piece [i] holds the [i]-th hyperplane, its translation is advanced by [i] columns [dim] of the
    parent's affine (spatial dims; the cumulative [+=] of the code), everything else of the affine and the
    header slice dim are the parent's; and (the F5 repair) the piece's extension records the piece's image shape.
    Model: Wrapper/Model.v; vocabulary: Wrapper/Spec.v. *)
From Coq Require Import List Bool Arith ZArith QArith Lia.
From DV Require Import Common.Res Common.Jv Ext.Types Ext.Model Orient.Model Wrapper.Model Wrapper.Spec
     Wrapper.ProofsSplit.
Import ListNotations.
Local Open Scope nat_scope.

Theorem C04img_pieces :
  forall (im : img) (dim : nat) (ps : list img) (d : img),
    split_img_at im dim = Ok ps -> wf_img im ->
    dim < length (ishape im) /\
    length ps = nth dim (ishape im) 0 /\
    forall i, i < length ps ->
      let p := nth i ps d in
      ishape p = trim_ones (set_nth dim 1 (ishape im)) /\ wf_img p /\ islice p = islice im /\
      (forall idx, in_bounds (ishape p) idx = true ->
                   aget (iarr p) idx = aget (iarr im) (piece_src (length (ishape im)) dim i idx)) /\
      (dim < 3 -> shifted_by (iaff im) dim i (iaff p)) /\
      (3 <= dim -> iaff p = iaff im).
Proof. exact split_law. Qed.

(** the default dimension: the last axis; for a 3-D image the header's slice dim (ValueError when unknown) *)
Theorem C04img_default_dim :
  forall (im : img) (odim : option nat) (dim : nat),
    resolve_split_dim im odim = Ok dim ->
    match odim with
    | Some d => dim = d
    | None => if length (ishape im) - 1 =? 2 then islice im = Some dim else dim = length (ishape im) - 1
    end.
Proof. exact resolve_split_dim_spec. Qed.

(** image shape of a piece = extension shape of the piece (for every shape, incl. (X,Y,Z,1,V) along dim 4) *)
Theorem C04img_ext_shape :
  forall (V : Type) (veqb : V -> V -> bool) (vnone : V) (im : img) (e : ext V) (odim : option nat)
         (ws : list (wrapper V)) (dw : wrapper V),
    split_w veqb vnone (im, e) odim = Ok ws -> wf_img im ->
    shape (hdr_of e) = ishape im -> sdim (hdr_of e) = islice im ->
    forall i, i < length ws ->
      let p := nth i ws dw in
      shape (hdr_of (snd p)) = ishape (fst p) /\
      sdim (hdr_of (snd p)) = islice (fst p) /\
      aff (hdr_of (snd p)) = aff (hdr_of e).
Proof. exact @split_w_agree. Qed.

(* ------------------------------------------------------------------------------------------ non-vacuity *)

Definition exB : mat := [[3 # 2; -4 # 1; 0; 10]; [2 # 1; 3 # 1; 0; -8 # 1]; [0; 0; 5 # 2; 3]; [0; 0; 0; 1]]%Q.

(** a (2,1,3) image split along the slice axis 2 with the oblique non-symmetric affine [exB]:
    piece 2 starts two columns (0,0,2.5) further *)
Example C04img_pieces_nonvacuous :
  exists ps, split_img_at (mk_img [2; 1; 3] [1; 2; 3; 4; 5; 6]%Z exB (Some 2)) 2 = Ok ps /\
             map idata ps = [[1; 4]; [2; 5]; [3; 6]]%Z /\
             map (fun p => map Qred (col3 (iaff p) 3)) ps = [[10; -8 # 1; 3]; [10; -8 # 1; 11 # 2]; [10; -8 # 1; 8]]%Q.
Proof. eexists. split; [vm_compute; reflexivity|]. split; vm_compute; reflexivity. Qed.

Example C04img_default_dim_nonvacuous :
  resolve_split_dim (mk_img [2; 1; 3] [1; 2; 3; 4; 5; 6]%Z exB (Some 0)) None = Ok 0 /\
  resolve_split_dim (mk_img [2; 1; 3] [1; 2; 3; 4; 5; 6]%Z exB None) None = Err EValue /\
  resolve_split_dim (mk_img [2; 1; 1; 3] [1; 2; 3; 4; 5; 6]%Z exB None) None = Ok 3.
Proof. repeat split. Qed.

(** (1,1,2,1,2) along dim 4 (the F5 shape): pieces are (1,1,2), image and extension alike *)
Example C04img_ext_shape_nonvacuous :
  exists ws, split_w jv_eqb JNull
               (mk_img [1; 1; 2; 1; 2] [1; 2; 3; 4]%Z exB (Some 2),
                mk_ext (mk_hdr [1; 1; 2; 1; 2] (Some 2) exB false true) []) (Some 4) = Ok ws /\
             map (fun w => (ishape (fst w), shape (hdr_of (snd w)), idata (fst w))) ws =
             [([1; 1; 2], [1; 1; 2], [1; 3]%Z); ([1; 1; 2], [1; 1; 2], [2; 4]%Z)].
Proof. eexists. split; vm_compute; reflexivity. Qed.
