(** C04 Split is restriction -- TOTALITY: on the domain of C04 the split never fails, so the laws of Props/C04.v
    and Props/C04img.v hold with the existence of the pieces in the statement (no "= Ok r" hypothesis left).
    Domain: a [valid] extension whose shape has no trailing singleton dimension ([no_trailing1], the region of the
    open finding N2), [dim] an axis of the shape, [idx] inside that axis.  [nondegenerate] is NOT needed for
    totality of the model (it restricts the correspondence with the code, not the theorem).
    Each hypothesis is needed: [C04_subset_total_trailing1_refuted], [.._idx_refuted], [.._invalid_refuted].
    Definitions used in the statements: Ext/Spec.v [valid], [nondegenerate], [den], [in_dims], [dims];
    Ext/ProofsSubset.v [no_trailing1], [axis_of], [set_axis]; Ext/Split.v [wimg], [split]; Wrapper/Model.v
    [img], [split_img], [split_w], [resolve_split_dim].  Proofs: Ext/ProofsTotalSimplify.v ([_simplify] cannot
    raise), Ext/ProofsTotal.v (every branch of [_copy_slice] / [_copy_sample] / [get_subset]), Wrapper/ProofsTotal.v. *)
From Coq Require Import List Bool Arith NArith ZArith QArith Lia.
From DV Require Import Common.Res Common.Str Common.Jv Ext.Types Ext.Seq Ext.Model Ext.Spec Ext.ValidFacts Ext.ProofsSubset
     Ext.Split Ext.ProofsTotal.
From DV Require Orient.Model Wrapper.Model Wrapper.ProofsTotal.
Import ListNotations.
Local Open Scope nat_scope.

(** [get_subset] returns a piece for every axis and every index of it *)
Theorem C04_subset_total :
  forall (V : Type) (veqb : V -> V -> bool) (vnone : V),
    (forall a b, reflect (a = b) (veqb a b)) ->
    forall (e : ext V) (dim idx : nat),
      valid e -> no_trailing1 (shape (hdr_of e)) = true ->
      dim < ndim (hdr_of e) -> idx < nth dim (shape (hdr_of e)) 0 ->
      exists r, get_subset veqb vnone e dim idx = Ok r.
Proof. exact @get_subset_total. Qed.

(** existence + the laws of C04 in one statement: the piece exists, has the trimmed shape / the parent's slice dim
    and affine, its lookup at any remaining coordinate is the parent's lookup with the split axis fixed to [idx],
    and it stays valid and nondegenerate when the parent is nondegenerate *)
Theorem C04_subset_den_total :
  forall (V : Type) (veqb : V -> V -> bool) (vnone : V),
    (forall a b, reflect (a = b) (veqb a b)) ->
    forall (e : ext V) (dim idx : nat),
      valid e -> no_trailing1 (shape (hdr_of e)) = true ->
      dim < ndim (hdr_of e) -> idx < nth dim (shape (hdr_of e)) 0 ->
      exists r, get_subset veqb vnone e dim idx = Ok r /\
        (exists sh, set_nth dim 1 (shape (hdr_of e)) = Some sh /\ shape (hdr_of r) = trim_ones sh /\
                    sdim (hdr_of r) = sdim (hdr_of e) /\ aff (hdr_of r) = aff (hdr_of e)) /\
        (forall k p, in_dims (dims (hdr_of r)) p ->
           den vnone r k p = den vnone e k (set_axis (axis_of (hdr_of e) dim) idx p)) /\
        (nondegenerate e -> valid r /\ nondegenerate r).
Proof. exact @subset_den_total. Qed.

(** the hypotheses cannot be dropped: trailing singleton dimension (open finding N2) -> KeyError *)
Theorem C04_subset_total_trailing1_refuted :
  exists (e : ext jv) dim idx,
    validb e = true /\ nondegenerateb e = true /\ no_trailing1 (shape (hdr_of e)) = false /\
    dim < ndim (hdr_of e) /\ idx < nth dim (shape (hdr_of e)) 0 /\
    get_subset jv_eqb JNull e dim idx = Err EKey.
Proof. exact get_subset_total_trailing1_refuted. Qed.

(** ... index just outside the axis -> IndexError *)
Theorem C04_subset_total_idx_refuted :
  exists (e : ext jv) dim idx,
    validb e = true /\ nondegenerateb e = true /\ no_trailing1 (shape (hdr_of e)) = true /\
    dim < ndim (hdr_of e) /\ idx = nth dim (shape (hdr_of e)) 0 /\
    get_subset jv_eqb JNull e dim idx = Err EIndex.
Proof. exact get_subset_total_idx_refuted. Qed.

(** ... a value count that does not fit the shape -> ValueError from [is_constant] *)
Theorem C04_subset_total_invalid_refuted :
  exists (e : ext jv) dim idx,
    validb e = false /\ no_trailing1 (shape (hdr_of e)) = true /\
    dim < ndim (hdr_of e) /\ idx < nth dim (shape (hdr_of e)) 0 /\
    get_subset jv_eqb JNull e dim idx = Err EValue.
Proof. exact get_subset_total_invalid_refuted. Qed.

(** image level (model Ext/Split.v): [NiftiWrapper.split] yields all its pieces when the image carries the
    extension (same shape; the header's slice dim, when known, is the extension's) and [dim] is an axis of the
    image, or [None] (which needs the header's slice dim for a 3-D image) *)
Theorem C04_split_total :
  forall (V : Type) (veqb : V -> V -> bool) (vnone : V),
    (forall a b, reflect (a = b) (veqb a b)) ->
    forall (w : wimg) (e : ext V) (dim : option nat),
      valid e -> no_trailing1 (shape (hdr_of e)) = true ->
      wi_shape w = shape (hdr_of e) -> (forall s, wi_slice w = Some s -> sdim (hdr_of e) = Some s) ->
      match dim with
      | Some d => d < length (wi_shape w)
      | None => length (wi_shape w) = 3 -> wi_slice w <> None
      end ->
      exists ps, split veqb vnone w e dim = Ok ps.
Proof.
  intros V veqb vnone Hspec w e dim Hv Hnt Hsh Hsl Harg.
  exact (split_total veqb vnone Hspec w e dim Hv Hnt (conj Hsh Hsl) Harg).
Qed.

(** image level (model Wrapper/Model.v), image alone: one piece per index of the chosen axis *)
Theorem C04img_split_total :
  forall (im : Wrapper.Model.img) (odim : option nat),
    match odim with
    | Some d => d < length (Wrapper.Model.ishape im)
    | None => 1 <= length (Wrapper.Model.ishape im) /\
              (length (Wrapper.Model.ishape im) = 3 -> exists s, Wrapper.Model.islice im = Some s /\ s < 3)
    end ->
    exists dim ps, Wrapper.Model.resolve_split_dim im odim = Ok dim /\ Wrapper.Model.split_img im odim = Ok ps /\
                   length ps = nth dim (Wrapper.Model.ishape im) 0.
Proof. exact Wrapper.ProofsTotal.split_img_total. Qed.

(** ... and wrappers: every piece gets its sub-extension and passes the final [check_valid] *)
Theorem C04img_split_w_total :
  forall (V : Type) (veqb : V -> V -> bool) (vnone : V),
    (forall a b, reflect (a = b) (veqb a b)) ->
    forall (im : Wrapper.Model.img) (e : ext V) (odim : option nat),
      valid e -> no_trailing1 (shape (hdr_of e)) = true ->
      shape (hdr_of e) = Wrapper.Model.ishape im ->
      (forall s, Wrapper.Model.islice im = Some s -> sdim (hdr_of e) = Some s) ->
      match odim with
      | Some d => d < length (Wrapper.Model.ishape im)
      | None => length (Wrapper.Model.ishape im) = 3 -> Wrapper.Model.islice im <> None
      end ->
      exists dim ws, Wrapper.Model.resolve_split_dim im odim = Ok dim /\
                     Wrapper.Model.split_w veqb vnone (im, e) odim = Ok ws /\
                     length ws = nth dim (Wrapper.Model.ishape im) 0.
Proof.
  intros V veqb vnone Hspec im e odim Hv Hnt Hsh Hsl Harg.
  exact (Wrapper.ProofsTotal.split_w_total veqb vnone Hspec im e odim Hv Hnt (conj Hsh Hsl) Harg).
Qed.

(** * Non-vacuity ([tot_ex]: the 5-D extension with one key per class of Ext/ProofsTotal.v) *)

Example C04_subset_total_nonvacuous :
  valid tot_ex /\ no_trailing1 (shape (hdr_of tot_ex)) = true /\ 4 < ndim (hdr_of tot_ex) /\
  1 < nth 4 (shape (hdr_of tot_ex)) 0 /\
  exists r, get_subset jv_eqb JNull tot_ex 4 1 = Ok r /\ shape (hdr_of r) = [2; 2; 2; 3] /\ length (entries r) = 6.
Proof.
  split; [exact tot_ex_valid|]. split; [reflexivity|]. split; [cbn; lia|]. split; [cbn; lia|].
  eexists. split; [vm_compute; reflexivity|]. split; reflexivity.
Qed.

Example C04_subset_den_total_nonvacuous :
  valid tot_ex /\ nondegenerate tot_ex /\ no_trailing1 (shape (hdr_of tot_ex)) = true /\ 3 < ndim (hdr_of tot_ex) /\
  2 < nth 3 (shape (hdr_of tot_ex)) 0 /\
  exists r, get_subset jv_eqb JNull tot_ex 3 2 = Ok r /\ shape (hdr_of r) = [2; 2; 2; 1; 2] /\
    map (fun k => den JNull r k (1, 0, 1)) [[116]%N; [118]%N; [115]%N; [119]%N; [103]%N]
    = [JInt 15; JInt 21; JInt 31; JInt 45; JInt 61] /\
    map (fun k => den JNull tot_ex k (1, 2, 1)) [[116]%N; [118]%N; [115]%N; [119]%N; [103]%N]
    = [JInt 15; JInt 21; JInt 31; JInt 45; JInt 61].
Proof.
  split; [exact tot_ex_valid|]. split; [exact tot_ex_nondeg|]. split; [reflexivity|]. split; [cbn; lia|]. split; [cbn; lia|].
  eexists. split; [vm_compute; reflexivity|]. split; [reflexivity|]. split; vm_compute; reflexivity.
Qed.

Example C04_split_total_nonvacuous :
  valid tot_ex /\ wi_shape tot_wimg = shape (hdr_of tot_ex) /\
  (forall s, wi_slice tot_wimg = Some s -> sdim (hdr_of tot_ex) = Some s) /\
  (exists ps, split jv_eqb JNull tot_wimg tot_ex (Some 1) = Ok ps /\ length ps = 2) /\
  (exists ps, split jv_eqb JNull tot_wimg tot_ex None = Ok ps /\ length ps = 2 /\
              map (fun p => wi_shape (fst p)) ps = [[2; 2; 2; 3]; [2; 2; 2; 3]]).
Proof.
  split; [exact tot_ex_valid|]. split; [reflexivity|]. split; [intros s H; exact H|].
  split; eexists; (split; [vm_compute; reflexivity|]); [reflexivity | split; reflexivity].
Qed.

Example C04img_split_total_nonvacuous :
  (exists ps, Wrapper.Model.split_img Wrapper.ProofsTotal.tot_img None = Ok ps /\
              map Wrapper.Model.idata ps = [[0; 3; 6; 9]; [1; 4; 7; 10]; [2; 5; 8; 11]]%Z) /\
  (exists ps, Wrapper.Model.split_img Wrapper.ProofsTotal.tot_img3 None = Ok ps /\
              map Wrapper.Model.idata ps = [[1; 3]; [2; 4]]%Z).
Proof. exact (proj2 (proj2 (proj2 Wrapper.ProofsTotal.ex_split_img_total))). Qed.

Example C04img_split_w_total_nonvacuous :
  valid Wrapper.ProofsTotal.tot_ext /\ no_trailing1 (shape (hdr_of Wrapper.ProofsTotal.tot_ext)) = true /\
  shape (hdr_of Wrapper.ProofsTotal.tot_ext) = Wrapper.Model.ishape Wrapper.ProofsTotal.tot_img /\
  exists ws, Wrapper.Model.split_w jv_eqb JNull (Wrapper.ProofsTotal.tot_img, Wrapper.ProofsTotal.tot_ext) (Some 2) = Ok ws /\
             map (fun w => (Wrapper.Model.ishape (fst w), shape (hdr_of (snd w)))) ws
             = [([2; 1; 1; 3], [2; 1; 1; 3]); ([2; 1; 1; 3], [2; 1; 1; 3])].
Proof.
  destruct Wrapper.ProofsTotal.ex_split_w_total as (Hv & Hnt & [Hsh _] & _ & _ & _ & _ & _ & Hw & _).
  split; [exact Hv|]. split; [exact Hnt|]. split; [exact Hsh | exact Hw].
Qed.
