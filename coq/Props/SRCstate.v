(** Source equality, extension algebra — theorems only (stage B: the single-key mutators, state-passing).
    DcmMetaExtension._change_class / _simplify as TRANSLATED on every run (Generated/T_src_state.v; the state is the
    content dictionary, threaded through every statement) REFINE the per-key model Ext.Model.change_class_k /
    simplify_k: on a content that holds the per-key states [f] ([Holds], Ext/SrcEqState.v — the content
    [to_content e] of Link/Abs.v holds [lookup_e e]) the translated mutator fails exactly when the model fails on the
    state of the key at hand (same exception class), and otherwise returns a content that holds the same states with
    that key updated as the model says — every other key, in every class dictionary, is untouched. *)
From Coq Require Import List Bool Arith NArith ZArith QArith.
From DV Require Import Common.Res Common.Str Common.Jv Common.PyOps2 Common.PyOps2Dyn Generated.T_classes Generated.T_src_state
     Ext.Types Ext.Classes Ext.Seq Ext.Model Ext.SrcEqAlg Ext.SrcEqState Ext.SrcEqStateLink Link.Abs Link.ProofsTo.
Import ListNotations.
Local Open Scope nat_scope.

(** hypotheses: 3..5-D header whose valid classes have their base dictionaries; the key's state is storable (a
    constant is one value, no varying class of multiplicity 1) and not stale (its class is valid for the shape) *)
Theorem SRC_change_class : forall (o : list (str * jv)) (h : hdr) (f : key -> kst jv) (k : key) (new : cls),
  Holds o h f -> ndim_ok h = true -> bases_ok h -> kst_storable h (f k) -> visible h (f k) = f k ->
  match change_class_k JNull h (f k) new with
  | Ok s' => exists o', change_class_st classifications (shape h) (n_slices h) preserving_changes (JObj o) k (name_of_cls new)
                        = Ok (tt, JObj o') /\ Holds o' h (upd f k s')
  | Err e => change_class_st classifications (shape h) (n_slices h) preserving_changes (JObj o) k (name_of_cls new) = Err e
  end.
Proof. exact change_class_st_ref. Qed.

(** in addition: a key of a per-slice class only where the header has a slice dimension *)
Theorem SRC_simplify : forall (o : list (str * jv)) (h : hdr) (f : key -> kst jv) (k : key),
  Holds o h f -> ndim_ok h = true -> bases_ok h -> kst_storable h (f k) -> visible h (f k) = f k ->
  (forall c vs, f k = Some (c, vs) -> is_slices c = true -> n_slices h <> None) ->
  match simplify_k jv_eqb JNull h (f k) with
  | Ok s' => exists b o', simplify_run h o k = Ok (b, JObj o') /\ Holds o' h (upd f k s')
  | Err e => simplify_run h o k = Err e
  end.
Proof. exact simplify_st_ref. Qed.

(** the content dictionary of Link/Abs.v holds the per-key states of the extension *)
Theorem SRC_to_content_holds : forall (qtok : Q -> str) (e : ext jv),
  NoDup (keys_e e) ->
  to_content qtok e = JObj (to_members qtok e) /\ Holds (to_members qtok e) (hdr_of e) (lookup_e e).
Proof. exact (fun qtok e H => conj (to_content_members qtok e) (to_content_holds qtok e H)). Qed.

(** non-vacuity: a 4-D extension; key "a" is constant over time and simplifies to a global constant, key "b"
    changes class from per-time-sample to per-slice *)
Definition ex_e : ext jv :=
  mk_ext (mk_hdr [2; 2; 3; 2] (Some 2) [] true false)
         [([97]%N, (TSamples, [JInt 5; JInt 5])); ([98]%N, (TSamples, [JInt 1; JInt 2]))].
Definition ex_o : list (str * jv) := to_members (fun _ => []) ex_e.

Example SRC_state_example :
  NoDup (keys_e ex_e) /\ ndim_ok (hdr_of ex_e) = true /\
  kst_storable (hdr_of ex_e) (lookup_e ex_e [97]%N) /\ visible (hdr_of ex_e) (lookup_e ex_e [97]%N) = lookup_e ex_e [97]%N /\
  simplify_k jv_eqb JNull (hdr_of ex_e) (lookup_e ex_e [97]%N) = Ok (Some (GConst, [JInt 5])) /\
  (exists o', simplify_run (hdr_of ex_e) ex_o [97]%N = Ok (true, JObj o') /\
              class_dict_of o' GConst = Some [([97]%N, JInt 5)] /\ class_dict_of o' TSamples = Some [([98]%N, JArr [JInt 1; JInt 2])]) /\
  simplify_run (hdr_of ex_e) ex_o [98]%N = Ok (false, JObj ex_o) /\
  (exists o', change_class_st classifications (shape (hdr_of ex_e)) (n_slices (hdr_of ex_e)) preserving_changes (JObj ex_o) [98]%N
                              (name_of_cls GSlices) = Ok (tt, JObj o') /\
              class_dict_of o' GSlices = Some [([98]%N, JArr [JInt 1; JInt 1; JInt 1; JInt 2; JInt 2; JInt 2])] /\
              class_dict_of o' TSamples = Some [([97]%N, JArr [JInt 5; JInt 5])]).
Proof.
  split; [repeat constructor; cbn; intuition discriminate|].
  split; [reflexivity|]. split; [vm_compute; discriminate|]. split; [reflexivity|]. split; [reflexivity|].
  split; [eexists; split; [vm_compute; reflexivity | split; reflexivity]|].
  split; [vm_compute; reflexivity|].
  eexists; split; [vm_compute; reflexivity | split; reflexivity].
Qed.
