(** Source equality, extension algebra — theorems only (stage D: _insert_slice).
    DcmMetaExtension._insert_slice(key, other), TRANSLATED on every run in state-passing style with two instances
    (Generated/T_src_state.v [insert_slice_st]: `self` is changed, `other` is only read; a list of the state that Python
    extends in place is stored back under its key), refines the per-key model Ext.Model.insert_slice_k: on a content that
    holds the per-key states [f] (and `other` on one that holds [fo]) it fails exactly when the model fails, with the same
    error, and otherwise leaves a content that holds [f] with the key updated to the model's result.
    All paths: the ('global','const') path (compare, search the first existing base, _change_class, extend the stored
    list), the appended ('time','slices') path, and the two general paths through ('global','slices') with the interleaving
    loop.  A key that self does not hold is outside the theorem (the model calls it unreachable after reclassification). *)
From Coq Require Import List Bool Arith NArith ZArith.
From DV Require Import Common.Res Common.Str Common.Jv Common.PyOps2 Common.PyOps2Dyn Generated.T_classes Generated.T_src_state
     Ext.Types Ext.Classes Ext.Seq Ext.Model Ext.SrcEqAlg Ext.SrcEqState Ext.SrcEqInsert.
Import ListNotations.
Local Open Scope nat_scope.

(** hypotheses: both contents hold their per-key states; 3..5-D headers whose valid classes have their base dictionaries;
    the key is present in self with a valid class; both per-key states are storable (one value for a constant, no
    multiplicity-1 varying class); self has at least one volume (no zero extent beyond the third dimension) *)
Theorem SRC_insert_slice : forall (o oo : list (str * jv)) (hs ho : hdr) (f fo : key -> kst jv) (k : key) (c : cls) (lv : list jv),
  Holds o hs f -> Holds oo ho fo -> ndim_ok hs = true -> bases_ok hs -> ndim_ok ho = true -> bases_ok ho ->
  kst_storable ho (fo k) -> prod_list (skipn 3 (shape hs)) <> 0 ->
  f k = Some (c, lv) -> class_valid hs c = true -> kst_storable hs (f k) ->
  match insert_slice_k jv_eqb JNull hs ho (f k) (fo k) with
  | Ok s' => exists o', insert_slice_st classifications (shape hs) (sdim hs) (n_slices hs) preserving_changes (JObj o) k
                                        classifications (shape ho) (n_slices ho) preserving_changes (JObj oo) = Ok (tt, JObj o') /\
                        Holds o' hs (upd f k s')
  | Err e => insert_slice_st classifications (shape hs) (sdim hs) (n_slices hs) preserving_changes (JObj o) k
                             classifications (shape ho) (n_slices ho) preserving_changes (JObj oo) = Err e
  end.
Proof. exact insert_slice_st_all. Qed.

(** non-vacuity: a per-slice key of the vector base, 2 slices x 1 time x 2 vectors, receives the values of an `other` of the same shape:
    moved to ('global','slices') and interleaved volume by volume *)
Definition exi_hs : hdr := mk_hdr [2; 2; 2; 1; 2] (Some 2) [] false true.
Definition exi_ho : hdr := mk_hdr [2; 2; 2; 1; 2] (Some 2) [] false true.
Definition exi_content (vals : list Z) : list (str * jv) :=
  [(name_of_base BGlobal, JObj [(name_of_sub SConst, JObj []); (name_of_sub SSlices, JObj [])]);
   (name_of_base BVector, JObj [(name_of_sub SSamples, JObj []); (name_of_sub SSlices, JObj [([107]%N, JArr (map JInt vals))])])].

Example SRC_insert_slice_example :
  insert_slice_st classifications (shape exi_hs) (sdim exi_hs) (n_slices exi_hs) preserving_changes (JObj (exi_content [1; 2]%Z)) [107]%N
                  classifications (shape exi_ho) (n_slices exi_ho) preserving_changes (JObj (exi_content [3; 4]%Z))
  = Ok (tt, JObj [(name_of_base BGlobal, JObj [(name_of_sub SConst, JObj []);
                                               (name_of_sub SSlices, JObj [([107]%N, JArr (map JInt [1; 2; 3; 4; 1; 2; 3; 4]%Z))])]);
                  (name_of_base BVector, JObj [(name_of_sub SSamples, JObj []); (name_of_sub SSlices, JObj [])])]) /\
  insert_slice_k jv_eqb JNull exi_hs exi_ho (Some (VSlices, map JInt [1; 2]%Z)) (Some (VSlices, map JInt [3; 4]%Z))
  = Ok (Some (GSlices, map JInt [1; 2; 3; 4; 1; 2; 3; 4]%Z)) /\
  class_valid exi_hs VSlices = true /\ kst_storable exi_hs (Some (VSlices, map JInt [1; 2]%Z)) /\
  prod_list (skipn 3 (shape exi_hs)) <> 0 /\
  (* a constant that differs becomes per-slice in the first base dictionary that exists *)
  insert_slice_k jv_eqb JNull exi_hs exi_ho (Some (GConst, [JInt 5])) (Some (GConst, [JInt 6]))
  = Ok (Some (VSlices, map JInt [5; 5; 6; 6]%Z)).
Proof.
  split; [vm_compute; reflexivity|]. split; [vm_compute; reflexivity|]. split; [reflexivity|].
  split; [vm_compute; discriminate|]. split; [vm_compute; discriminate | vm_compute; reflexivity].
Qed.

(** * _insert_non_slice(key, other): the key is kept when both instances agree on it and dropped otherwise *)
Theorem SRC_insert_non_slice : forall (o oo : list (str * jv)) (hs ho : hdr) (f fo : key -> kst jv) (k : key) (c : cls) (lv : list jv),
  Holds o hs f -> Holds oo ho fo -> ndim_ok hs = true -> bases_ok hs -> ndim_ok ho = true -> bases_ok ho ->
  kst_storable ho (fo k) ->
  f k = Some (c, lv) -> class_valid hs c = true -> kst_storable hs (f k) ->
  match insert_non_slice_k jv_eqb JNull hs ho (f k) (fo k) with
  | Ok s' => exists o', insert_non_slice_st classifications (shape hs) (sdim hs) (JObj o) k
                                            classifications (shape ho) (n_slices ho) preserving_changes (JObj oo) = Ok (tt, JObj o') /\
                        Holds o' hs (upd f k s')
  | Err e => insert_non_slice_st classifications (shape hs) (sdim hs) (JObj o) k
                                 classifications (shape ho) (n_slices ho) preserving_changes (JObj oo) = Err e
  end.
Proof. exact insert_non_slice_st_ref. Qed.

(** * _insert_sample(key, other, sample_base), sample_base = 'time' or 'vector' ([sc] = its samples class): all paths - a
    constant that differs becomes per-sample, per-sample values are appended, everything else goes through
    ('global','slices'), interleaved per vector component when a time point is added to a 5-D instance *)
Theorem SRC_insert_sample : forall (o oo : list (str * jv)) (hs ho : hdr) (f fo : key -> kst jv) (k : key) (c : cls) (lv : list jv)
    (sb : cbase) (sc : cls),
  Holds o hs f -> Holds oo ho fo -> ndim_ok hs = true -> bases_ok hs -> ndim_ok ho = true -> bases_ok ho ->
  kst_storable ho (fo k) -> samples_of_base sb = Some sc ->
  f k = Some (c, lv) -> class_valid hs c = true -> kst_storable hs (f k) ->
  match insert_sample_k jv_eqb JNull hs ho (f k) (fo k) sb with
  | Ok s' => exists o', insert_sample_st classifications (shape hs) (sdim hs) (n_slices hs) preserving_changes (JObj o) k
                                         classifications (shape ho) (n_slices ho) preserving_changes (JObj oo) (name_of_base sb)
                        = Ok (tt, JObj o') /\ Holds o' hs (upd f k s')
  | Err e => insert_sample_st classifications (shape hs) (sdim hs) (n_slices hs) preserving_changes (JObj o) k
                              classifications (shape ho) (n_slices ho) preserving_changes (JObj oo) (name_of_base sb) = Err e
  end.
Proof. exact insert_sample_st_all. Qed.

(** non-vacuity: a 2 x 2 (time x vector) instance receives a time point of a 1 x 2 instance; a per-vector key goes through
    ('global','slices') and is interleaved per vector component; the same key under _insert_non_slice is dropped *)
Definition exs_h5 : hdr := mk_hdr [2; 2; 2; 2; 2] (Some 2) [] true true.
Definition exs_h5o : hdr := mk_hdr [2; 2; 2; 1; 2] (Some 2) [] false true.
Definition exs_c5 (time : bool) (vals : list Z) : list (str * jv) :=
  [(name_of_base BGlobal, JObj [(name_of_sub SConst, JObj []); (name_of_sub SSlices, JObj [])])]
  ++ (if time then [(name_of_base BTime, JObj [(name_of_sub SSamples, JObj []); (name_of_sub SSlices, JObj [])])] else [])
  ++ [(name_of_base BVector, JObj [(name_of_sub SSamples, JObj [([107]%N, JArr (map JInt vals))]); (name_of_sub SSlices, JObj [])])].

Example SRC_insert_sample_example :
  insert_sample_k jv_eqb JNull exs_h5 exs_h5o (Some (VSamples, map JInt [1; 2]%Z)) (Some (VSamples, map JInt [3; 4]%Z)) BTime
  = Ok (Some (GSlices, map JInt [1; 1; 1; 1; 3; 3; 2; 2; 2; 2; 4; 4]%Z)) /\
  (exists st, insert_sample_st classifications (shape exs_h5) (sdim exs_h5) (n_slices exs_h5) preserving_changes
                               (JObj (exs_c5 true [1; 2]%Z)) [107]%N
                               classifications (shape exs_h5o) (n_slices exs_h5o) preserving_changes (JObj (exs_c5 false [3; 4]%Z))
                               (name_of_base BTime) = Ok (tt, st) /\
              get_class_dict_st st (name_of_cls GSlices)
              = Ok (JObj [([107]%N, JArr (map JInt [1; 1; 1; 1; 3; 3; 2; 2; 2; 2; 4; 4]%Z))])) /\
  insert_non_slice_k jv_eqb JNull exs_h5 exs_h5o (Some (VSamples, map JInt [1; 2]%Z)) (Some (VSamples, map JInt [3; 4]%Z)) = Ok None /\
  (exists st, insert_non_slice_st classifications (shape exs_h5) (sdim exs_h5) (JObj (exs_c5 true [1; 2]%Z)) [107]%N
                                  classifications (shape exs_h5o) (n_slices exs_h5o) preserving_changes (JObj (exs_c5 false [3; 4]%Z))
              = Ok (tt, st) /\ get_class_dict_st st (name_of_cls VSamples) = Ok (JObj [])) /\
  class_valid exs_h5 VSamples = true /\ kst_storable exs_h5 (Some (VSamples, map JInt [1; 2]%Z)) /\
  samples_of_base BTime = Some TSamples.
Proof.
  split; [vm_compute; reflexivity|]. split; [eexists; split; vm_compute; reflexivity|].
  split; [vm_compute; reflexivity|]. split; [eexists; split; vm_compute; reflexivity|].
  split; [reflexivity|]. split; [vm_compute; discriminate | reflexivity].
Qed.
