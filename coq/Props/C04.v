(** C04 Split is restriction (extension level). *)
From Coq Require Import List Bool Arith NArith ZArith QArith.
From DV Require Import Common.Res Common.Jv Ext.Types Ext.Seq Ext.Model Ext.Spec Ext.ProofsSubset.
Import ListNotations.
Local Open Scope nat_scope.

Theorem C04_subset_shape :
  forall (V : Type) (veqb : V -> V -> bool) (vnone : V) (e r : ext V) (dim idx : nat),
    get_subset veqb vnone e dim idx = Ok r ->
    exists sh, set_nth dim 1 (shape (hdr_of e)) = Some sh /\
               shape (hdr_of r) = trim_ones sh /\ sdim (hdr_of r) = sdim (hdr_of e) /\ aff (hdr_of r) = aff (hdr_of e).
Proof. exact @subset_shape_law. Qed.

Example C04_subset_shape_nonvacuous :
  exists r, get_subset jv_eqb JNull
              (mk_ext (mk_hdr [2; 2; 3; 2] (Some 2) [[1;0;0;0];[0;1;0;0];[0;0;1;0];[0;0;0;1]]%Q true false)
                      [([107]%N, (GSlices, [JInt 1; JInt 2; JInt 3; JInt 4; JInt 5; JInt 6]))]) 3 1 = Ok r
            /\ shape (hdr_of r) = [2; 2; 3].
Proof. eexists. split; vm_compute; reflexivity. Qed.
