(** C04 Split is restriction (extension level: DcmMetaExtension.get_subset).
    Model: Ext/Model.v [get_subset]; spec: Ext/Spec.v [den], [valid]; region of the open finding N2 is excluded
    by the boolean hypothesis [no_trailing1] and shown to fail by [C04_subset_trailing1_refuted]. *)
From Coq Require Import List Bool Arith NArith ZArith QArith Lia.
From DV Require Import Common.Res Common.Str Common.Jv Ext.Types Ext.Seq Ext.Model Ext.Spec Ext.ValidFacts Ext.ProofsSubset
     Ext.Split Ext.ProofsSplit.
Import ListNotations.
Local Open Scope nat_scope.

(** result header: shape = trim (set dim 1 shape), slice dim and affine unchanged *)
Theorem C04_subset_shape :
  forall (V : Type) (veqb : V -> V -> bool) (vnone : V) (e r : ext V) (dim idx : nat),
    get_subset veqb vnone e dim idx = Ok r ->
    exists sh, set_nth dim 1 (shape (hdr_of e)) = Some sh /\
               shape (hdr_of r) = trim_ones sh /\ sdim (hdr_of r) = sdim (hdr_of e) /\ aff (hdr_of r) = aff (hdr_of e).
Proof. exact @subset_shape_law. Qed.

(** the piece's lookup at any remaining coordinate = the parent's lookup with the split axis fixed to [idx];
    for a non-slice spatial [dim] ([axis_of = AxNone]) the metadata is unchanged.  Canonical or not. *)
Theorem C04_subset_den :
  forall (V : Type) (veqb : V -> V -> bool) (vnone : V),
    (forall a b, reflect (a = b) (veqb a b)) ->
    forall (e r : ext V) (dim idx : nat),
      valid e -> no_trailing1 (shape (hdr_of e)) = true ->
      dim < ndim (hdr_of e) -> idx < nth dim (shape (hdr_of e)) 0 ->
      get_subset veqb vnone e dim idx = Ok r ->
      forall k p, in_dims (dims (hdr_of r)) p ->
        den vnone r k p = den vnone e k (set_axis (axis_of (hdr_of e) dim) idx p).
Proof. intros V veqb vnone Hspec e r dim idx. exact (subset_den veqb vnone Hspec e r dim idx). Qed.

(** open finding N2: on a trailing-singleton shape the law fails (the model, like the code, raises KeyError) *)
Definition n2_ext : ext jv :=
  mk_ext (mk_hdr [2; 2; 2; 1] (Some 2) [[1; 0; 0; 0]; [0; 1; 0; 0]; [0; 0; 1; 0]; [0; 0; 0; 1]]%Q true false)
         [([97]%N, (TSlices, [JInt 1; JInt 2]))].
Theorem C04_subset_trailing1_refuted :
  validb n2_ext = true /\ nondegenerateb n2_ext = true /\ no_trailing1 (shape (hdr_of n2_ext)) = false /\
  get_subset jv_eqb JNull n2_ext 0 0 = Err EKey.
Proof. repeat split; vm_compute; reflexivity. Qed.

(** * Non-vacuity *)
Definition ex_aff : list (list Q) := [[2; 0; 0; -8]; [0; 0; 1 # 2; 3]; [0; -1; 0; 0]; [0; 0; 0; 1]]%Q.
Definition ex_ext : ext jv :=
  mk_ext (mk_hdr [2; 2; 2; 3; 2] (Some 1) ex_aff true true)
    [([116]%N, (TSamples, [JInt 10; JInt 11; JInt 12; JInt 13; JInt 14; JInt 15]));
     ([118]%N, (VSamples, [JInt 20; JInt 21]));
     ([115]%N, (TSlices, [JInt 30; JInt 31]));
     ([119]%N, (VSlices, [JInt 40; JInt 41; JInt 42; JInt 43; JInt 44; JInt 45]));
     ([103]%N, (GSlices, map JInt [50; 51; 52; 53; 54; 55; 56; 57; 58; 59; 60; 61]%Z));
     ([99]%N, (GConst, [JStr [97]%N]))].

Example C04_subset_shape_nonvacuous :
  exists r, get_subset jv_eqb JNull ex_ext 3 1 = Ok r /\ shape (hdr_of r) = [2; 2; 2; 1; 2]
            /\ exists r2, get_subset jv_eqb JNull ex_ext 4 1 = Ok r2 /\ shape (hdr_of r2) = [2; 2; 2; 3].
Proof. eexists. split; [vm_compute; reflexivity|]. split; [reflexivity|]. eexists. split; vm_compute; reflexivity. Qed.

(** hypotheses of [C04_subset_den] hold for a concrete 5-D extension with one key per class, for the slice, time
    and vector axes, and the conclusion is the expected table of values *)
Example C04_subset_den_nonvacuous :
  valid ex_ext /\ no_trailing1 (shape (hdr_of ex_ext)) = true /\
  (exists r, get_subset jv_eqb JNull ex_ext 1 1 = Ok r /\
     map (fun k => den JNull r k (0, 2, 1)) [[116]%N; [118]%N; [115]%N; [119]%N; [103]%N; [99]%N]
     = [JInt 15; JInt 21; JInt 31; JInt 45; JInt 61; JStr [97]%N]) /\
  (exists r, get_subset jv_eqb JNull ex_ext 3 2 = Ok r /\
     map (fun k => den JNull r k (1, 0, 1)) [[116]%N; [118]%N; [115]%N; [119]%N; [103]%N]
     = [JInt 15; JInt 21; JInt 31; JInt 45; JInt 61]) /\
  (exists r, get_subset jv_eqb JNull ex_ext 4 1 = Ok r /\
     map (fun k => den JNull r k (1, 2, 0)) [[116]%N; [118]%N; [115]%N; [119]%N; [103]%N]
     = [JInt 15; JInt 21; JInt 31; JInt 45; JInt 61]) /\
  map (fun k => den JNull ex_ext k (1, 2, 1)) [[116]%N; [118]%N; [115]%N; [119]%N; [103]%N]
  = [JInt 15; JInt 21; JInt 31; JInt 45; JInt 61].
Proof.
  split; [apply validb_valid; vm_compute; reflexivity|].
  split; [vm_compute; reflexivity|].
  repeat split; try (eexists; split; vm_compute; reflexivity); vm_compute; reflexivity.
Qed.

(** * Image level: NiftiWrapper.split (model Ext/Split.v) *)

(** exactly as many pieces as the axis is long, in index order; piece [i] is [split_piece .. i] *)
Theorem C04_split_pieces :
  forall (V : Type) (veqb : V -> V -> bool) (vnone : V) (w : wimg) (e : ext V) (dim : option nat)
         (ps : list (wimg * ext V)),
    split veqb vnone w e dim = Ok ps ->
    exists d n, split_dim w dim = Ok d /\ nth_error (wi_shape w) d = Some n /\ length ps = n /\
      forall i dflt, i < n -> split_piece veqb vnone w e d i = Ok (nth i ps dflt).
Proof. exact @split_pieces. Qed.

(** piece [i]: image shape (axis dropped or singular, trailing singular dims trimmed), slice dim_info kept, affine
    [add_trans], data = the [i]-th hyperplane, extension = [get_subset] along the corresponding meta dimension
    (so that [C04_subset_den] gives its lookups) *)
Theorem C04_split_piece :
  forall (V : Type) (veqb : V -> V -> bool) (vnone : V) (w : wimg) (e : ext V) (d i : nat) (wi : wimg) (ri : ext V),
    split_piece veqb vnone w e d i = Ok (wi, ri) ->
    wi_shape wi = piece_shape (wi_shape w) d /\ wi_slice wi = wi_slice w /\
    wi_aff wi = add_trans (wi_aff w) d i /\
    wi_data wi = take_axis (prod_list (firstn d (wi_shape w))) (nth d (wi_shape w) 0)
                           (prod_list (skipn (S d) (wi_shape w))) i (wi_data w) /\
    exists meta_dim,
      (if odim_is (wi_slice w) d then sdim (hdr_of e) = Some meta_dim else meta_dim = d) /\
      get_subset veqb vnone e meta_dim i = Ok ri.
Proof. exact @split_piece_spec. Qed.

(** data: voxel (o, j) of piece [idx] is voxel (o, idx, j) of the parent (o / j = C-order offsets on the axes
    before / after the split axis) *)
Theorem C04_split_data :
  forall (A : Type) (outer n inner idx : nat) (data : list A) (o j : nat) (d : A),
    length data = outer * n * inner -> idx < n -> o < outer -> j < inner ->
    nth (o * inner + j) (take_axis outer n inner idx data) d = nth ((o * n + idx) * inner + j) data d.
Proof. exact @take_axis_nth. Qed.

(** affine: linear part unchanged; for a spatial split voxel 0 of piece [idx] is where voxel [idx] of the parent was *)
Theorem C04_split_affine :
  forall (a : list (list Q)) (dim idx r c : nat),
    length a = 4 -> Forall (fun row => length row = 4) a -> r < 4 -> c < 4 ->
    nth c (nth r (add_trans a dim idx) []) 0%Q =
    if (dim <? 3) && (r <? 3) && (c =? 3)
    then (nth 3 (nth r a []) 0 + inject_Z (Z.of_nat idx) * nth dim (nth r a []) 0)%Q
    else nth c (nth r a []) 0%Q.
Proof. exact add_trans_entry. Qed.

Definition ex_wimg : wimg := mk_wimg [2; 2; 2; 3; 2] (Some 1) ex_aff (map Z.of_nat (seq 0 48)).

Example C04_split_nonvacuous :
  exists ps, split jv_eqb JNull ex_wimg ex_ext (Some 1) = Ok ps /\ length ps = 2 /\
    map (fun p => wi_shape (fst p)) ps = [[2; 1; 2; 3; 2]; [2; 1; 2; 3; 2]] /\
    map (fun p => map (fun r => nth 3 r 0%Q) (wi_aff (fst p))) ps = [[-8; 3; 0; 1]%Q; [-8 + 1 * 0; 3 + 1 * 0; 0 + 1 * -1; 1]%Q] /\
    map (fun p => firstn 4 (wi_data (fst p))) ps = [[0; 1; 2; 3]%Z; [12; 13; 14; 15]%Z] /\
    exists ps4, split jv_eqb JNull ex_wimg ex_ext None = Ok ps4 /\ map (fun p => wi_shape (fst p)) ps4 = [[2; 2; 2; 3]; [2; 2; 2; 3]].
Proof.
  eexists. split; [vm_compute; reflexivity|]. split; [reflexivity|]. split; [reflexivity|].
  split; [vm_compute; reflexivity|]. split; [vm_compute; reflexivity|].
  eexists. split; vm_compute; reflexivity.
Qed.
