(** C04 Split is restriction (extension level: DcmMetaExtension.get_subset).
    Model: Ext/Model.v [get_subset]; spec: Ext/Spec.v [den], [valid]; region of the open finding N2 is excluded
    by the boolean hypothesis [no_trailing1] and shown to fail by [C04_subset_trailing1_refuted]. *)
From Coq Require Import List Bool Arith NArith ZArith QArith Lia.
From DV Require Import Common.Res Common.Str Common.Jv Ext.Types Ext.Seq Ext.Model Ext.Spec Ext.ValidFacts Ext.ProofsSubset.
Import ListNotations.
Local Open Scope nat_scope.

(** result header: shape = trim (set dim 1 shape), slice dim and affine unchanged *)
Theorem C04_subset_shape :
  forall (V : Type) (veqb : V -> V -> bool) (vnone : V) (e r : ext V) (dim idx : nat),
    get_subset veqb vnone e dim idx = Ok r ->
    exists sh, set_nth dim 1 (shape (hdr_of e)) = Some sh /\
               shape (hdr_of r) = trim_ones sh /\ sdim (hdr_of r) = sdim (hdr_of e) /\ aff (hdr_of r) = aff (hdr_of e).
Proof. exact @subset_shape_law. Qed.

(** the piece's lookup at any remaining coordinate = the parent's lookup with the split axis fixed to [idx];
    for a non-slice spatial [dim] ([axis_of = AxNone]) the metadata is unchanged.  Canonical or not. *)
Theorem C04_subset_den :
  forall (V : Type) (veqb : V -> V -> bool) (vnone : V),
    (forall a b, reflect (a = b) (veqb a b)) ->
    forall (e r : ext V) (dim idx : nat),
      valid e -> no_trailing1 (shape (hdr_of e)) = true ->
      dim < ndim (hdr_of e) -> idx < nth dim (shape (hdr_of e)) 0 ->
      get_subset veqb vnone e dim idx = Ok r ->
      forall k p, in_dims (dims (hdr_of r)) p ->
        den vnone r k p = den vnone e k (set_axis (axis_of (hdr_of e) dim) idx p).
Proof. intros V veqb vnone Hspec e r dim idx. exact (subset_den veqb vnone Hspec e r dim idx). Qed.

(** open finding N2: on a trailing-singleton shape the law fails (the model, like the code, raises KeyError) *)
Definition n2_ext : ext jv :=
  mk_ext (mk_hdr [2; 2; 2; 1] (Some 2) [[1; 0; 0; 0]; [0; 1; 0; 0]; [0; 0; 1; 0]; [0; 0; 0; 1]]%Q true false)
         [([97]%N, (TSlices, [JInt 1; JInt 2]))].
Theorem C04_subset_trailing1_refuted :
  validb n2_ext = true /\ nondegenerateb n2_ext = true /\ no_trailing1 (shape (hdr_of n2_ext)) = false /\
  get_subset jv_eqb JNull n2_ext 0 0 = Err EKey.
Proof. repeat split; vm_compute; reflexivity. Qed.

(** * Non-vacuity *)
Definition ex_aff : list (list Q) := [[2; 0; 0; -8]; [0; 0; 1 # 2; 3]; [0; -1; 0; 0]; [0; 0; 0; 1]]%Q.
Definition ex_ext : ext jv :=
  mk_ext (mk_hdr [2; 2; 2; 3; 2] (Some 1) ex_aff true true)
    [([116]%N, (TSamples, [JInt 10; JInt 11; JInt 12; JInt 13; JInt 14; JInt 15]));
     ([118]%N, (VSamples, [JInt 20; JInt 21]));
     ([115]%N, (TSlices, [JInt 30; JInt 31]));
     ([119]%N, (VSlices, [JInt 40; JInt 41; JInt 42; JInt 43; JInt 44; JInt 45]));
     ([103]%N, (GSlices, map JInt [50; 51; 52; 53; 54; 55; 56; 57; 58; 59; 60; 61]%Z));
     ([99]%N, (GConst, [JStr [97]%N]))].

Example C04_subset_shape_nonvacuous :
  exists r, get_subset jv_eqb JNull ex_ext 3 1 = Ok r /\ shape (hdr_of r) = [2; 2; 2; 1; 2]
            /\ exists r2, get_subset jv_eqb JNull ex_ext 4 1 = Ok r2 /\ shape (hdr_of r2) = [2; 2; 2; 3].
Proof. eexists. split; [vm_compute; reflexivity|]. split; [reflexivity|]. eexists. split; vm_compute; reflexivity. Qed.

(** hypotheses of [C04_subset_den] hold for a concrete 5-D extension with one key per class, for the slice, time
    and vector axes, and the conclusion is the expected table of values *)
Example C04_subset_den_nonvacuous :
  valid ex_ext /\ no_trailing1 (shape (hdr_of ex_ext)) = true /\
  (exists r, get_subset jv_eqb JNull ex_ext 1 1 = Ok r /\
     map (fun k => den JNull r k (0, 2, 1)) [[116]%N; [118]%N; [115]%N; [119]%N; [103]%N; [99]%N]
     = [JInt 15; JInt 21; JInt 31; JInt 45; JInt 61; JStr [97]%N]) /\
  (exists r, get_subset jv_eqb JNull ex_ext 3 2 = Ok r /\
     map (fun k => den JNull r k (1, 0, 1)) [[116]%N; [118]%N; [115]%N; [119]%N; [103]%N]
     = [JInt 15; JInt 21; JInt 31; JInt 45; JInt 61]) /\
  (exists r, get_subset jv_eqb JNull ex_ext 4 1 = Ok r /\
     map (fun k => den JNull r k (1, 2, 0)) [[116]%N; [118]%N; [115]%N; [119]%N; [103]%N]
     = [JInt 15; JInt 21; JInt 31; JInt 45; JInt 61]) /\
  map (fun k => den JNull ex_ext k (1, 2, 1)) [[116]%N; [118]%N; [115]%N; [119]%N; [103]%N]
  = [JInt 15; JInt 21; JInt 31; JInt 45; JInt 61].
Proof.
  split; [apply validb_valid; vm_compute; reflexivity|].
  split; [vm_compute; reflexivity|].
  repeat split; try (eexists; split; vm_compute; reflexivity); vm_compute; reflexivity.
Qed.
