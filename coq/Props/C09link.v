(** C09 (link)  "Writing an extension and reading it back yields an equal extension."

    Props/C09.v proves the JSON codec and states the structure layer (to_json / from_json / from_runtime_repr /
    file round trip) for an ARBITRARY validity check.  Here the check is the real one, [Content.Model.check_valid]
    (C10), and the content is the content of an extension of the working model ([Link.Abs.to_content], C07):
    a valid extension is written, read back to the same content, and that content abstracts ([of_content]) to the
    extension we started from (as an unordered map: [ext_equiv]).  The reorientation transform of a conversion with a
    voxel order is not a field of the working model; it is carried beside the extension ([reo], universally quantified:
    [to_content_r qtok reo e], [None] = null) and read back by [reo_of_content].
    [qtok] / [tokq] (universally quantified) render / read the float tokens of the affine; hypotheses about them are
    stated for the affine at hand ([aff_toks_ok]: lexically valid floats; [aff_rt]: reading a rendered entry gives it back). *)
From Coq Require Import List Bool Arith NArith ZArith QArith Lia.
From DV Require Import Common.Res Common.Str Common.Jv.
From DV Require Import Ext.Types Ext.Classes Ext.Seq Ext.Model Ext.Spec.
From DV Require Import Link.Abs Link.ProofsOps Link.ProofsTop Link.ProofsTok Link.Examples.
Import ListNotations.
Local Open Scope nat_scope.

(** C09_from_to with the real check: what to_json writes, from_json reads back *)
Theorem C09_from_to_content :
  forall (c : jv) (s : str),
    JM.wf c -> JM.to_json CM.check_valid c = Ok s -> JM.from_json CM.check_valid s = Ok c.
Proof. exact from_to_content. Qed.

Example C09_from_to_content_nonvacuous :
  JM.wf (to_content qtok_dec lx5) /\
  JM.to_json CM.check_valid (to_content qtok_dec lx5) = Ok (JM.print (to_content qtok_dec lx5)) /\
  JM.from_json CM.check_valid (JM.print (to_content qtok_dec lx5)) = Ok (to_content qtok_dec lx5) /\
  JM.to_json CM.check_valid (to_content qtok_dec lx_stale) = Ok (JM.print (to_content qtok_dec lx_stale)) /\
  JM.to_json CM.check_valid (JObj []) = Err EKey.
Proof. repeat split; vm_compute; reflexivity. Qed.

(** C09_constructors_agree with the real check: the three ways of making an extension from a content (JSON text,
    runtime dictionary, NIfTI file) accept and reject together and give the same content *)
Theorem C09_constructors_agree_content :
  forall (store : str -> option str),
    (forall b, store b = Some b) ->
    forall c, JM.wf c ->
      JM.from_json CM.check_valid (JM.print c) = JM.from_runtime_repr CM.check_valid c /\
      JM.save_load CM.check_valid store c = JM.from_runtime_repr CM.check_valid c.
Proof. exact constructors_agree_content. Qed.

Example C09_constructors_agree_content_nonvacuous :
  JM.wf (to_content qtok_dec lx4) /\
  JM.from_runtime_repr CM.check_valid (to_content qtok_dec lx4) = Ok (to_content qtok_dec lx4) /\
  JM.save_load CM.check_valid (fun b => Some b) (to_content qtok_dec lx4) = Ok (to_content qtok_dec lx4) /\
  (* without its 'time' dictionaries the (2,2,3,1) content is refused by all three *)
  JM.from_runtime_repr CM.check_valid (to_content qtok_dec (mk_ext (mk_hdr [2; 2; 3; 1] (Some 2) lx_aff false false) [])) = Err EInvalidExt /\
  JM.save_load CM.check_valid (fun b => Some b) (to_content qtok_dec (mk_ext (mk_hdr [2; 2; 3; 1] (Some 2) lx_aff false false) [])) = Err EInvalidExt.
Proof. repeat split; vm_compute; reflexivity. Qed.

(** the two models of DcmMetaExtension.from_json / from_runtime_repr (C10's with json.loads as a parameter, C09's with
    the check as a parameter) are the same functions *)
Theorem C09_from_json_models_agree :
  (forall s, CM.from_json parse_res s = JM.from_json CM.check_valid s) /\
  (forall c, CM.from_runtime_repr c = JM.from_runtime_repr CM.check_valid c).
Proof. exact (conj from_json_models_agree from_runtime_repr_models_agree). Qed.

Example C09_from_json_models_agree_nonvacuous :
  CM.from_json parse_res (JM.print (to_content qtok_dec lx3)) = Ok (to_content qtok_dec lx3) /\
  CM.from_json parse_res [123]%N = Err EValue /\ JM.from_json CM.check_valid [123; 125]%N = Err EKey.
Proof. repeat split; vm_compute; reflexivity. Qed.

(** the round trip of an EXTENSION: valid, keys / values / affine tokens JSON well formed.  to_json succeeds; from_json
    of the text, from_runtime_repr of the dictionary and the file round trip (nibabel as the hypothesis on [store], as in
    C09_file_roundtrip_partial) all give back the same content; and that content abstracts to the same extension. *)
Theorem C09_roundtrip_ext :
  forall (qtok : Q -> str) (tokq : str -> option Q) (reo : option (list (list Q))) (store : str -> option str) (e : ext jv),
    (forall b, store b = Some b) ->
    valid e -> ext_wf_json e = true -> aff_toks_ok qtok (hdr_of e) = true -> aff_rt qtok tokq (hdr_of e) ->
    reo_toks_ok qtok reo = true -> reo_rt qtok tokq reo ->
    JM.to_json CM.check_valid (to_content_r qtok reo e) = Ok (JM.print (to_content_r qtok reo e)) /\
    JM.from_json CM.check_valid (JM.print (to_content_r qtok reo e)) = Ok (to_content_r qtok reo e) /\
    JM.from_runtime_repr CM.check_valid (to_content_r qtok reo e) = Ok (to_content_r qtok reo e) /\
    JM.save_load CM.check_valid store (to_content_r qtok reo e) = Ok (to_content_r qtok reo e) /\
    (exists e', of_content tokq (to_content_r qtok reo e) = Some e' /\ ext_equiv e e') /\
    reo_of_content tokq (to_content_r qtok reo e) = Some reo.
Proof. exact roundtrip_ext. Qed.

Example C09_roundtrip_ext_nonvacuous :
  valid lx5 /\ ext_wf_json lx5 = true /\ aff_toks_ok qtok_dec (hdr_of lx5) = true /\ aff_rt qtok_dec tokq_dec (hdr_of lx5) /\
  reo_toks_ok qtok_dec lx_reo = true /\ reo_rt qtok_dec tokq_dec lx_reo /\
  match of_content tokq_dec (to_content_r qtok_dec lx_reo lx5) with
  | Some e' => hdr_of e' = hdr_of lx5 /\ map fst (entries e') = [kc; kg; kt; ks; kv; kw] /\
               lookup_e e' kw = lookup_e lx5 kw
  | None => False
  end /\
  reo_of_content tokq_dec (to_content_r qtok_dec lx_reo lx5) = Some lx_reo /\
  JM.from_json CM.check_valid (JM.print (to_content_r qtok_dec lx_reo lx5)) = Ok (to_content_r qtok_dec lx_reo lx5).
Proof.
  split; [apply lx5_ok|]. split; [vm_compute; reflexivity|]. split; [vm_compute; reflexivity|].
  split; [apply lx_aff_rt|]. split; [vm_compute; reflexivity|].
  split; [repeat constructor|]. split; [vm_compute; repeat split; reflexivity|]. split; vm_compute; reflexivity.
Qed.

(** the executable rendering of affine entries, [qtok_dec] (exact decimal expansion: sign, integer part, '.', at least one
    digit), yields a float lexeme of the JSON grammar for EVERY rational: with [qtok := qtok_dec] the hypothesis
    [aff_toks_ok] of the theorems above holds for every header *)
Theorem C09_qtok_dec_float :
  (forall q : Q, JM.float_tok (qtok_dec q) = true) /\ (forall h : hdr, aff_toks_ok qtok_dec h = true).
Proof. exact (conj qtok_dec_float_tok aff_toks_ok_dec). Qed.

Example C09_qtok_dec_float_nonvacuous :
  map qtok_dec [0; 1 # 2; -8; 21 # 2; 1 # 1024; -3 # 4]%Q =
  [[48; 46; 48]; [48; 46; 53]; [45; 56; 46; 48]; [49; 48; 46; 53];
   [48; 46; 48; 48; 48; 57; 55; 54; 53; 54; 50; 53]; [45; 48; 46; 55; 53]]%N /\
  map tokq_dec (map qtok_dec [0; 1 # 2; -8; 21 # 2; 1 # 1024; -3 # 4]%Q) =
  [Some 0; Some (1 # 2); Some (-8 # 1); Some (21 # 2); Some (1 # 1024); Some (-3 # 4)]%Q /\
  JM.float_tok [49; 48]%N = false.
Proof. repeat split; vm_compute; reflexivity. Qed.
