(** C14 (conversion level) The metadata filter removes exactly the keys it is told to, nothing else.
    Model: Conv/Meta.v ([conv_meta], [filter_meta]); filter semantics: Filter/Model.v, Filter/Proofs.v (Props/C14.v);
    hypotheses as in Props/C01.v. *)
From Coq Require Import List Bool Arith NArith ZArith QArith.
From DV Require Import Common.Res Common.Str Common.Jv Ext.Types Ext.Seq Ext.Model Ext.Spec
     Filter.Model Filter.Proofs Generated.T_filter
     Conv.Meta Conv.ProofsMetaBase Conv.ProofsMetaEmbed Conv.ProofsMetaStack Conv.ProofsMetaTop Conv.ProofsMetaEx.
From DV Require Stack.Model Stack.Spec Stack.ProofsInv.
Import ListNotations.
Local Open Scope nat_scope.

(** [filter_meta] on ANY valid extension -- whatever its shape, incl. (x,y,z,1,n) which has 'vector' but no 'time'
    classes -- never raises, keeps the header, and removes exactly the keys for which the filter is true, in every
    classification. *)
Theorem C14_filter_meta_exact :
  forall (V : Type) (filt : key -> bool) (e : ext V),
    valid e ->
    exists e', filter_meta filt e = Ok e' /\ hdr_of e' = hdr_of e /\ valid e' /\
      forall k, lookup_e e' k = if filt k then None else lookup_e e k.
Proof. exact @filter_meta_exact. Qed.

(** keys (to_nifti ... embed) = { k extracted from some file | not filtered }, as sets, modulo keys that are None
    in every file (which may be present or absent): every key of the result was extracted from a file of the stack
    and is not filtered; every unfiltered key that has a value other than None in some file is present; no key
    occurs twice. *)
Theorem C14_keys :
  forall (V : Type) (veqb : V -> V -> bool) (vnone : V), (forall a b, reflect (a = b) (veqb a b)) ->
  forall (ms : list (mfile V)) (st : Stack.Model.state) (vo : Stack.Model.vorder) (perm : list nat)
         (oaff : list (list Q)) (filt : key -> bool),
    Stack.ProofsInv.wf st -> covers ms st -> metas_ok ms -> normals_ok ms -> is_perm3 perm -> aff_ok oaff ->
    forall st' o, Stack.Model.to_nifti st vo true = (st', Ok o) ->
    exists e, conv_meta veqb vnone ms st vo perm oaff filt = (st', Ok e) /\
      NoDup (keys_e e) /\
      (forall k, In k (keys_e e) ->
         filt k = false /\
         exists id m, In id (Stack.Model.o_order o) /\ find_mfile ms id = Ok m /\ In k (map fst (m_meta m))) /\
      (forall id m k x, In id (Stack.Model.o_order o) -> find_mfile ms id = Ok m ->
         meta_assoc k (m_meta m) = Some x -> x <> vnone -> filt k = false -> In k (keys_e e)).
Proof. exact @keys_top. Qed.

(** With the default filter (lists regenerated from the source; substring search): no key containing an exclude
    literal survives unless it contains an include literal -- for every entry, whatever its classification. *)
Theorem C14_default_privacy :
  forall (V : Type) (veqb : V -> V -> bool) (vnone : V), (forall a b, reflect (a = b) (veqb a b)) ->
  forall (ms : list (mfile V)) (st : Stack.Model.state) (vo : Stack.Model.vorder) (perm : list nat)
         (oaff : list (list Q)) st' o,
    Stack.ProofsInv.wf st -> covers ms st -> metas_ok ms -> normals_ok ms -> is_perm3 perm -> aff_ok oaff ->
    Stack.Model.to_nifti st vo true = (st', Ok o) ->
    exists e, conv_meta veqb vnone ms st vo perm oaff default_filter = (st', Ok e) /\
      forall k c vs, In (k, (c, vs)) (entries e) ->
        (exists x, In x default_key_excl_res /\ containsb x k = true) ->
        exists i, In i default_key_incl_res /\ containsb i k = true.
Proof. exact @default_privacy. Qed.

(** * Non-vacuity: the 2 x 2 x 2 example of Props/C01.v with "PatientName" (constant) and "ImagePositionPatient"
    (one value per file) added, default filter: 5 keys survive in 5 different classifications, PatientName is gone *)
Example C14_keys_ex :
  (Stack.ProofsInv.wf ex_st /\ covers ex_ms2 ex_st /\ metas_ok ex_ms2 /\ normals_ok ex_ms2 /\ is_perm3 ex_perm /\ aff_ok ex_oaff) /\
  default_filter k_pn = true /\ default_filter k_ipp = false /\
  exists e, ex_result2 = Ok e /\
    lookup_e e k_pn = None /\ option_map fst (lookup_e e k_ipp) = Some GSlices /\
    map (fun k => option_map fst (lookup_e e k)) ex_keys = [Some TSlices; Some TSamples; Some VSamples; Some GConst] /\
    length (keys_e e) = 5.
Proof.
  split.
  - destruct ex_hyps as [H1 [_ [_ [_ [H5 H6]]]]]. destruct ex_hyps2 as [H2 [H3 H4]].
    exact (conj H1 (conj H2 (conj H3 (conj H4 (conj H5 H6))))).
  - split; [vm_compute; reflexivity|]. split; [vm_compute; reflexivity|]. exact ex_filtered.
Qed.

(** C14_filter_meta_exact on a (2,2,2,1,3) extension: 'vector' classes without 'time' classes *)
Example C14_filter_meta_ex :
  let e := mk_ext (mk_hdr [2; 2; 2; 1; 3] (Some 2) [[1; 0; 0; 0]; [0; 1; 0; 0]; [0; 0; 1; 0]; [0; 0; 0; 1]]%Q false true)
                  [(k_pn, (VSamples, [JInt 1; JInt 2; JInt 3])); (k_ipp, (VSlices, [JInt 1; JInt 2])); (k_const, (GConst, [JInt 7]))] in
  Ext.Model.validb e = true /\
  rmap (@keys_e jv) (filter_meta default_filter e) = Ok [k_ipp; k_const].
Proof. split; vm_compute; reflexivity. Qed.
