(** Source equality, lookups — theorems only.  The hand-written models Ext.Model.meta_valid / get_meta / getitem are
    equal to the definitions TRANSLATED on every run from the current Python source of NiftiWrapper.meta_valid /
    get_meta / __getitem__ (Generated/T_src_lookup.v; translator tools/tables/py2coq.py, primitives Common/PyOps2.v).
    What the methods read from the image and from the extension are parameters of the translation; Ext/SrcEqLookup.v
    ([img_n_slices_of], [img_row3_of], [meta_normal_of], [values_and_class_of], [class_dict_of]) says how the model's
    [img] / [hdr] / [ext] records provide them. *)
From Coq Require Import List Bool Arith NArith ZArith QArith.
From DV Require Import Common.Res Common.Str Common.Jv Common.PyOps2 Generated.T_classes Generated.T_src_lookup
     Ext.Types Ext.Classes Ext.Seq Ext.Model Ext.SrcEqLookup.
Import ListNotations.
Local Open Scope nat_scope.

(** NiftiWrapper.meta_valid(classification), for every image, header and class; it never raises *)
Theorem SRC_meta_valid : forall (im : img) (h : hdr) (c : cls),
  meta_valid_src (ishape im) (shape h) (islice im) (sdim h) (img_n_slices_of im) (n_slices h)
                 (img_row3_of im) (meta_normal_of h) (name_of_cls c) = Ok (meta_valid im h c).
Proof. exact meta_valid_src_eq. Qed.

(** NiftiWrapper.get_meta(key, index, default), for every image, extension, key, index (ints of either sign,
    any length, or None) and default, error cases included.  [vindex] is `values[i]` on a value; the only
    hypothesis ties it to the model's list of values. *)
Theorem SRC_get_meta : forall (V : Type) (vindex : V -> bnd -> res V) (vlist : list V -> V),
  (forall (l : list V) (n : nat), vindex (vlist l) (BPos n) = nth_res l n) ->
  forall (im : img) (e : ext V) (k : key) (index : option (list Z)) (default : V),
  get_meta_src vindex (ishape im) (shape (hdr_of e)) (islice im) (sdim (hdr_of e)) (img_n_slices_of im)
               (n_slices (hdr_of e)) (img_row3_of im) (meta_normal_of (hdr_of e))
               (values_and_class_of vlist e default) k index default
  = get_meta im e k index default.
Proof. exact (fun V vi vl H => @get_meta_src_eq V vi vl H). Qed.

(** NiftiWrapper.__getitem__(key), for every extension and key (KeyError included) *)
Theorem SRC_getitem : forall (V : Type) (e : ext V) (k : key),
  getitem_src (class_dict_of e) k = getitem e k.
Proof. exact (@getitem_src_eq). Qed.

(** non-vacuity: the hypothesis of SRC_get_meta holds for JSON values with array indexing, and the translated
    definitions compute on a 4-D image: key "a" varies over time, key "s" over slices, key "g" is constant *)
Definition ex_aff : list (list Q) := [[1; 0; 0; 0]; [0; 1; 0; 0]; [0; 0; 1; 0]; [0; 0; 0; 1]]%Q.
Definition ex_img : img := mk_img [2; 2; 3; 4] (Some 2) ex_aff.
Definition ex_ext : ext jv :=
  mk_ext (mk_hdr [2; 2; 3; 4] (Some 2) ex_aff true false)
         [([97]%N, (TSamples, [JInt 10; JInt 11; JInt 12; JInt 13]));
          ([115]%N, (TSlices, [JInt 20; JInt 21; JInt 22]));
          ([103]%N, (GConst, [JInt 7]))].
Definition ex_get (k : key) (index : option (list Z)) : res jv :=
  get_meta_src jv_index (ishape ex_img) (shape (hdr_of ex_ext)) (islice ex_img) (sdim (hdr_of ex_ext))
               (img_n_slices_of ex_img) (n_slices (hdr_of ex_ext)) (img_row3_of ex_img) (meta_normal_of (hdr_of ex_ext))
               (values_and_class_of JArr ex_ext JNull) k index JNull.

Example SRC_lookup_example :
  (forall (l : list jv) (n : nat), jv_index (JArr l) (BPos n) = nth_res l n) /\
  ex_get [97]%N (Some [0; 1; 2; 3]%Z) = Ok (JInt 13) /\
  ex_get [115]%N (Some [0; 1; 2; 3]%Z) = Ok (JInt 22) /\
  ex_get [103]%N None = Ok (JInt 7) /\
  ex_get [97]%N None = Ok JNull /\
  ex_get [97]%N (Some [0; 1; 2; 4]%Z) = Err EIndex /\
  ex_get [97]%N (Some [0; 1; (-1); 3]%Z) = Err EIndex /\
  ex_get [120]%N (Some [0; 1; 2; 3]%Z) = Ok JNull /\
  meta_valid_src (ishape ex_img) [2; 2; 3; 5] (islice ex_img) (Some 2) (img_n_slices_of ex_img) (Some 3)
                 (img_row3_of ex_img) [0; 0; 1]%Q (name_of_cls TSamples) = Ok false /\
  getitem_src (class_dict_of ex_ext) [103]%N = Ok (JInt 7) /\
  getitem_src (class_dict_of ex_ext) [97]%N = Err EKey.
Proof. split; [exact jv_index_vlist | vm_compute; repeat split]. Qed.
