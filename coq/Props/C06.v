(** Property C06 — every key is stored at its simplest classification.  Theorems only; proofs in
    Ext/ProofsSimplifySeq.v, ProofsSimplifyLayout.v, ProofsSimplifyCanon.v, ProofsCanonSubset.v,
    ProofsCanonMerge.v (the merge part is built on the C03 layer Ext/ProofsMerge*.v). *)
From Coq Require Import List Bool Arith NArith QArith.
From DV Require Import Common.Res Common.Str Ext.Types Ext.Classes Ext.Seq Ext.Model Ext.Spec
     Ext.ProofsSimplifySeq Ext.ProofsSimplifyLayout Ext.ProofsSimplifyCanon Ext.ProofsCanonSubset
     Ext.ProofsMergeFrame Ext.ProofsMerge Ext.ProofsCanonMerge Ext.ProofsCanonCorollaries Ext.ProofsCanonExamples.
Import ListNotations.
Local Open Scope nat_scope.

(** * 1. The sequence tests are exact (every period, every number of periods, both ValueError cases) *)
Theorem C06_is_constant_spec :
  forall (V : Type) (veqb : V -> V -> bool), (forall a b, reflect (a = b) (veqb a b)) ->
  forall (l : list V) (p : nat) (d : V),
    (p <= 1 -> is_constant veqb l (Some p) = Err EValue) /\
    (2 <= p -> length l mod p <> 0 -> is_constant veqb l (Some p) = Err EValue) /\
    (2 <= p -> length l mod p = 0 ->
       exists b, is_constant veqb l (Some p) = Ok b /\
                 (b = true <-> forall c k, c < length l / p -> k < p -> nth (c * p + k) l d = nth (c * p) l d)).
Proof. exact @is_constant_spec. Qed.

Theorem C06_is_constant_none_spec :
  forall (V : Type) (veqb : V -> V -> bool), (forall a b, reflect (a = b) (veqb a b)) ->
  forall (l : list V) (d : V),
    exists b, is_constant veqb l None = Ok b /\
              (b = true <-> forall i j, i < length l -> j < length l -> nth i l d = nth j l d).
Proof. exact @is_constant_none_spec. Qed.

Theorem C06_is_repeating_spec :
  forall (V : Type) (veqb : V -> V -> bool), (forall a b, reflect (a = b) (veqb a b)) ->
  forall (l : list V) (p : nat) (d : V),
    (p <= 1 \/ length l <= p -> is_repeating veqb l p = Err EValue) /\
    (2 <= p -> p < length l -> length l mod p <> 0 -> is_repeating veqb l p = Err EValue) /\
    (2 <= p -> p < length l -> length l mod p = 0 ->
       exists b, is_repeating veqb l p = Ok b /\ (b = true <-> forall i, i < length l -> nth i l d = nth (i mod p) l d)).
Proof. exact @is_repeating_spec. Qed.

(** non-vacuity ([l_bad] = [1;1;2;2;3;4], [l_rep] = [1;2;1;3;1;2]: three periods, the defect in the last / middle one):
    the hypotheses of each clause hold and the theorem, APPLIED, gives the verdict *)
Example C06_is_constant_spec_example :
  2 <= 2 /\ length l_bad mod 2 = 0 /\ is_constant Nat.eqb l_bad (Some 2) = Ok false /\
  ~ (forall c k, c < length l_bad / 2 -> k < 2 -> nth (c * 2 + k) l_bad 0 = nth (c * 2) l_bad 0) /\
  (length [1; 1; 2] mod 2 <> 0 /\ is_constant Nat.eqb [1; 1; 2] (Some 2) = Err EValue) /\
  (1 <= 1 /\ is_constant Nat.eqb [1; 1] (Some 1) = Err EValue).
Proof. exact ex_is_constant. Qed.

Example C06_is_constant_none_spec_example :
  is_constant Nat.eqb l_bad None = Ok false /\
  ~ (forall i j, i < length l_bad -> j < length l_bad -> nth i l_bad 0 = nth j l_bad 0).
Proof. exact ex_is_constant_none. Qed.

Example C06_is_repeating_spec_example :
  2 <= 2 /\ 2 < length l_rep /\ length l_rep mod 2 = 0 /\ is_repeating Nat.eqb l_rep 2 = Ok false /\
  ~ (forall i, i < length l_rep -> nth i l_rep 0 = nth (i mod 2) l_rep 0) /\
  (length [1; 2] <= 2 /\ is_repeating Nat.eqb [1; 2] 2 = Err EValue) /\
  (length [1; 2; 3] mod 2 <> 0 /\ is_repeating Nat.eqb [1; 2; 3] 2 = Err EValue).
Proof. exact ex_is_repeating. Qed.

(** read through the documented layout: the test [_simplify] runs for a (source, destination) pair of the
    generated tables holds on the stored list iff the destination class can represent the denoted function *)
Theorem C06_test_reads_representable :
  forall (V : Type) (vnone : V) (d : pos) (src dest : cls) (k : tkind) (vs : list V),
    dims_pos d -> test_of d src dest = Some k -> length vs = mult_spec d src ->
    (representable d dest (fun p => nth (cidx d src p) vs vnone) <->
     forall i j, i < length vs -> j < length vs -> krel k i j -> nth i vs vnone = nth j vs vnone).
Proof. exact @test_reads_representable. Qed.

(** S = 2, T = 3, V = 2; [vs_vec] = six 7s then six 8s under ('global','slices'): per-vector constant, not constant *)
Example C06_test_reads_representable_example :
  ProofsSimplifyLayout.dims_pos (2, 3, 2) /\ test_of (2, 3, 2) GSlices VSamples = Some (KConst 6) /\
  length vs_vec = mult_spec (2, 3, 2) GSlices /\
  representable (2, 3, 2) VSamples (fun p => nth (cidx (2, 3, 2) GSlices p) vs_vec 0) /\
  ~ representable (2, 3, 2) GConst (fun p => nth (cidx (2, 3, 2) GSlices p) vs_vec 0).
Proof. exact ex_test_reads. Qed.

(** every entry of [_const_tests] / [_repeat_tests] is one of these tests, with the period the code computes *)
Theorem C06_tables_known :
  (forall c d, In d (dests_of (const_dests c)) -> is_const_tag (kind_tag c d) = true) /\
  (forall c d, In d (dests_of (repeat_dests c)) -> is_repeat_tag (kind_tag c d) = true) /\
  forallb (fun c => ssorted (reach c)) all_classes = true /\
  (forall c, In c (reach GSlices)).
Proof. exact (conj const_dests_known (conj repeat_dests_known (conj reach_sorted reach_gslices_all))). Qed.

Theorem C06_const_period :
  forall (h : hdr) (c d : cls) (per : option nat),
    hdr_wf h -> class_ok (shape h) c = true -> class_ok (shape h) d = true ->
    (is_slices c = true -> sdim h <> None) -> is_const_tag (kind_tag c d) = true ->
    const_period h c d = Ok per ->
    test_of (dims h) c d = Some (match per with None => KAll | Some P => KConst P end).
Proof. exact @const_period_ok. Qed.

Example C06_const_period_example :
  hdr_wf ex_h5 /\ class_ok (shape ex_h5) GSlices = true /\ class_ok (shape ex_h5) VSamples = true /\
  (is_slices GSlices = true -> sdim ex_h5 <> None) /\ is_const_tag (kind_tag GSlices VSamples) = true /\
  const_period ex_h5 GSlices VSamples = Ok (Some 6) /\
  test_of (dims ex_h5) GSlices VSamples = Some (KConst 6).
Proof. exact ex_const_period. Qed.

(** * 2. [_simplify] *)
(** same denotation, well-formed entry, and the class is the first of [_const_tests[c] ++ _repeat_tests[c] ++ [c]]
    (restricted to the existing base dictionaries) that can represent the values *)
Theorem C06_simplify_spec :
  forall (V : Type) (veqb : V -> V -> bool) (vnone : V), (forall a b, reflect (a = b) (veqb a b)) ->
  forall (h : hdr) (c : cls) (vs : list V) (r : kst V),
    hdr_wf h -> hdr_tight h -> entry_ok h c vs -> c <> GConst -> simplify_dom h c ->
    simplify_k veqb vnone h (Some (c, vs)) = Ok r ->
    exists c' vs', r = Some (c', vs') /\ entry_ok h c' vs' /\
      (forall p, in_dims (dims h) p -> fden vnone (dims h) c' vs' p = fden vnone (dims h) c vs p) /\
      pick_spec (reprs vnone h c vs) (reach c) (Some c') /\ (c' = c -> vs' = vs).
Proof. exact @simplify_spec. Qed.

(** ... hence (ORDER of the tables) the class of least preference rank among the classes reachable from [c] *)
Theorem C06_simplify_least :
  forall (V : Type) (veqb : V -> V -> bool) (vnone : V), (forall a b, reflect (a = b) (veqb a b)) ->
  forall (h : hdr) (c : cls) (vs : list V) (c' : cls) (vs' : list V),
    hdr_wf h -> hdr_tight h -> entry_ok h c vs -> c <> GConst -> simplify_dom h c ->
    simplify_k veqb vnone h (Some (c, vs)) = Ok (Some (c', vs')) ->
    In c' (reach c) /\
    forall x, In x (reach c) -> class_ok (shape h) x = true ->
              representable (dims h) x (fden vnone (dims h) c vs) -> pref_rank c' <= pref_rank x.
Proof. exact @simplify_least. Qed.

(** ... and, because a class that is NOT reachable from [c] can represent a function stored in [c] only when a
    reachable class of lower rank can too, THE canonical class, whatever the starting class *)
Theorem C06_simplify_canon :
  forall (V : Type) (veqb : V -> V -> bool) (vnone : V), (forall a b, reflect (a = b) (veqb a b)) ->
  forall (h : hdr) (c : cls) (vs : list V) (c' : cls) (vs' : list V),
    hdr_wf h -> hdr_tight h -> entry_ok h c vs -> c <> GConst -> simplify_dom h c ->
    simplify_k veqb vnone h (Some (c, vs)) = Ok (Some (c', vs')) ->
    entry_ok h c' vs' /\
    (forall p, in_dims (dims h) p -> fden vnone (dims h) c' vs' p = fden vnone (dims h) c vs p) /\
    canon_class (shape h) (dims h) (fden vnone (dims h) c' vs') c'.
Proof. exact @simplify_canon. Qed.

Theorem C06_reach_complete :
  forall (V : Type) (vnone : V) (d : pos) (c : cls) (vs : list V) (x : cls),
    dims_pos d -> representable d x (fden vnone d c vs) ->
    exists y, In y (reach c) /\ pref_rank y <= pref_rank x /\ representable d y (fden vnone d c vs) /\
              (y = x \/ y = c \/ y = GConst).
Proof. exact @reach_complete. Qed.

(** a ('vector','slices') list that is in fact constant: ('vector','samples') represents it, is NOT reachable from
    ('vector','slices'), and a reachable class does at least as well *)
Example C06_reach_complete_example :
  ProofsSimplifyLayout.dims_pos (2, 3, 2) /\ representable (2, 3, 2) VSamples (fden 0 (2, 3, 2) VSlices [5; 5; 5; 5; 5; 5]) /\
  ~ In VSamples (reach VSlices) /\
  exists y, In y (reach VSlices) /\ pref_rank y <= pref_rank VSamples /\
            representable (2, 3, 2) y (fden 0 (2, 3, 2) VSlices [5; 5; 5; 5; 5; 5]) /\
            (y = VSamples \/ y = VSlices \/ y = GConst).
Proof. exact ex_reach_complete. Qed.

(** the one defective pair of the tables, kept out by [simplify_dom]: ('vector','slices') -> ('time','samples')
    keeps T values where T*V are needed (no public operation reaches it) *)
Theorem C06_simplify_vslices_tsamples_refuted :
  exists h c vs c' vs',
    validb (mk_ext h [([107]%N, (c, vs))]) = true /\
    simplify_k Nat.eqb 0 h (Some (c, vs)) = Ok (Some (c', vs')) /\
    length vs' <> mult_spec (dims h) c' /\
    fden 0 (dims h) c' vs' (0, 0, 1) <> fden 0 (dims h) c vs (0, 0, 1).
Proof. exact simplify_vslices_tsamples_refuted. Qed.

(** non-vacuity of C06_simplify_spec / _least / _canon: [ex_h5] = 5-D header, shape (1,1,2,3,2), slice axis 2 (S = 2, T = 3,
    V = 2); all five hypotheses hold for the ('global','slices') entry [vs_vec]; the theorems, APPLIED, give: well-formed
    ('vector','samples') [7;8], same denotation, first representing class of the reach list, least rank, canonical *)
Example C06_simplify_example :
  hdr_wf ex_h5 /\ hdr_tight ex_h5 /\ entry_ok ex_h5 GSlices vs_vec /\ GSlices <> GConst /\ @simplify_dom ex_h5 GSlices /\
  simplify_k Nat.eqb 0 ex_h5 (Some (GSlices, vs_vec)) = Ok (Some (VSamples, [7; 8])) /\
  entry_ok ex_h5 VSamples [7; 8] /\
  (forall p, in_dims (dims ex_h5) p -> fden 0 (dims ex_h5) VSamples [7; 8] p = fden 0 (dims ex_h5) GSlices vs_vec p) /\
  pick_spec (reprs 0 ex_h5 GSlices vs_vec) (reach GSlices) (Some VSamples) /\
  (forall x, In x (reach GSlices) -> class_ok (shape ex_h5) x = true ->
             representable (dims ex_h5) x (fden 0 (dims ex_h5) GSlices vs_vec) -> pref_rank VSamples <= pref_rank x) /\
  canon_class (shape ex_h5) (dims ex_h5) (fden 0 (dims ex_h5) VSamples [7; 8]) VSamples.
Proof. exact ex_simplify. Qed.

(** * 3. Splitting *)
(** [canonical_mod_none e] = valid, and every key at the canonical class of what it denotes *)
Theorem C06_subset_canonical :
  forall (V : Type) (veqb : V -> V -> bool) (vnone : V), (forall a b, reflect (a = b) (veqb a b)) ->
  forall (e r : ext V) (dim idx : nat),
    canonical_mod_none vnone e -> idx < nth dim (shape (hdr_of e)) 0 ->
    get_subset veqb vnone e dim idx = Ok r -> canonical_mod_none vnone r.
Proof. intros V veqb vnone Hs e r dim idx. exact (subset_canonical_mod_none veqb vnone Hs e dim idx r). Qed.

Theorem C06_subset_canonical_from_canonical :
  forall (V : Type) (veqb : V -> V -> bool) (vnone : V), (forall a b, reflect (a = b) (veqb a b)) ->
  forall (e r : ext V) (dim idx : nat),
    canonical vnone e -> valid e -> nondegenerate e -> idx < nth dim (shape (hdr_of e)) 0 ->
    get_subset veqb vnone e dim idx = Ok r ->
    valid r /\ forall k c vs, In (k, (c, vs)) (entries r) ->
                 canon_class (shape (hdr_of r)) (dims (hdr_of r)) (den vnone r k) c.
Proof.
  intros V veqb vnone Hs e r dim idx Hc _ _ Hi H.
  exact (subset_canonical_mod_none veqb vnone Hs e dim idx r (canonical_canonical_mod_none vnone e Hc) Hi H).
Qed.

(** the literal [Spec.canonical] (with "some position is not None") is NOT closed under [get_subset] *)
Theorem C06_subset_canonical_refuted :
  exists (e r : ext nat) dim idx,
    canonical 0 e /\ nondegenerate e /\ idx < nth dim (shape (hdr_of e)) 0 /\
    get_subset Nat.eqb 0 e dim idx = Ok r /\ ~ canonical 0 r.
Proof. exact subset_canonical_refuted. Qed.

(** [ex_e] = shape (1,1,2,2), slice axis 2, k : ('global','slices') [0;1;0;2] (0 plays None); split along time *)
Example C06_subset_example :
  exists r, get_subset Nat.eqb 0 ex_e 3 1 = Ok r /\
            canonical 0 ex_e /\ valid ex_e /\ nondegenerate ex_e /\ canonical_mod_none 0 ex_e /\
            1 < nth 3 (shape (hdr_of ex_e)) 0 /\
            entries r = [(kK, (GSlices, [0; 2]))] /\ canonical_mod_none 0 r.
Proof. exact ex_subset. Qed.

(** * 4. Merging *)
(** slice, time or vector axis: inputs in ANY valid nondegenerate classification *)
Theorem C06_merge_canonical :
  forall (V : Type) (veqb : V -> V -> bool) (vnone : V), (forall a b, reflect (a = b) (veqb a b)) ->
  forall (es : list (ext V)) (e0 : ext V) (rest : list (ext V)) (dim : nat) (a : option (list (list Q)))
         (sd : option nat) (ax : axis) (r : ext V),
    es = e0 :: rest -> 1 <= length rest ->
    (forall e, In e es -> valid e /\ nondegenerate e /\ shape (hdr_of e) = shape (hdr_of e0) /\
                          sdim (hdr_of e) = sdim_res e0 sd) ->
    axis_of (sdim_res e0 sd) dim = Some ax -> (3 <= dim -> sdim_res e0 sd <> None) ->
    from_sequence veqb vnone es dim a sd = Ok r ->
    valid r /\ forall k c vs, In (k, (c, vs)) (entries r) ->
                 canon_class (shape (hdr_of r)) (dims (hdr_of r)) (den vnone r k) c.
Proof. exact @merge_canonical_axis. Qed.

(** non-slice spatial axis: canonical inputs *)
Theorem C06_merge_canonical_nonslice :
  forall (V : Type) (veqb : V -> V -> bool) (vnone : V), (forall a b, reflect (a = b) (veqb a b)) ->
  forall (es : list (ext V)) (e0 : ext V) (rest : list (ext V)) (dim : nat) (a : option (list (list Q)))
         (sd : option nat) (r : ext V),
    es = e0 :: rest -> 1 <= length rest ->
    (forall e, In e es -> canonical_mod_none vnone e /\ shape (hdr_of e) = shape (hdr_of e0) /\
                          sdim (hdr_of e) = sdim_res e0 sd) ->
    dim < 3 -> sdim_res e0 sd <> Some dim ->
    from_sequence veqb vnone es dim a sd = Ok r -> canonical_mod_none vnone r.
Proof. exact @merge_canonical_nonslice. Qed.

(** ... and NOT for widened inputs on that axis (finding N6) *)
Theorem C06_merge_canonical_refuted :
  exists (es : list (ext nat)) dim r,
    (forall e, In e es -> valid e /\ nondegenerate e /\ shape (hdr_of e) = [1; 2; 2; 2] /\ sdim (hdr_of e) = Some 2) /\
    dim < 3 /\ Some 2 <> Some dim /\
    from_sequence Nat.eqb 0 es dim None None = Ok r /\ ~ canonical_mod_none 0 r.
Proof. exact merge_nonslice_widened_refuted. Qed.

(** the step invariant itself *)
Theorem C06_insert_invariant :
  forall (V : Type) (veqb : V -> V -> bool) (vnone : V), (forall a b, reflect (a = b) (veqb a b)) ->
  forall hfull ish dim N ho j ax (ks ko ks' : kst V),
    frame hfull ish dim N -> inp hfull ish ho -> 1 <= j ->
    axis_of (sdim hfull) dim = Some ax -> (3 <= dim -> sdim hfull <> None) ->
    pre_ax vnone ax (with_dim hfull dim j) ks -> ProofsMergeDen.good_k ho ko -> ProofsMergeDen.nondeg_k ho ko ->
    insert_k veqb vnone (with_dim hfull dim j) ho dim ks ko = Ok ks' ->
    inv_post vnone (with_dim hfull dim (S j)) ks'.
Proof. exact @insert_k_inv. Qed.

(** three 3-D sources merged along time: 7, 7 (stored per slice: widened), 8 *)
Example C06_merge_example :
  exists r, from_sequence Nat.eqb 0 ex_m_es 3 None None = Ok r /\
            ex_m_es = ex_m_e0 :: ex_m_rest /\ 1 <= length ex_m_rest /\
            (forall e, In e ex_m_es -> valid e /\ nondegenerate e /\ shape (hdr_of e) = shape (hdr_of ex_m_e0) /\
                                       sdim (hdr_of e) = sdim_res ex_m_e0 None) /\
            axis_of (sdim_res ex_m_e0 None) 3 = Some AxT /\ (3 <= 3 -> sdim_res ex_m_e0 None <> None) /\
            entries r = [(kK, (TSamples, [7; 7; 8]))] /\
            canonical_mod_none 0 r.
Proof. exact ex_merge. Qed.

(** two canonical sources merged along a non-slice spatial axis *)
Example C06_merge_canonical_nonslice_example :
  exists r, from_sequence Nat.eqb 0 [ex_e; ex_e] 0 None None = Ok r /\
            1 <= length [ex_e] /\
            (forall e, In e [ex_e; ex_e] -> canonical_mod_none 0 e /\ shape (hdr_of e) = shape (hdr_of ex_e) /\
                                           sdim (hdr_of e) = sdim_res ex_e None) /\
            0 < 3 /\ sdim_res ex_e None <> Some 0 /\
            entries r = [(kK, (GSlices, [0; 1; 0; 2]))] /\ shape (hdr_of r) = [2; 1; 2; 2] /\ canonical_mod_none 0 r.
Proof. exact ex_merge_nonslice. Qed.

(** one insert inside that time merge ([ex_m_full] = header of the result): constant 7 so far, the next source says 8 *)
Example C06_insert_invariant_example :
  frame ex_m_full [1; 1; 2] 3 3 /\ inp ex_m_full [1; 1; 2] ex_m_h /\ 1 <= 1 /\
  axis_of (sdim ex_m_full) 3 = Some AxT /\ (3 <= 3 -> sdim ex_m_full <> None) /\
  pre_ax 0 AxT (with_dim ex_m_full 3 1) (init_k ex_m_full ex_m_h (Some (GConst, [7]))) /\
  ProofsMergeDen.good_k ex_m_h (Some (GConst, [8])) /\ ProofsMergeDen.nondeg_k ex_m_h (Some (GConst, [8])) /\
  insert_k Nat.eqb 0 (with_dim ex_m_full 3 1) ex_m_h 3 (init_k ex_m_full ex_m_h (Some (GConst, [7]))) (Some (GConst, [8]))
    = Ok (Some (TSamples, [7; 8])) /\
  inv_post 0 (with_dim ex_m_full 3 2) (Some (TSamples, [7; 8])).
Proof. exact ex_insert. Qed.

(** * 5. Corollaries *)
Theorem C06_const_readable :
  forall (V : Type) (vnone : V) (r : ext V) (k : key) (v : V),
    canonical_mod_none vnone r -> v <> vnone ->
    (forall p, in_dims (dims (hdr_of r)) p -> den vnone r k p = v) ->
    lookup_e r k = Some (GConst, [v]) /\ getitem r k = Ok v.
Proof. exact @const_readable. Qed.

(** [ex_c_es]: the same constant 7 stored as global const / per volume / per slice in three 4-D sources, merged along the
    vector axis *)
Example C06_const_readable_example :
  exists r, from_sequence Nat.eqb 0 ex_c_es 4 None None = Ok r /\
            canonical_mod_none 0 r /\ 7 <> 0 /\
            (forall p, in_dims (dims (hdr_of r)) p -> den 0 r kK p = 7) /\
            lookup_e r kK = Some (GConst, [7]) /\ getitem r kK = Ok 7.
Proof. exact ex_const_readable. Qed.

(** in terms of the SOURCES (C03's denotation of the merge): a value identical, and not None, in every source at every
    position is a global constant of the merged extension, readable without an index
    ([den_in] = the source's denotation, without its per-slice classes when its slice normal differs from the result's;
     [trailing1b] excludes the shapes of the open finding N4, as C03 does) *)
Theorem C06_merge_const_readable :
  forall (V : Type) (veqb : V -> V -> bool) (vnone : V), (forall a b, reflect (a = b) (veqb a b)) ->
  forall (es : list (ext V)) (e0 : ext V) (dim : nat) (a : option (list (list Q))) (sd : option nat) (ax : axis)
         (r : ext V) (k : key) (v : V),
    inputs_ok es e0 sd -> (forall x, In x es -> nondegenerate x) ->
    axis_of (out_sdim sd e0) dim = Some ax -> (3 <= dim -> out_sdim sd e0 <> None) ->
    from_sequence veqb vnone es dim a sd = Ok r -> trailing1b (shape (hdr_of r)) = false ->
    v <> vnone ->
    (forall x q, In x es -> in_dims (dims (hdr_of x)) q -> den_in vnone (hdr_of r) x k q = v) ->
    lookup_e r k = Some (GConst, [v]) /\ getitem r k = Ok v.
Proof. exact @merge_const_readable. Qed.

Example C06_merge_const_readable_example :
  exists r, from_sequence Nat.eqb 0 ex_c_es 4 None None = Ok r /\
            inputs_ok ex_c_es ex_c_e0 None /\ (forall x, In x ex_c_es -> nondegenerate x) /\
            axis_of (out_sdim None ex_c_e0) 4 = Some AxV /\ (3 <= 4 -> out_sdim None ex_c_e0 <> None) /\
            trailing1b (shape (hdr_of r)) = false /\ 7 <> 0 /\
            (forall x q, In x ex_c_es -> in_dims (dims (hdr_of x)) q -> den_in 0 (hdr_of r) x kK q = 7) /\
            lookup_e r kK = Some (GConst, [7]) /\ getitem r kK = Ok 7.
Proof. exact ex_merge_const_readable. Qed.

(** "None everywhere" keys: absent, or the global constant None - never in a varying class *)
Theorem C06_none_dropped_partial :
  forall (V : Type) (vnone : V) (r : ext V) (k : key),
    canonical_mod_none vnone r ->
    (forall p, in_dims (dims (hdr_of r)) p -> den vnone r k p = vnone) ->
    lookup_e r k = None \/ lookup_e r k = Some (GConst, [vnone]).
Proof. exact @none_only_const. Qed.

(** the piece of [ex_e] on which the key is None everywhere keeps it, as the global constant None (0 here) *)
Example C06_none_dropped_partial_example :
  exists r, get_subset Nat.eqb 0 ex_e 2 0 = Ok r /\ canonical_mod_none 0 r /\
            (forall p, in_dims (dims (hdr_of r)) p -> den 0 r kK p = 0) /\
            (lookup_e r kK = None \/ lookup_e r kK = Some (GConst, [0])) /\ lookup_e r kK = Some (GConst, [0]).
Proof. exact ex_none. Qed.

Theorem C06_none_dropped_refuted :
  exists (es : list (ext nat)) dim r k,
    (forall e, In e es -> valid e /\ nondegenerate e) /\
    from_sequence Nat.eqb 0 es dim None None = Ok r /\
    (forall p, den 0 r k p = 0) /\ lookup_e r k <> None.
Proof. exact none_dropped_refuted. Qed.

Theorem C06_per_volume :
  forall (V : Type) (vnone : V) (r : ext V) (k : key) (c : cls) (vs : list V),
    canonical_mod_none vnone r -> lookup_e r k = Some (c, vs) ->
    (forall s s' t v, in_dims (dims (hdr_of r)) (s, t, v) -> in_dims (dims (hdr_of r)) (s', t, v) ->
                      den vnone r k (s, t, v) = den vnone r k (s', t, v)) ->
    is_slices c = false /\ length vs = mult_spec (dims (hdr_of r)) c /\
    length vs <= snd (fst (dims (hdr_of r))) * snd (dims (hdr_of r)).
Proof. exact @per_volume. Qed.

(** the time merge above: constant within every volume, different between volumes *)
Example C06_per_volume_example :
  exists r, from_sequence Nat.eqb 0 ex_m_es 3 None None = Ok r /\ canonical_mod_none 0 r /\
            lookup_e r kK = Some (TSamples, [7; 7; 8]) /\
            (forall s s' t v, in_dims (dims (hdr_of r)) (s, t, v) -> in_dims (dims (hdr_of r)) (s', t, v) ->
                              den 0 r kK (s, t, v) = den 0 r kK (s', t, v)) /\
            den 0 r kK (0, 2, 0) = 8 /\ den 0 r kK (1, 0, 0) = 7 /\
            is_slices TSamples = false /\ length [7; 7; 8] = mult_spec (dims (hdr_of r)) TSamples /\
            length [7; 7; 8] <= snd (fst (dims (hdr_of r))) * snd (dims (hdr_of r)).
Proof. exact ex_per_volume. Qed.
