(** C01, end to end: the embedded summary is a lossless encoding of every source file's metadata -- AT THE VOXEL
    INDEX OF THE SOURCE SLICE.

    Model: Conv/Full.v, [conv_full] = the whole of DicomStack.to_nifti(voxel_order, embed_meta) as ONE function of
    (per-file geometry [gs], per-file metadata [ms], stack state, voxel-order string, embed flag, key filter):
    [Conv.Geom.conv_geom] (data array, affine, reorientation, reversal of every volume's files), then
    [Conv.Header.header_of], then the embed block of [Conv.Meta] fed with THE final file order, THE shape of the
    reoriented array, slice_dim = THE permutation[2] and THE affine of the geometry half.  No free permutation /
    voxel-order bit / affine (audit 1, item 2).

    Vocabulary: [gfiles_ok], [file_at], [cell_pos], [cell_idx], [pix_at] (Conv/GeomSpec.v, C02); [apply_aff]
    (Orient/Spec.v); [covers], [metas_ok], [normals_ok] (Conv/ProofsMetaStack.v, C01); [img_matches]
    (Conv/ProofsMetaEmbed.v); [full_img] = the image of the conversion as the lookup model sees it (shape of the
    data array, slice dim_info, affine); [get_meta] = NiftiWrapper.get_meta (Ext/Model.v, C08); [wf] = invariant of
    every stack reachable by a history of operations. *)
From Coq Require Import List Bool Arith ZArith NArith QArith Qcanon.
From DV Require Import Common.Res Common.Str Common.Jv
  Stack.Model Stack.Spec Stack.ProofsShape Stack.ProofsInv
  Orient.Model Orient.Spec Conv.Geom Conv.GeomSpec Conv.Header Conv.ExamplesGeom
  Ext.Types Ext.Model Ext.Spec
  Conv.Meta Conv.ProofsMetaBase Conv.ProofsMetaEmbed Conv.ProofsMetaStack
  Conv.Full Conv.FullProofs Conv.FullLossless Conv.FullFrame Conv.FullEx.
From DV Require Ext.LookupSpec.
Import ListNotations.
Local Open Scope nat_scope.

(** For a stack accepted and converted with embedding ([conv_full ... true ... = Ok]), whose files are described by
    [gs] (pixels, geometry) and [ms] (extracted dictionaries), under C01's domain restriction [normals_ok] (open
    finding N9): the result carries an extension [e]; the image of the conversion matches it ([img_matches]: same
    shape, slice dim_info = slice_dim = permutation[2], same affine); there is an S x T x V grid (S, T, V >= 1; 3-D,
    4-D, 5-D incl. (x,y,z,1,n) and single-slice volumes) in whose cells ALL source files sit; and for every cell
    (s,t,v), its file [g] (with metadata entry [m]) and every pixel (i,j) of it:
      [idx'] is THE output voxel at which C02_values places that pixel (in bounds, mapped by the reported transform to
      the unreordered index (i,j,s,t,v), holding the pixel's value, unique with these properties), and for every key
      [k] the filter keeps, [get_meta] on (image of the conversion, embedded extension) at index [idx'] returns what
      THAT FILE carried ([meta_lookup] = None when it lacked the key)
    -- for every orientation, every voxel-order string or none. *)
Theorem C01_voxel_lossless :
  forall (V : Type) (veqb : V -> V -> bool) (vnone : V), (forall a b, reflect (a = b) (veqb a b)) ->
  forall (gs : list gfile) (ms : list (mfile V)) (st : state) (code : str) (filt : key -> bool) st' go h oe,
    wf st -> gfiles_ok gs st -> covers ms st -> metas_ok ms -> normals_ok ms ->
    conv_full veqb vnone gs ms st code true filt = (st', Ok (go, h, oe)) ->
    exists e S T Vn r c,
      oe = Some e /\ valid e /\ img_matches (full_img go h) e /\
      shape (hdr_of e) = ashape (go_data go) /\ sdim (hdr_of e) = Some (nth 2 (go_perm go) 0) /\
      aff (hdr_of e) = go_aff go /\
      0 < S /\ 0 < T /\ 0 < Vn /\ o_shape (go_nifti go) = grid_shape r c S T Vn /\
      length (go_ord0 go) = Vn * T * S /\
      (forall f, In f (files st) ->
         exists s t v g, s < S /\ t < T /\ v < Vn /\
           file_at gs (go_ord0 go) (cell_pos S T s t v) = Some g /\ g_file g = f) /\
      forall s t v i j, s < S -> t < T -> v < Vn -> i < r -> j < c ->
        exists g m z idx',
          file_at gs (go_ord0 go) (cell_pos S T s t v) = Some g /\ In (g_file g) (files st) /\
          find_mfile ms (f_id (g_file g)) = Ok m /\ m_file m = g_file g /\
          pix_at g i j = Some z /\
          Orient.Model.in_bounds (ashape (go_data go)) idx' = true /\
          apply_aff (go_T go) idx' = Some (cell_idx (length (grid_shape r c S T Vn)) i j s t v) /\
          aget (go_data go) idx' = Some z /\
          (forall idx'', Orient.Model.in_bounds (ashape (go_data go)) idx'' = true ->
             apply_aff (go_T go) idx'' = Some (cell_idx (length (grid_shape r c S T Vn)) i j s t v) -> idx'' = idx') /\
          forall k, filt k = false ->
            Ext.Model.get_meta (full_img go h) e k (Some (map Z.of_nat idx')) vnone = Ok (meta_lookup vnone m k) /\
            den vnone e k (LookupSpec.pos_of (full_img go h) (map Z.of_nat idx')) = meta_lookup vnone m k.
Proof. intros V veqb vnone Hs gs ms st code filt st' go h oe. exact (voxel_lossless veqb vnone Hs gs ms st code filt st' go h oe). Qed.

(** The composed conversion projects onto the three existing models, so C02 ([conv_geom]), C20 ([conv]) and C01 / C14
    ([conv_meta]) apply to it: its data / affine / transform are [conv_geom]'s, its header is [header_of] of them,
    and its extension is [conv_meta] evaluated AT the voxel-order abstraction, permutation and affine the geometry
    half computed; the extension's shape is the shape of the reoriented array. *)
Theorem C01_full_projects :
  forall (V : Type) (veqb : V -> V -> bool) (vnone : V)
         (gs : list gfile) (ms : list (mfile V)) (st : state) (code : str) (em : bool) (filt : key -> bool) st' go h oe,
    wf st -> conv_full veqb vnone gs ms st code em filt = (st', Ok (go, h, oe)) ->
    conv_geom gs st code em = (st', Ok go) /\ conv gs st code em = (st', Ok (go, h)) /\
    (em = false -> oe = None) /\
    (em = true ->
       exists e, oe = Some e /\
         to_nifti st (o_vo (go_nifti go)) true = (st', Ok (go_nifti go)) /\
         conv_meta veqb vnone ms st (o_vo (go_nifti go)) (go_perm go) (go_aff go) filt = (st', Ok e) /\
         is_perm3 (go_perm go) /\ aff_ok (go_aff go) /\
         ashape (go_data go) = permute_shape (go_perm go) (o_shape (go_nifti go)) /\
         h_slice_dim h = nth 2 (go_perm go) 2).
Proof.
  intros V veqb vnone gs ms st code em filt st' go h oe Hwf H.
  split; [exact (proj1 (full_geom veqb vnone _ _ _ _ _ _ _ _ _ _ H))|].
  split; [exact (proj1 (full_conv veqb vnone _ _ _ _ _ _ _ _ _ _ H))|].
  split.
  - intros ->. exact (proj2 (full_conv veqb vnone _ _ _ _ _ _ _ _ _ _ H)).
  - intros ->. exact (full_meta veqb vnone _ _ _ _ _ _ _ _ _ Hwf H).
Qed.

(** The voxel-order abstraction [Stack.Model.to_nifti] is run with (what props/stacklib.wants_flip supplies at run
    time) IS a function of the geometry: [vo_of_flips code asc flips] with [asc] = the sorted files ascend in slice
    position and [flips] = the flips of THIS reorientation; and the files of every volume are reversed exactly when a
    reorientation was requested, there are several files per volume and flips[2] = -1 (the test of line 889, made
    before slice_dim is updated). *)
Theorem C01_full_flip :
  forall (gs : list gfile) (st : state) (code : str) (em : bool) st' go,
    wf st -> conv_geom gs st code em = (st', Ok go) ->
    o_vo (go_nifti go) = vo_of_flips code (ascending (files_info (fst (get_data st)))) (go_flips go) /\
    exists S T Vn r c,
      0 < S /\ 0 < T /\ 0 < Vn /\ o_shape (go_nifti go) = grid_shape r c S T Vn /\
      o_flip (go_nifti go) = negb (is_empty code) && (1 <? S) && flip_bit (go_flips go) /\
      (is_empty code = true -> go_perm go = [0; 1; 2] /\ go_flips go = [1; 1; 1]%Z).
Proof.
  intros gs st code em st' go Hwf H. split.
  - exact (proj2 (proj2 (proj2 (proj2 (proj2 (full_threading gs st code em st' go Hwf H)))))).
  - exact (full_flip gs st code em st' go Hwf H).
Qed.

(** The domain restriction [normals_ok] follows from a condition on the SOURCES: every per-file extension carries the
    single-file NIfTI affine ([file_affine], C02's DicomWrapper contract) of a file, and these files share
    ImageOrientationPatient, PixelSpacing and slice spacing exactly. *)
Theorem C01_normals_from_sources :
  forall (V : Type) (ms : list (mfile V)), shared_frame ms -> normals_ok ms.
Proof. exact @normals_ok_shared_frame. Qed.

(* ----------------------------------------------------------------------------- non-vacuity *)
(** the sagittal 2 x 2 pixels x 2 slices x 2 times x 2 vector components series of Conv/FullEx.v, scrambled add order,
    voxel order "LAS": the slice axis moves to output axis 0 and is flipped *)

Example C01_voxel_lossless_ex :
  (* the hypotheses *)
  (wf fx_st /\ gfiles_ok fx_gs fx_st /\ covers fx_ms fx_st /\ metas_ok fx_ms /\ normals_ok fx_ms) /\
  (exists st', conv_full jv_eqb JNull fx_gs fx_ms fx_st ex_LAS true fx_filt = (st', Ok (fx_go, fx_h, Some fx_e))) /\
  go_perm fx_go = [2; 1; 0] /\ go_flips fx_go = [1; -1; -1]%Z /\ h_slice_dim fx_h = 0 /\
  ashape (go_data fx_go) = [2; 2; 2; 2; 2] /\ o_shape (go_nifti fx_go) = grid_shape 2 2 2 2 2 /\
  (* the sorter puts the file at x = 3 first (slice normal -x): cell (s = 0, t = 1, v = 0) holds file 3 = fx_gf 1 1 0;
     its pixel (1, 0) has value 310 and lands at output voxel (1, 1, 1, 1, 0) (slice axis flipped and moved to axis 0) *)
  file_at fx_gs (go_ord0 fx_go) (cell_pos 2 2 0 1 0) = Some (fx_gf 1 1 0) /\ f_id (g_file (fx_gf 1 1 0)) = 3 /\
  pix_at (fx_gf 1 1 0) 1 0 = Some 310%Z /\
  apply_aff (go_T fx_go) [1; 1; 1; 1; 0] = Some (cell_idx 5 1 0 0 1 0) /\
  aget (go_data fx_go) [1; 1; 1; 1; 0] = Some 310%Z /\
  (* the lookups at that voxel return file 3's values, in five different classifications *)
  map (fun k => Ext.Model.get_meta (full_img fx_go fx_h) fx_e k (Some [1; 1; 1; 1; 0]%Z) JNull) fx_keys
  = [Ok (JInt 101); Ok (JInt 10); Ok (JInt 0); Ok (JStr [120]%N); Ok JNull; Ok (JInt 3)] /\
  map (fun k => meta_lookup JNull (fx_mf 1 1 0) k) fx_keys = [JInt 101; JInt 10; JInt 0; JStr [120]%N; JNull; JInt 3] /\
  map (fun k => option_map fst (lookup_e fx_e k)) fx_keys
  = [Some TSlices; Some TSamples; Some VSamples; Some GConst; Some GConst; Some GSlices] /\
  (* the neighbouring slice of the same volume (output voxel (0, 1, 1, 1, 0)) is file 2 *)
  aget (go_data fx_go) [0; 1; 1; 1; 0] = Some 210%Z /\
  Ext.Model.get_meta (full_img fx_go fx_h) fx_e fk_file (Some [0; 1; 1; 1; 0]%Z) JNull = Ok (JInt 2).
Proof.
  split; [exact (conj fx_wf (conj fx_gfiles_ok (conj fx_covers (conj fx_metas_ok fx_normals_ok))))|].
  split; [eexists; exact fx_conv|].
  repeat split; vm_compute; reflexivity.
Qed.

Example C01_full_projects_ex :
  wf fx_st /\
  (exists st', conv_full jv_eqb JNull fx_gs fx_ms fx_st ex_LAS true fx_filt = (st', Ok (fx_go, fx_h, Some fx_e))) /\
  o_vo (go_nifti fx_go) = Some true /\ go_perm fx_go = [2; 1; 0] /\
  permute_shape (go_perm fx_go) [2; 2; 2; 2; 2] = [2; 2; 2; 2; 2] /\
  (* a non-cubic check of the shape equation on the 2 x 2 x 3 x 2 series of Conv/ExamplesGeom.v *)
  ashape (go_data ex_go) = [3; 2; 2; 2] /\ permute_shape (go_perm ex_go) (o_shape (go_nifti ex_go)) = [3; 2; 2; 2].
Proof.
  split; [exact fx_wf|]. split; [eexists; exact fx_conv|]. repeat split; vm_compute; reflexivity.
Qed.

Example C01_full_flip_ex :
  wf fx_st /\
  (exists st', conv_geom fx_gs fx_st ex_LAS true = (st', Ok fx_go)) /\
  ascending (files_info (fst (get_data fx_st))) = true /\ go_flips fx_go = [1; -1; -1]%Z /\
  flip_bit (go_flips fx_go) = true /\ vo_of_flips ex_LAS true (go_flips fx_go) = Some true /\
  o_flip (go_nifti fx_go) = true /\
  go_ord0 fx_go = [1; 0; 3; 2; 5; 4; 7; 6] /\ o_order (go_nifti fx_go) = [0; 1; 2; 3; 4; 5; 6; 7].
Proof.
  split; [exact fx_wf|].
  split; [eexists; exact (proj1 (full_geom jv_eqb JNull _ _ _ _ _ _ _ _ _ _ fx_conv))|].
  repeat split; vm_compute; reflexivity.
Qed.

Example C01_normals_from_sources_ex : shared_frame fx_ms.
Proof.
  exists (fx_gf 0 0 0). intros m Hm. cbn [fx_ms fx_cells map In fst snd] in Hm.
  repeat (destruct Hm as [<-|Hm]; [eexists; repeat split; reflexivity|]). contradiction.
Qed.
