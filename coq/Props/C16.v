(** Property C16 -- theorems only. (placeholder while the model is validated) *)
From DV Require Import Phoenix.Model Phoenix.Corr.
