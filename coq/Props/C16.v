(** Property C16 -- Siemens ASCCONV protocol text is parsed without losing or altering any value.
    Theorems only (proved in Phoenix/Proofs*.v, Common/PyNumFacts.v), each with a non-vacuity Example.
    Vocabulary (Phoenix/Spec.v): [render_line], [render_val], [good_key], [good_val], [good_str],
    [expect_val], [render_prot], [assign_all], [lookup], [keys], [first_keys]. *)
From Coq Require Import List Bool ZArith NArith QArith.
From DV Require Import Common.Res Common.Str Common.F64 Common.PyNum Common.PyNumFacts
                       Phoenix.Model Phoenix.Spec Phoenix.Proofs Phoenix.ProofsCsa Phoenix.ProofsSound Phoenix.Examples.
Import ListNotations.
Open Scope N_scope.

(** Every rendered assignment  [ws0 key ws1 = ws2 value ws3 [# comment]]  is parsed back to exactly
    (key, value), in both dialects: decimal integers (any Z), 0x-hex integers (any Z), float tokens
    (the result is [py_float tok], the correctly rounded double), strings in which the closing
    delimiter is the first delimiter after the opening one ('#' and '=' allowed).  Blanks are any
    Python whitespace; the comment text is arbitrary. *)
Theorem C16_roundtrip : forall d, dialect d ->
  forall ws0 key ws1 ws2 v ws3 comment,
  all_space ws0 = true -> all_space ws1 = true -> all_space ws2 = true -> all_space ws3 = true ->
  good_key d key = true -> good_val d v = true ->
  parse_line (render_line ws0 key ws1 ws2 (render_val d v) ws3 comment) d
  = Ok (Some (key, expect_val v)).
Proof. exact roundtrip. Qed.

Example C16_roundtrip_str2 :   (* doubled dialect, string with '#', '=' and a lone quote, comment with quotes *)
  parse_line (render_line [32;9] ex_key2 [32] [32;160] (render_val DELIM2 (RStr ex_str1)) [9] (Some ex_comment)) DELIM2
  = Ok (Some (ex_key2, PStr ex_str1)).
Proof. apply (C16_roundtrip DELIM2 (or_introl eq_refl) _ _ _ _ (RStr ex_str1)); reflexivity. Qed.
Example C16_roundtrip_str1 :   (* single dialect *)
  parse_line (render_line [] ex_key2 [] [] (render_val DELIM1 (RStr ex_str2)) [] None) DELIM1
  = Ok (Some (ex_key2, PStr ex_str2)).
Proof. apply (C16_roundtrip DELIM1 (or_intror eq_refl) _ _ _ _ (RStr ex_str2)); reflexivity. Qed.
Example C16_roundtrip_int :
  parse_line (render_line [] ex_key1 [32] [32] (render_val DELIM1 (RInt (-36893488147419103232)%Z)) [32] (Some ex_comment)) DELIM1
  = Ok (Some (ex_key1, PInt (-36893488147419103232)%Z)).
Proof. apply (C16_roundtrip DELIM1 (or_intror eq_refl) _ _ _ _ (RInt _)); reflexivity. Qed.
Example C16_roundtrip_hex :
  parse_line (render_line [] ex_key1 [32] [32] (render_val DELIM2 (RHex 3735928559%Z)) [] None) DELIM2
  = Ok (Some (ex_key1, PInt 3735928559%Z)).
Proof. apply (C16_roundtrip DELIM2 (or_introl eq_refl) _ _ _ _ (RHex _)); reflexivity. Qed.
Example C16_roundtrip_float :
  parse_line (render_line [] ex_key1 [32] [32] (render_val DELIM2 (RFloat ex_flt1)) [32] (Some [])) DELIM2
  = Ok (Some (ex_key1, PFloat (FFin (- (fl (15 # 100000000)))%Q))).
Proof.
  rewrite (C16_roundtrip DELIM2 (or_introl eq_refl) _ _ _ _ (RFloat ex_flt1)); try reflexivity.
Qed.

(** Blank and comment-only lines are ignored. *)
Theorem C16_blank : forall d, dialect d -> forall ws, all_space ws = true ->
  parse_line ws d = Ok None /\ (forall text, parse_line (ws ++ 35%N :: text) d = Ok None).
Proof. exact blank. Qed.

Example C16_blank_ex : parse_line ([32; 9] ++ 35 :: ex_comment) DELIM1 = Ok None.
Proof. apply (C16_blank DELIM1 (or_intror eq_refl) [32;9]%N eq_refl). Qed.

(** CONVERSE of C16_roundtrip -- every accepted line IS a rendering of the pair it returns:
    [line = ws0 k ws1 '=' ws2 tok ws3 [# comment]] with [k] the returned key and [tok] a value text
    that [denotes] the returned value (Spec.denotes: string between the dialect's delimiters, or a
    text accepted by int() / int(,16) / float(), tried in this order).  So a line that is not of this
    form is never turned into a value ("never a wrong value").
    Known looseness, all visible in the statement:
    - the LOOSE hex clause of [denotes]: after int(tok) refused, ANY text int(tok,16) accepts is an
      integer, with or without 0x -- bare hex-digit words (1e5, dead) included; with CPython >= 3.11 a
      decimal token of more than 4300 digits also lands there (the model's [py_int] has no limit);
    - the decimal / float clauses admit every spelling int() / float() accept ('+5', '007', '1_0', '.5');
    - the key is only known to be free of '=' and of outer blanks: it may contain '#' or quote
      characters (Example C16_loose_key below), i.e. lie outside [good_key]. *)
Theorem C16_parse_line_sound : forall d, dialect d -> forall line k v,
  parse_line line d = Ok (Some (k, v)) ->
  exists ws0 ws1 ws2 tok ws3 comment,
    line = render_line ws0 k ws1 ws2 tok ws3 comment
    /\ all_space ws0 = true /\ all_space ws1 = true /\ all_space ws2 = true /\ all_space ws3 = true
    /\ lacks 61 k = true /\ py_strip k = k
    /\ denotes d tok v.
Proof. exact parse_line_sound. Qed.

Example C16_parse_line_sound_ex :      (* instantiated on the accepted line  k = <q>a#b<q> # c *)
  exists ws0 ws1 ws2 tok ws3 comment,
    ex_line_q = render_line ws0 [107] ws1 ws2 tok ws3 comment /\ denotes DELIM1 tok (PStr [97; 35; 98]).
Proof.
  destruct (C16_parse_line_sound DELIM1 (or_intror eq_refl) ex_line_q [107] (PStr [97; 35; 98]) eq_refl)
    as [ws0 [ws1 [ws2 [tok [ws3 [comment [E [_ [_ [_ [_ [_ [_ Hden]]]]]]]]]]]]].
  now exists ws0, ws1, ws2, tok, ws3, comment.
Qed.
Example C16_loose_hex : denotes DELIM2 [49; 101; 53] (PInt 485%Z).          (* 1e5 denotes 485 *)
Proof. cbn. repeat split. right. split; reflexivity. Qed.
Example C16_loose_key :
  parse_line ex_line_loose_key DELIM1 = Ok (Some ([97; 34; 35; 98], PStr [120]))
  /\ good_key DELIM1 [97; 34; 35; 98] = false.
Proof. split; reflexivity. Qed.

(** CONVERSE of C16_blank: only blank and comment-only lines are ignored. *)
Theorem C16_none_sound : forall d line,
  parse_line line d = Ok None ->
  all_space line = true \/ exists ws text, line = ws ++ 35 :: text /\ all_space ws = true.
Proof. exact parse_line_none_sound. Qed.

Example C16_none_sound_ex : exists ws text, ([32; 9] ++ 35 :: ex_comment) = ws ++ 35 :: text /\ all_space ws = true.
Proof.
  destruct (C16_none_sound DELIM1 ([32; 9] ++ 35 :: ex_comment) eq_refl) as [H | H]; [discriminate H | exact H].
Qed.

(** Exact partial inverse on bare value texts: for a good key and a text without '#', quote and
    outer blanks, the rendered line is accepted with value [v] IFF the text denotes [v]
    (for quoted strings the two directions are C16_roundtrip and C16_parse_line_sound). *)
Theorem C16_bare_accepts_iff : forall d, dialect d ->
  forall ws0 key ws1 ws2 tok ws3 comment v,
  all_space ws0 = true -> all_space ws1 = true -> all_space ws2 = true -> all_space ws3 = true ->
  good_key d key = true -> bare_text tok = true ->
  (parse_line (render_line ws0 key ws1 ws2 tok ws3 comment) d = Ok (Some (key, v)) <-> denotes d tok v).
Proof. exact bare_accepts_iff. Qed.

Example C16_bare_accepts_iff_ex :      (* key = +007 # comment   is the integer 7 *)
  parse_line (render_line [] ex_key1 [32] [32] [43; 48; 48; 55] [32] (Some ex_comment)) DELIM2 = Ok (Some (ex_key1, PInt 7%Z)).
Proof.
  apply (C16_bare_accepts_iff DELIM2 (or_introl eq_refl)); try reflexivity.
  cbn. repeat split. now left.
Qed.

(** Malformed lines raise the parse error -- never a wrong value (four explicit shapes; the general
    statement is C16_parse_line_sound above). *)
Theorem C16_malformed : forall d, dialect d ->
  (* no '=' in a line that has something in front of its first '#' *)
  (forall line, lacks 61 line = true -> py_strip (before_hash line) <> [] ->
     parse_line line d = Err EPhoenix)
  /\
  (* unterminated quote: an opening delimiter and no further delimiter anywhere after it *)
  (forall ws0 key ws1 ws2 s,
     all_space ws0 = true -> all_space ws1 = true -> all_space ws2 = true -> good_key d key = true ->
     find_sub d s = None ->
     parse_line (ws0 ++ key ++ ws1 ++ [61%N] ++ ws2 ++ d ++ s) d = Err EPhoenix)
  /\
  (* a well-formed string followed by something that is neither blank nor a comment *)
  (forall ws0 key ws1 ws2 s ws c rest,
     all_space ws0 = true -> all_space ws1 = true -> all_space ws2 = true -> good_key d key = true ->
     good_str d s = true -> all_space ws = true -> py_isspace c = false -> c <> 35%N ->
     parse_line (ws0 ++ key ++ ws1 ++ [61%N] ++ ws2 ++ (d ++ s ++ d) ++ ws ++ c :: rest) d = Err EPhoenix)
  /\
  (* a bare text (possibly empty, possibly with inner blanks: a number followed by junk) that none of
     int(s), int(s,16), float(s) accepts *)
  (forall ws0 key ws1 ws2 tok ws3 comment,
     all_space ws0 = true -> all_space ws1 = true -> all_space ws2 = true -> all_space ws3 = true ->
     good_key d key = true -> bare_text tok = true ->
     is_ok (py_int tok) = false -> is_ok (py_int16 tok) = false -> is_ok (py_float tok) = false ->
     parse_line (render_line ws0 key ws1 ws2 tok ws3 comment) d = Err EPhoenix).
Proof. exact malformed. Qed.

Example C16_malformed_no_equals : parse_line ex_line_noeq DELIM2 = Err EPhoenix.
Proof.
  apply (proj1 (C16_malformed DELIM2 (or_introl eq_refl))); [reflexivity | vm_compute; discriminate].
Qed.
Example C16_malformed_unterminated :     (* key = <q>a # b = c *)
  parse_line (ex_key2 ++ [32] ++ [61] ++ [32] ++ DELIM1 ++ ex_str2) DELIM1 = Err EPhoenix.
Proof.
  apply (proj1 (proj2 (C16_malformed DELIM1 (or_intror eq_refl))) [] ex_key2 [32]%N [32]%N ex_str2); reflexivity.
Qed.
Example C16_malformed_junk :             (* key = <q><q>a # b = c<q><q> x # y *)
  parse_line (ex_key2 ++ [32] ++ [61] ++ [32] ++ (DELIM2 ++ ex_str2 ++ DELIM2) ++ [32] ++ 120 :: ex_junk_rest) DELIM2
  = Err EPhoenix.
Proof.
  apply (proj1 (proj2 (proj2 (C16_malformed DELIM2 (or_introl eq_refl)))) [] ex_key2 [32]%N [32]%N ex_str2 [32]%N 120%N);
    try reflexivity. discriminate.
Qed.
Example C16_malformed_bare :             (* key = --1 # comment ;  key =   (empty value) ;  key = 2500 ms # comment *)
  parse_line (render_line [] ex_key1 [32] [32] ex_bad_tok [32] (Some ex_comment)) DELIM1 = Err EPhoenix
  /\ parse_line (render_line [] ex_key1 [32] [32] [] [32] None) DELIM2 = Err EPhoenix
  /\ parse_line (render_line [] ex_key1 [32] [32] [50; 53; 48; 48; 32; 109; 115] [32] (Some ex_comment)) DELIM2 = Err EPhoenix.
Proof.
  split; [|split].
  - apply (proj2 (proj2 (proj2 (C16_malformed DELIM1 (or_intror eq_refl))))); reflexivity.
  - apply (proj2 (proj2 (proj2 (C16_malformed DELIM2 (or_introl eq_refl))))); reflexivity.
  - apply (proj2 (proj2 (proj2 (C16_malformed DELIM2 (or_introl eq_refl))))); reflexivity.
Qed.

(** The section between the first BEGIN marker and the first END marker is parsed line by line; what
    is in front of / after the markers is ignored; the result is the ordered dict of the assignments
    (last assignment of a key wins, keys in order of first insertion); the first malformed line makes
    the call raise. *)
Theorem C16_prot : forall pkey d, prot_dialect pkey d ->
  forall before hdr lines after,
  lacks 10 hdr = true -> Forall (fun l => lacks 10 l = true) lines ->
  find_sub ASC_BEGIN (render_prot before hdr lines after) = Some (length before) ->
  find_sub ASC_END (render_prot before hdr lines after) = Some (length (prot_head before hdr lines)) ->
  (forall results, Forall2 (fun l r => parse_line l d = Ok r) lines results ->
     let assignments := somes results in
     parse_prot pkey (render_prot before hdr lines after) = Ok (assign_all assignments [])
     /\ (forall k, lookup k (assign_all assignments []) = lookup k (rev assignments))
     /\ keys (assign_all assignments []) = first_keys (map fst assignments) [])
  /\
  (forall good results bad rest e,
     lines = good ++ bad :: rest ->
     Forall2 (fun l r => parse_line l d = Ok r) good results -> parse_line bad d = Err e ->
     parse_prot pkey (render_prot before hdr lines after) = Err e).
Proof. exact prot. Qed.

Example C16_prot_ex :
  parse_prot K_MrPhoenixProtocol (render_prot ex_before ex_hdr ex_lines ex_after)
  = Ok [ (ex_k_ulVersion, PInt 7%Z);                  (* assigned twice: last value, first position *)
         (ex_k_tProtocolName, PStr ex_v_name);
         (ex_k_alTR0, PInt 2500%Z);
         (ex_k_dFlip, PFloat (FFin (fl (775 # 10)%Q))) ].
Proof.
  refine (proj1 (proj1 (C16_prot K_MrPhoenixProtocol DELIM2 (or_introl (conj eq_refl eq_refl))
                   ex_before ex_hdr ex_lines ex_after eq_refl _ eq_refl eq_refl)
            [ Some (ex_k_ulVersion, PInt 21110005%Z); None; Some (ex_k_tProtocolName, PStr ex_v_name); None;
              Some (ex_k_alTR0, PInt 2500%Z); Some (ex_k_ulVersion, PInt 7%Z);
              Some (ex_k_dFlip, PFloat (FFin (fl (775 # 10)%Q))) ] _)).
  - unfold ex_lines. repeat constructor.
  - unfold ex_lines. repeat (constructor; [vm_compute; reflexivity|]). constructor.
Qed.

(** The call site (extract.csa_series_trans_func, after the CSA reader): the element that is parsed is
    MrPhoenixProtocol if present, else MrProtocol, each in its OWN dialect; every assignment of the
    ASCCONV section appears under 'MrPhoenixProtocol.<key>' with its (last) value, the raw element is
    removed, every other key is untouched. *)
Theorem C16_csa_merge : forall src d, prot_dialect src d ->
  forall (cd : csa_dict) before hdr lines after results,
  (src = K_MrProtocol -> cget K_MrPhoenixProtocol cd = None) ->
  cget src cd = Some (CItem (PStr (render_prot before hdr lines after))) ->
  lacks 10 hdr = true -> Forall (fun l => lacks 10 l = true) lines ->
  find_sub ASC_BEGIN (render_prot before hdr lines after) = Some (length before) ->
  find_sub ASC_END (render_prot before hdr lines after) = Some (length (prot_head before hdr lines)) ->
  Forall2 (fun l r => parse_line l d = Ok r) lines results ->
  let parsed := assign_all (somes results) [] in
  exists out, csa_series_merge cd = Ok out
    /\ (forall k v, lookup k parsed = Some v -> cget (PHX_PREFIX ++ k) out = Some (CItem v))
    /\ cget src out = None
    /\ (forall k', k' <> src -> (forall k v, lookup k parsed = Some v -> k' <> PHX_PREFIX ++ k) ->
                   cget k' out = cget k' cd).
Proof. exact csa_merge. Qed.

Example C16_csa_merge_ex :      (* MrProtocol only, single-quote dialect, next to an ordinary tag *)
  csa_series_merge ex_csa_in
  = Ok [ (ex_k_dFlip, CItems [PInt 3%Z; PInt 4%Z]);
         (PHX_PREFIX ++ ex_k_tProtocolName, CItem (PStr ex_v_name));
         (PHX_PREFIX ++ ex_k_alTR0, CItem (PInt 2500%Z)) ].
Proof. vm_compute. reflexivity. Qed.
Example C16_csa_merge_ex_hyps : exists out,
  csa_series_merge ex_csa_in = Ok out
  /\ cget (PHX_PREFIX ++ ex_k_tProtocolName) out = Some (CItem (PStr ex_v_name))
  /\ cget K_MrProtocol out = None.
Proof.
  destruct (C16_csa_merge K_MrProtocol DELIM1 (or_intror (conj eq_refl eq_refl)) ex_csa_in
              ex_before ex_hdr ex_lines1 ex_after
              [Some (ex_k_tProtocolName, PStr ex_v_name); None; Some (ex_k_alTR0, PInt 2500%Z)]
              (fun _ => eq_refl) eq_refl eq_refl) as [out [H1 [H2 [H3 _]]]]; try reflexivity.
  - unfold ex_lines1. repeat constructor.
  - unfold ex_lines1. repeat (constructor; [vm_compute; reflexivity|]). constructor.
  - exists out. repeat split; [exact H1 | apply H2; reflexivity | exact H3].
Qed.

(** A malformed line makes the translator raise; without a protocol element the dict is returned as is. *)
Theorem C16_csa_merge_other : 
  (forall src d, prot_dialect src d -> forall (cd : csa_dict) text e,
     (src = K_MrProtocol -> cget K_MrPhoenixProtocol cd = None) ->
     cget src cd = Some (CItem (PStr text)) -> parse_prot src text = Err e ->
     csa_series_merge cd = Err e)
  /\ (forall cd : csa_dict, cget K_MrPhoenixProtocol cd = None -> cget K_MrProtocol cd = None ->
        csa_series_merge cd = Ok cd).
Proof. split; [exact csa_merge_err | exact csa_merge_none]. Qed.

Example C16_csa_merge_other_ex : csa_series_merge [ (ex_k_dFlip, CItem (PInt 3%Z)) ] = Ok [ (ex_k_dFlip, CItem (PInt 3%Z)) ].
Proof. apply (proj2 C16_csa_merge_other); reflexivity. Qed.

(** [d[k] = v] on the ordered dict. *)
Theorem C16_dict_set : forall k v (dct : dict),
  (forall k', lookup k' (dict_set k v dct) = if str_eqb k' k then Some v else lookup k' dct)
  /\ keys (dict_set k v dct) = (if key_in k (keys dct) then keys dct else keys dct ++ [k]).
Proof. exact dict_set_spec. Qed.

Example C16_dict_set_ex :
  keys (dict_set ex_k_alTR0 (PInt 1%Z) [(ex_k_ulVersion, PInt 7%Z); (ex_k_alTR0, PInt 2500%Z)]) = [ex_k_ulVersion; ex_k_alTR0].
Proof. rewrite (proj2 (C16_dict_set _ _ _)). reflexivity. Qed.

(** int(str(z)) == z for every integer z. *)
Theorem C16_int_dec : forall z, py_int (dec_of_Z z) = Ok z.
Proof. exact int_dec. Qed.

Example C16_int_dec_ex : py_int (dec_of_Z (-18446744073709551617)%Z) = Ok (-18446744073709551617)%Z.
Proof. apply C16_int_dec. Qed.

(** hex(z) is not a decimal integer and int(hex(z), 16) == z for every integer z. *)
Theorem C16_int_hex : forall z, py_int (hex_of_Z z) = Err EValue /\ py_int16 (hex_of_Z z) = Ok z.
Proof. exact int_hex. Qed.

Example C16_int_hex_ex : hex_of_Z (-255)%Z = [45; 48; 120; 102; 102] /\ py_int16 (hex_of_Z (-255)%Z) = Ok (-255)%Z.
Proof. split; [reflexivity | apply C16_int_hex]. Qed.

(** Float literals  [-]digits[.digits][e(+|-)digits]  with a fraction or an exponent (the shape of
    Python's repr) are good float tokens and float() returns the correctly rounded double
    ([dec_to_f64]) of the decimal number they denote. *)
Theorem C16_float_repr : forall neg ip fp ex,
  float_lit_ok ip fp ex = true -> has_frac_or_exp fp ex = true ->
  good_float_tok (float_lit neg ip fp ex) = true
  /\ py_float (float_lit neg ip fp ex) = Ok (float_lit_val neg ip fp ex).
Proof. exact float_repr. Qed.

Example C16_float_repr_ex :      (* -1.5e-07 *)
  float_lit true [49] (Some [53]) (Some (true, [48; 55])) = ex_flt1
  /\ good_float_tok ex_flt1 = true
  /\ py_float ex_flt1 = Ok (dec_to_f64 true 15%Z 2%nat (-8)%Z).
Proof.
  pose proof (C16_float_repr true [49]%N (Some [53]%N) (Some (true, [48; 55]%N)) eq_refl eq_refl) as [H1 H2].
  split; [reflexivity|]. split; [exact H1 | exact H2].
Qed.

(** One-quote dialect: a string is admissible iff it contains no quote character. *)
Theorem C16_str_single_quote : forall s, good_str DELIM1 s = true <-> qfree s = true.
Proof. exact good_str_D1. Qed.

Example C16_str_single_quote_ex : good_str DELIM1 ex_str2 = true /\ good_str DELIM1 ex_str1 = false.
Proof. split; reflexivity. Qed.

(** Doubled dialect: a string is admissible iff it contains no two adjacent quote characters and does
    not end with a quote character (single quote characters inside are fine). *)
Theorem C16_str_double_quote : forall s,
  good_str DELIM2 s = true <-> (find_sub DELIM2 s = None /\ last s 0 <> QUOTE).
Proof. exact good_str_D2. Qed.

Example C16_str_double_quote_ex : good_str DELIM2 ex_str1 = true /\ good_str DELIM2 [97; 34] = false.
Proof. split; reflexivity. Qed.

(** Stated limit of the float domain: a bare token made only of hex digits is read as a hexadecimal
    integer by the int(s, 16) fall-back --  k = 1e5  gives 485, not 100000.0. *)
Theorem C16_bare_1e5_is_hex : forall d, dialect d ->
  parse_line ex_line_1e5 d = Ok (Some ([107%N], PInt 485%Z)).
Proof. intros d [-> | ->]; reflexivity. Qed.

Example C16_bare_1e5_is_hex_ex : dialect DELIM2.
Proof. now left. Qed.
