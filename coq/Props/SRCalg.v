(** Source equality, extension algebra proper — theorems only (stage A: the per-key readers).
    The hand-written per-key model Ext.Model is equal to the definitions TRANSLATED on every run from the current
    Python source of DcmMetaExtension (Generated/T_src_ext.v; translator tools/tables/py2coq.py; primitives
    Common/PyOps2.v, Common/PyOps2Dyn.v).  Stored values are JSON values; a key of class c with values vs is stored as
    [render c vs] (bare for ('global','const'), a JSON list otherwise — the convention of Link/Abs.v). *)
From Coq Require Import List Bool Arith NArith ZArith.
From DV Require Import Common.Res Common.Str Common.Jv Common.PyOps2 Common.PyOps2Dyn Generated.T_classes Generated.T_src_ext
     Ext.Types Ext.Classes Ext.Seq Ext.Model Ext.SrcEqAlg.
Import ListNotations.
Local Open Scope nat_scope.

(** _global_slice_subset(key, sample_base, idx) on a 3..5-D header, for every value list, base and index, errors
    included.  (Outside the hypothesis on [BVector] — sample_base 'vector' on a 3-D header without slice dimension —
    Python raises IndexError at shape[3] where the model says TypeError; the model never calls it there.) *)
Theorem SRC_global_slice_subset : forall (h : hdr) (k : key) (vs : list jv) (sb : cbase) (idx : nat),
  ndim_ok h = true ->
  (sb = BVector -> n_slices h = None -> 4 <= ndim h) ->
  global_slice_subset_src (fun _ => slices_dict_of k vs) classifications (shape h) (n_slices h) k (name_of_base sb) idx
  = rmap JArr (global_slice_subset h vs sb idx).
Proof. exact global_slice_subset_src_eq. Qed.

(** _get_changed_class(key, new_class, slice_dim) on a 3..5-D header, for every per-key state that is storable (a
    constant is one value; a varying class does not have multiplicity 1, where the real code is inconsistent about
    bare values and 1-lists), every target class and slice_dim, errors included *)
Theorem SRC_changed_class : forall (h : hdr) (s : kst jv) (k : key) (new : cls) (sd : option nat),
  ndim_ok h = true -> kst_storable h s ->
  get_changed_class_src (fun _ => values_and_class_of h s) classifications (shape h) (n_slices h) preserving_changes
                        k (name_of_cls new) sd
  = rmap (render new) (changed_class JNull h s new sd).
Proof. exact get_changed_class_src_eq. Qed.

(** non-vacuity *)
Definition ex_h : hdr := mk_hdr [2; 2; 3; 2] (Some 2) [] true false.
Example SRC_alg_example :
  ndim_ok ex_h = true /\
  kst_storable ex_h (Some (TSamples, [JInt 1; JInt 2])) /\ kst_storable ex_h (Some (GConst, [JInt 7])) /\ kst_storable ex_h None /\
  get_changed_class_src (fun _ => values_and_class_of ex_h (Some (TSamples, [JInt 1; JInt 2]))) classifications (shape ex_h)
      (n_slices ex_h) preserving_changes [97]%N (name_of_cls GSlices) None
    = Ok (JArr [JInt 1; JInt 1; JInt 1; JInt 2; JInt 2; JInt 2]) /\
  get_changed_class_src (fun _ => values_and_class_of ex_h (Some (GConst, [JInt 7]))) classifications (shape ex_h)
      (n_slices ex_h) preserving_changes [97]%N (name_of_cls TSlices) None = Ok (JArr [JInt 7; JInt 7; JInt 7]) /\
  get_changed_class_src (fun _ => values_and_class_of ex_h None) classifications (shape ex_h)
      (n_slices ex_h) preserving_changes [97]%N (name_of_cls GConst) None = Ok JNull /\
  get_changed_class_src (fun _ => values_and_class_of ex_h (Some (TSamples, [JInt 1; JInt 2]))) classifications (shape ex_h)
      (n_slices ex_h) preserving_changes [97]%N (name_of_cls TSlices) None = Err EValue /\
  global_slice_subset_src (fun _ => slices_dict_of [97]%N (map JInt [0; 1; 2; 3; 4; 5]%Z)) classifications (shape ex_h)
      (n_slices ex_h) [97]%N (name_of_base BTime) 1 = Ok (JArr (map JInt [3; 4; 5]%Z)).
Proof. vm_compute. repeat split; try discriminate; try (intros H; discriminate H). Qed.
