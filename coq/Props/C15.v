(** C15 -- Extraction maps each DICOM element to one key with a faithfully converted value.
    Model: DV.Extract.Model (MetaExtractor of src/dcmstack/extract.py on abstract datasets; pydicom's dictionary,
    get_text/chardet and the translation functions are inputs).  Vocabulary: DV.Extract.Spec.
    [run (S f) cfg ds = Ok st]: the main loop terminated without exception ([f] bounds the nesting of sequences;
    the result is [finish st], and [extract (S f) cfg ds = Ok (finish st)]). *)
From Coq Require Import Strings.String.
From Coq Require Import List Bool NArith ZArith QArith_base.
From DV Require Import Common.Res Common.Str Common.PyNum Generated.T_extract Extract.Model Extract.ProofsStr Extract.Spec
  Extract.ProofsLoop Extract.ProofsMain Extract.ProofsMore Extract.Decl Extract.ProofsDecl Extract.Examples.
Import ListNotations.
Local Open Scope N_scope.

(** Every element falls in exactly one of the four routing classes (translated / ignored / sequence / plain); the
    class list is computed from the routing data only; the elements of class sequence (non-empty) or plain (value
    not None) are, in order, in one-to-one correspondence with the entries of standard_meta, each under its own key
    and tag. *)
Theorem C15_partition : forall cfg f ds st,
  run (S f) cfg ds = Ok st ->
  (forall pre e post, ds = pre ++ e :: post ->
     exists m, tmap_of cfg (pre ++ [e]) = Ok m /\
               nth (length pre) (kinds_from cfg [] ds) KBlank = kind_of cfg m e /\
               exactly_one (cl_translated m e) (cl_ignored cfg m e) (cl_sequence cfg m e) (cl_plain cfg m e) /\
               (is_blank_str (snd e) = false ->
                match kind_of cfg m e with
                | KBlank => False
                | KTranslated => cl_translated m e
                | KIgnored => cl_ignored cfg m e
                | KSeqEmpty => cl_sequence cfg m e /\ snd e = VSeq []
                | KSequence => cl_sequence cfg m e /\ exists it items, snd e = VSeq (it :: items)
                | KNoValue => cl_plain cfg m e /\ get_elem_value cfg e = Ok VNone
                | KPlain => cl_plain cfg m e /\ get_elem_value cfg e <> Ok VNone
                end)) /\
  length (kinds_from cfg [] ds) = length ds /\
  survivors_from cfg [] ds = map fst (filter (fun p => contributes (snd p)) (combine ds (kinds_from cfg [] ds))) /\
  Forall2 (entry_ok cfg (extract f cfg)) (survivors_from cfg [] ds) (s_std st).
Proof. exact partition. Qed.

Example C15_partition_ex :
  (exists st, run 3 ex_cfg ex_ds = Ok st /\
     map std_tag (s_std st) = [(0x0008, 0x0060); (0x0008, 0x1140); (0x0018, 0x0050); (0x0020, 0x0013); (0x0020, 0x0032)] /\
     map fst (s_tmeta st) = [lit "T1"]) /\
  kinds_from ex_cfg [] ex_ds =
    [KPlain; KBlank; KNoValue; KSequence; KPlain; KPlain; KPlain; KIgnored; KIgnored; KTranslated; KIgnored; KNoValue; KIgnored; KIgnored; KIgnored].
Proof. split; [exact ex_run | exact ex_kinds]. Qed.

(** Nothing an ignore rule matches reaches standard_meta; translator results come only from elements whose tag was
    bound by a Private Creator element with a matching translator; every key of the result is the final key of a
    standard entry or a translator-prefixed key. *)
Theorem C15_never : forall cfg f ds st,
  run (S f) cfg ds = Ok st ->
  (forall x, In x (s_std st) ->
     (exists e, In e ds /\ etag e = std_tag x /\ get_elem_key (fst e) = std_name x) /\
     forall r, In r (c_rules cfg) -> apply_rule r (std_tag x) = false) /\
  (forall tn meta, In (tn, meta) (s_tmeta st) ->
     exists e t, In e ds /\ tn = t_name t /\ t_fun t e = Ok meta /\ bound_by cfg ds (etag e, t)) /\
  (forall k, In k (map fst (finish st)) ->
     (exists x, In x (s_std st) /\ k = final_key (s_std st) x) \/
     (exists tn meta k', In (tn, meta) (s_tmeta st) /\ In k' (map fst meta) /\ k = trans_key tn k')).
Proof. exact never. Qed.

(** With the default rules (as they are in the source now): no pixel data (PixelData, FloatPixelData,
    DoubleFloatPixelData), overlay data, colour table data and no
    private element among the standard entries.  The constants are written out: an edit of a rule breaks this proof. *)
Theorem C15_never_default : forall cfg f ds st,
  c_rules cfg = default_ignore_rules ->
  run (S f) cfg ds = Ok st ->
  forall x, In x (s_std st) ->
    let t := std_tag x in
    ~ (fst t = 0x7fe0 /\ In (snd t) [0x0008; 0x0009; 0x0010]) /\
    ~ (N.land (fst t) 0xff00 = 0x6000 /\ snd t = 0x3000) /\
    ~ (fst t = 0x0028 /\ In (snd t) [0x1201; 0x1202; 0x1203; 0x1221; 0x1222; 0x1223]) /\
    (fst t) mod 2 <> 1.
Proof. exact never_default. Qed.

Example C15_never_ex :
  c_rules ex_cfg = default_ignore_rules /\
  exists st, run 3 ex_cfg ex_ds = Ok st /\
    map std_tag (s_std st) = [(0x0008, 0x0060); (0x0008, 0x1140); (0x0018, 0x0050); (0x0020, 0x0013); (0x0020, 0x0032)] /\
    map fst (s_tmeta st) = [lit "T1"].
Proof. split; [reflexivity | exact ex_run]. Qed.

(** Distinct surviving elements get distinct keys, every surviving element's value is found under its key, no
    translated element is lost, and the result is exactly the standard entries followed by the translator entries --
    under the explicit hypotheses. *)
Theorem C15_injective : forall cfg f ds st,
  run (S f) cfg ds = Ok st ->
  NoDup (map etag ds) ->                  (* tags are unique in a dataset *)
  no_suffix_clash ds = true ->            (* no key equals another element's key + '_' + that element's tag string *)
  no_dot_keys ds = true ->                (* no key contains '.' *)
  trans_names_dot_free cfg = true ->      (* no translator name contains '.' *)
  metas_are_dicts cfg ->                  (* translation functions return dictionaries (distinct keys) *)
  bound_once cfg ds = true ->             (* every translator name is bound to at most one tag (fails: F12) *)
  let r := finish st in
  r = std_part (s_std st) ++ trans_part (s_tmeta st) /\
  NoDup (map fst r) /\
  (forall x, In x (s_std st) -> dget (final_key (s_std st) x) r = Some (std_val x)) /\
  (forall x y, In x (s_std st) -> In y (s_std st) -> final_key (s_std st) x = final_key (s_std st) y -> x = y) /\
  (forall e t x l, In (e, t) (translated_from cfg [] ds) -> t_fun t e = Ok (x :: l) ->
     forall k v, In (k, v) (x :: l) -> dget (trans_key (t_name t) k) r = Some v).
Proof. exact injective. Qed.

Example C15_injective_ex :
  (NoDup (map etag clash_ds) /\ no_suffix_clash clash_ds = true /\ no_dot_keys clash_ds = true /\
   trans_names_dot_free clash_cfg = true /\ metas_are_dicts clash_cfg /\ bound_once clash_cfg clash_ds = true) /\
  extract 2 clash_cfg clash_ds = Ok [
    (lit "Modality_0X8_0X60", VStr CStr (lit "MR"));
    (lit "PrivateCreator", VStr CStr (lit "OTHER"));
    (lit "FooBar_0X29_0X1001", VStr CStr (lit "a"));
    (lit "FooBar_0X29_0X1002", VStr CStr (lit "b"));
    (lit "Modality_0X29_0X1003", VStr CStr (lit "c"))] /\
  (NoDup (map etag ex_ds) /\ no_suffix_clash ex_ds = true /\ no_dot_keys ex_ds = true /\
   trans_names_dot_free ex_cfg = true /\ metas_are_dicts ex_cfg /\ bound_once ex_cfg ex_ds = true).
Proof. split; [exact clash_hyps | split; [exact clash_extract | exact ex_hyps]]. Qed.

(** F12: without "bound once" a translated element is lost although every other hypothesis holds. *)
Theorem C15_injective_refuted_without_hyp :
  exists cfg ds st e t x l k v,
    run 1 cfg ds = Ok st /\
    NoDup (map etag ds) /\ no_suffix_clash ds = true /\ no_dot_keys ds = true /\
    trans_names_dot_free cfg = true /\ metas_are_dicts cfg /\
    bound_once cfg ds = false /\
    In (e, t) (translated_from cfg [] ds) /\ t_fun t e = Ok (x :: l) /\ In (k, v) (x :: l) /\
    dget (trans_key (t_name t) k) (finish st) <> Some v.
Proof. exact f12_refutes. Qed.

Example C15_injective_refuted_ex :
  extract 1 ex_cfg f12_ds = Ok [(lit "T1.Tag", VStr CStr (lit "0X29_0X1101")); (lit "T1.VR", VStr CStr (lit "LO"))].
Proof. exact f12_extract. Qed.

(** Values: a plain entry holds _get_elem_value of its element; a sequence entry holds the list of the extractions
    of its items, in order. *)
Theorem C15_values : forall cfg f ds st,
  run (S f) cfg ds = Ok st ->
  Forall2 (fun e x =>
             std_tag x = etag e /\
             match snd e with
             | VSeq items => exists rs, Forall2 (fun item r => extract f cfg item = Ok r) items rs /\
                                        std_val x = VMulti CList (map VDict rs)
             | _ => get_elem_value cfg e = Ok (std_val x)
             end)
          (survivors_from cfg [] ds) (s_std st).
Proof. exact values. Qed.

Example C15_values_ex : extract 3 ex_cfg ex_ds = Ok ex_result.
Proof. exact ex_extract. Qed.

(** _get_elem_value: conversion by VR, VM > 1 gives the list of converted items in order. *)
Theorem C15_values_conversion : forall cfg,
  (forall i v c, vr_unpackable (e_vr i) && is_py_str v = false -> e_vm i = 1%nat ->
                 dget (e_vr i) (c_convs cfg) = Some c -> v <> VNone ->
                 get_elem_value cfg (i, v) = conv_apply (c_get_text cfg) c v) /\
  (forall i v, vr_unpackable (e_vr i) && is_py_str v = false -> (e_vm i <= 1)%nat ->
               dget (e_vr i) (c_convs cfg) = None -> get_elem_value cfg (i, v) = Ok v) /\
  (forall i cl l, (1 < e_vm i)%nat ->
     (dget (e_vr i) (c_convs cfg) = None -> get_elem_value cfg (i, VMulti cl l) = Ok (VMulti CList l)) /\
     (forall c l', dget (e_vr i) (c_convs cfg) = Some c ->
        get_elem_value cfg (i, VMulti cl l) = Ok (VMulti CList l') <->
        Forall2 (fun a b => conv_apply (c_get_text cfg) c a = Ok b) l l')) /\
  (forall gt c x tok, conv_apply gt CvFloat (VNum c x tok) = Ok (VNum CFloat x tok)) /\
  (forall gt c z, conv_apply gt CvInt (VInt c z) = Ok (VInt CInt z)) /\
  (forall gt c s, conv_apply gt CvStr (VStr c s) = Ok (VStr CStr s)).
Proof. exact values_conversion. Qed.

Example C15_values_conversion_ex :
  get_elem_value ex_cfg (mk_einfo (0x20, 0x32) (lit "DS") 3 (lit "ImagePositionPatient") (lit "Image Position (Patient)") None,
                         VMulti CMulti [F 1 1 "1.0" CDs; F 5 2 "2.5" CDs])
  = Ok (VMulti CList [F 1 1 "1.0" CFloat; F 5 2 "2.5" CFloat]).
Proof. reflexivity. Qed.

(** With the default conversions (as they are in the source now) DS becomes float and IS becomes int, with the VALUE:
    when the element carries the text it was made from ([e_raw], pydicom's original_string) and its value is
    float(text) / int(text) -- a pydicom fact that the correspondence check verifies on every case with
    Common.PyNum.py_float / py_int -- the extracted number is float(text) / int(text). *)
Theorem C15_values_default_numeric : forall cfg,
  c_convs cfg = default_conversions ->
  (forall i c x tok, e_vr i = lit "DS" -> e_vm i = 1%nat ->
     get_elem_value cfg (i, VNum c x tok) = Ok (VNum CFloat x tok)) /\
  (forall i c x tok s y, e_vr i = lit "DS" -> e_vm i = 1%nat -> e_raw i = Some s ->
     py_float s = Ok y -> fval_eqb x y = true ->
     exists x' tok', get_elem_value cfg (i, VNum c x tok) = Ok (VNum CFloat x' tok') /\ fval_eqb x' y = true) /\
  (forall i c z, e_vr i = lit "IS" -> e_vm i = 1%nat ->
     get_elem_value cfg (i, VInt c z) = Ok (VInt CInt z)) /\
  (forall i c z s, e_vr i = lit "IS" -> e_vm i = 1%nat -> e_raw i = Some s -> py_int s = Ok z ->
     exists y, get_elem_value cfg (i, VInt c z) = Ok (VInt CInt y) /\ py_int s = Ok y) /\
  (forall i cl xs, e_vr i = lit "DS" -> (1 < e_vm i)%nat ->
     get_elem_value cfg (i, VMulti cl (map (fun p => VNum CDs (fst p) (snd p)) xs))
     = Ok (VMulti CList (map (fun p => VNum CFloat (fst p) (snd p)) xs))) /\
  (forall i cl zs, e_vr i = lit "IS" -> (1 < e_vm i)%nat ->
     get_elem_value cfg (i, VMulti cl (map (VInt CIs) zs)) = Ok (VMulti CList (map (VInt CInt) zs))).
Proof. exact values_default_numeric. Qed.

Example C15_values_default_numeric_ex :
  c_convs ex_cfg = default_conversions /\
  (exists y, py_float (lit " 2.50") = Ok y /\ fval_eqb (FFin (Qmake 5 2)) y = true) /\ py_int (lit "+07") = Ok 7%Z /\
  get_elem_value ex_cfg (mk_einfo (0x0018, 0x0050) (lit "DS") 1 (lit "SliceThickness") (lit "Slice Thickness") (Some (lit " 2.50")),
                         F 5 2 "2.5" CDs) = Ok (F 5 2 "2.5" CFloat).
Proof. split; [reflexivity | split; [eexists; split; vm_compute; reflexivity | split; [vm_compute; reflexivity | reflexivity]]]. Qed.

(** INDEPENDENT SPECIFICATION.  Extract/Decl.v reads the property declaratively (it calls no function of the model):
    per element, by cases -- blank text; claimed by a translator through an EARLIER Private Creator element of the same
    group (DICOM block rule: elem / 256 = creator element, low byte = low byte of the translator's tag, creator string
    equal); matched by an ignore rule (predicates on (group, element) with the standard's constants); no value; sequence;
    plain -- with keys given by a one-pass camel-casing and clashes disambiguated by tag.  The model computes the same
    classes, the same surviving and translated elements, and assigns exactly the expected keys. *)
Theorem C15_decl_agree : forall cfg f ds st,
  run (S f) cfg ds = Ok st ->
  names_wf ds = true ->        (* pydicom: an element is named "Private Creator" iff group odd and element in 0x10..0xff *)
  kinds_from cfg [] ds = d_kinds cfg [] ds /\
  survivors_from cfg [] ds = d_survivors cfg [] ds /\
  translated_from cfg [] ds = d_translated cfg [] ds /\
  map (final_key (s_std st)) (s_std st) = d_expected_std_keys cfg ds.
Proof. exact decl_agree. Qed.

(** ... and under the injectivity hypotheses the keys of the result are exactly the expected keys, in order. *)
Theorem C15_decl_keys : forall cfg f ds st,
  run (S f) cfg ds = Ok st ->
  names_wf ds = true ->
  NoDup (map etag ds) -> no_suffix_clash ds = true -> no_dot_keys ds = true ->
  trans_names_dot_free cfg = true -> metas_are_dicts cfg -> bound_once cfg ds = true ->
  map fst (finish st) = d_expected_keys cfg ds.
Proof. exact decl_keys. Qed.

(** the pieces of the declarative reading agree with the code's: key naming, ignore rules (against the generated
    tables, element lists in any order), slot arithmetic *)
Theorem C15_decl_pieces :
  (forall i, d_key i = get_elem_key i) /\
  (forall r t, d_rule r t = apply_rule r t) /\
  (forall tl ce el, (el =? N.lor (N.land tl 255) (ce * 256)) = (el / 256 =? ce) && (el mod 256 =? tl mod 256)) /\
  (forall s b c, In c (d_camel b s) ->
     py_isspace c = false \/ exists c0, In c0 s /\ py_isspace c0 = false /\ c = to_upper c0).
Proof. split; [exact d_key_eq | split; [exact d_rule_eq | split; [exact slot_arith | exact d_camel_no_space]]]. Qed.

Example C15_decl_ex :
  (names_wf ex_ds = true /\ names_wf clash_ds = true /\ names_wf f12_ds = true) /\
  d_expected_keys ex_cfg ex_ds = map fst ex_result /\
  d_expected_keys clash_cfg clash_ds =
    [lit "Modality_0X8_0X60"; lit "PrivateCreator"; lit "FooBar_0X29_0X1001"; lit "FooBar_0X29_0X1002"; lit "Modality_0X29_0X1003"] /\
  d_kinds ex_cfg [] ex_ds = kinds_from ex_cfg [] ex_ds.
Proof. split; [exact ex_names_wf | split; [exact ex_expected_keys | split; [exact clash_expected_keys | exact ex_d_kinds]]]. Qed.

(** JSON: every value of the result (at every depth) is None, a str, an int, a float, a list or a dict of such --
    provided every element whose VR has no conversion holds only such values (i.e. the conversions cover the byte
    string VRs and PN; ignored elements do not matter) and the translation functions return such values. *)
Theorem C15_json_serialisable : forall cfg, metas_json cfg ->
  forall f ds r, inputs_json cfg ds = true -> extract f cfg ds = Ok r -> dict_json r = true.
Proof. exact json_serialisable. Qed.

Example C15_json_ex : metas_json ex_cfg /\ inputs_json ex_cfg ex_ds = true /\ dict_json ex_result = true.
Proof. split; [exact ex_cfg_metas_json | exact ex_inputs_json]. Qed.

(** Every element that is not blank, not claimed by a translator, not matched by a configured rule, not an empty
    sequence and whose value does not convert to None has its entry (own key, own tag, its value). *)
Theorem C15_appears : forall cfg f ds st pre e post m,
  run (S f) cfg ds = Ok st ->
  ds = pre ++ e :: post ->
  tmap_of cfg (pre ++ [e]) = Ok m ->
  is_blank_str (snd e) = false ->
  map_get (etag e) m = None ->
  ignored cfg (etag e) = false ->
  snd e <> VSeq [] ->
  get_elem_value cfg e <> Ok VNone ->
  exists x, In x (s_std st) /\ entry_ok cfg (extract f cfg) e x.
Proof. exact appears. Qed.

(** Private extraction enabled (no private-ignoring rule configured): every private element with a value that no
    translator claims appears (unless it is overlay data of an odd 60xx group, which the overlay rule matches). *)
Theorem C15_private_enabled : forall cfg f ds st pre e post m,
  (forall r, In r (c_rules cfg) -> r <> RPrivate) ->
  run (S f) cfg ds = Ok st ->
  ds = pre ++ e :: post ->
  tmap_of cfg (pre ++ [e]) = Ok m ->
  N.odd (fst (etag e)) = true ->
  ~ (N.land (fst (etag e)) 0xff00 = 0x6000 /\ snd (etag e) = 0x3000) ->
  is_blank_str (snd e) = false ->
  map_get (etag e) m = None ->
  snd e <> VSeq [] ->
  get_elem_value cfg e <> Ok VNone ->
  exists x, In x (s_std st) /\ entry_ok cfg (extract f cfg) e x.
Proof. exact private_enabled. Qed.

Example C15_private_enabled_ex :
  (forall r, In r (c_rules clash_cfg) -> r <> RPrivate) /\
  exists st, run 2 clash_cfg clash_ds = Ok st /\ In (lit "FooBar", VStr CStr (lit "b"), (0x0029, 0x1002)) (s_std st).
Proof.
  split; [|exact clash_private_appears].
  intros r [<- | [<- | [<- | []]]]; discriminate.
Qed.

(** Totality with respect to fuel: once the fuel exceeds the nesting depth of sequences, the outcome (result or
    exception) is the same for every larger amount -- the fuel-exhaustion branch never decides an outcome.
    (Fuel exhaustion shares the error code of "outside the modelled domain", so it is stated as independence.) *)
Theorem C15_fuel_total : forall cfg f f' ds,
  (ds_depth ds < f)%nat -> (f <= f')%nat -> run f' cfg ds = run f cfg ds /\ extract f' cfg ds = extract f cfg ds.
Proof. exact fuel_total. Qed.

Example C15_fuel_total_ex : ds_depth ex_ds = 1%nat /\ extract 2 ex_cfg ex_ds = Ok ex_result.
Proof. split; [exact ex_depth | vm_compute; reflexivity]. Qed.

(** REMARK (pixel data unchanged).  The model is a pure function of the abstract dataset: it cannot alter it, so
    "extraction does not alter pixel data" has no content in the model.  For the implementation it is checked by
    the harness on every case: the bytes of (7FE0,0008/0009/0010), at every nesting level, are compared before and
    after the call and with a freshly built dataset (observation field pixel_same, oracle message pixel-changed). *)

(** Determinism: the model is a function; moreover the result does not depend on the fuel. *)
Theorem C15_deterministic : forall cfg f1 f2 ds r1 r2,
  extract f1 cfg ds = Ok r1 -> extract f2 cfg ds = Ok r2 -> r1 = r2.
Proof. exact deterministic. Qed.

Example C15_deterministic_ex : extract 3 ex_cfg ex_ds = Ok ex_result /\ extract 7 ex_cfg ex_ds = Ok ex_result.
Proof. split; vm_compute; reflexivity. Qed.
