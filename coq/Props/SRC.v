(** Source equality, extension algebra — theorems only.  The hand-written models of the small pure functions
    the extension algebra rests on are equal to the definitions TRANSLATED on every run from the current Python
    sources (Generated/T_src_ext.v; translator tools/tables/py2coq.py, primitives Common/PyOps2.v).  Python ints
    that are sizes / periods are [nat] (domain: non-negative).  The key filter is in Props/SRCfilter.v. *)
From Coq Require Import List Bool Arith NArith.
From DV Require Import Common.Res Common.Str Common.PyOps2 Generated.T_classes Generated.T_src_ext
     Ext.Types Ext.Classes Ext.Seq Ext.Model Ext.SrcEq.
Import ListNotations.
Local Open Scope nat_scope.

(** dcmmeta.is_constant(sequence, period=None), for every sequence, every equality test and every period *)
Theorem SRC_is_constant : forall (V : Type) (veqb : V -> V -> bool) (l : list V) (period : option nat),
  is_constant_src veqb l period = Seq.is_constant veqb l period.
Proof. exact (@is_constant_src_eq). Qed.

(** dcmmeta.is_repeating(sequence, period) *)
Theorem SRC_is_repeating : forall (V : Type) (veqb : V -> V -> bool) (l : list V) (period : nat),
  is_repeating_src veqb l period = Seq.is_repeating veqb l period.
Proof. exact (@is_repeating_src_eq). Qed.

(** classifications are name pairs in the sources and [cls] in the model: [name_of_cls] is an exact encoding
    and the model's decoded table re-encodes to the table of the sources *)
Theorem SRC_class_names :
  map name_of_cls classifications_c = classifications /\ (forall c, cls_of_name (name_of_cls c) = Some c).
Proof. exact class_names. Qed.

(** DcmMetaExtension.get_valid_classes(): the model's list for a 3..5-D shape, ValueError otherwise
    (the model returns [[]] there and tests [ndim_ok] separately) *)
Theorem SRC_valid_classes : forall h : hdr,
  get_valid_classes_src classifications (shape h) =
  if ndim_ok h then Ok (map name_of_cls (valid_classes h)) else Err EValue.
Proof. exact get_valid_classes_src_eq. Qed.

(** `classification in self.get_valid_classes()` is the model's [class_valid] *)
Theorem SRC_class_valid : forall (h : hdr) (c : cls),
  rmap (py_in (py_pair_eqb str_eqb str_eqb) (name_of_cls c)) (get_valid_classes_src classifications (shape h)) =
  if ndim_ok h then Ok (class_valid h c) else Err EValue.
Proof. exact class_valid_src_eq. Qed.

(** DcmMetaExtension.get_multiplicity(classification), for every header and every class, error cases included;
    a pair of names that is not a class is rejected with ValueError *)
Theorem SRC_multiplicity : forall (h : hdr) (c : cls),
  get_multiplicity_src classifications (shape h) (n_slices h) (name_of_cls c) = multiplicity h c.
Proof. exact get_multiplicity_src_eq. Qed.

Theorem SRC_multiplicity_foreign : forall (h : hdr) (ns : option nat) (n : cname),
  cls_of_name n = None -> get_multiplicity_src classifications (shape h) ns n = Err EValue.
Proof. exact get_multiplicity_src_foreign. Qed.

(** DcmMetaExtension._get_const_period(src_cls, dest_cls), for every header and every pair of classes *)
Theorem SRC_const_period : forall (h : hdr) (s d : cls),
  get_const_period_src classifications (shape h) (n_slices h) (name_of_cls s) (name_of_cls d) = const_period h s d.
Proof. exact get_const_period_src_eq. Qed.

(** the property DcmMetaExtension.n_slices: the model's total [n_slices] when slice_dim indexes the shape,
    IndexError otherwise *)
Theorem SRC_n_slices : forall h : hdr,
  n_slices_src (shape h) (sdim h) =
  match sdim h with
  | Some d => if d <? ndim h then Ok (n_slices h) else Err EIndex
  | None => Ok None
  end.
Proof. exact n_slices_src_eq. Qed.

(** non-vacuity: the translated definitions compute, on concrete non-trivial inputs, what Python computes *)
Example SRC_is_constant_example :
  is_constant_src Nat.eqb [1; 1; 2; 2; 3; 3] (Some 2) = Ok true /\
  is_constant_src Nat.eqb [1; 1; 2; 3] (Some 2) = Ok false /\
  is_constant_src Nat.eqb [1; 2] None = Ok false /\
  is_constant_src Nat.eqb [1; 1; 1; 1] (Some 3) = Err EValue /\
  is_constant_src Nat.eqb [1; 1] (Some 1) = Err EValue /\
  is_constant_src Nat.eqb (@nil nat) None = Ok true.
Proof. vm_compute. repeat split. Qed.

Example SRC_is_repeating_example :
  is_repeating_src Nat.eqb [1; 2; 1; 2; 1; 2] 2 = Ok true /\
  is_repeating_src Nat.eqb [1; 2; 1; 3] 2 = Ok false /\
  is_repeating_src Nat.eqb [1; 2] 2 = Err EValue /\
  is_repeating_src Nat.eqb [1; 2; 3; 4; 5] 2 = Err EValue.
Proof. vm_compute. repeat split. Qed.

Example SRC_valid_classes_example :
  get_valid_classes_src classifications [2; 2; 2; 1; 3] = Ok (map name_of_cls [GConst; GSlices; VSamples; VSlices]) /\
  get_valid_classes_src classifications [2; 2; 2; 0; 3] = Ok classifications /\
  get_valid_classes_src classifications [2; 2] = Err EValue.
Proof. vm_compute. repeat split. Qed.

Example SRC_multiplicity_example :
  get_multiplicity_src classifications [2; 2; 3; 4; 5] (Some 3) (name_of_cls GSlices) = Ok 60 /\
  get_multiplicity_src classifications [2; 2; 3; 4; 5] (Some 3) (name_of_cls VSlices) = Ok 12 /\
  get_multiplicity_src classifications [2; 2; 3; 4; 5] None (name_of_cls TSlices) = Ok 0 /\
  get_multiplicity_src classifications [2; 2; 3; 4] (Some 3) (name_of_cls VSamples) = Err EValue /\
  cls_of_name (name_of_base BGlobal, name_of_sub SSamples) = None.
Proof. vm_compute. repeat split. Qed.

Example SRC_const_period_example :
  get_const_period_src classifications [2; 2; 3; 4; 5] (Some 3) (name_of_cls GSlices) (name_of_cls VSamples) = Ok (Some 12) /\
  get_const_period_src classifications [2; 2; 3; 4; 5] (Some 3) (name_of_cls VSlices) (name_of_cls TSamples) = Ok (Some 3) /\
  get_const_period_src classifications [2; 2; 3; 4; 5] (Some 3) (name_of_cls TSamples) (name_of_cls VSamples) = Ok (Some 4) /\
  get_const_period_src classifications [2; 2; 3; 4; 5] (Some 3) (name_of_cls TSlices) (name_of_cls GConst) = Ok None /\
  get_const_period_src classifications [2; 2; 3; 4; 5] (Some 3) (name_of_cls TSlices) (name_of_cls TSamples) = Err ECrash /\
  n_slices_src [2; 2; 3] (Some 2) = Ok (Some 3) /\ n_slices_src [2; 2; 3] (Some 3) = Err EIndex.
Proof. vm_compute. repeat split. Qed.
