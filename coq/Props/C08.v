(** C08 Lookups return the value at the asked position, or the default when unsure.
    Model: Ext/Model.v ([get_meta], [meta_valid], [getitem] = NiftiWrapper.get_meta / meta_valid / __getitem__);
    spec: Ext/Spec.v ([den], [valid]) and Ext/LookupSpec.v ([agrees_dir], [agrees_code], [pos_of], [in_bounds], [img_wf]).

    TWO matching predicates (open finding N13):
    * [agrees_dir]  -- THE SPEC, from the property text: trailing dims, slice count, slice axis present, and the slice
                       DIRECTIONS (column [:3, slice dim] of the image affine vs. of the extension's affine) agree;
    * [agrees_code] -- what the code tests: the same with the ROW [affine[slice dim, :3]] in place of the column.
    C08_value / C08_bounds / C08_mismatch are theorems about [agrees_code] (they say exactly what the implementation
    does).  They carry over to the spec predicate ([C08_value_dir], [C08_bounds_dir], [C08_mismatch_dir]) on the domain
    [slice_sym] where the slice row equals the slice column in both affines (symmetric 3x3 part; in particular a slice
    axis aligned with world axis [slice dim], i.e. axial storage), by [C08_agrees_code_dir].  Off that domain the two
    predicates are independent and the property FAILS in both directions: [C08_flip_refuted] (slice axis properly
    flipped, row unchanged: a stored value of ANOTHER slice is returned) and [C08_rowonly_refuted] (in-plane axis
    flipped, slice direction unchanged: the default is returned although image and extension match). *)
From Coq Require Import List Bool Arith NArith ZArith QArith Lia.
From DV Require Import Common.Res Common.Str Common.Jv Ext.Types Ext.Seq Ext.Model Ext.Spec Ext.LookupSpec
     Ext.ProofsLookup Ext.ValidFacts.
Import ListNotations.
Local Open Scope nat_scope.

(** in-bounds index on an image passing the code's test: the value stored for that slice / time / vector position *)
Theorem C08_value :
  forall (V : Type) (vnone : V) (im : img) (e : ext V) (k : key) (ix : list Z) (d : V) (c : cls) (vs : list V),
    valid e -> img_wf im ->
    lookup_e e k = Some (c, vs) -> c <> GConst ->
    agrees_code im (hdr_of e) c -> in_bounds ix (ishape im) ->
    get_meta im e k (Some ix) d = Ok (den vnone e k (pos_of im ix)).
Proof. exact @get_meta_value. Qed.

(** global constants are returned whatever the index and however the image looks *)
Theorem C08_const :
  forall (V : Type) (im : img) (e : ext V) (k : key) (ix : option (list Z)) (d : V) (vs : list V),
    get_values_and_class e k = Some (GConst, vs) -> get_meta im e k ix d = Ok (List.hd d vs).
Proof. intros V. exact (@get_meta_const V). Qed.

(** without an index only global constants are returned *)
Theorem C08_noindex :
  forall (V : Type) (im : img) (e : ext V) (k : key) (d : V),
    get_meta im e k None d =
    Ok (match get_values_and_class e k with Some (GConst, vs) => List.hd d vs | _ => d end).
Proof. intros V. exact (@get_meta_noindex V). Qed.

(** a varying key on an image passing the code's test: wrong length, negative or too large index raises IndexError (no wrap-around) *)
Theorem C08_bounds :
  forall (V : Type) (im : img) (e : ext V) (k : key) (ix : list Z) (d : V) (c : cls) (vs : list V),
    get_values_and_class e k = Some (c, vs) -> c <> GConst ->
    agrees_code im (hdr_of e) c -> ~ in_bounds ix (ishape im) ->
    get_meta im e k (Some ix) d = Err EIndex.
Proof. intros V. exact (@get_meta_out_of_bounds V). Qed.

(** the image fails the code's test for the key's class: the default, whatever the index *)
Theorem C08_mismatch :
  forall (V : Type) (im : img) (e : ext V) (k : key) (ix : option (list Z)) (d : V) (c : cls) (vs : list V),
    get_values_and_class e k = Some (c, vs) -> c <> GConst ->
    ~ agrees_code im (hdr_of e) c -> get_meta im e k ix d = Ok d.
Proof. intros V. exact (@get_meta_mismatch V). Qed.

Theorem C08_absent :
  forall (V : Type) (im : img) (e : ext V) (k : key) (ix : option (list Z)) (d : V),
    get_values_and_class e k = None -> get_meta im e k ix d = Ok d.
Proof. intros V. exact (@get_meta_absent V). Qed.

(** No hidden lookup state.  [get_meta], [meta_valid] and [getitem] are Gallina FUNCTIONS of the current image state
    (shape, slice dim_info, affine), the current extension, the key, the index and the default -- nothing else.  Hence every
    theorem of this file holds at every moment of any history of header / affine / extension edits and earlier lookups:
    "the image NO LONGER matches" is just [~ agrees im (hdr_of e) c] for the state at the time of the call.  That the
    implementation has this shape (its answers do not depend on earlier lookups on the same NiftiWrapper object) is what
    the part lookup_hist of props/c08.py ties: one wrapper object, in-place perturbations, and at every step the
    implementation's answers = the model applied to the current state (and = a freshly constructed wrapper). *)

(** totality: for EVERY image header state (no slice dim_info, any shapes on either side), extension, key and
    index the lookup returns a value or raises IndexError -- never another error *)
Theorem C08_total :
  forall (V : Type) (im : img) (e : ext V) (k : key) (ix : option (list Z)) (d : V),
    (exists v, get_meta im e k ix d = Ok v) \/ get_meta im e k ix d = Err EIndex.
Proof. intros V. exact (@get_meta_total V). Qed.

(** both predicates are satisfiable: the image the extension was made for passes the code's test and matches in the
    sense of the spec, for every class, whatever the affine *)
Theorem C08_agrees_exact :
  forall (h : hdr) (c : cls),
    (is_slices c = true -> sdim h <> None) ->
    agrees_code (mk_img (shape h) (sdim h) (aff h)) h c /\ agrees_dir (mk_img (shape h) (sdim h) (aff h)) h c.
Proof. intros h c H. split; [apply agrees_exact | apply agrees_dir_exact]; exact H. Qed.

(** * Code test vs. slice direction *)

(** where the slice row equals the slice column in both affines the code's test IS the direction test *)
Theorem C08_agrees_code_dir :
  forall (im : img) (h : hdr) (c : cls), slice_sym im h -> (agrees_code im h c <-> agrees_dir im h c).
Proof. exact agrees_code_dir. Qed.

Theorem C08_value_dir :
  forall (V : Type) (vnone : V) (im : img) (e : ext V) (k : key) (ix : list Z) (d : V) (c : cls) (vs : list V),
    valid e -> img_wf im -> slice_sym im (hdr_of e) ->
    lookup_e e k = Some (c, vs) -> c <> GConst ->
    agrees_dir im (hdr_of e) c -> in_bounds ix (ishape im) ->
    get_meta im e k (Some ix) d = Ok (den vnone e k (pos_of im ix)).
Proof.
  intros V vnone im e k ix d c vs Hv Hw Hs Hl Hc Ha Hb.
  apply (get_meta_value vnone im e k ix d c vs); auto. apply (agrees_code_dir im (hdr_of e) c Hs). exact Ha.
Qed.

Theorem C08_bounds_dir :
  forall (V : Type) (im : img) (e : ext V) (k : key) (ix : list Z) (d : V) (c : cls) (vs : list V),
    slice_sym im (hdr_of e) ->
    get_values_and_class e k = Some (c, vs) -> c <> GConst ->
    agrees_dir im (hdr_of e) c -> ~ in_bounds ix (ishape im) ->
    get_meta im e k (Some ix) d = Err EIndex.
Proof.
  intros V im e k ix d c vs Hs Hv Hc Ha Hb.
  apply (get_meta_out_of_bounds im e k ix d c vs); auto. apply (agrees_code_dir im (hdr_of e) c Hs). exact Ha.
Qed.

Theorem C08_mismatch_dir :
  forall (V : Type) (im : img) (e : ext V) (k : key) (ix : option (list Z)) (d : V) (c : cls) (vs : list V),
    slice_sym im (hdr_of e) ->
    get_values_and_class e k = Some (c, vs) -> c <> GConst ->
    ~ agrees_dir im (hdr_of e) c -> get_meta im e k ix d = Ok d.
Proof.
  intros V im e k ix d c vs Hs Hv Hc Hn.
  apply (get_meta_mismatch im e k ix d c vs); auto. intros Ha. apply Hn. apply (agrees_code_dir im (hdr_of e) c Hs). exact Ha.
Qed.

(** open finding N13: image (2,4,5), slice axis 0 whose direction is the column (0,2,0) -- off the diagonal (row 0 is
    (0,3,0)).  The slice axis is properly flipped (column negated, origin moved): the image no longer matches in the
    sense of the spec, the code's row test still passes, and the lookup at new slice 0 (= old slice 1) returns the
    value stored for old slice 0 instead of the default. *)
Definition n13_aff : list (list Q) := [[0; 3; 0; 1]; [2; 0; 0; -5]; [0; 0; 7 # 2; 9]; [0; 0; 0; 1]]%Q.
Definition n13_aff_flipped : list (list Q) := [[0; 3; 0; 1]; [-2; 0; 0; -3]; [0; 0; 7 # 2; 9]; [0; 0; 0; 1]]%Q.
Definition n13_ext : ext jv :=
  mk_ext (mk_hdr [2; 4; 5] (Some 0) n13_aff false false)
         [([83]%N, (GSlices, [JStr [102; 105; 114; 115; 116]%N; JStr [115; 101; 99; 111; 110; 100]%N]))].
Definition n13_img : img := mk_img [2; 4; 5] (Some 0) n13_aff_flipped.

Theorem C08_flip_refuted :
  validb n13_ext = true /\ ~ agrees_dir n13_img (hdr_of n13_ext) GSlices /\ agrees_code n13_img (hdr_of n13_ext) GSlices /\
  get_meta n13_img n13_ext [83]%N (Some [0; 0; 0]%Z) (JStr [68]%N) = Ok (JStr [102; 105; 114; 115; 116]%N).
Proof.
  split; [vm_compute; reflexivity|]. split.
  - intros H. apply agrees_dirb_spec in H. vm_compute in H. discriminate H.
  - split; [apply meta_valid_spec; vm_compute; reflexivity | vm_compute; reflexivity].
Qed.

(** the converse failure: an IN-PLANE axis (1) is flipped; the slice direction is unchanged (the image still matches in the
    sense of the spec) but the row changed, so the code answers with the default *)
Definition n13_aff_inplane : list (list Q) := [[0; -3; 0; 10]; [2; 0; 0; -5]; [0; 0; 7 # 2; 9]; [0; 0; 0; 1]]%Q.
Theorem C08_rowonly_refuted :
  agrees_dir (mk_img [2; 4; 5] (Some 0) n13_aff_inplane) (hdr_of n13_ext) GSlices /\
  ~ agrees_code (mk_img [2; 4; 5] (Some 0) n13_aff_inplane) (hdr_of n13_ext) GSlices /\
  get_meta (mk_img [2; 4; 5] (Some 0) n13_aff_inplane) n13_ext [83]%N (Some [0; 0; 0]%Z) (JStr [68]%N) = Ok (JStr [68]%N).
Proof.
  split; [apply agrees_dirb_spec; vm_compute; reflexivity|]. split.
  - intros H. apply meta_valid_spec in H. vm_compute in H. discriminate H.
  - vm_compute. reflexivity.
Qed.

(** [slice_sym] is satisfiable beyond the identity: an axial image with anisotropic voxels and a sheared in-plane part *)
Example C08_dir_nonvacuous :
  let a := [[2; 1 # 2; 0; -8]; [1 # 2; 3; 0; 4]; [0; 0; 5 # 2; 1]; [0; 0; 0; 1]]%Q in
  let h := mk_hdr [2; 2; 3] (Some 2) a false false in
  slice_sym (mk_img [2; 2; 3] (Some 2) a) h /\ agrees_dir (mk_img [2; 2; 3] (Some 2) a) h GSlices /\
  ~ agrees_dir (mk_img [2; 2; 3] (Some 2) [[2; 1 # 2; 0; -8]; [1 # 2; 3; 0; 4]; [0; 0; -5 # 2; 6]; [0; 0; 0; 1]]%Q) h GSlices /\
  slice_sym (mk_img [2; 2; 3] (Some 2) [[2; 1 # 2; 0; -8]; [1 # 2; 3; 0; 4]; [0; 0; -5 # 2; 6]; [0; 0; 0; 1]]%Q) h.
Proof.
  cbv zeta. split; [split; intros d H; injection H as <-; reflexivity|].
  split; [apply agrees_dirb_spec; vm_compute; reflexivity|].
  split; [intros H; apply agrees_dirb_spec in H; vm_compute in H; discriminate H|].
  split; intros d H; injection H as <-; reflexivity.
Qed.

(** [wrapper[key]]: exactly the global constants *)
Theorem C08_getitem :
  forall (V : Type) (e : ext V) (k : key) (v : V),
    getitem e k = Ok v <-> exists vs, lookup_e e k = Some (GConst, v :: vs).
Proof. intros V. exact (@getitem_spec V). Qed.

(** * Non-vacuity: a 5-D extension with one key per varying class, on its own image *)
Definition ex_aff : list (list Q) := [[2; 0; 0; -8]; [0; 0; 1 # 2; 3]; [0; -1; 0; 0]; [0; 0; 0; 1]]%Q.
Definition ex_ext : ext jv :=
  mk_ext (mk_hdr [2; 2; 2; 2; 2] (Some 1) ex_aff true true)
    [([116]%N, (TSamples, [JInt 10; JInt 11; JInt 12; JInt 13]));
     ([118]%N, (VSamples, [JInt 20; JInt 21]));
     ([115]%N, (TSlices, [JInt 30; JInt 31]));
     ([119]%N, (VSlices, [JInt 40; JInt 41; JInt 42; JInt 43]));
     ([103]%N, (GSlices, [JInt 50; JInt 51; JInt 52; JInt 53; JInt 54; JInt 55; JInt 56; JInt 57]));
     ([99]%N, (GConst, [JStr [97]%N]))].
Definition ex_img : img := mk_img [2; 2; 2; 2; 2] (Some 1) ex_aff.
Definition ex_ix : list Z := [0; 1; 0; 1; 1]%Z.

Example C08_value_nonvacuous :
  valid ex_ext /\ img_wf ex_img /\ in_bounds ex_ix (ishape ex_img) /\
  (forall c, agrees_code ex_img (hdr_of ex_ext) c) /\
  map (fun k => get_meta ex_img ex_ext k (Some ex_ix) JNull) [[116]%N; [118]%N; [115]%N; [119]%N; [103]%N; [99]%N]
  = map Ok [JInt 13; JInt 21; JInt 31; JInt 43; JInt 57; JStr [97]%N] /\
  map (fun k => den JNull ex_ext k (pos_of ex_img ex_ix)) [[116]%N; [118]%N; [115]%N; [119]%N; [103]%N]
  = [JInt 13; JInt 21; JInt 31; JInt 43; JInt 57].
Proof.
  split; [apply validb_valid; vm_compute; reflexivity|].
  split; [split; [cbn; lia | intros d H; injection H as <-; lia]|].
  split; [split; [reflexivity|]; intros j Hj; cbn in Hj;
          destruct j as [|[|[|[|[|j]]]]]; cbn; try lia|].
  split; [intros c; apply (agrees_exact (hdr_of ex_ext)); intros _; discriminate|].
  split; vm_compute; reflexivity.
Qed.

Example C08_bounds_nonvacuous :
  ~ in_bounds [0; 2; 0; 1; 1]%Z (ishape ex_img) /\ ~ in_bounds [0; -1; 0; 1; 1]%Z (ishape ex_img) /\
  ~ in_bounds [0; 1; 0; 1]%Z (ishape ex_img) /\
  get_meta ex_img ex_ext [103]%N (Some [0; 2; 0; 1; 1]%Z) JNull = Err EIndex /\
  get_meta ex_img ex_ext [103]%N (Some [0; -1; 0; 1; 1]%Z) JNull = Err EIndex /\
  get_meta ex_img ex_ext [116]%N (Some [0; 1; 0; 1]%Z) JNull = Err EIndex.
Proof.
  split; [intros [_ H]; specialize (H 1 ltac:(cbn; lia)); cbn in H; lia|].
  split; [intros [_ H]; specialize (H 1 ltac:(cbn; lia)); cbn in H; lia|].
  split; [intros [H _]; discriminate H|].
  repeat split; vm_compute; reflexivity.
Qed.

(** the image lost its slice dim_info, or has another T: per-slice / per-sample keys give the default *)
Example C08_mismatch_nonvacuous :
  ~ agrees_code (mk_img [2; 2; 2; 2; 2] None ex_aff) (hdr_of ex_ext) GSlices /\
  get_meta (mk_img [2; 2; 2; 2; 2] None ex_aff) ex_ext [103]%N (Some ex_ix) (JStr [100]%N) = Ok (JStr [100]%N) /\
  ~ agrees_code (mk_img [2; 2; 2; 3; 2] (Some 1) ex_aff) (hdr_of ex_ext) TSamples /\
  get_meta (mk_img [2; 2; 2; 3; 2] (Some 1) ex_aff) ex_ext [116]%N (Some ex_ix) (JStr [100]%N) = Ok (JStr [100]%N).
Proof.
  split; [intros [isd [msd [H _]]]; discriminate H|].
  split; [vm_compute; reflexivity|].
  split; [intros H; discriminate H|].
  vm_compute; reflexivity.
Qed.

Example C08_noindex_nonvacuous :
  get_meta ex_img ex_ext [99]%N None JNull = Ok (JStr [97]%N) /\
  get_meta ex_img ex_ext [116]%N None (JStr [100]%N) = Ok (JStr [100]%N) /\
  get_meta ex_img ex_ext [122]%N (Some ex_ix) (JStr [100]%N) = Ok (JStr [100]%N) /\
  getitem ex_ext [99]%N = Ok (JStr [97]%N) /\ getitem ex_ext [116]%N = Err EKey.
Proof. repeat split; vm_compute; reflexivity. Qed.
