(** C08 Lookups return the value at the asked position, or the default when unsure.
    Model: Ext/Model.v ([get_meta], [meta_valid], [getitem] = NiftiWrapper.get_meta / meta_valid / __getitem__);
    spec: Ext/Spec.v ([den], [valid]) and Ext/LookupSpec.v ([agrees], [pos_of], [in_bounds], [img_wf]). *)
From Coq Require Import List Bool Arith NArith ZArith QArith Lia.
From DV Require Import Common.Res Common.Str Common.Jv Ext.Types Ext.Seq Ext.Model Ext.Spec Ext.LookupSpec
     Ext.ProofsLookup Ext.ValidFacts.
Import ListNotations.
Local Open Scope nat_scope.

(** in-bounds index on a matching image: the value stored for that slice / time / vector position *)
Theorem C08_value :
  forall (V : Type) (vnone : V) (im : img) (e : ext V) (k : key) (ix : list Z) (d : V) (c : cls) (vs : list V),
    valid e -> img_wf im ->
    lookup_e e k = Some (c, vs) -> c <> GConst ->
    agrees im (hdr_of e) c -> in_bounds ix (ishape im) ->
    get_meta im e k (Some ix) d = Ok (den vnone e k (pos_of im ix)).
Proof. exact @get_meta_value. Qed.

(** global constants are returned whatever the index and however the image looks *)
Theorem C08_const :
  forall (V : Type) (im : img) (e : ext V) (k : key) (ix : option (list Z)) (d : V) (vs : list V),
    get_values_and_class e k = Some (GConst, vs) -> get_meta im e k ix d = Ok (List.hd d vs).
Proof. intros V. exact (@get_meta_const V). Qed.

(** without an index only global constants are returned *)
Theorem C08_noindex :
  forall (V : Type) (im : img) (e : ext V) (k : key) (d : V),
    get_meta im e k None d =
    Ok (match get_values_and_class e k with Some (GConst, vs) => List.hd d vs | _ => d end).
Proof. intros V. exact (@get_meta_noindex V). Qed.

(** a varying key on a matching image: wrong length, negative or too large index raises IndexError (no wrap-around) *)
Theorem C08_bounds :
  forall (V : Type) (im : img) (e : ext V) (k : key) (ix : list Z) (d : V) (c : cls) (vs : list V),
    get_values_and_class e k = Some (c, vs) -> c <> GConst ->
    agrees im (hdr_of e) c -> ~ in_bounds ix (ishape im) ->
    get_meta im e k (Some ix) d = Err EIndex.
Proof. intros V. exact (@get_meta_out_of_bounds V). Qed.

(** the image no longer matches the extension for the key's class: the default, whatever the index *)
Theorem C08_mismatch :
  forall (V : Type) (im : img) (e : ext V) (k : key) (ix : option (list Z)) (d : V) (c : cls) (vs : list V),
    get_values_and_class e k = Some (c, vs) -> c <> GConst ->
    ~ agrees im (hdr_of e) c -> get_meta im e k ix d = Ok d.
Proof. intros V. exact (@get_meta_mismatch V). Qed.

Theorem C08_absent :
  forall (V : Type) (im : img) (e : ext V) (k : key) (ix : option (list Z)) (d : V),
    get_values_and_class e k = None -> get_meta im e k ix d = Ok d.
Proof. intros V. exact (@get_meta_absent V). Qed.

(** No hidden lookup state.  [get_meta], [meta_valid] and [getitem] are Gallina FUNCTIONS of the current image state
    (shape, slice dim_info, affine), the current extension, the key, the index and the default -- nothing else.  Hence every
    theorem of this file holds at every moment of any history of header / affine / extension edits and earlier lookups:
    "the image NO LONGER matches" is just [~ agrees im (hdr_of e) c] for the state at the time of the call.  That the
    implementation has this shape (its answers do not depend on earlier lookups on the same NiftiWrapper object) is what
    the part lookup_hist of props/c08.py ties: one wrapper object, in-place perturbations, and at every step the
    implementation's answers = the model applied to the current state (and = a freshly constructed wrapper). *)

(** totality: for EVERY image header state (no slice dim_info, any shapes on either side), extension, key and
    index the lookup returns a value or raises IndexError -- never another error *)
Theorem C08_total :
  forall (V : Type) (im : img) (e : ext V) (k : key) (ix : option (list Z)) (d : V),
    (exists v, get_meta im e k ix d = Ok v) \/ get_meta im e k ix d = Err EIndex.
Proof. intros V. exact (@get_meta_total V). Qed.

(** [agrees] is satisfiable: the image the extension was made for agrees with every class *)
Theorem C08_agrees_exact :
  forall (h : hdr) (c : cls),
    (is_slices c = true -> sdim h <> None) -> agrees (mk_img (shape h) (sdim h) (aff h)) h c.
Proof. exact agrees_exact. Qed.

(** [wrapper[key]]: exactly the global constants *)
Theorem C08_getitem :
  forall (V : Type) (e : ext V) (k : key) (v : V),
    getitem e k = Ok v <-> exists vs, lookup_e e k = Some (GConst, v :: vs).
Proof. intros V. exact (@getitem_spec V). Qed.

(** * Non-vacuity: a 5-D extension with one key per varying class, on its own image *)
Definition ex_aff : list (list Q) := [[2; 0; 0; -8]; [0; 0; 1 # 2; 3]; [0; -1; 0; 0]; [0; 0; 0; 1]]%Q.
Definition ex_ext : ext jv :=
  mk_ext (mk_hdr [2; 2; 2; 2; 2] (Some 1) ex_aff true true)
    [([116]%N, (TSamples, [JInt 10; JInt 11; JInt 12; JInt 13]));
     ([118]%N, (VSamples, [JInt 20; JInt 21]));
     ([115]%N, (TSlices, [JInt 30; JInt 31]));
     ([119]%N, (VSlices, [JInt 40; JInt 41; JInt 42; JInt 43]));
     ([103]%N, (GSlices, [JInt 50; JInt 51; JInt 52; JInt 53; JInt 54; JInt 55; JInt 56; JInt 57]));
     ([99]%N, (GConst, [JStr [97]%N]))].
Definition ex_img : img := mk_img [2; 2; 2; 2; 2] (Some 1) ex_aff.
Definition ex_ix : list Z := [0; 1; 0; 1; 1]%Z.

Example C08_value_nonvacuous :
  valid ex_ext /\ img_wf ex_img /\ in_bounds ex_ix (ishape ex_img) /\
  (forall c, agrees ex_img (hdr_of ex_ext) c) /\
  map (fun k => get_meta ex_img ex_ext k (Some ex_ix) JNull) [[116]%N; [118]%N; [115]%N; [119]%N; [103]%N; [99]%N]
  = map Ok [JInt 13; JInt 21; JInt 31; JInt 43; JInt 57; JStr [97]%N] /\
  map (fun k => den JNull ex_ext k (pos_of ex_img ex_ix)) [[116]%N; [118]%N; [115]%N; [119]%N; [103]%N]
  = [JInt 13; JInt 21; JInt 31; JInt 43; JInt 57].
Proof.
  split; [apply validb_valid; vm_compute; reflexivity|].
  split; [split; [cbn; lia | intros d H; injection H as <-; lia]|].
  split; [split; [reflexivity|]; intros j Hj; cbn in Hj;
          destruct j as [|[|[|[|[|j]]]]]; cbn; try lia|].
  split; [intros c; apply (agrees_exact (hdr_of ex_ext)); intros _; discriminate|].
  split; vm_compute; reflexivity.
Qed.

Example C08_bounds_nonvacuous :
  ~ in_bounds [0; 2; 0; 1; 1]%Z (ishape ex_img) /\ ~ in_bounds [0; -1; 0; 1; 1]%Z (ishape ex_img) /\
  ~ in_bounds [0; 1; 0; 1]%Z (ishape ex_img) /\
  get_meta ex_img ex_ext [103]%N (Some [0; 2; 0; 1; 1]%Z) JNull = Err EIndex /\
  get_meta ex_img ex_ext [103]%N (Some [0; -1; 0; 1; 1]%Z) JNull = Err EIndex /\
  get_meta ex_img ex_ext [116]%N (Some [0; 1; 0; 1]%Z) JNull = Err EIndex.
Proof.
  split; [intros [_ H]; specialize (H 1 ltac:(cbn; lia)); cbn in H; lia|].
  split; [intros [_ H]; specialize (H 1 ltac:(cbn; lia)); cbn in H; lia|].
  split; [intros [H _]; discriminate H|].
  repeat split; vm_compute; reflexivity.
Qed.

(** the image lost its slice dim_info, or has another T: per-slice / per-sample keys give the default *)
Example C08_mismatch_nonvacuous :
  ~ agrees (mk_img [2; 2; 2; 2; 2] None ex_aff) (hdr_of ex_ext) GSlices /\
  get_meta (mk_img [2; 2; 2; 2; 2] None ex_aff) ex_ext [103]%N (Some ex_ix) (JStr [100]%N) = Ok (JStr [100]%N) /\
  ~ agrees (mk_img [2; 2; 2; 3; 2] (Some 1) ex_aff) (hdr_of ex_ext) TSamples /\
  get_meta (mk_img [2; 2; 2; 3; 2] (Some 1) ex_aff) ex_ext [116]%N (Some ex_ix) (JStr [100]%N) = Ok (JStr [100]%N).
Proof.
  split; [intros [isd [msd [H _]]]; discriminate H|].
  split; [vm_compute; reflexivity|].
  split; [intros H; discriminate H|].
  vm_compute; reflexivity.
Qed.

Example C08_noindex_nonvacuous :
  get_meta ex_img ex_ext [99]%N None JNull = Ok (JStr [97]%N) /\
  get_meta ex_img ex_ext [116]%N None (JStr [100]%N) = Ok (JStr [100]%N) /\
  get_meta ex_img ex_ext [122]%N (Some ex_ix) (JStr [100]%N) = Ok (JStr [100]%N) /\
  getitem ex_ext [99]%N = Ok (JStr [97]%N) /\ getitem ex_ext [116]%N = Err EKey.
Proof. repeat split; vm_compute; reflexivity. Qed.
