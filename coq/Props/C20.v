(** Property C20 — theorems only. *)
From Coq Require Import List Bool ZArith NArith QArith.
From DV Require Import Common.Res Common.Str Common.F64 Common.PyNum Time.Model Time.Proofs.
Import ListNotations.

(** Both modules implement the same conversion, for every string (valid or not). *)
Theorem C20_tm_same : forall s, dcm_time_to_sec s = tm_to_seconds s.
Proof. exact same_function. Qed.
