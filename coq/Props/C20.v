(** Property C20 — theorems only (TM-string half; the header half is added below when built). *)
From Coq Require Import List Bool ZArith NArith QArith.
From DV Require Import Common.Res Common.Str Common.F64 Common.PyNum Time.Model Time.Spec Time.Proofs Time.SrcEq Generated.T_time.
Import ListNotations.
Local Open Scope nat_scope.

(** Both modules implement the same conversion, for every string (valid or not). *)
Theorem C20_tm_same : forall s, dcm_time_to_sec s = tm_to_seconds s.
Proof. exact same_function. Qed.

(** HH  ->  hh*3600 *)
Theorem C20_tm_h : forall hh, hh < 100 ->
  dcm_time_to_sec (tm_h hh) = Ok (FFin (f_of_Z (Z.of_nat hh * 3600))).
Proof. exact tm_h_ok. Qed.

(** HHMM / HH:MM  ->  hh*3600 + mm*60 *)
Theorem C20_tm_hm : forall colons hh mm, hh < 100 -> mm < 100 ->
  dcm_time_to_sec (tm_hm colons hh mm) = Ok (FFin (f_of_Z (whole_secs hh mm))).
Proof. exact tm_hm_ok. Qed.

(** HHMMSS[.F+] / HH:MM:SS[.F+]  ->  hh*3600 + mm*60 + ss.ffffff  (any number of fraction digits) *)
Theorem C20_tm_hms : forall colons hh mm ss frac,
  hh < 100 -> mm < 100 -> ss < 100 -> all_digits frac = true ->
  dcm_time_to_sec (tm_hms colons hh mm ss frac) = Ok (tm_value hh mm ss frac).
Proof. exact tm_hms_ok. Qed.

(** The same statements for the definitions TRANSLATED from the current Python sources of both
    modules (Generated/T_time.v): what the code says now, not only what the hand model says. *)
Theorem C20_tm_src_is_model :
  (forall s, dcm_time_to_sec_src s = dcm_time_to_sec s) /\ (forall s, tm_to_seconds_src s = tm_to_seconds s).
Proof. split; [exact dcm_time_to_sec_src_eq | exact tm_to_seconds_src_eq]. Qed.

Theorem C20_tm_src_same : forall s, dcm_time_to_sec_src s = tm_to_seconds_src s.
Proof. exact src_same. Qed.

Theorem C20_tm_src_hms : forall colons hh mm ss frac,
  hh < 100 -> mm < 100 -> ss < 100 -> all_digits frac = true ->
  dcm_time_to_sec_src (tm_hms colons hh mm ss frac) = Ok (tm_value hh mm ss frac) /\
  tm_to_seconds_src (tm_hms colons hh mm ss frac) = Ok (tm_value hh mm ss frac).
Proof. exact src_hms. Qed.

Theorem C20_tm_src_hm : forall colons hh mm, hh < 100 -> mm < 100 ->
  dcm_time_to_sec_src (tm_hm colons hh mm) = Ok (FFin (f_of_Z (whole_secs hh mm))) /\
  tm_to_seconds_src (tm_hm colons hh mm) = Ok (FFin (f_of_Z (whole_secs hh mm))).
Proof. exact src_hm. Qed.

Theorem C20_tm_src_h : forall hh, hh < 100 ->
  dcm_time_to_sec_src (tm_h hh) = Ok (FFin (f_of_Z (Z.of_nat hh * 3600))) /\
  tm_to_seconds_src (tm_h hh) = Ok (FFin (f_of_Z (Z.of_nat hh * 3600))).
Proof. exact src_h. Qed.

(** non-vacuity: "13:05:59.250" denotes 47159.25 exactly *)
Example C20_tm_example :
  tm_hms true 13 5 59 [50; 53; 48]%N = [49; 51; 58; 48; 53; 58; 53; 57; 46; 50; 53; 48]%N /\
  all_digits [50; 53; 48]%N = true /\
  (match tm_value 13 5 59 [50; 53; 48]%N with FFin q => Qeq_bool q (4715925 # 100) | _ => false end) = true.
Proof. vm_compute. repeat split. Qed.
