(** Property C19 -- the command-line tools do what the API does and keep no hidden state.
    Theorems only; models in Cli/Model.v, specs in Cli/Spec.v, proofs in Cli/Proofs*.v. *)
From Coq Require Import List Bool Arith ZArith NArith Permutation Sorted.
From DV Require Import Common.Res Common.Str Common.PyNum Filter.Model Filter.Proofs Generated.T_cli Generated.T_filter.
From DV Require Import Cli.Model Cli.Spec Cli.ProofsNames Cli.ProofsMain Cli.ProofsNitool Cli.Examples.
Import ListNotations.

(** ---------------------------------------------------------------- no hidden state *)

(** an invocation of dcmstack leaves every module-level default as it found it *)
Theorem C19_no_state : forall g a i, fst (dcmstack_main g a i) = g.
Proof. exact dcmstack_no_state. Qed.

Theorem C19_no_state_nitool : forall nii V (env : nenv nii V) g a, fst (nitool_run env g a) = g.
Proof. intros nii V. exact (@nitool_no_state nii V). Qed.

(** in any sequence of dcmstack / nitool invocations run in one process, every invocation produces
    what it produces alone from the initial module state, and the state is unchanged at the end *)
Theorem C19_seq : forall nii V g (l : list (invocation nii V)),
  fst (run_seq g l) = g /\ snd (run_seq g l) = map (fun inv => snd (run1 g inv)) l.
Proof. intros nii V. exact (@run_seq_independent nii V). Qed.

(** ---------------------------------------------------------------- option -> API argument *)

(** every API call made for every written file has the stated arguments ([args_spec] in Cli/Spec.v:
    filter = defaults ++ -e / defaults ++ -i, orderings from --time-var/--time-order and
    --vector-var/--vector-order, group keys, extractor, force / warn flags, voxel order, embed flag,
    destination path, JSON dump path, whether the extension is stripped) *)
Theorem C19_args : forall g a i ds e d f,
  snd (dcmstack_main g a i) = ORun ds e -> In d ds -> In f (do_files d) -> args_spec g a i d f.
Proof. exact dcmstack_args. Qed.

(** the filter every stack is built with is exclude-unless-included over defaults plus options *)
Theorem C19_filter : forall (matches : str -> str -> bool) g a i ds e d f key,
  snd (dcmstack_main g a i) = ORun ds e -> In d ds -> In f (do_files d) ->
  g_excl g <> [] -> g_incl g <> [] ->
  (filter_of matches (fo_stack f) key = true <->
   (exists p, (In p (g_excl g) \/ In p (a_exclude_regex a)) /\ matches p key = true) /\
   ~ (exists p, (In p (g_incl g) \/ In p (a_include_regex a)) /\ matches p key = true)).
Proof. exact dcmstack_filter_sem. Qed.

(** --default-regexes prints the module lists as they are now *)
Theorem C19_default_regexes : forall g a i,
  a_version a = false -> a_list_translators a = false -> a_default_regexes a = true ->
  snd (dcmstack_main g a i) = ORegexes (g_excl g) (g_incl g).
Proof. exact dcmstack_default_regexes. Qed.

(** ---------------------------------------------------------------- output names *)

(** for EVERY list of natural names the naming loop yields as many names, pairwise distinct
    (also with the extension appended); the suffix search never runs out *)
Theorem C19_names : forall names ext,
  exists outs, output_names names = Ok outs /\ length outs = length names /\ NoDup outs /\
               NoDup (map (fun o => o ++ ext) outs).
Proof. exact output_names_distinct. Qed.

(** each name is the sanitized natural name when that is unused, otherwise the first unused
    name-kkk with kkk >= the group's index *)
Theorem C19_name_choice : forall gen out_idx fn,
  exists out, unique_name gen out_idx fn = Ok out /\ unique_spec gen out_idx fn out.
Proof. exact unique_name_ok. Qed.

(** inside main: the file names written for one source directory are pairwise distinct, and so are
    the paths when the extension does not start with '/'; one file per group when nothing raised *)
Theorem C19_names_main : forall g a i ds e d,
  snd (dcmstack_main g a i) = ORun ds e -> In d ds -> NoDup (map fo_name (do_files d)).
Proof. exact dcmstack_names_distinct. Qed.

Theorem C19_paths_main : forall g a i ds e d,
  starts_with_slash (a_output_ext a) = false ->
  snd (dcmstack_main g a i) = ORun ds e -> In d ds -> NoDup (map fo_path (do_files d)).
Proof. exact dcmstack_paths_distinct. Qed.

(** over the WHOLE invocation (finding F18 repaired): with --dest-dir all output names, of all source
    directories, are pairwise distinct ... *)
Theorem C19_names_global : forall g a i ds e,
  truthy (a_dest_dir a) <> None ->
  snd (dcmstack_main g a i) = ORun ds e ->
  NoDup (concat (map (fun d => map fo_name (do_files d)) ds)).
Proof. exact dcmstack_names_global. Qed.

(** ... and in both modes all output PATHS are pairwise distinct, provided the extension contains no
    '/' and -- when there is no common destination -- the source directories are different
    directories ([dir_prefix d] is  d  with exactly one trailing '/', or empty) *)
Theorem C19_paths_global : forall g a i ds e,
  slash_free (a_output_ext a) = true ->
  (truthy (a_dest_dir a) = None -> NoDup (map dir_prefix (a_src_dirs a))) ->
  snd (dcmstack_main g a i) = ORun ds e ->
  NoDup (concat (map (fun d => map fo_path (do_files d)) ds)).
Proof. exact dcmstack_paths_global. Qed.

Theorem C19_one_per_group : forall g a i ds d,
  snd (dcmstack_main g a i) = ORun ds None -> In d ds ->
  exists groups, i_groups i (do_group_call d) = Ok groups /\ length (do_files d) = length groups.
Proof. exact dcmstack_one_per_group. Qed.

(** ---------------------------------------------------------------- nitool inject *)

(** the extension is changed iff the classification is valid for it, the number of values is the
    multiplicity, and the key is new or overwriting is forced (and the values convert, which can only
    fail with an explicit --type); otherwise the exit status is 1 and nothing is written *)
Theorem C19_inject : forall V (of_stored : stored -> V) e c key values ty force,
  ((exists rc e', inject of_stored e c key values ty force = Ok (rc, Some e')) <->
   (valid_class e c = true /\ length values = x_mult e c /\ (has_key e key = false \/ force = true)) /\
   exists v, convert_values values ty = Ok v) /\
  (~ (valid_class e c = true /\ length values = x_mult e c /\ (has_key e key = false \/ force = true)) ->
   inject of_stored e c key values ty force = Ok (1%Z, None)).
Proof. exact inject_iff_and_refusal. Qed.

(** ... and then exactly the given values are stored under the key in the requested classification,
    every other key keeps its value in every classification, and of the key itself only the old
    entry is removed *)
Theorem C19_inject_effect : forall V (of_stored : stored -> V) e c key values ty force rc e',
  inject of_stored e c key values ty force = Ok (rc, Some e') ->
  rc = 0%Z /\ exists v, convert_values values ty = Ok v /\
    x_valid e' = x_valid e /\ (forall c', x_mult e' c' = x_mult e c') /\
    dict_get key (x_dict e' c) = Some (of_stored v) /\
    (forall c' k, k <> key -> dict_get k (x_dict e' c') = dict_get k (x_dict e c')) /\
    (forall c', c' <> c ->
       dict_get key (x_dict e' c') =
         if has_key e key then
           match classification e key with
           | Some cc => if clsn_eqb c' cc then None else dict_get key (x_dict e c')
           | None => dict_get key (x_dict e c')
           end
         else dict_get key (x_dict e c')).
Proof. exact inject_effect. Qed.

Theorem C19_inject_unique : forall V (of_stored : stored -> V) e c key values ty force rc e',
  uniquely_classified V e key ->
  inject of_stored e c key values ty force = Ok (rc, Some e') ->
  forall c', In c' (x_valid e') -> c' <> c -> dict_get key (x_dict e' c') = None.
Proof. exact inject_only_there. Qed.

(** ---------------------------------------------------------------- nitool: the thin wrappers
    ([cmd] abbreviates nitool_cmd applied to the abstract filesystem and library) *)

Section Wrappers.
  Variable nii : Type.
  Variable fs_load : str -> res nii.
  Variable fs_read : option str -> res str.
  Variable confirm : bool.
  Variable has_ext : nii -> bool.
  Variable with_empty : nii -> nii.
  Variable api_split : nii -> option Z -> res (list nii).
  Variable api_merge : list nii -> option Z -> res nii.
  Variable api_clear_slices : nii -> nii.
  Variable api_const_fmt : str -> nii -> res str.
  Variable api_to_json : nii -> str.
  Variable api_remove_ext : nii -> nii.
  Variable api_append_json : nii -> str -> res nii.
  Variable api_get_meta : nii -> str -> option (list Z) -> res (option str).
  Variable api_sort_val : nii -> str -> res (option Z).
  Variable V : Type.
  Variable of_stored : stored -> V.
  Variable api_ext : nii -> mext V.
  Variable api_set_ext : nii -> mext V -> nii.

  Let cmd := nitool_cmd nii fs_load fs_read confirm has_ext with_empty api_split api_merge api_clear_slices
                        api_const_fmt api_to_json api_remove_ext api_append_json api_get_meta api_sort_val
                        V of_stored api_ext api_set_ext.
  Let wrap := wrap_or_empty nii has_ext with_empty.

  (** split writes exactly what the API split returns, part k to  dir/00k-name , names distinct *)
  Theorem C19_split : forall src dim n parts,
    fs_load src = Ok n -> api_split (wrap n) dim = Ok parts ->
    exists names, no_writes nii (cmd (NSplit src dim None)) = combine names parts /\
                  no_status nii (cmd (NSplit src dim None)) = Ok (Some 0%Z) /\
                  length names = length parts /\ NoDup names /\
                  forall k, k < length parts ->
                    nth k names [] = path_join (fst (path_split src))
                                       (fmt_nat split_zero split_width k ++ split_sep ++ snd (path_split src)).
  Proof.
    exact (nitool_split_default nii fs_load fs_read confirm has_ext with_empty api_split api_merge api_clear_slices
             api_const_fmt api_to_json api_remove_ext api_append_json api_get_meta api_sort_val V of_stored api_ext api_set_ext).
  Qed.

  (** merge writes exactly what the API merge returns for the inputs in command-line order, or in
      the stably sorted order of --sort; cleared of per-slice meta data on request *)
  Theorem C19_merge : forall out srcs dim sort (clear : bool) ns,
    load_all nii fs_load has_ext with_empty srcs = Ok ns ->
    forall seq, (match truthy sort with
                 | None => seq = ns
                 | Some k => exists kl, sort_keys nii api_sort_val k ns = Ok kl /\ seq = map fst (sort_by snd kl)
                 end) ->
    forall m nm, api_merge seq dim = Ok m ->
      api_const_fmt out (if clear then api_clear_slices m else m) = Ok nm ->
      no_writes nii (cmd (NMerge out srcs dim sort clear)) = [(nm, if clear then api_clear_slices m else m)] /\
      no_status nii (cmd (NMerge out srcs dim sort clear)) = Ok (Some 0%Z).
  Proof.
    exact (nitool_merge nii fs_load fs_read confirm has_ext with_empty api_split api_merge api_clear_slices
             api_const_fmt api_to_json api_remove_ext api_append_json api_get_meta api_sort_val V of_stored api_ext api_set_ext).
  Qed.

  Theorem C19_merge_sorted : forall k ns kl,
    sort_keys nii api_sort_val k ns = Ok kl ->
    map fst kl = ns /\ Permutation (sort_by snd kl) kl /\ Sorted (key_le _ snd) (sort_by snd kl).
  Proof. exact (merge_sorted_sequence nii api_sort_val). Qed.

  (** dump followed by embed -f of the dumped text: the file is rewritten with what the library
      builds from that text -- unchanged when the library's JSON codec round-trips (C09) *)
  Theorem C19_dump_embed : forall p j n,
    fs_load p = Ok n -> has_ext n = true ->
    fs_read (Some j) = Ok (concat (map snd (no_text nii (cmd (NDump p (Some j) false false))))) ->
    api_append_json (api_remove_ext n) (api_to_json n ++ [10%N]) = Ok n ->
    no_writes nii (cmd (NDump p (Some j) false false)) = [] /\
    no_writes nii (cmd (NEmbed (Some j) p true)) = [(p, n)].
  Proof.
    exact (nitool_dump_embed nii fs_load fs_read confirm has_ext with_empty api_split api_merge api_clear_slices
             api_const_fmt api_to_json api_remove_ext api_append_json api_get_meta api_sort_val V of_stored api_ext api_set_ext).
  Qed.

  (** lookup prints what get_meta returns, and nothing when it returns None; it writes no file *)
  Theorem C19_lookup : forall key src n,
    fs_load src = Ok n -> has_ext n = true ->
    forall r, api_get_meta n key None = Ok r ->
    no_text nii (cmd (NLookup key src None)) =
      match r with Some s => [(None, s); (None, [10%N])] | None => [] end /\
    no_writes nii (cmd (NLookup key src None)) = [].
  Proof.
    exact (nitool_lookup nii fs_load fs_read confirm has_ext with_empty api_split api_merge api_clear_slices
             api_const_fmt api_to_json api_remove_ext api_append_json api_get_meta api_sort_val V of_stored api_ext api_set_ext).
  Qed.

  (** the inject sub-command rewrites the file exactly when [inject] yields an extension *)
  Theorem C19_inject_file : forall dest c key values force ty n,
    fs_load dest = Ok n ->
    no_writes nii (cmd (NInject dest c key values force ty)) =
      match inject of_stored (api_ext (wrap n)) c key values ty force with
      | Ok (_, Some e') => [(dest, api_set_ext (wrap n) e')]
      | _ => []
      end.
  Proof.
    exact (nitool_inject nii fs_load fs_read confirm has_ext with_empty api_split api_merge api_clear_slices
             api_const_fmt api_to_json api_remove_ext api_append_json api_get_meta api_sort_val V of_stored api_ext api_set_ext).
  Qed.
End Wrappers.

(** ---------------------------------------------------------------- non-vacuity *)
From Coq Require Import String.   (* only for the literals below *)

(** the F13 input: natural names a-002, a, a  ->  a-002, a, a-003  (three files, three names) *)
Example C19_names_example :
  output_names [L "a-002"%string; L "a"%string; L "a"%string; L "b c/d"%string; L "a"%string] =
  Ok [L "a-002"%string; L "a"%string; L "a-003"%string; L "b_c_d"%string; L "a-004"%string].
Proof. vm_compute. reflexivity. Qed.

(** a run with -e Foo: three groups, three distinct files, every stack filtered with defaults ++ [Foo] *)
Example C19_run_example :
  names_of_outputs (snd (dcmstack_main ex_g ex_args1 ex_inputs)) = [L "a-002.nii.gz"%string; L "a.nii.gz"%string; L "a-003.nii.gz"%string] /\
  fst (dcmstack_main ex_g ex_args1 ex_inputs) = ex_g /\
  excl_of_outputs (ODcmstack (snd (dcmstack_main ex_g ex_args1 ex_inputs))) =
    repeat (default_key_excl_res ++ [L "Foo"%string]) 3.
Proof. vm_compute. repeat split. Qed.

(** two invocations in one process: the second (without -e) filters with the defaults only, its
    ordering is read from the order file, its names come from the default format *)
Example C19_seq_example :
  map excl_of_outputs (snd (run_seq ex_g ex_seq)) =
    [repeat (default_key_excl_res ++ [L "Foo"%string]) 3; repeat default_key_excl_res 3] /\
  match snd (dcmstack_main ex_g ex_args2 ex_inputs) with
  | ORun [d] None =>
      map fo_name (do_files d) = [L "001-a-002.nii.gz"%string; L "002-a.nii.gz"%string; L "003-a.nii.gz"%string] /\
      map (fun f => sc_time_order (fo_stack f)) (do_files d) =
        repeat (Some {| o_key := L "EchoTime"%string; o_abs := Some [L "20"%string; L "10"%string]; o_abs_as_str := true |}) 3 /\
      map (fun f => nc_voxel_order (fo_nifti f)) (do_files d) = repeat (L "RAS"%string) 3
  | _ => False
  end.
Proof. vm_compute. repeat split. Qed.

(** two source directories holding the same series and one destination: the second name gets a suffix *)
Example C19_dest_dir_example :
  all_paths (snd (dcmstack_main ex_g ex_args3 ex_inputs3)) = [L "out/008-b_c.nii.gz"%string; L "out/008-b_c-000.nii.gz"%string] /\
  truthy (a_dest_dir ex_args3) <> None /\ slash_free (a_output_ext ex_args3) = true.
Proof. vm_compute. repeat split. discriminate. Qed.

(** inject: three values into ('global','slices') of a 3-slice image are stored; two are refused;
    an existing key is refused without --force-overwrite and moved with it *)
Example C19_inject_example :
  (match ex_inject GS (L "New"%string) [L "1"%string; L "2.5"%string; L "3"%string] None false with
   | Ok (0%Z, Some e') => dict_get (L "New"%string) (x_dict e' GS) <> None /\ dict_get (L "P"%string) (x_dict e' GS) = dict_get (L "P"%string) (x_dict ex_ext GS)
   | _ => False
   end) /\
  ex_inject GS (L "New"%string) [L "1"%string; L "2"%string] None false = Ok (1%Z, None) /\
  ex_inject (L "time"%string, L "samples"%string) (L "New"%string) [L "1"%string] None false = Ok (1%Z, None) /\
  ex_inject GS (L "K"%string) [L "1"%string; L "2"%string; L "3"%string] None false = Ok (1%Z, None) /\
  (match ex_inject GS (L "K"%string) [L "1"%string; L "2"%string; L "3"%string] None true with
   | Ok (0%Z, Some e') => dict_get (L "K"%string) (x_dict e' GC) = None /\
                          dict_get (L "K"%string) (x_dict e' GS) = Some (SList [IVInt 1; IVInt 2; IVInt 3])
   | _ => False
   end) /\
  ex_inject GC (L "New"%string) [L "x"%string] (Some (L "int"%string)) false = Err EValue.
Proof. vm_compute. repeat split; discriminate. Qed.
