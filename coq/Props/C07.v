(** C07 Every extension the library produces is valid (closure of validity under all operations).
    Model: Ext/Model.v (make_empty, get_subset, from_sequence) and Ext/Ops.v (filter_meta, clear_slice_meta,
    nitool inject, op sequences); spec: Ext/Spec.v [valid] (well-formed header, each key in exactly one
    admitted classification, exact value counts, no per-slice data without a slice axis) and
    [nondegenerate] (the domain restriction of the whole Ext model).

    All closure theorems are conditional on the operation returning [Ok]: in the regions of the open
    findings N1-N4 the model (like the code) returns [Err], so they need no further exclusion.

    HOOK (image level, proved on coq/Ext/Split.v / coq/Wrapper/* by the image-level agent, not here):
    after NiftiWrapper.from_sequence / to_nifti: extension shape = image shape, slice dim = header slice dim,
    affine = image affine; after split: shape, slice dim and the 3x3 part agree.  The extension-level half
    of that statement is [C07_merge_shape] / [C07_subset_shape] below. *)
From Coq Require Import List Bool Arith NArith ZArith QArith Lia.
From DV Require Import Common.Res Common.Str Common.Jv Ext.Types Ext.Seq Ext.Model Ext.Spec Ext.ValidFacts
     Ext.ProofsValidBase Ext.ProofsValidSubset Ext.ProofsValidMerge Ext.ProofsValidShape Ext.Ops Ext.ProofsValidOps.
From DV Require Conv.Meta Conv.ProofsMetaBase Conv.ProofsMetaEmbed Conv.ProofsMetaStack Conv.ProofsMetaTop Conv.ProofsMetaEx.
From DV Require Stack.Model Stack.Spec Stack.ProofsInv.
Import ListNotations.
Local Open Scope nat_scope.

(** the executable validity test used by the correspondence decides [Spec.valid] *)
Theorem C07_validb_exact :
  forall (V : Type) (e : ext V), validb e = true <-> valid e.
Proof. exact @validb_iff. Qed.

(** make_empty: every 3..5-D shape of positive extents, including (X,Y,Z,1) and (X,Y,Z,1,V) (the F6 fix) *)
Theorem C07_make_empty :
  forall (V : Type) (sh : list nat) (a : list (list Q)) (sd : option nat) (r : ext V),
    Forall (fun n => 1 <= n) sh -> make_empty sh a sd = Ok r ->
    valid r /\ nondegenerate r /\ shape (hdr_of r) = sh /\ sdim (hdr_of r) = sd /\ aff (hdr_of r) = a.
Proof.
  intros V sh a sd r Hp H. destruct (make_empty_valid sh a sd r Hp H) as [Hv Hn].
  destruct (make_empty_shape sh a sd r H) as [H1 [H2 [H3 _]]].
  split; [exact Hv|]. split; [exact Hn|]. split; [exact H1|]. split; [exact H2 | exact H3].
Qed.

Theorem C07_make_empty_total :
  forall (V : Type) (sh : list nat) (a : list (list Q)) (sd : option nat),
    3 <= length sh <= 5 -> (length a = 4 /\ Forall (fun r => length r = 4) a) ->
    (forall d, sd = Some d -> d < 3) -> exists r : ext V, make_empty sh a sd = Ok r.
Proof. exact @make_empty_total. Qed.

(** get_subset (dim inside the shape, index inside the axis) *)
Theorem C07_subset :
  forall (V : Type) (veqb : V -> V -> bool) (vnone : V),
    (forall a b, reflect (a = b) (veqb a b)) ->
    forall (e r : ext V) (dim idx : nat),
      valid e -> nondegenerate e -> dim < ndim (hdr_of e) -> idx < nth dim (shape (hdr_of e)) 0 ->
      get_subset veqb vnone e dim idx = Ok r -> valid r /\ nondegenerate r.
Proof.
  intros V veqb vnone Hspec. apply get_subset_valid. intros v. destruct (Hspec v v); congruence.
Qed.

(** from_sequence: all inputs valid and nondegenerate, with the shape and slice dimension of the first;
    the [slice_dim] argument, when given, is that slice dimension ([merge_dom]) *)
Theorem C07_merge :
  forall (V : Type) (veqb : V -> V -> bool) (vnone : V),
    (forall a b, reflect (a = b) (veqb a b)) ->
    forall (es : list (ext V)) (dim : nat) (affine : option (list (list Q))) (slice_dim : option nat) (r : ext V),
      (forall e, In e es -> valid e /\ nondegenerate e) -> merge_dom es slice_dim ->
      from_sequence veqb vnone es dim affine slice_dim = Ok r -> valid r /\ nondegenerate r.
Proof.
  intros V veqb vnone Hspec. apply from_sequence_valid. intros v. destruct (Hspec v v); congruence.
Qed.

Theorem C07_filter :
  forall (V : Type) (f : key -> list V -> bool) (e r : ext V),
    valid e -> nondegenerate e -> filter_meta f e = Ok r -> valid r /\ nondegenerate r.
Proof. exact @filter_meta_valid. Qed.

Theorem C07_clear_slices :
  forall (V : Type) (e r : ext V),
    valid e -> nondegenerate e -> clear_slice_meta e = Ok r -> valid r /\ nondegenerate r.
Proof. exact @clear_slice_meta_valid. Qed.

(** nitool inject: the result is always valid; it is nondegenerate when the injected classification is
    ('global','const') or has a multiplicity other than one *)
Theorem C07_inject :
  forall (V : Type) (e r : ext V) (c : cls) (k : key) (values : list V) (force : bool),
    valid e -> inject e c k values force = Ok r ->
    valid r /\
    (nondegenerate e -> (c = GConst \/ mult_spec (dims (hdr_of e)) c <> 1) -> nondegenerate r).
Proof.
  intros V e r c k values force Hv H. split; [apply (inject_valid e r c k values force Hv H)|].
  intros Hn Hc. apply (inject_nondegenerate e r c k values force Hv Hn Hc H).
Qed.

(** without that side condition nondegeneracy is NOT preserved: injecting one value under
    ('time','samples') into a (2,2,2,1) extension is accepted and leaves a varying class of multiplicity one
    (the real code then stores a bare value, which a later split indexes as if it were a list) *)
Definition id_aff : list (list Q) := [[1; 0; 0; 0]; [0; 1; 0; 0]; [0; 0; 1; 0]; [0; 0; 0; 1]]%Q.
Theorem C07_inject_nondegenerate_refuted :
  exists (e r : ext jv),
    make_empty [2; 2; 2; 1] id_aff (Some 2) = Ok e /\ valid e /\ nondegenerate e /\
    inject e TSamples [75]%N [JStr [97; 98; 99]%N] false = Ok r /\ valid r /\ ~ nondegenerate r.
Proof.
  eexists. eexists. split; [vm_compute; reflexivity|].
  split; [apply validb_valid; vm_compute; reflexivity|].
  split; [intros k c vs []|].
  split; [vm_compute; reflexivity|].
  split; [apply validb_valid; vm_compute; reflexivity|].
  intros Hn. apply (Hn [75]%N TSamples [JStr [97; 98; 99]%N]); [left; reflexivity | discriminate | reflexivity].
Qed.

(** every finite history of operations from a valid nondegenerate extension (each operation used inside
    its precondition [op_dom], checked along the run) ends in a valid nondegenerate extension; since every
    prefix of a history is a history, so does every intermediate result *)
Theorem C07_closure :
  forall (V : Type) (veqb : V -> V -> bool) (vnone : V),
    (forall a b, reflect (a = b) (veqb a b)) ->
    forall (ops : list (op V)) (e r : ext V),
      valid e -> nondegenerate e -> ops_dom veqb vnone ops e ->
      fold_left (fun acc o => bind acc (apply veqb vnone o)) ops (Ok e) = Ok r ->
      valid r /\ nondegenerate r.
Proof.
  intros V veqb vnone Hspec ops e r. apply (run_valid veqb vnone). intros v. destruct (Hspec v v); congruence.
Qed.

(** shape book-keeping of a merge: shape = pad (shape of the first input) with the merge axis set to the
    number of inputs; slice dim and affine are the arguments, or the first input's *)
Theorem C07_merge_shape :
  forall (V : Type) (veqb : V -> V -> bool) (vnone : V) (e0 : ext V) (rest : list (ext V)) (dim : nat)
         (affine : option (list (list Q))) (slice_dim : option nat) (r : ext V),
    from_sequence veqb vnone (e0 :: rest) dim affine slice_dim = Ok r ->
    set_nth dim (S (length rest)) (pad_to (S dim) (shape (hdr_of e0))) = Some (shape (hdr_of r)) /\
    sdim (hdr_of r) = match slice_dim with Some d => Some d | None => sdim (hdr_of e0) end /\
    aff (hdr_of r) = match affine with Some a => a | None => aff (hdr_of e0) end.
Proof. exact @from_sequence_shape. Qed.

(** shape book-keeping of a subset: the axis becomes singular and only trailing singleton dims beyond the
    third are dropped (all of them); slice dim and affine are kept *)
Theorem C07_subset_shape :
  forall (V : Type) (veqb : V -> V -> bool) (vnone : V) (e r : ext V) (dim idx : nat),
    get_subset veqb vnone e dim idx = Ok r ->
    exists sh k, set_nth dim 1 (shape (hdr_of e)) = Some sh /\
      sh = shape (hdr_of r) ++ repeat 1 k /\
      (length (shape (hdr_of r)) <= 3 \/ last (shape (hdr_of r)) 0 <> 1) /\
      3 <= length (shape (hdr_of r)) /\
      sdim (hdr_of r) = sdim (hdr_of e) /\ aff (hdr_of r) = aff (hdr_of e).
Proof. exact @get_subset_shape. Qed.

(** stack conversion (DicomStack.to_nifti with embed_meta, model Conv/Meta.v [conv_meta]): for every accepted stack
    the embedded extension is valid, its shape is the (permuted) shape of the data array, its slice dimension is
    the output axis the source slices are stacked along ([perm[2]]: [perm[i]] = output axis of input axis [i]) and
    its affine is the image's.  This is the validity half of C01_lossless (Conv/ProofsMetaTop.v [lossless_top]),
    restated; hypotheses as there ([normals_ok]: open finding N9). *)
Theorem C07_conversion_valid :
  forall (V : Type) (veqb : V -> V -> bool) (vnone : V), (forall a b, reflect (a = b) (veqb a b)) ->
  forall (ms : list (Conv.Meta.mfile V)) (st : Stack.Model.state) (vo : Stack.Model.vorder) (perm : list nat)
         (oaff : list (list Q)) (filt : key -> bool),
    Stack.ProofsInv.wf st -> Conv.ProofsMetaStack.covers ms st -> Conv.ProofsMetaStack.metas_ok ms ->
    Conv.ProofsMetaStack.normals_ok ms -> Conv.ProofsMetaEmbed.is_perm3 perm -> Conv.ProofsMetaBase.aff_ok oaff ->
    forall st' o, Stack.Model.to_nifti st vo true = (st', Ok o) ->
    exists e,
      Conv.Meta.conv_meta veqb vnone ms st vo perm oaff filt = (st', Ok e) /\
      valid e /\
      shape (hdr_of e) = Conv.Meta.permute_shape perm (Stack.Model.o_shape o) /\
      sdim (hdr_of e) = Some (nth 2 perm 2) /\ aff (hdr_of e) = oaff.
Proof.
  intros V veqb vnone Hspec ms st vo perm oaff filt Hwf Hcov Hm Hn Hp Ha st' o Ho.
  destruct (@Conv.ProofsMetaTop.lossless_top V veqb vnone Hspec ms st vo perm oaff filt Hwf Hcov Hm Hn Hp Ha st' o Ho)
    as [S [T [Vn [r [c [e [_ [_ [_ [_ [_ [He [Hv [Hs [Hd [Haff _]]]]]]]]]]]]]]]].
  exists e. split; [exact He|]. split; [exact Hv|]. split; [exact Hs|]. split; [exact Hd | exact Haff].
Qed.

(** * Non-vacuity *)
Definition ex_aff : list (list Q) := [[2; 0; 0; -8]; [0; 0; 1 # 2; 3]; [0; -1; 0; 0]; [0; 0; 0; 1]]%Q.
Definition ex5 : ext jv :=
  mk_ext (mk_hdr [2; 2; 2; 3; 2] (Some 1) ex_aff true true)
    [([116]%N, (TSamples, [JInt 10; JInt 11; JInt 12; JInt 13; JInt 14; JInt 15]));
     ([118]%N, (VSamples, [JInt 20; JInt 21]));
     ([115]%N, (TSlices, [JInt 30; JInt 31]));
     ([119]%N, (VSlices, [JInt 40; JInt 41; JInt 42; JInt 43; JInt 44; JInt 45]));
     ([103]%N, (GSlices, map JInt [50; 51; 52; 53; 54; 55; 56; 57; 58; 59; 60; 61]%Z));
     ([99]%N, (GConst, [JStr [97]%N]))].
Definition ex3 (v : Z) : ext jv :=
  mk_ext (mk_hdr [2; 2; 3] (Some 2) ex_aff false false)
    [([115]%N, (GSlices, [JInt 1; JInt 2; JInt v])); ([99]%N, (GConst, [JInt v]))].

Example ex5_ok : valid ex5 /\ nondegenerate ex5.
Proof.
  assert (Hv : valid ex5) by (apply validb_valid; vm_compute; reflexivity).
  split; [exact Hv | apply (nondegenerateb_nondegenerate _ Hv); vm_compute; reflexivity].
Qed.
Example ex3_ok v : valid (ex3 v) /\ nondegenerate (ex3 v).
Proof.
  assert (Hv : valid (ex3 v)) by (apply validb_valid; vm_compute; reflexivity).
  split; [exact Hv | apply (nondegenerateb_nondegenerate _ Hv); vm_compute; reflexivity].
Qed.

Example C07_validb_exact_nonvacuous : validb ex5 = true /\ validb (mk_ext (hdr_of ex5) (([116]%N, (GConst, [JNull])) :: entries ex5)) = false.
Proof. split; vm_compute; reflexivity. Qed.

Example C07_make_empty_nonvacuous :
  (exists r : ext jv, make_empty [3; 4; 5; 1] id_aff (Some 2) = Ok r /\ validb r = true /\ has_time (hdr_of r) = true) /\
  (exists r : ext jv, make_empty [3; 4; 5; 1; 6] id_aff None = Ok r /\ validb r = true /\ has_time (hdr_of r) = false /\ has_vec (hdr_of r) = true).
Proof. split; eexists; repeat split; vm_compute; reflexivity. Qed.

Example C07_subset_nonvacuous :
  valid ex5 /\ nondegenerate ex5 /\
  exists r, get_subset jv_eqb JNull ex5 1 1 = Ok r /\ validb r = true /\ nondegenerateb r = true /\ length (entries r) = 6 /\
  exists r4, get_subset jv_eqb JNull ex5 4 0 = Ok r4 /\ validb r4 = true /\ shape (hdr_of r4) = [2; 2; 2; 3].
Proof.
  split; [apply ex5_ok|]. split; [apply ex5_ok|].
  eexists. split; [vm_compute; reflexivity|]. repeat split; try (vm_compute; reflexivity).
  eexists. repeat split; vm_compute; reflexivity.
Qed.

Example C07_merge_nonvacuous :
  (forall e, In e [ex3 3; ex3 4; ex3 3] -> valid e /\ nondegenerate e) /\ merge_dom [ex3 3; ex3 4; ex3 3] None /\
  exists r, from_sequence jv_eqb JNull [ex3 3; ex3 4; ex3 3] 3 None None = Ok r /\
            validb r = true /\ nondegenerateb r = true /\ shape (hdr_of r) = [2; 2; 3; 3] /\
            map fst (map snd (entries r)) = [GSlices; TSamples].
Proof.
  split; [intros e [<-|[<-|[<-|[]]]]; apply ex3_ok|].
  split; [split; [reflexivity|]; intros e [<-|[<-|[<-|[]]]]; split; reflexivity|].
  eexists. split; [vm_compute; reflexivity|]. repeat split; vm_compute; reflexivity.
Qed.

Example C07_filter_clear_nonvacuous :
  exists r, filter_meta (fun k _ => key_eqb k [116]%N) ex5 = Ok r /\ length (entries r) = 5 /\ validb r = true /\
  exists r2, clear_slice_meta ex5 = Ok r2 /\ map fst (entries r2) = [[116]%N; [118]%N; [99]%N] /\ validb r2 = true.
Proof.
  eexists. split; [vm_compute; reflexivity|]. split; [reflexivity|]. split; [vm_compute; reflexivity|].
  eexists. split; [vm_compute; reflexivity|]. split; vm_compute; reflexivity.
Qed.

Example C07_inject_nonvacuous :
  (exists r, inject ex5 VSamples [110]%N [JInt 1; JInt 2] false = Ok r /\ validb r = true /\ nondegenerateb r = true /\ length (entries r) = 7) /\
  inject ex5 VSamples [110]%N [JInt 1] false = Err EValue /\
  inject ex5 VSamples [116]%N [JInt 1; JInt 2] false = Err EValue /\
  (exists r, inject ex5 VSamples [116]%N [JInt 1; JInt 2] true = Ok r /\ validb r = true /\ length (entries r) = 6 /\
             lookup_e r [116]%N = Some (VSamples, [JInt 1; JInt 2])) /\
  inject (ex3 3) TSamples [110]%N [JInt 1] false = Err EValue.
Proof.
  split; [eexists; repeat split; vm_compute; reflexivity|].
  split; [vm_compute; reflexivity|]. split; [vm_compute; reflexivity|].
  split; [eexists; repeat split; vm_compute; reflexivity | vm_compute; reflexivity].
Qed.

(** a history through every kind of operation; the preconditions hold along the run *)
Definition ex5_p0 : ext jv :=
  match get_subset jv_eqb JNull ex5 4 0 with Ok r => r | Err _ => ex5 end.
Definition ex_ops : list (op jv) :=
  [OSubset 4 1;
   OMerge [ex5_p0] [] 4 None None;
   OFilter (fun k _ => key_eqb k [118]%N);
   OClearSlices;
   OInject GConst [110]%N [JInt 7] false;
   OSubset 3 2].

Example C07_closure_nonvacuous :
  valid ex5 /\ nondegenerate ex5 /\ ops_dom jv_eqb JNull ex_ops ex5 /\
  exists r, fold_left (fun acc o => bind acc (apply jv_eqb JNull o)) ex_ops (Ok ex5) = Ok r /\
            validb r = true /\ nondegenerateb r = true /\ shape (hdr_of r) = [2; 2; 2; 1; 2] /\
            map fst (entries r) = [[116]%N; [99]%N; [110]%N].
Proof.
  split; [apply ex5_ok|]. split; [apply ex5_ok|]. split.
  - unfold ex_ops. cbn [ops_dom].
    split; [cbn; split; lia|]. intros e1 H1. vm_compute in H1. injection H1 as <-.
    split.
    { cbn [op_dom]. split.
      - intros x [<-|[]].
        assert (Hv : valid ex5_p0) by (apply validb_valid; vm_compute; reflexivity).
        split; [exact Hv | apply (nondegenerateb_nondegenerate _ Hv); vm_compute; reflexivity].
      - cbn [app merge_dom]. split; [reflexivity|]. intros e [<-|[<-|[]]]; split; vm_compute; reflexivity. }
    intros e2 H2. vm_compute in H2. injection H2 as <-.
    split; [exact I|]. intros e3 H3. vm_compute in H3. injection H3 as <-.
    split; [exact I|]. intros e4 H4. vm_compute in H4. injection H4 as <-.
    split; [left; reflexivity|]. intros e5 H5. vm_compute in H5. injection H5 as <-.
    split; [cbn; split; lia|]. intros e6 H6. exact I.
  - eexists. split; [vm_compute; reflexivity|]. repeat split; vm_compute; reflexivity.
Qed.

Example C07_shape_nonvacuous :
  (exists r, from_sequence jv_eqb JNull [ex3 3; ex3 4] 4 (Some id_aff) (Some 2) = Ok r /\
             shape (hdr_of r) = [2; 2; 3; 1; 2] /\ aff (hdr_of r) = id_aff /\ sdim (hdr_of r) = Some 2) /\
  (exists r, get_subset jv_eqb JNull (mk_ext (mk_hdr [2; 2; 2; 1; 2] (Some 1) ex_aff false true) []) 4 0 = Ok r /\
             shape (hdr_of r) = [2; 2; 2]).
Proof. split; eexists; repeat split; vm_compute; reflexivity. Qed.

(** C07_conversion_valid: the 2 x 2 x 2 grid of C01's example, cyclic axis permutation [1;2;0] (slice axis moved to
    output axis 0), every volume reversed: the hypotheses hold, the stack converts, and the embedded extension has
    the permuted shape and slice dimension perm[2] = 0 *)
Example C07_conversion_valid_nonvacuous :
  (Stack.ProofsInv.wf Conv.ProofsMetaEx.ex_st /\ Conv.ProofsMetaStack.covers Conv.ProofsMetaEx.ex_ms Conv.ProofsMetaEx.ex_st /\
   Conv.ProofsMetaStack.metas_ok Conv.ProofsMetaEx.ex_ms /\ Conv.ProofsMetaStack.normals_ok Conv.ProofsMetaEx.ex_ms /\
   Conv.ProofsMetaEmbed.is_perm3 Conv.ProofsMetaEx.ex_perm /\ Conv.ProofsMetaBase.aff_ok Conv.ProofsMetaEx.ex_oaff) /\
  (exists st' o, Stack.Model.to_nifti Conv.ProofsMetaEx.ex_st Conv.ProofsMetaEx.ex_vo true = (st', Ok o) /\
                 Stack.Model.o_shape o = [2; 3; 2; 2; 2]) /\
  exists e, Conv.ProofsMetaEx.ex_result = Ok e /\ shape (hdr_of e) = [2; 2; 3; 2; 2] /\ sdim (hdr_of e) = Some 0 /\
            Conv.ProofsMetaEx.ex_perm = [1; 2; 0].
Proof.
  split; [exact Conv.ProofsMetaEx.ex_hyps|]. split.
  - destruct Conv.ProofsMetaEx.ex_nifti as [st' [o [H1 [H2 _]]]]. exists st', o. split; assumption.
  - destruct Conv.ProofsMetaEx.ex_lossless as [e [H1 [H2 [H3 _]]]]. exists e. repeat split; assumption.
Qed.
