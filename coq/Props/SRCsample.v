(** Source equality, extension algebra — theorems only (stage C, second part: _copy_sample).
    DcmMetaExtension._copy_sample(other, src_class, sample_base, idx), TRANSLATED on every run in state-passing style with two
    instances (Generated/T_src_state.v [copy_sample_st]: `self` = the result being filled, `other` = the source, only read),
    refines the per-key model: it is Ext.Model.copy_sample_k applied to the keys of the source class dictionary in dictionary
    order ([copy_sample_all]: the statements that run once per class, then the fold; [SRC_copy_sample_step] says each step of
    that fold IS copy_sample_k), on a result content that holds the per-key states [f] (Ext/SrcEqState.v [Holds]) and does not
    hold the copied keys yet.  The eight loops of the method are instances of one lemma (Ext/SrcEqSample.v [put_loop]); the
    loop pair "store every key, then _simplify every key" is shown to compute what the single pass computes ([two_pass]). *)
From Coq Require Import List Bool Arith NArith ZArith.
From DV Require Import Common.Res Common.Str Common.Jv Common.PyOps2 Common.PyOps2Dyn Generated.T_classes Generated.T_src_state
     Ext.Types Ext.Classes Ext.Seq Ext.Model Ext.SrcEqAlg Ext.SrcEqState Ext.SrcEqSubset Ext.SrcEqSample.
Import ListNotations.
Local Open Scope nat_scope.

(** one step of the fold is the model's per-key function (ho = header of the source, hr = header of the result):
    a plan (destination class, values, simplify afterwards or not), then put and possibly simplify_k *)
Theorem SRC_copy_sample_step : forall (ho hr : hdr) (c : cls) (vs : list jv) (sb : cbase) (idx : nat),
  copy_sample_k jv_eqb JNull ho hr c vs sb idx = bind (sample_plan ho hr c sb idx vs) (run_plan hr).
Proof. exact copy_sample_k_plan. Qed.

(** hypotheses: the result content holds [f]; 3..5-D headers, the valid classes of the result have their base dictionaries;
    src_class is not ('global','const') and sample_base is 'time' or 'vector' (the only calls get_subset makes); the source
    class dictionary is the list [d] of (key, values) with distinct keys the result does not hold; whenever _simplify is
    called, what was stored is a valid non-degenerate class ([st_ok]); and the same-base samples case does not write a
    multiplicity-1 varying class (DESIGN §3.2: there the code stores a bare value) *)
Theorem SRC_copy_sample : forall (o : list (str * jv)) (ho hr : hdr) (f : key -> kst jv) (ost : jv) (c : cls) (sb : cbase)
    (idx : nat) (d : list (key * list jv)),
  Holds o hr f -> ndim_ok hr = true -> bases_ok hr -> ndim_ok ho = true ->
  (c = GSlices -> sb = BVector -> n_slices ho = None -> 4 <= ndim ho) ->
  c <> GConst -> sb <> BGlobal ->
  get_class_dict_st ost (name_of_cls c) = Ok (JObj (items d)) ->
  NoDup (map fst d) -> (forall k, In k (map fst d) -> f k = None) ->
  (forall k vs dd vals, In (k, vs) d -> sample_plan ho hr c sb idx vs = Ok (dd, vals, true) -> st_ok hr dd vals) ->
  (is_samples c = true -> base_of c = sb ->
   forall dest, sample_dest hr c = Ok dest -> multiplicity hr dest = Ok 1 -> dest = GConst) ->
  match copy_sample_all ho hr c sb idx d f with
  | Ok f' => exists o', copy_sample_st classifications (shape hr) (n_slices hr) preserving_changes (okeys const_tests)
                          (okeys repeat_tests) (JObj o) classifications (shape ho) (n_slices ho) ost (name_of_cls c)
                          (name_of_base sb) idx = Ok (tt, JObj o') /\ Holds o' hr f'
  | Err e => copy_sample_st classifications (shape hr) (n_slices hr) preserving_changes (okeys const_tests)
                          (okeys repeat_tests) (JObj o) classifications (shape ho) (n_slices ho) ost (name_of_cls c)
                          (name_of_base sb) idx = Err e
  end.
Proof. exact copy_sample_st_ref. Qed.

(** non-vacuity: time sample 1 of a 5-D source (3 times x 2 vectors) whose per-time-sample key "k" holds 0,1,2,10,11,12:
    the result (one time point, two vectors) receives 1,11 as ('vector','samples') through the two-pass site *)
Definition exs_ho : hdr := mk_hdr [2; 2; 2; 3; 2] (Some 2) [] true true.
Definition exs_hr : hdr := mk_hdr [2; 2; 2; 1; 2] (Some 2) [] false true.
Definition exs_d : list (key * list jv) := [([107]%N, map JInt [0; 1; 2; 10; 11; 12]%Z)].
Definition exs_src : jv :=
  JObj [(name_of_base BGlobal, JObj [(name_of_sub SConst, JObj []); (name_of_sub SSlices, JObj [])]);
        (name_of_base BTime, JObj [(name_of_sub SSamples, JObj (items exs_d)); (name_of_sub SSlices, JObj [])]);
        (name_of_base BVector, JObj [(name_of_sub SSamples, JObj []); (name_of_sub SSlices, JObj [])])].
Definition exs_res : list (str * jv) :=
  [(name_of_base BGlobal, JObj [(name_of_sub SConst, JObj []); (name_of_sub SSlices, JObj [])]);
   (name_of_base BVector, JObj [(name_of_sub SSamples, JObj []); (name_of_sub SSlices, JObj [])])].

Example SRC_copy_sample_example :
  copy_sample_st classifications (shape exs_hr) (n_slices exs_hr) preserving_changes (okeys const_tests) (okeys repeat_tests)
                 (JObj exs_res) classifications (shape exs_ho) (n_slices exs_ho) exs_src (name_of_cls TSamples) (name_of_base BTime) 1
  = Ok (tt, JObj [(name_of_base BGlobal, JObj [(name_of_sub SConst, JObj []); (name_of_sub SSlices, JObj [])]);
                  (name_of_base BVector, JObj [(name_of_sub SSamples, JObj [([107]%N, JArr (map JInt [1; 11]%Z))]);
                                               (name_of_sub SSlices, JObj [])])]) /\
  get_class_dict_st exs_src (name_of_cls TSamples) = Ok (JObj (items exs_d)) /\
  (exists f', copy_sample_all exs_ho exs_hr TSamples BTime 1 exs_d (fun _ => None) = Ok f' /\
              f' [107]%N = Some (VSamples, map JInt [1; 11]%Z)) /\
  sample_plan exs_ho exs_hr TSamples BTime 1 (map JInt [0; 1; 2; 10; 11; 12]%Z) = Ok (VSamples, map JInt [1; 11]%Z, true) /\
  st_ok exs_hr VSamples (map JInt [1; 11]%Z) /\
  sample_dest exs_hr TSamples = Ok VSamples /\ multiplicity exs_hr VSamples = Ok 2 /\
  ndim_ok exs_hr = true /\ ndim_ok exs_ho = true.
Proof.
  split; [vm_compute; reflexivity|]. split; [vm_compute; reflexivity|].
  split; [eexists; split; vm_compute; reflexivity|]. split; [vm_compute; reflexivity|].
  split; [split; [vm_compute; reflexivity|]; split; [intros H; discriminate H|]; split; [intros _; vm_compute; discriminate | intros _; discriminate]|].
  split; [vm_compute; reflexivity|]. split; [vm_compute; reflexivity|]. split; reflexivity.
Qed.
