(** Source equality, key filter — theorems only.  The hand-written model Filter.Model.key_regex_filter is equal
    to the definitions TRANSLATED on every run from the current Python source of dcmstack.make_key_regex_filter
    and of its inner function (Generated/T_src_filter.v; translator tools/tables/py2coq.py, primitives
    Common/PyOps2.v).  A compiled pattern is represented by its search predicate. *)
From Coq Require Import List Bool Arith NArith.
From DV Require Import Common.Res Common.Str Common.PyOps2 Generated.T_src_filter Filter.Model Filter.SrcEq.
Import ListNotations.
Local Open Scope nat_scope.

(** the inner function of dcmstack.make_key_regex_filter, for every regex engine [matches], every pattern
    lists and every key; [exclude_re_of] / [include_re_of] are what the outer function binds *)
Theorem SRC_key_regex_filter : forall (matches : str -> str -> bool) (V : Type) (exclude_res : list str)
    (force_include_res : option (list str)) (key : str) (value : V),
  key_regex_filter_src (exclude_re_of matches exclude_res) (include_re_of matches force_include_res) key value =
  Ok (key_regex_filter matches exclude_res force_include_res key).
Proof. exact (fun m V => @key_regex_filter_src_eq m V). Qed.

(** dcmstack.make_key_regex_filter(exclude_res, force_include_res)(key, value), the whole function: [re.compile] is
    the parameter [re_compile]; hypothesis = the assumption documented in Filter/Model.v (the compiled
    '(?:p1)|(?:p2)|...' alternation matches iff one of the parts does; '' matches everything) *)
Theorem SRC_make_key_regex_filter : forall (matches re_compile : str -> str -> bool),
  (forall pats key, re_compile (alternation pats) key = joined_search matches pats key) ->
  forall (V : Type) (exclude_res : list str) (force_include_res : option (list str)) (key : str) (value : V),
  make_key_regex_filter_src re_compile exclude_res force_include_res key value =
  Ok (key_regex_filter matches exclude_res force_include_res key).
Proof. exact (fun m c H V => @make_key_regex_filter_src_eq m c H V). Qed.

Example SRC_key_regex_filter_example :
  let m := literal_matches in
  key_regex_filter_src (exclude_re_of m [[80; 97]%N]) (include_re_of m (Some [[80; 97; 116]%N])) [80; 97; 116]%N tt = Ok false /\
  key_regex_filter_src (exclude_re_of m [[80; 97]%N]) (include_re_of m (Some [])) [80; 97; 116]%N tt = Ok true /\
  key_regex_filter_src (exclude_re_of m [[80; 97]%N]) (include_re_of m None) [88]%N tt = Ok false.
Proof. vm_compute. repeat split. Qed.

(** the hypothesis of SRC_make_key_regex_filter is satisfiable by a non-constant pair, and the translated outer
    function builds the alternation the hand model describes *)
Example SRC_make_key_regex_filter_example :
  (forall pats key, toy_compile (alternation pats) key = joined_search toy_matches pats key) /\
  alternation [[80; 97]%N; [68]%N] = [40; 63; 58; 80; 97; 41; 124; 40; 63; 58; 68; 41]%N /\
  make_key_regex_filter_src toy_compile [[80]%N] (Some []) (@nil N) tt = Ok true /\
  make_key_regex_filter_src toy_compile [[80]%N] (Some [[81]%N]) (@nil N) tt = Ok false /\
  make_key_regex_filter_src toy_compile [[80]%N] None [80]%N tt = Ok false.
Proof. split; [exact toy_compile_alternation | vm_compute; repeat split]. Qed.
