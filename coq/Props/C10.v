(** C10  The validity check accepts exactly the extensions that meet the format rules.
    Model: Content/Model.v (check_valid and its callees, from_json, from_runtime_repr, NiftiWrapper.__init__).
    TWO rule sets:
      Content/Rules.v  valid_rules = the rules LITERALLY as the property states them;
      Content/Spec.v   valid_spec  = what check_valid really inspects (weaker: open finding N14).
    C10_accepts: everything the property admits is accepted.  C10_iff: the code checks exactly valid_spec.
    C10_gap: what is accepted beyond valid_rules is one of five explicit blind spots, each shown to be real
    by a C10_gap_*_refuted witness.  C10_iff_rules: away from the blind spots the check is exact for the
    literal rules.  Proofs: Content/Proofs*.v. *)
From Coq Require Import List Bool ZArith NArith QArith.
From DV Require Import Common.Res Common.Str Common.Jv Generated.T_content
  Content.PyVal Content.Model Content.Spec Content.Rules Content.ProofsClasses Content.ProofsMain
  Content.ProofsRules Content.ProofsCorrupt Content.ProofsOutside Content.ProofsTop Content.Examples.
Import ListNotations.
Open Scope Z_scope.

(** The check accepts a content iff it meets every rule THAT THE CODE CHECKS ([valid_spec]; see
    C10_accepts / C10_gap / C10_iff_rules for its relation to the property's literal rules). *)
Theorem C10_iff :
  forall c : jv, wf_domain c = true -> (check_valid c = Ok tt <-> valid_spec c = true).
Proof. exact check_valid_iff_spec. Qed.

Example C10_iff_nonvacuous :
  wf_domain ex_content = true /\ check_valid ex_content = Ok tt /\ valid_spec ex_content = true /\
  wf_domain (JObj ex_short) = true /\ check_valid (JObj ex_short) = Err EInvalidExt /\
  valid_spec (JObj ex_short) = false.
Proof. vm_compute. repeat split; reflexivity. Qed.

(** Rejections that do not go through the rules: every [Err] is a rejection; a content that is not
    a dict raises TypeError, a missing version KeyError, an unknown version KeyError (TypeError
    when it is unhashable). *)
Theorem C10_reject_outside :
  (forall c e, check_valid c = Err e -> check_valid c <> Ok tt) /\
  (forall c, is_dict c = false -> check_valid c = Err EType) /\
  (forall o, jassoc K_version o = None -> check_valid (JObj o) = Err EKey) /\
  (forall o v, jassoc K_version o = Some v -> version_fields v = None ->
               check_valid (JObj o) = Err EKey \/ check_valid (JObj o) = Err EType).
Proof. exact reject_outside_thm. Qed.

Example C10_reject_outside_nonvacuous :
  check_valid (JArr []) = Err EType /\
  check_valid (JObj (jdel K_version ex_obj)) = Err EKey /\
  check_valid (JObj (jset K_version (JNum [48; 46; 55]%N) ex_obj)) = Err EKey /\
  check_valid (JObj (jset K_version (JArr []) ex_obj)) = Err EType.
Proof. vm_compute. repeat split; reflexivity. Qed.

(** Every single corruption of the kinds listed by the property, applied to a valid content so
    that it breaks a rule (the side conditions of [corrupts]), falsifies that rule and is rejected. *)
Theorem C10_corruptions :
  forall (o o' : obj) (k : ckind),
    valid_spec (JObj o) = true -> corrupts k o o' ->
    holds (broken_rule k) o' = false /\
    (wf_domain (JObj o') = true -> check_valid (JObj o') <> Ok tt).
Proof. exact corruptions_thm. Qed.

Example C10_corruptions_nonvacuous :
  valid_spec (JObj ex_obj) = true /\
  corrupts KChangeValueCount ex_obj ex_short /\ wf_domain (JObj ex_short) = true /\
  corrupts KDupKey ex_obj ex_dup /\ wf_domain (JObj ex_dup) = true /\
  corrupts KVersion ex_obj ex_v06 /\ wf_domain (JObj ex_v06) = true /\
  corrupts KDropField ex_obj (jdel K_affine ex_obj) /\
  corrupts KSliceDim ex_obj (jset K_slice_dim (JInt 3) ex_obj) /\
  corrupts KShapeLen ex_obj (jset K_shape (JArr [JInt 2; JInt 2]) ex_obj) /\
  corrupts KShapeEntry ex_obj (jset K_shape (JArr [JInt 2; JInt 2; JInt 4; JInt 2]) ex_obj) /\
  corrupts KAffine ex_obj (jset K_affine (JArr []) ex_obj) /\
  corrupts KDropBase ex_obj (jdel N_time ex_obj) /\
  corrupts KDropSub ex_obj (jset N_time (JObj (jdel N_slices [(N_samples, JObj ex_tsamples); (N_slices, JObj ex_tslices)])) ex_obj).
Proof.
  assert (Hin : forall cl, In cl [cl_gconst; cl_gslices; cl_tsamples; cl_tslices] ->
                           In cl (valid_classes_spec ex_shape)) by (intros cl H; exact H).
  repeat split; try (vm_compute; reflexivity).
  - apply (C_value_count ex_obj ex_shape (Some 2%nat) cl_tslices Time Slices ex_tslices
             [83; 108; 105; 99; 101; 76; 111; 99; 97; 116; 105; 111; 110]%N
             [JInt 0; JInt 1; JInt 2] [JInt 0; JInt 1]);
      try reflexivity; try (apply Hin; simpl; tauto); simpl; discriminate.
  - apply (C_dup_key ex_obj ex_shape cl_gconst cl_tsamples ex_const ex_tsamples);
      try reflexivity; try (apply Hin; simpl; tauto); discriminate.
  - apply C_version. vm_compute.
    exists [100; 99; 109; 109; 101; 116; 97; 95; 114; 101; 111; 114; 105; 101; 110; 116; 95; 116; 114; 97; 110; 115; 102; 111; 114; 109]%N.
    repeat split; try reflexivity. right; left; reflexivity.
  - apply (C_drop_field ex_obj K_affine (JNum [48; 46; 53]%N)
             [K_affine; K_shape; K_slice_dim; K_version; N_global]); try reflexivity. left; reflexivity.
  - apply C_slice_dim. reflexivity.
  - apply C_shape_len. left. simpl. auto.
  - apply (C_shape_entry ex_obj ex_shape [JInt 2; JInt 2; JInt 4; JInt 2] (Some 2%nat) cl_tslices
             Time Slices ex_tslices
             ([83; 108; 105; 99; 101; 76; 111; 99; 97; 116; 105; 111; 110]%N, JArr [JInt 0; JInt 1; JInt 2]));
      try reflexivity; try (apply Hin; simpl; tauto); try (vm_compute; tauto); try discriminate.
  - apply C_affine. reflexivity.
  - apply (C_drop_base ex_obj ex_shape cl_tslices); try reflexivity. apply Hin; simpl; tauto.
  - apply (C_drop_sub ex_obj ex_shape cl_tslices); try reflexivity. apply Hin; simpl; tauto.
Qed.

(** Double corruptions: the rules are independent clauses, each reading a few top-level fields.
    (1) whatever was done to a content, if the result breaks a rule it is rejected;
    (2) a second corruption that leaves the fields of a broken rule alone leaves it broken. *)
Theorem C10_doubles :
  (forall c, wf_domain c = true -> valid_spec c = false -> check_valid c <> Ok tt) /\
  (forall (o1 o2 : obj) (r : rule),
     holds r o1 = false -> same_fields (reads r) o1 o2 ->
     holds r o2 = false /\ (wf_domain (JObj o2) = true -> check_valid (JObj o2) <> Ok tt)).
Proof. exact doubles_thm. Qed.

Example C10_doubles_nonvacuous :
  holds RCounts ex_short = false /\ same_fields (reads RCounts) ex_short ex_double /\
  wf_domain (JObj ex_double) = true /\ check_valid (JObj ex_double) = Err EInvalidExt.
Proof.
  repeat split; try (vm_compute; reflexivity).
  intros k Hk. unfold ex_double. rewrite jassoc_jset.
  destruct (str_eqb k K_affine) eqn:E; [|reflexivity].
  apply str_eqb_eq in E. subst k. exfalso. vm_compute in Hk.
  repeat (destruct Hk as [Hk|Hk]; [discriminate Hk|]). exact Hk.
Qed.

(** Neither loading from JSON, nor from_runtime_repr, nor wrapping an image hands back content that
    check_valid rejects; and an image whose candidates are all invalid is refused
    (MissingExtensionError) unless make_empty.  [parse] stands for json.loads. *)
Theorem C10_gate :
  (forall (parse : str -> res jv) s c,
     from_json parse s = Ok c ->
     parse s = Ok c /\ check_valid c = Ok tt /\ (wf_domain c = true -> valid_spec c = true)) /\
  (forall c c', from_runtime_repr c = Ok c' ->
     c' = c /\ check_valid c = Ok tt /\ (wf_domain c = true -> valid_spec c = true)) /\
  (forall exts make_empty empty i c,
     wrapper_init exts make_empty empty = Ok (i, c) ->
     check_valid c = Ok tt /\ (wf_domain c = true -> valid_spec c = true) /\
     match i with
     | Some n => nth_error exts n = Some (dcm_meta_ecode, c)
     | None => make_empty = true /\ c = empty
     end) /\
  (forall exts empty,
     (forall code c, In (code, c) exts -> code = dcm_meta_ecode -> check_valid c = Err EInvalidExt) ->
     wrapper_init exts false empty = Err EMissingExt).
Proof. exact gate_thm. Qed.

Example C10_gate_nonvacuous :
  from_json (fun _ => Ok ex_content) [] = Ok ex_content /\
  from_json (fun _ => Ok (JObj ex_short)) [] = Err EInvalidExt /\
  wrapper_init [(0, JObj ex_short); (6, JStr []); (0, ex_content)] false JNull = Ok (Some 2%nat, ex_content) /\
  wrapper_init [(0, JObj ex_short); (0, JObj ex_dup)] false JNull = Err EMissingExt /\
  wrapper_init [(0, ex_content); (0, ex_content)] false JNull = Err EValue.
Proof. vm_compute. repeat split; reflexivity. Qed.

(** get_valid_classes / get_multiplicity compute the documented class set and number of values. *)
Theorem C10_multiplicity :
  forall (o : obj) (zs : list Z) (sd : option nat),
    jassoc K_shape o = Some (JArr (map JInt zs)) ->
    (3 <= length zs)%nat -> (length zs <= 5)%nat ->
    slice_dim_value o = Some sd ->
    get_valid_classes (JObj o) = Ok (valid_classes_spec (map JInt zs)) /\
    forall cl b s, In cl (valid_classes_spec (map JInt zs)) -> decode cl = Some (b, s) ->
                   get_multiplicity (JObj o) cl = Ok (n_expected (map JInt zs) sd b s).
Proof. exact multiplicity_thm. Qed.

Example C10_multiplicity_nonvacuous :
  get_valid_classes ex_content = Ok [cl_gconst; cl_gslices; cl_tsamples; cl_tslices] /\
  map (get_multiplicity ex_content) [cl_gconst; cl_gslices; cl_tsamples; cl_tslices] = [Ok 1; Ok 6; Ok 2; Ok 3].
Proof. vm_compute. split; reflexivity. Qed.

(** Everything the property's literal rules admit is accepted (no domain hypothesis needed), and
    meets the rules the code checks. *)
Theorem C10_accepts :
  forall c : jv, valid_rules c = true ->
    check_valid c = Ok tt /\ valid_spec c = true /\ wf_domain c = true.
Proof. exact (fun c H => conj (rules_accepted c H) (conj (rules_accept_spec c H) (rules_wf c H))). Qed.

Example C10_accepts_nonvacuous : valid_rules ex_content = true /\ gap ex_content = false.
Proof. vm_compute. split; reflexivity. Qed.

(** The gap, exactly: a content that passes what the code checks but not the literal rules shows
    one of the five blind spots; without a blind spot the two rule sets agree. *)
Theorem C10_gap :
  (forall c : jv, valid_spec c = true -> valid_rules c = false -> gap c = true) /\
  (forall c : jv, valid_spec c = true -> gap c = false -> valid_rules c = true) /\
  (forall o : obj, gap (JObj o) =
     gap_nonpositive o || gap_affine o || gap_degenerate o || gap_sized o || gap_stale o).
Proof. exact (conj gap_exact (conj spec_gap (fun o => eq_refl))). Qed.

Example C10_gap_nonvacuous :
  valid_spec gapw_degenerate = true /\ valid_rules gapw_degenerate = false /\ gap gapw_degenerate = true.
Proof. vm_compute. repeat split; reflexivity. Qed.

(** The property's literal iff is FALSE of the code (open finding N14): for each blind spot a content
    inside the domain that check_valid accepts and the literal rules reject. *)
Theorem C10_gap_degenerate_refuted :
  exists o, wf_domain (JObj o) = true /\ check_valid (JObj o) = Ok tt /\ valid_rules (JObj o) = false /\
            gap_degenerate o = true.
Proof. exists (match gapw_degenerate with JObj o => o | _ => [] end). vm_compute. repeat split; reflexivity. Qed.

Theorem C10_gap_stale_refuted :
  exists o, wf_domain (JObj o) = true /\ check_valid (JObj o) = Ok tt /\ valid_rules (JObj o) = false /\
            gap_stale o = true /\ rule_unique o = true.
Proof. exists (match gapw_stale with JObj o => o | _ => [] end). vm_compute. repeat split; reflexivity. Qed.

Theorem C10_gap_nonpositive_refuted :
  exists o, wf_domain (JObj o) = true /\ check_valid (JObj o) = Ok tt /\ valid_rules (JObj o) = false /\
            gap_nonpositive o = true.
Proof. exists (match gapw_nonpositive with JObj o => o | _ => [] end). vm_compute. repeat split; reflexivity. Qed.

Theorem C10_gap_affine_refuted :
  exists o, wf_domain (JObj o) = true /\ check_valid (JObj o) = Ok tt /\ valid_rules (JObj o) = false /\
            gap_affine o = true.
Proof. exists (match gapw_affine with JObj o => o | _ => [] end). vm_compute. repeat split; reflexivity. Qed.

Theorem C10_gap_sized_refuted :
  exists o, wf_domain (JObj o) = true /\ check_valid (JObj o) = Ok tt /\ valid_rules (JObj o) = false /\
            gap_sized o = true.
Proof. exists (match gapw_sized with JObj o => o | _ => [] end). vm_compute. repeat split; reflexivity. Qed.

(** Away from the blind spots the check is exact for the property's literal rules. *)
Theorem C10_iff_rules :
  forall c : jv, wf_domain c = true -> gap c = false ->
    (check_valid c = Ok tt <-> valid_rules c = true).
Proof. exact check_valid_iff_rules. Qed.

Example C10_iff_rules_nonvacuous :
  wf_domain ex_content = true /\ gap ex_content = false /\ check_valid ex_content = Ok tt /\
  wf_domain (JObj ex_short) = true /\ gap (JObj ex_short) = false /\
  check_valid (JObj ex_short) = Err EInvalidExt /\ valid_rules (JObj ex_short) = false.
Proof. vm_compute. repeat split; reflexivity. Qed.
