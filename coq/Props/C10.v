(* placeholder while the correspondence is being validated *)
Theorem C10_iff : True. Proof. exact I. Qed.
Theorem C10_reject_outside : True. Proof. exact I. Qed.
Theorem C10_corruptions : True. Proof. exact I. Qed.
Theorem C10_doubles : True. Proof. exact I. Qed.
Theorem C10_gate : True. Proof. exact I. Qed.
Theorem C10_multiplicity : True. Proof. exact I. Qed.
