(** C05 Split o merge and merge o split are identities -- IMAGE half.
    [C05img_split_merge]: the pieces of [split] merge back (in order, along the same dim) to the parent's voxels,
    affine (entry by entry as rationals) and header slice dim; the hypothesis on [unitv] is needed only for a
    spatial dim and only at the one vector the code normalises there: column [dim] of the parent's affine.
    [C05img_merge_split]: splitting a merged image returns the inputs' voxels, in order.
    Model: Wrapper/Model.v; vocabulary: Wrapper/Spec.v. *)
From Coq Require Import List Bool Arith ZArith NArith QArith Lia.
From DV Require Import Common.Res Common.Str Common.Jv Ext.Types Ext.Model Ext.Spec Ext.ProofsSimplifyCanon Ext.ProofsRoundtrip
     Ext.ProofsRoundtripEx Orient.Model Wrapper.Model Wrapper.Spec Wrapper.Corr
     Wrapper.ProofsRT Wrapper.ProofsUnit Wrapper.ProofsRTW.
Import ListNotations.
Local Open Scope nat_scope.

Theorem C05img_split_merge :
  forall (unitv : vec -> vec) (im : img) (dim : nat) (ps : list img),
    wf_img im -> length (ishape im) <= 5 ->
    split_img_at im dim = Ok ps ->
    (2 <= nth dim (ishape im) 0 \/ (3 <= dim /\ 1 <= nth dim (ishape im) 0)) ->
    (dim < 3 -> near_zero (col3 (iaff im) dim) = false /\ unit_ok_at unitv (col3 (iaff im) dim)) ->
    exists r, from_sequence_img unitv ps (Some dim) = Ok r /\
      ishape r = merged_shape (trim_ones (set_nth dim 1 (ishape im))) dim (nth dim (ishape im) 0) /\
      wf_img r /\
      (forall idx, in_bounds (ishape r) idx = true ->
                   aget (iarr r) idx = aget (iarr im) (pad_zeros (length (ishape im)) idx)) /\
      (forall i k, i < 4 -> k < 4 -> (mentry (iaff r) i k == mentry (iaff im) i k)%Q) /\
      islice r = islice im /\
      (no_trailing_one (ishape im) dim -> ishape r = ishape im /\ idata r = idata im) /\
      (reduced (iaff im) -> iaff r = iaff im).
Proof. exact split_merge_law. Qed.

Theorem C05img_merge_split :
  forall (unitv : vec -> vec) (ims : list img) (odim : option nat) (r im0 : img) (rest : list img) (dim : nat),
    ims = im0 :: rest -> uniform ims (ishape im0) -> 3 <= length (ishape im0) ->
    resolve_merge_dim (ishape im0) odim = Ok dim ->
    from_sequence_img unitv ims odim = Ok r ->
    exists ps, split_img r (Some dim) = Ok ps /\ length ps = length ims /\
      forall i, i < length ims ->
        let p := nth i ps im0 in
        ishape p = trim_ones (ishape im0) /\ idata p = idata (nth i ims im0) /\ islice p = islice r /\
        (3 <= dim -> iaff p = iaff r).
Proof. exact merge_split_law. Qed.

(** WRAPPER level: [w.split(dim)] followed by [from_sequence(pieces, dim)] returns the wrapper itself -- same shape,
    voxel list, affine (the same matrix, not just the same rationals: the parent's entries are reduced fractions and
    the merged column is stored reduced), header slice dim, and an extension equal to the parent's as an unordered
    map ([ext_equiv]); the result is again consistent, in the domain and canonical, so the statement iterates.
    This composes [C05img_split_merge] with the extension-level [C05_split_merge], whose affine ARGUMENT must be
    the parent's affine itself. *)
Theorem C05w_split_merge :
  forall (V : Type) (veqb : V -> V -> bool) (vnone : V), (forall a b, reflect (a = b) (veqb a b)) ->
  forall (unitv : vec -> vec) (im : img) (e : ext V) (dim : nat) (ws : list (wrapper V)),
    wf_img im -> reduced (iaff im) -> consistent (im, e) ->
    rt_dom e -> canonical vnone e -> hdr_tight (hdr_of e) -> rt_axis e dim ->
    (dim < 3 -> near_zero (col3 (iaff im) dim) = false /\ unit_ok_at unitv (col3 (iaff im) dim)) ->
    split_w veqb vnone (im, e) (Some dim) = Ok ws ->
    exists r e', from_sequence_w veqb vnone unitv ws (Some dim) = Ok (r, e') /\
      ishape r = ishape im /\ idata r = idata im /\ iaff r = iaff im /\ islice r = islice im /\
      ext_equiv e e' /\ consistent (r, e') /\ rt_dom e' /\ canonical vnone e'.
Proof. exact @split_merge_w. Qed.

(* ------------------------------------------------------------------------------------------ non-vacuity *)

Definition exC : mat := [[3 # 2; -4 # 1; 0; 10]; [2 # 1; 3 # 1; 0; -8 # 1]; [0; 0; 5 # 2; 3]; [0; 0; 0; 1]]%Q.
Definition exI : img := mk_img [3; 2; 1] [1; 2; 3; 4; 5; 6]%Z exC (Some 0).

Lemma reduced_b (A : mat) : forallb (forallb (fun q => Qeq_bool (Qred q) q && Z.eqb (Qnum (Qred q)) (Qnum q) && Pos.eqb (Qden (Qred q)) (Qden q))) A = true -> reduced A.
Proof.
  intros H. apply Forall_forall. intros r Hr. apply Forall_forall. intros q Hq.
  rewrite forallb_forall in H. specialize (H r Hr). rewrite forallb_forall in H. specialize (H q Hq).
  apply andb_prop in H as [H H3]. apply andb_prop in H as [_ H2]. apply Z.eqb_eq in H2. apply Pos.eqb_eq in H3.
  destruct (Qred q) as [a b], q as [c d]. cbn [Qnum Qden] in *. congruence.
Qed.

(** every hypothesis of [C05img_split_merge] for the oblique image [exI] along dim 0 (column (1.5, 2, 0), norm 2.5)
    with the exact normalisation, and the round trip is the identity (the affine as the same matrix) *)
Example C05img_split_merge_nonvacuous :
  wf_img exI /\ length (ishape exI) <= 5 /\ 2 <= nth 0 (ishape exI) 0 /\
  near_zero (col3 (iaff exI) 0) = false /\ unit_ok_at unit_exact (col3 (iaff exI) 0) /\
  no_trailing_one (ishape exI) 0 /\ reduced (iaff exI) /\
  exists ps r, split_img_at exI 0 = Ok ps /\ length ps = 3 /\ from_sequence_img unit_exact ps (Some 0) = Ok r /\
               ishape r = ishape exI /\ idata r = idata exI /\ iaff r = iaff exI.
Proof.
  split; [split; reflexivity|]. split; [cbn; lia|]. split; [cbn; lia|]. split; [reflexivity|].
  split; [apply unit_exact_ok_at; vm_compute; reflexivity|].
  split; [left; cbn; lia|]. split; [apply reduced_b; vm_compute; reflexivity|].
  eexists. eexists. split; [vm_compute; reflexivity|]. split; [reflexivity|].
  split; [vm_compute; reflexivity|]. repeat split.
Qed.

(** every hypothesis of [C05img_merge_split]: two (2,1,1) inputs merged along a new 5th axis and split again *)
Example C05img_merge_split_nonvacuous :
  let a := mk_img [2; 1; 1] [1; 2]%Z exC None in
  let b := mk_img [2; 1; 1] [3; 4]%Z exC None in
  uniform [a; b] (ishape a) /\ 3 <= length (ishape a) /\ resolve_merge_dim (ishape a) (Some 4) = Ok 4 /\
  exists r ps,
    from_sequence_img unit_exact [a; b] (Some 4) = Ok r /\
    ishape r = [2; 1; 1; 1; 2] /\ idata r = [1; 3; 2; 4]%Z /\
    split_img r (Some 4) = Ok ps /\ map idata ps = [[1; 2]; [3; 4]]%Z /\ map ishape ps = [[2; 1; 1]; [2; 1; 1]].
Proof.
  cbv zeta. split.
  - intros im [<-|[<-|[]]]; (split; [reflexivity|]); split; reflexivity.
  - split; [cbn; lia|]. split; [reflexivity|].
    eexists. eexists. split; [vm_compute; reflexivity|]. split; [reflexivity|]. split; [reflexivity|].
    split; [vm_compute; reflexivity|]. split; reflexivity.
Qed.

(** every hypothesis of [C05w_split_merge]: the 5-D extension [c05_ex] (one key per class) on its own 48-voxel image,
    along the slice axis 1 (a spatial axis: column (0,0,-1) is normalised) and along time; the round trip returns the
    wrapper itself *)
Definition exR : img := mk_img [2; 2; 2; 3; 2] (map Z.of_nat (seq 0 48)) c05_aff (Some 1).

Example C05w_split_merge_nonvacuous :
  wf_img exR /\ reduced (iaff exR) /\ consistent (exR, c05_ex) /\
  rt_dom c05_ex /\ canonical JNull c05_ex /\ hdr_tight (hdr_of c05_ex) /\ rt_axis c05_ex 1 /\ rt_axis c05_ex 3 /\
  near_zero (col3 (iaff exR) 1) = false /\ unit_ok_at unit_exact (col3 (iaff exR) 1) /\
  (exists ws, split_w jv_eqb JNull (exR, c05_ex) (Some 1) = Ok ws /\ length ws = 2 /\
              from_sequence_w jv_eqb JNull unit_exact ws (Some 1) = Ok (exR, c05_ex)) /\
  (exists ws, split_w jv_eqb JNull (exR, c05_ex) (Some 3) = Ok ws /\ length ws = 3 /\
              from_sequence_w jv_eqb JNull unit_exact ws (Some 3) = Ok (exR, c05_ex)).
Proof.
  split; [split; reflexivity|]. split; [apply reduced_b; vm_compute; reflexivity|]. split; [repeat split|].
  split; [exact c05_ex_dom|]. split; [exact c05_ex_canonical|]. split; [exact c05_ex_tight|].
  split; [split; [left; reflexivity | split; cbn; lia]|]. split; [split; [right; left; reflexivity | split; cbn; lia]|].
  split; [reflexivity|]. split; [apply unit_exact_ok_at; vm_compute; reflexivity|].
  split; eexists; (split; [vm_compute; reflexivity|]); split; [reflexivity | vm_compute; reflexivity | reflexivity | vm_compute; reflexivity].
Qed.
