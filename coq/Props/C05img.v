(** C05 Split o merge and merge o split are identities -- IMAGE half.
    [C05img_split_merge]: the pieces of [split] merge back (in order, along the same dim) to the parent's voxels,
    affine (entry by entry as rationals) and header slice dim; the hypothesis on [unitv] is needed only for a
    spatial dim and only at the one vector the code normalises there: column [dim] of the parent's affine.
    [C05img_merge_split]: splitting a merged image returns the inputs' voxels, in order.
    Model: Wrapper/Model.v; vocabulary: Wrapper/Spec.v. *)
From Coq Require Import List Bool Arith ZArith QArith Lia.
From DV Require Import Common.Res Ext.Model Orient.Model Wrapper.Model Wrapper.Spec Wrapper.Corr
     Wrapper.ProofsRT Wrapper.ProofsUnit.
Import ListNotations.
Local Open Scope nat_scope.

Theorem C05img_split_merge :
  forall (unitv : vec -> vec) (im : img) (dim : nat) (ps : list img),
    wf_img im -> length (ishape im) <= 5 ->
    split_img_at im dim = Ok ps ->
    (2 <= nth dim (ishape im) 0 \/ (3 <= dim /\ 1 <= nth dim (ishape im) 0)) ->
    (dim < 3 -> near_zero (col3 (iaff im) dim) = false /\ unit_ok_at unitv (col3 (iaff im) dim)) ->
    exists r, from_sequence_img unitv ps (Some dim) = Ok r /\
      ishape r = merged_shape (trim_ones (set_nth dim 1 (ishape im))) dim (nth dim (ishape im) 0) /\
      wf_img r /\
      (forall idx, in_bounds (ishape r) idx = true ->
                   aget (iarr r) idx = aget (iarr im) (pad_zeros (length (ishape im)) idx)) /\
      (forall i k, i < 4 -> k < 4 -> (mentry (iaff r) i k == mentry (iaff im) i k)%Q) /\
      islice r = islice im /\
      (no_trailing_one (ishape im) dim -> ishape r = ishape im /\ idata r = idata im).
Proof. exact split_merge_law. Qed.

Theorem C05img_merge_split :
  forall (unitv : vec -> vec) (ims : list img) (odim : option nat) (r im0 : img) (rest : list img) (dim : nat),
    ims = im0 :: rest -> uniform ims (ishape im0) -> 3 <= length (ishape im0) ->
    resolve_merge_dim (ishape im0) odim = Ok dim ->
    from_sequence_img unitv ims odim = Ok r ->
    exists ps, split_img r (Some dim) = Ok ps /\ length ps = length ims /\
      forall i, i < length ims ->
        let p := nth i ps im0 in
        ishape p = trim_ones (ishape im0) /\ idata p = idata (nth i ims im0) /\ islice p = islice r /\
        (3 <= dim -> iaff p = iaff r).
Proof. exact merge_split_law. Qed.

(* ------------------------------------------------------------------------------------------ non-vacuity *)

Definition exC : mat := [[3 # 2; -4 # 1; 0; 10]; [2 # 1; 3 # 1; 0; -8 # 1]; [0; 0; 5 # 2; 3]; [0; 0; 0; 1]]%Q.
Definition exI : img := mk_img [3; 2; 1] [1; 2; 3; 4; 5; 6]%Z exC (Some 0).

(** the hypotheses hold for the oblique image [exI] along dim 0 (column (1.5, 2, 0), norm 2.5) with the exact
    normalisation, and the round trip is the identity *)
Example C05img_split_merge_nonvacuous :
  wf_img exI /\ near_zero (col3 (iaff exI) 0) = false /\ unit_ok_at unit_exact (col3 (iaff exI) 0) /\
  no_trailing_one (ishape exI) 0 /\
  exists ps r, split_img_at exI 0 = Ok ps /\ length ps = 3 /\ from_sequence_img unit_exact ps (Some 0) = Ok r /\
               ishape r = ishape exI /\ idata r = idata exI /\ map (map Qred) (iaff r) = iaff exI.
Proof.
  split; [split; reflexivity|]. split; [reflexivity|]. split; [apply unit_exact_ok_at; vm_compute; reflexivity|].
  split; [left; cbn; lia|]. eexists. eexists. split; [vm_compute; reflexivity|]. split; [reflexivity|].
  split; [vm_compute; reflexivity|]. repeat split.
Qed.

(** two (2,1,1) inputs merged along a new 5th axis and split again *)
Example C05img_merge_split_nonvacuous :
  exists r ps,
    from_sequence_img unit_exact [mk_img [2; 1; 1] [1; 2]%Z exC None; mk_img [2; 1; 1] [3; 4]%Z exC None] (Some 4) = Ok r /\
    ishape r = [2; 1; 1; 1; 2] /\ idata r = [1; 3; 2; 4]%Z /\
    split_img r (Some 4) = Ok ps /\ map idata ps = [[1; 2]; [3; 4]]%Z /\ map ishape ps = [[2; 1; 1]; [2; 1; 1]].
Proof. eexists. eexists. split; [vm_compute; reflexivity|]. split; [reflexivity|]. split; [reflexivity|]. split; [vm_compute; reflexivity|]. split; reflexivity. Qed.
