(** C06 for extensions PRODUCED BY CONVERSION (audit 1, item 9): every key of the extension embedded by
    DicomStack.to_nifti is stored at its simplest classification.

    Model: Conv/Full.v ([conv_full]); the embed block is Conv/Meta.v ([file_ext], [nest] = the three levels of
    from_sequence along slice / time / vector, [rewrite_hdr] = the assignments meta_ext.shape / slice_dim / affine,
    [filter_meta]).  [canonical_mod_none vnone e] (Ext/ProofsCanonSubset.v): [e] is valid and every entry sits at THE
    canonical class of what it denotes ([canon_class], Ext/Spec.v: the admitted class of least preference rank
    const < vector samples < time samples < time slices < vector slices < global slices that can represent the values);
    "mod none": a key that is None in every file may be present (necessarily as the constant None).
    Hypotheses as C01 ([covers], [metas_ok], [normals_ok] -- the latter forced by the open finding N9). *)
From Coq Require Import List Bool Arith ZArith NArith QArith Qcanon.
From DV Require Import Common.Res Common.Str Common.Jv
  Stack.Model Stack.ProofsShape Stack.ProofsInv
  Orient.Model Conv.Geom Conv.Header Conv.ExamplesGeom
  Ext.Types Ext.Model Ext.Spec Ext.ProofsCanonSubset
  Conv.Meta Conv.ProofsMetaBase Conv.ProofsMetaStack
  Conv.Full Conv.FullCanon Conv.FullCanonTop Conv.FullEx.
Import ListNotations.
Local Open Scope nat_scope.

(** The per-file extensions are canonical; so is the nested extension [m] BEFORE the rewrite of shape / slice_dim /
    affine; so is it AFTER the rewrite (same entries, same (S, T, V), same denotation); and so is the embedded
    extension [e] after filter_meta.  The stages are THE ones the conversion went through: the final file order, the
    shape of the reoriented array, slice_dim and affine of the geometry half. *)
Theorem C06_conversion_canonical :
  forall (V : Type) (veqb : V -> V -> bool) (vnone : V), (forall a b, reflect (a = b) (veqb a b)) ->
  forall (gs : list gfile) (ms : list (mfile V)) (st : state) (code : str) (filt : key -> bool) st' go h oe,
    wf st -> covers ms st -> metas_ok ms -> normals_ok ms ->
    conv_full veqb vnone gs ms st code true filt = (st', Ok (go, h, oe)) ->
    exists e fs exts m h1,
      oe = Some e /\
      mapM (find_mfile ms) (o_order (go_nifti go)) = Ok fs /\
      mapM (file_ext (V := V)) fs = Ok exts /\ (forall x, In x exts -> canonical_mod_none vnone x) /\
      nest veqb vnone exts (ashape (go_data go)) (h_slice_dim h) = Ok m /\ canonical_mod_none vnone m /\
      rewrite_hdr (hdr_of m) (ashape (go_data go)) (h_slice_dim h) (go_aff go) = Ok h1 /\
      canonical_mod_none vnone (mk_ext h1 (entries m)) /\
      dims h1 = dims (hdr_of m) /\ (forall k p, den vnone (mk_ext h1 (entries m)) k p = den vnone m k p) /\
      filter_meta filt (mk_ext h1 (entries m)) = Ok e /\ canonical_mod_none vnone e.
Proof.
  intros V veqb vnone Hs gs ms st code filt st' go h oe Hwf Hcov Hms Hnorm.
  exact (conv_canonical veqb vnone Hs gs ms st code filt Hwf Hcov Hms Hnorm st' go h oe).
Qed.

(** In the property's words (1): a value identical -- and not None -- in ALL source files is a global constant of the
    embedded extension, readable without an index (NiftiWrapper.__getitem__). *)
Theorem C06_conversion_const_readable :
  forall (V : Type) (veqb : V -> V -> bool) (vnone : V), (forall a b, reflect (a = b) (veqb a b)) ->
  forall (gs : list gfile) (ms : list (mfile V)) (st : state) (code : str) (filt : key -> bool) st' go h e k x,
    wf st -> covers ms st -> metas_ok ms -> normals_ok ms ->
    conv_full veqb vnone gs ms st code true filt = (st', Ok (go, h, Some e)) ->
    filt k = false -> x <> vnone ->
    (forall f m, In f (files st) -> find_mfile ms (f_id f) = Ok m -> meta_lookup vnone m k = x) ->
    lookup_e e k = Some (GConst, [x]) /\ getitem e k = Ok x.
Proof.
  intros V veqb vnone Hs gs ms st code filt st' go h e k x Hwf Hcov Hms Hnorm.
  exact (conv_const_readable veqb vnone Hs gs ms st code filt Hwf Hcov Hms Hnorm st' go h e k x).
Qed.

(** In the property's words (2): a value that only changes per volume -- equal in the S files of every volume of the
    final file order (= the S slices of that volume, C01_voxel_lossless / C20_hdr_slice_axis) -- is stored once per
    volume or less: never in a per-slice classification, with at most T * V values. *)
Theorem C06_conversion_per_volume :
  forall (V : Type) (veqb : V -> V -> bool) (vnone : V), (forall a b, reflect (a = b) (veqb a b)) ->
  forall (gs : list gfile) (ms : list (mfile V)) (st : state) (code : str) (filt : key -> bool) st' go h e k c0 vs,
    wf st -> covers ms st -> metas_ok ms -> normals_ok ms ->
    conv_full veqb vnone gs ms st code true filt = (st', Ok (go, h, Some e)) ->
    lookup_e e k = Some (c0, vs) ->
    (forall S T Vn vol s s' m m', dims (hdr_of e) = (S, T, Vn) -> vol < T * Vn -> s < S -> s' < S ->
       find_mfile ms (nth (s + S * vol) (o_order (go_nifti go)) 0) = Ok m ->
       find_mfile ms (nth (s' + S * vol) (o_order (go_nifti go)) 0) = Ok m' ->
       meta_lookup vnone m k = meta_lookup vnone m' k) ->
    is_slices c0 = false /\ length vs = mult_spec (dims (hdr_of e)) c0 /\
    length vs <= snd (fst (dims (hdr_of e))) * snd (dims (hdr_of e)).
Proof.
  intros V veqb vnone Hs gs ms st code filt st' go h e k c0 vs Hwf Hcov Hms Hnorm.
  exact (conv_per_volume veqb vnone Hs gs ms st code filt Hwf Hcov Hms Hnorm st' go h e k c0 vs).
Qed.

(** The final extension says at grid position (s,t,v) what file number s + S (t + T v) of the final order carried
    (the link between the two corollaries above and the sources). *)
Theorem C06_conversion_den :
  forall (V : Type) (veqb : V -> V -> bool) (vnone : V), (forall a b, reflect (a = b) (veqb a b)) ->
  forall (gs : list gfile) (ms : list (mfile V)) (st : state) (code : str) (filt : key -> bool) st' go h e,
    wf st -> covers ms st -> metas_ok ms -> normals_ok ms ->
    conv_full veqb vnone gs ms st code true filt = (st', Ok (go, h, Some e)) ->
    canonical_mod_none vnone e /\
    exists S T Vn,
      1 <= S /\ 1 <= T /\ 1 <= Vn /\ dims (hdr_of e) = (S, T, Vn) /\ length (o_order (go_nifti go)) = S * T * Vn /\
      forall s t v, s < S -> t < T -> v < Vn ->
        exists m, find_mfile ms (nth (s + S * (t + T * v)) (o_order (go_nifti go)) 0) = Ok m /\
                  In (m_file m) (files st) /\
                  forall k, den vnone e k (s, t, v) = if filt k then vnone else meta_lookup vnone m k.
Proof.
  intros V veqb vnone Hs gs ms st code filt st' go h e Hwf Hcov Hms Hnorm.
  exact (conv_canonical_den veqb vnone Hs gs ms st code filt Hwf Hcov Hms Hnorm st' go h e).
Qed.

(* ----------------------------------------------------------------------------- non-vacuity *)
(** the 8-file sagittal series of Conv/FullEx.v, voxel order "LAS" (slice axis moved to output axis 0 and flipped):
    six keys end up in five different classifications, each the canonical one *)

Example C06_conversion_canonical_ex :
  (wf fx_st /\ covers fx_ms fx_st /\ metas_ok fx_ms /\ normals_ok fx_ms) /\
  (exists st', conv_full jv_eqb JNull fx_gs fx_ms fx_st ex_LAS true fx_filt = (st', Ok (fx_go, fx_h, Some fx_e))) /\
  shape (hdr_of fx_e) = [2; 2; 2; 2; 2] /\ sdim (hdr_of fx_e) = Some 0 /\ dims (hdr_of fx_e) = (2, 2, 2) /\
  map (fun k => lookup_e fx_e k) fx_keys =
  [Some (TSlices, [JInt 100; JInt 101]);                                 (* per slice, in OUTPUT slice order *)
   Some (TSamples, [JInt 0; JInt 10; JInt 1; JInt 11]);                  (* once per volume *)
   Some (VSamples, [JInt 0; JInt 1]);                                    (* once per vector component *)
   Some (GConst, [JStr [120]%N]);                                        (* identical in all files *)
   Some (GConst, [JNull]);                                               (* None everywhere: kept as the constant None *)
   Some (GSlices, [JInt 0; JInt 1; JInt 2; JInt 3; JInt 4; JInt 5; JInt 6; JInt 7])].
Proof.
  split; [exact (conj fx_wf (conj fx_covers (conj fx_metas_ok fx_normals_ok)))|].
  split; [eexists; exact fx_conv|]. repeat split; vm_compute; reflexivity.
Qed.

Example C06_conversion_const_readable_ex :
  fx_filt fk_const = false /\ JStr [120]%N <> JNull /\
  (forall m, In m fx_ms -> meta_lookup JNull m fk_const = JStr [120]%N) /\
  getitem fx_e fk_const = Ok (JStr [120]%N) /\ getitem fx_e fk_vol = Err EKey.
Proof.
  split; [reflexivity|]. split; [discriminate|]. split.
  - intros m Hm. cbn [fx_ms fx_cells map In fst snd] in Hm.
    repeat (destruct Hm as [<-|Hm]; [reflexivity|]). contradiction.
  - split; vm_compute; reflexivity.
Qed.

Example C06_conversion_per_volume_ex :
  lookup_e fx_e fk_vol = Some (TSamples, [JInt 0; JInt 10; JInt 1; JInt 11]) /\
  (* the files of every volume of the final order 0 1 | 2 3 | 4 5 | 6 7 agree on "vol" *)
  map (fun id => match find_mfile fx_ms id with Ok m => meta_lookup JNull m fk_vol | Err _ => JNull end)
      (o_order (go_nifti fx_go)) = [JInt 0; JInt 0; JInt 10; JInt 10; JInt 1; JInt 1; JInt 11; JInt 11] /\
  is_slices TSamples = false /\ mult_spec (dims (hdr_of fx_e)) TSamples = 4.
Proof. repeat split; vm_compute; reflexivity. Qed.

Example C06_conversion_den_ex :
  den JNull fx_e fk_file (0, 1, 0) = JInt 2 /\ den JNull fx_e fk_file (1, 1, 0) = JInt 3 /\
  nth (1 + 2 * (1 + 2 * 0)) (o_order (go_nifti fx_go)) 0 = 3.
Proof. repeat split; vm_compute; reflexivity. Qed.
