(** C20 (header half)  Header timing and axis info stay consistent with the sources after reordering.

    Model: DV.Conv.Header on top of DV.Conv.Geom ([conv] = DicomStack.to_nifti without the meta-data
    extension).  The slice-time statement is about the ARGUMENT handed to nibabel's set_slice_times
    (nibabel's encoder, which may refuse the pattern, is not modelled).  TM strings: see Props/C20.v. *)
From Coq Require Import List Bool Arith ZArith NArith QArith Qcanon Lia.
From DV Require Import Common.Res Common.Str Common.F64 Generated.T_conv
  Stack.Model Stack.Spec Stack.ProofsShape Stack.ProofsInv
  Orient.Model Orient.Spec Orient.ProofsAff
  Conv.Geom Conv.GeomSpec Conv.Header Conv.ProofsGeomAff Conv.ProofsHeaderTop Conv.ExamplesGeom.
Import ListNotations.
Local Open Scope nat_scope.

(** The slice axis recorded in the header is permutation[2]; it is a spatial axis of length S (the number of
    slices), and it IS the axis along which the source slices are stacked (C02_values gives the voxel
    [idx'] of pixel (i, j) of the file in cell (s, t, v)): that voxel has coordinate s - or S - 1 - s when
    the reorientation flipped that axis ([cf f2 S s]) - on the slice axis, and its other coordinates do
    not depend on s.  After the in-place reversal the file list follows the OUTPUT slice order: position
    k of every volume holds the file whose pixels sit at output slice k. *)
Theorem C20_hdr_slice_axis : forall gs st code embed st' go h,
  reachable st -> gfiles_ok gs st ->
  conv gs st code embed = (st', Ok (go, h)) ->
  exists S T V r c f2,
    0 < S /\ 0 < T /\ 0 < V /\ o_shape (go_nifti go) = grid_shape r c S T V /\
    h_slice_dim h = nth 2 (go_perm go) 0 /\ snd (h_dim_info h) = Some (h_slice_dim h) /\
    h_slice_dim h < 3 /\ h_n_slices h = S /\ nth (h_slice_dim h) (ashape (go_data go)) 0 = S /\
    nth 2 (go_flips go) 1%Z = f2 /\
    (forall idx' i j s t v,
       s < S -> t < T -> v < V ->
       in_bounds (ashape (go_data go)) idx' = true ->
       apply_aff (go_T go) idx' = Some (cell_idx (length (grid_shape r c S T V)) i j s t v) ->
       nth (h_slice_dim h) idx' 0 = cf f2 S s) /\
    (forall idx1 idx2 i j s1 s2 t v a,
       s1 < S -> s2 < S -> t < T -> v < V ->
       in_bounds (ashape (go_data go)) idx1 = true -> in_bounds (ashape (go_data go)) idx2 = true ->
       apply_aff (go_T go) idx1 = Some (cell_idx (length (grid_shape r c S T V)) i j s1 t v) ->
       apply_aff (go_T go) idx2 = Some (cell_idx (length (grid_shape r c S T V)) i j s2 t v) ->
       a <> h_slice_dim h -> nth a idx1 0 = nth a idx2 0) /\
    (forall vol k, vol < T * V -> k < S ->
       file_at gs (o_order (go_nifti go)) (vol * S + k) = file_at gs (go_ord0 go) (vol * S + cf f2 S k)).
Proof. exact slice_axis_reachable. Qed.

(** Frequency / phase axes: (permutation[0], permutation[1]) when the one phase-encoding direction of the
    series is 'ROW', swapped for any other single value, and (None, None) unless the direction is unique and
    present in every file ([pe_dirs st] is the stack's set of InPlanePhaseEncodingDirection values, None for
    a file without one). *)
Theorem C20_hdr_freq_phase : forall gs st code embed st' go h,
  reachable st -> conv gs st code embed = (st', Ok (go, h)) ->
  let perm := go_perm go in
  (forall p, pe_dirs st = [Some p] -> p = phase_row ->
     h_dim_info h = (Some (nth 0 perm 0), Some (nth 1 perm 0), Some (nth 2 perm 0))) /\
  (forall p, pe_dirs st = [Some p] -> p <> phase_row ->
     h_dim_info h = (Some (nth 1 perm 0), Some (nth 0 perm 0), Some (nth 2 perm 0))) /\
  ((forall p, pe_dirs st <> [Some p]) ->
     h_dim_info h = (None, None, Some (nth 2 perm 0))).
Proof. exact freq_phase_reachable. Qed.

(** World directions: column permutation[k] of the output affine is column k of the unreordered affine times
    flips[k] = +-1; unreordered axis 0 (the one recorded as frequency axis for 'ROW') runs along the DICOM
    column direction cosine iop[3:6], axis 1 (phase for 'ROW') along the row direction cosine iop[0:3] of the
    first sorted file, scaled by the pixel spacing, x and y negated (LPS -> RAS). *)
Theorem C20_hdr_directions : forall gs st code embed st' go h,
  reachable st -> conv gs st code embed = (st', Ok (go, h)) ->
  (forall k i, k < 3 -> i < 3 ->
     (mentry (go_aff go) i (nth k (go_perm go) 0%nat) == inject_Z (nth k (go_flips go) 1%Z) * mentry (go_aff0 go) i k)%Q) /\
  (forall k, k < 3 -> (nth k (go_flips go) 1%Z = 1%Z \/ nth k (go_flips go) 1%Z = (-1)%Z)) /\
  (forall i, i < 3 ->
     (mentry (go_aff0 go) i 0 == sg i * (vget (row_dir (go_first go)) i * fst (g_ps (go_first go))))%Q /\
     (mentry (go_aff0 go) i 1 == sg i * (vget (col_dir (go_first go)) i * snd (g_ps (go_first go))))%Q).
Proof. exact directions_reachable. Qed.

(** Units are ('mm', 'msec'); pixdim[4] is written exactly when the stack's set of RepetitionTime values is
    one number (present in every file), and then it is that number. *)
Theorem C20_hdr_tr : forall gs st code embed st' go h,
  reachable st -> conv gs st code embed = (st', Ok (go, h)) ->
  h_units h = xyzt_units /\
  (forall q, h_pixdim4 h = Some q <-> exists tr : Qc, rep_times st = [Some tr] /\ q = this tr).
Proof. exact tr_reachable. Qed.

(** Slice times: a list [l] is handed to set_slice_times iff there is more than one slice, every file has an
    AcquisitionTime, [l] = the relative times ([rel_times]: time - earliest, see C20_hdr_rel_times) of the
    first S files of the list AFTER the reversal - i.e. by C20_hdr_slice_axis of the files at output slices
    0 .. S-1 of the first volume -, every other volume's relative times are np.allclose to [l], and [l] is not
    all (close to) zero. *)
Theorem C20_hdr_slice_times : forall gs st code embed st' go h,
  reachable st -> gfiles_ok gs st ->
  conv gs st code embed = (st', Ok (go, h)) ->
  exists S T V r c,
    0 < S /\ 0 < T /\ 0 < V /\ o_shape (go_nifti go) = grid_shape r c S T V /\
    let fin := o_order (go_nifti go) in
    forall l,
      h_slice_times h = Some l <->
      (1 < S /\ forallb (has_acq gs) fin = true /\
       rel_times gs (firstn S fin) = Ok l /\
       (forall vol, 1 <= vol < T * V ->
          exists lv, rel_times gs (chunk_at S vol fin) = Ok lv /\ close_list np_rtol np_atol l lv = true) /\
       all_zero l = false).
Proof. exact slice_times_reachable. Qed.

Theorem C20_hdr_rel_times : forall gs idl l,
  rel_times gs idl = Ok l <->
  exists ts, mapM (acq_seconds gs) idl = Ok ts /\ l = map (fun x => fsub x (qmin ts)) ts.
Proof. exact rel_times_meaning. Qed.

(* ----------------------------------------------------------------------------- non-vacuity *)
(** the sagittal 2 x 2 x 3 x 2 series of Conv/ExamplesGeom.v with voxel order "LAS": the slice axis becomes
    output axis 0 and is flipped, so the files of each volume are reversed in place *)

Example C20_hdr_slice_axis_ex :
  reachable ex_st /\ gfiles_ok ex_gs ex_st /\
  exists st', conv ex_gs ex_st ex_LAS false = (st', Ok (ex_go, ex_h)) /\
    go_perm ex_go = [2; 1; 0] /\ go_flips ex_go = [1; -1; -1]%Z /\ h_slice_dim ex_h = 0 /\
    go_ord0 ex_go = [2; 1; 0; 5; 4; 3] /\ o_order (go_nifti ex_go) = [0; 1; 2; 3; 4; 5].
Proof.
  split; [exact ex_reachable|]. split; [exact ex_gfiles_ok|]. eexists. split; [exact ex_conv|].
  repeat split; vm_compute; reflexivity.
Qed.

Example C20_hdr_freq_phase_ex :
  pe_dirs ex_st = [Some phase_row] /\ h_dim_info ex_h = (Some 2, Some 1, Some 0).
Proof. split; vm_compute; reflexivity. Qed.

Example C20_hdr_directions_ex :
  (* phase axis (output axis 1) runs along -(0, 1, 0) in LPS = +y in RAS after the flip; freq axis (output axis 2) along z *)
  map (map Qred) (go_aff ex_go) = [[-2; 0; 0; -1]; [0; 1; 0; -1]; [0; 0; 1; 0]; [0; 0; 0; 1]]%Q /\
  map (map Qred) (go_aff0 ex_go) = [[0; 0; 2; -5]; [0; -1; 0; 0]; [1; 0; 0; 0]; [0; 0; 0; 1]]%Q.
Proof. split; vm_compute; reflexivity. Qed.

Example C20_hdr_tr_ex : rep_times ex_st = [Some (Q2Qc 2000)] /\ h_pixdim4 ex_h = Some (this (Q2Qc 2000)).
Proof. split; vm_compute; reflexivity. Qed.

Example C20_hdr_slice_times_ex :
  (* files 0, 1, 2 (acquired at 10:00:00, :01, :02) end up at output slices 0, 1, 2 although the sorter had them
     in the order 2, 1, 0 *)
  option_map (map Qred) (h_slice_times ex_h) = Some [0; 1; 2]%Q /\
  rmap (map Qred) (rel_times ex_gs [0; 1; 2]) = Ok [0; 1; 2]%Q.
Proof. split; vm_compute; reflexivity. Qed.

Example C20_hdr_rel_times_ex : rmap (map Qred) (mapM (acq_seconds ex_gs) [2; 0]) = Ok [36002; 36000]%Q.
Proof. vm_compute. reflexivity. Qed.
