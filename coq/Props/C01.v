(** C01 The embedded summary is a lossless encoding of every source file's metadata.
    Model: Conv/Meta.v ([conv_meta] = the embed block of DicomStack.to_nifti on top of Stack.Model.to_nifti:
    [file_ext] per file, the three-level nest of from_sequence, the rewrite of shape / slice_dim / affine,
    filter_meta); Ext/Model.v (from_sequence, get_meta); spec: Ext/Spec.v ([den], [valid]), Ext/LookupSpec.v
    ([in_bounds], [pos_of]), Conv/ProofsMetaStack.v ([covers], [metas_ok], [normals_ok]),
    Conv/ProofsMetaEmbed.v ([is_perm3], [img_matches]).

    Reading guide.  [ms] lists, per file id, the extracted dictionary [m_meta] and the affine [m_aff] of the
    per-file extension; [st] is any well-formed stack ([wf]: every stack reachable from an empty one by add_dcm
    and queries) whose files are covered by [ms]; [perm] is the axis permutation of the voxel reordering
    (perm[i] = output axis of input axis i), [oaff] the affine written into the extension, [filt] the key filter
    (true = remove).  [to_nifti st vo true = (st', Ok o)]: the stack is accepted (by C11 exactly when get_shape
    succeeds); [o_order o] is the FINAL file order, i.e. after the in-place reversal of every volume when the
    slice axis is flipped: list order follows data order, so the file at list index s + S*(t + T*v) is the one
    whose pixels are at slice index s (along output axis perm[2]), time t, vector component v of the reoriented
    array (C01_flip_order relates it to the sorted order; the pixel side is C02's). *)
From Coq Require Import List Bool Arith NArith ZArith QArith.
From DV Require Import Common.Res Common.Str Common.Jv Ext.Types Ext.Seq Ext.Model Ext.Spec Ext.LookupSpec
     Conv.Meta Conv.ProofsMetaBase Conv.ProofsMetaEmbed Conv.ProofsMetaStack Conv.ProofsMetaTop Conv.ProofsMetaEx.
From DV Require Stack.Model Stack.Spec Stack.ProofsInv Stack.ProofsShape.
Import ListNotations.
Local Open Scope nat_scope.

(** Every source file, every key the filter keeps, every grid size S,T,V >= 1 (3-D, 4-D, 5-D incl. (x,y,z,1,n),
    single-slice volumes), every axis permutation: the extension denotes at the file's grid position exactly what
    the file carried ([vnone] where it lacked the key), and [get_meta] at any voxel index of that file's slice
    returns it.  Hypothesis [normals_ok]: the slice normals of the per-file extension affines are pairwise
    np.allclose -- a domain restriction forced by the open finding N9 (see C01_lossless_refuted). *)
Theorem C01_lossless :
  forall (V : Type) (veqb : V -> V -> bool) (vnone : V), (forall a b, reflect (a = b) (veqb a b)) ->
  forall (ms : list (mfile V)) (st : Stack.Model.state) (vo : Stack.Model.vorder) (perm : list nat)
         (oaff : list (list Q)) (filt : key -> bool),
    Stack.ProofsInv.wf st -> covers ms st -> metas_ok ms -> normals_ok ms -> is_perm3 perm -> aff_ok oaff ->
    forall st' o, Stack.Model.to_nifti st vo true = (st', Ok o) ->
    exists S T Vn r c e,
      1 <= S /\ 1 <= T /\ 1 <= Vn /\
      Stack.Model.o_shape o = Stack.Spec.grid_shape r c S T Vn /\ length (Stack.Model.o_order o) = S * T * Vn /\
      conv_meta veqb vnone ms st vo perm oaff filt = (st', Ok e) /\
      valid e /\
      shape (hdr_of e) = permute_shape perm (Stack.Model.o_shape o) /\ sdim (hdr_of e) = Some (nth 2 perm 2) /\
      aff (hdr_of e) = oaff /\
      forall s t v m k, s < S -> t < T -> v < Vn ->
        find_mfile ms (nth (s + S * (t + T * v)) (Stack.Model.o_order o) 0) = Ok m -> filt k = false ->
        den vnone e k (s, t, v) = meta_lookup vnone m k /\
        forall im ix, img_matches im e -> in_bounds ix (ishape im) -> pos_of im ix = (s, t, v) ->
          get_meta im e k (Some ix) vnone = Ok (meta_lookup vnone m k).
Proof. exact @lossless_top. Qed.

(** Filtered keys are absent: no entry, the denotation is None everywhere, every lookup gives the default. *)
Theorem C01_filtered :
  forall (V : Type) (veqb : V -> V -> bool) (vnone : V), (forall a b, reflect (a = b) (veqb a b)) ->
  forall (ms : list (mfile V)) (st : Stack.Model.state) (vo : Stack.Model.vorder) (perm : list nat)
         (oaff : list (list Q)) (filt : key -> bool),
    Stack.ProofsInv.wf st -> covers ms st -> metas_ok ms -> normals_ok ms -> is_perm3 perm -> aff_ok oaff ->
    forall st' o, Stack.Model.to_nifti st vo true = (st', Ok o) ->
    exists e, conv_meta veqb vnone ms st vo perm oaff filt = (st', Ok e) /\
      forall k, filt k = true ->
        lookup_e e k = None /\ (forall p, den vnone e k p = vnone) /\ forall im ix d, get_meta im e k ix d = Ok d.
Proof. exact @filtered_top. Qed.

(** The final order against the order in which get_data fills the array: equal when the slice axis is not
    flipped, reversed inside every volume (index s <-> S-1-s) when it is. *)
Theorem C01_flip_order :
  forall (st : Stack.Model.state) (vo : Stack.Model.vorder) (em : bool) st' o,
    Stack.ProofsInv.wf st -> Stack.Model.to_nifti st vo em = (st', Ok o) ->
    exists ord0 S T V r c,
      1 <= S /\ 1 <= T /\ 1 <= V /\ Stack.Model.o_shape o = Stack.Spec.grid_shape r c S T V /\
      snd (Stack.Model.get_data st) = Ok (ord0, Stack.Model.o_shape o) /\ length ord0 = S * T * V /\
      (Stack.Model.o_flip o = false -> Stack.Model.o_order o = ord0) /\
      (Stack.Model.o_flip o = true ->
         forall s j, s < S -> j < T * V ->
           nth (s + S * j) (Stack.Model.o_order o) 0 = nth ((S - 1 - s) + S * j) ord0 0).
Proof. intros st vo em st' o. exact (flip_order st vo em st' o). Qed.

(** The statement without [normals_ok] is FALSE of the faithful model (finding N9, confirmed on the real code):
    four files accepted by the stack (orientation of one differs by 2^-17 in one component, inside add_dcm's own
    5e-5 tolerance), all other hypotheses hold, the conversion succeeds, and the value file 2 carried for the key
    "s" is lost: the extension says None at that file's position. *)
Theorem C01_lossless_refuted :
  exists (ms : list (mfile jv)) (st : Stack.Model.state) (oaff : list (list Q)),
    Stack.ProofsInv.wf st /\ covers ms st /\ metas_ok ms /\ is_perm3 [0; 1; 2] /\ aff_ok oaff /\ ~ normals_ok ms /\
    map Stack.Model.f_id (Stack.ProofsShape.files st) = [0; 1; 2; 3] /\
    (exists st' o, Stack.Model.to_nifti st None true = (st', Ok o) /\
                   Stack.Model.o_shape o = [2; 3; 2; 2] /\ Stack.Model.o_order o = [0; 1; 2; 3]) /\
    exists e m, snd (conv_meta jv_eqb JNull ms st None [0; 1; 2] oaff (fun _ => false)) = Ok e /\
      find_mfile ms 2 = Ok m /\
      meta_lookup JNull m k_slice = JInt 120 /\ den JNull e k_slice (0, 1, 0) = JNull.
Proof. exists n9_ms, n9_st, n9_oaff. exact n9_witness. Qed.

(** * Non-vacuity *)

(** C01_lossless: 2 slices x 2 times x 2 vector components added in scrambled order, every volume reversed
    (o_flip), slice axis moved to output axis 0; a per-slice, a per-volume, a per-vector and a constant key end up
    in four different classifications and every one of the 8 x 4 values is the source file's. *)
Example C01_lossless_ex :
  (Stack.ProofsInv.wf ex_st /\ covers ex_ms ex_st /\ metas_ok ex_ms /\ normals_ok ex_ms /\ is_perm3 ex_perm /\ aff_ok ex_oaff) /\
  (exists st' o, Stack.Model.to_nifti ex_st ex_vo true = (st', Ok o) /\
     Stack.Model.o_shape o = [2; 3; 2; 2; 2] /\ Stack.Model.o_flip o = true /\
     Stack.Model.o_order o = [3; 4; 0; 6; 7; 1; 5; 2]) /\
  exists e, ex_result = Ok e /\
    shape (hdr_of e) = [2; 2; 3; 2; 2] /\ sdim (hdr_of e) = Some 0 /\
    ex_table e = ex_truth /\
    map (fun k => option_map fst (lookup_e e k)) ex_keys = [Some TSlices; Some TSamples; Some VSamples; Some GConst] /\
    den JNull e k_slice (0, 0, 0) = JInt 101 /\ den JNull e k_slice (1, 0, 0) = JInt 100.
Proof. split; [exact ex_hyps|]. split; [exact ex_nifti | exact ex_lossless]. Qed.

(** C01_filtered: with the default filter "PatientName" is gone, "ImagePositionPatient" (per file) is kept *)
Example C01_filtered_ex :
  (covers ex_ms2 ex_st /\ metas_ok ex_ms2 /\ normals_ok ex_ms2) /\
  exists e, ex_result2 = Ok e /\
    lookup_e e k_pn = None /\ option_map fst (lookup_e e k_ipp) = Some GSlices /\
    map (fun k => option_map fst (lookup_e e k)) ex_keys = [Some TSlices; Some TSamples; Some VSamples; Some GConst] /\
    length (keys_e e) = 5.
Proof. split; [exact ex_hyps2 | exact ex_filtered]. Qed.

(** C01_flip_order: in the example the order before the reversal is 4 3 6 0 1 7 2 5 *)
Example C01_flip_order_ex :
  rmap fst (snd (Stack.Model.get_data ex_st)) = Ok [4; 3; 6; 0; 1; 7; 2; 5].
Proof. vm_compute. reflexivity. Qed.
