(** C01 placeholder (development) *)
From Coq Require Import List.
From DV Require Import Conv.Meta.
Theorem C01_dev : True. Proof. exact I. Qed.
