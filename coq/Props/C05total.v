(** C05 Split then merge is the identity -- TOTALITY: the pieces of a split always exist on the round-trip domain
    (C04_subset_total), so the statements of Props/C05.v hold without the hypothesis "every get_subset succeeds":
    [C05_split_all_total] discharges the hypothesis of [C05_split_all_defined], [C05_split_merge_total] is
    [C05_split_merge] with the pieces existentially quantified, [C05_chain_total] is [C05_chain] without its last
    hypothesis.
    Definitions used in the statements (same as Props/C05.v):
      Ext/Spec.v [valid], [canonical], [ext_equiv], [den], [in_dims], [dims]; Ext/ProofsSubset.v [no_trailing1];
      Ext/ProofsRoundtrip.v [split_all], [roundtrip], [rt_dom], [rt_axis], [arg_same], [sd_same], [step], [run_chain];
      Ext/ProofsCanonSubset.v [canonical_mod_none]; Ext/ProofsUnique.v [equiv_mod_none];
      Ext/ProofsSimplifyCanon.v [hdr_tight].
    Proofs: Ext/ProofsTotal.v ([get_subset_total]) + Ext/ProofsRoundtrip.v, combined in Ext/ProofsTotalRoundtrip.v. *)
From Coq Require Import List Bool Arith NArith ZArith QArith Lia.
From DV Require Import Common.Res Common.Str Common.Jv Ext.Types Ext.Classes Ext.Seq Ext.Model Ext.Spec Ext.ValidFacts
     Ext.ProofsSimplifyCanon Ext.ProofsSubset Ext.ProofsCanonSubset Ext.ProofsMergeFrame Ext.ProofsMerge
     Ext.ProofsCanonMerge Ext.ProofsUnique Ext.ProofsRoundtrip Ext.ProofsRoundtripEx Ext.ProofsTotalRoundtrip.
Import ListNotations.
Local Open Scope nat_scope.

(** every piece along an axis exists: as many pieces as the axis is long, piece [i] is [get_subset e dim i] *)
Theorem C05_split_all_total :
  forall (V : Type) (veqb : V -> V -> bool) (vnone : V), (forall a b, reflect (a = b) (veqb a b)) ->
  forall (e : ext V) (dim : nat),
    valid e -> no_trailing1 (shape (hdr_of e)) = true -> dim < ndim (hdr_of e) ->
    exists ps, split_all veqb vnone e dim = Ok ps /\ length ps = nth dim (shape (hdr_of e)) 0 /\
      forall i d, i < length ps -> get_subset veqb vnone e dim i = Ok (nth i ps d).
Proof. exact @split_all_total. Qed.

(** split then merge with no hypothesis on the pieces: they exist, merging them in order along the same [dim]
    succeeds and returns the parent (same header; per key the same class and values), again in the domain *)
Theorem C05_split_merge_total :
  forall (V : Type) (veqb : V -> V -> bool) (vnone : V), (forall a b, reflect (a = b) (veqb a b)) ->
  forall (e : ext V) (dim : nat) (a : option (list (list Q))) (sd : option nat),
    rt_dom e -> canonical vnone e -> hdr_tight (hdr_of e) -> rt_axis e dim ->
    arg_same a (aff (hdr_of e)) -> sd_same sd (sdim (hdr_of e)) ->
    exists ps e', split_all veqb vnone e dim = Ok ps /\ length ps = nth dim (shape (hdr_of e)) 0 /\
                  from_sequence veqb vnone ps dim a sd = Ok e' /\ roundtrip veqb vnone e dim a sd = Ok e' /\
                  ext_equiv e e' /\ rt_dom e' /\ canonical vnone e'.
Proof. exact @split_merge_total. Qed.

(** the same for extensions that carry all-None keys as the global constant None *)
Theorem C05_split_merge_mod_none_total :
  forall (V : Type) (veqb : V -> V -> bool) (vnone : V), (forall a b, reflect (a = b) (veqb a b)) ->
  forall (e : ext V) (dim : nat) (a : option (list (list Q))) (sd : option nat),
    rt_dom e -> canonical_mod_none vnone e -> rt_axis e dim ->
    arg_same a (aff (hdr_of e)) -> sd_same sd (sdim (hdr_of e)) ->
    exists ps e', split_all veqb vnone e dim = Ok ps /\ from_sequence veqb vnone ps dim a sd = Ok e' /\
      shape (hdr_of e') = shape (hdr_of e) /\ sdim (hdr_of e') = sdim (hdr_of e) /\ aff (hdr_of e') = aff (hdr_of e) /\
      rt_dom e' /\ canonical_mod_none vnone e' /\
      (forall k p, in_dims (dims (hdr_of e)) p -> den vnone e' k p = den vnone e k p) /\
      equiv_mod_none vnone e e'.
Proof. exact @split_merge_mod_none_total. Qed.

(** every chain of round trips over admissible axes runs to completion, and every intermediate merged result is the
    starting extension as an unordered map *)
Theorem C05_chain_total :
  forall (V : Type) (veqb : V -> V -> bool) (vnone : V), (forall a b, reflect (a = b) (veqb a b)) ->
  forall (steps : list step) (e : ext V),
    rt_dom e -> canonical vnone e -> hdr_tight (hdr_of e) ->
    (forall s, In s steps -> rt_axis e (step_dim s)) ->
    exists l, run_chain veqb vnone e steps = Ok l /\ length l = length steps /\
              forall e', In e' l -> ext_equiv e e' /\ rt_dom e' /\ canonical vnone e'.
Proof. exact @chain_total. Qed.

(** * Non-vacuity ([c05_ex], Ext/ProofsRoundtripEx.v) *)

Example C05_split_all_total_nonvacuous :
  valid c05_ex /\ no_trailing1 (shape (hdr_of c05_ex)) = true /\
  (exists ps, split_all jv_eqb JNull c05_ex 0 = Ok ps /\ length ps = 2) /\
  (exists ps, split_all jv_eqb JNull c05_ex 1 = Ok ps /\ length ps = 2 /\
              map (fun p => shape (hdr_of p)) ps = [[2; 1; 2; 3; 2]; [2; 1; 2; 3; 2]]) /\
  (exists ps, split_all jv_eqb JNull c05_ex 3 = Ok ps /\ length ps = 3) /\
  (exists ps, split_all jv_eqb JNull c05_ex 4 = Ok ps /\ length ps = 2).
Proof. exact ex_split_all_total. Qed.

Example C05_split_merge_total_nonvacuous :
  rt_dom c05_ex /\ canonical JNull c05_ex /\ hdr_tight (hdr_of c05_ex) /\ rt_axis c05_ex 3 /\
  arg_same (@None (list (list Q))) (aff (hdr_of c05_ex)) /\ sd_same (Some 1) (sdim (hdr_of c05_ex)) /\
  roundtrip jv_eqb JNull c05_ex 3 None (Some 1) = Ok c05_ex.
Proof. exact ex_split_merge_total. Qed.

Example C05_split_merge_mod_none_total_nonvacuous :
  rt_dom c05_ex /\ canonical_mod_none JNull c05_ex /\ rt_axis c05_ex 3.
Proof.
  split; [exact c05_ex_dom|]. split; [exact (proj1 ex_canonical_unique)|].
  exact (proj1 (proj2 (proj2 (proj2 ex_split_merge_total)))).
Qed.

Example C05_chain_total_nonvacuous :
  let steps := [Step 4 true true; Step 1 false false; Step 3 true true; Step 4 false true] in
  rt_dom c05_ex /\ canonical JNull c05_ex /\ hdr_tight (hdr_of c05_ex) /\
  (forall s, In s steps -> rt_axis c05_ex (step_dim s)) /\
  run_chain jv_eqb JNull c05_ex steps = Ok [c05_ex; c05_ex; c05_ex; c05_ex].
Proof. exact ex_chain_total. Qed.
