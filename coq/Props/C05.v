(** C05 Split then merge, and merge then split, are identities -- EXTENSION level
    (DcmMetaExtension.get_subset / DcmMetaExtension.from_sequence; the image half is Props/C05img.v).
    Definitions used in the statements:
      Ext/Spec.v             [den], [valid], [nondegenerate], [canonical], [ext_equiv], [in_dims], [dims]
      Ext/ProofsCanonSubset.v [canonical_mod_none]  (every key at the canonical class of what it denotes; a key that is
                             None everywhere may be stored as the global constant None)
      Ext/ProofsUnique.v     [none_entry], [same_mod_none], [equiv_mod_none]
      Ext/ProofsRoundtrip.v  [split_all] (get_subset for every index of an axis), [roundtrip], [rt_dom], [rt_axis],
                             [arg_same], [sd_same], [step], [run_step], [run_chain]
      Ext/ProofsMerge.v      [inputs_ok], [out_sdim], [den_in], [trailing1b];  Ext/ProofsMergeFrame.v [axis_of], [coord]
      Ext/ProofsSimplifyCanon.v [hdr_tight] (the 'time' / 'vector' dictionaries exist exactly when the shape allows them)
    Proofs: uniqueness of the canonical form + C04 (subset_den) + C03 (merge_den, merge_total) + C06
    (merge_canonical_axis) + C07 (closure of valid / nondegenerate) + C13 (operations respect ext_equiv). *)
From Coq Require Import List Bool Arith NArith ZArith QArith Lia.
From DV Require Import Common.Res Common.Str Common.Jv Ext.Types Ext.Classes Ext.Seq Ext.Model Ext.Spec Ext.ValidFacts
     Ext.ProofsSimplifyCanon Ext.ProofsSubset Ext.ProofsCanonSubset Ext.ProofsMergeFrame Ext.ProofsMerge
     Ext.ProofsCanonMerge Ext.ProofsUnique Ext.ProofsRoundtrip Ext.ProofsRoundtripEx.
Import ListNotations.
Local Open Scope nat_scope.

(** * 1. Uniqueness of the canonical form (no reference to the operations) *)

(** two canonical extensions over the same grid that denote the same value at every position store every key in the
    same class with the same value list; only a key that is None EVERYWHERE may be absent on one side and the
    global constant None on the other *)
Theorem C05_canonical_unique :
  forall (V : Type) (vnone : V) (e1 e2 : ext V),
    canonical_mod_none vnone e1 -> canonical_mod_none vnone e2 ->
    shape (hdr_of e1) = shape (hdr_of e2) -> sdim (hdr_of e1) = sdim (hdr_of e2) ->
    (forall k p, in_dims (dims (hdr_of e1)) p -> den vnone e1 k p = den vnone e2 k p) ->
    equiv_mod_none vnone e1 e2.
Proof. exact @canonical_unique. Qed.

(** a key that is not None at some position: identical entry *)
Theorem C05_canonical_unique_key :
  forall (V : Type) (vnone : V) (e1 e2 : ext V) (k : key) (p : pos),
    canonical_mod_none vnone e1 -> canonical_mod_none vnone e2 ->
    shape (hdr_of e1) = shape (hdr_of e2) -> sdim (hdr_of e1) = sdim (hdr_of e2) ->
    (forall k p, in_dims (dims (hdr_of e1)) p -> den vnone e1 k p = den vnone e2 k p) ->
    in_dims (dims (hdr_of e1)) p -> den vnone e1 k p <> vnone ->
    lookup_e e1 k = lookup_e e2 k.
Proof. exact @canonical_unique_key. Qed.

(** literal [Spec.canonical] on one side and no extra key on the other: equal as unordered maps *)
Theorem C05_canonical_unique_strict :
  forall (V : Type) (vnone : V) (e1 e2 : ext V),
    canonical vnone e1 -> canonical_mod_none vnone e2 ->
    shape (hdr_of e1) = shape (hdr_of e2) -> sdim (hdr_of e1) = sdim (hdr_of e2) ->
    (forall k p, in_dims (dims (hdr_of e1)) p -> den vnone e1 k p = den vnone e2 k p) ->
    (forall k, In k (keys_e e2) -> In k (keys_e e1)) ->
    forall k, lookup_e e1 k = lookup_e e2 k.
Proof. exact @canonical_unique_strict. Qed.

(** * 2. Split then merge *)

(** [ps] = the pieces [get_subset e dim 0 .. n-1]; merging them in order along the same [dim] (with or without the
    parent's affine / slice dim as arguments) never fails and returns the parent: same header, and per key the same
    class and the same values (key order ignored, as [DcmMetaExtension.__eq__] does).  The result is again in the
    domain and canonical, so the statement can be iterated. *)
Theorem C05_split_merge :
  forall (V : Type) (veqb : V -> V -> bool) (vnone : V), (forall a b, reflect (a = b) (veqb a b)) ->
  forall (e : ext V) (dim : nat) (a : option (list (list Q))) (sd : option nat) (ps : list (ext V)),
    rt_dom e -> canonical vnone e -> hdr_tight (hdr_of e) -> rt_axis e dim ->
    arg_same a (aff (hdr_of e)) -> sd_same sd (sdim (hdr_of e)) ->
    split_all veqb vnone e dim = Ok ps ->
    exists e', from_sequence veqb vnone ps dim a sd = Ok e' /\ ext_equiv e e' /\ rt_dom e' /\ canonical vnone e'.
Proof. exact @split_merge_strict. Qed.

(** the same for extensions that carry all-None keys as the global constant None (the library produces them:
    C06_none_dropped_refuted): identical up to the representation of those keys, same denotation everywhere *)
Theorem C05_split_merge_mod_none :
  forall (V : Type) (veqb : V -> V -> bool) (vnone : V), (forall a b, reflect (a = b) (veqb a b)) ->
  forall (e : ext V) (dim : nat) (a : option (list (list Q))) (sd : option nat) (ps : list (ext V)),
    rt_dom e -> canonical_mod_none vnone e -> rt_axis e dim ->
    arg_same a (aff (hdr_of e)) -> sd_same sd (sdim (hdr_of e)) ->
    split_all veqb vnone e dim = Ok ps ->
    exists e', from_sequence veqb vnone ps dim a sd = Ok e' /\
      shape (hdr_of e') = shape (hdr_of e) /\ sdim (hdr_of e') = sdim (hdr_of e) /\ aff (hdr_of e') = aff (hdr_of e) /\
      hdr_tight (hdr_of e') /\
      rt_dom e' /\ canonical_mod_none vnone e' /\
      (forall k p, in_dims (dims (hdr_of e)) p -> den vnone e' k p = den vnone e k p) /\
      (forall k, In k (keys_e e') -> In k (keys_e e)) /\
      equiv_mod_none vnone e e'.
Proof. exact @split_merge_law. Qed.

(** the pieces exist as soon as every single [get_subset] succeeds (its totality is tied to the code by the
    correspondence run, not proved) *)
Theorem C05_split_all_defined :
  forall (V : Type) (veqb : V -> V -> bool) (vnone : V) (e : ext V) (dim : nat),
    (forall i, i < nth dim (shape (hdr_of e)) 0 -> exists r, get_subset veqb vnone e dim i = Ok r) ->
    exists ps, split_all veqb vnone e dim = Ok ps.
Proof. exact @split_all_ok. Qed.

(** why the domain excludes trailing singleton dimensions: [get_subset] trims them, so the round trip of an
    (X,Y,Z,1) extension comes back as (X,Y,Z) *)
Theorem C05_split_merge_trailing1_refuted :
  exists e dim e',
    validb e = true /\ nondegenerateb e = true /\ sdim (hdr_of e) = Some dim /\ 2 <= nth dim (shape (hdr_of e)) 0 /\
    no_trailing1 (shape (hdr_of e)) = false /\
    run_step jv_eqb JNull e (Step dim true true) = Ok e' /\ shape (hdr_of e') <> shape (hdr_of e).
Proof. exact split_merge_trailing1_refuted. Qed.

(** ... and extensions without a slice dimension: in 5-D the time round trip raises TypeError (open finding N3) *)
Theorem C05_split_merge_no_slice_dim_refuted :
  exists e dim,
    validb e = true /\ nondegenerateb e = true /\ no_trailing1 (shape (hdr_of e)) = true /\ dim = 3 /\
    2 <= nth dim (shape (hdr_of e)) 0 /\ sdim (hdr_of e) = None /\
    run_step jv_eqb JNull e (Step dim true true) = Err EType.
Proof. exact split_merge_no_slice_dim_refuted. Qed.

(** * 3. Merge then split *)

(** piece [i] of a merged extension reads, at every position, what input [i] contributes to the merge ([den_in]: the
    input's own lookup, without its per-slice classes when its slice normal differs from the result's); it has the
    inputs' shape (trailing singleton dimensions trimmed, as every [get_subset] result) and slice dimension *)
Theorem C05_merge_split :
  forall (V : Type) (veqb : V -> V -> bool) (vnone : V), (forall a b, reflect (a = b) (veqb a b)) ->
  forall (es : list (ext V)) (e0 : ext V) (dim : nat) (a : option (list (list Q))) (sd : option nat)
         (r : ext V) (ax : axis),
    inputs_ok es e0 sd -> (forall x, In x es -> nondegenerate x) ->
    from_sequence veqb vnone es dim a sd = Ok r ->
    axis_of (out_sdim sd e0) dim = Some ax ->
    (3 <= dim -> out_sdim sd e0 <> None) ->
    trailing1b (shape (hdr_of r)) = false ->
    forall i piece, i < length es -> get_subset veqb vnone r dim i = Ok piece ->
      shape (hdr_of piece) = trim_ones (shape (hdr_of e0)) /\
      sdim (hdr_of piece) = out_sdim sd e0 /\
      valid piece /\ nondegenerate piece /\
      forall k p, in_dims (dims (hdr_of piece)) p ->
        den vnone piece k p = den_in vnone (hdr_of r) (nth i es e0) k p.
Proof. exact @merge_split_law. Qed.

(** ... which is input [i]'s own lookup when its slice normal is the result's *)
Theorem C05_merge_split_same_normal :
  forall (V : Type) (veqb : V -> V -> bool) (vnone : V), (forall a b, reflect (a = b) (veqb a b)) ->
  forall (es : list (ext V)) (e0 : ext V) (dim : nat) (a : option (list (list Q))) (sd : option nat)
         (r : ext V) (ax : axis),
    inputs_ok es e0 sd -> (forall x, In x es -> nondegenerate x) ->
    from_sequence veqb vnone es dim a sd = Ok r ->
    axis_of (out_sdim sd e0) dim = Some ax ->
    (3 <= dim -> out_sdim sd e0 <> None) ->
    trailing1b (shape (hdr_of r)) = false ->
    forall i piece, i < length es -> get_subset veqb vnone r dim i = Ok piece ->
      use_slices (hdr_of r) (hdr_of (nth i es e0)) = true ->
      forall k p, in_dims (dims (hdr_of piece)) p -> den vnone piece k p = den vnone (nth i es e0) k p.
Proof. exact @merge_split_same_normal. Qed.

(** * 4. Chains: split along a, merge, split along b, merge, ... *)

(** if every [get_subset] of the STARTING extension along the dims of the chain succeeds, the whole chain runs, and
    every intermediate merged result equals the starting extension as an unordered map (and is again in the domain) *)
Theorem C05_chain :
  forall (V : Type) (veqb : V -> V -> bool) (vnone : V), (forall a b, reflect (a = b) (veqb a b)) ->
  forall (steps : list step) (e : ext V),
    rt_dom e -> canonical vnone e -> hdr_tight (hdr_of e) ->
    (forall s, In s steps -> rt_axis e (step_dim s)) ->
    (forall s i, In s steps -> i < nth (step_dim s) (shape (hdr_of e)) 0 ->
                 exists r, get_subset veqb vnone e (step_dim s) i = Ok r) ->
    exists l, run_chain veqb vnone e steps = Ok l /\ length l = length steps /\
              forall e', In e' l -> ext_equiv e e' /\ rt_dom e' /\ canonical vnone e'.
Proof. exact @chain_law. Qed.

(** whatever a chain returns, every intermediate result is the starting extension *)
Theorem C05_chain_sound :
  forall (V : Type) (veqb : V -> V -> bool) (vnone : V), (forall a b, reflect (a = b) (veqb a b)) ->
  forall (steps : list step) (e : ext V) (l : list (ext V)),
    rt_dom e -> canonical vnone e -> hdr_tight (hdr_of e) ->
    (forall s, In s steps -> rt_axis e (step_dim s)) ->
    run_chain veqb vnone e steps = Ok l ->
    length l = length steps /\ forall e', In e' l -> ext_equiv e e' /\ rt_dom e' /\ canonical vnone e'.
Proof. exact @chain_partial_correct. Qed.

(** * Non-vacuity ([c05_ex]: a 5-D extension with one key per class, slice axis 1, oblique non-symmetric affine;
      definitions and proofs in Ext/ProofsRoundtripEx.v) *)

Example C05_canonical_unique_nonvacuous :
  canonical_mod_none JNull c05_ex /\ equiv_mod_none JNull c05_ex c05_ex /\
  lookup_e c05_ex [119]%N = Some (VSlices, [JInt 40; JInt 41; JInt 42; JInt 43; JInt 44; JInt 45]).
Proof. exact ex_canonical_unique. Qed.

(** the hypotheses of [C05_split_merge] hold for the slice axis (1), time (3) and vector (4), the pieces exist, and
    the merge returns the parent *)
Example C05_split_merge_nonvacuous :
  rt_dom c05_ex /\ canonical JNull c05_ex /\ hdr_tight (hdr_of c05_ex) /\
  rt_axis c05_ex 1 /\ rt_axis c05_ex 3 /\ rt_axis c05_ex 4 /\
  (exists ps, split_all jv_eqb JNull c05_ex 1 = Ok ps /\ length ps = 2 /\
              from_sequence jv_eqb JNull ps 1 (Some c05_aff) (Some 1) = Ok c05_ex) /\
  (exists ps, split_all jv_eqb JNull c05_ex 3 = Ok ps /\ length ps = 3 /\
              map (fun p => shape (hdr_of p)) ps = [[2; 2; 2; 1; 2]; [2; 2; 2; 1; 2]; [2; 2; 2; 1; 2]] /\
              from_sequence jv_eqb JNull ps 3 None None = Ok c05_ex) /\
  (exists ps, split_all jv_eqb JNull c05_ex 4 = Ok ps /\ length ps = 2 /\
              map (fun p => shape (hdr_of p)) ps = [[2; 2; 2; 3]; [2; 2; 2; 3]] /\
              from_sequence jv_eqb JNull ps 4 (Some c05_aff) None = Ok c05_ex).
Proof. exact ex_split_merge. Qed.

(** merge then split: two 4-D volumes merged along the vector axis, the pieces read what the inputs read *)
Example C05_merge_split_nonvacuous :
  inputs_ok [c05_in 10; c05_in 20] (c05_in 10) None /\
  (forall x, In x [c05_in 10; c05_in 20] -> nondegenerate x) /\
  axis_of (out_sdim None (c05_in 10)) 4 = Some AxV /\
  exists r, from_sequence jv_eqb JNull [c05_in 10; c05_in 20] 4 None None = Ok r /\
            shape (hdr_of r) = [2; 2; 2; 2; 2] /\ trailing1b (shape (hdr_of r)) = false /\
            use_slices (hdr_of r) (hdr_of (c05_in 20)) = true /\
            exists piece, get_subset jv_eqb JNull r 4 1 = Ok piece /\ shape (hdr_of piece) = [2; 2; 2; 2] /\
                          den JNull piece [115]%N (1, 1, 0) = JInt 22 /\ den JNull (c05_in 20) [115]%N (1, 1, 0) = JInt 22.
Proof. exact ex_merge_split. Qed.

(** a chain of four round trips (vector, slice, time, vector) over [c05_ex]: every merged result is [c05_ex] *)
Example C05_chain_nonvacuous :
  let steps := [Step 4 true true; Step 1 false false; Step 3 true true; Step 4 false true] in
  (forall s, In s steps -> rt_axis c05_ex (step_dim s)) /\
  (forall s i, In s steps -> i < nth (step_dim s) (shape (hdr_of c05_ex)) 0 ->
               exists r, get_subset jv_eqb JNull c05_ex (step_dim s) i = Ok r) /\
  run_chain jv_eqb JNull c05_ex steps = Ok [c05_ex; c05_ex; c05_ex; c05_ex].
Proof. exact ex_chain. Qed.
