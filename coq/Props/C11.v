(** C11  A stack converts only if its files tile a complete grid; otherwise it refuses. *)
From Coq Require Import List Bool Arith QArith Qcanon Qabs.
From DV Require Import Common.Res Common.Str Generated.T_stack
  Stack.Model Stack.Spec Stack.ProofsShape Stack.ProofsInv Stack.ProofsC11.
Import ListNotations.
Local Open Scope nat_scope.

(** the tolerances the specification fixes are the ones written in the source *)
Theorem C11_spacing_tol : (spacing_rtol == 4 # 100)%Q.
Proof. exact spacing_tol. Qed.

Theorem C11_congruent_tol : (congruent_atol == 5 # 100000)%Q.
Proof. exact congruent_tol. Qed.

(** get_shape succeeds, with the grid's dimensions as shape, exactly when the accepted files tile a
    complete S x T x V grid of r x c images *)
Theorem C11_iff : forall st sh,
  reachable st -> well_typed st ->
  (snd (get_shape st) = Ok sh <->
   exists S T V r c, stack_grid st S T V r c /\ sh = grid_shape r c S T V).
Proof. exact C11_iff_lemma. Qed.

(** otherwise it raises InvalidStackError (and nothing else) *)
Theorem C11_refuse : forall st,
  reachable st -> well_typed st ->
  (forall S T V, ~ grid_complete (cfg_time st) (cfg_vec st) (files st) S T V) ->
  snd (get_shape st) = Err EInvalidStack.
Proof. exact C11_refuse_lemma. Qed.

(** data, affine and conversion raise exactly when, and what, shape raises *)
Theorem C11_queries_refuse_together : forall st e,
  (snd (get_data st) = Err e <-> snd (get_shape st) = Err e) /\
  (snd (get_affine st) = Err e <-> snd (get_shape st) = Err e) /\
  (forall vo em, snd (to_nifti st vo em) = Err e <-> snd (get_shape st) = Err e) /\
  (forall vo, snd (to_nifti_wrapper st vo) = Err e <-> snd (get_shape st) = Err e).
Proof. exact C11_queries_lemma. Qed.

Theorem C11_empty_refused : forall st,
  reachable st -> files st = [] -> snd (get_shape st) = Err EInvalidStack.
Proof. exact C11_empty_lemma. Qed.

(** the file count does not factor by the number of distinct slice positions *)
Theorem C11_count_not_factoring_refused : forall st,
  reachable st -> well_typed st ->
  length (files st) mod length (dedup qc_eqb (map f_pos (files st))) <> 0 ->
  snd (get_shape st) = Err EInvalidStack.
Proof. exact C11_count_lemma. Qed.

(** slice positions unevenly spaced beyond 4 % *)
Theorem C11_uneven_spacing_refused : forall st,
  reachable st -> well_typed st ->
  1 < length (dedup qc_eqb (map f_pos (files st))) ->
  ~ even_spacing (ssort qc_leb (dedup qc_eqb (map f_pos (files st)))) ->
  snd (get_shape st) = Err EInvalidStack.
Proof. exact C11_spacing_lemma. Qed.

(** slice positions unevenly represented *)
Theorem C11_uneven_positions_refused : forall st p q,
  reachable st -> well_typed st ->
  In p (map f_pos (files st)) -> In q (map f_pos (files st)) ->
  occ_pos p (files st) <> occ_pos q (files st) ->
  snd (get_shape st) = Err EInvalidStack.
Proof. exact C11_positions_lemma. Qed.

(** vector values unevenly represented *)
Theorem C11_uneven_vectors_refused : forall st v w,
  reachable st -> well_typed st ->
  In v (map (base_vec (cfg_vec st)) (files st)) -> In w (map (base_vec (cfg_vec st)) (files st)) ->
  occ_vec (cfg_vec st) v (files st) <> occ_vec (cfg_vec st) w (files st) ->
  snd (get_shape st) = Err EInvalidStack.
Proof. exact C11_vectors_lemma. Qed.

(** the number of volumes is not a multiple of the number of vector values (even when the file count is) *)
Theorem C11_volumes_not_factoring_refused : forall st,
  reachable st -> well_typed st ->
  (length (files st) / length (dedup qc_eqb (map f_pos (files st))))
    mod length (dedup oq_eqb (map (base_vec (cfg_vec st)) (files st))) <> 0 ->
  snd (get_shape st) = Err EInvalidStack.
Proof. exact C11_volumes_lemma. Qed.

(** a complete regular grid is never rejected, by any of the queries *)
Theorem C11_regular_grid_accepted : forall st S T V,
  reachable st -> well_typed st -> grid_complete (cfg_time st) (cfg_vec st) (files st) S T V ->
  is_ok (snd (get_shape st)) = true /\ is_ok (snd (get_data st)) = true /\
  is_ok (snd (get_affine st)) = true /\
  (forall vo em, is_ok (snd (to_nifti st vo em)) = true) /\
  (forall vo, is_ok (snd (to_nifti_wrapper st vo)) = true).
Proof. exact C11_accept_lemma. Qed.

(** what add_dcm refuses, and with which exception *)
Theorem C11_add : forall st f,
  reachable st ->
  (add_dcm st f = Err ENonImage <-> f_has_pix f = false) /\
  (add_dcm st f = Err EIncongruent <->
     f_has_pix f = true /\ exists r, ref_input st = Some r /\ ~ congruent_spec r f) /\
  (add_dcm st f = Err ECollision <->
     f_has_pix f = true /\ (forall r, ref_input st = Some r -> congruent_spec r f) /\
     explicit st = true /\
     In (sorting_tuple st f) (map (base_tuple (cfg_time st) (cfg_vec st)) (files st))) /\
  (forall e, add_dcm st f = Err e -> e = ENonImage \/ e = EIncongruent \/ e = ECollision).
Proof. exact C11_add_lemma. Qed.

(** a refused file leaves the stack exactly as it was *)
Theorem C11_add_transactional : forall st f e,
  add_dcm st f = Err e -> step st (OAdd f) = (st, Err e).
Proof. exact C11_add_transactional_lemma. Qed.

(* ------------------------------------------------------------------------------------------ *)
(** Non-vacuity: concrete stacks satisfying the hypotheses *)

Definition q (x : Q) : Qc := Q2Qc x.
Definition fl (i : nat) (p : Q) (t : option Q) (v : option Q) (te : Q) : file :=
  mkfile i true 2 3 [1%Q; 1%Q] [1%Q; 0%Q; 0%Q; 0%Q; 1%Q; 0%Q] (q p) (option_map q t) (option_map q v)
         [([69; 99; 104; 111; 84; 105; 109; 101]%N, q te)] None None 1 12 false.

(** 2 slices x 2 time points, explicit time order, added in scrambled order *)
Definition ex_grid : state :=
  run (init true false)
      [OAdd (fl 0 1 (Some 2%Q) None 20); OAdd (fl 1 0 (Some 1%Q) None 10);
       OAdd (fl 2 0 (Some 2%Q) None 20); OAdd (fl 3 1 (Some 1%Q) None 10)].
(** same files, guessed order (EchoTime), then a conversion with a flip, so the state is dirty again *)
Definition ex_guess : state :=
  run (init false false)
      [OAdd (fl 0 1 None None 20); OAdd (fl 1 0 None None 10);
       OAdd (fl 2 0 None None 20); OAdd (fl 3 1 None None 10); OToNifti (Some true) false].
(** three files on two positions *)
Definition ex_odd : state :=
  run (init true false) [OAdd (fl 0 1 (Some 2%Q) None 20); OAdd (fl 1 0 (Some 1%Q) None 10); OAdd (fl 2 0 (Some 2%Q) None 20)].
(** positions 0, 1, 3 *)
Definition ex_gap : state :=
  run (init false false) [OAdd (fl 0 0 None None 10); OAdd (fl 1 1 None None 10); OAdd (fl 2 3 None None 10)].

Lemma ex_reach ct cv h : reachable (run (init ct cv) h).
Proof. exists ct, cv, h. reflexivity. Qed.

Example C11_iff_ex :
  reachable ex_grid /\ well_typed ex_grid /\ snd (get_shape ex_grid) = Ok [2; 3; 2; 2] /\
  reachable ex_guess /\ well_typed ex_guess /\ shape_dirty ex_guess = true /\
  snd (get_shape ex_guess) = Ok (grid_shape 2 3 2 2 1).
Proof. repeat split; try apply ex_reach; vm_compute; reflexivity. Qed.

Example C11_refuse_ex :
  reachable ex_odd /\ well_typed ex_odd /\ snd (get_shape ex_odd) = Err EInvalidStack /\
  snd (get_data ex_odd) = Err EInvalidStack /\ snd (to_nifti ex_odd None true) = Err EInvalidStack.
Proof. repeat split; try apply ex_reach; vm_compute; reflexivity. Qed.

Example C11_count_ex :
  reachable ex_odd /\ well_typed ex_odd /\
  length (files ex_odd) mod length (dedup qc_eqb (map f_pos (files ex_odd))) = 1.
Proof. repeat split; try apply ex_reach; vm_compute; reflexivity. Qed.

Example C11_spacing_ex :
  reachable ex_gap /\ well_typed ex_gap /\
  length (dedup qc_eqb (map f_pos (files ex_gap))) = 3 /\
  ~ even_spacing (ssort qc_leb (dedup qc_eqb (map f_pos (files ex_gap)))).
Proof.
  repeat split; try apply ex_reach; try (vm_compute; reflexivity).
  intros H. apply spacing_ok_iff in H. vm_compute in H. discriminate.
Qed.

(** position 0 three times, position 1 once (the count still factors) *)
Definition ex_upos : state :=
  run (init true false) [OAdd (fl 0 0 (Some 1%Q) None 10); OAdd (fl 1 1 (Some 1%Q) None 10);
                         OAdd (fl 2 0 (Some 2%Q) None 20); OAdd (fl 3 0 (Some 3%Q) None 30)].
(** vector value 1 on three volumes, vector value 2 on one (4 volumes, 2 vector values) *)
Definition ex_uvec : state :=
  run (init true true)
      [OAdd (fl 0 0 (Some 1%Q) (Some 1%Q) 10); OAdd (fl 1 1 (Some 1%Q) (Some 1%Q) 10);
       OAdd (fl 2 0 (Some 2%Q) (Some 1%Q) 10); OAdd (fl 3 1 (Some 2%Q) (Some 1%Q) 10);
       OAdd (fl 4 0 (Some 3%Q) (Some 1%Q) 10); OAdd (fl 5 1 (Some 3%Q) (Some 1%Q) 10);
       OAdd (fl 6 0 (Some 1%Q) (Some 2%Q) 10); OAdd (fl 7 1 (Some 1%Q) (Some 2%Q) 10)].

Example C11_uneven_positions_ex :
  reachable ex_upos /\ well_typed ex_upos /\ length (files ex_upos) = 4 /\
  In (q 0) (map f_pos (files ex_upos)) /\ In (q 1) (map f_pos (files ex_upos)) /\
  occ_pos (q 0) (files ex_upos) = 3 /\ occ_pos (q 1) (files ex_upos) = 1.
Proof.
  split; [apply ex_reach|]. split; [vm_compute; reflexivity|]. split; [vm_compute; reflexivity|].
  split; [vm_compute; left; reflexivity|]. split; [vm_compute; right; left; reflexivity|].
  split; vm_compute; reflexivity.
Qed.

Example C11_uneven_vectors_ex :
  reachable ex_uvec /\ well_typed ex_uvec /\ length (files ex_uvec) = 8 /\
  In (Some (q 1)) (map (base_vec (cfg_vec ex_uvec)) (files ex_uvec)) /\
  In (Some (q 2)) (map (base_vec (cfg_vec ex_uvec)) (files ex_uvec)) /\
  occ_vec true (Some (q 1)) (files ex_uvec) = 6 /\ occ_vec true (Some (q 2)) (files ex_uvec) = 2 /\
  snd (get_shape ex_uvec) = Err EInvalidStack.
Proof.
  split; [apply ex_reach|]. split; [vm_compute; reflexivity|]. split; [vm_compute; reflexivity|].
  split; [vm_compute; left; reflexivity|]. split; [vm_compute; do 6 right; left; reflexivity|].
  split; [vm_compute; reflexivity|]. split; vm_compute; reflexivity.
Qed.

(** two vector values on 2 + 1 volumes of 2 slices: 6 files (a multiple of 2), 3 volumes (not a multiple of 2) *)
Definition ex_uvol : state :=
  run (init true true)
      [OAdd (fl 0 0 (Some 1%Q) (Some 1%Q) 10); OAdd (fl 1 1 (Some 1%Q) (Some 1%Q) 10);
       OAdd (fl 2 0 (Some 2%Q) (Some 1%Q) 10); OAdd (fl 3 1 (Some 2%Q) (Some 1%Q) 10);
       OAdd (fl 4 0 (Some 1%Q) (Some 2%Q) 10); OAdd (fl 5 1 (Some 1%Q) (Some 2%Q) 10)].

Example C11_volumes_ex :
  reachable ex_uvol /\ well_typed ex_uvol /\ length (files ex_uvol) mod 2 = 0 /\
  (length (files ex_uvol) / length (dedup qc_eqb (map f_pos (files ex_uvol))))
    mod length (dedup oq_eqb (map (base_vec (cfg_vec ex_uvol)) (files ex_uvol))) = 1 /\
  snd (get_shape ex_uvol) = Err EInvalidStack.
Proof.
  split; [apply ex_reach|]. split; [vm_compute; reflexivity|]. split; [vm_compute; reflexivity|].
  split; vm_compute; reflexivity.
Qed.

Example C11_accept_ex :
  exists S T V, grid_complete (cfg_time ex_grid) (cfg_vec ex_grid) (files ex_grid) S T V.
Proof.
  destruct (proj1 (C11_iff ex_grid [2; 3; 2; 2] (ex_reach _ _ _) (proj1 (proj2 C11_iff_ex)))
                  (proj1 (proj2 (proj2 C11_iff_ex)))) as [S [T [V [r [c [[H _] _]]]]]].
  exists S, T, V. exact H.
Qed.

Example C11_empty_ex :
  reachable (init false false) /\ files (init false false) = [] /\
  snd (get_shape (init false false)) = Err EInvalidStack.
Proof. split; [apply (ex_reach false false [])|]. split; reflexivity. Qed.

Example C11_queries_ex :
  snd (get_data ex_gap) = Err EInvalidStack /\ snd (get_affine ex_gap) = Err EInvalidStack /\
  snd (to_nifti ex_gap (Some true) true) = Err EInvalidStack /\
  is_ok (snd (to_nifti ex_grid (Some true) true)) = true.
Proof. split; [vm_compute; reflexivity|]. split; [vm_compute; reflexivity|]. split; vm_compute; reflexivity. Qed.

Example C11_add_transactional_ex :
  step ex_grid (OAdd (fl 9 0 (Some 1%Q) None 10)) = (ex_grid, Err ECollision).
Proof. apply C11_add_transactional. vm_compute. reflexivity. Qed.

Example C11_add_ex :
  add_dcm ex_grid (fl 9 0 (Some 1%Q) None 10) = Err ECollision /\
  add_dcm ex_grid (mkfile 9 false 2 3 [] [] (q 0) None None [] None None 1 12 false) = Err ENonImage /\
  add_dcm ex_grid (mkfile 9 true 2 4 [1%Q; 1%Q] [1%Q; 0%Q; 0%Q; 0%Q; 1%Q; 0%Q] (q 5) (Some (q 7)) None [] None None 1 12 false) = Err EIncongruent /\
  add_dcm ex_grid (mkfile 9 true 2 3 [1%Q; (10001 # 10000)%Q] [1%Q; 0%Q; 0%Q; 0%Q; 1%Q; 0%Q] (q 5) (Some (q 7)) None [] None None 1 12 false) = Err EIncongruent /\
  is_ok (add_dcm ex_grid (mkfile 9 true 2 3 [1%Q; (100001 # 100000)%Q] [1%Q; 0%Q; 0%Q; 0%Q; 1%Q; 0%Q] (q 5) (Some (q 7)) None [] None None 1 12 false)) = true.
Proof. repeat split; vm_compute; reflexivity. Qed.
