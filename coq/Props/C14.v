(** Property C14 — theorems only (filter semantics; the conversion-level key-set equation is added
    when the stack and extension models are connected). *)
From Coq Require Import List Bool NArith.
From DV Require Import Common.Str Filter.Model Filter.Proofs Generated.T_filter.
Import ListNotations.

(** exclude-unless-included, for every regex engine [matches], every key and all non-empty lists *)
Theorem C14_filter_sem : forall (matches : str -> str -> bool) excl incl key, excl <> [] -> incl <> [] ->
  key_regex_filter matches excl (Some incl) key = true <->
  (exists e, In e excl /\ matches e key = true) /\ ~ (exists i, In i incl /\ matches i key = true).
Proof. exact filter_sem. Qed.

Theorem C14_filter_sem_noincl : forall (matches : str -> str -> bool) excl key, excl <> [] ->
  key_regex_filter matches excl None key = true <-> exists e, In e excl /\ matches e key = true.
Proof. exact filter_sem_noincl. Qed.

(** extra exclude/include patterns (-e / -i) compose with the defaults as exclude-unless-included *)
Theorem C14_compose : forall (matches : str -> str -> bool) de di xe xi key, de <> [] -> di <> [] ->
  cli_filter matches de di xe xi key = true <->
  (exists e, (In e de \/ In e xe) /\ matches e key = true) /\
  ~ (exists i, (In i di \/ In i xi) /\ matches i key = true).
Proof. exact cli_filter_sem. Qed.

(** the default filter (lists regenerated from the source): closed statement with substring search *)
Theorem C14_default : forall key,
  default_filter key = true <->
  (exists e, In e default_key_excl_res /\ containsb e key = true) /\
  ~ (exists i, In i default_key_incl_res /\ containsb i key = true).
Proof. exact default_filter_sem. Qed.

Theorem C14_default_lists_plain :
  forallb plain_pattern default_key_excl_res && forallb plain_pattern default_key_incl_res = true.
Proof. exact defaults_plain. Qed.

(** image position and orientation are always kept *)
Theorem C14_position_orientation_kept : forall key,
  containsb [73;109;97;103;101;80;111;115;105;116;105;111;110;80;97;116;105;101;110;116]%N key = true \/
  containsb [73;109;97;103;101;79;114;105;101;110;116;97;116;105;111;110;80;97;116;105;101;110;116]%N key = true ->
  default_filter key = false.
Proof. exact position_orientation_kept. Qed.

(** the categories the property names are on the exclude list: patient, physician, date, UID, institution *)
Theorem C14_named_categories_excluded :
  forallb (fun p => existsb (str_eqb p) default_key_excl_res)
    [[80;97;116;105;101;110;116]; [80;104;121;115;105;99;105;97;110]; [68;97;116;101]; [85;73;68];
     [73;110;115;116;105;116;117;116;105;111;110]]%N = true.
Proof. vm_compute. reflexivity. Qed.

(** the default exclude list is no weaker than the list the library ships at the pinned commit (the property's
    "patient, physician, dates, UIDs, institution, ..."): every one of those 29 literals still contains a current
    exclude pattern, so every key containing one of them is still excluded (patterns may be added or generalised,
    not dropped, narrowed or fused) *)
Definition baseline_excludes : list str :=
  [[80; 97; 116; 105; 101; 110; 116]%N;
   [80; 104; 121; 115; 105; 99; 105; 97; 110]%N;
   [79; 112; 101; 114; 97; 116; 111; 114]%N;
   [68; 97; 116; 101]%N;
   [66; 105; 114; 116; 104]%N;
   [65; 100; 100; 114; 101; 115; 115]%N;
   [73; 110; 115; 116; 105; 116; 117; 116; 105; 111; 110]%N;
   [83; 116; 97; 116; 105; 111; 110]%N;
   [83; 105; 116; 101; 78; 97; 109; 101]%N;
   [65; 103; 101]%N;
   [67; 111; 109; 109; 101; 110; 116]%N;
   [80; 104; 111; 110; 101]%N;
   [84; 101; 108; 101; 112; 104; 111; 110; 101]%N;
   [73; 110; 115; 117; 114; 97; 110; 99; 101]%N;
   [82; 101; 108; 105; 103; 105; 111; 117; 115]%N;
   [76; 97; 110; 103; 117; 97; 103; 101]%N;
   [77; 105; 108; 105; 116; 97; 114; 121]%N;
   [77; 101; 100; 105; 99; 97; 108; 82; 101; 99; 111; 114; 100]%N;
   [69; 116; 104; 110; 105; 99]%N;
   [79; 99; 99; 117; 112; 97; 116; 105; 111; 110]%N;
   [85; 110; 107; 110; 111; 119; 110]%N;
   [80; 114; 105; 118; 97; 116; 101; 84; 97; 103; 68; 97; 116; 97]%N;
   [85; 73; 68]%N;
   [83; 116; 117; 100; 121; 68; 101; 115; 99; 114; 105; 112; 116; 105; 111; 110]%N;
   [68; 101; 118; 105; 99; 101; 83; 101; 114; 105; 97; 108; 78; 117; 109; 98; 101; 114]%N;
   [82; 101; 102; 101; 114; 101; 110; 99; 101; 100; 73; 109; 97; 103; 101; 83; 101; 113; 117; 101; 110; 99; 101]%N;
   [82; 101; 113; 117; 101; 115; 116; 101; 100; 80; 114; 111; 99; 101; 100; 117; 114; 101; 68; 101; 115; 99; 114; 105; 112; 116; 105; 111; 110]%N;
   [80; 101; 114; 102; 111; 114; 109; 101; 100; 80; 114; 111; 99; 101; 100; 117; 114; 101; 83; 116; 101; 112; 68; 101; 115; 99; 114; 105; 112; 116; 105; 111; 110]%N;
   [80; 101; 114; 102; 111; 114; 109; 101; 100; 80; 114; 111; 99; 101; 100; 117; 114; 101; 83; 116; 101; 112; 73; 68]%N].
Theorem C14_default_no_weaker_than_baseline :
  forallb (fun l => existsb (fun p => containsb p l) default_key_excl_res) baseline_excludes = true.
Proof. vm_compute. reflexivity. Qed.

(** non-vacuity: "PatientName" is filtered, "ImagePositionPatient" (contains "Patient") is kept, "EchoTime" is kept *)
Example C14_example :
  default_filter [80;97;116;105;101;110;116;78;97;109;101]%N = true /\
  default_filter [73;109;97;103;101;80;111;115;105;116;105;111;110;80;97;116;105;101;110;116]%N = false /\
  default_filter [69;99;104;111;84;105;109;101]%N = false.
Proof. vm_compute. repeat split. Qed.

(** "nothing else": adding include patterns never removes a key that was kept before *)
Theorem C14_more_includes_remove_no_more : forall (matches : str -> str -> bool) de di xe xi xi' key, de <> [] -> di <> [] ->
  cli_filter matches de di xe (xi ++ xi') key = true -> cli_filter matches de di xe xi key = true.
Proof. exact cli_filter_more_incl. Qed.

(** adding exclude patterns never keeps a key that was removed before *)
Theorem C14_more_excludes_remove_no_less : forall (matches : str -> str -> bool) de di xe xe' xi key, de <> [] -> di <> [] ->
  cli_filter matches de di xe xi key = true -> cli_filter matches de di (xe ++ xe') xi key = true.
Proof. exact cli_filter_more_excl. Qed.

(** a key that no exclude pattern (default or extra) matches is kept, whatever the include lists are *)
Theorem C14_unmatched_key_kept : forall (matches : str -> str -> bool) de di xe xi key, de <> [] -> di <> [] ->
  (forall e, In e de \/ In e xe -> matches e key = false) -> cli_filter matches de di xe xi key = false.
Proof. exact cli_filter_unmatched_kept. Qed.

(** non-vacuity of the three statements above on the shipped default lists with plain-literal matching:
    "EchoTime" is matched by no default exclude pattern; adding the include "Name" rescues "PatientName" *)
Example C14_mono_example :
  cli_filter literal_matches default_key_excl_res default_key_incl_res [] [] [80;97;116;105;101;110;116;78;97;109;101]%N = true /\
  cli_filter literal_matches default_key_excl_res default_key_incl_res [] [[78;97;109;101]%N] [80;97;116;105;101;110;116;78;97;109;101]%N = false /\
  forallb (fun e => negb (literal_matches e [69;99;104;111;84;105;109;101]%N)) default_key_excl_res = true.
Proof. split; [vm_compute; reflexivity | split; [vm_compute; reflexivity | vm_compute; reflexivity]]. Qed.
