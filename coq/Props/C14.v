(** Property C14 — theorems only (filter semantics; the conversion-level key-set equation is added
    when the stack and extension models are connected). *)
From Coq Require Import List Bool NArith.
From DV Require Import Common.Str Filter.Model Filter.Proofs Generated.T_filter.
Import ListNotations.

(** exclude-unless-included, for every regex engine [matches], every key and all non-empty lists *)
Theorem C14_filter_sem : forall (matches : str -> str -> bool) excl incl key, excl <> [] -> incl <> [] ->
  key_regex_filter matches excl (Some incl) key = true <->
  (exists e, In e excl /\ matches e key = true) /\ ~ (exists i, In i incl /\ matches i key = true).
Proof. exact filter_sem. Qed.

Theorem C14_filter_sem_noincl : forall (matches : str -> str -> bool) excl key, excl <> [] ->
  key_regex_filter matches excl None key = true <-> exists e, In e excl /\ matches e key = true.
Proof. exact filter_sem_noincl. Qed.

(** extra exclude/include patterns (-e / -i) compose with the defaults as exclude-unless-included *)
Theorem C14_compose : forall (matches : str -> str -> bool) de di xe xi key, de <> [] -> di <> [] ->
  cli_filter matches de di xe xi key = true <->
  (exists e, (In e de \/ In e xe) /\ matches e key = true) /\
  ~ (exists i, (In i di \/ In i xi) /\ matches i key = true).
Proof. exact cli_filter_sem. Qed.

(** the default filter (lists regenerated from the source): closed statement with substring search *)
Theorem C14_default : forall key,
  default_filter key = true <->
  (exists e, In e default_key_excl_res /\ containsb e key = true) /\
  ~ (exists i, In i default_key_incl_res /\ containsb i key = true).
Proof. exact default_filter_sem. Qed.

Theorem C14_default_lists_plain :
  forallb plain_pattern default_key_excl_res && forallb plain_pattern default_key_incl_res = true.
Proof. exact defaults_plain. Qed.

(** image position and orientation are always kept *)
Theorem C14_position_orientation_kept : forall key,
  containsb [73;109;97;103;101;80;111;115;105;116;105;111;110;80;97;116;105;101;110;116]%N key = true \/
  containsb [73;109;97;103;101;79;114;105;101;110;116;97;116;105;111;110;80;97;116;105;101;110;116]%N key = true ->
  default_filter key = false.
Proof. exact position_orientation_kept. Qed.

(** the categories the property names are on the exclude list: patient, physician, date, UID, institution *)
Theorem C14_named_categories_excluded :
  forallb (fun p => existsb (str_eqb p) default_key_excl_res)
    [[80;97;116;105;101;110;116]; [80;104;121;115;105;99;105;97;110]; [68;97;116;101]; [85;73;68];
     [73;110;115;116;105;116;117;116;105;111;110]]%N = true.
Proof. vm_compute. reflexivity. Qed.

(** non-vacuity: "PatientName" is filtered, "ImagePositionPatient" (contains "Patient") is kept, "EchoTime" is kept *)
Example C14_example :
  default_filter [80;97;116;105;101;110;116;78;97;109;101]%N = true /\
  default_filter [73;109;97;103;101;80;111;115;105;116;105;111;110;80;97;116;105;101;110;116]%N = false /\
  default_filter [69;99;104;111;84;105;109;101]%N = false.
Proof. vm_compute. repeat split. Qed.
