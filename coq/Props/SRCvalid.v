(** Source equality, validity check — theorems only.  The hand-written model Content.Model.check_valid (and its
    get_valid_classes / get_multiplicity on raw contents) is equal to the definitions TRANSLATED on every run from the
    current Python source of DcmMetaExtension.check_valid and of everything it calls (Generated/T_src_valid.v;
    translator tools/tables/py2coq.py; dynamic primitives and their numeric conventions: Common/PyOps2Dyn.v).
    External code is provided by the model: np.array(x) by [np_shape], _req_base_keys_map[v] by [req_keys]. *)
From Coq Require Import List Bool ZArith NArith QArith.
From DV Require Import Common.Res Common.Str Common.Jv Common.PyOps2 Common.PyOps2Dyn Generated.T_content Generated.T_src_valid
     Content.PyVal Content.Model Content.SrcEqValid.
Import ListNotations.

(** get_valid_classes() and get_multiplicity(classification) on a raw content: every content, every pair of names *)
Theorem SRC_valid_classes_dyn : forall c : jv, get_valid_classes_dyn c classifications = get_valid_classes c.
Proof. exact get_valid_classes_dyn_eq. Qed.

Theorem SRC_multiplicity_dyn : forall (c : jv) (cl : cname),
  get_multiplicity_dyn c classifications cl = get_multiplicity c cl.
Proof. exact get_multiplicity_dyn_eq. Qed.

(** check_valid(): every content (dict or not) in which no classification entry content[base][sub] is a list or a
    str — accept / reject and the exception class *)
Theorem SRC_check_valid : forall c : jv, class_entries_ok c = true ->
  check_valid_dyn np_shape req_keys c classifications = check_valid c.
Proof. exact check_valid_dyn_eq. Qed.

(** non-vacuity: a valid 4-D content is in the domain and accepted; dropping a required sub-dictionary, a wrong number
    of values and a doubly classified key are rejected *)
Definition ex_content (tslices : jv) (gconst : list (str * jv)) : jv :=
  JObj [(K_version, JNum [48; 46; 54]%N); (K_affine, JArr (repeat (JArr (repeat (JInt 0) 4)) 4));
        (K_slice_dim, JInt 2); (K_shape, JArr [JInt 2; JInt 2; JInt 3; JInt 2]);
        ([100; 99; 109; 109; 101; 116; 97; 95; 114; 101; 111; 114; 105; 101; 110; 116; 95; 116; 114; 97; 110; 115; 102; 111; 114; 109]%N, JNull);
        (N_global, JObj [(N_const, JObj gconst); (N_slices, JObj [])]);
        (N_time, JObj [(N_samples, JObj [([97]%N, JArr [JInt 1; JInt 2])]); (N_slices, tslices)])].

Example SRC_check_valid_example :
  let good := ex_content (JObj [([98]%N, JArr [JInt 1; JInt 2; JInt 3])]) [([99]%N, JInt 5)] in
  class_entries_ok good = true /\
  check_valid_dyn np_shape req_keys good classifications = Ok tt /\
  check_valid_dyn np_shape req_keys (ex_content (JObj [([98]%N, JArr [JInt 1; JInt 2])]) []) classifications = Err EInvalidExt /\
  check_valid_dyn np_shape req_keys (ex_content (JObj []) [([97]%N, JInt 5)]) classifications = Err EInvalidExt /\
  check_valid_dyn np_shape req_keys (JArr []) classifications = Err EType /\
  get_multiplicity_dyn good classifications (N_global, N_slices) = Ok 6%Z.
Proof. vm_compute. repeat split. Qed.

(** the domain hypothesis is needed: with a LIST as classification entry Python builds set(list) in the uniqueness
    loop and accepts (so does the translation), the hand model answers TypeError (documented at the head of
    Content/Model.v as outside its exact domain) *)
Example SRC_check_valid_domain_needed :
  let c := ex_content (JObj []) [] in
  let c' := match c with
            | JObj o => JObj (map (fun kv => if str_eqb (fst kv) N_global
                                             then (N_global, JObj [(N_const, JArr [JInt 1]); (N_slices, JObj [])]) else kv) o)
            | _ => c end in
  class_entries_ok c' = false /\
  check_valid_dyn np_shape req_keys c' classifications = Ok tt /\ check_valid c' = Err EType.
Proof. vm_compute. repeat split. Qed.
