(** C12  Conversion results do not depend on add order or on earlier calls. *)
From Coq Require Import List Bool Arith Permutation QArith Qcanon.
From DV Require Import Common.Res Common.Str Stack.Model Stack.ProofsInv Stack.ProofsC12.
Import ListNotations.
Local Open Scope nat_scope.

(** Two arbitrary histories (adds, shape / data / affine queries, conversions with any voxel order and
    embed flag, in any interleaving, refused adds included) on stacks with the same configuration: when
    the accepted files are the same multiset, a final conversion gives the same result (or the same
    exception). *)
Theorem C12_history : forall ct cv h1 h2 vo em,
  Permutation (accepted (init ct cv) h1) (accepted (init ct cv) h2) ->
  snd (to_nifti (run (init ct cv) h1) vo em) = snd (to_nifti (run (init ct cv) h2) vo em).
Proof. exact C12_history_lemma. Qed.

(** The same for EVERY query and conversion: shape, data (file order per voxel block, shape, dtype), affine (source
    file and slice column) and to_nifti_wrapper after any two histories that accepted the same files.  Together
    with the correspondence check (Stack.Corr.check compares, operation by operation, the implementation with
    [trace] = the model after the same calls, see [C12_trace]) this is: code after a history = model after that
    history (checked per case inside Coq) = model on a fresh stack (this theorem). *)
Theorem C12_queries : forall ct cv h1 h2 o,
  Permutation (accepted (init ct cv) h1) (accepted (init ct cv) h2) ->
  match o with
  | OAdd _ => True
  | _ => snd (step (run (init ct cv) h1) o) = snd (step (run (init ct cv) h2) o)
  end.
Proof. exact C12_queries_lemma. Qed.

(** What the correspondence check evaluates: item k of the trace is the k-th call applied to the model after the
    first k calls. *)
Theorem C12_trace : forall h st k d,
  k < length h ->
  nth k (trace st h) d =
  let '(s, x) := step (run st (firstn k h)) (nth k h OGetShape) in (x, (ids (files_info s), shape_dirty s)).
Proof. exact trace_spec. Qed.

(** The files added in another order, followed by any sequence of queries and conversions, against a
    fresh stack. *)
Theorem C12_fresh : forall ct cv fs fs' ops vo em,
  no_adds ops = true ->
  Permutation (accepted (init ct cv) (map OAdd fs)) (accepted (init ct cv) (map OAdd fs')) ->
  snd (to_nifti (run (init ct cv) (map OAdd fs' ++ ops)) vo em) =
  snd (to_nifti (run (init ct cv) (map OAdd fs)) vo em).
Proof. exact C12_fresh_lemma. Qed.

(** Key fact: an accepted order has no two files with the same sort key (explicit order: collision
    check; guessed key: the tie test of the guessing loop; single volume: distinct positions). *)
Theorem C12_no_ties : forall st sh,
  reachable st -> snd (get_shape st) = Ok sh -> NoDup (map e_tuple (files_info (fst (get_shape st)))).
Proof. exact C12_no_ties_lemma. Qed.

(** The stack holds exactly the accepted files, whatever was asked in between. *)
Theorem C12_files : forall ct cv h,
  Permutation (map e_file (files_info (run (init ct cv) h))) (accepted (init ct cv) h).
Proof. intros ct cv h. exact (run_files h (init ct cv) (wf_init ct cv)). Qed.

(** The array's data type depends on the files only as a multiset (all files are looked at, fix 63f686b). *)
Theorem C12_dtype : forall fs fs', Permutation fs fs' -> stack_dtype fs = stack_dtype fs'.
Proof. exact stack_dtype_perm. Qed.

(* ------------------------------------------------------------------------------------------ *)
(** Non-vacuity *)

Definition q (x : Q) : Qc := Q2Qc x.
Definition fl (i : nat) (p : Q) (te : Q) : file :=
  mkfile i true 2 3 [1%Q; 1%Q] [1%Q; 0%Q; 0%Q; 0%Q; 1%Q; 0%Q] (q p) None None
         [([69; 99; 104; 111; 84; 105; 109; 101]%N, q te)] (Some (q 2000)) (Some [82; 79; 87]%N)
         (* files differ in dtype, BitsStored and AcquisitionTime presence, yet are congruent *)
         (if Nat.even i then 1 else 0) (if i <? 3 then 12 else 16) (Nat.odd i).

(** 3 slices x 2 echo times, guessed order *)
Definition ex_files : list file :=
  [fl 0 0 10; fl 1 1 10; fl 2 2 10; fl 3 0 20; fl 4 1 20; fl 5 2 20].
Definition ex_ops : list op :=
  [OGetShape; OToNifti (Some true) true; OGetData; OToNiftiWrapper (Some false); OGetAffine; OToNifti None false].

Example C12_history_ex :
  accepted (init false false) (map OAdd (rev ex_files) ++ ex_ops) = rev ex_files /\
  accepted (init false false) (map OAdd ex_files) = ex_files /\
  (* the history really flips and re-sorts the files along the way *)
  map (fun x => ids (files_info (run (init false false) (map OAdd (rev ex_files) ++ firstn x ex_ops)))) [0; 1; 2; 3]
  = [[5; 4; 3; 2; 1; 0]; [0; 1; 2; 3; 4; 5]; [2; 1; 0; 5; 4; 3]; [0; 1; 2; 3; 4; 5]] /\
  option_map o_order (match snd (to_nifti (run (init false false) (map OAdd (rev ex_files) ++ ex_ops)) (Some true) true)
                      with Ok o => Some o | Err _ => None end) = Some [2; 1; 0; 5; 4; 3] /\
  (* the dtype is the promotion over ALL files (int16 and uint16 files -> int32, code 4); the per-file shape is read
     from the first file of the SORTED list (file 0), never from the first file added (file 5); slice timing is
     off because not every file has an AcquisitionTime *)
  option_map (fun o => (o_data_ref o, o_dtype o, o_has_acq o))
             (match snd (to_nifti (run (init false false) (map OAdd (rev ex_files) ++ ex_ops)) (Some true) true)
              with Ok o => Some o | Err _ => None end) = Some (0, 4, false).
Proof. repeat split; vm_compute; reflexivity. Qed.

Example C12_fresh_ex :
  no_adds ex_ops = true /\
  Permutation (accepted (init false false) (map OAdd ex_files)) (accepted (init false false) (map OAdd (rev ex_files))).
Proof.
  split; [reflexivity|].
  destruct C12_history_ex as [_ [H2 _]]. rewrite H2.
  assert (H : accepted (init false false) (map OAdd (rev ex_files)) = rev ex_files) by (vm_compute; reflexivity).
  rewrite H. apply Permutation_rev.
Qed.

Example C12_no_ties_ex :
  reachable (run (init false false) (map OAdd ex_files)) /\
  snd (get_shape (run (init false false) (map OAdd ex_files))) = Ok [2; 3; 3; 2].
Proof. split; [exists false, false, (map OAdd ex_files); reflexivity | vm_compute; reflexivity]. Qed.

Example C12_dtype_ex :
  Permutation ex_files (rev ex_files) /\ stack_dtype ex_files = 4 /\
  stack_dtype [fl 0 0 10; fl 2 2 10] = 0 /\ stack_dtype [fl 4 1 20] = 1.
Proof. split; [apply Permutation_rev|]. split; [reflexivity|]. split; reflexivity. Qed.

Example C12_queries_ex :
  snd (step (run (init false false) (map OAdd (rev ex_files) ++ ex_ops)) OGetAffine) = Ok (OutAffine 0 (Some (0, 1))) /\
  snd (step (run (init false false) (map OAdd ex_files)) OGetAffine) = Ok (OutAffine 0 (Some (0, 1))) /\
  snd (step (run (init false false) (map OAdd (rev ex_files) ++ ex_ops)) OGetData)
  = Ok (OutData [0; 1; 2; 3; 4; 5] [2; 3; 3; 2] 4).
Proof. split; [vm_compute; reflexivity|]. split; vm_compute; reflexivity. Qed.

Example C12_trace_ex : length (trace (init false false) (map OAdd ex_files ++ ex_ops)) = 12.
Proof. vm_compute. reflexivity. Qed.

Example C12_files_ex :
  length (accepted (init false false) (map OAdd ex_files ++ [OAdd (fl 6 0 10)])) = 7.
Proof. vm_compute. reflexivity. Qed.
