(** C03 Merge is concatenation -- IMAGE half: [NiftiWrapper.from_sequence] stacks the voxels in input order,
    extends the affine, merges the header slice dim, and refuses exactly what its loop tests.
    Every theorem holds for EVERY normalisation function [unitv] (the model of [v / sqrt(v.v)]); where a
    theorem needs the normalisation to behave at a particular vector it says so ([unit_ok]).
    Model: Wrapper/Model.v; vocabulary: Wrapper/Spec.v. *)
From Coq Require Import List Bool Arith ZArith NArith QArith Qabs Lia.
From DV Require Import Common.Res Common.Str Common.Jv Ext.Types Ext.Model Ext.Spec Ext.LookupSpec Ext.ValidFacts
     Ext.ProofsMergeFrame Ext.ProofsMerge
     Orient.Model Wrapper.Model Wrapper.Spec Wrapper.Corr
     Wrapper.ProofsC03 Wrapper.ProofsUnit Wrapper.ProofsLookupW.
Import ListNotations.
Local Open Scope nat_scope.

Theorem C03img_data :
  forall (unitv : vec -> vec) (ims : list img) (odim : option nat) (r im0 : img) (rest : list img),
    ims = im0 :: rest -> uniform ims (ishape im0) ->
    from_sequence_img unitv ims odim = Ok r ->
    exists dim,
      resolve_merge_dim (ishape im0) odim = Ok dim /\
      ishape r = merged_shape (ishape im0) dim (length ims) /\ wf_img r /\
      forall idx, in_bounds (ishape r) idx = true ->
        aget (iarr r) idx = aget (iarr (nth (nth dim idx 0) ims im0)) (merge_src (ishape im0) dim idx).
Proof. exact merge_data_law. Qed.

Theorem C03img_affine :
  forall (unitv : vec -> vec) (ims : list img) (odim : option nat) (r : img) (dim : nat) (im0 : img) (rest : list img),
    ims = im0 :: rest -> is_shape 4 4 (iaff im0) = true ->
    resolve_merge_dim (ishape im0) odim = Ok dim ->
    from_sequence_img unitv ims odim = Ok r ->
    (dim < 3 ->
       2 <= length ims /\
       col3 (iaff r) dim = map Qred (vsub (trans_of (iaff (nth 1 ims im0))) (trans_of (iaff im0))) /\
       forall i k, i < 4 -> k < 4 -> ~ (i < 3 /\ k = dim) -> mentry (iaff r) i k = mentry (iaff im0) i k) /\
    (3 <= dim -> iaff r = iaff im0).
Proof. exact merge_affine_law. Qed.

Theorem C03img_slice :
  forall (unitv : vec -> vec) (ims : list img) (odim : option nat) (r im0 : img) (rest : list img),
    ims = im0 :: rest -> from_sequence_img unitv ims odim = Ok r ->
    islice r = if all_same_slice (islice im0) (map islice rest) then islice im0 else None.
Proof. exact merge_slice_law. Qed.

Theorem C03img_refuse :
  forall (unitv : vec -> vec) (ims : list img) (odim : option nat) (dim : nat) (im0 : img) (rest : list img),
    ims = im0 :: rest -> uniform ims (ishape im0) ->
    resolve_merge_dim (ishape im0) odim = Ok dim ->
    (from_sequence_img unitv ims odim = Err EValue <-> ~ mergeable unitv dim ims im0).
Proof. exact merge_refuse_law. Qed.

(** ... i.e. refusal iff SOME input is oriented differently, or (spatial merge axis) SOME consecutive pair of
    translations fails the step test *)
Theorem C03img_refuse_exists :
  forall (unitv : vec -> vec) (dim : nat) (ims : list img) (d : img),
    ~ mergeable unitv dim ims d <->
    (exists i, i < length ims /\ orient_okb unitv dim (iaff (nth 0 ims d)) (iaff (nth i ims d)) = false) \/
    (dim < 3 /\ exists i, S i < length ims /\
                          bad_step unitv dim (iaff (nth i ims d)) (iaff (nth (S i) ims d)) = true).
Proof. exact not_mergeable_iff. Qed.

Theorem C03img_never_crashes :
  forall (unitv : vec -> vec) (ims : list img) (odim : option nat) (dim : nat) (im0 : img) (rest : list img),
    ims = im0 :: rest -> uniform ims (ishape im0) ->
    resolve_merge_dim (ishape im0) odim = Ok dim ->
    (2 <= length ims \/ 3 <= dim) ->
    ((exists r, from_sequence_img unitv ims odim = Ok r) <-> mergeable unitv dim ims im0) /\
    (forall e, from_sequence_img unitv ims odim = Err e -> e = EValue).
Proof. exact merge_accept_law. Qed.

(** the bad-argument refusals: [dim] outside [0,5) or an existing non-singular axis *)
Theorem C03img_dim_argument :
  forall (sh : list nat) (odim : option nat) (dim : nat),
    resolve_merge_dim sh odim = Ok dim -> dim < 5 /\ (dim < length sh -> nth dim sh 0 = 1).
Proof. exact resolve_merge_dim_ok. Qed.

(** what the step test of [mergeable] means *)
Theorem C03img_step_test :
  forall (unitv : vec -> vec) (dim : nat) (Ap A : mat),
    let td := vsub (trans_of A) (trans_of Ap) in
    (near_zero td = false -> unit_ok unitv td) ->
    (bad_step unitv dim Ap A = false <->
     near_zero td = false /\ (Qabs (dot (unitv td) (unitv (col3 A dim)) - 1) <= 11 # 1000000)%Q).
Proof. exact step_test_reading. Qed.

(** WRAPPER level (image half composed with C03_merge_den and C08_value): a lookup ([get_meta], default None) on the
    merged wrapper at a voxel whose merge-axis coordinate is [i] returns what input [i] contributes at the remaining
    coordinates ([den_in]: the input's own value, without its per-slice classes when its slice normal differs from
    the result's); when the slice normals agree that is input [i]'s own lookup at the remaining coordinates.
    Domain: at least two inputs, each extension valid and recording its image's shape / slice dim / affine, all
    images of one shape and header slice dim; merge along the slice, time or vector axis; no trailing singleton dim
    in the result (open finding N4).  Nothing is assumed about [unitv]. *)
Theorem C03w_lookup :
  forall (V : Type) (veqb : V -> V -> bool) (vnone : V), (forall a b, reflect (a = b) (veqb a b)) ->
  forall (unitv : vec -> vec) (ws : list (wrapper V)) (odim : option nat) (r : img) (e : ext V)
         (im0 : img) (e0 : ext V) (rest : list (wrapper V)),
    ws = (im0, e0) :: rest -> 2 <= length ws ->
    (forall w, In w ws -> consistent w /\ valid (snd w) /\ ishape (fst w) = ishape im0 /\ islice (fst w) = islice im0) ->
    from_sequence_w veqb vnone unitv ws odim = Ok (r, e) ->
    trailing1b (ishape r) = false ->
    exists dim, resolve_merge_dim (ishape im0) odim = Ok dim /\ consistent (r, e) /\
      forall ax, ProofsMergeFrame.axis_of (islice im0) dim = Some ax -> (3 <= dim -> islice im0 <> None) ->
        valid e /\
        forall k ix, LookupSpec.in_bounds ix (ishape r) ->
          let w := nth (Z.to_nat (nth dim ix 0%Z)) ws (im0, e0) in
          let ixi := merge_src_z (ishape im0) dim ix in
          Z.to_nat (nth dim ix 0%Z) < length ws /\ LookupSpec.in_bounds ixi (ishape (fst w)) /\
          get_meta (ext_img_of r) e k (Some ix) vnone =
            Ok (den_in vnone (hdr_of e) (snd w) k (pos_of (ext_img_of (fst w)) ixi)) /\
          (use_slices (hdr_of e) (hdr_of (snd w)) = true ->
           get_meta (ext_img_of r) e k (Some ix) vnone = get_meta (ext_img_of (fst w)) (snd w) k (Some ixi) vnone).
Proof. exact @from_sequence_w_lookup. Qed.

(* ------------------------------------------------------------------------------------------ non-vacuity *)

(** an oblique affine with a NON-symmetric 3x3 part: columns (3,4,0)/2, (-4,3,0), (0,0,5)/2 *)
Definition exA (t0 t1 t2 : Q) : mat :=
  [[3 # 2; -4 # 1; 0; t0]; [2 # 1; 3 # 1; 0; t1]; [0; 0; 5 # 2; t2]; [0; 0; 0; 1]]%Q.
(** three (1,2,2) images stepping along column 0 = (1.5, 2, 0) *)
Definition ex0 : img := mk_img [1; 2; 2] [1; 2; 3; 4]%Z (exA 10 (-8) 3) (Some 2).
Definition ex1 : img := mk_img [1; 2; 2] [11; 12; 13; 14]%Z (exA (23 # 2) (-6) 3) (Some 2).
Definition ex2 : img := mk_img [1; 2; 2] [21; 22; 23; 24]%Z (exA 13 (-4) 3) (Some 2).
Definition ex_ims : list img := [ex0; ex1; ex2].

Lemma ex_uniform (l : list img) sh :
  forallb (fun im => Seq.list_nat_eqb (ishape im) sh && wf_imgb im) l = true -> uniform l sh.
Proof.
  intros H im Hin. rewrite forallb_forall in H. specialize (H im Hin).
  apply andb_prop in H as [H1 H2]. apply andb_prop in H2 as [H2 H3].
  split; [apply ProofsArr.list_nat_eqb_eq, H1|]. split; [apply Nat.eqb_eq, H2 | exact H3].
Qed.

(** every hypothesis of [C03img_data] instantiated (three oblique (1,2,2) images along dim 0), and its conclusion *)
Example C03img_data_nonvacuous :
  exists r, ex_ims = ex0 :: [ex1; ex2] /\ uniform ex_ims (ishape ex0) /\
            from_sequence_img unit_exact ex_ims (Some 0) = Ok r /\
            resolve_merge_dim (ishape ex0) (Some 0) = Ok 0 /\
            ishape r = [3; 2; 2] /\ idata r = [1; 2; 3; 4; 11; 12; 13; 14; 21; 22; 23; 24]%Z /\
            aget (iarr r) [2; 1; 0] = aget (iarr ex2) (merge_src (ishape ex0) 0 [2; 1; 0]).
Proof.
  eexists. split; [reflexivity|]. split; [apply ex_uniform; reflexivity|]. split; [vm_compute; reflexivity|].
  repeat split.
Qed.

Example C03img_affine_nonvacuous :
  exists r, ex_ims = ex0 :: [ex1; ex2] /\ is_shape 4 4 (iaff ex0) = true /\
            resolve_merge_dim (ishape ex0) (Some 0) = Ok 0 /\
            from_sequence_img unit_exact ex_ims (Some 0) = Ok r /\
            col3 (iaff r) 0 = [3 # 2; 2; 0]%Q /\ mentry (iaff r) 1 1 = mentry (iaff ex0) 1 1.
Proof. eexists. split; [reflexivity|]. split; [reflexivity|]. split; [reflexivity|]. split; [vm_compute; reflexivity|]. split; reflexivity. Qed.

(** a 5-D merge: (2,1,1,1,2) inputs along dim 3, header slice dims 2 and 1: the merged header has none *)
Example C03img_slice_nonvacuous :
  let ims := [mk_img [2; 1; 1; 1; 2] [1; 2; 3; 4]%Z (exA 0 0 0) (Some 2);
              mk_img [2; 1; 1; 1; 2] [5; 6; 7; 8]%Z (exA 0 0 0) (Some 1)] in
  exists r, from_sequence_img unit_exact ims (Some 3) = Ok r /\
            ishape r = [2; 1; 1; 2; 2] /\ idata r = [1; 2; 5; 6; 3; 4; 7; 8]%Z /\ islice r = None.
Proof. cbv zeta. eexists. split; [vm_compute; reflexivity|]. repeat split. Qed.

(** the same images in the order (0,2,1): the second step points backwards; every hypothesis of [C03img_refuse] *)
Example C03img_refuse_nonvacuous :
  [ex0; ex2; ex1] = ex0 :: [ex2; ex1] /\ uniform [ex0; ex2; ex1] (ishape ex0) /\
  resolve_merge_dim (ishape ex0) (Some 0) = Ok 0 /\
  from_sequence_img unit_exact [ex0; ex2; ex1] (Some 0) = Err EValue.
Proof. split; [reflexivity|]. split; [apply ex_uniform; reflexivity|]. split; [reflexivity | vm_compute; reflexivity]. Qed.

Example C03img_refuse_exists_nonvacuous :
  exists i, S i < length [ex0; ex2; ex1] /\
            bad_step unit_exact 0 (iaff (nth i [ex0; ex2; ex1] ex0)) (iaff (nth (S i) [ex0; ex2; ex1] ex0)) = true.
Proof. exists 1. split; [cbn; lia | vm_compute; reflexivity]. Qed.

(** every hypothesis of [C03img_never_crashes], the left side of its equivalence (a result exists) and the right
    side ([mergeable]); [unit_exact] is one of the functions the theorems quantify over, with [unit_ok] at the
    vectors this run normalises *)
Example C03img_never_crashes_nonvacuous :
  ex_ims = ex0 :: [ex1; ex2] /\ uniform ex_ims (ishape ex0) /\ resolve_merge_dim (ishape ex0) (Some 0) = Ok 0 /\
  2 <= length ex_ims /\
  (exists r, from_sequence_img unit_exact ex_ims (Some 0) = Ok r) /\
  mergeable unit_exact 0 ex_ims ex0 /\ unit_ok unit_exact (col3 (exA 10 (-8) 3) 0) /\
  unit_ok unit_exact (vsub [23 # 2; -6 # 1; 3]%Q [10; -8 # 1; 3]%Q).
Proof.
  split; [reflexivity|]. split; [apply ex_uniform; reflexivity|]. split; [reflexivity|]. split; [cbn; lia|].
  split; [eexists; vm_compute; reflexivity|].
  split; [|split; apply unit_exact_ok; vm_compute; reflexivity].
  split.
  - intros i Hi. cbn [length ex_ims] in Hi. destruct i as [|[|[|i]]]; try lia; vm_compute; reflexivity.
  - intros _ i Hi. cbn [length ex_ims] in Hi. destruct i as [|[|i]]; try lia; vm_compute; reflexivity.
Qed.

Example C03img_dim_argument_nonvacuous :
  resolve_merge_dim [2; 1; 2] None = Ok 1 /\ resolve_merge_dim [2; 2; 2] None = Ok 3 /\
  resolve_merge_dim [2; 2; 2; 3] None = Ok 4 /\ resolve_merge_dim [2; 2; 2] (Some 1) = Err EValue /\
  resolve_merge_dim [2; 2; 2] (Some 5) = Err EValue.
Proof. repeat split. Qed.

(** the hypothesis of [C03img_step_test] ([unit_ok] at the step) and both outcomes *)
Example C03img_step_test_nonvacuous :
  unit_ok unit_exact (vsub (trans_of (exA (23 # 2) (-6) 3)) (trans_of (exA 10 (-8) 3))) /\
  bad_step unit_exact 0 (exA 10 (-8) 3) (exA (23 # 2) (-6) 3) = false /\
  bad_step unit_exact 0 (exA (23 # 2) (-6) 3) (exA 10 (-8) 3) = true.
Proof. split; [apply unit_exact_ok; vm_compute; reflexivity|]. split; vm_compute; reflexivity. Qed.

(** [C03w_lookup]: two 4-D wrappers (shape (2,2,2,2), slice axis 2, one per-time-sample key and one per-slice key)
    merged along the vector axis; every hypothesis, and the lookup at a voxel of vector position 1 = input 1's lookup *)
Definition exw_aff : mat := [[1; 0; 0; 0]; [0; 1; 0; 0]; [0; 0; 1; 0]; [0; 0; 0; 1]]%Q.
Definition exw_in (v : Z) : wrapper jv :=
  (mk_img [2; 2; 2; 2] (map (fun i => (Z.of_nat i + 100 * v)%Z) (seq 0 16)) exw_aff (Some 2),
   mk_ext (mk_hdr [2; 2; 2; 2] (Some 2) exw_aff true false)
          [([116]%N, (TSamples, [JInt v; JInt (v + 1)])); ([115]%N, (TSlices, [JInt 7; JInt (v + 2)]))]).

Example C03w_lookup_nonvacuous :
  let ws := [exw_in 10; exw_in 20] in
  2 <= length ws /\
  (forall w, In w ws -> consistent w /\ valid (snd w) /\ ishape (fst w) = ishape (fst (exw_in 10)) /\
                        islice (fst w) = islice (fst (exw_in 10))) /\
  exists r e, from_sequence_w jv_eqb JNull unit_exact ws (Some 4) = Ok (r, e) /\
    trailing1b (ishape r) = false /\ ProofsMergeFrame.axis_of (islice (fst (exw_in 10))) 4 = Some AxV /\
    LookupSpec.in_bounds [1; 0; 1; 1; 1]%Z (ishape r) /\ use_slices (hdr_of e) (hdr_of (snd (exw_in 20))) = true /\
    merge_src_z [2; 2; 2; 2] 4 [1; 0; 1; 1; 1]%Z = [1; 0; 1; 1]%Z /\
    get_meta (ext_img_of r) e [116]%N (Some [1; 0; 1; 1; 1]%Z) JNull = Ok (JInt 21) /\
    get_meta (ext_img_of (fst (exw_in 20))) (snd (exw_in 20)) [116]%N (Some [1; 0; 1; 1]%Z) JNull = Ok (JInt 21) /\
    get_meta (ext_img_of r) e [115]%N (Some [1; 0; 1; 1; 1]%Z) JNull = Ok (JInt 22).
Proof.
  cbv zeta. split; [cbn; lia|]. split.
  - intros w [<-|[<-|[]]]; (split; [repeat split|]); (split; [apply validb_valid; vm_compute; reflexivity|]); split; reflexivity.
  - eexists. eexists. split; [vm_compute; reflexivity|]. split; [reflexivity|]. split; [reflexivity|].
    split; [split; [reflexivity|]; intros j Hj; cbn in Hj; destruct j as [|[|[|[|[|j]]]]]; cbn; lia|].
    split; [vm_compute; reflexivity|]. split; [reflexivity|]. split; [vm_compute; reflexivity|]. split; vm_compute; reflexivity.
Qed.
