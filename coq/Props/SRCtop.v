(** Source equality — END-TO-END corollaries.
    The translated get_subset / from_sequence (Generated/T_src_state.v), run on the contents (Link/Abs.v [to_content]) of VALID,
    NON-DEGENERATE extensions (Ext/Spec.v), return - when the hand model succeeds with [r] - a content [JObj o'] that HOLDS
    exactly the entries of [r] for the header of [r]:   Holds o' (hdr_of r) (lookup_e r)   says that o' has a base dictionary
    exactly for the bases the header has, that every class dictionary of o' has distinct keys, and that it maps k to the stored
    form of vs (the bare value for ('global','const'), the list otherwise) exactly when lookup_e r k = Some (c, vs): equality
    with to_content r up to the order of keys inside the class dictionaries.  The header members of the content (dcmmeta_shape ...)
    come from make_empty, which is the one explicit parameter [mk] ([mkn]: its slice-normal token) with its hypothesis.
    ONE extra hypothesis each: a computable boolean side check ([subset_sideb] / [merge_sideb], Ext/SrcEqTop.v) - every state
    that _copy_slice / _copy_sample / _insert hand to _simplify / _get_changed_class is storable (one value for a constant, a
    varying class of multiplicity <> 1: DESIGN 3.2); the refinement of those two methods is proved for storable states only. *)
From Coq Require Import List Bool Arith NArith ZArith QArith.
From DV Require Import Common.Res Common.Str Common.Jv Common.PyOps2 Common.PyOps2Dyn Generated.T_classes Generated.T_src_state
     Ext.Types Ext.Classes Ext.Seq Ext.Model Ext.Spec Ext.ValidFacts Ext.SrcEqAlg Ext.SrcEqState Ext.SrcEqGetSubset Ext.SrcEqInsertAll
     Ext.SrcEqFromSeq Link.Abs Link.ProofsTo Ext.SrcEqFromSeqLink Ext.SrcEqTop Ext.ProofsValidMerge Ext.SrcEqTopMerge Ext.SrcEqTopSubset.
Import ListNotations.
Local Open Scope nat_scope.

Theorem SRC_top_get_subset : forall (qtok : Q -> str) (mk : list nat -> option nat -> res jv) (e r : ext jv) (dim idx : nat)
    (o0 : list (str * jv)),
  valid e -> nondegenerate e ->
  get_subset jv_eqb JNull e dim idx = Ok r -> subset_sideb e dim idx = true ->
  mk (shape (hdr_of r)) (sdim (hdr_of r)) = Ok (JObj o0) -> Holds o0 (hdr_of r) (fun _ => None) ->
  subset_hdr (hdr_of e) dim = Ok (hdr_of r) /\
  exists o', get_subset_st mk classifications (shape (hdr_of e)) (sdim (hdr_of e)) (n_slices (hdr_of e)) tt tt preserving_changes
                           (okeys const_tests) (okeys repeat_tests) (to_content qtok e) dim idx = Ok (JObj o') /\
             Holds o' (hdr_of r) (lookup_e r).
Proof. exact top_get_subset. Qed.

(** every input comes with the token of its slice normal; [rn] is the token of the result's: they compare as Model.use_slices *)
Theorem SRC_top_from_sequence : forall (qtok : Q -> str) (mk : list nat -> option nat -> res jv) (mkn : option nat -> res (option nat))
    (en0 : ext jv * option nat) (ens : list (ext jv * option nat)) (dim : nat) (sd : option nat) (r : ext jv)
    (oe : list (str * jv)) (rn : option nat),
  (forall en, In en (en0 :: ens) -> valid (fst en) /\ nondegenerate (fst en) /\ tok_eq rn (snd en) = use_slices (hdr_of r) (hdr_of (fst en))) ->
  from_sequence jv_eqb JNull (map fst (en0 :: ens)) dim None sd = Ok r ->
  merge_sideb (fst en0) (map fst ens) dim sd = true ->
  mk (shape (hdr_of r)) (sdim (hdr_of r)) = Ok (JObj oe) -> Holds oe (hdr_of r) (fun _ => None) -> mkn (sdim (hdr_of r)) = Ok rn ->
  merge_hdr (map (@hdr_of jv) (map fst (en0 :: ens))) dim None sd = Ok (hdr_of r) /\
  exists o', from_sequence_st mk mkn classifications None preserving_changes (okeys const_tests) (okeys repeat_tests) JNull
                              (map to_inst (map (ext_input qtok) (en0 :: ens))) dim None sd = Ok (JObj o') /\
             Holds o' (hdr_of r) (lookup_e r).
Proof. exact top_from_sequence. Qed.

(** get_subset with NO side check: dim and (along the slice dimension) idx in range as in C04; for a subset along time / vector the
    extension has more than one slice (with a single slice the per-slice classes of the piece have multiplicity 1 before
    _simplify, outside the storable states of DESIGN 3.2) *)
Theorem SRC_top_get_subset_valid : forall (qtok : Q -> str) (mk : list nat -> option nat -> res jv) (e r : ext jv) (dim idx : nat)
    (o0 : list (str * jv)),
  valid e -> nondegenerate e -> dim < ndim (hdr_of e) ->
  (odim_is (sdim (hdr_of e)) dim = true -> idx < nth dim (shape (hdr_of e)) 0) ->
  (odim_is (sdim (hdr_of e)) dim = false -> (dim <? 3) = false -> n_slices (hdr_of e) <> Some 1) ->
  get_subset jv_eqb JNull e dim idx = Ok r ->
  mk (shape (hdr_of r)) (sdim (hdr_of r)) = Ok (JObj o0) -> Holds o0 (hdr_of r) (fun _ => None) ->
  subset_hdr (hdr_of e) dim = Ok (hdr_of r) /\
  exists o', get_subset_st mk classifications (shape (hdr_of e)) (sdim (hdr_of e)) (n_slices (hdr_of e)) tt tt preserving_changes
                           (okeys const_tests) (okeys repeat_tests) (to_content qtok e) dim idx = Ok (JObj o') /\
             Holds o' (hdr_of r) (lookup_e r).
Proof. exact top_get_subset_valid. Qed.

(** from_sequence with NO side check: inputs valid, non-degenerate and all of the shape and slice dimension of the first (C07's
    [merge_dom]: the domain of C07_merge / from_sequence_valid) - every state a key goes through is then storable *)
Theorem SRC_top_from_sequence_valid : forall (qtok : Q -> str) (mk : list nat -> option nat -> res jv) (mkn : option nat -> res (option nat))
    (en0 : ext jv * option nat) (ens : list (ext jv * option nat)) (dim : nat) (sd : option nat) (r : ext jv)
    (oe : list (str * jv)) (rn : option nat),
  (forall en, In en (en0 :: ens) -> valid (fst en) /\ nondegenerate (fst en) /\ tok_eq rn (snd en) = use_slices (hdr_of r) (hdr_of (fst en))) ->
  merge_dom (map fst (en0 :: ens)) sd ->
  from_sequence jv_eqb JNull (map fst (en0 :: ens)) dim None sd = Ok r ->
  mk (shape (hdr_of r)) (sdim (hdr_of r)) = Ok (JObj oe) -> Holds oe (hdr_of r) (fun _ => None) -> mkn (sdim (hdr_of r)) = Ok rn ->
  merge_hdr (map (@hdr_of jv) (map fst (en0 :: ens))) dim None sd = Ok (hdr_of r) /\
  exists o', from_sequence_st mk mkn classifications None preserving_changes (okeys const_tests) (okeys repeat_tests) JNull
                              (map to_inst (map (ext_input qtok) (en0 :: ens))) dim None sd = Ok (JObj o') /\
             Holds o' (hdr_of r) (lookup_e r).
Proof. exact top_from_sequence_valid. Qed.

(** what the boolean checks decide *)
Theorem SRC_sideb_sound : forall (h hr : hdr) (dim idx : nat) (c : cls) (vs : list jv),
  (sideb h hr dim idx c vs = true -> side h hr dim idx c vs) /\ (deg_okb h hr dim c = true -> deg_ok h hr dim c).
Proof. exact (fun h hr dim idx c vs => conj (sideb_ok h hr dim idx c vs) (deg_okb_ok h hr dim c)). Qed.

Theorem SRC_traj_okb_sound : forall (hfull : hdr) (dim j : nat) (rest : list (hdr * kst jv)) (ks : kst jv),
  (traj_okb hfull dim j rest ks = true -> traj_ok hfull dim j rest ks) /\ (final_okb hfull ks = true -> final_ok hfull ks).
Proof. exact (fun hfull dim j rest ks => conj (traj_okb_ok hfull dim rest j ks) (final_okb_ok hfull ks)). Qed.

(** * Examples on 5-D extensions: the theorems applied, every hypothesis discharged (validity by C07's boolean checker, the side
    checks by computation) *)
Definition ext_a : list (list Q) := [[1;0;0;0];[0;1;0;0];[0;0;1;0];[0;0;0;1]]%Q.
Definition ext_hg : hdr := mk_hdr [2; 2; 2; 3; 2] (Some 2) ext_a true true.
Definition ext_eg : ext jv :=
  mk_ext ext_hg [([107]%N, (TSamples, map JInt [0; 1; 2; 10; 11; 12]%Z)); ([99]%N, (GConst, [JInt 7%Z]));
                 ([115]%N, (VSlices, map JInt [1; 2; 3; 4; 5; 6]%Z))].
Definition ext_rg : ext jv :=
  mk_ext (mk_hdr [2; 2; 2; 1; 2] (Some 2) ext_a false true)
         [([107]%N, (VSamples, map JInt [1; 11]%Z)); ([99]%N, (GConst, [JInt 7%Z])); ([115]%N, (VSlices, map JInt [3; 4]%Z))].
Definition ext_empty_gv : list (str * jv) :=
  [(name_of_base BGlobal, JObj [(name_of_sub SConst, JObj []); (name_of_sub SSlices, JObj [])]);
   (name_of_base BVector, JObj [(name_of_sub SSamples, JObj []); (name_of_sub SSlices, JObj [])])].
Definition ext_empty_gtv : list (str * jv) :=
  [(name_of_base BGlobal, JObj [(name_of_sub SConst, JObj []); (name_of_sub SSlices, JObj [])]);
   (name_of_base BTime, JObj [(name_of_sub SSamples, JObj []); (name_of_sub SSlices, JObj [])]);
   (name_of_base BVector, JObj [(name_of_sub SSamples, JObj []); (name_of_sub SSlices, JObj [])])].

Example SRC_top_get_subset_example :
  exists o', get_subset_st (fun _ _ => Ok (JObj ext_empty_gv)) classifications (shape ext_hg) (sdim ext_hg) (n_slices ext_hg) tt tt
                           preserving_changes (okeys const_tests) (okeys repeat_tests) (to_content (fun _ => []) ext_eg) 3 1 = Ok (JObj o') /\
             Holds o' (hdr_of ext_rg) (lookup_e ext_rg).
Proof.
  assert (Hv : valid ext_eg) by (apply validb_valid; vm_compute; reflexivity).
  refine (proj2 (SRC_top_get_subset (fun _ => []) (fun _ _ => Ok (JObj ext_empty_gv)) ext_eg ext_rg 3 1 ext_empty_gv Hv
                   (nondegenerateb_nondegenerate _ Hv ltac:(vm_compute; reflexivity)) ltac:(vm_compute; reflexivity)
                   ltac:(vm_compute; reflexivity) eq_refl _)).
  constructor.
  - intros b Hb. destruct b; try discriminate Hb. reflexivity.
  - intros c Hc. exists []. destruct c; try discriminate Hc; (split; [reflexivity|]; split; [constructor | intros k; reflexivity]).
Qed.

Definition ext_h5 : hdr := mk_hdr [2; 2; 2; 1; 2] (Some 2) ext_a false true.
Definition ext_e5 (g : Z) (v : list Z) : ext jv :=
  mk_ext ext_h5 [([103]%N, (GConst, [JInt g])); ([118]%N, (VSamples, map JInt v)); ([115]%N, (GSlices, map JInt [1; 2; 1; 2]%Z))].
Definition ext_r5 : ext jv :=
  mk_ext (mk_hdr [2; 2; 2; 2; 2] (Some 2) ext_a true true)
         [([103]%N, (TSamples, map JInt [5; 6; 5; 6]%Z)); ([118]%N, (TSamples, map JInt [1; 1; 2; 3]%Z)); ([115]%N, (TSlices, map JInt [1; 2]%Z))].

Example SRC_top_from_sequence_example :
  exists o', from_sequence_st (fun _ _ => Ok (JObj ext_empty_gtv)) (fun _ => Ok (Some 2)) classifications None preserving_changes
                              (okeys const_tests) (okeys repeat_tests) JNull
                              (map to_inst (map (ext_input (fun _ => [])) [(ext_e5 5 [1; 2]%Z, Some 2); (ext_e5 6 [1; 3]%Z, Some 2)])) 3 None None
             = Ok (JObj o') /\ Holds o' (hdr_of ext_r5) (lookup_e ext_r5).
Proof.
  assert (Hv : valid (ext_e5 5 [1; 2]%Z) /\ valid (ext_e5 6 [1; 3]%Z)) by (split; apply validb_valid; vm_compute; reflexivity).
  destruct Hv as [Hv1 Hv2].
  refine (proj2 (SRC_top_from_sequence (fun _ => []) (fun _ _ => Ok (JObj ext_empty_gtv)) (fun _ => Ok (Some 2))
                   (ext_e5 5 [1; 2]%Z, Some 2) [(ext_e5 6 [1; 3]%Z, Some 2)] 3 None ext_r5 ext_empty_gtv (Some 2) _
                   ltac:(vm_compute; reflexivity) ltac:(vm_compute; reflexivity) eq_refl _ eq_refl)).
  - intros en [<-|[<-|[]]]; cbn [fst snd].
    + split; [exact Hv1|]. split; [exact (nondegenerateb_nondegenerate _ Hv1 ltac:(vm_compute; reflexivity)) | vm_compute; reflexivity].
    + split; [exact Hv2|]. split; [exact (nondegenerateb_nondegenerate _ Hv2 ltac:(vm_compute; reflexivity)) | vm_compute; reflexivity].
  - constructor.
    + intros b Hb. destruct b; discriminate Hb.
    + intros c Hc. exists []. destruct c; (split; [reflexivity|]; split; [constructor | intros k; reflexivity]).
Qed.

(** the same merge through SRC_top_from_sequence_valid: no side check, the inputs have one shape and slice dimension *)
Example SRC_top_from_sequence_valid_example :
  exists o', from_sequence_st (fun _ _ => Ok (JObj ext_empty_gtv)) (fun _ => Ok (Some 2)) classifications None preserving_changes
                              (okeys const_tests) (okeys repeat_tests) JNull
                              (map to_inst (map (ext_input (fun _ => [])) [(ext_e5 5 [1; 2]%Z, Some 2); (ext_e5 6 [1; 3]%Z, Some 2)])) 3 None None
             = Ok (JObj o') /\ Holds o' (hdr_of ext_r5) (lookup_e ext_r5).
Proof.
  assert (Hv : valid (ext_e5 5 [1; 2]%Z) /\ valid (ext_e5 6 [1; 3]%Z)) by (split; apply validb_valid; vm_compute; reflexivity).
  destruct Hv as [Hv1 Hv2].
  refine (proj2 (SRC_top_from_sequence_valid (fun _ => []) (fun _ _ => Ok (JObj ext_empty_gtv)) (fun _ => Ok (Some 2))
                   (ext_e5 5 [1; 2]%Z, Some 2) [(ext_e5 6 [1; 3]%Z, Some 2)] 3 None ext_r5 ext_empty_gtv (Some 2) _ _
                   ltac:(vm_compute; reflexivity) eq_refl _ eq_refl)).
  - intros en [<-|[<-|[]]]; cbn [fst snd].
    + split; [exact Hv1|]. split; [exact (nondegenerateb_nondegenerate _ Hv1 ltac:(vm_compute; reflexivity)) | vm_compute; reflexivity].
    + split; [exact Hv2|]. split; [exact (nondegenerateb_nondegenerate _ Hv2 ltac:(vm_compute; reflexivity)) | vm_compute; reflexivity].
  - split; [reflexivity|]. intros e [<-|[<-|[]]]; split; reflexivity.
  - constructor.
    + intros b Hb. destruct b; discriminate Hb.
    + intros c Hc. exists []. destruct c; (split; [reflexivity|]; split; [constructor | intros k; reflexivity]).
Qed.

(** the 5-D subset again through SRC_top_get_subset_valid: no side check (two slices, subset along time) *)
Example SRC_top_get_subset_valid_example :
  exists o', get_subset_st (fun _ _ => Ok (JObj ext_empty_gv)) classifications (shape ext_hg) (sdim ext_hg) (n_slices ext_hg) tt tt
                           preserving_changes (okeys const_tests) (okeys repeat_tests) (to_content (fun _ => []) ext_eg) 3 1 = Ok (JObj o') /\
             Holds o' (hdr_of ext_rg) (lookup_e ext_rg).
Proof.
  assert (Hv : valid ext_eg) by (apply validb_valid; vm_compute; reflexivity).
  refine (proj2 (SRC_top_get_subset_valid (fun _ => []) (fun _ _ => Ok (JObj ext_empty_gv)) ext_eg ext_rg 3 1 ext_empty_gv Hv
                   (nondegenerateb_nondegenerate _ Hv ltac:(vm_compute; reflexivity)) ltac:(vm_compute; repeat constructor)
                   ltac:(intros H; discriminate H) ltac:(intros _ _ H; discriminate H) ltac:(vm_compute; reflexivity) eq_refl _)).
  constructor.
  - intros b Hb. destruct b; try discriminate Hb. reflexivity.
  - intros c Hc. exists []. destruct c; try discriminate Hc; (split; [reflexivity|]; split; [constructor | intros k; reflexivity]).
Qed.
