(** C17  Voxel reordering returns the same image in the requested orientation.

    Model: DV.Orient.Model ([reorder] = dcmstack.reorder_voxels with nibabel's io_orientation /
    apply_orientation / inv_ornt_aff).  "Inputs are not modified" is structural in a functional
    model ([reorder] returns new values and cannot touch its arguments); heap aliasing / numpy views
    are checked only by the harness (copy before, compare after). *)
From Coq Require Import List Bool Arith ZArith NArith QArith Lia.
From DV Require Import Common.Res Common.Str Orient.Model Orient.Spec
  Orient.ProofsArr Orient.ProofsOrnt Orient.Proofs Orient.ProofsEx.
Import ListNotations.
Local Open Scope nat_scope.

(** The output array has the permuted shape; every output voxel equals the input voxel that the
    returned transform [T] maps its index to (extra dimensions untouched); and [T] is a bijection
    between the two index spaces: every input voxel appears exactly once in the output.
    General in the shape (any number >= 3 of dimensions, any sizes) and the contents. *)
Theorem C17_data : forall a A code a' A' T o,
  wf_arr a ->
  reorder a A code = Ok (a', A', T, o) ->
  (length (ashape a') = length (ashape a) /\
   (forall k pk fk, nth_error o k = Some (Some (pk, fk)) -> nth pk (ashape a') 0 = nth k (ashape a) 0) /\
   skipn 3 (ashape a') = skipn 3 (ashape a)) /\
  (forall idx', in_bounds (ashape a') idx' = true ->
     exists idx, apply_aff T idx' = Some idx /\ in_bounds (ashape a) idx = true /\
                 aget a' idx' = aget a idx /\ skipn 3 idx = skipn 3 idx') /\
  (forall idx, in_bounds (ashape a) idx = true ->
     exists! idx', in_bounds (ashape a') idx' = true /\ apply_aff T idx' = Some idx).
Proof. exact reorder_data. Qed.

(** The output affine is the input affine composed with the returned transform, and the transform
    is the signed-permutation matrix of the returned orientation rows with translation n_k - 1 on
    the flipped axes. *)
Theorem C17_affine : forall a A code a' A' T o,
  reorder a A code = Ok (a', A', T, o) ->
  A' = mmul A T /\ is_sperm o = true /\ is_shape 4 4 T = true /\
  exists rows, ornt_rows o = Some rows /\ mat_eq T (T_spec rows (ashape a)).
Proof. exact reorder_affine. Qed.

(** For an unambiguous input affine the closest anatomical directions of the output axes spell the
    requested code, case-folded. *)
Theorem C17_codes : forall a A code a' A' T o,
  unambiguous A ->
  reorder a A code = Ok (a', A', T, o) ->
  io_orientation A' = axcodes2ornt (upper code) /\ aff2axcodes A' = map Some (upper code).
Proof. exact reorder_codes. Qed.

(** Every axis-aligned affine (signed permutation x non-zero zooms) is unambiguous. *)
Theorem C17_axis_aligned : forall A, axis_aligned A -> unambiguous A.
Proof. exact axis_aligned_unambiguous. Qed.

(** Errors, for ALL strings: a code that is not three letters (after upper-casing), one from each of
    LR / AP / SI, raises ValueError; so do arrays under 3-D and non-4x4 affines; valid codes pass
    the validity section and, on an unambiguous affine, the call succeeds; no other exception. *)
Theorem C17_errors :
  (forall a A code, ~ valid_code code -> reorder a A code = Err EValue) /\
  (forall a A code, length (ashape a) < 3 -> reorder a A code = Err EValue) /\
  (forall a A code, is_shape 4 4 A = false -> reorder a A code = Err EValue) /\
  (forall code, valid_code code -> check_voxel_order code = Ok (upper code)) /\
  (forall a A code, valid_code code -> 3 <= length (ashape a) -> is_shape 4 4 A = true ->
                    unambiguous A -> exists r, reorder a A code = Ok r) /\
  (forall a A code e, reorder a A code = Err e -> e = EValue).
Proof. exact reorder_errors. Qed.

(* ----------------------------------------------------------------------------- non-vacuity *)

Definition ex_a : arr := tabulate [2; 3; 4; 2] (fun idx => Some (Z.of_nat (offset [2; 3; 4; 2] idx))).
(** an oblique affine: rotation by atan(4/3) about the third axis composed with an axis swap/flip,
    zooms 5, 5, 4 *)
Definition ex_A : mat := [[0; 0; -4; 5]; [3; -4; 0; 6]; [4; 3; 0; 7]; [0; 0; 0; 1]]%Q.
Definition ex_code : str := [97; 83; 114]%N.       (* "aSr" *)

Example C17_ex_unambiguous : unambiguous ex_A.
Proof.
  exists 2, 1, 0. repeat split; try lia;
    intros i Hi Hd; destruct i as [|[|[|i]]]; try lia; reflexivity.
Qed.

Example C17_data_ex :
  wf_arr ex_a /\
  exists a' A' T o, reorder ex_a ex_A ex_code = Ok (a', A', T, o) /\
    ashape a' = [3; 2; 4; 2] /\ aget a' [2; 0; 1; 1] = aget ex_a [0; 0; 2; 1] /\
    apply_aff T [2; 0; 1; 1] = Some [0; 0; 2; 1].
Proof.
  split; [vm_compute; reflexivity|]. do 4 eexists. split; [vm_compute; reflexivity|].
  split; [vm_compute; reflexivity|]. split; [vm_compute; reflexivity | vm_compute; reflexivity].
Qed.

Example C17_affine_ex :
  exists a' A' T o, reorder ex_a ex_A ex_code = Ok (a', A', T, o) /\
    mat_eqb T [[0; 1; 0; 0]; [-1; 0; 0; 2]; [0; 0; -1; 3]; [0; 0; 0; 1]]%Q = true /\
    mat_eqb A' [[0; 0; 4; -7]; [4; 3; 0; -2]; [-3; 4; 0; 13]; [0; 0; 0; 1]]%Q = true.
Proof. do 4 eexists. split; [vm_compute; reflexivity|]. split; [vm_compute; reflexivity | vm_compute; reflexivity]. Qed.

Example C17_codes_ex :
  exists a' A' T o, reorder ex_a ex_A ex_code = Ok (a', A', T, o) /\
    aff2axcodes A' = [Some 65; Some 83; Some 82]%N.       (* "ASR" *)
Proof. do 4 eexists. split; [vm_compute; reflexivity | vm_compute; reflexivity]. Qed.

Example C17_axis_aligned_ex : axis_aligned [[0; -2; 0; 1]; [0; 0; 3; 1]; [-5; 0; 0; 1]; [0; 0; 0; 1]]%Q.
Proof.
  exists 2, 0, 1. repeat split; try lia;
    cbn [In] in *;
    repeat match goal with H : _ \/ _ |- _ => destruct H as [H|H] end;
    try contradiction; try (injection H as <- <-);
    try (intros E; vm_compute in E; discriminate);
    try (intros i Hi Hd; destruct i as [|[|[|i]]]; try lia; reflexivity).
Qed.

(** all 48 codes x all 48 axis-aligned unit affines, decided by computation: the call succeeds and
    the output axes spell the code *)
Definition signed_perm_affines : list mat :=
  flat_map (fun p =>
    match p with
    | [p0; p1; p2] =>
        flat_map (fun s0 => flat_map (fun s1 => map (fun s2 =>
          map (fun i => map (fun j => if i =? nth j [p0; p1; p2] 9 then nth j [s0; s1; s2] 0%Q else 0%Q) [0; 1; 2] ++ [inject_Z (Z.of_nat i) + 1]%Q)
              [0; 1; 2] ++ [[0; 0; 0; 1]%Q]) [1; -1]%Q) [1; -1]%Q) [1; -1]%Q
    | _ => []
    end) perms3.

Example C17_codes_48x48 :
  length codes48 = 48 /\ length signed_perm_affines = 48 /\
  forallb (fun A => forallb (fun c =>
     match reorder ex_a A c with
     | Ok (_, A', _, _) => opt_str_eqb (aff2axcodes A') c
     | Err _ => false
     end) codes48) signed_perm_affines = true.
Proof. split; [vm_compute; reflexivity|]. split; [vm_compute; reflexivity | vm_compute; reflexivity]. Qed.

Example C17_errors_ex :
  ~ valid_code [76; 76; 65]%N /\ ~ valid_code [82; 65]%N /\ valid_code ex_code /\
  reorder ex_a ex_A [76; 76; 65]%N = Err EValue /\
  reorder (tabulate [2; 3] (fun _ => Some 0%Z)) ex_A ex_code = Err EValue /\
  reorder ex_a [[1; 0; 0]; [0; 1; 0]; [0; 0; 1]]%Q ex_code = Err EValue.
Proof.
  split; [intros H; apply ProofsCode.valid_code_iff in H; vm_compute in H; discriminate|].
  split; [intros H; apply ProofsCode.valid_code_iff in H; vm_compute in H; discriminate|].
  split; [apply ProofsCode.valid_code_iff; vm_compute; reflexivity|].
  split; [vm_compute; reflexivity|]. split; [vm_compute; reflexivity | vm_compute; reflexivity].
Qed.
