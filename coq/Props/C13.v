(** C13 Operations leave their inputs untouched and treat keys independently.
    Model: Ext/Model.v; key locality: Ext/ProofsLocal.v.

    C13(a) "inputs untouched" is PARTIAL in Coq: the model's operations are pure functions of immutable
    values, so in-place effects of the Python code (the temporary removal / restoration of the per-slice
    dictionaries of the other input in [_insert], omitted deepcopies, lists shared between a result and
    an input, numpy views) are NOT expressible in it.  They are covered only by the run-time snapshots of
    the correspondence harness (props/c13.py: to_json of every input before and after, re-use of the same
    input objects for a second merge, data bytes and affines of input images).
    C13(b) "keys independent" is proved in full for get_subset and from_sequence. *)
From Coq Require Import List Bool Arith NArith ZArith QArith Lia Permutation.
From DV Require Import Common.Res Common.Str Common.Jv Ext.Types Ext.Seq Ext.Model Ext.Spec Ext.ProofsLocal.
Import ListNotations.
Local Open Scope nat_scope.

(** projection to one key commutes with a merge: what the result says about [k] is what the merge of the
    inputs restricted to [k] says (as unordered maps), whatever other keys are present *)
Theorem C13_key_local_merge :
  forall (V : Type) (veqb : V -> V -> bool) (vnone : V) (es : list (ext V)) (k : key) (dim : nat)
         (affine : option (list (list Q))) (slice_dim : option nat) (r : ext V),
    from_sequence veqb vnone es dim affine slice_dim = Ok r ->
    exists rk, from_sequence veqb vnone (map (proj k) es) dim affine slice_dim = Ok rk /\ ext_equiv rk (proj k r).
Proof. exact @merge_proj. Qed.

Theorem C13_key_local_subset :
  forall (V : Type) (veqb : V -> V -> bool) (vnone : V) (e r : ext V) (k : key) (dim idx : nat),
    get_subset veqb vnone e dim idx = Ok r ->
    exists rk, get_subset veqb vnone (proj k e) dim idx = Ok rk /\ ext_equiv rk (proj k r).
Proof. exact @subset_proj. Qed.

(** the result, as an unordered map, depends on the inputs only as unordered maps ... *)
Theorem C13_key_order_merge :
  forall (V : Type) (veqb : V -> V -> bool) (vnone : V) (es es' : list (ext V)) (dim : nat)
         (affine : option (list (list Q))) (slice_dim : option nat) (r : ext V),
    Forall2 (ext_equiv (V:=V)) es es' -> from_sequence veqb vnone es dim affine slice_dim = Ok r ->
    exists r', from_sequence veqb vnone es' dim affine slice_dim = Ok r' /\ ext_equiv r r'.
Proof. exact @merge_equiv. Qed.

Theorem C13_key_order_subset :
  forall (V : Type) (veqb : V -> V -> bool) (vnone : V) (e e' r : ext V) (dim idx : nat),
    ext_equiv e e' -> get_subset veqb vnone e dim idx = Ok r ->
    exists r', get_subset veqb vnone e' dim idx = Ok r' /\ ext_equiv r r'.
Proof. exact @subset_equiv. Qed.

(** ... in particular it is invariant under permuting the key order of any input *)
Theorem C13_key_order_perm :
  forall (V : Type) (a b : ext V),
    hdr_of a = hdr_of b -> NoDup (keys_e a) -> Permutation (entries a) (entries b) -> ext_equiv a b.
Proof. exact @perm_ext_equiv. Qed.

(** the statement of the property in one piece: projection to a key commutes with merge and with subset,
    and both depend on their inputs only as unordered maps *)
Theorem C13_key_local :
  forall (V : Type) (veqb : V -> V -> bool) (vnone : V),
    (forall (es : list (ext V)) (k : key) dim affine slice_dim (r : ext V),
       from_sequence veqb vnone es dim affine slice_dim = Ok r ->
       exists rk, from_sequence veqb vnone (map (proj k) es) dim affine slice_dim = Ok rk /\ ext_equiv rk (proj k r)) /\
    (forall (e r : ext V) (k : key) dim idx,
       get_subset veqb vnone e dim idx = Ok r ->
       exists rk, get_subset veqb vnone (proj k e) dim idx = Ok rk /\ ext_equiv rk (proj k r)) /\
    (forall (es es' : list (ext V)) dim affine slice_dim (r : ext V),
       Forall2 (ext_equiv (V:=V)) es es' -> from_sequence veqb vnone es dim affine slice_dim = Ok r ->
       exists r', from_sequence veqb vnone es' dim affine slice_dim = Ok r' /\ ext_equiv r r') /\
    (forall (e e' r : ext V) dim idx,
       ext_equiv e e' -> get_subset veqb vnone e dim idx = Ok r ->
       exists r', get_subset veqb vnone e' dim idx = Ok r' /\ ext_equiv r r').
Proof.
  intros V veqb vnone. split; [|split; [|split]].
  - intros es k dim affine slice_dim r. apply merge_proj.
  - intros e r k dim idx. apply subset_proj.
  - intros es es' dim affine slice_dim r. apply merge_equiv.
  - intros e e' r dim idx. apply subset_equiv.
Qed.

(** C13(a), PARTIAL.  Full statement (not expressible in the functional model, covered at run time only):
      "after r = from_sequence(seq, ...), get_subset(...), split, to_nifti: every input object is
       observably unchanged (same to_json, data bytes, affine), and no list object is shared between an
       input and a result."
    What the model does say: operations are functions of their input values, so using the same inputs
    again gives the same result (no pollution of a second merge), and an input used in a merge is still
    the same value for any later operation. *)
Theorem C13_inputs_returned_partial :
  forall (V : Type) (veqb : V -> V -> bool) (vnone : V) (es : list (ext V)) (dim : nat)
         (affine : option (list (list Q))) (slice_dim : option nat) (r1 r2 : res (ext V)) (dim' idx : nat),
    r1 = from_sequence veqb vnone es dim affine slice_dim ->
    r2 = from_sequence veqb vnone es dim affine slice_dim ->
    r1 = r2 /\
    forall e, In e es -> get_subset veqb vnone e dim' idx = get_subset veqb vnone e dim' idx.
Proof. intros. subst. split; reflexivity. Qed.

(** * Non-vacuity *)
Definition ex_aff : list (list Q) := [[2; 0; 0; -8]; [0; 0; 1 # 2; 3]; [0; -1; 0; 0]; [0; 0; 0; 1]]%Q.
Definition exa (v : Z) : ext jv :=
  mk_ext (mk_hdr [2; 2; 3] (Some 2) ex_aff false false)
    [([115]%N, (GSlices, [JInt 1; JInt 2; JInt v])); ([99]%N, (GConst, [JInt v])); ([100]%N, (GConst, [JStr [120]%N]))].
(** the same inputs with another key order, one of them without any ('global','const') key *)
Definition exb (v : Z) : ext jv :=
  mk_ext (mk_hdr [2; 2; 3] (Some 2) ex_aff false false)
    [([100]%N, (GConst, [JStr [120]%N])); ([99]%N, (GConst, [JInt v])); ([115]%N, (GSlices, [JInt 1; JInt 2; JInt v]))].
Definition exc : ext jv :=
  mk_ext (mk_hdr [2; 2; 3] (Some 2) ex_aff false false) [([115]%N, (GSlices, [JInt 1; JInt 2; JInt 9]))].

Example C13_key_local_merge_nonvacuous :
  exists r, from_sequence jv_eqb JNull [exa 3; exc; exa 4] 3 None None = Ok r /\ length (entries r) = 3 /\
  exists rk, from_sequence jv_eqb JNull (map (proj [99]%N) [exa 3; exc; exa 4]) 3 None None = Ok rk /\
             entries rk = [([99]%N, (TSamples, [JInt 3; JNull; JInt 4]))] /\
             lookup_e r [99]%N = Some (TSamples, [JInt 3; JNull; JInt 4]).
Proof.
  eexists. split; [vm_compute; reflexivity|]. split; [reflexivity|].
  eexists. split; [vm_compute; reflexivity|]. split; vm_compute; reflexivity.
Qed.

Example C13_key_local_subset_nonvacuous :
  exists r, get_subset jv_eqb JNull (exa 3) 2 2 = Ok r /\ length (entries r) = 3 /\
  exists rk, get_subset jv_eqb JNull (proj [115]%N (exa 3)) 2 2 = Ok rk /\
             entries rk = [([115]%N, (GConst, [JInt 3]))] /\ lookup_e r [115]%N = Some (GConst, [JInt 3]).
Proof.
  eexists. split; [vm_compute; reflexivity|]. split; [reflexivity|].
  eexists. split; [vm_compute; reflexivity|]. split; vm_compute; reflexivity.
Qed.

Example C13_key_order_nonvacuous :
  Forall2 (ext_equiv (V:=jv)) [exa 3; exc; exa 4] [exb 3; exc; exb 4] /\
  Permutation (entries (exa 3)) (entries (exb 3)) /\ NoDup (keys_e (exa 3)) /\
  exists r r', from_sequence jv_eqb JNull [exa 3; exc; exa 4] 3 None None = Ok r /\
               from_sequence jv_eqb JNull [exb 3; exc; exb 4] 3 None None = Ok r' /\
               map fst (entries r) <> map fst (entries r') /\
               forall k, In k [[115]%N; [99]%N; [100]%N] -> lookup_e r k = lookup_e r' k.
Proof.
  assert (Hp : forall v, Permutation (entries (exa v)) (entries (exb v))).
  { intros v. cbn [exa exb entries]. apply perm_trans with (l' := [([99]%N, (GConst, [JInt v])); ([115]%N, (GSlices, [JInt 1; JInt 2; JInt v])); ([100]%N, (GConst, [JStr [120]%N]))]).
    - apply perm_swap.
    - apply perm_trans with (l' := [([99]%N, (GConst, [JInt v])); ([100]%N, (GConst, [JStr [120]%N])); ([115]%N, (GSlices, [JInt 1; JInt 2; JInt v]))]).
      + apply perm_skip. apply perm_swap.
      + apply perm_swap. }
  assert (Hnd : forall v, NoDup (keys_e (exa v))).
  { intros v. cbn. repeat constructor; cbn; intuition discriminate. }
  split.
  - repeat constructor; try reflexivity; try (apply perm_ext_equiv; [reflexivity | apply Hnd | apply Hp]).
  - split; [apply Hp|]. split; [apply Hnd|].
    eexists. eexists. split; [vm_compute; reflexivity|]. split; [vm_compute; reflexivity|].
    split; [vm_compute; discriminate|].
    intros k [<-|[<-|[<-|[]]]]; vm_compute; reflexivity.
Qed.

Example C13_inputs_returned_partial_nonvacuous :
  exists r, from_sequence jv_eqb JNull [exa 3; exc; exa 4] 3 None None = Ok r /\
            from_sequence jv_eqb JNull [exa 3; exc; exa 4] 3 None None = Ok r /\ length (entries r) = 3.
Proof. eexists. split; [vm_compute; reflexivity|]. split; reflexivity. Qed.
