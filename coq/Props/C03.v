(** C03 Merging is concatenation of per-position metadata (extension level: DcmMetaExtension.from_sequence).
    Definitions used in the statements: Ext/Spec.v ([den], [valid], [in_dims], [dims], [cidx], [mult_spec]),
    Ext/ProofsMergeDen.v ([den_k], [good_k], [hdr_ok], [widens]), Ext/ProofsMergeStep.v ([drop_k]),
    Ext/ProofsMergeFrame.v ([frame], [inp], [axis], [axis_of], [coord], [set_coord]),
    Ext/ProofsMerge.v ([den_in], [inputs_ok], [out_sdim], [args_ok], [trailing1b]). *)
From Coq Require Import List Bool Arith NArith ZArith QArith.
From DV Require Import Common.Res Common.Str Common.Jv Ext.Types Ext.Classes Ext.Seq Ext.Model Ext.Spec
     Ext.ProofsMergeDen Ext.ProofsMergeStep Ext.ProofsMergeFrame Ext.ProofsMergeKey Ext.ProofsMerge Ext.ProofsMergeEx.
Import ListNotations.
Local Open Scope nat_scope.

(** 1. Widening along [_preserving_changes] keeps the denotation: [_get_changed_class] returns exactly the
    multiplicity of the new class and every grid position reads the same value as before. *)
Theorem C03_changed_class_den :
  forall (V : Type) (vnone : V) (h : hdr) (s : kst V) (new : cls) (sd : option nat) (vs' : list V),
    hdr_ok h -> good_k h s ->
    class_ok (shape h) new = true -> (is_slices new = true -> sdim h <> None) ->
    changed_class vnone h s new sd = Ok vs' ->
    length vs' = mult_spec (dims h) new /\
    forall p, in_dims (dims h) p -> nth (cidx (dims h) new p) vs' vnone = den_k vnone h s p.
Proof. exact @changed_class_den. Qed.

Theorem C03_change_class_den :
  forall (V : Type) (vnone : V) (h : hdr) (s : kst V) (new : cls) (s' : kst V),
    hdr_ok h -> good_k h s ->
    class_ok (shape h) new = true -> (is_slices new = true -> sdim h <> None) ->
    change_class_k vnone h s new = Ok s' ->
    (exists vs', s' = Some (new, vs')) /\ good_k h s' /\
    forall p, in_dims (dims h) p -> den_k vnone h s' p = den_k vnone h s p.
Proof. exact @change_class_k_den. Qed.

(** every change the table allows succeeds *)
Theorem C03_change_class_total :
  forall (V : Type) (vnone : V) (h : hdr) (s : kst V) (new : cls),
    hdr_ok h -> good_k h s ->
    class_ok (shape h) new = true -> (is_slices new = true -> sdim h <> None) ->
    has_base h (base_of new) = true -> widens (kst_class s) new ->
    exists s', change_class_k vnone h s new = Ok s'.
Proof. exact @change_class_k_ok. Qed.

(** all hypotheses of the three widening theorems on a 5-D header, the computed results, and the den equation *)
Example C03_change_class_nonvacuous :
  hdr_ok exw_hdr /\ good_k exw_hdr exw_s /\ class_ok (shape exw_hdr) VSlices = true /\
  (is_slices VSlices = true -> sdim exw_hdr <> None) /\
  has_base exw_hdr (base_of VSlices) = true /\ widens (kst_class exw_s) VSlices /\
  changed_class JNull exw_hdr exw_s VSlices None = Ok [JInt 1; JInt 2; JInt 1; JInt 2] /\
  length [JInt 1; JInt 2; JInt 1; JInt 2] = mult_spec (dims exw_hdr) VSlices /\
  change_class_k JNull exw_hdr exw_s VSlices = Ok (Some (VSlices, [JInt 1; JInt 2; JInt 1; JInt 2])) /\
  good_k exw_hdr (Some (VSlices, [JInt 1; JInt 2; JInt 1; JInt 2])) /\
  den_k JNull exw_hdr (Some (VSlices, [JInt 1; JInt 2; JInt 1; JInt 2])) (1, 1, 0) = JInt 2 /\
  den_k JNull exw_hdr exw_s (1, 1, 0) = JInt 2.
Proof. exact ex_widen_full. Qed.

(** 2. One [_insert] step along the slice, time or vector axis: the accumulated result denotes inputs
    0..j-1 before and inputs 0..j afterwards, and stays well formed. *)
Theorem C03_insert_k_den :
  forall (V : Type) (veqb : V -> V -> bool) (vnone : V),
    (forall a b, reflect (a = b) (veqb a b)) ->
  forall (hfull : hdr) (ish : list nat) (dim N : nat) (ho : hdr) (j : nat) (ax : axis) (ks ko : kst V),
    frame hfull ish dim N -> inp hfull ish ho -> 1 <= j ->
    axis_of (sdim hfull) dim = Some ax -> (3 <= dim -> sdim hfull <> None) ->
    good_k (with_dim hfull dim j) ks -> good_k ho ko ->
    exists ks', insert_k veqb vnone (with_dim hfull dim j) ho dim ks ko = Ok ks' /\
      good_k (with_dim hfull dim (S j)) ks' /\ nondeg_k (with_dim hfull dim (S j)) ks' /\
      forall p, in_dims (dims (with_dim hfull dim (S j))) p ->
        den_k vnone (with_dim hfull dim (S j)) ks' p =
        if coord ax p <? j then den_k vnone (with_dim hfull dim j) ks p
        else den_k vnone ho (drop_k (use_slices hfull ho) ko) (set_coord ax p 0).
Proof. exact @insert_k_den. Qed.

(** one step of a 5-D merge along the slice axis (T = V = 2): self holds input 0 (j = 1), other is input 1;
    every hypothesis, the computed [insert_k], and the den equation before and at position j *)
Example C03_insert_k_nonvacuous :
  frame ex5_full [2; 2; 1; 2; 2] 2 2 /\ inp ex5_full [2; 2; 1; 2; 2] ex5_hdr /\ 1 <= 1 /\
  axis_of (sdim ex5_full) 2 = Some AxS /\ (3 <= 2 -> sdim ex5_full <> None) /\
  good_k (with_dim ex5_full 2 1) ex5_ks /\ good_k ex5_hdr ex5_ko /\
  insert_k jv_eqb JNull (with_dim ex5_full 2 1) ex5_hdr 2 ex5_ks ex5_ko = Ok ex5_ks' /\
  good_k (with_dim ex5_full 2 2) ex5_ks' /\
  den_k JNull (with_dim ex5_full 2 2) ex5_ks' (0, 1, 1) = JInt 13 /\
  den_k JNull (with_dim ex5_full 2 1) ex5_ks (0, 1, 1) = JInt 13 /\
  den_k JNull (with_dim ex5_full 2 2) ex5_ks' (1, 1, 1) = JInt 23 /\
  den_k JNull ex5_hdr (drop_k (use_slices ex5_full ex5_hdr) ex5_ko) (set_coord AxS (1, 1, 1) 0) = JInt 23.
Proof. exact ex5_step. Qed.

(** 3. Merging along the slice, time or vector axis is concatenation: position i on the merge axis of the
    result reads input i (keys missing from an input denote [vnone] there; an input whose slice normal differs
    from the result's contributes without its per-slice classes), and the result is valid. *)
Theorem C03_merge_den :
  forall (V : Type) (veqb : V -> V -> bool) (vnone : V),
    (forall a b, reflect (a = b) (veqb a b)) ->
  forall (es : list (ext V)) (e0 : ext V) (dim : nat) (a : option (list (list Q))) (sd : option nat)
         (r : ext V) (ax : axis),
    inputs_ok es e0 sd ->
    from_sequence veqb vnone es dim a sd = Ok r ->
    axis_of (out_sdim sd e0) dim = Some ax ->
    (3 <= dim -> out_sdim sd e0 <> None) ->
    trailing1b (shape (hdr_of r)) = false ->
    set_nth dim (length es) (pad_to (S dim) (shape (hdr_of e0))) = Some (shape (hdr_of r)) /\
    sdim (hdr_of r) = out_sdim sd e0 /\
    aff (hdr_of r) = (match a with Some m => m | None => aff (hdr_of e0) end) /\
    valid r /\
    forall k p, in_dims (dims (hdr_of r)) p ->
      den vnone r k p = den_in vnone (hdr_of r) (nth (coord ax p) es e0) k (set_coord ax p 0).
Proof. exact @merge_den. Qed.

(** a 5-D merge along the slice axis with T = V = 2 (per-volume interleave): every hypothesis, the computed
    result, and the den equation at a position of input 0 and at a position of input 1 *)
Example C03_merge_den_nonvacuous :
  inputs_ok ex5_es (ex5_in 10) None /\
  from_sequence jv_eqb JNull ex5_es 2 None None = Ok ex5_r /\
  axis_of (out_sdim None (ex5_in 10)) 2 = Some AxS /\
  (3 <= 2 -> out_sdim None (ex5_in 10) <> None) /\
  trailing1b (shape (hdr_of ex5_r)) = false /\
  validb ex5_r = true /\
  in_dims (dims (hdr_of ex5_r)) (0, 1, 1) /\ in_dims (dims (hdr_of ex5_r)) (1, 1, 1) /\
  den JNull ex5_r kA (0, 1, 1) = JInt 13 /\
  den_in JNull (hdr_of ex5_r) (nth (coord AxS (0, 1, 1)) ex5_es (ex5_in 10)) kA (set_coord AxS (0, 1, 1) 0) = JInt 13 /\
  den JNull ex5_r kA (1, 1, 1) = JInt 23 /\
  den_in JNull (hdr_of ex5_r) (nth (coord AxS (1, 1, 1)) ex5_es (ex5_in 10)) kA (set_coord AxS (1, 1, 1) 0) = JInt 23.
Proof. exact ex5_merge_full. Qed.

(** 4. Merging along a non-slice spatial axis keeps exactly the keys on which all inputs agree at every
    position, with their values unchanged; a key on which some input disagrees denotes [vnone] everywhere. *)
Theorem C03_nonslice :
  forall (V : Type) (veqb : V -> V -> bool) (vnone : V),
    (forall a b, reflect (a = b) (veqb a b)) ->
  forall (es : list (ext V)) (e0 : ext V) (dim : nat) (a : option (list (list Q))) (sd : option nat) (r : ext V),
    inputs_ok es e0 sd ->
    from_sequence veqb vnone es dim a sd = Ok r ->
    dim < 3 -> out_sdim sd e0 <> Some dim ->
    trailing1b (shape (hdr_of r)) = false ->
    set_nth dim (length es) (pad_to (S dim) (shape (hdr_of e0))) = Some (shape (hdr_of r)) /\
    sdim (hdr_of r) = out_sdim sd e0 /\
    aff (hdr_of r) = (match a with Some m => m | None => aff (hdr_of e0) end) /\
    valid r /\ dims (hdr_of r) = dims (hdr_of e0) /\
    forall k,
      ((forall x p, In x es -> in_dims (dims (hdr_of r)) p ->
                    den_in vnone (hdr_of r) x k p = den_in vnone (hdr_of r) e0 k p) ->
       forall p, in_dims (dims (hdr_of r)) p -> den vnone r k p = den_in vnone (hdr_of r) e0 k p) /\
      ((exists x p, In x es /\ in_dims (dims (hdr_of r)) p /\
                    den_in vnone (hdr_of r) x k p <> den_in vnone (hdr_of r) e0 k p) ->
       forall p, in_dims (dims (hdr_of r)) p -> den vnone r k p = vnone).
Proof. exact @merge_nonslice. Qed.

(** a merge along the non-slice axis 0: key a agrees in both inputs and is kept with its values, key b
    (constants 7 / 8) disagrees and denotes None in the result *)
Example C03_nonslice_nonvacuous :
  inputs_ok [exn_in 7; exn_in 8] (exn_in 7) None /\
  from_sequence jv_eqb JNull [exn_in 7; exn_in 8] 0 None None = Ok exn_r /\
  0 < 3 /\ out_sdim None (exn_in 7) <> Some 0 /\
  trailing1b (shape (hdr_of exn_r)) = false /\
  in_dims (dims (hdr_of exn_r)) (1, 1, 0) /\
  den_in JNull (hdr_of exn_r) (exn_in 8) kA (1, 1, 0) = den_in JNull (hdr_of exn_r) (exn_in 7) kA (1, 1, 0) /\
  den JNull exn_r kA (1, 1, 0) = JInt 2 /\ den_in JNull (hdr_of exn_r) (exn_in 7) kA (1, 1, 0) = JInt 2 /\
  den_in JNull (hdr_of exn_r) (exn_in 8) kB (1, 1, 0) <> den_in JNull (hdr_of exn_r) (exn_in 7) kB (1, 1, 0) /\
  den JNull exn_r kB (1, 1, 0) = JNull.
Proof. exact exn_full. Qed.

(** 5. On the domain [from_sequence] never fails, and it refuses (ValueError) exactly a merge axis that is
    present and not singular, or [dim >= 5]. *)
Theorem C03_total :
  forall (V : Type) (veqb : V -> V -> bool) (vnone : V),
    (forall a b, reflect (a = b) (veqb a b)) ->
  forall (es : list (ext V)) (e0 : ext V) (dim : nat) (a : option (list (list Q))) (sd : option nat),
    inputs_ok es e0 sd -> args_ok a sd ->
    dim < 5 -> nth dim (shape (hdr_of e0)) 1 = 1 ->
    ~ (dim = 4 /\ length (shape (hdr_of e0)) = 4 /\ nth 3 (shape (hdr_of e0)) 1 = 1) ->
    (3 <= dim -> out_sdim sd e0 <> None) ->
    (forall sh, set_nth dim (length es) (pad_to (S dim) (shape (hdr_of e0))) = Some sh -> trailing1b sh = false) ->
    exists r, from_sequence veqb vnone es dim a sd = Ok r.
Proof. exact @merge_total. Qed.

Theorem C03_refuses :
  forall (V : Type) (veqb : V -> V -> bool) (vnone : V),
    (forall a b, reflect (a = b) (veqb a b)) ->
  forall (es : list (ext V)) (e0 : ext V) (dim : nat) (a : option (list (list Q))) (sd : option nat),
    inputs_ok es e0 sd -> args_ok a sd ->
    ~ (dim = 4 /\ length (shape (hdr_of e0)) = 4 /\ nth 3 (shape (hdr_of e0)) 1 = 1) ->
    (3 <= dim -> out_sdim sd e0 <> None) ->
    (forall sh, set_nth dim (length es) (pad_to (S dim) (shape (hdr_of e0))) = Some sh -> trailing1b sh = false) ->
    (from_sequence veqb vnone es dim a sd = Err EValue <->
     (5 <= dim \/ nth dim (shape (hdr_of e0)) 1 <> 1)).
Proof. exact @merge_refuses. Qed.

(** every hypothesis of [C03_total] for a time merge of three 3-D inputs (with the computed result), and a
    refused merge (the slice axis of the inputs has extent 2) for [C03_refuses] *)
Example C03_total_nonvacuous :
  inputs_ok [ex3_in 1; ex3_in 5; ex3_in 1] (ex3_in 1) None /\ args_ok None None /\
  3 < 5 /\ nth 3 (shape (hdr_of (ex3_in 1))) 1 = 1 /\
  ~ (3 = 4 /\ length (shape (hdr_of (ex3_in 1))) = 4 /\ nth 3 (shape (hdr_of (ex3_in 1))) 1 = 1) /\
  (3 <= 3 -> out_sdim None (ex3_in 1) <> None) /\
  (forall sh, set_nth 3 (length [ex3_in 1; ex3_in 5; ex3_in 1]) (pad_to 4 (shape (hdr_of (ex3_in 1)))) = Some sh ->
              trailing1b sh = false) /\
  (exists r, from_sequence jv_eqb JNull [ex3_in 1; ex3_in 5; ex3_in 1] 3 None None = Ok r /\
             shape (hdr_of r) = [2; 2; 2; 3] /\ den JNull r kA (1, 1, 0) = JInt 6) /\
  inputs_ok [ex3_in 1; ex3_in 5] (ex3_in 1) None /\ nth 2 (shape (hdr_of (ex3_in 1))) 1 <> 1 /\
  from_sequence jv_eqb JNull [ex3_in 1; ex3_in 5] 2 None None = Err EValue.
Proof. exact ex3_total_full. Qed.

Example C03_refuses_nonvacuous :
  inputs_ok [ex3_in 1; ex3_in 5] (ex3_in 1) None /\ args_ok None None /\
  ~ (2 = 4 /\ length (shape (hdr_of (ex3_in 1))) = 4 /\ nth 3 (shape (hdr_of (ex3_in 1))) 1 = 1) /\
  (3 <= 2 -> out_sdim None (ex3_in 1) <> None) /\
  (forall sh, set_nth 2 (length [ex3_in 1; ex3_in 5]) (pad_to 3 (shape (hdr_of (ex3_in 1)))) = Some sh ->
              trailing1b sh = false) /\
  from_sequence jv_eqb JNull [ex3_in 1; ex3_in 5] 2 None None = Err EValue /\
  (5 <= 2 \/ nth 2 (shape (hdr_of (ex3_in 1))) 1 <> 1).
Proof. exact ex3_refuses_full. Qed.

(** 6. Why the hypotheses N1 / N3 / N4 are there: dropping any one of them makes totality false of the model,
    which reproduces the exceptions of the open findings. *)
Theorem C03_total_refuted_N1 :
  exists (es : list (ext jv)) e0 dim,
    inputs_ok es e0 None /\ args_ok None None /\ dim < 5 /\ nth dim (shape (hdr_of e0)) 1 = 1 /\
    (3 <= dim -> out_sdim None e0 <> None) /\
    (forall sh, set_nth dim (length es) (pad_to (S dim) (shape (hdr_of e0))) = Some sh -> trailing1b sh = false) /\
    from_sequence jv_eqb JNull es dim None None = Err EKey.
Proof. exact merge_total_refuted_N1. Qed.

Theorem C03_total_refuted_N3 :
  exists (es : list (ext jv)) e0 dim,
    inputs_ok es e0 None /\ args_ok None None /\ dim < 5 /\ nth dim (shape (hdr_of e0)) 1 = 1 /\
    ~ (dim = 4 /\ length (shape (hdr_of e0)) = 4 /\ nth 3 (shape (hdr_of e0)) 1 = 1) /\
    (forall sh, set_nth dim (length es) (pad_to (S dim) (shape (hdr_of e0))) = Some sh -> trailing1b sh = false) /\
    from_sequence jv_eqb JNull es dim None None = Err EType.
Proof. exact merge_total_refuted_N3. Qed.

Theorem C03_total_refuted_N4 :
  exists (es : list (ext jv)) e0 dim,
    inputs_ok es e0 None /\ args_ok None None /\ dim < 5 /\ nth dim (shape (hdr_of e0)) 1 = 1 /\
    ~ (dim = 4 /\ length (shape (hdr_of e0)) = 4 /\ nth 3 (shape (hdr_of e0)) 1 = 1) /\
    (3 <= dim -> out_sdim None e0 <> None) /\
    from_sequence jv_eqb JNull es dim None None = Err EValue.
Proof. exact merge_total_refuted_N4. Qed.

(** Why "all inputs share the slice dimension of the result" is a hypothesis (open finding N11): with a [slice_dim]
    argument different from the inputs' own slice dimension the result is not even valid. *)
Theorem C03_merge_den_refuted_N11 :
  exists (es : list (ext jv)) e0 dim sd r,
    hd_error es = Some e0 /\ 2 <= length es /\
    (forall x, In x es -> valid x /\ shape (hdr_of x) = shape (hdr_of e0)) /\
    from_sequence jv_eqb JNull es dim None sd = Ok r /\
    axis_of (out_sdim sd e0) dim = Some AxS /\
    trailing1b (shape (hdr_of r)) = false /\
    lookup_e r kA = Some (GSlices, [JInt 1; JInt 2; JInt 2; JInt 2]) /\ ~ valid r.
Proof. exact merge_den_refuted_N11. Qed.
