(** C10 (link)  "Neither loading from JSON nor wrapping ever accepts content the check rejects" -- connected to the
    notion of validity every other property uses.

    Props/C10.v: the three gates (from_json, from_runtime_repr, NiftiWrapper.__init__) only hand back content [c] with
    [Content.check_valid c = Ok tt], and that is [valid_spec c] on [wf_domain].  Here: whenever such a content can be
    read as an extension of the working model ([Link.Abs.of_content c = Some e]: header fields well typed, each key in
    exactly one class dictionary of a class valid for the shape), that extension is [Ext.Spec.valid] -- PROVIDED its
    extents are positive and every varying class of multiplicity one holds exactly one value per key ([mult1_single],
    implied by [nondegenerate]); both provisos are necessary (check_valid does not look there: finding N14 a, c).
    The third blind spot (N14 b, keys in dictionaries of classes that are not valid for the shape) makes [of_content]
    UNDEFINED: such accepted contents fall outside the partial theorem (third witness of C10_gate_ext_refuted); after
    dropping the stale dictionaries ([prune_stale], invisible to check_valid) every accepted, typed content abstracts
    (C10_prune_abstracts).  Conversely the gates let the content of every valid extension through. *)
From Coq Require Import List Bool Arith NArith ZArith QArith Lia.
From DV Require Import Common.Res Common.Str Common.Jv.
From DV Require Import Ext.Types Ext.Classes Ext.Seq Ext.Model Ext.Spec Ext.ValidFacts Ext.ProofsValidBase.
From DV Require Import Ext.ProofsSimplifyCanon.
From DV Require Import Link.Abs Link.ProofsOf Link.ProofsTop Link.ProofsRules Link.ProofsPrune Link.Examples.
Import ListNotations.
Local Open Scope nat_scope.

(** FULL STATEMENT (false, see C10_gate_ext_refuted): accepted content that abstracts to [e] -> valid e.
    [abstracts_valid tokq c] := forall e, of_content tokq c = Some e -> positive extents -> mult1_single e -> valid e. *)
Theorem C10_gate_ext_partial :
  forall (tokq : str -> option Q),
    (forall c, CM.check_valid c = Ok tt -> abstracts_valid tokq c) /\
    (forall s c, JM.from_json CM.check_valid s = Ok c -> abstracts_valid tokq c) /\
    (forall (parse : str -> res jv) s c, CM.from_json parse s = Ok c -> abstracts_valid tokq c) /\
    (forall c c', CM.from_runtime_repr c = Ok c' -> abstracts_valid tokq c') /\
    (forall exts make_empty empty i c, CM.wrapper_init exts make_empty empty = Ok (i, c) -> abstracts_valid tokq c).
Proof. exact gates_ext. Qed.

Example C10_gate_ext_partial_nonvacuous :
  JM.from_json CM.check_valid (JM.print (to_content qtok_dec lx5)) = Ok (to_content qtok_dec lx5) /\
  match of_content tokq_dec (to_content qtok_dec lx5) with
  | Some e => Forall (fun n => 1 <= n) (shape (hdr_of e)) /\ nondegenerateb e = true /\ validb e = true /\
              length (entries e) = 6
  | None => False
  end /\
  (* a key in two classifications: accepted by neither the check nor the abstraction *)
  CM.check_valid (to_content qtok_dec (mk_ext (hdr_of lx5) ((kt, (GConst, [JInt 1])) :: entries lx5))) = Err EInvalidExt /\
  of_content tokq_dec (to_content qtok_dec (mk_ext (hdr_of lx5) ((kt, (GConst, [JInt 1])) :: entries lx5))) = None.
Proof.
  split; [vm_compute; reflexivity|]. split; [|split; vm_compute; reflexivity].
  vm_compute. repeat split; try reflexivity. repeat constructor.
Qed.

(** both provisos are needed: contents that every gate accepts and that abstract to an extension which is NOT valid
    (1: positive extents hold, a multiplicity-one class holds three values; 2: [mult1_single] holds, a zero extent);
    and (3) the condition [of_content c = Some e] itself hides a blind spot: an accepted content with a key in a stale
    dictionary has NO abstraction *)
Theorem C10_gate_ext_refuted :
  (exists c e, CM.from_runtime_repr c = Ok c /\ of_content tokq_dec c = Some e /\
               Forall (fun n => 1 <= n) (shape (hdr_of e)) /\ ~ valid e) /\
  (exists c e, CM.from_runtime_repr c = Ok c /\ of_content tokq_dec c = Some e /\ mult1_single e /\ ~ valid e) /\
  (exists c, CM.from_runtime_repr c = Ok c /\ of_content tokq_dec c = None).
Proof.
  split; [|split].
  - exists (to_content qtok_dec lx_degenerate), lx_degenerate.
    split; [vm_compute; reflexivity|]. split; [vm_compute; reflexivity|].
    split; [repeat constructor | apply not_valid_b; vm_compute; reflexivity].
  - exists (to_content qtok_dec lx_zero), lx_zero.
    split; [vm_compute; reflexivity|]. split; [vm_compute; reflexivity|].
    split; [intros k c vs [[= <- <- <-]|[]] Hc; exfalso; apply Hc; reflexivity | apply not_valid_b; vm_compute; reflexivity].
  - exists (to_content qtok_dec lx_untight). split; vm_compute; reflexivity.
Qed.

(** every accepted content whose header and dictionaries are well typed ([typed]: positive int extents, readable affine
    and slice dimension, every class dictionary present a dict with distinct names, lists under varying classes)
    abstracts once the dictionaries of the classes that are not valid for its shape are dropped *)
Theorem C10_prune_abstracts :
  forall (tokq : str -> option Q) (c : jv),
    CM.check_valid c = Ok tt -> typed tokq c -> exists e, of_content tokq (prune_stale c) = Some e.
Proof. exact prune_abstracts. Qed.

Example C10_prune_abstracts_nonvacuous :
  CM.check_valid (to_content qtok_dec lx_untight) = Ok tt /\ typed tokq_dec (to_content qtok_dec lx_untight) /\
  of_content tokq_dec (to_content qtok_dec lx_untight) = None /\
  match of_content tokq_dec (prune_stale (to_content qtok_dec lx_untight)) with
  | Some e => entries e = [] /\ has_time (hdr_of e) = false /\ validb e = true
  | None => False
  end /\
  prune_stale (to_content qtok_dec lx5) = to_content qtok_dec lx5.
Proof.
  split; [vm_compute; reflexivity|]. split.
  - apply typed_to_content; [repeat constructor | apply aff_rt_dec_b; vm_compute; reflexivity|].
    intros c. unfold class_entries. cbn [entries lx_untight filter fst snd]. destruct (cls_eqb TSamples c); repeat constructor; intros [].
  - split; [vm_compute; reflexivity|]. split; [vm_compute; repeat split; reflexivity | vm_compute; reflexivity].
Qed.

(** the gates accept the content of every valid extension *)
Theorem C10_gates_accept_valid :
  forall (qtok : Q -> str) (reo : option (list (list Q))) (e : ext jv),
    valid e ->
    CM.from_runtime_repr (to_content_r qtok reo e) = Ok (to_content_r qtok reo e) /\
    (forall (parse : str -> res jv) s, parse s = Ok (to_content_r qtok reo e) -> CM.from_json parse s = Ok (to_content_r qtok reo e)) /\
    CM.wrapper_init [(TC.dcm_meta_ecode, to_content_r qtok reo e)] false JNull = Ok (Some 0, to_content_r qtok reo e).
Proof. exact gates_accept_valid. Qed.

Example C10_gates_accept_valid_nonvacuous :
  valid lx4 /\ CM.from_runtime_repr (to_content qtok_dec lx4) = Ok (to_content qtok_dec lx4) /\
  CM.wrapper_init [(0%Z, to_content qtok_dec lx_zero); (6%Z, JNull); (0%Z, JObj [])] false JNull = Err EKey.
Proof. split; [apply lx4_ok|]. split; vm_compute; reflexivity. Qed.

(** Against the LITERAL rules of the property ([Content.Rules.valid_rules]: positive extents, an affine of numbers,
    exactly `multiplicity` values as a list for every varying class -- multiplicity one included --, no key in two of
    the six class dictionaries) the two provisos disappear: validity of the working model IS the literal rules on the
    content.  ([storable]: the extension is the reading of a content dictionary -- every entry has a base dictionary,
    constants are singletons, the keys of one class are distinct; [hdr_tight]: base dictionaries exactly for the classes
    of the shape, as make_empty builds them.  The forward direction needs neither.) *)
Theorem C10_valid_iff_rules :
  forall (qtok : Q -> str) (reo : option (list (list Q))) (e : ext jv),
    (valid e -> CR.valid_rules (to_content_r qtok reo e) = true) /\
    (storable e -> hdr_tight (hdr_of e) -> (valid e <-> CR.valid_rules (to_content_r qtok reo e) = true)).
Proof. intros qtok e. split; [apply valid_rules_to | apply valid_iff_rules]. Qed.

Example C10_valid_iff_rules_nonvacuous :
  valid lx5 /\ storable lx5 /\ hdr_tight (hdr_of lx5) /\ CR.valid_rules (to_content qtok_dec lx5) = true /\
  (* the three contents that check_valid lets through are rejected by the literal rules, except the stale one *)
  CR.valid_rules (to_content qtok_dec lx_degenerate) = false /\ CR.valid_rules (to_content qtok_dec lx_zero) = false /\
  CR.valid_rules (to_content qtok_dec lx_stale) = true /\ ~ hdr_tight (hdr_of lx_stale).
Proof.
  split; [apply lx5_ok|]. split; [apply storable_of_valid, lx5_ok|]. split; [exact lx5_tight|].
  split; [vm_compute; reflexivity|]. split; [vm_compute; reflexivity|]. split; [vm_compute; reflexivity|].
  split; [vm_compute; reflexivity|]. intros H. specialize (H TSamples). discriminate H.
Qed.
