(** Source equality, extension algebra — theorems only (stage C, first part: _copy_slice).
    DcmMetaExtension._copy_slice(other, src_class, idx), TRANSLATED on every run in state-passing style with two instances
    (Generated/T_src_state.v [copy_slice_st]: `self` = the result being filled, `other` = the source, only read), refines
    the per-key model: it is Ext.Model.copy_slice_k applied to the keys of the source class dictionary in dictionary order
    ([copy_slice_all]; [SRC_copy_slice_step] says each step of that fold IS copy_slice_k), on a result content that holds the
    per-key states [f] (Ext/SrcEqState.v [Holds]) and does not hold the copied keys yet. *)
From Coq Require Import List Bool Arith NArith ZArith.
From DV Require Import Common.Res Common.Str Common.Jv Common.PyOps2 Common.PyOps2Dyn Generated.T_classes Generated.T_src_state
     Ext.Types Ext.Classes Ext.Seq Ext.Model Ext.SrcEqAlg Ext.SrcEqState Ext.SrcEqSubset.
Import ListNotations.
Local Open Scope nat_scope.

(** one step of the fold is the model's per-key function (ho = header of the source) *)
Theorem SRC_copy_slice_step : forall (ho hr : hdr) (c : cls) (vs : list jv) (idx : nat),
  copy_slice_k jv_eqb JNull ho hr c vs idx =
  bind (slice_dest hr c) (fun dest =>
  if negb (has_base hr (base_of dest)) then Err EKey else
  bind (multiplicity hr dest) (fun dm =>
  bind (slice_subset (n_slices ho) dm idx vs) (fun sub => simplify_k jv_eqb JNull hr (Some (dest, sub))))).
Proof. exact copy_slice_k_unfold. Qed.

(** hypotheses: the result content holds [f], 3..5-D result header whose valid classes have their base dictionaries; the source
    class dictionary is the list [d] of (key, values) with distinct keys the result does not hold; what is written for a key
    is storable ([slice_ok]: exactly one value for a constant, a valid non-degenerate class otherwise) *)
Theorem SRC_copy_slice : forall (o : list (str * jv)) (hr : hdr) (f : key -> kst jv) (ns_o : option nat) (ost : jv) (c : cls)
    (idx : nat) (d : list (key * list jv)),
  Holds o hr f -> ndim_ok hr = true -> bases_ok hr ->
  get_class_dict_st ost (name_of_cls c) = Ok (JObj (map (fun kv => (fst kv, JArr (snd kv))) d)) ->
  NoDup (map fst d) -> (forall k, In k (map fst d) -> f k = None) ->
  (forall dest dm k vs sub, slice_dest hr c = Ok dest -> multiplicity hr dest = Ok dm -> In (k, vs) d ->
                            slice_subset ns_o dm idx vs = Ok sub -> slice_ok hr dest sub) ->
  match copy_slice_all hr ns_o c idx d f with
  | Ok f' => exists o', copy_slice_st classifications (shape hr) (n_slices hr) (okeys const_tests) (okeys repeat_tests) (JObj o)
                                      ns_o ost (name_of_cls c) idx = Ok (tt, JObj o') /\ Holds o' hr f'
  | Err e => copy_slice_st classifications (shape hr) (n_slices hr) (okeys const_tests) (okeys repeat_tests) (JObj o)
                           ns_o ost (name_of_cls c) idx = Err e
  end.
Proof. exact copy_slice_st_ref. Qed.

(** non-vacuity: slice 1 of a 4-D source (3 slices x 2 times) with a per-time-slice key "s" and a global per-slice key "g"
    copied into an empty 3-D... here 4-D result of one slice *)
Definition ex_src : jv :=
  JObj [(name_of_base BGlobal, JObj [(name_of_sub SConst, JObj []);
                                      (name_of_sub SSlices, JObj [([103]%N, JArr (map JInt [0; 1; 2; 10; 11; 12]%Z))])]);
        (name_of_base BTime, JObj [(name_of_sub SSamples, JObj []); (name_of_sub SSlices, JObj [([115]%N, JArr (map JInt [7; 8; 9]%Z))])])].
Definition ex_res : jv :=
  JObj [(name_of_base BGlobal, JObj [(name_of_sub SConst, JObj []); (name_of_sub SSlices, JObj [])]);
        (name_of_base BTime, JObj [(name_of_sub SSamples, JObj []); (name_of_sub SSlices, JObj [])])].
Definition ex_hr : hdr := mk_hdr [2; 2; 1; 2] (Some 2) [] true false.

Example SRC_copy_slice_example :
  copy_slice_st classifications (shape ex_hr) (n_slices ex_hr) (okeys const_tests) (okeys repeat_tests) ex_res (Some 3) ex_src
                (name_of_cls TSlices) 1
  = Ok (tt, JObj [(name_of_base BGlobal, JObj [(name_of_sub SConst, JObj [([115]%N, JInt 8)]); (name_of_sub SSlices, JObj [])]);
                  (name_of_base BTime, JObj [(name_of_sub SSamples, JObj []); (name_of_sub SSlices, JObj [])])]) /\
  (exists st, copy_slice_st classifications (shape ex_hr) (n_slices ex_hr) (okeys const_tests) (okeys repeat_tests) ex_res (Some 3) ex_src
                            (name_of_cls GSlices) 1 = Ok (tt, st) /\
              get_class_dict_st st (name_of_cls TSamples) = Ok (JObj [([103]%N, JArr (map JInt [1; 11]%Z))])) /\
  slice_dest ex_hr GSlices = Ok TSamples /\ slice_subset (Some 3) 2 1 (map JInt [0; 1; 2; 10; 11; 12]%Z) = Ok (map JInt [1; 11]%Z) /\
  slice_ok ex_hr TSamples (map JInt [1; 11]%Z).
Proof.
  split; [vm_compute; reflexivity|]. split; [eexists; split; vm_compute; reflexivity|].
  split; [reflexivity|]. split; [reflexivity|].
  split; [split; intros H; discriminate H|]. split; [reflexivity|]. split; [intros _; vm_compute; discriminate | intros _; discriminate].
Qed.
